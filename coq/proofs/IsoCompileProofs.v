(* C07: what _compile_query promises ([compiled_ok]) -- by invariants of the explicit-stack depth-first search. *)
From Coq Require Import ZArith List Bool Lia Permutation.
From Model Require Import PyBase Iso.
From Proofs Require Import IsoMatchProofs.
Import ListNotations.
Local Open Scope Z_scope.

Section Compile.
  Variables QA QB : Type.
  Variable atoms : list (Z * QA).
  Variable bonds : list (Z * list (Z * QB)).
  Hypothesis wf : wf_adj atoms bonds.

  Notation lentry := (lentry QA QB).
  Notation closures_t := (closures_t QB).
  Notation lin := (lin_ok atoms bonds).
  Notation aof := (map (@fst4 QA QB)).

  (* ---------- closures[k].append(item) ---------- *)
  Lemma clo_append_same (c : closures_t) k item : clo_get (clo_append c k item) k = clo_get c k ++ [item].
  Proof.
    unfold clo_get, adj_get. induction c as [|[k' l] c IH]; cbn.
    - rewrite Z.eqb_refl. reflexivity.
    - destruct (Z.eqb_spec k k'); cbn.
      + subst. rewrite Z.eqb_refl. reflexivity.
      + destruct (Z.eqb_spec k k'); [congruence | exact IH].
  Qed.

  Lemma clo_append_other (c : closures_t) k item x : x <> k -> clo_get (clo_append c k item) x = clo_get c x.
  Proof.
    intros Hx. unfold clo_get, adj_get. induction c as [|[k' l] c IH]; cbn.
    - destruct (Z.eqb_spec x k); [congruence | reflexivity].
    - destruct (Z.eqb_spec k k'); cbn.
      + subst. destruct (Z.eqb_spec x k'); [congruence | reflexivity].
      + destruct (Z.eqb_spec x k'); [reflexivity | exact IH].
  Qed.

  (* ---------- lin_ok under changes of the closure table and under appending ---------- *)
  Lemma lin_ok_ext (clo clo' : closures_t) : forall rest pre,
    (forall x, In x (aof rest) -> clo_get clo' x = clo_get clo x) -> lin clo pre rest -> lin clo' pre rest.
  Proof.
    induction rest as [|[[[s_n back] a] b] rest IH]; intros pre Hx H; [exact I|].
    cbn [lin_ok] in *. rewrite (Hx s_n) by (left; reflexivity).
    destruct H as (H1 & H2 & H3 & H4 & H5 & H6). repeat (split; [assumption|]).
    apply IH; [|exact H6]. intros x Hin. apply Hx. right. exact Hin.
  Qed.

  Lemma lin_ok_snoc (clo : closures_t) : forall r1 pre e,
    lin clo pre r1 -> lin clo (pre ++ aof r1) [e] -> lin clo pre (r1 ++ [e]).
  Proof.
    induction r1 as [|[[[s_n back] a] b] r1 IH]; intros pre e H1 H2.
    - cbn in H2 |- *. rewrite app_nil_r in H2. exact H2.
    - cbn [app lin_ok] in *. destruct H1 as (A1 & A2 & A3 & A4 & A5 & A6). repeat (split; [assumption|]).
      apply IH; [exact A6|]. cbn [map fst4] in H2. rewrite <- app_assoc. exact H2.
  Qed.

  Lemma lin_ok_app_inv (clo : closures_t) : forall r1 pre r2,
    lin clo pre (r1 ++ r2) -> lin clo pre r1 /\ lin clo (pre ++ aof r1) r2.
  Proof.
    induction r1 as [|[[[s_n back] a] b] r1 IH]; intros pre r2 H.
    - cbn. rewrite app_nil_r. split; [exact I | exact H].
    - cbn [app lin_ok] in H. destruct H as (A1 & A2 & A3 & A4 & A5 & A6).
      destruct (IH _ _ A6) as [B1 B2]. split.
      + cbn [lin_ok]. repeat (split; [assumption|]). exact B1.
      + cbn [map fst4]. rewrite <- app_assoc in B2. exact B2.
  Qed.

  (* ---------- adjacency facts ---------- *)
  Lemma adj_NoDup n : NoDup (keys (adj_get bonds n)).
  Proof. destruct wf as (_ & _ & _ & H & _). apply H. Qed.
  Lemma bond_In n m bd : In (m, bd) (adj_get bonds n) <-> bond_get bonds n m = Some bd.
  Proof. unfold bond_get. split; [apply In_zget, adj_NoDup | apply zget_In]. Qed.
  Lemma adj_sym n m : In m (keys (adj_get bonds n)) -> In n (keys (adj_get bonds m)).
  Proof.
    destruct wf as (_ & _ & _ & _ & _ & S). intros H. destruct (In_key_zget _ _ H) as [bd Hbd].
    fold (bond_get bonds n m) in Hbd. rewrite S in Hbd. apply zget_Some_key in Hbd. exact Hbd.
  Qed.
  Lemma adj_get_zget n nbs : zget bonds n = Some nbs -> adj_get bonds n = nbs.
  Proof. unfold adj_get. intros ->. reflexivity. Qed.

  (* ---------- the for loop over reversed(bonds[front].items()) ---------- *)
  Lemma cq_scan_spec front back seen : forall (nbs : list (Z * QB)) (stack : list lentry) (clo : closures_t) stack' clo',
    cq_scan atoms front back seen nbs stack clo = Ok (stack', clo') ->
    exists pushed, stack' = pushed ++ stack /\
      (forall e, In e pushed -> exists n bond a, e = (n, Some front, a, Some bond) /\ In (n, bond) nbs /\ zget atoms n = Some a) /\
      (forall n bond, In (n, bond) nbs -> opt_is back n = false -> zmem n seen = false ->
                      exists a, In (n, Some front, a, Some bond) pushed) /\
      clo_get clo' front = clo_get clo front ++ filter (fun nb => negb (opt_is back (fst nb)) && zmem (fst nb) seen) nbs /\
      (forall x, x <> front -> clo_get clo' x = clo_get clo x).
  Proof.
    induction nbs as [|[n bond] r IH]; intros stack clo stack' clo' H.
    - cbn in H. injection H as <- <-. exists []. split; [reflexivity|]. split; [intros e []|]. split; [intros n bond []|].
      split; [cbn; rewrite app_nil_r; reflexivity | intros; reflexivity].
    - cbn [cq_scan] in H. cbn [filter fst].
      destruct (opt_is back n) eqn:Eb.
      + destruct (IH _ _ _ _ H) as (pushed & -> & P1 & P2 & P3 & P4). exists pushed. split; [reflexivity|]. split; [|split; [|split]].
        * intros e He. destruct (P1 e He) as (n1 & b1 & a1 & -> & Hin & Ha). exists n1, b1, a1. split; [reflexivity|]. split; [right; exact Hin | exact Ha].
        * intros n1 b1 [E|Hin] Hb Hs; [injection E as -> ->; congruence | apply P2; assumption].
        * cbn [negb andb]. exact P3.
        * exact P4.
      + destruct (zmem n seen) eqn:Es.
        * destruct (IH _ _ _ _ H) as (pushed & -> & P1 & P2 & P3 & P4). exists pushed. split; [reflexivity|]. split; [|split; [|split]].
          -- intros e He. destruct (P1 e He) as (n1 & b1 & a1 & -> & Hin & Ha). exists n1, b1, a1. split; [reflexivity|]. split; [right; exact Hin | exact Ha].
          -- intros n1 b1 [E|Hin] Hb Hs; [injection E as -> ->; congruence | apply P2; assumption].
          -- cbn [negb andb]. rewrite P3, clo_append_same, <- app_assoc. reflexivity.
          -- intros x Hx. rewrite P4 by exact Hx. apply clo_append_other. exact Hx.
        * destruct (zget atoms n) as [a|] eqn:Ea; [|discriminate].
          destruct (IH _ _ _ _ H) as (pushed & -> & P1 & P2 & P3 & P4).
          exists (pushed ++ [(n, Some front, a, Some bond)]). split; [rewrite <- app_assoc; reflexivity|]. split; [|split; [|split]].
          -- intros e He. apply in_app_or in He. destruct He as [He|[<-|[]]].
             ++ destruct (P1 e He) as (n1 & b1 & a1 & -> & Hin & Ha). exists n1, b1, a1. split; [reflexivity|]. split; [right; exact Hin | exact Ha].
             ++ exists n, bond, a. split; [reflexivity|]. split; [left; reflexivity | exact Ea].
          -- intros n1 b1 [E|Hin] Hb Hs.
             ++ injection E as <- <-. exists a. apply in_or_app. right. left. reflexivity.
             ++ destruct (P2 _ _ Hin Hb Hs) as [a1 Ha1]. exists a1. apply in_or_app. left. exact Ha1.
          -- cbn [negb andb]. exact P3.
          -- exact P4.
  Qed.

  (* stack = [(n, start, atoms[n], bond) for n, bond in reversed(bonds[start].items())] *)
  Lemma cq_init_spec start : forall (nbs : list (Z * QB)) (stack stack' : list lentry),
    cq_init atoms start nbs stack = Ok stack' ->
    exists pushed, stack' = pushed ++ stack /\
      (forall e, In e pushed -> exists n bond a, e = (n, Some start, a, Some bond) /\ In (n, bond) nbs /\ zget atoms n = Some a) /\
      (forall n bond, In (n, bond) nbs -> exists a, In (n, Some start, a, Some bond) pushed).
  Proof.
    induction nbs as [|[n bond] r IH]; intros stack stack' H.
    - cbn in H. injection H as <-. exists []. split; [reflexivity|]. split; [intros e [] | intros n bond []].
    - cbn [cq_init] in H. destruct (zget atoms n) as [a|] eqn:Ea; [|discriminate].
      destruct (IH _ _ H) as (pushed & -> & P1 & P2).
      exists (pushed ++ [(n, Some start, a, Some bond)]). split; [rewrite <- app_assoc; reflexivity|]. split.
      + intros e He. apply in_app_or in He. destruct He as [He|[<-|[]]].
        * destruct (P1 e He) as (n1 & b1 & a1 & -> & Hin & Ha). exists n1, b1, a1. split; [reflexivity|]. split; [right; exact Hin | exact Ha].
        * exists n, bond, a. split; [reflexivity|]. split; [left; reflexivity | exact Ea].
      + intros n1 b1 [E|Hin].
        * injection E as <- <-. exists a. apply in_or_app. right. left. reflexivity.
        * destruct (P2 _ _ Hin) as [a1 Ha1]. exists a1. apply in_or_app. left. exact Ha1.
  Qed.

  (* ---------- totality of the two for loops; the measure that bounds the number of pops ---------- *)
  Lemma nb_is_atom n m : In m (keys (adj_get bonds n)) -> exists a, zget atoms m = Some a.
  Proof. destruct wf as (_ & _ & _ & _ & H & _). intros Hm. apply In_key_zget. apply (H n m Hm). Qed.

  Lemma atom_has_adj n : In n (keys atoms) -> exists nbs, zget bonds n = Some nbs.
  Proof. destruct wf as (_ & _ & H & _). intros Hn. apply In_key_zget. apply H. exact Hn. Qed.

  Lemma cq_scan_total front back seen : forall (nbs : list (Z * QB)) (stack : list lentry) (clo : closures_t),
    (forall n bond, In (n, bond) nbs -> exists a, zget atoms n = Some a) ->
    exists stack' clo', cq_scan atoms front back seen nbs stack clo = Ok (stack', clo') /\ (length stack' <= length nbs + length stack)%nat.
  Proof.
    induction nbs as [|[n bond] r IH]; intros stack clo Hat; cbn [cq_scan length].
    - exists stack, clo. split; [reflexivity | lia].
    - assert (Hr : forall n' bond', In (n', bond') r -> exists a, zget atoms n' = Some a) by (intros; apply (Hat n' bond'); right; assumption).
      destruct (opt_is back n).
      + destruct (IH stack clo Hr) as (s' & c' & E & L). exists s', c'. split; [exact E | lia].
      + destruct (zmem n seen).
        * destruct (IH stack (clo_append clo front (n, bond)) Hr) as (s' & c' & E & L). exists s', c'. split; [exact E | lia].
        * destruct (Hat n bond (or_introl eq_refl)) as [a ->].
          destruct (IH ((n, Some front, a, Some bond) :: stack) clo Hr) as (s' & c' & E & L). exists s', c'. split; [exact E | cbn [length] in L; lia].
  Qed.

  Lemma cq_init_total start : forall (nbs : list (Z * QB)) (stack : list lentry),
    (forall n bond, In (n, bond) nbs -> exists a, zget atoms n = Some a) ->
    exists stack', cq_init atoms start nbs stack = Ok stack' /\ (length stack' <= length nbs + length stack)%nat.
  Proof.
    induction nbs as [|[n bond] r IH]; intros stack Hat; cbn [cq_init length].
    - exists stack. split; [reflexivity | lia].
    - destruct (Hat n bond (or_introl eq_refl)) as [a ->].
      destruct (IH ((n, Some start, a, Some bond) :: stack)) as (s' & E & L); [intros; apply (Hat n0 bond0); right; assumption|].
      exists s'. split; [exact E | cbn [length] in L; lia].
  Qed.

  Lemma adj_rev_atoms n nbs : zget bonds n = Some nbs -> forall m bond, In (m, bond) (rev nbs) -> exists a, zget atoms m = Some a.
  Proof.
    intros Hn m bond Hin. apply in_rev in Hin. apply (nb_is_atom n). rewrite (adj_get_zget _ _ Hn).
    apply (in_map fst) in Hin. exact Hin.
  Qed.

  (* sum of the degrees of the atoms not yet seen *)
  Definition udeg (seen : list Z) (b : list (Z * list (Z * QB))) : nat :=
    fold_right (fun nl acc => ((if zmem (fst nl) seen then O else length (snd nl)) + acc)%nat) O b.

  Lemma udeg_le_edges seen : forall b, (udeg seen b <= edge_count b)%nat.
  Proof.
    unfold edge_count. induction b as [|[n l] b IH]; cbn [udeg fold_right map concat fst snd]; [cbn; lia|].
    rewrite app_length. fold (udeg seen b). destruct (zmem n seen); lia.
  Qed.

  Lemma udeg_mono x seen : forall b, (udeg (x :: seen) b <= udeg seen b)%nat.
  Proof.
    induction b as [|[n l] b IH]; cbn [udeg fold_right fst snd]; [lia|]. fold (udeg (x :: seen) b). fold (udeg seen b).
    unfold zmem at 1. cbn [existsb]. fold (zmem n seen). destruct (n =? x); cbn [orb]; destruct (zmem n seen); lia.
  Qed.

  Lemma udeg_visit x seen nbs : forall b, zget b x = Some nbs -> zmem x seen = false ->
    (udeg (x :: seen) b + length nbs <= udeg seen b)%nat.
  Proof.
    induction b as [|[n l] b IH]; intros H Hs; [discriminate|]. cbn [zget] in H. cbn [udeg fold_right fst snd].
    fold (udeg (x :: seen) b). fold (udeg seen b). unfold zmem at 1. cbn [existsb]. fold (zmem n seen).
    destruct (Z.eqb_spec x n) as [->|Hne].
    - injection H as ->. rewrite Z.eqb_refl, Hs. cbn [orb]. pose proof (udeg_mono n seen b). lia.
    - specialize (IH H Hs). destruct (Z.eqb_spec n x); [congruence|]. cbn [orb]. destruct (zmem n seen); lia.
  Qed.

  Lemma cq_dfs_seen_mono : forall fuel stack order clo seen order' clo' seen',
    cq_dfs fuel atoms bonds stack order clo seen = Ok (order', clo', seen') -> incl seen seen'.
  Proof.
    induction fuel as [|fuel IH]; intros stack order clo seen order' clo' seen' H; [discriminate|].
    cbn [cq_dfs] in H. destruct stack as [|[[[front back] a] b] st].
    - injection H as _ _ <-. apply incl_refl.
    - destruct (zmem front seen); [apply (IH _ _ _ _ _ _ _ H)|].
      destruct (zget bonds front) as [nbs|]; [|discriminate].
      destruct (cq_scan atoms front back seen (rev nbs) st clo) as [[st' clo1]|]; [|discriminate].
      intros y Hy. apply (IH _ _ _ _ _ _ _ H). right. exact Hy.
  Qed.

  (* ---------- the inner while loop: invariant ---------- *)
  Section Inner.
    Variable seen0 : list Z.                 (* atoms of the components finished before *)
    Variable clo0 : closures_t.
    Hypothesis seen0_closed : forall x m, In x seen0 -> In m (keys (adj_get bonds x)) -> In m seen0.

    Definition dfs_inv (stack order : list lentry) (clo : closures_t) (seen : list Z) : Prop :=
      seen = rev (aof order) ++ seen0 /\
      NoDup seen /\
      order <> [] /\
      lin clo [] order /\
      (forall n back a b, In (n, back, a, b) stack ->
         exists bk bd, back = Some bk /\ b = Some bd /\ In bk (aof order) /\ bond_get bonds bk n = Some bd /\ zget atoms n = Some a) /\
      (forall x, ~ In x seen -> clo_get clo x = []) /\
      (forall x, In x seen0 -> clo_get clo x = clo_get clo0 x) /\
      (forall x m, In x (aof order) -> In m (keys (adj_get bonds x)) ->
         In m seen \/ exists a bd, In (m, Some x, a, Some bd) stack) /\
      incl seen (keys atoms).

    Lemma inv_discard front back a b st order clo seen :
      dfs_inv ((front, back, a, b) :: st) order clo seen -> In front seen -> dfs_inv st order clo seen.
    Proof.
      intros (I1 & I2 & I3 & I4 & I5 & I6 & I7 & I8 & I9) Hs.
      unfold dfs_inv. repeat (split; [assumption|]). split; [|split; [assumption|]]. 2: split; [assumption|]. 2: split; [|assumption].
      - intros n bk a1 b1 Hin. apply (I5 n bk a1 b1). right. exact Hin.
      - intros x m Hx Hm. destruct (I8 x m Hx Hm) as [H|(a1 & bd & [E|H])].
        + left. exact H.
        + injection E as -> _ _ _. left. exact Hs.
        + right. eauto.
    Qed.

    Lemma inv_visit front back a b st order clo seen nbs st' clo' :
      dfs_inv ((front, back, a, b) :: st) order clo seen -> ~ In front seen ->
      zget bonds front = Some nbs ->
      cq_scan atoms front back seen (rev nbs) st clo = Ok (st', clo') ->
      dfs_inv st' (order ++ [(front, back, a, b)]) clo' (front :: seen).
    Proof.
      intros (I1 & I2 & I3 & I4 & I5 & I6 & I7 & I8 & I9) Hs Hnbs Hscan.
      destruct (cq_scan_spec _ _ _ _ _ _ _ _ Hscan) as (pushed & -> & P1 & P2 & P3 & P4).
      destruct (I5 front back a b (or_introl eq_refl)) as (bk & bd & -> & -> & Hbk & Hbond & Ha).
      pose proof (adj_get_zget _ _ Hnbs) as Eadj.
      assert (Hfront0 : ~ In front seen0) by (intros H; apply Hs; rewrite I1; apply in_or_app; right; exact H).
      assert (Hord_seen : forall x, In x (aof order) -> In x seen) by (intros x H; rewrite I1; apply in_or_app; left; apply -> in_rev; exact H).
      (* a neighbour of front that was seen belongs to this component *)
      assert (Hnb_seen : forall m, In m (keys (adj_get bonds front)) -> In m seen -> In m (aof order)).
      { intros m Hm Hin. rewrite I1 in Hin. apply in_app_or in Hin. destruct Hin as [H|H]; [apply in_rev; exact H|].
        exfalso. apply Hfront0. apply (seen0_closed m front H). apply adj_sym. exact Hm. }
      unfold dfs_inv. split; [|split; [|split; [|split; [|split; [|split; [|split; [|split]]]]]]].
      - rewrite map_app, rev_app_distr. cbn [map fst4 rev app]. rewrite I1. reflexivity.
      - constructor; assumption.
      - intros H. apply app_eq_nil in H. destruct H; discriminate.
      - apply lin_ok_snoc.
        + apply (lin_ok_ext clo); [|exact I4]. intros x Hx. apply P4. intros ->. apply Hs, Hord_seen, Hx.
        + cbn [app lin_ok]. split; [intros H; apply Hs, Hord_seen, H|]. split; [exact Ha|]. split.
          { destruct (aof order) eqn:E; [destruct order; [congruence | discriminate]|]. exists bk, bd. split; [reflexivity|]. split; [reflexivity|]. split; [exact Hbk | exact Hbond]. }
          rewrite P3, (I6 front Hs). cbn [app]. split; [|split; [|exact I]].
          * apply NoDup_keys_filter. unfold keys. rewrite map_rev. apply NoDup_rev. rewrite <- Eadj. apply adj_NoDup.
          * intros m bdm. rewrite filter_In. cbn [fst]. rewrite <- in_rev. rewrite <- Eadj, bond_In. split.
            -- intros (Hb & Hc). apply andb_prop in Hc. destruct Hc as [Hc1 Hc2]. apply zmem_In in Hc2.
               split; [|split; [|exact Hb]].
               ++ apply Hnb_seen; [|exact Hc2]. unfold bond_get in Hb. apply zget_Some_key in Hb. exact Hb.
               ++ intros E. injection E as ->. cbn in Hc1. rewrite Z.eqb_refl in Hc1. discriminate.
            -- intros (Hp & Hb & Hq). split; [exact Hq|]. apply andb_true_intro. split.
               ++ cbn. apply negb_true_iff, Z.eqb_neq. intros ->. apply Hb. reflexivity.
               ++ apply zmem_In, Hord_seen, Hp.
      - intros n back1 a1 b1 Hin. rewrite map_app. apply in_app_or in Hin. destruct Hin as [Hin|Hin].
        + destruct (P1 _ Hin) as (n1 & bond1 & a2 & E & Hnb & Ha2). injection E as -> -> -> ->.
          exists front, bond1. split; [reflexivity|]. split; [reflexivity|]. split; [apply in_or_app; right; left; reflexivity|].
          split; [|exact Ha2]. apply bond_In. rewrite Eadj. apply in_rev. exact Hnb.
        + destruct (I5 n back1 a1 b1 (or_intror Hin)) as (bk1 & bd1 & E1 & E2 & H3 & H4 & H5).
          exists bk1, bd1. repeat (split; [assumption|]). split; [apply in_or_app; left; exact H3|]. split; assumption.
      - intros x Hx. rewrite P4 by (intros ->; apply Hx; left; reflexivity). apply I6. intros H. apply Hx. right. exact H.
      - intros x Hx. rewrite P4 by (intros ->; contradiction). apply I7. exact Hx.
      - intros x m Hx Hm. rewrite map_app in Hx. apply in_app_or in Hx. destruct Hx as [Hx|[<-|[]]].
        + destruct (I8 x m Hx Hm) as [H|(a1 & bd1 & [E|H])].
          * left. right. exact H.
          * injection E as -> _ _ _. left. left. reflexivity.
          * right. exists a1, bd1. apply in_or_app. right. exact H.
        + cbn [fst4] in Hm |- *. destruct (In_key_zget _ _ Hm) as [bdm Hbdm]. apply zget_In in Hbdm.
          destruct (opt_is (Some bk) m) eqn:Eo.
          * cbn in Eo. apply Z.eqb_eq in Eo. subst m. left. right. apply Hord_seen. exact Hbk.
          * destruct (zmem m seen) eqn:Ez.
            -- left. right. apply zmem_In. exact Ez.
            -- right. rewrite Eadj in Hbdm. apply in_rev in Hbdm. destruct (P2 _ _ Hbdm Eo Ez) as [a1 Ha1].
               exists a1, bdm. apply in_or_app. left. exact Ha1.
      - intros x [<-|Hx]; [apply zget_Some_key in Ha; exact Ha | apply I9; exact Hx].
    Qed.

    Lemma cq_dfs_inv : forall fuel stack order clo seen order' clo' seen',
      dfs_inv stack order clo seen ->
      cq_dfs fuel atoms bonds stack order clo seen = Ok (order', clo', seen') ->
      dfs_inv [] order' clo' seen'.
    Proof.
      induction fuel as [|fuel IH]; intros stack order clo seen order' clo' seen' Hinv H; [discriminate|].
      cbn [cq_dfs] in H. destruct stack as [|[[[front back] a] b] st].
      - injection H as <- <- <-. exact Hinv.
      - destruct (zmem front seen) eqn:Es.
        + apply (IH _ _ _ _ _ _ _ (inv_discard _ _ _ _ _ _ _ _ Hinv (proj1 (zmem_In _ _) Es)) H).
        + destruct (zget bonds front) as [nbs|] eqn:Enbs; [|discriminate].
          destruct (cq_scan atoms front back seen (rev nbs) st clo) as [[st' clo1]|] eqn:Escan; [|discriminate].
          apply (IH _ _ _ _ _ _ _ (inv_visit _ _ _ _ _ _ _ _ _ _ _ Hinv ltac:(intros Hc; apply zmem_In in Hc; congruence) Enbs Escan) H).
    Qed.

    (* the fuel S (edge_count bonds) is never exhausted and no KeyError is raised *)
    Lemma cq_dfs_total : forall fuel stack order clo seen,
      dfs_inv stack order clo seen -> (length stack + udeg seen bonds < fuel)%nat ->
      exists r, cq_dfs fuel atoms bonds stack order clo seen = Ok r.
    Proof.
      induction fuel as [|fuel IH]; intros stack order clo seen Hinv Hm; [lia|].
      cbn [cq_dfs]. destruct stack as [|[[[front back] a] b] st]; [eexists; reflexivity|]. cbn [length] in Hm.
      destruct (zmem front seen) eqn:Es.
      - apply IH; [apply (inv_discard _ _ _ _ _ _ _ _ Hinv (proj1 (zmem_In _ _) Es)) | lia].
      - pose proof Hinv as (_ & _ & _ & _ & I5 & _).
        destruct (I5 front back a b (or_introl eq_refl)) as (_ & _ & _ & _ & _ & _ & Ha).
        destruct (atom_has_adj front (zget_Some_key _ _ _ Ha)) as [nbs Enbs]. rewrite Enbs.
        destruct (cq_scan_total front back seen (rev nbs) st clo (adj_rev_atoms front nbs Enbs)) as (st' & clo' & Escan & L).
        rewrite Escan. rewrite rev_length in L.
        apply IH.
        + apply (inv_visit _ _ _ _ _ _ _ _ _ _ _ Hinv ltac:(intros Hc; apply zmem_In in Hc; congruence) Enbs Escan).
        + pose proof (udeg_visit front seen nbs bonds Enbs Es). lia.
    Qed.
  End Inner.

  (* ---------- the outer while loop ---------- *)
  Definition out_inv (comps : list (list lentry)) (clo : closures_t) (seen : list Z) : Prop :=
    seen = rev (concat (map aof comps)) /\ NoDup seen /\ incl seen (keys atoms) /\
    (forall c, In c comps -> c <> [] /\ lin clo [] c) /\
    (forall c n m, In c comps -> In n (aof c) -> In m (keys (adj_get bonds n)) -> In m (aof c)) /\
    (forall x, ~ In x seen -> clo_get clo x = []).

  Lemma cq_outer_unfold iter comps (clo : closures_t) seen :
    cq_outer atoms bonds iter comps clo seen =
    if (length seen <? length atoms)%nat then
      match iter with
      | [] => Err StopIteration
      | x :: iter' =>
          if zmem x seen then cq_outer atoms bonds iter' comps clo seen
          else
            match zget bonds x with
            | None => Err KeyError
            | Some nbs =>
                match cq_init atoms x (rev nbs) [] with
                | Err e => Err e
                | Ok stack =>
                    match zget atoms x with
                    | None => Err KeyError
                    | Some a0 =>
                        match cq_dfs (S (edge_count bonds)) atoms bonds stack [(x, None, a0, None)] clo (x :: seen) with
                        | Err e => Err e
                        | Ok (order, clo', seen') => cq_outer atoms bonds iter' (comps ++ [order]) clo' seen'
                        end
                    end
                end
            end
      end
    else Ok (comps, clo).
  Proof. destruct iter; reflexivity. Qed.

  Lemma NoDup_app_disj {T} (a c : list T) x : NoDup (a ++ c) -> In x a -> In x c -> False.
  Proof.
    induction a as [|y a IH]; intros H Ha Hc; [destruct Ha|]. cbn in H. inversion H as [|? ? Hy Hn]; subst.
    destruct Ha as [->|Ha]; [apply Hy; apply in_or_app; right; exact Hc | apply IH; assumption].
  Qed.

  Lemma seen_closed comps clo seen : out_inv comps clo seen ->
    forall x m, In x seen -> In m (keys (adj_get bonds x)) -> In m seen.
  Proof.
    intros (O1 & _ & _ & _ & O5 & _) x m Hx Hm. rewrite O1 in Hx |- *. apply in_rev in Hx. apply -> in_rev.
    apply in_concat in Hx. destruct Hx as (l & Hl & Hx). apply in_map_iff in Hl. destruct Hl as (c & <- & Hc).
    apply in_concat. exists (aof c). split; [apply in_map; exact Hc | apply (O5 c x m); assumption].
  Qed.

  Lemma out_inv_step comps clo seen x nbs stack a0 order clo1 seen1 :
    out_inv comps clo seen -> In x (keys atoms) -> ~ In x seen ->
    zget bonds x = Some nbs -> cq_init atoms x (rev nbs) [] = Ok stack -> zget atoms x = Some a0 ->
    cq_dfs (S (edge_count bonds)) atoms bonds stack [(x, None, a0, None)] clo (x :: seen) = Ok (order, clo1, seen1) ->
    out_inv (comps ++ [order]) clo1 seen1.
  Proof.
    intros Hinv Hx Hs Hnbs Hinit Ha Hdfs.
    pose proof (seen_closed _ _ _ Hinv) as Hclosed.
    destruct Hinv as (O1 & O2 & O3 & O4 & O5 & O6).
    pose proof (adj_get_zget _ _ Hnbs) as Eadj.
    destruct (cq_init_spec _ _ _ _ Hinit) as (pushed & -> & Q1 & Q2). rewrite app_nil_r in Hdfs.
    assert (Hinv0 : dfs_inv seen clo pushed [(x, None, a0, None)] clo (x :: seen)).
    { unfold dfs_inv. split; [reflexivity|]. split; [constructor; assumption|]. split; [discriminate|]. split; [|split; [|split; [|split; [|split]]]].
      - cbn [lin_ok]. split; [intros []|]. split; [exact Ha|]. split; [split; reflexivity|].
        rewrite (O6 x Hs). split; [constructor|]. split; [|exact I]. intros m bd. split; [intros [] | intros ([] & _)].
      - intros n back a b Hin. destruct (Q1 _ Hin) as (n1 & bond & a1 & E & Hnb & Ha1). injection E as -> -> -> ->.
        exists x, bond. split; [reflexivity|]. split; [reflexivity|]. split; [left; reflexivity|]. split; [|exact Ha1].
        apply bond_In. rewrite Eadj. apply in_rev. exact Hnb.
      - intros y Hy. apply O6. intros H. apply Hy. right. exact H.
      - intros; reflexivity.
      - intros y m [<-|[]] Hm. cbn [fst4] in Hm. destruct (In_key_zget _ _ Hm) as [bd Hbd]. apply zget_In in Hbd.
        rewrite Eadj in Hbd. apply in_rev in Hbd. destruct (Q2 _ _ Hbd) as [a1 Ha1]. right. eauto.
      - intros y [<-|Hy]; [exact Hx | apply O3; exact Hy]. }
    pose proof (cq_dfs_inv seen clo Hclosed _ _ _ _ _ _ _ _ Hinv0 Hdfs) as (I1 & I2 & I3 & I4 & I5 & I6 & I7 & I8 & I9).
    unfold out_inv. split; [|split; [exact I2|split; [exact I9|split; [|split]]]].
    - rewrite map_app, concat_app. cbn [map concat]. rewrite app_nil_r, rev_app_distr, <- O1. exact I1.
    - intros c Hc. apply in_app_or in Hc. destruct Hc as [Hc|[<-|[]]]; [|split; assumption].
      destruct (O4 c Hc) as [Hne Hl]. split; [exact Hne|]. apply (lin_ok_ext clo); [|exact Hl].
      intros y Hy. apply I7. rewrite O1. apply -> in_rev. apply in_concat. exists (aof c). split; [apply in_map; exact Hc | exact Hy].
    - intros c n m Hc Hn Hm. apply in_app_or in Hc. destruct Hc as [Hc|[<-|[]]]; [apply (O5 c n m); assumption|].
      destruct (I8 n m Hn Hm) as [H|(? & ? & [])]. rewrite I1 in H. apply in_app_or in H. destruct H as [H|H]; [apply in_rev; exact H|].
      exfalso. rewrite I1 in I2. apply (NoDup_app_disj _ _ n I2); [apply -> in_rev; exact Hn|].
      apply (Hclosed m n H). apply adj_sym. exact Hm.
    - exact I6.
  Qed.

  Lemma cq_outer_inv : forall iter comps clo seen comps' clo',
    incl iter (keys atoms) -> out_inv comps clo seen ->
    cq_outer atoms bonds iter comps clo seen = Ok (comps', clo') ->
    out_inv comps' clo' (rev (concat (map aof comps'))) /\ (length atoms <= length (concat (map aof comps')))%nat.
  Proof.
    induction iter as [|x iter IH]; intros comps clo seen comps' clo' Hit Hinv H; rewrite cq_outer_unfold in H.
    - destruct (Nat.ltb_spec (length seen) (length atoms)); [discriminate|]. injection H as <- <-.
      destruct Hinv as (O1 & O2). split; [rewrite <- O1; split; assumption|]. rewrite O1, rev_length in H0. exact H0.
    - destruct (Nat.ltb_spec (length seen) (length atoms)).
      2:{ injection H as <- <-. destruct Hinv as (O1 & O2). split; [rewrite <- O1; split; assumption|]. rewrite O1, rev_length in H0. exact H0. }
      assert (Hit' : incl iter (keys atoms)) by (intros y Hy; apply Hit; right; exact Hy).
      destruct (zmem x seen) eqn:Es; [apply (IH _ _ _ _ _ Hit' Hinv H)|].
      destruct (zget bonds x) as [nbs|] eqn:Enbs; [|discriminate].
      destruct (cq_init atoms x (rev nbs) []) as [stack|] eqn:Einit; [|discriminate].
      destruct (zget atoms x) as [a0|] eqn:Ea; [|discriminate].
      destruct (cq_dfs (S (edge_count bonds)) atoms bonds stack [(x, None, a0, None)] clo (x :: seen)) as [[[order clo1] seen1]|] eqn:Edfs; [|discriminate].
      apply (IH _ _ _ _ _ Hit') in H; [exact H|].
      apply (out_inv_step comps clo seen x nbs stack a0); try assumption.
      + apply Hit. left. reflexivity.
      + intros Hc. apply zmem_In in Hc. congruence.
  Qed.

  Lemma dfs_inv_init comps clo seen x nbs stack a0 :
    out_inv comps clo seen -> In x (keys atoms) -> ~ In x seen ->
    zget bonds x = Some nbs -> cq_init atoms x (rev nbs) [] = Ok stack -> zget atoms x = Some a0 ->
    dfs_inv seen clo stack [(x, None, a0, None)] clo (x :: seen).
  Proof.
    intros Hinv Hx Hs Hnbs Hinit Ha.
    destruct Hinv as (O1 & O2 & O3 & O4 & O5 & O6).
    pose proof (adj_get_zget _ _ Hnbs) as Eadj.
    destruct (cq_init_spec _ _ _ _ Hinit) as (pushed & -> & Q1 & Q2). rewrite app_nil_r.
    unfold dfs_inv. split; [reflexivity|]. split; [constructor; assumption|]. split; [discriminate|]. split; [|split; [|split; [|split; [|split]]]].
    - cbn [lin_ok]. split; [intros []|]. split; [exact Ha|]. split; [split; reflexivity|].
      rewrite (O6 x Hs). split; [constructor|]. split; [|exact I]. intros m bd. split; [intros [] | intros ([] & _)].
    - intros n back a b Hin. destruct (Q1 _ Hin) as (n1 & bond & a1 & E & Hnb & Ha1). injection E as -> -> -> ->.
      exists x, bond. split; [reflexivity|]. split; [reflexivity|]. split; [left; reflexivity|]. split; [|exact Ha1].
      apply bond_In. rewrite Eadj. apply in_rev. exact Hnb.
    - intros y Hy. apply O6. intros H. apply Hy. right. exact H.
    - intros; reflexivity.
    - intros y m [<-|[]] Hm. cbn [fst4] in Hm. destruct (In_key_zget _ _ Hm) as [bd Hbd]. apply zget_In in Hbd.
      rewrite Eadj in Hbd. apply in_rev in Hbd. destruct (Q2 _ _ Hbd) as [a1 Ha1]. right. eauto.
    - intros y [<-|Hy]; [exact Hx | apply O3; exact Hy].
  Qed.

  Lemma cq_outer_total : forall iter comps clo seen,
    incl iter (keys atoms) -> out_inv comps clo seen ->
    (forall y, In y (keys atoms) -> ~ In y seen -> In y iter) ->
    exists r, cq_outer atoms bonds iter comps clo seen = Ok r.
  Proof.
    induction iter as [|x iter IH]; intros comps clo seen Hit Hinv Hun; rewrite cq_outer_unfold.
    - destruct (Nat.ltb_spec (length seen) (length atoms)) as [Hlt|]; [|eexists; reflexivity]. exfalso.
      assert (Hincl : incl (keys atoms) seen).
      { intros y Hy. destruct (zmem y seen) eqn:E; [apply zmem_In; exact E|]. exfalso. apply (Hun y Hy). intros Hc. apply zmem_In in Hc. congruence. }
      destruct wf as (Hn & _). apply (NoDup_incl_length Hn) in Hincl. unfold keys in Hincl. rewrite map_length in Hincl. lia.
    - destruct (Nat.ltb_spec (length seen) (length atoms)) as [Hlt|]; [|eexists; reflexivity].
      assert (Hit' : incl iter (keys atoms)) by (intros y Hy; apply Hit; right; exact Hy).
      destruct (zmem x seen) eqn:Es.
      + apply IH; [exact Hit' | exact Hinv|]. intros y Hy Hs. destruct (Hun y Hy Hs) as [<-|H]; [|exact H].
        exfalso. apply Hs. apply zmem_In. exact Es.
      + assert (Hx : In x (keys atoms)) by (apply Hit; left; reflexivity).
        assert (Hxs : ~ In x seen) by (intros Hc; apply zmem_In in Hc; congruence).
        destruct (atom_has_adj x Hx) as [nbs Enbs]. rewrite Enbs.
        destruct (cq_init_total x (rev nbs) [] (adj_rev_atoms x nbs Enbs)) as (stack & Einit & L). rewrite Einit.
        destruct (In_key_zget _ _ Hx) as [a0 Ea]. rewrite Ea.
        pose proof (dfs_inv_init comps clo seen x nbs stack a0 Hinv Hx Hxs Enbs Einit Ea) as Hinv0.
        assert (Hm : (length stack + udeg (x :: seen) bonds < S (edge_count bonds))%nat).
        { rewrite rev_length in L. cbn [length] in L. pose proof (udeg_visit x seen nbs bonds Enbs Es). pose proof (udeg_le_edges seen bonds). lia. }
        destruct (cq_dfs_total seen clo (seen_closed _ _ _ Hinv) _ _ _ _ _ Hinv0 Hm) as ([[order clo1] seen1] & Edfs). rewrite Edfs.
        apply IH; [exact Hit' | apply (out_inv_step comps clo seen x nbs stack a0); assumption |].
        intros y Hy Hs. pose proof (cq_dfs_seen_mono _ _ _ _ _ _ _ _ Edfs) as Hmono.
        destruct (Hun y Hy) as [<-|H]; [intros Hc; apply Hs, Hmono; right; exact Hc | | exact H].
        exfalso. apply Hs, Hmono. left. reflexivity.
  Qed.

  (* on a well-formed graph _compile_query returns: no KeyError, no StopIteration, the loop bound is never reached *)
  Theorem compile_query_total : exists comps clo, compile_query atoms bonds = Ok (comps, clo).
  Proof.
    assert (Hinv0 : out_inv [] [] []).
    { unfold out_inv. split; [reflexivity|]. split; [constructor|]. split; [intros ? []|]. split; [intros ? []|]. split; [intros ? ? ? []|].
      intros; reflexivity. }
    destruct (cq_outer_total (keys atoms) [] [] [] (incl_refl _) Hinv0 ltac:(intros y Hy _; exact Hy)) as ([comps clo] & E).
    exists comps, clo. exact E.
  Qed.

  (* every atom lies in exactly one linear order, every order is a correct linearisation of a set of atoms that no bond
     leaves (i.e. of a connected component: each entry hangs on an earlier one), closures are the remaining bonds *)
  Theorem compile_query_spec : forall comps clo,
    compile_query atoms bonds = Ok (comps, clo) -> compiled_ok atoms bonds comps clo.
  Proof.
    intros comps clo H. unfold compile_query in H.
    assert (Hinv0 : out_inv [] [] []).
    { unfold out_inv. split; [reflexivity|]. split; [constructor|]. split; [intros ? []|]. split; [intros ? []|]. split; [intros ? ? ? []|].
      intros; reflexivity. }
    destruct (cq_outer_inv _ _ _ _ _ _ (incl_refl _) Hinv0 H) as [(O1 & O2 & O3 & O4 & O5 & O6) Hlen].
    unfold compiled_ok. split; [|split; [exact O4 | exact O5]].
    apply Permutation_trans with (rev (concat (map aof comps))); [apply Permutation_rev|].
    apply NoDup_Permutation; [exact O2 | apply wf |]. intros x. split; [apply O3|].
    apply NoDup_length_incl; [exact O2 | | exact O3].
    rewrite rev_length. unfold keys. rewrite map_length. exact Hlen.
  Qed.
End Compile.

Lemma split_unique {T} (y : T) : forall u v t1 t2, NoDup (u ++ y :: t1) -> u ++ y :: t1 = v ++ y :: t2 -> u = v.
Proof.
  induction u as [|a u IH]; intros v t1 t2 Hn E.
  - destruct v as [|b v]; [reflexivity|]. cbn in E. injection E as <- E. exfalso. cbn in Hn. inversion Hn as [|? ? Hni _]; subst.
    apply Hni. apply in_or_app. right. left. reflexivity.
  - destruct v as [|b v].
    + cbn in E. injection E as -> E. exfalso. cbn in Hn. inversion Hn as [|? ? Hni _]; subst. apply Hni. apply in_or_app. right. left. reflexivity.
    + cbn in E. injection E as -> E. f_equal. cbn in Hn. inversion Hn; subst. apply (IH v t1 t2); assumption.
Qed.

Lemma list_before_asym {T} (L : list T) x y a1 a2 b1 b2 :
  NoDup L -> L = a1 ++ x :: a2 -> In y a1 -> L = b1 ++ y :: b2 -> In x b1 -> False.
Proof.
  intros Hn E1 Hy E2 Hx. apply in_split in Hy. destruct Hy as (p1 & p2 & ->).
  assert (E3 : L = p1 ++ y :: (p2 ++ x :: a2)) by (rewrite E1, <- app_assoc; reflexivity).
  assert (b1 = p1) by (symmetry; apply (split_unique y p1 b1 (p2 ++ x :: a2) b2); [rewrite <- E3; exact Hn | rewrite <- E3; exact E2]).
  subst b1. rewrite E3 in Hn. apply (NoDup_app_disj _ _ x Hn Hx). right. apply in_or_app. right. left. reflexivity.
Qed.

(* ---------- every pattern bond is a tree edge or a closure, exactly once ---------- *)
Section Bonds.
  Variables QA QB : Type.
  Variable atoms : list (Z * QA).
  Variable bonds : list (Z * list (Z * QB)).
  Variable comps : list (list (lentry QA QB)).
  Variable clo : closures_t QB.
  Hypothesis wf : wf_adj atoms bonds.
  Hypothesis ok : compiled_ok atoms bonds comps clo.

  Notation aof := (map (@fst4 QA QB)).

  (* x was reached from y: the entry of x names y as `back` *)
  Definition tree_edge (x y : Z) : Prop := exists c a b, In c comps /\ In (x, Some y, a, b) c.
  (* y is listed in closures[x] *)
  Definition closure_edge (x y : Z) : Prop := In y (keys (clo_get clo x)).
  (* y comes before x in the same linear order *)
  Definition before (y x : Z) : Prop := exists c l1 e l2, In c comps /\ c = l1 ++ e :: l2 /\ fst4 e = x /\ In y (aof l1).

  Lemma comps_NoDup : NoDup (concat (map aof comps)).
  Proof. destruct ok as (P & _). apply (Permutation_NoDup (Permutation_sym P)). apply wf. Qed.

  Lemma concat_NoDup_unique {S T} (f : S -> list T) : forall (ls : list S) a b x,
    NoDup (concat (map f ls)) -> In a ls -> In b ls -> In x (f a) -> In x (f b) -> a = b.
  Proof.
    induction ls as [|l r IH]; intros a b x Hn Ha Hb Hxa Hxb; [destruct Ha|]. cbn in Hn.
    assert (Hdis : forall c, In c r -> In x (f l) -> In x (f c) -> False).
    { intros c Hc H1 H2. apply (NoDup_app_disj _ _ x Hn H1). apply in_concat. exists (f c). split; [apply in_map; exact Hc | exact H2]. }
    destruct Ha as [<-|Ha], Hb as [<-|Hb].
    - reflexivity.
    - exfalso. apply (Hdis b Hb Hxa Hxb).
    - exfalso. apply (Hdis a Ha Hxb Hxa).
    - apply (IH a b x); try assumption. clear -Hn. induction (f l) as [|y t IHt]; [exact Hn|]. cbn in Hn. inversion Hn; subst. apply IHt. assumption.
  Qed.

  Lemma same_comp c c' x : In c comps -> In c' comps -> In x (aof c) -> In x (aof c') -> c = c'.
  Proof. intros. apply (concat_NoDup_unique aof comps c c' x comps_NoDup); assumption. Qed.

  Lemma comp_NoDup c : In c comps -> NoDup (aof c).
  Proof.
    intros Hc. pose proof comps_NoDup as Hn. clear -Hc Hn. induction comps as [|l r IH]; [destruct Hc|]. cbn in Hn.
    destruct Hc as [<-|Hc]; [apply (NoDup_app_l _ _ Hn)|]. apply IH; [exact Hc|].
    clear -Hn. induction (aof l) as [|y t IHt]; [exact Hn|]. cbn in Hn. inversion Hn; subst. apply IHt. assumption.
  Qed.

  (* the entry at a split point, relative to the atoms before it *)
  Lemma entry_at c l1 s_n back a b l2 : In c comps -> c = l1 ++ (s_n, back, a, b) :: l2 ->
    ~ In s_n (aof l1) /\
    (forall bk, back = Some bk -> In bk (aof l1) /\ exists bd, bond_get bonds bk s_n = Some bd) /\
    (forall m bd, In (m, bd) (clo_get clo s_n) <-> In m (aof l1) /\ back <> Some m /\ bond_get bonds s_n m = Some bd).
  Proof.
    intros Hc E. destruct ok as (_ & Hl & _). destruct (Hl c Hc) as [_ Hlin]. rewrite E in Hlin.
    apply lin_ok_app_inv in Hlin. destruct Hlin as [_ Hlin]. cbn [app lin_ok] in Hlin.
    destruct Hlin as (H1 & _ & H3 & _ & H5 & _). split; [exact H1|]. split; [|exact H5].
    intros bk ->. destruct (aof l1) eqn:El.
    - destruct H3 as [H3 _]. discriminate.
    - destruct H3 as (bk' & bd & Eb & _ & Hin & Hb). injection Eb as <-. split; [exact Hin | eauto].
  Qed.

  Lemma in_split_entry c x : In x (aof c) -> exists l1 e l2, c = l1 ++ e :: l2 /\ fst4 e = x.
  Proof.
    intros H. apply in_map_iff in H. destruct H as (e & E & He). apply in_split in He. destruct He as (l1 & l2 & ->). eauto.
  Qed.

  Lemma tree_before x y : tree_edge x y -> before y x.
  Proof.
    intros (c & a & b & Hc & He). apply in_split in He. destruct He as (l1 & l2 & E).
    destruct (entry_at c l1 x (Some y) a b l2 Hc E) as (_ & H2 & _). destruct (H2 y eq_refl) as [Hin _].
    exists c, l1, (x, Some y, a, b), l2. auto.
  Qed.

  Lemma closure_before x y : In x (keys atoms) -> closure_edge x y -> before y x.
  Proof.
    intros Hx Hcl. destruct ok as (P & _). apply (Permutation_in _ (Permutation_sym P)) in Hx.
    apply in_concat in Hx. destruct Hx as (l & Hl & Hx). apply in_map_iff in Hl. destruct Hl as (c & <- & Hc).
    destruct (in_split_entry c x Hx) as (l1 & [[[s_n back] a] b] & l2 & E & Ee). cbn in Ee. subst s_n.
    destruct (entry_at c l1 x back a b l2 Hc E) as (_ & _ & H3).
    unfold closure_edge in Hcl. apply in_map_iff in Hcl. destruct Hcl as ([m bd] & Em & Hin). cbn in Em. subst m.
    apply H3 in Hin. exists c, l1, (x, back, a, b), l2. repeat split; try assumption. apply Hin.
  Qed.

  Lemma before_asym x y : before y x -> before x y -> False.
  Proof.
    intros (c & l1 & e & l2 & Hc & E & Ee & Hy) (c' & m1 & e' & m2 & Hc' & E' & Ee' & Hx).
    assert (c = c').
    { apply (same_comp c c' x Hc Hc'); [rewrite E, map_app; apply in_or_app; right; left; exact Ee |
                                         rewrite E', map_app; apply in_or_app; left; exact Hx]. }
    rewrite <- H in E'. clear H Hc'. pose proof (comp_NoDup c Hc) as Hn.
    apply (list_before_asym (aof c) x y (aof l1) (aof l2) (aof m1) (aof m2) Hn); try assumption.
    - rewrite E, map_app. cbn [map]. rewrite Ee. reflexivity.
    - rewrite E', map_app. cbn [map]. rewrite Ee'. reflexivity.
  Qed.

  (* x and y are bonded: exactly one of the four ways of recording the bond is used *)
  Theorem bond_recorded_once : forall x y, In y (keys (adj_get bonds x)) ->
    let A := tree_edge x y in let B := tree_edge y x in let C := closure_edge x y in let D := closure_edge y x in
    (A \/ B \/ C \/ D) /\ ~ (A /\ B) /\ ~ (A /\ C) /\ ~ (A /\ D) /\ ~ (B /\ C) /\ ~ (B /\ D) /\ ~ (C /\ D).
  Proof.
    intros x y Hxy.
    assert (Hyx : In x (keys (adj_get bonds y))) by (apply (adj_sym _ _ _ _ wf); exact Hxy).
    destruct wf as (_ & _ & _ & _ & Hloop & Hsym).
    destruct (Hloop x y Hxy) as [Hne Hya]. destruct (Hloop y x Hyx) as [_ Hxa].
    (* at most one: each way puts one atom before the other; a tree edge and a closure at the same atom exclude each other *)
    assert (HAC : forall u v, tree_edge u v -> closure_edge u v -> False).
    { intros u v (c & a & b & Hc & He) Hcl. apply in_split in He. destruct He as (l1 & l2 & E).
      destruct (entry_at c l1 u (Some v) a b l2 Hc E) as (_ & _ & H3).
      unfold closure_edge in Hcl. apply in_map_iff in Hcl. destruct Hcl as ([m bd] & Em & Hin). cbn in Em. subst m.
      apply H3 in Hin. destruct Hin as (_ & Hb & _). apply Hb. reflexivity. }
    cbv zeta. split.
    - (* at least one *)
      destruct ok as (P & _ & Hcl). pose proof Hxa as Hx. apply (Permutation_in _ (Permutation_sym P)) in Hx.
      apply in_concat in Hx. destruct Hx as (l & Hl & Hx). apply in_map_iff in Hl. destruct Hl as (c & <- & Hc).
      pose proof (Hcl c x y Hc Hx Hxy) as Hy.
      destruct (in_split_entry c x Hx) as (l1 & [[[sx bx] ax] bdx] & l2 & E & Ee). cbn in Ee. subst sx.
      rewrite E, map_app in Hy. cbn [map fst4] in Hy. apply in_app_or in Hy. destruct Hy as [Hy|[Hy|Hy]]; [|congruence|].
      + (* y before x *)
        destruct (entry_at c l1 x bx ax bdx l2 Hc E) as (_ & _ & H3).
        destruct (In_key_zget _ _ Hxy) as [bd Hbd]. fold (bond_get bonds x y) in Hbd.
        destruct bx as [bk|].
        * destruct (Z.eq_dec bk y) as [->|Hk].
          -- left. exists c, ax, bdx. split; [exact Hc|]. rewrite E. apply in_or_app. right. left. reflexivity.
          -- right. right. left. unfold closure_edge. apply (in_map fst _ (y, bd)). apply H3. repeat split; [exact Hy | congruence | exact Hbd].
        * right. right. left. unfold closure_edge. apply (in_map fst _ (y, bd)). apply H3. repeat split; [exact Hy | discriminate | exact Hbd].
      + (* x before y *)
        apply in_map_iff in Hy. destruct Hy as ([[[sy by_] ay] bdy] & Ey & Hy). cbn in Ey. subst sy.
        apply in_split in Hy. destruct Hy as (p1 & p2 & ->).
        assert (E2 : c = (l1 ++ (x, bx, ax, bdx) :: p1) ++ (y, by_, ay, bdy) :: p2) by (rewrite E, <- app_assoc; reflexivity).
        destruct (entry_at c _ y by_ ay bdy p2 Hc E2) as (_ & _ & H3).
        assert (Hxin : In x (aof (l1 ++ (x, bx, ax, bdx) :: p1))) by (rewrite map_app; apply in_or_app; right; left; reflexivity).
        destruct (In_key_zget _ _ Hyx) as [bd Hbd]. fold (bond_get bonds y x) in Hbd.
        destruct by_ as [bk|].
        * destruct (Z.eq_dec bk x) as [->|Hk].
          -- right. left. exists c, ay, bdy. split; [exact Hc|]. rewrite E2. apply in_or_app. right. left. reflexivity.
          -- right. right. right. unfold closure_edge. apply (in_map fst _ (x, bd)). apply H3. repeat split; [exact Hxin | congruence | exact Hbd].
        * right. right. right. unfold closure_edge. apply (in_map fst _ (x, bd)). apply H3. repeat split; [exact Hxin | discriminate | exact Hbd].
    - repeat split; intros [H1 H2].
      + apply (before_asym x y (tree_before _ _ H1) (tree_before _ _ H2)).
      + apply (HAC x y H1 H2).
      + apply (before_asym x y (tree_before _ _ H1) (closure_before _ _ Hya H2)).
      + apply (before_asym y x (tree_before _ _ H1) (closure_before _ _ Hxa H2)).
      + apply (HAC y x H1 H2).
      + apply (before_asym x y (closure_before _ _ Hxa H1) (closure_before _ _ Hya H2)).
  Qed.

  (* nothing else is recorded: tree edges and closures are bonds of the pattern, and closures[x] lists no atom twice *)
  Theorem recorded_is_bond : forall x y,
    (tree_edge x y -> In y (keys (adj_get bonds x))) /\
    (In x (keys atoms) -> closure_edge x y -> In y (keys (adj_get bonds x))) /\
    (In x (keys atoms) -> NoDup (keys (clo_get clo x))).
  Proof.
    intros x y. split; [|split].
    - intros (c & a & b & Hc & He). apply in_split in He. destruct He as (l1 & l2 & E).
      destruct (entry_at c l1 x (Some y) a b l2 Hc E) as (_ & H2 & _). destruct (H2 y eq_refl) as [_ [bd Hbd]].
      apply (adj_sym _ _ _ _ wf). unfold bond_get in Hbd. apply zget_Some_key in Hbd. exact Hbd.
    - intros Hx Hcl. destruct ok as (P & _). apply (Permutation_in _ (Permutation_sym P)) in Hx.
      apply in_concat in Hx. destruct Hx as (l & Hl & Hx). apply in_map_iff in Hl. destruct Hl as (c & <- & Hc).
      destruct (in_split_entry c x Hx) as (l1 & [[[s_n back] a] b] & l2 & E & Ee). cbn in Ee. subst s_n.
      destruct (entry_at c l1 x back a b l2 Hc E) as (_ & _ & H3).
      unfold closure_edge in Hcl. apply in_map_iff in Hcl. destruct Hcl as ([m bd] & Em & Hin). cbn in Em. subst m.
      apply H3 in Hin. destruct Hin as (_ & _ & Hb). unfold bond_get in Hb. apply zget_Some_key in Hb. exact Hb.
    - intros Hx. destruct ok as (P & Hl & _). apply (Permutation_in _ (Permutation_sym P)) in Hx.
      apply in_concat in Hx. destruct Hx as (l & Hl' & Hx). apply in_map_iff in Hl'. destruct Hl' as (c & <- & Hc).
      destruct (in_split_entry c x Hx) as (l1 & [[[s_n back] a] b] & l2 & E & Ee). cbn in Ee. subst s_n.
      destruct (Hl c Hc) as [_ Hlin]. rewrite E in Hlin. apply lin_ok_app_inv in Hlin. destruct Hlin as [_ Hlin].
      cbn [app lin_ok] in Hlin. apply Hlin.
  Qed.
End Bonds.
