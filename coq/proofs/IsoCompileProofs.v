(* C07: what _compile_query promises ([compiled_ok]) -- by invariants of the explicit-stack depth-first search. *)
From Coq Require Import ZArith List Bool Lia Permutation.
From Model Require Import PyBase Iso.
From Proofs Require Import IsoMatchProofs.
Import ListNotations.
Local Open Scope Z_scope.

Section Compile.
  Variables QA QB : Type.
  Variable atoms : list (Z * QA).
  Variable bonds : list (Z * list (Z * QB)).
  Hypothesis wf : wf_adj atoms bonds.

  Notation lentry := (lentry QA QB).
  Notation closures_t := (closures_t QB).
  Notation lin := (lin_ok atoms bonds).
  Notation aof := (map (@fst4 QA QB)).

  (* ---------- closures[k].append(item) ---------- *)
  Lemma clo_append_same (c : closures_t) k item : clo_get (clo_append c k item) k = clo_get c k ++ [item].
  Proof.
    unfold clo_get, adj_get. induction c as [|[k' l] c IH]; cbn.
    - rewrite Z.eqb_refl. reflexivity.
    - destruct (Z.eqb_spec k k'); cbn.
      + subst. rewrite Z.eqb_refl. reflexivity.
      + destruct (Z.eqb_spec k k'); [congruence | exact IH].
  Qed.

  Lemma clo_append_other (c : closures_t) k item x : x <> k -> clo_get (clo_append c k item) x = clo_get c x.
  Proof.
    intros Hx. unfold clo_get, adj_get. induction c as [|[k' l] c IH]; cbn.
    - destruct (Z.eqb_spec x k); [congruence | reflexivity].
    - destruct (Z.eqb_spec k k'); cbn.
      + subst. destruct (Z.eqb_spec x k'); [congruence | reflexivity].
      + destruct (Z.eqb_spec x k'); [reflexivity | exact IH].
  Qed.

  (* ---------- lin_ok under changes of the closure table and under appending ---------- *)
  Lemma lin_ok_ext (clo clo' : closures_t) : forall rest pre,
    (forall x, In x (aof rest) -> clo_get clo' x = clo_get clo x) -> lin clo pre rest -> lin clo' pre rest.
  Proof.
    induction rest as [|[[[s_n back] a] b] rest IH]; intros pre Hx H; [exact I|].
    cbn [lin_ok] in *. rewrite (Hx s_n) by (left; reflexivity).
    destruct H as (H1 & H2 & H3 & H4 & H5 & H6). repeat (split; [assumption|]).
    apply IH; [|exact H6]. intros x Hin. apply Hx. right. exact Hin.
  Qed.

  Lemma lin_ok_snoc (clo : closures_t) : forall r1 pre e,
    lin clo pre r1 -> lin clo (pre ++ aof r1) [e] -> lin clo pre (r1 ++ [e]).
  Proof.
    induction r1 as [|[[[s_n back] a] b] r1 IH]; intros pre e H1 H2.
    - cbn in H2 |- *. rewrite app_nil_r in H2. exact H2.
    - cbn [app lin_ok] in *. destruct H1 as (A1 & A2 & A3 & A4 & A5 & A6). repeat (split; [assumption|]).
      apply IH; [exact A6|]. cbn [map fst4] in H2. rewrite <- app_assoc. exact H2.
  Qed.

  Lemma lin_ok_app_inv (clo : closures_t) : forall r1 pre r2,
    lin clo pre (r1 ++ r2) -> lin clo pre r1 /\ lin clo (pre ++ aof r1) r2.
  Proof.
    induction r1 as [|[[[s_n back] a] b] r1 IH]; intros pre r2 H.
    - cbn. rewrite app_nil_r. split; [exact I | exact H].
    - cbn [app lin_ok] in H. destruct H as (A1 & A2 & A3 & A4 & A5 & A6).
      destruct (IH _ _ A6) as [B1 B2]. split.
      + cbn [lin_ok]. repeat (split; [assumption|]). exact B1.
      + cbn [map fst4]. rewrite <- app_assoc in B2. exact B2.
  Qed.

  (* ---------- adjacency facts ---------- *)
  Lemma adj_NoDup n : NoDup (keys (adj_get bonds n)).
  Proof. destruct wf as (_ & _ & _ & H & _). apply H. Qed.
  Lemma bond_In n m bd : In (m, bd) (adj_get bonds n) <-> bond_get bonds n m = Some bd.
  Proof. unfold bond_get. split; [apply In_zget, adj_NoDup | apply zget_In]. Qed.
  Lemma adj_sym n m : In m (keys (adj_get bonds n)) -> In n (keys (adj_get bonds m)).
  Proof.
    destruct wf as (_ & _ & _ & _ & _ & S). intros H. destruct (In_key_zget _ _ H) as [bd Hbd].
    fold (bond_get bonds n m) in Hbd. rewrite S in Hbd. apply zget_Some_key in Hbd. exact Hbd.
  Qed.
  Lemma adj_get_zget n nbs : zget bonds n = Some nbs -> adj_get bonds n = nbs.
  Proof. unfold adj_get. intros ->. reflexivity. Qed.

  (* ---------- the for loop over reversed(bonds[front].items()) ---------- *)
  Lemma cq_scan_spec front back seen : forall (nbs : list (Z * QB)) (stack : list lentry) (clo : closures_t) stack' clo',
    cq_scan atoms front back seen nbs stack clo = Ok (stack', clo') ->
    exists pushed, stack' = pushed ++ stack /\
      (forall e, In e pushed -> exists n bond a, e = (n, Some front, a, Some bond) /\ In (n, bond) nbs /\ zget atoms n = Some a) /\
      (forall n bond, In (n, bond) nbs -> opt_is back n = false -> zmem n seen = false ->
                      exists a, In (n, Some front, a, Some bond) pushed) /\
      clo_get clo' front = clo_get clo front ++ filter (fun nb => negb (opt_is back (fst nb)) && zmem (fst nb) seen) nbs /\
      (forall x, x <> front -> clo_get clo' x = clo_get clo x).
  Proof.
    induction nbs as [|[n bond] r IH]; intros stack clo stack' clo' H.
    - cbn in H. injection H as <- <-. exists []. split; [reflexivity|]. split; [intros e []|]. split; [intros n bond []|].
      split; [cbn; rewrite app_nil_r; reflexivity | intros; reflexivity].
    - cbn [cq_scan] in H. cbn [filter fst].
      destruct (opt_is back n) eqn:Eb.
      + destruct (IH _ _ _ _ H) as (pushed & -> & P1 & P2 & P3 & P4). exists pushed. split; [reflexivity|]. split; [|split; [|split]].
        * intros e He. destruct (P1 e He) as (n1 & b1 & a1 & -> & Hin & Ha). exists n1, b1, a1. split; [reflexivity|]. split; [right; exact Hin | exact Ha].
        * intros n1 b1 [E|Hin] Hb Hs; [injection E as -> ->; congruence | apply P2; assumption].
        * cbn [negb andb]. exact P3.
        * exact P4.
      + destruct (zmem n seen) eqn:Es.
        * destruct (IH _ _ _ _ H) as (pushed & -> & P1 & P2 & P3 & P4). exists pushed. split; [reflexivity|]. split; [|split; [|split]].
          -- intros e He. destruct (P1 e He) as (n1 & b1 & a1 & -> & Hin & Ha). exists n1, b1, a1. split; [reflexivity|]. split; [right; exact Hin | exact Ha].
          -- intros n1 b1 [E|Hin] Hb Hs; [injection E as -> ->; congruence | apply P2; assumption].
          -- cbn [negb andb]. rewrite P3, clo_append_same, <- app_assoc. reflexivity.
          -- intros x Hx. rewrite P4 by exact Hx. apply clo_append_other. exact Hx.
        * destruct (zget atoms n) as [a|] eqn:Ea; [|discriminate].
          destruct (IH _ _ _ _ H) as (pushed & -> & P1 & P2 & P3 & P4).
          exists (pushed ++ [(n, Some front, a, Some bond)]). split; [rewrite <- app_assoc; reflexivity|]. split; [|split; [|split]].
          -- intros e He. apply in_app_or in He. destruct He as [He|[<-|[]]].
             ++ destruct (P1 e He) as (n1 & b1 & a1 & -> & Hin & Ha). exists n1, b1, a1. split; [reflexivity|]. split; [right; exact Hin | exact Ha].
             ++ exists n, bond, a. split; [reflexivity|]. split; [left; reflexivity | exact Ea].
          -- intros n1 b1 [E|Hin] Hb Hs.
             ++ injection E as <- <-. exists a. apply in_or_app. right. left. reflexivity.
             ++ destruct (P2 _ _ Hin Hb Hs) as [a1 Ha1]. exists a1. apply in_or_app. left. exact Ha1.
          -- cbn [negb andb]. exact P3.
          -- exact P4.
  Qed.

  (* stack = [(n, start, atoms[n], bond) for n, bond in reversed(bonds[start].items())] *)
  Lemma cq_init_spec start : forall (nbs : list (Z * QB)) (stack stack' : list lentry),
    cq_init atoms start nbs stack = Ok stack' ->
    exists pushed, stack' = pushed ++ stack /\
      (forall e, In e pushed -> exists n bond a, e = (n, Some start, a, Some bond) /\ In (n, bond) nbs /\ zget atoms n = Some a) /\
      (forall n bond, In (n, bond) nbs -> exists a, In (n, Some start, a, Some bond) pushed).
  Proof.
    induction nbs as [|[n bond] r IH]; intros stack stack' H.
    - cbn in H. injection H as <-. exists []. split; [reflexivity|]. split; [intros e [] | intros n bond []].
    - cbn [cq_init] in H. destruct (zget atoms n) as [a|] eqn:Ea; [|discriminate].
      destruct (IH _ _ H) as (pushed & -> & P1 & P2).
      exists (pushed ++ [(n, Some start, a, Some bond)]). split; [rewrite <- app_assoc; reflexivity|]. split.
      + intros e He. apply in_app_or in He. destruct He as [He|[<-|[]]].
        * destruct (P1 e He) as (n1 & b1 & a1 & -> & Hin & Ha). exists n1, b1, a1. split; [reflexivity|]. split; [right; exact Hin | exact Ha].
        * exists n, bond, a. split; [reflexivity|]. split; [left; reflexivity | exact Ea].
      + intros n1 b1 [E|Hin].
        * injection E as <- <-. exists a. apply in_or_app. right. left. reflexivity.
        * destruct (P2 _ _ Hin) as [a1 Ha1]. exists a1. apply in_or_app. left. exact Ha1.
  Qed.

  (* ---------- the inner while loop: invariant ---------- *)
  Section Inner.
    Variable seen0 : list Z.                 (* atoms of the components finished before *)
    Variable clo0 : closures_t.
    Hypothesis seen0_closed : forall x m, In x seen0 -> In m (keys (adj_get bonds x)) -> In m seen0.

    Definition dfs_inv (stack order : list lentry) (clo : closures_t) (seen : list Z) : Prop :=
      seen = rev (aof order) ++ seen0 /\
      NoDup seen /\
      order <> [] /\
      lin clo [] order /\
      (forall n back a b, In (n, back, a, b) stack ->
         exists bk bd, back = Some bk /\ b = Some bd /\ In bk (aof order) /\ bond_get bonds bk n = Some bd /\ zget atoms n = Some a) /\
      (forall x, ~ In x seen -> clo_get clo x = []) /\
      (forall x, In x seen0 -> clo_get clo x = clo_get clo0 x) /\
      (forall x m, In x (aof order) -> In m (keys (adj_get bonds x)) ->
         In m seen \/ exists a bd, In (m, Some x, a, Some bd) stack) /\
      incl seen (keys atoms).

    Lemma inv_discard front back a b st order clo seen :
      dfs_inv ((front, back, a, b) :: st) order clo seen -> In front seen -> dfs_inv st order clo seen.
    Proof.
      intros (I1 & I2 & I3 & I4 & I5 & I6 & I7 & I8 & I9) Hs.
      unfold dfs_inv. repeat (split; [assumption|]). split; [|split; [assumption|]]. 2: split; [assumption|]. 2: split; [|assumption].
      - intros n bk a1 b1 Hin. apply (I5 n bk a1 b1). right. exact Hin.
      - intros x m Hx Hm. destruct (I8 x m Hx Hm) as [H|(a1 & bd & [E|H])].
        + left. exact H.
        + injection E as -> _ _ _. left. exact Hs.
        + right. eauto.
    Qed.

    Lemma inv_visit front back a b st order clo seen nbs st' clo' :
      dfs_inv ((front, back, a, b) :: st) order clo seen -> ~ In front seen ->
      zget bonds front = Some nbs ->
      cq_scan atoms front back seen (rev nbs) st clo = Ok (st', clo') ->
      dfs_inv st' (order ++ [(front, back, a, b)]) clo' (front :: seen).
    Proof.
      intros (I1 & I2 & I3 & I4 & I5 & I6 & I7 & I8 & I9) Hs Hnbs Hscan.
      destruct (cq_scan_spec _ _ _ _ _ _ _ _ Hscan) as (pushed & -> & P1 & P2 & P3 & P4).
      destruct (I5 front back a b (or_introl eq_refl)) as (bk & bd & -> & -> & Hbk & Hbond & Ha).
      pose proof (adj_get_zget _ _ Hnbs) as Eadj.
      assert (Hfront0 : ~ In front seen0) by (intros H; apply Hs; rewrite I1; apply in_or_app; right; exact H).
      assert (Hord_seen : forall x, In x (aof order) -> In x seen) by (intros x H; rewrite I1; apply in_or_app; left; apply -> in_rev; exact H).
      (* a neighbour of front that was seen belongs to this component *)
      assert (Hnb_seen : forall m, In m (keys (adj_get bonds front)) -> In m seen -> In m (aof order)).
      { intros m Hm Hin. rewrite I1 in Hin. apply in_app_or in Hin. destruct Hin as [H|H]; [apply in_rev; exact H|].
        exfalso. apply Hfront0. apply (seen0_closed m front H). apply adj_sym. exact Hm. }
      unfold dfs_inv. split; [|split; [|split; [|split; [|split; [|split; [|split; [|split]]]]]]].
      - rewrite map_app, rev_app_distr. cbn [map fst4 rev app]. rewrite I1. reflexivity.
      - constructor; assumption.
      - intros H. apply app_eq_nil in H. destruct H; discriminate.
      - apply lin_ok_snoc.
        + apply (lin_ok_ext clo); [|exact I4]. intros x Hx. apply P4. intros ->. apply Hs, Hord_seen, Hx.
        + cbn [app lin_ok]. split; [intros H; apply Hs, Hord_seen, H|]. split; [exact Ha|]. split.
          { destruct (aof order) eqn:E; [destruct order; [congruence | discriminate]|]. exists bk, bd. split; [reflexivity|]. split; [reflexivity|]. split; [exact Hbk | exact Hbond]. }
          rewrite P3, (I6 front Hs). cbn [app]. split; [|split; [|exact I]].
          * apply NoDup_keys_filter. unfold keys. rewrite map_rev. apply NoDup_rev. rewrite <- Eadj. apply adj_NoDup.
          * intros m bdm. rewrite filter_In. cbn [fst]. rewrite <- in_rev. rewrite <- Eadj, bond_In. split.
            -- intros (Hb & Hc). apply andb_prop in Hc. destruct Hc as [Hc1 Hc2]. apply zmem_In in Hc2.
               split; [|split; [|exact Hb]].
               ++ apply Hnb_seen; [|exact Hc2]. unfold bond_get in Hb. apply zget_Some_key in Hb. exact Hb.
               ++ intros E. injection E as ->. cbn in Hc1. rewrite Z.eqb_refl in Hc1. discriminate.
            -- intros (Hp & Hb & Hq). split; [exact Hq|]. apply andb_true_intro. split.
               ++ cbn. apply negb_true_iff, Z.eqb_neq. intros ->. apply Hb. reflexivity.
               ++ apply zmem_In, Hord_seen, Hp.
      - intros n back1 a1 b1 Hin. rewrite map_app. apply in_app_or in Hin. destruct Hin as [Hin|Hin].
        + destruct (P1 _ Hin) as (n1 & bond1 & a2 & E & Hnb & Ha2). injection E as -> -> -> ->.
          exists front, bond1. split; [reflexivity|]. split; [reflexivity|]. split; [apply in_or_app; right; left; reflexivity|].
          split; [|exact Ha2]. apply bond_In. rewrite Eadj. apply in_rev. exact Hnb.
        + destruct (I5 n back1 a1 b1 (or_intror Hin)) as (bk1 & bd1 & E1 & E2 & H3 & H4 & H5).
          exists bk1, bd1. repeat (split; [assumption|]). split; [apply in_or_app; left; exact H3|]. split; assumption.
      - intros x Hx. rewrite P4 by (intros ->; apply Hx; left; reflexivity). apply I6. intros H. apply Hx. right. exact H.
      - intros x Hx. rewrite P4 by (intros ->; contradiction). apply I7. exact Hx.
      - intros x m Hx Hm. rewrite map_app in Hx. apply in_app_or in Hx. destruct Hx as [Hx|[<-|[]]].
        + destruct (I8 x m Hx Hm) as [H|(a1 & bd1 & [E|H])].
          * left. right. exact H.
          * injection E as -> _ _ _. left. left. reflexivity.
          * right. exists a1, bd1. apply in_or_app. right. exact H.
        + cbn [fst4] in Hm |- *. destruct (In_key_zget _ _ Hm) as [bdm Hbdm]. apply zget_In in Hbdm.
          destruct (opt_is (Some bk) m) eqn:Eo.
          * cbn in Eo. apply Z.eqb_eq in Eo. subst m. left. right. apply Hord_seen. exact Hbk.
          * destruct (zmem m seen) eqn:Ez.
            -- left. right. apply zmem_In. exact Ez.
            -- right. rewrite Eadj in Hbdm. apply in_rev in Hbdm. destruct (P2 _ _ Hbdm Eo Ez) as [a1 Ha1].
               exists a1, bdm. apply in_or_app. left. exact Ha1.
      - intros x [<-|Hx]; [apply zget_Some_key in Ha; exact Ha | apply I9; exact Hx].
    Qed.

    Lemma cq_dfs_inv : forall fuel stack order clo seen order' clo' seen',
      dfs_inv stack order clo seen ->
      cq_dfs fuel atoms bonds stack order clo seen = Ok (order', clo', seen') ->
      dfs_inv [] order' clo' seen'.
    Proof.
      induction fuel as [|fuel IH]; intros stack order clo seen order' clo' seen' Hinv H; [discriminate|].
      cbn [cq_dfs] in H. destruct stack as [|[[[front back] a] b] st].
      - injection H as <- <- <-. exact Hinv.
      - destruct (zmem front seen) eqn:Es.
        + apply (IH _ _ _ _ _ _ _ (inv_discard _ _ _ _ _ _ _ _ Hinv (proj1 (zmem_In _ _) Es)) H).
        + destruct (zget bonds front) as [nbs|] eqn:Enbs; [|discriminate].
          destruct (cq_scan atoms front back seen (rev nbs) st clo) as [[st' clo1]|] eqn:Escan; [|discriminate].
          apply (IH _ _ _ _ _ _ _ (inv_visit _ _ _ _ _ _ _ _ _ _ _ Hinv ltac:(intros Hc; apply zmem_In in Hc; congruence) Enbs Escan) H).
    Qed.
  End Inner.
End Compile.
