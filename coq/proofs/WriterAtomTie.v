(* C02, round 4: the decision part of MoleculeSmiles._format_atom (charge slot, bracket / hydrogen-count chain, aromatic lower-casing,
   join), translated statement by statement from chython/algorithms/smiles.py by tools/gen_format_atom.py on every run
   (coq/gen/FormatAtom.v), against the hand-written Writer.format_atom: equal for ALL molecules, options, registries and atoms. *)
From Coq Require Import ZArith List String Ascii Bool Lia.
From Gen Require Import SmilesTables FormatAtom.
From Model Require Import PyBase Graph Stereo Writer.
Import ListNotations.
Open Scope Z_scope.

(* the slots the head of _format_atom fills: smi[1] = str(atom.isotope) if atom.isotope else '' ; smi[6] = f':{n}' if mapping *)
Definition iso_slot (a : atom) : string :=
  match a_iso a with Some i => if i =? 0 then EmptyString else str_Z i | None => EmptyString end.
Definition map_slot (o : opts) (n : Z) : string := if o_mapping o then String ":"%char (str_Z n) else EmptyString.

Lemma any_slots iso st c mp :
  existsb nonempty [EmptyString; iso; EmptyString; st; EmptyString; c; mp; EmptyString] =
  nonempty iso || nonempty st || nonempty c || nonempty mp.
Proof. cbn. destruct (nonempty iso), (nonempty st), (nonempty c), (nonempty mp); reflexivity. Qed.

Lemma tail_after_charge o iso st c mp sym rad ih hyb num npn :
  g_format_atom_tail o [EmptyString; iso; EmptyString; st; EmptyString; c; mp; EmptyString] 0 sym rad ih hyb num (negb npn) =
  let brh :=
    if nonempty iso || nonempty st || nonempty c || nonempty mp || negb (smem sym organic_set) || rad || o_hydrogens o
    then (true, h_str ih)
    else if (hyb =? 4) && truthy_h ih && ((num =? num_B) || (num =? num_N) || (num =? num_P))
    then (true, h_str ih)
    else if negb (truthy_h ih) && ((num =? num_B) || (num =? num_C) || (num =? num_P) || (num =? num_S)) && npn
    then (true, EmptyString)
    else if truthy_h ih && (num =? num_P) && negb (hyb =? 1)
    then (true, h_str ih)
    else (false, EmptyString) in
  let sym' := if o_aromatic o && (hyb =? 4) then lower_string sym else sym in
  Ok (spell_atom (mkAF (fst brh) iso sym' st (snd brh) c mp)).
Proof.
  unfold g_format_atom_tail. cbn [Z.eqb negb andb]. cbv zeta. rewrite any_slots, negb_involutive.
  destruct ih as [[|[p|p|]|p]|]; cbn [truthy_h ih_eq h_str ih_fmt Z.eqb Pos.eqb negb andb];
  rewrite ?andb_false_r, ?andb_true_r; cbn [andb negb];
  repeat (match goal with
          | |- context [if ?c then _ else _] => destruct c
          end; cbn [lset fst snd andb negb]);
  reflexivity.
Qed.

(* the charge slot: `if atom.charge and kwargs.get('charges', True): smi[5] = charge_str[atom.charge]` *)
Lemma tail_charge o smi chg sym rad ih hyb num nsc :
  g_format_atom_tail o smi chg sym rad ih hyb num nsc =
  if negb (chg =? 0) && o_charges o
  then match zget charge_str chg with
       | None => Err KeyError
       | Some x => g_format_atom_tail o (lset smi 5 x) 0 sym rad ih hyb num nsc
       end
  else g_format_atom_tail o smi 0 sym rad ih hyb num nsc.
Proof.
  unfold g_format_atom_tail. cbn [Z.eqb negb andb].
  destruct (negb (chg =? 0) && o_charges o); [destruct (zget charge_str chg)|]; reflexivity.
Qed.

Theorem format_atom_generated : forall g o tabs n adj,
  format_atom g o tabs n adj =
  match atom_of g n with
  | None => Err KeyError
  | Some a =>
      match symbol_of_num (a_num a) with
      | None => Err KeyError
      | Some sym =>
          match stereo_mark g o tabs n adj a with
          | Err e => Err e
          | Ok st =>
              g_format_atom_tail o [EmptyString; iso_slot a; EmptyString; st; EmptyString; EmptyString; map_slot o n; EmptyString]
                                 (a_chg a) sym (a_rad a) (a_h a) (hybridization g n) (a_num a) (negb (no_plain_neighbours g n))
          end
      end
  end.
Proof.
  intros g o tabs n adj. unfold format_atom, atom_fields.
  destruct (atom_of g n) as [a|]; [|reflexivity].
  destruct (symbol_of_num (a_num a)) as [sym|]; [|reflexivity].
  destruct (stereo_mark g o tabs n adj a) as [st|e]; [|reflexivity].
  rewrite tail_charge. fold (iso_slot a). fold (map_slot o n).
  destruct (negb (a_chg a =? 0) && o_charges o).
  - destruct (zget charge_str (a_chg a)) as [x|]; [|reflexivity].
    cbn [lset]. rewrite tail_after_charge. reflexivity.
  - rewrite tail_after_charge. reflexivity.
Qed.

(* non-vacuity: the pyrrole nitrogen of c1cc[nH]c1 is written [nH] by both *)
Example format_atom_generated_example :
  g_format_atom_tail default_opts [EmptyString; EmptyString; EmptyString; EmptyString; EmptyString; EmptyString; EmptyString; EmptyString]
                     0 "N" false (Some 1) 4 7 true = Ok "[nH]"%string /\
  g_format_atom_tail default_opts [EmptyString; "13"%string; EmptyString; "@"%string; EmptyString; EmptyString; EmptyString; EmptyString]
                     1 "C" false (Some 1) 1 6 true = Ok "[13C@H+]"%string.
Proof. split; vm_compute; reflexivity. Qed.
