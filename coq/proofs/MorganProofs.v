(* C01: the refinement `_morgan` / `atoms_order` depends on the structure only.
   For ANY hash function h : list Z -> Z (no assumption about collisions):
     - morgan_equivariant*     : an injective renumbering of the atoms renumbers the result (exactly, as a dict in the
                                 same insertion order);
     - morgan_order_independent*: the insertion order of atoms, of the adjacency and of every neighbour dict is
                                 irrelevant (the result is the same mapping);
     - rank order: with discrete classes the atom order induced by the ranks is mapped by the renumbering;
     - totality on well-formed molecules, shape of the final dense ranking;
     - equality / hash coherence of Smiles.__eq__/__hash__. *)
From Coq Require Import ZArith List Bool Lia Permutation Sorting.Sorted String.
From Model Require Import PyBase PyHash Graph Morgan.
Import ListNotations.
Open Scope Z_scope.

(* ==================================================================================================== *)
(* 1. the insertion sort                                                                                  *)
Section ISortFacts.
  Context {A : Type}.
  Variable leb : A -> A -> bool.
  Let R (x y : A) : Prop := leb x y = true.

  Lemma insert_by_perm x l : Permutation (insert_by leb x l) (x :: l).
  Proof.
    induction l as [|y r IH]; cbn; [apply Permutation_refl|].
    destruct (leb x y); [apply Permutation_refl|].
    eapply Permutation_trans; [apply perm_skip; exact IH | apply perm_swap].
  Qed.

  Lemma isort_perm l : Permutation (isort leb l) l.
  Proof.
    induction l as [|x l IH]; cbn; [constructor|].
    eapply Permutation_trans; [apply insert_by_perm | apply perm_skip; exact IH].
  Qed.

  Hypothesis leb_total : forall x y, leb x y = true \/ leb y x = true.
  Hypothesis leb_trans : forall x y z, leb x y = true -> leb y z = true -> leb x z = true.

  Lemma insert_by_sorted x l : StronglySorted R l -> StronglySorted R (insert_by leb x l).
  Proof.
    induction l as [|y r IH]; intros Hs; cbn.
    - constructor; constructor.
    - inversion Hs as [|? ? Hr Hy]; subst.
      destruct (leb x y) eqn:E.
      + constructor; [exact Hs|]. constructor; [exact E|].
        rewrite Forall_forall in *. intros z Hz. eapply leb_trans; [exact E | apply Hy; exact Hz].
      + constructor; [apply IH; exact Hr|].
        rewrite Forall_forall in *. intros z Hz.
        apply (Permutation_in _ (insert_by_perm x r)) in Hz. destruct Hz as [<-|Hz].
        * destruct (leb_total x y) as [H|H]; [unfold R; congruence | exact H].
        * apply Hy; exact Hz.
  Qed.

  Lemma isort_sorted l : StronglySorted R (isort leb l).
  Proof. induction l as [|x l IH]; cbn; [constructor | apply insert_by_sorted; exact IH]. Qed.

  Hypothesis leb_antisym : forall x y, leb x y = true -> leb y x = true -> x = y.

  Lemma sorted_perm_eq l l' : StronglySorted R l -> StronglySorted R l' -> Permutation l l' -> l = l'.
  Proof.
    revert l'. induction l as [|x l IH]; intros l' Hs Hs' Hp.
    - apply Permutation_nil in Hp. subst. reflexivity.
    - destruct l' as [|x' l']; [apply Permutation_sym, Permutation_nil in Hp; discriminate|].
      inversion Hs as [|? ? Hl Hx]; subst. inversion Hs' as [|? ? Hl' Hx']; subst.
      rewrite Forall_forall in Hx, Hx'.
      assert (x = x') as ->.
      { assert (In x (x' :: l')) as H1 by (eapply Permutation_in; [exact Hp | left; reflexivity]).
        assert (In x' (x :: l)) as H2 by (eapply Permutation_in; [apply Permutation_sym; exact Hp | left; reflexivity]).
        destruct H1 as [H1|H1]; [symmetry; exact H1|]. destruct H2 as [H2|H2]; [exact H2|].
        apply leb_antisym; [apply Hx; exact H2 | apply Hx'; exact H1]. }
      f_equal. apply IH; [exact Hl | exact Hl' | eapply Permutation_cons_inv; exact Hp].
  Qed.

  (* sorting a permuted list gives the same list *)
  Lemma isort_canonical l l' : Permutation l l' -> isort leb l = isort leb l'.
  Proof.
    intros Hp. apply sorted_perm_eq; [apply isort_sorted | apply isort_sorted|].
    eapply Permutation_trans; [apply isort_perm|]. eapply Permutation_trans; [exact Hp|].
    apply Permutation_sym, isort_perm.
  Qed.

  Lemma isort_sorted_id l : StronglySorted R l -> isort leb l = l.
  Proof. intros Hs. apply sorted_perm_eq; [apply isort_sorted | exact Hs | apply isort_perm]. Qed.
End ISortFacts.

(* sorting commutes with a map that preserves the comparison *)
Lemma insert_by_map {A B} (leb : A -> A -> bool) (leb' : B -> B -> bool) (f : A -> B) :
  (forall x y, leb' (f x) (f y) = leb x y) ->
  forall x l, insert_by leb' (f x) (map f l) = map f (insert_by leb x l).
Proof.
  intros Hf x l. induction l as [|y r IH]; cbn; [reflexivity|].
  rewrite Hf. destruct (leb x y); cbn; [reflexivity | rewrite IH; reflexivity].
Qed.
Lemma isort_map {A B} (leb : A -> A -> bool) (leb' : B -> B -> bool) (f : A -> B) :
  (forall x y, leb' (f x) (f y) = leb x y) ->
  forall l, isort leb' (map f l) = map f (isort leb l).
Proof.
  intros Hf l. unfold isort. induction l as [|x l IH]; cbn [map fold_right]; [reflexivity|].
  rewrite IH. apply insert_by_map. exact Hf.
Qed.

(* ---- the three orders that are used ---- *)
Lemma zleb_total x y : (x <=? y) = true \/ (y <=? x) = true.
Proof. rewrite !Z.leb_le. lia. Qed.
Lemma zleb_trans x y z : (x <=? y) = true -> (y <=? z) = true -> (x <=? z) = true.
Proof. rewrite !Z.leb_le. lia. Qed.
Lemma zleb_antisym x y : (x <=? y) = true -> (y <=? x) = true -> x = y.
Proof. rewrite !Z.leb_le. lia. Qed.

Lemma pair_leb_spec p q : pair_leb p q = true <-> (fst p < fst q \/ (fst p = fst q /\ snd p <= snd q)).
Proof.
  unfold pair_leb. rewrite orb_true_iff, andb_true_iff, Z.ltb_lt, Z.eqb_eq, Z.leb_le. reflexivity.
Qed.
Lemma pair_leb_total p q : pair_leb p q = true \/ pair_leb q p = true.
Proof. rewrite !pair_leb_spec. lia. Qed.
Lemma pair_leb_trans p q r : pair_leb p q = true -> pair_leb q r = true -> pair_leb p r = true.
Proof. rewrite !pair_leb_spec. lia. Qed.
Lemma pair_leb_antisym p q : pair_leb p q = true -> pair_leb q p = true -> p = q.
Proof. rewrite !pair_leb_spec. destruct p, q; cbn. intros. f_equal; lia. Qed.

Lemma by_label_total p q : by_label p q = true \/ by_label q p = true.
Proof. unfold by_label. apply zleb_total. Qed.
Lemma by_label_trans p q r : by_label p q = true -> by_label q r = true -> by_label p r = true.
Proof. unfold by_label. apply zleb_trans. Qed.

Lemma zsort_canonical l l' : Permutation l l' -> zsort l = zsort l'.
Proof. apply isort_canonical; [apply zleb_total | apply zleb_trans | apply zleb_antisym]. Qed.
Lemma psort_canonical l l' : Permutation l l' -> isort pair_leb l = isort pair_leb l'.
Proof. apply isort_canonical; [apply pair_leb_total | apply pair_leb_trans | apply pair_leb_antisym]. Qed.
Lemma ndistinct_perm l l' : Permutation l l' -> ndistinct l = ndistinct l'.
Proof. intros H. unfold ndistinct. rewrite (zsort_canonical _ _ H). reflexivity. Qed.

(* ==================================================================================================== *)
(* 2. dict lookups under renumbering and under permutation                                               *)
Lemma inj_on_incl D D' s : incl D' D -> inj_on D s -> inj_on D' s.
Proof. intros Hi Hs x y Hx Hy. apply Hs; apply Hi; assumption. Qed.

Lemma keys_ren_labels s l : keys (ren_labels s l) = map s (keys l).
Proof. unfold keys, ren_labels. rewrite !map_map. reflexivity. Qed.
Lemma values_ren_labels s l : map snd (ren_labels s l) = map snd l.
Proof. unfold ren_labels. rewrite map_map. reflexivity. Qed.
Lemma length_ren_labels s l : List.length (ren_labels s l) = List.length l.
Proof. unfold ren_labels. apply map_length. Qed.

Lemma zget_ren {V} s (d : list (Z * V)) n D : inj_on D s -> incl (keys d) D -> In n D ->
  zget (map (fun kv => (s (fst kv), snd kv)) d) (s n) = zget d n.
Proof.
  intros Hs Hd Hn. induction d as [|[k v] d IH]; cbn; [reflexivity|].
  assert (In k D) as Hk by (apply Hd; left; reflexivity).
  assert (incl (keys d) D) as Hd' by (intros x Hx; apply Hd; right; exact Hx).
  destruct (Z.eqb_spec n k) as [->|Hne].
  - rewrite Z.eqb_refl. reflexivity.
  - destruct (Z.eqb_spec (s n) (s k)) as [E|_]; [exfalso; apply Hne; apply Hs; assumption | apply IH; exact Hd'].
Qed.

Lemma lbl_ren s atoms n D : inj_on D s -> incl (keys atoms) D -> In n D ->
  lbl (ren_labels s atoms) (s n) = lbl atoms n.
Proof. intros Hs Hd Hn. unfold lbl, ren_labels. rewrite (zget_ren s atoms n D Hs Hd Hn). reflexivity. Qed.

Lemma zmem_ren s l n D : inj_on D s -> incl l D -> In n D -> zmem (s n) (map s l) = zmem n l.
Proof.
  intros Hs Hl Hn. unfold zmem. induction l as [|k l IH]; cbn [map existsb]; [reflexivity|].
  assert (In k D) as Hk by (apply Hl; left; reflexivity).
  rewrite IH by (intros x Hx; apply Hl; right; exact Hx). f_equal.
  destruct (Z.eqb_spec n k) as [->|Hne]; [apply Z.eqb_refl|].
  destruct (Z.eqb_spec (s n) (s k)) as [E|_]; [exfalso; apply Hne; apply Hs; assumption | reflexivity].
Qed.

Lemma zget_Some_In {V} (d : list (Z * V)) k v : zget d k = Some v -> In (k, v) d.
Proof.
  induction d as [|[k' v'] d IH]; cbn; [discriminate|].
  destruct (Z.eqb_spec k k') as [->|_]; [intros [= ->]; left; reflexivity | intros H; right; apply IH; exact H].
Qed.
Lemma zget_None_iff {V} (d : list (Z * V)) k : zget d k = None <-> ~ In k (keys d).
Proof.
  induction d as [|[k' v'] d IH]; cbn; [tauto|].
  destruct (Z.eqb_spec k k') as [->|Hne]; [split; [discriminate | intros H; exfalso; apply H; left; reflexivity]|].
  rewrite IH. split; [intros H [E|E]; [apply Hne; symmetry; exact E | apply H; exact E] | intros H E; apply H; right; exact E].
Qed.
Lemma zget_In {V} (d : list (Z * V)) k v : NoDup (keys d) -> In (k, v) d -> zget d k = Some v.
Proof.
  induction d as [|[k' v'] d IH]; cbn; [intros _ []|].
  intros Hn [E|Hin].
  - inversion E; subst. rewrite Z.eqb_refl. reflexivity.
  - inversion Hn as [|? ? Hk Hd]; subst. destruct (Z.eqb_spec k k') as [->|_].
    + exfalso. apply Hk. change k' with (fst (k', v)). apply in_map. exact Hin.
    + apply IH; assumption.
Qed.
Lemma keys_perm {V} (d d' : list (Z * V)) : Permutation d d' -> Permutation (keys d) (keys d').
Proof. apply Permutation_map. Qed.
Lemma zget_perm {V} (d d' : list (Z * V)) k : NoDup (keys d) -> Permutation d d' -> zget d k = zget d' k.
Proof.
  intros Hn Hp. assert (NoDup (keys d')) as Hn' by (eapply Permutation_NoDup; [apply keys_perm; exact Hp | exact Hn]).
  destruct (zget d k) as [v|] eqn:E.
  - symmetry. apply zget_In; [exact Hn'|]. eapply Permutation_in; [exact Hp|]. apply zget_Some_In. exact E.
  - symmetry. apply zget_None_iff. apply zget_None_iff in E. intros H. apply E.
    eapply Permutation_in; [apply Permutation_sym, keys_perm; exact Hp | exact H].
Qed.
Lemma lbl_perm atoms atoms' n : NoDup (keys atoms) -> Permutation atoms atoms' -> lbl atoms n = lbl atoms' n.
Proof. intros Hn Hp. unfold lbl. rewrite (zget_perm atoms atoms' n Hn Hp). reflexivity. Qed.

Lemma zmem_perm l l' x : Permutation l l' -> zmem x l = zmem x l'.
Proof.
  intros Hp. apply eq_iff_eq_true. rewrite !zmem_In.
  split; apply Permutation_in; [exact Hp | apply Permutation_sym; exact Hp].
Qed.
Lemma forallb_perm {A} (p : A -> bool) l l' : Permutation l l' -> forallb p l = forallb p l'.
Proof.
  induction 1; cbn; [reflexivity | f_equal; assumption | | congruence].
  rewrite !andb_assoc. f_equal. apply andb_comm.
Qed.

Lemma forallb_map_ext {A B} (p : B -> bool) (q : A -> bool) (f : A -> B) l :
  (forall x, In x l -> p (f x) = q x) -> forallb p (map f l) = forallb q l.
Proof.
  induction l as [|x l IH]; intros H; cbn; [reflexivity|].
  rewrite (H x (or_introl eq_refl)), IH; [reflexivity | intros y Hy; apply H; right; exact Hy].
Qed.

(* one unfolding step of the loop *)
Lemma refine_S h adj k atoms numb stab :
  refine h adj (S k) atoms numb stab =
  if closed atoms adj then
    let atoms' := round h atoms adj in
    let numb' := ndistinct (map snd atoms') in
    if numb' =? Z.of_nat (List.length atoms') then Ok atoms'
    else if numb' =? numb then (if stab =? 3 then Ok atoms' else refine h adj k atoms' numb' (stab + 1))
    else if negb (stab =? 0) then refine h adj k atoms' numb' 0
    else refine h adj k atoms' numb' stab
  else Err KeyError.
Proof. reflexivity. Qed.

Lemma keys_round h atoms adj : keys (round h atoms adj) = keys adj.
Proof. unfold keys, round. rewrite map_map. reflexivity. Qed.
Lemma length_round h atoms adj : List.length (round h atoms adj) = List.length adj.
Proof. unfold round. apply map_length. Qed.

Lemma adj_in_keys {B} D (adj : list (Z * list (Z * B))) : adj_in D adj -> incl (keys adj) D.
Proof.
  intros Ha n Hn. unfold keys in Hn. apply in_map_iff in Hn. destruct Hn as [[n' ms] [<- Hin]].
  cbn [fst]. exact (proj1 (Ha n' ms Hin)).
Qed.

(* ==================================================================================================== *)
(* 3. equivariance under an injective renumbering                                                        *)
Section Equivariance.
  Variable h : list Z -> Z.
  Variable s : Z -> Z.
  Variable D : list Z.
  Hypothesis s_inj : inj_on D s.

  Lemma round_ren atoms adj : incl (keys atoms) D -> adj_in D adj ->
    round h (ren_labels s atoms) (ren_adj s adj) = ren_labels s (round h atoms adj).
  Proof.
    intros Hk Ha. unfold round, ren_adj. unfold ren_labels at 2. rewrite !map_map.
    apply map_ext_in. intros [n ms] Hin. cbn [fst snd].
    destruct (Ha n ms Hin) as [Hn Hms].
    f_equal. f_equal. unfold round_tuple.
    rewrite (lbl_ren s atoms n D s_inj Hk Hn). f_equal. f_equal. f_equal.
    rewrite map_map. apply map_ext_in. intros [m b] Hm. cbn [fst snd].
    rewrite (lbl_ren s atoms m D s_inj Hk); [reflexivity|].
    apply Hms. unfold keys. change m with (fst (m, b)). apply in_map. exact Hm.
  Qed.

  Lemma closed_ren atoms adj : incl (keys atoms) D -> adj_in D adj ->
    closed (ren_labels s atoms) (ren_adj s adj) = closed atoms adj.
  Proof.
    intros Hk Ha. unfold closed, ren_adj. rewrite keys_ren_labels.
    apply forallb_map_ext. intros [n ms] Hin. cbn [fst snd].
    destruct (Ha n ms Hin) as [Hn Hms].
    rewrite (zmem_ren s (keys atoms) n D s_inj Hk Hn). f_equal.
    apply forallb_map_ext. intros [m b] Hm. cbn [fst snd].
    apply (zmem_ren s (keys atoms) m D s_inj Hk).
    apply Hms. unfold keys. change m with (fst (m, b)). apply in_map. exact Hm.
  Qed.

  Lemma refine_ren adj : adj_in D adj -> forall fuel atoms numb stab, incl (keys atoms) D ->
    refine h (ren_adj s adj) fuel (ren_labels s atoms) numb stab = ren_res s (refine h adj fuel atoms numb stab).
  Proof.
    intros Ha. induction fuel as [|k IH]; intros atoms numb stab Hk; [reflexivity|].
    rewrite !refine_S. rewrite (closed_ren atoms adj Hk Ha).
    destruct (closed atoms adj); [|reflexivity].
    rewrite (round_ren atoms adj Hk Ha). cbv zeta.
    rewrite values_ren_labels, length_ren_labels.
    assert (incl (keys (round h atoms adj)) D) as Hk' by (rewrite keys_round; apply adj_in_keys; exact Ha).
    destruct (_ =? Z.of_nat _); [reflexivity|].
    destruct (_ =? numb).
    - destruct (stab =? 3); [reflexivity | apply IH; exact Hk'].
    - destruct (negb (stab =? 0)); apply IH; exact Hk'.
  Qed.

  Lemma rank_walk_ren prev i l : rank_walk prev i (ren_labels s l) = ren_labels s (rank_walk prev i l).
  Proof.
    revert prev i. induction l as [|[n v] l IH]; intros prev i; [reflexivity|].
    cbn [ren_labels map rank_walk fst snd]. f_equal. apply IH.
  Qed.

  Lemma dense_rank_ren atoms : dense_rank (ren_labels s atoms) = ren_labels s (dense_rank atoms).
  Proof.
    unfold dense_rank. unfold ren_labels at 1.
    rewrite (isort_map by_label by_label (fun nv : Z * Z => (s (fst nv), snd nv))) by reflexivity.
    destruct (isort by_label atoms) as [|[n v] r]; [reflexivity|].
    cbn [map fst snd ren_labels]. f_equal. apply rank_walk_ren.
  Qed.

  Theorem morgan_labels_ren atoms adj : incl (keys atoms) D -> adj_in D adj ->
    morgan_labels h (ren_labels s atoms) (ren_adj s adj) = ren_res s (morgan_labels h atoms adj).
  Proof.
    intros Hk Ha. unfold morgan_labels. rewrite values_ren_labels, length_ren_labels. apply refine_ren; assumption.
  Qed.

  Theorem morgan_ren atoms adj : incl (keys atoms) D -> adj_in D adj ->
    morgan h (ren_labels s atoms) (ren_adj s adj) = ren_res s (morgan h atoms adj).
  Proof.
    intros Hk Ha. unfold morgan. rewrite (morgan_labels_ren atoms adj Hk Ha).
    destruct (morgan_labels h atoms adj); cbn [ren_res]; [rewrite dense_rank_ren|]; reflexivity.
  Qed.
End Equivariance.

(* ==================================================================================================== *)
(* 4. the final dense ranking: rank = number of distinct labels <= own label                              *)
Definition Zle_b (x y : Z) : Prop := (x <=? y) = true.
Definition nd (l : list Z) : Z := Z.of_nat (List.length (uniq l)).

Lemma uniq_cons2 x y r : uniq (x :: y :: r) = if x =? y then uniq (y :: r) else x :: uniq (y :: r).
Proof. reflexivity. Qed.

Lemma uniq_same v E : Forall (eq v) E -> uniq (v :: E) = [v].
Proof.
  induction E as [|e E IH]; intros H; [reflexivity|].
  inversion H as [|? ? He HE]; subst. rewrite uniq_cons2, Z.eqb_refl. apply IH. exact HE.
Qed.

Lemma uniq_app_dups P v E : Forall (eq v) E -> uniq (P ++ v :: E) = uniq (P ++ [v]).
Proof.
  intros HE. induction P as [|x P IH]; [cbn [app]; rewrite (uniq_same v E HE); reflexivity|].
  destruct P as [|y P].
  - cbn [app]. rewrite !uniq_cons2. rewrite (uniq_same v E HE). reflexivity.
  - cbn [app] in *. rewrite !uniq_cons2. rewrite IH. reflexivity.
Qed.

Lemma nd_snoc P v : P <> [] -> nd (P ++ [v]) = if last P 0 =? v then nd P else nd P + 1.
Proof.
  unfold nd. induction P as [|x P IH]; intros Hne; [congruence|].
  destruct P as [|y P].
  - cbn [app last]. rewrite uniq_cons2. destruct (x =? v); cbn; lia.
  - change ((x :: y :: P) ++ [v]) with (x :: y :: (P ++ [v])).
    change (last (x :: y :: P) 0) with (last (y :: P) 0).
    rewrite !uniq_cons2. specialize (IH ltac:(discriminate)).
    change ((y :: P) ++ [v]) with (y :: (P ++ [v])) in IH.
    destruct (x =? y); [exact IH|].
    cbn [List.length]. rewrite !Nat2Z.inj_succ. rewrite IH. destruct (last (y :: P) 0 =? v); lia.
Qed.

Lemma sorted_app_inv P v V : StronglySorted Zle_b (P ++ v :: V) ->
  Forall (fun p => Zle_b p v) P /\ Forall (Zle_b v) V.
Proof.
  induction P as [|x P IH]; cbn [app]; intros Hs; inversion Hs as [|? ? Hr Hx]; subst.
  - split; [constructor | exact Hx].
  - destruct (IH Hr) as [H1 H2]. split; [|exact H2]. constructor; [|exact H1].
    rewrite Forall_forall in Hx. apply Hx. apply in_or_app. right. left. reflexivity.
Qed.

Lemma filter_all {A} (p : A -> bool) l : Forall (fun x => p x = true) l -> filter p l = l.
Proof. induction 1 as [|x l Hx _ IH]; cbn; [reflexivity | rewrite Hx, IH; reflexivity]. Qed.

Lemma filter_le_sorted P v V : StronglySorted Zle_b (P ++ v :: V) ->
  exists E, Forall (eq v) E /\ filter (fun x => x <=? v) (P ++ v :: V) = P ++ v :: E.
Proof.
  intros Hs. destruct (sorted_app_inv P v V Hs) as [HP HV].
  exists (filter (fun x => x <=? v) V). split.
  - rewrite Forall_forall in *. intros x Hx. apply filter_In in Hx. destruct Hx as [Hx1 Hx2].
    specialize (HV x Hx1). unfold Zle_b in HV. apply Z.leb_le in HV, Hx2. lia.
  - rewrite filter_app. cbn [filter]. rewrite Z.leb_refl. rewrite (filter_all _ P HP). reflexivity.
Qed.

Lemma rank_walk_spec L : forall P, P <> [] -> StronglySorted Zle_b (P ++ map snd L) ->
  rank_walk (last P 0) (nd P) L =
  map (fun nv => (fst nv, nd (filter (fun x => x <=? snd nv) (P ++ map snd L)))) L.
Proof.
  induction L as [|[n v] L IH]; intros P Hne Hs; [reflexivity|].
  cbn [map snd fst rank_walk] in *.
  destruct (filter_le_sorted P v (map snd L) Hs) as [E [HE HF]].
  assert (nd (filter (fun x => x <=? v) (P ++ v :: map snd L)) = nd (P ++ [v])) as Hnd
    by (rewrite HF; unfold nd; rewrite (uniq_app_dups P v E HE); reflexivity).
  assert ((if v =? last P 0 then nd P else nd P + 1) = nd (P ++ [v])) as Hi
    by (rewrite (nd_snoc P v Hne), Z.eqb_sym; reflexivity).
  rewrite Hi, Hnd. f_equal.
  specialize (IH (P ++ [v])). rewrite last_last in IH. rewrite <- app_assoc in IH. cbn [app] in IH.
  apply IH; [destruct P; discriminate | exact Hs].
Qed.

Lemma sorted_map_snd L : StronglySorted (fun x y => by_label x y = true) L -> StronglySorted Zle_b (map snd L).
Proof.
  induction 1 as [|x L Hs IH Hx]; cbn [map]; constructor; [exact IH|].
  rewrite Forall_forall in *. intros y Hy. apply in_map_iff in Hy. destruct Hy as [z [<- Hz]]. apply (Hx z Hz).
Qed.

Lemma sorted_filter {A} (R : A -> A -> Prop) p l : StronglySorted R l -> StronglySorted R (filter p l).
Proof.
  induction 1 as [|x l Hs IH Hx]; cbn [filter]; [constructor|].
  destruct (p x); [|exact IH]. constructor; [exact IH|].
  rewrite Forall_forall in *. intros y Hy. apply filter_In in Hy. apply Hx. exact (proj1 Hy).
Qed.

Lemma rankv_sorted V v : StronglySorted Zle_b V -> rankv V v = nd (filter (fun x => x <=? v) V).
Proof.
  intros Hs. unfold rankv, nd, zsort.
  rewrite (isort_sorted_id Z.leb zleb_total zleb_trans zleb_antisym); [reflexivity|].
  apply sorted_filter. exact Hs.
Qed.

Lemma filter_perm {A} (p : A -> bool) l l' : Permutation l l' -> Permutation (filter p l) (filter p l').
Proof.
  induction 1 as [|x l l' _ IH|x y l|l l' l'' _ IH1 _ IH2]; cbn [filter].
  - constructor.
  - destruct (p x); [apply perm_skip|]; exact IH.
  - destruct (p x), (p y); try apply Permutation_refl. apply perm_swap.
  - eapply Permutation_trans; eassumption.
Qed.

Lemma rankv_perm vs vs' v : Permutation vs vs' -> rankv vs v = rankv vs' v.
Proof.
  intros Hp. unfold rankv.
  rewrite (zsort_canonical _ _ (filter_perm (fun x => x <=? v) vs vs' Hp)). reflexivity.
Qed.

(* the ranking that `_morgan` returns: the items sorted by label, each with the number of distinct labels <= its own *)
Theorem dense_rank_spec atoms :
  dense_rank atoms = map (fun nv => (fst nv, rankv (map snd atoms) (snd nv))) (isort by_label atoms).
Proof.
  assert (Permutation (map snd atoms) (map snd (isort by_label atoms))) as Hp
    by (apply Permutation_map, Permutation_sym, isort_perm).
  assert (StronglySorted Zle_b (map snd (isort by_label atoms))) as Hs
    by (apply sorted_map_snd, isort_sorted; [apply by_label_total | apply by_label_trans]).
  unfold dense_rank.
  erewrite map_ext; [|intros nv; rewrite (rankv_perm _ _ (snd nv) Hp), (rankv_sorted _ _ Hs); reflexivity].
  destruct (isort by_label atoms) as [|[n v] L]; [reflexivity|].
  cbn [map fst snd] in *.
  destruct (filter_le_sorted [] v (map snd L) Hs) as [E [HE HF]]. cbn [app] in HF.
  rewrite HF. unfold nd at 1. rewrite (uniq_same v E HE). cbn [List.length Z.of_nat Pos.of_succ_nat].
  f_equal. apply (rank_walk_spec L [v]); [discriminate | exact Hs].
Qed.

Lemma dense_rank_perm atoms atoms' : Permutation atoms atoms' -> Permutation (dense_rank atoms) (dense_rank atoms').
Proof.
  intros Hp. rewrite !dense_rank_spec.
  erewrite map_ext; [|intros nv; rewrite (rankv_perm _ _ (snd nv) (Permutation_map snd Hp)); reflexivity].
  apply Permutation_map.
  eapply Permutation_trans; [apply isort_perm|]. eapply Permutation_trans; [exact Hp|].
  apply Permutation_sym, isort_perm.
Qed.

Lemma keys_dense_rank atoms : Permutation (keys (dense_rank atoms)) (keys atoms).
Proof.
  rewrite dense_rank_spec. unfold keys. rewrite map_map. cbn [fst].
  apply Permutation_map. apply isort_perm.
Qed.

(* the result dict is in ascending rank order *)
Lemma rank_walk_sorted prev i l :
  StronglySorted (fun x y : Z * Z => snd x <= snd y) (rank_walk prev i l) /\
  Forall (fun x : Z * Z => i <= snd x) (rank_walk prev i l).
Proof.
  revert prev i. induction l as [|[n v] l IH]; intros prev i; cbn [rank_walk fst snd]; [split; constructor|].
  set (i' := if v =? prev then i else i + 1).
  assert (i <= i') as Hi by (unfold i'; destruct (v =? prev); lia).
  destruct (IH v i') as [H1 H2]. split.
  - constructor; [exact H1|]. eapply Forall_impl; [|exact H2]. cbn. intros; lia.
  - constructor; [cbn; lia|]. eapply Forall_impl; [|exact H2]. cbn. intros; lia.
Qed.
Lemma dense_rank_sorted atoms : StronglySorted (fun x y : Z * Z => snd x <= snd y) (dense_rank atoms).
Proof.
  unfold dense_rank. destruct (isort by_label atoms) as [|[n v] r]; [constructor|].
  destruct (rank_walk_sorted v 1 r) as [H1 H2]. constructor; [exact H1|].
  eapply Forall_impl; [|exact H2]. cbn. intros; lia.
Qed.

(* ==================================================================================================== *)
(* 5. independence of the insertion orders                                                               *)
Lemma forallb_ext' {A} (p q : A -> bool) l : (forall x, p x = q x) -> forallb p l = forallb q l.
Proof. intros H. induction l as [|x l IH]; cbn; [reflexivity | rewrite H, IH; reflexivity]. Qed.

Section OrderIndependence.
  Variable h : list Z -> Z.

  Lemma round_tuple_perm atoms atoms' n ms ms' :
    (forall k, lbl atoms k = lbl atoms' k) -> Permutation ms ms' ->
    round_tuple atoms n ms = round_tuple atoms' n ms'.
  Proof.
    intros Hl Hp. unfold round_tuple. rewrite Hl. f_equal. f_equal.
    apply psort_canonical.
    erewrite map_ext; [|intros mb; rewrite Hl; reflexivity].
    apply Permutation_map. exact Hp.
  Qed.

  Lemma round_nb_perm atoms atoms' adj mid :
    (forall k, lbl atoms k = lbl atoms' k) -> Forall2 nb_perm adj mid -> round h atoms adj = round h atoms' mid.
  Proof.
    intros Hl Hf. unfold round.
    induction Hf as [|[n ms] [n' ms'] adj mid [Hn Hms] _ IH]; cbn [map fst snd] in *; [reflexivity|].
    subst n'. rewrite IH, (round_tuple_perm atoms atoms' n ms ms' Hl Hms). reflexivity.
  Qed.

  Lemma round_perm atoms atoms' adj adj' :
    (forall k, lbl atoms k = lbl atoms' k) -> adj_perm adj adj' ->
    Permutation (round h atoms adj) (round h atoms' adj').
  Proof.
    intros Hl [mid [Hf Hp]]. rewrite (round_nb_perm atoms atoms' adj mid Hl Hf).
    unfold round. apply Permutation_map. exact Hp.
  Qed.

  Lemma closed_nb_perm atoms atoms' adj mid :
    Permutation (keys atoms) (keys atoms') -> Forall2 nb_perm adj mid -> closed atoms adj = closed atoms' mid.
  Proof.
    intros Hk Hf. unfold closed.
    induction Hf as [|[n ms] [n' ms'] adj mid [Hn Hms] _ IH]; cbn [forallb fst snd] in *; [reflexivity|].
    subst n'. rewrite IH. f_equal. rewrite (zmem_perm _ _ n Hk). f_equal.
    rewrite (forallb_perm _ ms ms' Hms). apply forallb_ext'. intros mb. apply zmem_perm. exact Hk.
  Qed.

  Lemma closed_perm atoms atoms' adj adj' :
    Permutation (keys atoms) (keys atoms') -> adj_perm adj adj' -> closed atoms adj = closed atoms' adj'.
  Proof.
    intros Hk [mid [Hf Hp]]. rewrite (closed_nb_perm atoms atoms' adj mid Hk Hf).
    unfold closed. apply forallb_perm. exact Hp.
  Qed.

  Lemma adj_perm_keys {B} (adj adj' : list (Z * list (Z * B))) : adj_perm adj adj' -> Permutation (keys adj) (keys adj').
  Proof.
    intros [mid [Hf Hp]]. eapply Permutation_trans; [|apply keys_perm; exact Hp].
    assert (keys adj = keys mid) as ->; [|apply Permutation_refl].
    clear Hp. unfold keys. induction Hf as [|[n ms] [n' ms'] adj mid [Hn _] _ IH]; cbn [map fst] in *; [reflexivity|].
    rewrite IH, Hn. reflexivity.
  Qed.

  Lemma refine_perm adj adj' : adj_perm adj adj' -> NoDup (keys adj) ->
    forall fuel atoms atoms' numb stab, Permutation atoms atoms' -> NoDup (keys atoms) ->
    res_perm (refine h adj fuel atoms numb stab) (refine h adj' fuel atoms' numb stab).
  Proof.
    intros Ha Hnd. induction fuel as [|k IH]; intros atoms atoms' numb stab Hp Hn; [exact Hp|].
    rewrite !refine_S. rewrite (closed_perm atoms atoms' adj adj' (keys_perm _ _ Hp) Ha).
    destruct (closed atoms' adj'); [|reflexivity]. cbv zeta.
    assert (Permutation (round h atoms adj) (round h atoms' adj')) as Hr
      by (apply round_perm; [intros k0; apply lbl_perm; assumption | exact Ha]).
    rewrite (ndistinct_perm _ _ (Permutation_map snd Hr)), (Permutation_length Hr).
    assert (NoDup (keys (round h atoms adj))) as Hn' by (rewrite keys_round; exact Hnd).
    destruct (_ =? Z.of_nat _); [exact Hr|].
    destruct (_ =? numb).
    - destruct (stab =? 3); [exact Hr | apply IH; assumption].
    - destruct (negb (stab =? 0)); apply IH; assumption.
  Qed.

  Theorem morgan_perm atoms atoms' adj adj' :
    NoDup (keys atoms) -> NoDup (keys adj) -> Permutation atoms atoms' -> adj_perm adj adj' ->
    res_perm (morgan h atoms adj) (morgan h atoms' adj').
  Proof.
    intros Hn Hnd Hp Ha. unfold morgan, morgan_labels.
    rewrite (ndistinct_perm _ _ (Permutation_map snd Hp)), (Permutation_length Hp).
    pose proof (refine_perm adj adj' Ha Hnd (Z.to_nat (Z.of_nat (List.length atoms') - 1)) atoms atoms'
                  (ndistinct (map snd atoms')) 0 Hp Hn) as H.
    destruct (refine h adj _ atoms _ 0), (refine h adj' _ atoms' _ 0); cbn [res_perm] in *; try assumption.
    apply dense_rank_perm. exact H.
  Qed.
End OrderIndependence.

(* ==================================================================================================== *)
(* 6. molecules                                                                                          *)
Lemma list_eqb_Z_eq a b : list_eqb Z.eqb a b = true -> a = b.
Proof.
  revert b. induction a as [|x a IH]; intros [|y b] H; try discriminate; [reflexivity|].
  cbn in H. apply andb_prop in H. destruct H as [H1 H2]. apply Z.eqb_eq in H1. subst. f_equal. apply IH. exact H2.
Qed.
Lemma nodup_z_NoDup l : nodup_z l = true -> NoDup l.
Proof.
  induction l as [|x l IH]; cbn; intros H; constructor; apply andb_prop in H; destruct H as [H1 H2].
  - intros Hin. apply zmem_In in Hin. rewrite Hin in H1. discriminate.
  - apply IH. exact H2.
Qed.

(* what wf_mol gives *)
Lemma wf_mol_inv g : wf_mol g = true ->
  ids g = keys (m_adj g) /\ NoDup (ids g) /\ adj_in (ids g) (m_adj g).
Proof.
  unfold wf_mol. intros H. apply andb_prop in H. destruct H as [H H3]. apply andb_prop in H. destruct H as [H1 H2].
  apply list_eqb_Z_eq in H1. apply nodup_z_NoDup in H2. split; [exact H1|]. split; [exact H2|].
  rewrite forallb_forall in H3. intros n ms Hin. specialize (H3 _ Hin). cbn [fst snd] in H3.
  apply andb_prop in H3. destruct H3 as [_ H3]. split.
  - unfold ids. rewrite H1. unfold keys. change n with (fst (n, ms)). apply in_map. exact Hin.
  - rewrite forallb_forall in H3. intros m Hm. unfold keys in Hm. apply in_map_iff in Hm.
    destruct Hm as [[m' b] [<- Hmb]]. specialize (H3 _ Hmb). cbn [fst snd] in H3.
    apply andb_prop in H3. destruct H3 as [H3 _]. apply andb_prop in H3. destruct H3 as [_ H3].
    apply zmem_In. exact H3.
Qed.

Lemma keys_int_adjacency g : keys (int_adjacency g) = keys (m_adj g).
Proof. unfold keys, int_adjacency. rewrite map_map. reflexivity. Qed.
Lemma keys_atom_labels h ring g : keys (atom_labels h ring g) = ids g.
Proof. unfold keys, atom_labels, ids, keys. rewrite map_map. reflexivity. Qed.

Lemma adj_in_int_adjacency D g : adj_in D (m_adj g) -> adj_in D (int_adjacency g).
Proof.
  intros Ha n ms Hin. unfold int_adjacency in Hin. apply in_map_iff in Hin. destruct Hin as [[n' l] [E Hin]].
  cbn [fst snd] in E. inversion E; subst. destruct (Ha n l Hin) as [H1 H2]. split; [exact H1|].
  unfold keys. rewrite map_map. exact H2.
Qed.

Lemma int_adjacency_ren s g : int_adjacency (ren_mol s g) = ren_adj s (int_adjacency g).
Proof.
  unfold int_adjacency, ren_mol, ren_adj. cbn [m_adj]. rewrite !map_map.
  apply map_ext. intros [n ms]. cbn [fst snd]. rewrite !map_map. reflexivity.
Qed.
Lemma atom_labels_ren h s ring ring' g : (forall n, In n (ids g) -> ring' (s n) = ring n) ->
  atom_labels h ring' (ren_mol s g) = ren_labels s (atom_labels h ring g).
Proof.
  intros Hr. unfold atom_labels, ren_mol, ren_labels. cbn [m_atoms]. rewrite !map_map.
  apply map_ext_in. intros [n a] Hin. cbn [fst snd]. rewrite Hr; [reflexivity|].
  unfold ids, keys. change n with (fst (n, a)). apply in_map. exact Hin.
Qed.

(* ---- totality: on a well-formed molecule no KeyError, every atom gets a rank ---- *)
Lemma refine_total h adj : (forall atoms, keys atoms = keys adj -> closed atoms adj = true) ->
  forall fuel atoms numb stab, keys atoms = keys adj ->
  exists l, refine h adj fuel atoms numb stab = Ok l /\ keys l = keys adj.
Proof.
  intros Hc. induction fuel as [|k IH]; intros atoms numb stab Hk; [exists atoms; split; [reflexivity | exact Hk]|].
  rewrite refine_S, (Hc atoms Hk). cbv zeta.
  pose proof (keys_round h atoms adj) as Hk'.
  destruct (_ =? Z.of_nat _); [eexists; split; [reflexivity | exact Hk']|].
  destruct (_ =? numb).
  - destruct (stab =? 3); [eexists; split; [reflexivity | exact Hk'] | apply IH; exact Hk'].
  - destruct (negb (stab =? 0)); apply IH; exact Hk'.
Qed.

Lemma closed_wf g : wf_mol g = true -> forall atoms, keys atoms = keys (int_adjacency g) -> closed atoms (int_adjacency g) = true.
Proof.
  intros Hwf atoms Hk. destruct (wf_mol_inv g Hwf) as [H1 [_ H3]].
  apply (adj_in_int_adjacency (ids g) g) in H3.
  unfold closed. rewrite forallb_forall. intros [n ms] Hin. cbn [fst snd].
  destruct (H3 n ms Hin) as [Hn Hms]. rewrite Hk, keys_int_adjacency, <- H1. fold (ids g).
  apply andb_true_intro. split; [apply zmem_In; exact Hn|].
  rewrite forallb_forall. intros [m b] Hm. cbn [fst]. apply zmem_In. apply Hms.
  unfold keys. change m with (fst (m, b)). apply in_map. exact Hm.
Qed.

Theorem atoms_order_total h ring g : wf_mol g = true ->
  exists l, atoms_order h ring g = Ok l /\ Permutation (keys l) (ids g).
Proof.
  intros Hwf. destruct (wf_mol_inv g Hwf) as [H1 _].
  unfold atoms_order. destruct (m_atoms g) as [|na [|nb r]] eqn:E.
  - exists []. unfold ids. rewrite E. split; [reflexivity | constructor].
  - exists [(fst na, 1)]. unfold ids. rewrite E. split; [reflexivity | apply Permutation_refl].
  - unfold morgan, morgan_labels.
    assert (keys (atom_labels h ring g) = keys (int_adjacency g)) as Hk
      by (rewrite keys_atom_labels, keys_int_adjacency; exact H1).
    destruct (refine_total h (int_adjacency g) (closed_wf g Hwf) (Z.to_nat (Z.of_nat (List.length (atom_labels h ring g)) - 1))
                (atom_labels h ring g) (ndistinct (map snd (atom_labels h ring g))) 0 Hk) as [l [Hl Hkl]].
    rewrite Hl. exists (dense_rank l). split; [reflexivity|].
    eapply Permutation_trans; [apply keys_dense_rank|]. rewrite Hkl, keys_int_adjacency, <- H1. apply Permutation_refl.
Qed.

(* ---- equivariance ---- *)
Theorem atoms_order_equivariant h ring ring' g s :
  wf_mol g = true -> inj_on (ids g) s -> (forall n, In n (ids g) -> ring' (s n) = ring n) ->
  atoms_order h ring' (ren_mol s g) = ren_res s (atoms_order h ring g).
Proof.
  intros Hwf Hs Hr. destruct (wf_mol_inv g Hwf) as [H1 [_ H3]].
  unfold atoms_order. destruct (m_atoms g) as [|na [|nb r]] eqn:E; unfold ren_mol at 1; cbn [m_atoms]; rewrite E; cbn [map];
    [reflexivity | reflexivity |].
  replace ((s (fst na), snd na) :: (s (fst nb), snd nb) :: map (fun na0 => (s (fst na0), snd na0)) r)
    with (m_atoms (ren_mol s g)) by (unfold ren_mol; cbn [m_atoms]; rewrite E; reflexivity).
  rewrite (atom_labels_ren h s ring ring' g Hr), int_adjacency_ren.
  apply (morgan_ren h s (ids g) Hs).
  - rewrite keys_atom_labels. apply incl_refl.
  - apply adj_in_int_adjacency. exact H3.
Qed.

Theorem morgan_equivariant h ring ring' g s :
  wf_mol g = true -> inj_on (ids g) s -> (forall n, In n (ids g) -> ring' (s n) = ring n) ->
  forall n, In n (ids g) -> rank_of (atoms_order h ring' (ren_mol s g)) (s n) = rank_of (atoms_order h ring g) n.
Proof.
  intros Hwf Hs Hr n Hn. rewrite (atoms_order_equivariant h ring ring' g s Hwf Hs Hr).
  destruct (atoms_order_total h ring g Hwf) as [l [Hl Hk]]. rewrite Hl. cbn [ren_res rank_of].
  apply (zget_ren s l n (ids g) Hs); [|exact Hn].
  intros x Hx. eapply Permutation_in; [exact Hk | exact Hx].
Qed.

(* ---- insertion order ---- *)
Lemma adj_perm_int_adjacency g g' : adj_perm (m_adj g) (m_adj g') -> adj_perm (int_adjacency g) (int_adjacency g').
Proof.
  intros [mid [Hf Hp]]. unfold int_adjacency.
  exists (map (fun nl => (fst nl, map (fun mb => (fst mb, bond_invariant (snd mb))) (snd nl))) mid). split.
  - clear Hp. induction Hf as [|[n ms] [n' ms'] adj mid [Hn Hms] _ IH]; cbn [map fst snd] in *; constructor; [|exact IH].
    split; cbn [fst snd]; [exact Hn | apply Permutation_map; exact Hms].
  - apply Permutation_map. exact Hp.
Qed.

Lemma refine_keys h adj fuel : forall atoms numb stab l,
  refine h adj fuel atoms numb stab = Ok l -> keys l = keys atoms \/ keys l = keys adj.
Proof.
  induction fuel as [|k IH]; intros atoms numb stab l; [intros [= <-]; left; reflexivity|].
  rewrite refine_S. destruct (closed atoms adj); [|discriminate]. cbv zeta.
  pose proof (keys_round h atoms adj) as Hk'.
  assert (forall numb' stab', refine h adj k (round h atoms adj) numb' stab' = Ok l -> keys l = keys atoms \/ keys l = keys adj) as Hrec
    by (intros numb' stab' H; right; destruct (IH _ _ _ _ H) as [H'|H']; congruence).
  destruct (_ =? Z.of_nat _); [intros [= <-]; right; exact Hk'|].
  destruct (_ =? numb).
  - destruct (stab =? 3); [intros [= <-]; right; exact Hk' | apply Hrec].
  - destruct (negb (stab =? 0)); apply Hrec.
Qed.

Lemma morgan_keys_nodup h atoms adj l : NoDup (keys atoms) -> NoDup (keys adj) -> morgan h atoms adj = Ok l -> NoDup (keys l).
Proof.
  intros Hn Hnd. unfold morgan, morgan_labels.
  destruct (refine h adj _ atoms _ 0) as [a|] eqn:E; [|discriminate]. intros [= <-].
  eapply Permutation_NoDup; [apply Permutation_sym, keys_dense_rank|].
  destruct (refine_keys _ _ _ _ _ _ _ E) as [-> | ->]; assumption.
Qed.

Theorem atoms_order_order_independent h ring g g' :
  NoDup (ids g) -> NoDup (keys (m_adj g)) -> mol_perm g g' ->
  res_perm (atoms_order h ring g) (atoms_order h ring g').
Proof.
  intros Hn Hnd [Hp Ha]. unfold atoms_order.
  assert (res_perm (morgan h (atom_labels h ring g) (int_adjacency g)) (morgan h (atom_labels h ring g') (int_adjacency g'))) as Hm.
  { apply morgan_perm.
    - rewrite keys_atom_labels. exact Hn.
    - rewrite keys_int_adjacency. exact Hnd.
    - unfold atom_labels. apply Permutation_map. exact Hp.
    - apply adj_perm_int_adjacency. exact Ha. }
  pose proof (Permutation_length Hp) as Hlen.
  destruct (m_atoms g) as [|na [|nb r]] eqn:E.
  - apply Permutation_nil in Hp. rewrite Hp. cbn. constructor.
  - apply Permutation_length_1_inv in Hp. rewrite Hp. cbn. apply Permutation_refl.
  - destruct (m_atoms g') as [|na' [|nb' r']]; cbn in Hlen; try discriminate. exact Hm.
Qed.

Lemma atoms_order_keys_nodup h ring g l : NoDup (ids g) -> NoDup (keys (m_adj g)) -> atoms_order h ring g = Ok l -> NoDup (keys l).
Proof.
  intros Hn Hnd. unfold atoms_order. destruct (m_atoms g) as [|na [|nb r]] eqn:E.
  - intros [= <-]. constructor.
  - intros [= <-]. cbn. constructor; [intros [] | constructor].
  - apply morgan_keys_nodup; [rewrite keys_atom_labels; exact Hn | rewrite keys_int_adjacency; exact Hnd].
Qed.

Theorem morgan_order_independent h ring g g' :
  NoDup (ids g) -> NoDup (keys (m_adj g)) -> mol_perm g g' ->
  forall n, rank_of (atoms_order h ring g) n = rank_of (atoms_order h ring g') n.
Proof.
  intros Hn Hnd Hp n. pose proof (atoms_order_order_independent h ring g g' Hn Hnd Hp) as H.
  destruct (atoms_order h ring g) as [l|e] eqn:E, (atoms_order h ring g') as [l'|e']; cbn [res_perm rank_of] in *;
    try contradiction; [|reflexivity].
  apply zget_perm; [|exact H]. exact (atoms_order_keys_nodup h ring g l Hn Hnd E).
Qed.

Lemma NoDup_map_inj s l : inj_on l s -> NoDup l -> NoDup (map s l).
Proof.
  induction l as [|x l IH]; intros Hs Hn; cbn [map]; [constructor|].
  inversion Hn as [|? ? Hx Hl]; subst. constructor.
  - intros Hin. apply in_map_iff in Hin. destruct Hin as [y [E Hy]].
    assert (y = x) by (apply Hs; [right; exact Hy | left; reflexivity | exact E]). subst. contradiction.
  - apply IH; [|exact Hl]. intros a b Ha Hb. apply Hs; right; assumption.
Qed.
Lemma ids_ren_mol s g : ids (ren_mol s g) = map s (ids g).
Proof. unfold ids, ren_mol, keys. cbn [m_atoms]. rewrite !map_map. reflexivity. Qed.
Lemma keys_adj_ren_mol s g : keys (m_adj (ren_mol s g)) = map s (keys (m_adj g)).
Proof. unfold ren_mol, ren_adj, keys. cbn [m_adj]. rewrite !map_map. reflexivity. Qed.

(* renumbering and re-insertion together *)
Theorem morgan_structure_only h ring ring' g s g' :
  wf_mol g = true -> inj_on (ids g) s -> (forall n, In n (ids g) -> ring' (s n) = ring n) -> mol_perm (ren_mol s g) g' ->
  forall n, In n (ids g) -> rank_of (atoms_order h ring' g') (s n) = rank_of (atoms_order h ring g) n.
Proof.
  intros Hwf Hs Hr Hp n Hn. destruct (wf_mol_inv g Hwf) as [H1 [H2 _]].
  rewrite <- (morgan_equivariant h ring ring' g s Hwf Hs Hr n Hn).
  symmetry. apply morgan_order_independent; [| |exact Hp].
  - rewrite ids_ren_mol. apply NoDup_map_inj; assumption.
  - rewrite keys_adj_ren_mol, <- H1. apply NoDup_map_inj; assumption.
Qed.

(* ---- discrete classes: the atom order induced by the ranks is mapped by the renumbering ---- *)
Lemma sorted_le_nodup_lt (L : list (Z * Z)) :
  StronglySorted (fun x y => snd x <= snd y) L -> NoDup (map snd L) -> StronglySorted (fun x y => snd x < snd y) L.
Proof.
  induction 1 as [|x L Hs IH Hx]; cbn [map]; intros Hn; constructor; inversion Hn as [|? ? Hnx HnL]; subst.
  - apply IH. exact HnL.
  - rewrite Forall_forall in *. intros y Hy. specialize (Hx y Hy).
    assert (snd x <> snd y) by (intros E; apply Hnx; rewrite E; apply in_map; exact Hy). lia.
Qed.
Lemma sorted_lt_perm_eq (L L' : list (Z * Z)) :
  StronglySorted (fun x y => snd x < snd y) L -> StronglySorted (fun x y => snd x < snd y) L' -> Permutation L L' -> L = L'.
Proof.
  revert L'. induction L as [|x L IH]; intros L' Hs Hs' Hp.
  - apply Permutation_nil in Hp. subst. reflexivity.
  - destruct L' as [|x' L']; [apply Permutation_sym, Permutation_nil in Hp; discriminate|].
    inversion Hs as [|? ? Hl Hx]; subst. inversion Hs' as [|? ? Hl' Hx']; subst.
    rewrite Forall_forall in Hx, Hx'.
    assert (x = x') as ->.
    { assert (In x (x' :: L')) as H1 by (eapply Permutation_in; [exact Hp | left; reflexivity]).
      assert (In x' (x :: L)) as H2 by (eapply Permutation_in; [apply Permutation_sym; exact Hp | left; reflexivity]).
      destruct H1 as [H1|H1]; [symmetry; exact H1|]. destruct H2 as [H2|H2]; [exact H2|].
      specialize (Hx _ H2). specialize (Hx' _ H1). lia. }
    f_equal. apply IH; [exact Hl | exact Hl' | eapply Permutation_cons_inv; exact Hp].
Qed.

Lemma atoms_order_sorted h ring g l : atoms_order h ring g = Ok l -> StronglySorted (fun x y : Z * Z => snd x <= snd y) l.
Proof.
  unfold atoms_order. destruct (m_atoms g) as [|na [|nb r]].
  - intros [= <-]. constructor.
  - intros [= <-]. constructor; constructor.
  - unfold morgan. destruct (morgan_labels h _ _); [|discriminate]. intros [= <-]. apply dense_rank_sorted.
Qed.

(* the result dict of the renumbered and re-inserted molecule is exactly the renumbered result dict (same insertion
   order = ascending rank), hence the atom order by rank is mapped by s *)
Theorem morgan_rank_order_equivariant h ring ring' g s g' l :
  wf_mol g = true -> inj_on (ids g) s -> (forall n, In n (ids g) -> ring' (s n) = ring n) -> mol_perm (ren_mol s g) g' ->
  atoms_order h ring g = Ok l -> NoDup (map snd l) ->
  atoms_order h ring' g' = Ok (ren_labels s l) /\ keys (ren_labels s l) = map s (keys l).
Proof.
  intros Hwf Hs Hr Hp Hl Hd. split; [|apply keys_ren_labels].
  destruct (wf_mol_inv g Hwf) as [H1 [H2 _]].
  pose proof (atoms_order_equivariant h ring ring' g s Hwf Hs Hr) as He. rewrite Hl in He. cbn [ren_res] in He.
  assert (res_perm (atoms_order h ring' (ren_mol s g)) (atoms_order h ring' g')) as Hq.
  { apply atoms_order_order_independent; [| |exact Hp].
    - rewrite ids_ren_mol. apply NoDup_map_inj; assumption.
    - rewrite keys_adj_ren_mol, <- H1. apply NoDup_map_inj; assumption. }
  rewrite He in Hq. destruct (atoms_order h ring' g') as [l'|] eqn:E'; cbn [res_perm] in Hq; [|contradiction].
  f_equal. symmetry. apply sorted_lt_perm_eq; [| |exact Hq].
  - apply sorted_le_nodup_lt; [|rewrite values_ren_labels; exact Hd].
    eapply atoms_order_sorted. exact He.
  - apply sorted_le_nodup_lt; [eapply atoms_order_sorted; exact E'|].
    eapply Permutation_NoDup; [apply Permutation_map; exact Hq|]. rewrite values_ren_labels. exact Hd.
Qed.

(* ==================================================================================================== *)
(* 7. Smiles.__eq__ / __hash__                                                                           *)
Section EqHashFacts.
  Context {M : Type}.
  Variable canon : M -> string.
  Variable str_hash : string -> Z.
  Lemma mol_eq_refl a : mol_eq canon a a = true.
  Proof. unfold mol_eq. apply String.eqb_refl. Qed.
  Lemma mol_eq_sym a b : mol_eq canon a b = mol_eq canon b a.
  Proof. unfold mol_eq. apply String.eqb_sym. Qed.
  Lemma mol_eq_trans a b c : mol_eq canon a b = true -> mol_eq canon b c = true -> mol_eq canon a c = true.
  Proof. unfold mol_eq. rewrite !String.eqb_eq. congruence. Qed.
  Theorem eq_hash_coherent a b : mol_eq canon a b = true -> mol_hash canon str_hash a = mol_hash canon str_hash b.
  Proof. unfold mol_eq, mol_hash. rewrite String.eqb_eq. intros ->. reflexivity. Qed.
  Theorem mol_eq_equivalence :
    (forall a, mol_eq canon a a = true) /\ (forall a b, mol_eq canon a b = mol_eq canon b a) /\
    (forall a b c, mol_eq canon a b = true -> mol_eq canon b c = true -> mol_eq canon a c = true).
  Proof. split; [exact mol_eq_refl | split; [exact mol_eq_sym | exact mol_eq_trans]]. Qed.
  (* whenever the canonical string is a function of some structure invariant, equal invariants give equal molecules *)
  Theorem eq_of_invariant {I : Type} (inv : M -> I) (f : I -> string) :
    (forall m, canon m = f (inv m)) -> forall a b, inv a = inv b ->
    mol_eq canon a b = true /\ mol_hash canon str_hash a = mol_hash canon str_hash b.
  Proof. intros Hc a b E. unfold mol_eq, mol_hash. rewrite !Hc, E. split; [apply String.eqb_refl | reflexivity]. Qed.
End EqHashFacts.

(* ==================================================================================================== *)
(* 8. what the ranks mean: equal rank <-> equal final label, smaller rank <-> smaller final label          *)
Lemma uniq_In x l : In x (uniq l) <-> In x l.
Proof.
  induction l as [|a l IH]; [reflexivity|].
  destruct l as [|b r]; [reflexivity|].
  rewrite uniq_cons2. destruct (Z.eqb_spec a b) as [->|Hne].
  - rewrite IH. cbn [In]. tauto.
  - cbn [In] in *. rewrite IH. tauto.
Qed.

Lemma uniq_sorted_lt l : StronglySorted Zle_b l -> StronglySorted Z.lt (uniq l).
Proof.
  induction l as [|a l IH]; intros Hs; [constructor|].
  inversion Hs as [|? ? Hl Ha]; subst.
  destruct l as [|b r]; [constructor; constructor|].
  rewrite uniq_cons2. destruct (Z.eqb_spec a b) as [->|Hne]; [apply IH; exact Hl|].
  constructor; [apply IH; exact Hl|].
  rewrite Forall_forall in *. intros z Hz. apply (proj1 (uniq_In z (b :: r))) in Hz.
  pose proof (Ha b (or_introl eq_refl)) as Hab. unfold Zle_b in Hab. apply Z.leb_le in Hab.
  destruct Hz as [<-|Hz]; [lia|].
  inversion Hl as [|? ? _ Hb]; subst. rewrite Forall_forall in Hb. specialize (Hb z Hz). unfold Zle_b in Hb.
  apply Z.leb_le in Hb. lia.
Qed.

Lemma sorted_lt_NoDup l : StronglySorted Z.lt l -> NoDup l.
Proof.
  induction 1 as [|a l Hs IH Ha]; constructor; [|exact IH].
  intros Hin. rewrite Forall_forall in Ha. specialize (Ha a Hin). lia.
Qed.

Definition dset (vs : list Z) : list Z := uniq (zsort vs).
Lemma dset_In x vs : In x (dset vs) <-> In x vs.
Proof.
  unfold dset. rewrite uniq_In. unfold zsort.
  split; apply Permutation_in; [apply isort_perm | apply Permutation_sym, isort_perm].
Qed.
Lemma dset_NoDup vs : NoDup (dset vs).
Proof.
  apply sorted_lt_NoDup, uniq_sorted_lt. apply (isort_sorted Z.leb zleb_total zleb_trans).
Qed.

Lemma rankv_lt vs v w : In w vs -> v < w -> rankv vs v < rankv vs w.
Proof.
  intros Hw Hlt. unfold rankv. fold (dset (filter (fun x => x <=? v) vs)). fold (dset (filter (fun x => x <=? w) vs)).
  apply Nat2Z.inj_lt.
  assert (NoDup (w :: dset (filter (fun x => x <=? v) vs))) as Hn.
  { constructor; [|apply dset_NoDup]. rewrite dset_In, filter_In, Z.leb_le. lia. }
  apply (NoDup_incl_length Hn). intros x [<-|Hx].
  - rewrite dset_In, filter_In, Z.leb_le. split; [exact Hw | lia].
  - rewrite dset_In, filter_In, Z.leb_le in *. split; [tauto | lia].
Qed.

Theorem rankv_order vs v w : In v vs -> In w vs ->
  (rankv vs v < rankv vs w <-> v < w) /\ (rankv vs v = rankv vs w <-> v = w).
Proof.
  intros Hv Hw. destruct (Z.lt_trichotomy v w) as [H|[H|H]].
  - pose proof (rankv_lt vs v w Hw H). split; split; intros; lia.
  - subst. split; split; intros; try lia; reflexivity.
  - pose proof (rankv_lt vs w v Hv H). split; split; intros; lia.
Qed.

Theorem rankv_range vs v : In v vs -> 1 <= rankv vs v <= ndistinct vs.
Proof.
  intros Hv. unfold rankv, ndistinct. fold (dset (filter (fun x => x <=? v) vs)). fold (dset vs). split.
  - assert (In v (dset (filter (fun x => x <=? v) vs))) as H by (rewrite dset_In, filter_In, Z.leb_le; split; [exact Hv | lia]).
    destruct (dset (filter (fun x => x <=? v) vs)); [destruct H | cbn [List.length]; lia].
  - apply Nat2Z.inj_le. apply (NoDup_incl_length (dset_NoDup _)).
    intros x. rewrite !dset_In, filter_In. tauto.
Qed.

Theorem dense_rank_lookup atoms n v : NoDup (keys atoms) -> In (n, v) atoms ->
  zget (dense_rank atoms) n = Some (rankv (map snd atoms) v).
Proof.
  intros Hn Hin. apply zget_In.
  - eapply Permutation_NoDup; [apply Permutation_sym, keys_dense_rank | exact Hn].
  - rewrite dense_rank_spec. apply in_map_iff. exists (n, v). split; [reflexivity|].
    eapply Permutation_in; [apply Permutation_sym, isort_perm | exact Hin].
Qed.

(* ==================================================================================================== *)
(* 9. a concrete instance of every hypothesis used above (non-vacuity), evaluated with the CPython hash   *)
Definition ex_C3 : atom := mkAtom 6 None 0 false (Some 3) None.
Definition ex_C2 : atom := mkAtom 6 None 0 false (Some 2) None.
Definition ex_O1 : atom := mkAtom 8 None 0 false (Some 1) None.
Definition ex_b : bond := mkBond 1 None.
(* ethanol CCO numbered 1 2 3 *)
Definition ex_g : mol := mkMol [(1, ex_C3); (2, ex_C2); (3, ex_O1)] [(1, [(2, ex_b)]); (2, [(1, ex_b); (3, ex_b)]); (3, [(2, ex_b)])].
Definition ex_s (n : Z) : Z := 10 - n.
(* the same molecule renumbered 9 8 7 with atoms, adjacency rows and the neighbours of the middle atom inserted in another order *)
Definition ex_g' : mol := mkMol [(8, ex_C2); (7, ex_O1); (9, ex_C3)] [(8, [(7, ex_b); (9, ex_b)]); (7, [(8, ex_b)]); (9, [(8, ex_b)])].
Definition ex_ring (_ : Z) : bool := false.

Lemma ex_mol_perm : mol_perm (ren_mol ex_s ex_g) ex_g'.
Proof.
  split; cbn.
  - apply (Permutation_cons_append [(8, ex_C2); (7, ex_O1)] (9, ex_C3)).
  - exists [(9, [(8, ex_b)]); (8, [(7, ex_b); (9, ex_b)]); (7, [(8, ex_b)])]. split.
    + constructor; [split; [reflexivity | apply Permutation_refl]|].
      constructor; [split; [reflexivity | apply perm_swap]|].
      constructor; [split; [reflexivity | apply Permutation_refl]|]. constructor.
    + apply (Permutation_cons_append [(8, [(7, ex_b); (9, ex_b)]); (7, [(8, ex_b)])] (9, [(8, ex_b)])).
Qed.

Theorem example_nonvacuous :
  wf_mol ex_g = true /\ inj_on (ids ex_g) ex_s /\ mol_perm (ren_mol ex_s ex_g) ex_g' /\
  m_atoms ex_g' <> m_atoms (ren_mol ex_s ex_g) /\
  atoms_order hash_ztuple ex_ring ex_g = Ok [(1, 1); (3, 2); (2, 3)] /\ NoDup (map snd [(1, 1); (3, 2); (2, 3)]) /\
  atoms_order hash_ztuple ex_ring ex_g' = Ok [(9, 1); (7, 2); (8, 3)].
Proof.
  split; [vm_compute; reflexivity|]. split; [intros x y _ _; unfold ex_s; lia|]. split; [exact ex_mol_perm|].
  split; [cbn; discriminate|]. split; [vm_compute; reflexivity|].
  split; [cbn; repeat constructor; cbn; intuition lia | vm_compute; reflexivity].
Qed.
