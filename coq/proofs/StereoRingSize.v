(* C12, round 5: the `skip small rings` test of MoleculeStereo.__chiral_centers for endocyclic double bonds / allenes, translated from
   the source on every run (Gen.StereoBody.g_ring_too_small).  It is the test Model.StereoChiral.step_ring_cum applies to rings_of n,
   and it means: some smallest ring through the end atom has FEWER THAN 8 atoms (a double bond in an 8-membered ring keeps E/Z). *)
From Coq Require Import ZArith List Bool Lia.
From Gen Require Import StereoBody.
Import ListNotations.
Open Scope Z_scope.

(* the expression of the model (coq/model/StereoChiral.v, step_ring_cum) *)
Theorem ring_too_small_model : forall rs : list (list Z),
  g_ring_too_small rs = existsb (fun x => Z.of_nat (List.length x) <? 8) rs.
Proof. intro rs. reflexivity. Qed.

Theorem ring_too_small_spec : forall rs : list (list Z),
  g_ring_too_small rs = true <-> exists ring, In ring rs /\ (List.length ring < 8)%nat.
Proof.
  intro rs. rewrite ring_too_small_model, existsb_exists. split; intros [x [Hin H]]; exists x; split; try exact Hin.
  - apply Z.ltb_lt in H. lia.
  - apply Z.ltb_lt. lia.
Qed.

Theorem ring_too_small_boundary :
  g_ring_too_small [[1; 2; 3; 4; 5; 6; 7; 8]] = false /\ g_ring_too_small [[1; 2; 3; 4; 5; 6; 7]] = true /\
  g_ring_too_small [[1; 2; 3; 4; 5; 6; 7; 8; 9]; [1; 2; 3]] = true /\ g_ring_too_small [] = false.
Proof. vm_compute. repeat split; reflexivity. Qed.
