(* C08 -- proofs about the SMARTS bracket-atom parser and the query-atom construction (Model.Query sections 4-6):
   which exceptions can be raised, by what, and the refuting witnesses of "only IncorrectSmarts / ValueError". *)
From Coq Require Import ZArith List String Ascii Bool Lia.
From Gen Require Import Elements TokenTables SmartsTables.
From Model Require Import PyBase Graph PeriodicTable Tokenize Smarts Query.
From Proofs Require Import QueryProofs TokenizeProofs.
Import ListNotations.
Open Scope Z_scope.

(* ------------------------------------------------------------------------------------------------------------ *)
(* 1. exceptions of _query_parse                                                                                  *)

Lemma split_on_nonempty sep l : split_on sep l <> [].
Proof.
  induction l as [|c r IH]; cbn; [discriminate|].
  destruct (split_on sep r) as [|p ps]; [discriminate|]. destruct (ceq c sep); discriminate.
Qed.

Lemma map_res_err {A B} (f : A -> pyres B) l e : map_res f l = Err e -> exists x, In x l /\ f x = Err e.
Proof.
  induction l as [|x r IH]; cbn; [discriminate|].
  destruct (f x) as [y|e'] eqn:E.
  - destruct (map_res f r) as [ys|e'']; [discriminate|]. intros H. inversion H; subst.
    destruct (IH eq_refl) as [z [Hz Hf]]. exists z. split; [right; exact Hz | exact Hf].
  - intros H. inversion H; subst. exists x. split; [left; reflexivity | exact E].
Qed.

Lemma first_chars_err ps e : first_chars_res ps = Err e -> In [] ps.
Proof.
  intros H. apply map_res_err in H. destruct H as [x [Hx Hf]]. destruct x; [exact Hx | discriminate].
Qed.

Lemma no_empty_piece ps : existsb (fun x => str_eqb x []) ps = false -> ~ In [] ps.
Proof.
  intros H Hin. assert (existsb (fun x => str_eqb x []) ps = true); [|congruence].
  apply existsb_exists. exists []. split; [exact Hin | reflexivity].
Qed.

(* one primitive: only the invalid-SMARTS error (code after fix 40c2ce4: an empty OR alternative is rejected first) *)
Lemma prim_step_errors out p e : prim_step out p = Err e -> e = IncorrectSmarts.
Proof.
  unfold prim_step.
  destruct (str_eqb p []) eqn:E0; [discriminate|].
  destruct (str_eqb p ["a"%char]); [discriminate|].
  destruct (str_eqb p ["A"%char]); [discriminate|].
  destruct (str_eqb p ["!"%char; "R"%char]); [discriminate|].
  destruct (str_eqb p ["M"%char]); [discriminate|].
  cbv zeta.
  pose proof (split_on_nonempty "," p) as Hne.
  destruct (existsb (fun x => str_eqb x []) (split_on "," p)) eqn:Ee; [intros H; inversion H; reflexivity|].
  apply no_empty_piece in Ee.
  destruct (negb (Nat.eqb (List.length (split_on "," p)) 1)) eqn:Em.
  - destruct (first_chars_res (split_on "," p)) as [firsts|e'] eqn:Ef.
    + cbn [andb]. destruct (negb (all_same firsts)); [intros H; inversion H; reflexivity|].
      destruct (split_on "," p) as [|[|t r] ps'] eqn:Es; [congruence| |].
      * exfalso. apply Ee. left. reflexivity.
      * destruct (negb (prim_letter t)); [intros H; inversion H; reflexivity|].
        match goal with |- context [map_res ?f ?l] => destruct (map_res f l) as [vs|e''] eqn:Ev end.
        -- repeat (match goal with |- context [if ?c then _ else _] => destruct c end); discriminate.
        -- apply map_res_err in Ev. destruct Ev as [x [_ Hx]]. destruct (py_int (tl x)); [discriminate|].
           inversion Hx; subst. intros H; inversion H. reflexivity.
    + exfalso. apply Ee. eapply first_chars_err. exact Ef.
  - cbn [andb]. destruct (split_on "," p) as [|[|t r] ps'] eqn:Es; [congruence| |].
    + exfalso. apply Ee. left. reflexivity.
    + destruct (negb (prim_letter t)); [intros H; inversion H; reflexivity|].
      match goal with |- context [map_res ?f ?l] => destruct (map_res f l) as [vs|e''] eqn:Ev end.
      * repeat (match goal with |- context [if ?c then _ else _] => destruct c end); discriminate.
      * apply map_res_err in Ev. destruct Ev as [x [_ Hx]]. destruct (py_int (tl x)); [discriminate|].
        inversion Hx; subst. intros H; inversion H. reflexivity.
Qed.

Lemma prim_loop_errors ps : forall out e, prim_loop out ps = Err e -> e = IncorrectSmarts.
Proof.
  induction ps as [|p r IH]; intros out e; cbn; [discriminate|].
  destruct (prim_step out p) as [out'|e'] eqn:E.
  - apply IH.
  - intros H. inversion H; subst. eapply prim_step_errors; eauto.
Qed.

Lemma parse_elt_err x e : parse_elt x = Err e -> e = ValueError.
Proof.
  unfold parse_elt. destruct x as [|c r]; [discriminate|].
  destruct c as [[] [] [] [] [] [] [] []]; try discriminate.
  destruct (py_int r); [discriminate|]. intros H; inversion H; reflexivity.
Qed.

(* _query_parse raises IncorrectSmarts, or the ValueError of int() on an '#' element: for EVERY token *)
Theorem query_parse_errors token e : query_parse token = Err e -> e = IncorrectSmarts \/ e = ValueError.
Proof.
  unfold query_parse.
  destruct (span is_digit token) as [ds t1'].
  set (t1 := match ds with [] => token | _ => t1' end).
  destruct (chg_search t1) as [[[a g] b]|].
  - destruct (charge_dict g) as [c|]; [|intros H; inversion H; left; reflexivity].
    set (t2 := (a ++ b)%list).
    destruct (mpp_search t2) as [[a2 d2]|]; (destruct (str_search _) as [[[a3 g3] b3]|]);
    (match goal with |- context [split_on ";" ?t] => destruct (split_on ";" t) as [|e0 prims] end;
     [intros H; inversion H; left; reflexivity|];
     destruct (str_eqb e0 []); [intros H; inversion H; left; reflexivity|];
     match goal with |- context [map_res parse_elt ?l] => destruct (map_res parse_elt l) as [els|e'] eqn:Em end;
     [intros H; apply prim_loop_errors in H; tauto
     |intros H; inversion H; subst; apply map_res_err in Em; destruct Em as [x [_ Hx]]; apply parse_elt_err in Hx; tauto]).
  - set (t2 := t1).
    destruct (mpp_search t2) as [[a2 d2]|]; (destruct (str_search _) as [[[a3 g3] b3]|]);
    (match goal with |- context [split_on ";" ?t] => destruct (split_on ";" t) as [|e0 prims] end;
     [intros H; inversion H; left; reflexivity|];
     destruct (str_eqb e0 []); [intros H; inversion H; left; reflexivity|];
     match goal with |- context [map_res parse_elt ?l] => destruct (map_res parse_elt l) as [els|e'] eqn:Em end;
     [intros H; apply prim_loop_errors in H; tauto
     |intros H; inversion H; subst; apply map_res_err in Em; destruct Em as [x [_ Hx]]; apply parse_elt_err in Hx; tauto]).
Qed.

(* ------------------------------------------------------------------------------------------------------------ *)
(* 2. exceptions of the construction  cls(kwargs)                                                                   *)

Lemma validate_list_err lo hi l e : validate_list lo hi l = Err e -> e = ValueError.
Proof. unfold validate_list. repeat (match goal with |- context [if ?c then _ else _] => destruct c end); intros H; inversion H; reflexivity. Qed.
Lemma validate_opt_err lo hi o e : validate_opt lo hi o = Err e -> e = ValueError.
Proof. destruct o; cbn; [apply validate_list_err | discriminate]. Qed.
Lemma validate_hyb_err o e : validate_hyb o = Err e -> e = ValueError.
Proof.
  destruct o as [[v|l]|]; cbn; [| apply validate_list_err | discriminate].
  destruct ((v <? 1) || (4 <? v)); intros H; inversion H; reflexivity.
Qed.
Lemma validate_rings_err o e : validate_rings o = Err e -> e = ValueError.
Proof.
  destruct o as [[v|l]|]; cbn; [| | discriminate];
  repeat (match goal with |- context [if ?c then _ else _] => destruct c end); intros H; inversion H; reflexivity.
Qed.

Lemma build_qx_err p e : build_qx p = Err e -> e = ValueError.
Proof.
  unfold build_qx, bind.
  destruct (validate_opt 0 14 (p_nb p)) eqn:E1; [|intros H; inversion H; subst; eapply validate_opt_err; eauto].
  destruct (validate_hyb (p_hyb p)) eqn:E2; [|intros H; inversion H; subst; eapply validate_hyb_err; eauto].
  destruct (validate_opt 0 14 (p_het p)) eqn:E3; [|intros H; inversion H; subst; eapply validate_opt_err; eauto].
  destruct (validate_rings (p_rings p)) eqn:E4; [|intros H; inversion H; subst; eapply validate_rings_err; eauto].
  destruct (validate_opt 0 14 (p_h p)) eqn:E5; [|intros H; inversion H; subst; eapply validate_opt_err; eauto].
  discriminate.
Qed.

(* keyword arguments the chosen class does not accept: isotope for A / M / a list, anything of ExtendedQuery for M *)
Definition unsupported_kw (p : parsed) : bool :=
  match p_element p with
  | [ENum _] => false
  | [ESym s] =>
      if str_eqb s ["A"%char] then has_isotope_kw p
      else if str_eqb s ["M"%char] then has_isotope_kw p || has_extended_kw p
      else false
  | _ => has_isotope_kw p
  end.

(* the construction raises the ValueError of a setter / of an unknown element, or (code after fix edb42d5) the
   invalid-SMARTS error -- the latter only for a keyword the chosen class does not accept *)
Theorem build_atom_errors p e : build_atom p = Err e ->
  e = ValueError \/ (e = IncorrectSmarts /\ unsupported_kw p = true).
Proof.
  unfold build_atom, unsupported_kw.
  assert (Hl : forall els e', map_res (fun e0 => match e0 with
                              | ENum n => if valid_number n then Ok n else Err ValueError
                              | ESym s => match sym_number s with Some n => Ok n | None => Err ValueError end
                              end) els = Err e' -> e' = ValueError).
  { intros els e' H. apply map_res_err in H. destruct H as [x [_ Hx]]. destruct x as [n|s].
    - destruct (valid_number n); [discriminate|]. inversion Hx; reflexivity.
    - destruct (sym_number s); [discriminate|]. inversion Hx; reflexivity. }
  destruct (p_element p) as [|[n|s] [|e2 rest]].
  - cbn. destruct (has_isotope_kw p); cbn.
    + intros H; inversion H. right. split; reflexivity.
    + destruct (build_qx p) eqn:Eq; cbn; [discriminate|]. intros H; inversion H; subst. left. eapply build_qx_err; eauto.
  - destruct (valid_number n); [|intros H; inversion H; left; reflexivity].
    unfold bind. destruct (build_qx p) eqn:Eq; [discriminate|]. intros H; inversion H; subst. left. eapply build_qx_err; eauto.
  - unfold bind. match goal with |- context [map_res ?f ?l] => destruct (map_res f l) as [nums|e'] eqn:Em end.
    + destruct (has_isotope_kw p).
      * intros H; inversion H. right. split; reflexivity.
      * destruct (build_qx p) eqn:Eq; [discriminate|]. intros H; inversion H; subst. left. eapply build_qx_err; eauto.
    + intros H; inversion H; subst. left. eapply Hl; eauto.
  - destruct (str_eqb s ["A"%char]).
    + destruct (has_isotope_kw p).
      * intros H; inversion H. right. split; reflexivity.
      * unfold bind. destruct (build_qx p) eqn:Eq; [discriminate|]. intros H; inversion H; subst. left. eapply build_qx_err; eauto.
    + destruct (str_eqb s ["M"%char]).
      * destruct (has_isotope_kw p || has_extended_kw p).
        -- intros H; inversion H. right. split; reflexivity.
        -- unfold bind. destruct (validate_opt 0 14 (p_nb p)) eqn:E1; [|intros H; inversion H; subst; left; eapply validate_opt_err; eauto].
           destruct (validate_hyb (p_hyb p)) eqn:E2; [discriminate|]. intros H; inversion H; subst; left; eapply validate_hyb_err; eauto.
      * destruct (sym_number s); [|intros H; inversion H; left; reflexivity].
        unfold bind. destruct (build_qx p) eqn:Eq; [discriminate|]. intros H; inversion H; subst. left. eapply build_qx_err; eauto.
  - unfold bind. match goal with |- context [map_res ?f ?l] => destruct (map_res f l) as [nums|e'] eqn:Em end.
    + destruct (has_isotope_kw p).
      * intros H; inversion H. right. split; reflexivity.
      * destruct (build_qx p) eqn:Eq; [discriminate|]. intros H; inversion H; subst. left. eapply build_qx_err; eauto.
    + intros H; inversion H; subst. left. eapply Hl; eauto.
Qed.

(* every query atom the construction returns holds tuples (never a set) in ring_sizes, so the comparison methods
   are total on it and mean the documented conjunction (QueryProofs.match_spec) *)
Lemma build_qx_tuple p x : build_qx p = Ok x -> x_rings_set x = false.
Proof.
  unfold build_qx, bind.
  destruct (validate_opt 0 14 (p_nb p)); [|discriminate]. destruct (validate_hyb (p_hyb p)); [|discriminate].
  destruct (validate_opt 0 14 (p_het p)); [|discriminate]. destruct (validate_rings (p_rings p)); [|discriminate].
  destruct (validate_opt 0 14 (p_h p)); [|discriminate]. intros H; inversion H; reflexivity.
Qed.
Lemma build_atom_tuple p q : build_atom p = Ok q -> tuple_rings q = true.
Proof.
  unfold build_atom, bind.
  destruct (p_element p) as [|[n|s] [|e2 rest]].
  - cbn. destruct (has_isotope_kw p); [discriminate|]. destruct (build_qx p) eqn:E; [|discriminate].
    intros H; inversion H; subst. cbn. rewrite (build_qx_tuple _ _ E). reflexivity.
  - destruct (valid_number n); [|discriminate]. destruct (build_qx p) eqn:E; [|discriminate].
    intros H; inversion H; subst. cbn. rewrite (build_qx_tuple _ _ E). reflexivity.
  - match goal with |- context [map_res ?f ?l] => destruct (map_res f l) end; [|discriminate].
    destruct (has_isotope_kw p); [discriminate|]. destruct (build_qx p) eqn:E; [|discriminate].
    intros H; inversion H; subst. cbn. rewrite (build_qx_tuple _ _ E). reflexivity.
  - destruct (str_eqb s ["A"%char]).
    + destruct (has_isotope_kw p); [discriminate|]. destruct (build_qx p) eqn:E; [|discriminate].
      intros H; inversion H; subst. cbn. rewrite (build_qx_tuple _ _ E). reflexivity.
    + destruct (str_eqb s ["M"%char]).
      * destruct (has_isotope_kw p || has_extended_kw p); [discriminate|].
        destruct (validate_opt 0 14 (p_nb p)); [|discriminate]. destruct (validate_hyb (p_hyb p)); [|discriminate].
        intros H; inversion H; reflexivity.
      * destruct (sym_number s); [|discriminate]. destruct (build_qx p) eqn:E; [|discriminate].
        intros H; inversion H; subst. cbn. rewrite (build_qx_tuple _ _ E). reflexivity.
  - match goal with |- context [map_res ?f ?l] => destruct (map_res f l) end; [|discriminate].
    destruct (has_isotope_kw p); [discriminate|]. destruct (build_qx p) eqn:E; [|discriminate].
    intros H; inversion H; subst. cbn. rewrite (build_qx_tuple _ _ E). reflexivity.
Qed.
Theorem smarts_atom_match_spec body q a : smarts_atom body = Ok q ->
  exists b, match_atom q a = Ok b /\ (b = true <-> atom_spec q a).
Proof.
  unfold smarts_atom, bind. destruct (query_parse body) as [p|]; [|discriminate].
  intros H. apply match_spec. eapply build_atom_tuple; eauto.
Qed.

(* ------------------------------------------------------------------------------------------------------------ *)
(* 3. smarts_total                                                                                                 *)

(* bracket-atom level: for EVERY body, whatever  smarts('[' + body + ']')  raises in _query_parse or in the atom
   construction is the invalid-SMARTS error or a ValueError (of int() / of a setter / of an unknown element) *)
Theorem smarts_atom_total body e : smarts_atom body = Err e -> e = IncorrectSmarts \/ e = ValueError.
Proof.
  unfold smarts_atom, bind. destruct (query_parse body) as [p|e'] eqn:E.
  - intros H. destruct (build_atom_errors _ _ H) as [->|[-> _]]; tauto.
  - intros H. inversion H; subst. exact (query_parse_errors _ _ E).
Qed.

(* the inputs that were defects of earlier trees are now rejected with the invalid-SMARTS error; accepted bodies *)
Theorem smarts_atom_examples :
  smarts_atom (s2l "C;,D1") = Err IncorrectSmarts /\ smarts_atom (s2l "C;D1,") = Err IncorrectSmarts /\
  smarts_atom (s2l "M+") = Err IncorrectSmarts /\ smarts_atom (s2l "M;h1") = Err IncorrectSmarts /\
  smarts_atom (s2l "2A") = Err IncorrectSmarts /\ smarts_atom (s2l "12C,N") = Err IncorrectSmarts /\
  smarts_atom (s2l "C+-") = Err IncorrectSmarts /\ smarts_atom (s2l "C;D15") = Err ValueError /\
  smarts_atom (s2l "C;D1,h1") = Err IncorrectSmarts /\ smarts_atom (s2l ";D1") = Err IncorrectSmarts /\
  smarts_atom (s2l "13C@+;D1,D2;h0;r5,r6;x1;z1,z2;M:7") =
    Ok (QElem 6 (Some 13) (mkQX 1 false [1; 2] [1; 2] [0] [1] [5; 6] false)) /\
  smarts_atom (s2l "#6,N;!R;a") = Ok (QList [6; 7] (mkQX 0 false [] [4] [] [] [0] false)) /\
  smarts_atom (s2l "M;D2;z2") = Ok (QMetal [2] [2]) /\ smarts_atom (s2l "A-;h1") = Ok (QAny (mkQX (-1) false [] [] [1] [] [] false)).
Proof. vm_compute. repeat split; reflexivity. Qed.

(* string level: smarts_tokenize (= _tokenize, proved total in TokenizeProofs, followed by _query_parse on every
   bracket body) raises only IncorrectSmiles / IncorrectSmarts / ValueError, for EVERY string *)
Lemma smarts_token_total t e : smarts_token t = Err e -> vee e = true.
Proof.
  unfold smarts_token. destruct t as [ty pl]. destruct pl; try discriminate.
  destruct ((ty =? 0) || (ty =? 8)); [discriminate|]. destruct (ty =? 5); [|discriminate].
  destruct (query_parse (list_ascii_of_string s)) eqn:E; [discriminate|]. intros H; inversion H; subst.
  destruct (query_parse_errors _ _ E) as [->| ->]; reflexivity.
Qed.
Theorem smarts_tokenize_total s e : smarts_tokenize s = Err e ->
  e = IncorrectSmiles \/ e = IncorrectSmarts \/ e = ValueError.
Proof.
  assert (V : forall x, vee x = true -> x = IncorrectSmiles \/ x = IncorrectSmarts \/ x = ValueError)
    by (intros x; destruct x; cbn; intros; try discriminate; tauto).
  unfold smarts_tokenize. pose proof (tokenize_raw_good s) as G.
  destruct (tokenize_raw s) as [ts|e'].
  - intros H. apply map_res_err in H. destruct H as [t [_ Ht]]. apply V. eapply smarts_token_total; eauto.
  - intros H; inversion H; subst. apply V. exact G.
Qed.

(* ------------------------------------------------------------------------------------------------------------ *)
(* 4. the hand-written scanners / constants of the model are those of the source (tables regenerated every run)    *)

Theorem smarts_sources_pinned :
  iso_re_src = "^[0-9]+"%string /\ chg_re_src = "[+-][1-4+-]?"%string /\ mpp_re_src = ":[1-9][0-9]*$"%string /\
  str_re_src = "@[@?]?"%string /\
  not_bond_after = [0; 2; 3; 6; 8] /\
  ring_mark_after = [1; 10] /\
  final_tests = [(5, "IncorrectSmiles"%string); (7, "-"%string); (11, "IncorrectSmarts"%string); (12, "IncorrectSmarts"%string);
                 (-1, "-"%string)] /\
  prim_keywords = ["a"%string; "A"%string; "!R"%string; "M"%string] /\
  prim_keys = [("D"%string, "neighbors"%string); ("h"%string, "implicit_hydrogens"%string); ("r"%string, "ring_sizes"%string);
               ("x"%string, "heteroatoms"%string); ("*"%string, "hybridization"%string)] /\
  validate_tests = [("Gt"%string, 14); ("Lt"%string, 0)] /\ hybridization_tests = [("Gt"%string, 4); ("Lt"%string, 1)] /\
  ring_sizes_tests = [("Lt"%string, 3); ("NotEq"%string, 0)] /\ charge_tests = [("Gt"%string, 4); ("Lt"%string, -4)] /\
  st_replace_dict = TokenTables.replace_dict /\ st_not_dict = TokenTables.not_dict /\
  validate_guards = ["value is None"%string; "isinstance(value, int)"%string; "isinstance(value, (tuple, list))"%string] /\
  hybridization_guards = validate_guards /\ ring_sizes_guards = validate_guards /\
  smarts_cx_radicals_src = TokenTables.cx_radicals_src.
Proof. repeat split; reflexivity. Qed.

(* the query API setters: None = unconstrained; a bare int in range is the one-value constraint (0 included: "no neighbours",
   "no hydrogens", "no heteroatoms" are constraints, not the empty tuple); an accepted list is stored sorted with the same members *)
Theorem validate_api_spec lo hi :
  validate_api lo hi None = Ok [] /\
  (forall v, lo <= v <= hi -> validate_api lo hi (Some (IInt v)) = Ok [v]) /\
  (forall v, v < lo \/ hi < v -> validate_api lo hi (Some (IInt v)) = Err ValueError) /\
  (forall l r, validate_api lo hi (Some (IList l)) = Ok r ->
     (forall x, In x r <-> In x l) /\ (forall x, In x l -> lo <= x <= hi) /\ nodup_z l = true).
Proof.
  split; [reflexivity|]. split; [|split].
  - intros v H. cbn. destruct (v <? lo) eqn:E1; [apply Z.ltb_lt in E1; lia|]. destruct (hi <? v) eqn:E2; [apply Z.ltb_lt in E2; lia|]. reflexivity.
  - intros v H. cbn. destruct (v <? lo) eqn:E1; [reflexivity|]. destruct (hi <? v) eqn:E2; [reflexivity|].
    apply Z.ltb_ge in E1, E2. lia.
  - intros l r. cbn. unfold validate_list.
    destruct (existsb (fun x => (x <? lo) || (hi <? x)) l) eqn:E1; [discriminate|].
    destruct (negb (nodup_z l)) eqn:E2; [discriminate|]. intros H; inversion H; subst. split; [|split].
    + intros x. apply sort_z_In.
    + intros x Hx. destruct (Z_le_dec lo x), (Z_le_dec x hi); try lia;
        (assert (existsb (fun x => (x <? lo) || (hi <? x)) l = true); [apply existsb_exists; exists x; split; [exact Hx|]|congruence]);
        apply orb_true_iff; [right; apply Z.ltb_lt; lia | left; apply Z.ltb_lt; lia | left; apply Z.ltb_lt; lia].
    + apply negb_false_iff in E2. exact E2.
Qed.

(* every text the charge scan [+-][1-4+-]? can return: the model's table is the source's charge_dict *)
Definition charge_groups : list str :=
  flat_map (fun c => [c] :: map (fun d => [c; d]) (list_ascii_of_string "1234+-")) (list_ascii_of_string "+-").
Theorem charge_dict_is_table :
  forallb (fun g => option_eqb Z.eqb (Query.charge_dict g) (sget st_charge_dict (string_of_list_ascii g))) charge_groups = true.
Proof. vm_compute. reflexivity. Qed.
Lemma chg_search_group l a g b : chg_search l = Some (a, g, b) -> In g charge_groups.
Proof.
  revert a g b. induction l as [|c r IH]; intros a g b; cbn [chg_search]; [discriminate|].
  destruct (is_sign c) eqn:Ec.
  - assert (Hc : c = "+"%char \/ c = "-"%char).
    { unfold is_sign, ceq in Ec. apply orb_true_iff in Ec. destruct Ec as [E|E]; apply Ascii.eqb_eq in E; auto. }
    destruct r as [|d r'].
    + intros H; inversion H; subst. destruct Hc as [->| ->]; cbn; tauto.
    + destruct (is_chg2 d) eqn:Ed.
      * intros H; inversion H; subst.
        assert (Hd : In d (list_ascii_of_string "1234+-")).
        { unfold is_chg2, is_sign, ceq, ch in Ed. clear - Ed.
          destruct d as [[] [] [] [] [] [] [] []]; cbn in Ed; try discriminate; cbn; tauto. }
        cbn in Hd. destruct Hc as [->| ->]; cbn; intuition (subst; tauto).
      * intros H; inversion H; subst. destruct Hc as [->| ->]; cbn; tauto.
  - destruct (chg_search r) as [[[a' g'] b']|] eqn:E; [|discriminate]. intros H; inversion H; subst. eapply IH; reflexivity.
Qed.

(* the letters of valued primitives *)
Theorem prim_letter_is_table :
  forallb (fun n => let c := ascii_of_N n in Bool.eqb (prim_letter c) (existsb (String.eqb (String c EmptyString)) prim_letters))
          (map Z.to_N (zrange 0 256)) = true.
Proof. vm_compute. reflexivity. Qed.

(* ------------------------------------------------------------------------------------------------------------ *)
(* 5. bond spellings of the documented subset: what _tokenize + QueryBond make of them                             *)

Open Scope string_scope.
Definition bond_syms : list (string * Z) := [("-", 1); ("=", 2); ("#", 3); (":", 4); ("~", 8)].
Definition or_orders (a b : Z) : list Z := if (a <? b)%Z then [a; b] else if (a =? b)%Z then [a] else [b; a].
Definition spec_plain : list (string * qbond) :=
  map (fun so => (fst so, mkQB [snd so] None)) bond_syms ++
  flat_map (fun s1 => map (fun s2 => (fst s1 ++ "," ++ fst s2, mkQB (or_orders (snd s1) (snd s2)) None)) bond_syms) bond_syms ++
  map (fun so => ("!" ++ fst so, mkQB (filter (fun x => negb (x =? snd so)%Z) [1; 2; 3; 4]) None)) (firstn 4 bond_syms).
Definition documented_bonds : list (string * qbond) :=
  ("", mkQB [1] None) :: spec_plain ++
  flat_map (fun sq => [(fst sq ++ ";@", mkQB (qb_ord (snd sq)) (Some true)); (fst sq ++ ";!@", mkQB (qb_ord (snd sq)) (Some false))]) spec_plain.
Definition qbond_eqb (a b : qbond) : bool := list_eqb Z.eqb (qb_ord a) (qb_ord b) && option_eqb Bool.eqb (qb_ring a) (qb_ring b).
Close Scope string_scope.

Lemma bond_spelling_table :
  forallb (fun sq => pyres_eqb qbond_eqb (bond_of_spelling (fst sq)) (Ok (snd sq))) documented_bonds = true.
Proof. vm_compute. reflexivity. Qed.

Lemma list_eqb_Z_eq a b : list_eqb Z.eqb a b = true -> a = b.
Proof.
  revert b. induction a as [|x r IH]; destruct b as [|y s]; cbn; try discriminate; [reflexivity|].
  intros H. apply andb_true_iff in H. destruct H as [H1 H2]. apply Z.eqb_eq in H1. subst. f_equal. apply IH. exact H2.
Qed.
Lemma qbond_eqb_eq a b : qbond_eqb a b = true -> a = b.
Proof.
  destruct a as [oa ra], b as [ob rb]. unfold qbond_eqb. cbn. intros H. apply andb_true_iff in H. destruct H as [H1 H2].
  apply list_eqb_Z_eq in H1. subst. f_equal.
  destruct ra as [[]|], rb as [[]|]; cbn in H2; try discriminate; reflexivity.
Qed.

(* 103 spellings: no symbol, - = # : ~, every two-symbol list, !- != !# !:, and each of them with ;@ or ;!@.
   Each is tokenized to the stated orders / ring mark, and (QueryProofs.qbond_match_spec) matches a molecule bond
   exactly when the bond's order is one of the orders and the ring mark, if any, agrees *)
Theorem bond_spelling_spec s q b : In (s, q) documented_bonds ->
  bond_of_spelling s = Ok q /\
  (qbond_match q b = true <-> In (lb_ord b) (qb_ord q) /\ (qb_ring q = None \/ qb_ring q = Some (lb_ring b))).
Proof.
  intros H. pose proof bond_spelling_table as T. rewrite forallb_forall in T. specialize (T _ H). cbn [fst snd] in T.
  split; [|apply qbond_match_spec].
  destruct (bond_of_spelling s) as [q'|e]; cbn in T; [|discriminate]. apply qbond_eqb_eq in T. subst. reflexivity.
Qed.
Theorem documented_bonds_count : List.length documented_bonds = 103%nat /\ NoDup (map fst documented_bonds).
Proof.
  split; [vm_compute; reflexivity|].
  assert (H : nodup_s (map fst documented_bonds) = true) by (vm_compute; reflexivity).
  revert H. generalize (map fst documented_bonds). induction l as [|x r IH]; cbn; [constructor|].
  intros H. apply andb_true_iff in H. destruct H as [H1 H2]. constructor; [|apply IH; exact H2].
  intros Hin. apply negb_true_iff in H1. assert (smem x r = true); [|congruence].
  unfold smem. apply existsb_exists. exists x. split; [exact Hin | apply String.eqb_refl].
Qed.
(* negated orders, spelled out *)
Theorem not_bond_spec b :
  (exists q, bond_of_spelling "!-" = Ok q /\ (qbond_match q b = true <-> In (lb_ord b) [2; 3; 4])) /\
  (exists q, bond_of_spelling "!=" = Ok q /\ (qbond_match q b = true <-> In (lb_ord b) [1; 3; 4])) /\
  (exists q, bond_of_spelling "!#" = Ok q /\ (qbond_match q b = true <-> In (lb_ord b) [1; 2; 4])) /\
  (exists q, bond_of_spelling "!:" = Ok q /\ (qbond_match q b = true <-> In (lb_ord b) [1; 2; 3])) /\
  (exists q, bond_of_spelling "-,=;!@" = Ok q /\ (qbond_match q b = true <-> In (lb_ord b) [1; 2] /\ lb_ring b = false)).
Proof.
  repeat split; (eexists; split; [vm_compute; reflexivity|]); rewrite qbond_match_spec; cbn [qb_ord qb_ring];
    try (split; [intros [H _]; exact H | intros H; split; [exact H | left; reflexivity]]).
  - split; [intros [H [D|D]]; [discriminate | inversion D; tauto] | intros [H ->]; split; [exact H | right; reflexivity]].
Qed.

(* spellings outside the documented subset are rejected with the invalid-SMARTS error (the last six were accepted or
   crashed in earlier trees: fixes 1719a3d, 9321653, 264ae14, a0736b6) *)
Theorem bond_spelling_rejected :
  bond_of_spelling "-,=,#" = Err IncorrectSmarts /\ bond_of_spelling "!!-" = Err IncorrectSmarts /\
  bond_of_spelling "!-,=" = Err IncorrectSmarts /\ bond_of_spelling ";@" = Err IncorrectSmarts /\
  bond_of_spelling "-;!!@" = Err IncorrectSmarts /\
  tokenize_raw "C!-" = Ok [(0, PStr "C"); (10, PZs [2; 3; 4])] /\
  tokenize_raw "C!" = Err IncorrectSmarts /\ tokenize_raw "C!~C" = Err IncorrectSmarts /\
  tokenize_raw "C-;@;@C" = Err IncorrectSmarts /\ tokenize_raw ";@C" = Err IncorrectSmarts /\
  tokenize_raw "C-;" = Err IncorrectSmarts /\ tokenize_raw "C-;!" = Err IncorrectSmarts.
Proof. vm_compute. repeat split; reflexivity. Qed.

