(* C14 -- standardize_charges: (A) the loop bodies translated from the source (Gen.C14Charges) are the hand-written model
   (Model.StandardizeCharges); (B) the heterocycle part of standardize_charges, for ANY matcher output and ANY canonical order,
   never touches atom numbers / order / elements / isotopes / adjacency, only the atoms it reports in `changed` can change,
   and it never fails when the yielded mappings contain the pattern atoms the tables name; (C) the net charge through one
   accepted match when the charges are what the pattern says. *)
From Coq Require Import ZArith List String Bool Lia.
From Model Require Import PyBase Graph Standardize StandardizeChargesBase StandardizeCharges.
From Gen Require Import StdRules C14Charges.
From Proofs Require Import StandardizeProofs.
Import ListNotations.
Open Scope Z_scope.

(* ================================================================================================
   A. generated = hand model
   ================================================================================================ *)
Ltac crush :=
  repeat (match goal with
          | |- context [match zget ?m ?k with _ => _ end] => destruct (zget m k) eqn:?
          | |- context [if ?c then _ else _] => destruct c eqn:?
          end; cbn [cs_mol cs_seen cs_changed cs_pairs fst snd] in *);
  try reflexivity; try (rewrite <- !app_assoc; reflexivity); try congruence.

Theorem gen_fixed_step_eq fx mp st : g_fixed_step fx mp st = fixed_step fx mp st.
Proof.
  destruct st as [g seen changed pairs].
  unfold g_fixed_step, fixed_step, accept, not_pyrrole_like. cbn [cs_mol cs_seen cs_changed cs_pairs]. crush.
Qed.

Theorem gen_morgan_step_eq fx mp st : g_morgan_step fx mp st = morgan_step fx mp st.
Proof.
  destruct st as [g seen changed pairs].
  unfold g_morgan_step, morgan_step, accept, not_pyrrole_like. cbn [cs_mol cs_seen cs_changed cs_pairs]. crush.
Qed.

Theorem gen_morgan_assign_eq order p st : g_morgan_assign order p st = morgan_assign order p st.
Proof.
  destruct st as [g seen changed pairs]. destruct p as [[a1 a2] fx].
  unfold g_morgan_assign, morgan_assign. cbn [cs_mol cs_seen cs_changed cs_pairs]. destruct fx; crush.
  all: cbn [negb] in *; try discriminate; rewrite ?app_nil_r; try reflexivity; try (rewrite <- !app_assoc; reflexivity).
Qed.

Lemma run_steps_ext {A} (s1 s2 : A -> cstate -> pyres cstate) xs st :
  (forall x st, s1 x st = s2 x st) -> run_steps s1 xs st = run_steps s2 xs st.
Proof. intros H. revert st. induction xs as [|x xs IH]; intros st; cbn; [reflexivity|]. rewrite H. destruct (s2 x st); [apply IH|reflexivity]. Qed.
Lemma run_table_ext s1 s2 table y st :
  (forall fx mp st, s1 fx mp st = s2 fx mp st) -> run_table s1 table y st = run_table s2 table y st.
Proof.
  intros H. revert y st. induction table as [|c table IH]; intros y st; cbn; [reflexivity|].
  destruct y as [|ms y]; [reflexivity|]. rewrite (run_steps_ext (s1 (c_fix c)) (s2 (c_fix c)) ms st (H (c_fix c))).
  destruct (run_steps (s2 (c_fix c)) ms st); [apply IH|reflexivity].
Qed.

(* the whole function with the TRANSLATED bodies is the whole function with the hand-written ones *)
Theorem gen_charges_eq yf ym order g :
  charges_with g_fixed_step g_morgan_step g_morgan_assign fixed_rules morgan_rules yf ym order g = standardize_charges_model yf ym order g.
Proof.
  unfold standardize_charges_model, charges_with.
  rewrite (run_table_ext g_fixed_step fixed_step _ _ _ gen_fixed_step_eq).
  destruct (run_table fixed_step fixed_rules yf _) as [st1|e]; [|reflexivity].
  rewrite (run_table_ext g_morgan_step morgan_step _ _ _ gen_morgan_step_eq).
  destruct (run_table morgan_step morgan_rules ym st1) as [st2|e]; [|reflexivity].
  apply run_steps_ext. intros p st. apply gen_morgan_assign_eq.
Qed.

(* ================================================================================================
   B. frame: what the loops can never change
   ================================================================================================ *)
(* same atoms in the same order with the same element / isotope / radical / hydrogens / stereo, same adjacency AND bond
   orders; only charges may differ, and only on the atoms listed *)
Definition same_but_charge (a b : atom) : Prop :=
  a_num a = a_num b /\ a_iso a = a_iso b /\ a_rad a = a_rad b /\ a_h a = a_h b /\ a_stereo a = a_stereo b.
Definition atom_frame (touched : list Z) (na na' : Z * atom) : Prop :=
  fst na' = fst na /\ same_but_charge (snd na) (snd na') /\ (zmem (fst na) touched = false -> snd na' = snd na).
Definition frame (g g' : mol) (touched : list Z) : Prop :=
  m_adj g' = m_adj g /\ Forall2 (atom_frame touched) (m_atoms g) (m_atoms g').

Lemma frame_refl g t : frame g g t.
Proof.
  split; [reflexivity|]. induction (m_atoms g) as [|na l IH]; constructor; [|exact IH]. repeat split.
Qed.

Lemma zmem_app x a b : zmem x (a ++ b) = zmem x a || zmem x b.
Proof. unfold zmem. apply existsb_app. Qed.

Lemma frame_set_charge g g' t n c : frame g g' t -> frame g (set_charge g' n c) (t ++ [n]).
Proof.
  intros [A F]. unfold set_charge, upd_atom. split; [exact A|]. cbn [m_atoms].
  induction F as [|[k a] [k' a'] l l' [H1 [H2 H3]] F IH]; cbn [upd_atoms map]; constructor; [|exact IH].
  cbn [fst snd] in *. subst k'. unfold atom_frame. cbn [fst snd]. rewrite zmem_app. cbn [zmem existsb]. rewrite orb_false_r.
  destruct (k =? n) eqn:E; cbn [fst snd].
  - split; [reflexivity|]. split; [destruct H2 as [C1 [C2 [C3 [C4 C5]]]]; repeat split; assumption|]. rewrite orb_true_r. discriminate.
  - split; [reflexivity|]. split; [exact H2|]. rewrite orb_false_r. exact H3.
Qed.

(* simpler and enough for the user-facing statement: the molecule frame alone, with `touched` existentially quantified *)
Definition keeps_frame {A} (step : A -> cstate -> pyres cstate) : Prop :=
  forall g x st st' t, frame g (cs_mol st) t -> step x st = Ok st' -> exists t', frame g (cs_mol st') t'.

Lemma accept_mol mp st st1 o : accept mp st = Ok (st1, o) -> cs_mol st1 = cs_mol st.
Proof.
  unfold accept. destruct (inter_count _ _ >? 2); [intros H; inversion H; reflexivity|].
  destruct (zget mp 1); [|discriminate]. destruct (zget mp 2); [|discriminate].
  destruct (not_pyrrole_like _ _); [intros H; inversion H; reflexivity|].
  destruct (not_pyrrole_like _ _); intros H; inversion H; reflexivity.
Qed.

Lemma fixed_step_keeps fx : keeps_frame (fixed_step fx).
Proof.
  intros g mp st st' t F. unfold fixed_step. destruct (accept mp st) as [[st1 o]|e] eqn:Ea; [|discriminate].
  pose proof (accept_mol _ _ _ _ Ea) as Em. destruct o as [[a1 a2]|].
  - destruct (if fx then zget mp 3 else Some a1) as [d|]; [|discriminate]. intros H. inversion H. cbn [cs_mol]. rewrite Em.
    eexists. apply frame_set_charge. apply frame_set_charge. exact F.
  - intros H. inversion H. subst st'. rewrite Em. exists t. exact F.
Qed.

Lemma morgan_step_keeps fx : keeps_frame (morgan_step fx).
Proof.
  intros g mp st st' t F. unfold morgan_step. destruct (accept mp st) as [[st1 o]|e] eqn:Ea; [|discriminate].
  pose proof (accept_mol _ _ _ _ Ea) as Em. destruct o as [[a1 a2]|].
  - destruct fx.
    + destruct (zget mp 3) as [a3|]; [|discriminate]. intros H. inversion H. cbn [cs_mol]. rewrite Em. eexists. apply frame_set_charge. exact F.
    + intros H. inversion H. cbn [cs_mol]. rewrite Em. eexists. apply frame_set_charge. exact F.
  - intros H. inversion H. subst st'. rewrite Em. exists t. exact F.
Qed.

Lemma morgan_assign_keeps order : keeps_frame (morgan_assign order).
Proof.
  intros g [[a1 a2] fx] st st' t F. unfold morgan_assign. destruct (order a1 >? order a2); intros H; inversion H; cbn [cs_mol];
    eexists; apply frame_set_charge; exact F.
Qed.

Lemma run_steps_keeps {A} (step : A -> cstate -> pyres cstate) : keeps_frame step ->
  forall g xs st st' t, frame g (cs_mol st) t -> run_steps step xs st = Ok st' -> exists t', frame g (cs_mol st') t'.
Proof.
  intros K g xs. induction xs as [|x xs IH]; intros st st' t F; cbn.
  - intros H. inversion H. subst. exists t. exact F.
  - destruct (step x st) as [st1|e] eqn:E; [|discriminate]. destruct (K g x st st1 t F E) as [t1 F1]. apply (IH st1 st' t1 F1).
Qed.

Lemma run_table_keeps step : (forall fx, keeps_frame (step fx)) ->
  forall g table y st st' t, frame g (cs_mol st) t -> run_table step table y st = Ok st' -> exists t', frame g (cs_mol st') t'.
Proof.
  intros K g table. induction table as [|c table IH]; intros y st st' t F; cbn.
  - intros H. inversion H. subst. exists t. exact F.
  - destruct y as [|ms y]; [intros H; inversion H; subst; exists t; exact F|].
    destruct (run_steps (step (c_fix c)) ms st) as [st1|e] eqn:E; [|discriminate].
    destruct (run_steps_keeps _ (K (c_fix c)) g ms st st1 t F E) as [t1 F1]. apply (IH y st1 st' t1 F1).
Qed.

(* for EVERY matcher output, canonical order, rule tables and molecule: if the heterocycle part of standardize_charges returns, the
   result has the same atoms in the same order, every atom keeps element / isotope / radical state / hydrogen count / stereo label,
   and the bonds (neighbours, orders, labels) are untouched: nothing but charges changes *)
Theorem charges_frame ftable mtable yf ym order g st :
  charges_with fixed_step morgan_step morgan_assign ftable mtable yf ym order g = Ok st ->
  exists touched, frame g (cs_mol st) touched.
Proof.
  unfold charges_with. destruct (run_table fixed_step ftable yf _) as [st1|e] eqn:E1; [|discriminate].
  destruct (run_table morgan_step mtable ym st1) as [st2|e] eqn:E2; [|discriminate]. intros E3.
  destruct (run_table_keeps fixed_step fixed_step_keeps g ftable yf (mkCS g [] [] []) st1 [] (frame_refl g []) E1) as [t1 F1].
  destruct (run_table_keeps morgan_step morgan_step_keeps g mtable ym st1 st2 t1 F1 E2) as [t2 F2].
  exact (run_steps_keeps _ (morgan_assign_keeps order) g (cs_pairs st2) st2 st t2 F2 E3).
Qed.

Lemma frame_skeleton g g' t : frame g g' t -> skeleton g' = skeleton g /\ graph_of g' = graph_of g /\ ids g' = ids g.
Proof.
  intros [A F]. split; [|split].
  - unfold skeleton. induction F as [|[k a] [k' a'] l l' [H1 [[N [I _]] _]] F IH]; [reflexivity|].
    cbn [map fst snd] in *. subst k'. rewrite N, I, IH. reflexivity.
  - unfold graph_of. rewrite A. reflexivity.
  - unfold ids, keys. induction F as [|[k a] [k' a'] l l' [H1 _] F IH]; [reflexivity|]. cbn [map fst] in *. subst k'. rewrite IH. reflexivity.
Qed.

(* user-facing form: atoms (numbers, order, elements, isotopes) and adjacency are conserved, bond orders too *)
Theorem charges_conserve_atoms_and_bonds yf ym order g st :
  standardize_charges_model yf ym order g = Ok st ->
  skeleton (cs_mol st) = skeleton g /\ graph_of (cs_mol st) = graph_of g /\ m_adj (cs_mol st) = m_adj g.
Proof.
  intros H. destruct (charges_frame _ _ _ _ _ _ _ H) as [t F]. destruct (frame_skeleton _ _ _ F) as [S [G _]].
  repeat split; try assumption. exact (proj1 F).
Qed.

(* ================================================================================================
   B2. never fails: the tables name the pattern atoms 1, 2 (and 3 when fix), so a matcher that returns total mappings of the
       pattern atoms cannot make the loops raise KeyError
   ================================================================================================ *)
Definition crule_keys_ok (c : crule) : bool :=
  let ps := map pa_id (c_atoms c) in zmem 1 ps && zmem 2 ps && (negb (c_fix c) || zmem 3 ps).
Lemma table_crule_keys_b : forallb crule_keys_ok fixed_rules = true /\ forallb crule_keys_ok morgan_rules = true.
Proof. vm_compute. split; reflexivity. Qed.

(* the matcher hypothesis: every yielded mapping has every pattern atom of its rule as a key *)
Definition total_mapping (c : crule) (mp : mapping) : Prop := forall p, zmem p (map pa_id (c_atoms c)) = true -> exists n, zget mp p = Some n.
Inductive yielded_ok : list crule -> list (list mapping) -> Prop :=
| yo_nil_t y : yielded_ok [] y
| yo_nil_y t : yielded_ok t []
| yo_cons c t ms y : (forall mp, In mp ms -> total_mapping c mp) -> yielded_ok t y -> yielded_ok (c :: t) (ms :: y).

Lemma accept_ok c mp st : crule_keys_ok c = true -> total_mapping c mp -> exists r, accept mp st = Ok r.
Proof.
  unfold crule_keys_ok. rewrite !andb_true_iff. intros [[K1 K2] _] T. unfold accept.
  destruct (inter_count _ _ >? 2); [eexists; reflexivity|].
  destruct (T 1 K1) as [a1 ->]. destruct (T 2 K2) as [a2 ->].
  destruct (not_pyrrole_like _ a1); [eexists; reflexivity|]. destruct (not_pyrrole_like _ a2); eexists; reflexivity.
Qed.

Lemma fixed_step_ok c mp st : crule_keys_ok c = true -> total_mapping c mp -> exists st', fixed_step (c_fix c) mp st = Ok st'.
Proof.
  intros K T. unfold fixed_step. destruct (accept_ok c mp st K T) as [[st1 [[a1 a2]|]] ->]; [|eexists; reflexivity].
  unfold crule_keys_ok in K. rewrite !andb_true_iff in K. destruct K as [_ K3]. destruct (c_fix c); cbn [negb orb] in K3.
  - destruct (T 3 K3) as [a3 ->]. eexists; reflexivity.
  - eexists; reflexivity.
Qed.

Lemma morgan_step_ok c mp st : crule_keys_ok c = true -> total_mapping c mp -> exists st', morgan_step (c_fix c) mp st = Ok st'.
Proof.
  intros K T. unfold morgan_step. destruct (accept_ok c mp st K T) as [[st1 [[a1 a2]|]] ->]; [|eexists; reflexivity].
  unfold crule_keys_ok in K. rewrite !andb_true_iff in K. destruct K as [_ K3]. destruct (c_fix c); cbn [negb orb] in K3.
  - destruct (T 3 K3) as [a3 ->]. eexists; reflexivity.
  - eexists; reflexivity.
Qed.

Lemma run_steps_ok {A} (step : A -> cstate -> pyres cstate) xs :
  (forall x st, In x xs -> exists st', step x st = Ok st') -> forall st, exists st', run_steps step xs st = Ok st'.
Proof.
  induction xs as [|x xs IH]; intros H st; cbn; [eexists; reflexivity|].
  destruct (H x st (or_introl eq_refl)) as [st1 ->]. apply IH. intros y s Hy. apply H. right. exact Hy.
Qed.

Lemma run_table_ok step table y :
  (forall c mp st, crule_keys_ok c = true -> total_mapping c mp -> exists st', step (c_fix c) mp st = Ok st') ->
  forallb crule_keys_ok table = true -> yielded_ok table y -> forall st, exists st', run_table step table y st = Ok st'.
Proof.
  intros S K Y. induction Y as [y|t|c t ms y Hms Y IH]; intros st.
  - eexists; reflexivity.
  - destruct t; eexists; reflexivity.
  - cbn [forallb] in K. apply andb_true_iff in K. destruct K as [Kc Kt]. cbn [run_table].
    destruct (run_steps_ok (step (c_fix c)) ms (fun mp s Hin => S c mp s Kc (Hms mp Hin)) st) as [st1 ->]. apply (IH Kt).
Qed.

(* for EVERY molecule, canonical order and matcher that returns total mappings: the heterocycle part of standardize_charges over the
   REGENERATED tables returns (no KeyError) *)
Theorem charges_never_fail yf ym order g :
  yielded_ok fixed_rules yf -> yielded_ok morgan_rules ym -> exists st, standardize_charges_model yf ym order g = Ok st.
Proof.
  intros Yf Ym. unfold standardize_charges_model, charges_with. destruct table_crule_keys_b as [Kf Km].
  destruct (run_table_ok fixed_step fixed_rules yf fixed_step_ok Kf Yf (mkCS g [] [] [])) as [st1 ->].
  destruct (run_table_ok morgan_step morgan_rules ym morgan_step_ok Km Ym st1) as [st2 ->].
  apply run_steps_ok. intros [[a1 a2] fx] st _. unfold morgan_assign. destruct (order a1 >? order a2); eexists; reflexivity.
Qed.

(* ================================================================================================
   C. net charge through one accepted match (charges as the pattern of the rule says: table theorem table_charged_b)
   ================================================================================================ *)
(* fixed rules: the discharged atom (3 if fix else 1) carries +1, atom 2 carries 0 -> conserved *)
Theorem fixed_step_conserves fx mp st st' a1 a2 d ad au :
  fixed_step fx mp st = Ok st' -> accept mp st = Ok (mkCS (cs_mol st) (seen_update (cs_seen st) (match_set mp)) (cs_changed st) (cs_pairs st), Some (a1, a2)) ->
  (if fx then zget mp 3 else Some a1) = Some d ->
  NoDup (ids (cs_mol st)) -> d <> a2 -> atom_of (cs_mol st) d = Some ad -> atom_of (cs_mol st) a2 = Some au -> a_chg ad = 1 -> a_chg au = 0 ->
  conserved (cs_mol st) (cs_mol st').
Proof.
  intros H Ha Hd Hnd Hne Had Hau Hc1 Hc0. unfold fixed_step in H. rewrite Ha in H. rewrite Hd in H. inversion H. cbn [cs_mol].
  exact (charged_patch_conserves (cs_mol st) d a2 ad au Hnd Hne Had Hau Hc1 Hc0).
Qed.

(* a match that is not accepted changes nothing of the molecule *)
Theorem fixed_step_skip fx mp st st1 : accept mp st = Ok (st1, None) -> fixed_step fx mp st = Ok st1 /\ cs_mol st1 = cs_mol st /\ cs_changed st1 = cs_changed st.
Proof.
  intros Ha. unfold fixed_step. rewrite Ha. split; [reflexivity|]. split; [exact (accept_mol _ _ _ _ Ha)|].
  unfold accept in Ha. destruct (inter_count _ _ >? 2); [inversion Ha; reflexivity|].
  destruct (zget mp 1); [|discriminate]. destruct (zget mp 2); [|discriminate].
  destruct (not_pyrrole_like _ _); [inversion Ha; reflexivity|]. destruct (not_pyrrole_like _ _); inversion Ha; reflexivity.
Qed.

(* morgan rules: recording a pair takes the +1 of the discharged atom away, the assignment gives it back to atom 1 or atom 2 (charge 0
   at that moment): the two halves compose to `conserved` *)
Theorem morgan_record_assign_conserves order g a1 a2 d fx ad :
  NoDup (ids g) -> atom_of g d = Some ad -> a_chg ad = 1 ->
  (forall x ax, (x = a1 \/ x = a2) -> atom_of (set_charge g d 0) x = Some ax -> a_chg ax = 0) ->
  (exists x1, atom_of g a1 = Some x1) -> (exists x2, atom_of g a2 = Some x2) ->
  forall st', morgan_assign order (a1, a2, fx) (mkCS (set_charge g d 0) [] [] []) = Ok st' -> conserved g (cs_mol st').
Proof.
  intros Hnd Had Hc1 Hzero [x1 Hx1] [x2 Hx2] st' H.
  assert (K0 : keeps_elem (set_chg 0)) by (intros a; split; reflexivity).
  assert (K1 : keeps_elem (set_chg 1)) by (intros a; split; reflexivity).
  set (g1 := set_charge g d 0) in *.
  assert (Hnd1 : NoDup (ids g1)) by (unfold g1, set_charge; rewrite ids_upd_atom; exact Hnd).
  assert (T1 : total_charge g1 = total_charge g - 1).
  { unfold g1, set_charge. rewrite (total_upd_atom g d (set_chg 0) ad Hnd Had). cbn [a_chg set_chg set_chg_rad]. lia. }
  assert (E : forall x ax0, atom_of g x = Some ax0 -> exists ax, atom_of g1 x = Some ax).
  { intros x ax0 Hx. unfold g1, set_charge. rewrite atom_of_upd_atom. rewrite Hx. destruct (x =? d); eexists; reflexivity. }
  unfold morgan_assign in H. destruct (order a1 >? order a2); inversion H; cbn [cs_mol]; unfold set_charge.
  - destruct (E a2 x2 Hx2) as [ax Hax]. pose proof (Hzero a2 ax (or_intror eq_refl) Hax) as Hz. repeat split.
    + rewrite skeleton_upd_atom by assumption. unfold g1, set_charge. rewrite skeleton_upd_atom by assumption. reflexivity.
    + rewrite (total_upd_atom g1 a2 (set_chg 1) ax Hnd1 Hax). cbn [a_chg set_chg set_chg_rad]. lia.
  - destruct (E a1 x1 Hx1) as [ax Hax]. pose proof (Hzero a1 ax (or_introl eq_refl) Hax) as Hz. repeat split.
    + rewrite skeleton_upd_atom by assumption. unfold g1, set_charge. rewrite skeleton_upd_atom by assumption. reflexivity.
    + rewrite (total_upd_atom g1 a1 (set_chg 1) ax Hnd1 Hax). cbn [a_chg set_chg set_chg_rad]. lia.
Qed.

(* ================================================================================================
   D. non-vacuity: the instantiation of the third fixed rule (N-bridgehead azolium, fix = True) and of the pyrazolium rule of
      morgan_rules as recorded from the real matcher; the hypotheses of the step theorems hold there
   ================================================================================================ *)
Definition ex_fixed_g : mol :=
  mkMol [(3, (mkAtom 7 None 1 false (Some 0) None)); (1, (mkAtom 7 None 0 false (Some 1) None)); (4, (mkAtom 6 None 0 false (Some 1) None)); (5, (mkAtom 6 None 0 false (Some 1) None)); (6, (mkAtom 6 None 0 false (Some 0) None)); (7, (mkAtom 6 None 0 false (Some 1) None)); (2, (mkAtom 7 None 0 false (Some 1) None)); (8, (mkAtom 6 None 0 false (Some 1) None))]
        [(3, [(1, (mkBond 4 None)); (6, (mkBond 4 None)); (8, (mkBond 4 None))]); (1, [(3, (mkBond 4 None)); (4, (mkBond 4 None))]); (4, [(1, (mkBond 4 None)); (5, (mkBond 4 None))]); (5, [(4, (mkBond 4 None)); (6, (mkBond 4 None))]); (6, [(3, (mkBond 4 None)); (5, (mkBond 4 None)); (7, (mkBond 4 None))]); (7, [(6, (mkBond 4 None)); (2, (mkBond 4 None))]); (2, [(7, (mkBond 4 None)); (8, (mkBond 4 None))]); (8, [(3, (mkBond 4 None)); (2, (mkBond 4 None))])].
Definition ex_fixed_yf : list (list mapping) := [[]; []; [[(3, 3); (1, 1); (4, 4); (5, 5); (6, 6); (7, 7); (2, 2); (8, 8)]]; []; []; []; []; []; []; []].
Definition ex_fixed_ym : list (list mapping) := [[]; []; []; []; [[(1, 2); (3, 8); (2, 3); (4, 6); (5, 7)]]; []].

Theorem charges_example_fixed :
  exists st, standardize_charges_model ex_fixed_yf ex_fixed_ym (fun _ => 0) ex_fixed_g = Ok st /\
             cs_changed st = [3; 2] /\ charge_of (cs_mol st) 3 = Some 0 /\ charge_of (cs_mol st) 2 = Some 1 /\
             total_charge (cs_mol st) = total_charge ex_fixed_g /\ cs_pairs st = [].
Proof. eexists. vm_compute. repeat split; reflexivity. Qed.

Definition ex_morgan_g : mol :=
  mkMol [(1, (mkAtom 7 None 1 false (Some 1) None)); (2, (mkAtom 7 None 0 false (Some 1) None)); (3, (mkAtom 6 None 0 false (Some 0) None)); (4, (mkAtom 6 None 0 false (Some 1) None)); (5, (mkAtom 6 None 0 false (Some 1) None)); (6, (mkAtom 6 None 0 false (Some 3) None))]
        [(1, [(2, (mkBond 4 None)); (5, (mkBond 4 None))]); (2, [(1, (mkBond 4 None)); (3, (mkBond 4 None))]); (3, [(2, (mkBond 4 None)); (4, (mkBond 4 None)); (6, (mkBond 1 None))]); (4, [(3, (mkBond 4 None)); (5, (mkBond 4 None))]); (5, [(1, (mkBond 4 None)); (4, (mkBond 4 None))]); (6, [(3, (mkBond 1 None))])].
Definition ex_morgan_ym : list (list mapping) := [[]; []; []; []; []; [[(1, 1); (2, 2); (3, 3); (4, 4); (5, 5)]]].
Definition ex_order (flip : bool) (n : Z) : Z :=
  match zget [(1, 1); (3, 2); (5, 3); (4, 4); (6, 5); (2, 6)] n with Some r => if flip then 7 - r else r | None => 0 end.

(* the canonical order decides: with the recorded order the charge stays on atom 1, with the reversed order it moves to atom 2;
   the net charge is the same in both cases *)
Theorem charges_example_morgan :
  (exists st, standardize_charges_model [] ex_morgan_ym (ex_order false) ex_morgan_g = Ok st /\ cs_pairs st = [(1, 2, false)] /\
              cs_changed st = [] /\ charge_of (cs_mol st) 1 = Some 1 /\ total_charge (cs_mol st) = total_charge ex_morgan_g) /\
  (exists st, standardize_charges_model [] ex_morgan_ym (ex_order true) ex_morgan_g = Ok st /\
              cs_changed st = [2; 1] /\ charge_of (cs_mol st) 1 = Some 0 /\ charge_of (cs_mol st) 2 = Some 1 /\
              total_charge (cs_mol st) = total_charge ex_morgan_g).
Proof. split; eexists; vm_compute; repeat split; reflexivity. Qed.
