(* C09 round 4 -- the ring-size hypothesis of the equivalence theorems (ring sizes 3..65 on both sides) cannot be dropped: the encoders
   skip every ring size above 65 (`if r > 65: continue`, "big rings not supported") and encode an atom / a query that has only such
   sizes as RING-FREE, whereas the reference comparison uses the sizes themselves.  Witnesses inside every other hypothesis. *)
From Coq Require Import ZArith List Bool.
From Model Require Import PyBase PeriodicTable IsoBits.
Import ListNotations.
Open Scope Z_scope.

Definition no_x (rings : list Z) : qx := mkQX 0 false [] [] [] [] rings.
(* a CH2 of a 66-membered carbocycle / of a chain; a CH shared by a 6- and a 70-membered ring *)
Definition c_ring66 : latom := mkLA 6 None 0 false 2 1 (Some 2) 0 [66].
Definition c_chain : latom := mkLA 6 None 0 false 2 1 (Some 2) 0 [].
Definition c_ring6_70 : latom := mkLA 6 None 0 false 3 1 (Some 1) 0 [6; 70].
Definition set_rings (a : latom) (r : list Z) : latom :=
  mkLA (la_num a) (la_iso a) (la_chg a) (la_rad a) (la_nb a) (la_hyb a) (la_h a) (la_het a) r.

Theorem ring_size_above_65_refuted :
  (* [C;!R] against an atom of a 66-ring: the reference rejects, the mask accepts (the atom is encoded as ring-free) *)
  query_ok (QElem 6 None (no_x [0])) = true /\ atom_ok (set_rings c_ring66 [65]) = true /\ elem_hyp (QElem 6 None (no_x [0])) 6 /\
  match_atom (QElem 6 None (no_x [0])) c_ring66 = false /\
  mask_match_first (enc_qatom (QElem 6 None (no_x [0])) None) (enc_atom c_ring66) = true /\
  (* [C;r66] against a chain atom: the reference rejects, the mask accepts (the query is encoded as ring-free) *)
  query_ok (QElem 6 None (no_x [65])) = true /\ atom_ok c_chain = true /\
  match_atom (QElem 6 None (no_x [66])) c_chain = false /\
  mask_match_first (enc_qatom (QElem 6 None (no_x [66])) None) (enc_atom c_chain) = true /\
  (* [C;r70] against an atom in a 6- and a 70-ring: the reference accepts, the mask rejects *)
  atom_ok (set_rings c_ring6_70 [6; 65]) = true /\
  match_atom (QElem 6 None (no_x [70])) c_ring6_70 = true /\
  mask_match_first (enc_qatom (QElem 6 None (no_x [70])) None) (enc_atom c_ring6_70) = false /\
  (* one component / scope call on a one-atom "molecule" (only the ring sizes matter): different results under the two flags *)
  let rq := [mkRQ 1 0 (QElem 6 None (no_x [0])) None []] in
  let rm := [mkRA 1 (set_rings (mkLA 6 None 0 false 0 1 (Some 4) 0 []) [66]) []] in
  has_unknown_h rm = false /\ wf_queryb rq = true /\ in_range_pairb rq rm = true /\
  wf_molb [mkRA 1 (set_rings (mkLA 6 None 0 false 0 1 (Some 4) 0 []) [65]) []] = true /\
  component_mappings true rq rm [true] 10 = Some [[(1, 1)]] /\ component_mappings false rq rm [true] 10 = Some [].
Proof. vm_compute. repeat split; try reflexivity; intro H; discriminate H. Qed.
