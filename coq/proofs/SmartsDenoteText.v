(* C08 -- denotation of linear SMARTS texts: "[body]" (bond-spelling "[body]")* with documented bond spellings.
   The tokenizer produces exactly the chain of tokens of Proofs.SmartsDenote, hence smarts_full builds exactly the named atoms
   and one bond between consecutive atoms with the documented orders / ring mark. *)
From Coq Require Import ZArith List String Ascii Bool Lia.
From Gen Require Import Elements TokenTables SmartsTables.
From Model Require Import PyBase Graph PeriodicTable Tokenize Smarts Query SmartsFull.
From Model Require Parser.
From Proofs Require Import QueryProofs SmartsProofs SmartsDenote.
Import ListNotations.
Open Scope Z_scope.

Definition nobr (l : list ascii) : Prop := forallb (fun c => negb (Ascii.eqb c "[" || Ascii.eqb c "]")) l = true.
Definition pre_ok (st : tstate) : Prop := t_pend st = PdNone /\ (t_type st = None \/ t_type st = Some 0 \/ t_type st = Some 1).

Lemma body_loop body : forall acc toks rest, nobr body ->
  tok_loop tok_step (mkT (Some 5) (PdChars acc) toks) (body ++ rest) =
  tok_loop tok_step (mkT (Some 5) (PdChars (acc ++ body)) toks) rest.
Proof.
  induction body as [|c r IH]; intros acc toks rest H; [rewrite app_nil_r; reflexivity|].
  unfold nobr in H. cbn [forallb] in H. apply andb_true_iff in H. destruct H as [Hc Hr].
  apply negb_true_iff in Hc. apply orb_false_iff in Hc. destruct Hc as [C1 C2].
  cbn [app tok_loop]. unfold tok_step at 1. cbn [tt_is t_type Z.eqb Pos.eqb]. rewrite C1, C2. cbn [t_pend t_toks t_type].
  rewrite (IH (acc ++ [c])%list toks rest Hr). rewrite <- app_assoc. reflexivity.
Qed.

Lemma bracket_loop st body rest : pre_ok st -> nobr body -> body <> [] ->
  tok_loop tok_step st ("["%char :: body ++ "]"%char :: rest) =
  tok_loop tok_step (mkT (Some 0) PdNone ((5, PStr (string_of_list_ascii body)) :: t_toks st)) rest.
Proof.
  intros [Hp Ht] Hb Hn. destruct st as [ty pd toks]. cbn [t_pend t_type t_toks] in *. subst pd.
  cbn [tok_loop]. 
  assert (E : tok_step (mkT ty PdNone toks) "[" = Ok (mkT (Some 5) (PdChars []) toks)).
  { destruct Ht as [->|[->| ->]]; reflexivity. }
  rewrite E. rewrite (body_loop body [] toks ("]"%char :: rest) Hb). cbn [app tok_loop].
  destruct body as [|c r]; [congruence|]. reflexivity.
Qed.

(* ---------------------------------------------------------------- bond spellings as syntax *)
Inductive bsym := Bsingle | Bdouble | Btriple | Barom | Bany.
Definition bchar (b : bsym) : ascii := match b with Bsingle => "-" | Bdouble => "=" | Btriple => "#" | Barom => ":" | Bany => "~" end.
Definition border (b : bsym) : Z := match b with Bsingle => 1 | Bdouble => 2 | Btriple => 3 | Barom => 4 | Bany => 8 end.
Inductive bcore := CSym (a : bsym) | COr (a b : bsym) | CNot (a : bsym).
(* a bond spelling: nothing, or a core with an optional ring mark ;@ / ;!@ *)
Inductive bspell := BNone | BCore (c : bcore) (ring : option bool).
Definition core_ok (c : bcore) : Prop := match c with CNot Bany => False | _ => True end.
Definition spell_core (c : bcore) : list ascii :=
  match c with CSym a => [bchar a] | COr a b => [bchar a; ","%char; bchar b] | CNot a => ["!"%char; bchar a] end.
Definition spell_ring (r : option bool) : list ascii :=
  match r with None => [] | Some true => [";"%char; "@"%char] | Some false => [";"%char; "!"%char; "@"%char] end.
Definition spell_bond (b : bspell) : list ascii := match b with BNone => [] | BCore c r => (spell_core c ++ spell_ring r)%list end.
(* the documented meaning *)
Definition core_orders (c : bcore) : list Z :=
  match c with
  | CSym a => [border a]
  | COr a b => or_orders (border a) (border b)
  | CNot a => filter (fun x => negb (x =? border a)) [1; 2; 3; 4]
  end.
Definition denote_bond (b : bspell) : qbond := match b with BNone => mkQB [1] None | BCore c r => mkQB (core_orders c) r end.
(* the token *)
Definition core_token (c : bcore) : token :=
  match c with
  | CSym a => (1, PInt (border a))
  | COr a b => (10, PZs [border a; border b])
  | CNot a => (10, PZs (filter (fun x => negb (x =? border a)) [1; 2; 3; 4]))
  end.
Definition bond_token (b : bspell) : option token :=
  match b with
  | BNone => None
  | BCore c None => Some (core_token c)
  | BCore c (Some r) => Some (12, PQB (sorted_set (match snd (core_token c) with PInt o => [o] | PZs l => l | _ => [] end)) r)
  end.

Lemma core_loop c toks rest : core_ok c ->
  tok_loop tok_step (mkT (Some 0) PdNone toks) (spell_core c ++ rest) =
  tok_loop tok_step (mkT (match c with CSym _ => Some 1 | _ => None end) PdNone (core_token c :: toks)) rest.
Proof.
  intros H. destruct c as [a|a b|a]; [destruct a | destruct a, b | destruct a; try contradiction]; reflexivity.
Qed.

Lemma ring_loop c r toks rest :
  tok_loop tok_step (mkT (match c with CSym _ => Some 1 | _ => None end) PdNone (core_token c :: toks)) (spell_ring (Some r) ++ rest) =
  tok_loop tok_step (mkT None PdNone ((12, PQB (sorted_set (match snd (core_token c) with PInt o => [o] | PZs l => l | _ => [] end)) r) :: toks)) rest.
Proof.
  destruct r; (destruct c as [a|a b|a]; [destruct a | destruct a, b | destruct a]); reflexivity.
Qed.

Definition bond_ok (b : bspell) : Prop := match b with BNone => True | BCore c _ => core_ok c end.

(* after an atom: the bond spelling leaves a state from which a bracket atom may start, with the bond token (if any) on top *)
Lemma bond_loop b toks rest : bond_ok b ->
  exists st, pre_ok st /\ t_toks st = (match bond_token b with Some t => [t] | None => [] end ++ toks)%list /\
             tok_loop tok_step (mkT (Some 0) PdNone toks) (spell_bond b ++ rest) = tok_loop tok_step st rest.
Proof.
  intros H. destruct b as [|c [r|]]; cbn [spell_bond bond_token].
  - exists (mkT (Some 0) PdNone toks). split; [split; [reflexivity | right; left; reflexivity]|]. split; reflexivity.
  - eexists. split; [|split; [|rewrite <- app_assoc, (core_loop c toks _ H), (ring_loop c r toks rest); reflexivity]].
    + split; [reflexivity | left; reflexivity].
    + reflexivity.
  - eexists. split; [|split; [|rewrite app_nil_r; apply (core_loop c toks rest H)]].
    + split; [reflexivity | destruct c; [right; right; reflexivity | left; reflexivity | left; reflexivity]].
    + reflexivity.
Qed.

(* the token is a bond token whose query bond is the documented meaning *)
Lemma bond_token_meaning b : bond_ok b ->
  match bond_token b with Some t => is_bond_tok t | None => True end /\
  qbond_of_payload (bond_value (bond_token b)) = Ok (denote_bond b).
Proof.
  intros H. destruct b as [|c [r|]]; [split; [exact I | reflexivity] | |].
  - split; [right; right; do 2 eexists; reflexivity|].
    destruct c as [a|a b|a]; [destruct a | destruct a, b | destruct a; try contradiction]; reflexivity.
  - split; [destruct c; [left | right; left | right; left]; eexists; reflexivity|].
    destruct c as [a|a b|a]; [destruct a | destruct a, b | destruct a; try contradiction]; reflexivity.
Qed.

(* ---------------------------------------------------------------- the text of a chain *)
Definition tlink := (bspell * list ascii * Query.parsed)%type.          (* bond spelling, bracket body, what the body parses to *)
Definition tl_bond (x : tlink) := fst (fst x).
Definition tl_body (x : tlink) := snd (fst x).
Definition tl_parsed (x : tlink) := snd x.
Definition body_ok (body : list ascii) (p : Query.parsed) : Prop := nobr body /\ body <> [] /\ query_parse body = Ok p.
Definition tlink_ok (x : tlink) : Prop := bond_ok (tl_bond x) /\ body_ok (tl_body x) (tl_parsed x).
Definition bracket (body : list ascii) : list ascii := ("["%char :: body ++ ["]"%char])%list.
Definition spell_link (x : tlink) : list ascii := (spell_bond (tl_bond x) ++ bracket (tl_body x))%list.
Definition chain_text (body0 : list ascii) (links : list tlink) : list ascii := (bracket body0 ++ flat_map spell_link links)%list.
Definition raw_link (x : tlink) : list token :=
  ((match bond_token (tl_bond x) with Some t => [t] | None => [] end) ++ [(5, PStr (string_of_list_ascii (tl_body x)))])%list.

Lemma links_loop links : forall toks, Forall tlink_ok links ->
  tok_loop tok_step (mkT (Some 0) PdNone toks) (flat_map spell_link links) =
  Ok (mkT (Some 0) PdNone (rev (flat_map raw_link links) ++ toks)).
Proof.
  induction links as [|x r IH]; intros toks H; [reflexivity|].
  inversion H as [|? ? [Hb [Hn [Hne _]]] Hr]; subst.
  cbn [flat_map]. unfold spell_link at 1. rewrite <- app_assoc.
  destruct (bond_loop (tl_bond x) toks (bracket (tl_body x) ++ flat_map spell_link r) Hb) as [st [P [T E]]]. rewrite E.
  unfold bracket. cbn [app]. rewrite <- app_assoc. cbn [app].
  rewrite (bracket_loop st (tl_body x) _ P Hn Hne). rewrite T. rewrite (IH _ Hr).
  f_equal. f_equal. unfold raw_link at 2. rewrite !rev_app_distr. cbn [rev app].
  rewrite <- !app_assoc. cbn [app]. destruct (bond_token (tl_bond x)); reflexivity.
Qed.

Lemma tokenize_chain body0 p0 links : body_ok body0 p0 -> Forall tlink_ok links ->
  tokenize_raw (string_of_list_ascii (chain_text body0 links)) =
  Ok ((5, PStr (string_of_list_ascii body0)) :: flat_map raw_link links).
Proof.
  intros [Hn [Hne _]] Hl. unfold tokenize_raw, tokenize_raw_with. rewrite list_ascii_of_string_of_list_ascii.
  unfold chain_text, bracket. cbn [app]. rewrite <- app_assoc. cbn [app].
  rewrite (bracket_loop t_init body0 _ ltac:(split; [reflexivity | left; reflexivity]) Hn Hne).
  cbn [t_init t_toks]. rewrite (links_loop links _ Hl).
  unfold tok_finish. cbn [tt_is t_type Z.eqb Pos.eqb flushed truthy t_pend t_toks].
  rewrite rev_app_distr, rev_involutive. reflexivity.
Qed.

Definition to_link (x : tlink) : link := (bond_token (tl_bond x), tl_parsed x).

Lemma split_tokens_bond t ts : is_bond_tok t ->
  split_tokens (t :: ts) = match split_tokens ts with Err e => Err e | Ok (toks, ps) => Ok (t :: toks, ps) end.
Proof. intros [[o ->]|[[l ->]|[l [r ->]]]]; reflexivity. Qed.

Lemma split_chain links : Forall tlink_ok links ->
  split_tokens (flat_map raw_link links) = Ok (flat_map link_tokens (map to_link links), map snd (map to_link links)).
Proof.
  induction links as [|x r IH]; intros H; [reflexivity|]. inversion H as [|? ? [Hb [_ [_ Hq]]] Hr]; subst.
  cbn [flat_map map]. unfold raw_link at 1, link_tokens at 1, to_link at 1 3. cbn [fst snd].
  pose proof (proj1 (bond_token_meaning _ Hb)) as Ht.
  assert (A : split_tokens ((5, PStr (string_of_list_ascii (tl_body x))) :: flat_map raw_link r) =
              Ok (atom_token (p_stereo (tl_parsed x)) :: flat_map link_tokens (map to_link r), tl_parsed x :: map snd (map to_link r))).
  { cbn [split_tokens smarts_token Z.eqb Pos.eqb orb]. rewrite list_ascii_of_string_of_list_ascii, Hq, (IH Hr). reflexivity. }
  destruct (bond_token (tl_bond x)) as [t|]; cbn [app]; [|exact A].
  rewrite (split_tokens_bond t _ Ht).
  etransitivity; [exact (f_equal (fun r0 : pyres (list token * list Query.parsed) =>
                                   match r0 with Ok (toks, ps) => Ok (t :: toks, ps) | Err e => Err e end) A) | reflexivity].
Qed.

(* ---------------------------------------------------------------- the theorem *)
Theorem chain_text_denotation body0 p0 links q0 qs :
  body_ok body0 p0 -> Forall tlink_ok links ->
  Forall2 (fun p q => build_atom p = Ok q) (p0 :: map tl_parsed links) (q0 :: qs) ->
  NoDup (explicit_maps (p0 :: map tl_parsed links)) ->
  smarts_full (string_of_list_ascii (chain_text body0 links)) =
  Ok (map (fun pq => atom_result (fst pq) (snd pq)) (combine (p0 :: map tl_parsed links) (q0 :: qs)),
      chain_sbonds 1 (map (fun x => denote_bond (tl_bond x)) links)).
Proof.
  intros H0 Hl Hat Hnd. unfold smarts_full.
  assert (Es : String.eqb (string_of_list_ascii (chain_text body0 links)) "" = false) by reflexivity. rewrite Es.
  rewrite (tokenize_chain body0 p0 links H0 Hl).
  assert (S : split_tokens ((5, PStr (string_of_list_ascii body0)) :: flat_map raw_link links) =
              Ok (chain_tokens p0 (map to_link links), p0 :: map snd (map to_link links))).
  { cbn [split_tokens smarts_token Z.eqb Pos.eqb orb]. rewrite list_ascii_of_string_of_list_ascii.
    destruct H0 as [_ [_ Hq]]. rewrite Hq, (split_chain links Hl). reflexivity. }
  rewrite S.
  assert (M : map snd (map to_link links) = map tl_parsed links) by (rewrite map_map; reflexivity).
  rewrite <- M in Hat, Hnd |- *.
  apply chain_denotation.
  - apply Forall_map. eapply Forall_impl; [|exact Hl]. intros x [Hb _]. exact (proj1 (bond_token_meaning _ Hb)).
  - exact Hat.
  - exact Hnd.
  - clear - Hl. induction Hl as [|x r [Hb _] Hr IH]; cbn [map]; constructor; [exact (proj2 (bond_token_meaning _ Hb)) | exact IH].
Qed.

(* non-vacuity: an instance of every hypothesis *)
Definition ex_p0 : Query.parsed := mkParsed None None None None [ESym (s2l "C")] (Some [2]) None None None None false.
Definition ex_p1 : Query.parsed := mkParsed None None None None [ESym (s2l "N"); ESym (s2l "O")] None (Some [1]) None None None false.
Definition ex_p2 : Query.parsed := mkParsed None None None None [ENum 8] None None None None None false.
Definition ex_links : list tlink :=
  [(BCore (COr Bsingle Bdouble) (Some false), s2l "N,O;h1", ex_p1); (BCore (CNot Barom) None, s2l "#8", ex_p2); (BNone, s2l "C;D2", ex_p0)].
Theorem chain_text_example :
  body_ok (s2l "C;D2") ex_p0 /\ Forall tlink_ok ex_links /\
  string_of_list_ascii (chain_text (s2l "C;D2") ex_links) = "[C;D2]-,=;!@[N,O;h1]!:[#8][C;D2]"%string /\
  smarts_full "[C;D2]-,=;!@[N,O;h1]!:[#8][C;D2]" =
  Ok ([(QElem 6 None (mkQX 0 false [2] [] [] [] [] false), None); (QList [7; 8] (mkQX 0 false [] [] [1] [] [] false), None);
       (QElem 8 None (mkQX 0 false [] [] [] [] [] false), None); (QElem 6 None (mkQX 0 false [2] [] [] [] [] false), None)],
      [mkSB 1 0 (mkQB [1; 2] (Some false)) None; mkSB 2 1 (mkQB [1; 2; 3] None) None; mkSB 3 2 (mkQB [1] None) None]).
Proof.
  assert (B : forall body p, forallb (fun c => negb (Ascii.eqb c "[" || Ascii.eqb c "]")) body = true -> body <> [] ->
                             query_parse body = Ok p -> body_ok body p) by (intros; repeat split; assumption).
  split; [apply B; [reflexivity | discriminate | vm_compute; reflexivity]|].
  assert (L : forall b body p, bond_ok b -> body_ok body p -> tlink_ok (b, body, p)) by (intros; split; assumption).
  split; [unfold ex_links; repeat (apply Forall_cons; [apply L; [exact I | apply B; [reflexivity | discriminate | vm_compute; reflexivity]]|]); apply Forall_nil|].
  split; vm_compute; reflexivity.
Qed.
