(* C08 -- the atom numbers smarts() assigns: explicit numbers are kept, the other atoms get fresh consecutive numbers above every
   explicit one (masked atoms from the process-wide counter), and all numbers of a query are distinct. *)
From Coq Require Import ZArith List String Ascii Bool Lia.
From Model Require Import PyBase Query Smarts SmartsFull.
Import ListNotations.
Open Scope Z_scope.

Lemma fold_max_ge l : forall a, a <= fold_left Z.max l a /\ forall x, In x l -> x <= fold_left Z.max l a.
Proof.
  induction l as [|y r IH]; intros a; cbn; [split; [lia | intros x []]|].
  destruct (IH (Z.max a y)) as [H1 H2]. split; [lia|]. intros x [<-|H]; [lia | exact (H2 x H)].
Qed.
Lemma max_explicit_ge ps k : In k (explicit_of ps) -> k <= max_explicit ps.
Proof. intros H. exact (proj2 (fold_max_ge (explicit_of ps) 0) k H). Qed.

(* where the numbers of a suffix of the atom list lie *)
Lemma assign_range g0 ps : forall free masked x, In x (map (num_value g0) (assign_numbers ps free masked)) ->
  In x (explicit_of ps) \/ free <= x < free + Z.of_nat (List.length ps) \/ g0 + masked <= x.
Proof.
  induction ps as [|p r IH]; intros free masked x; cbn [assign_numbers map In]; [tauto|].
  cbn [explicit_of flat_map List.length]. fold (explicit_of r). destruct (p_mapping p) as [k|].
  - cbn [map In num_value app]. intros [<-|H]; [left; left; reflexivity|]. destruct (IH _ _ _ H) as [H1|[H1|H1]]; [left; right; exact H1 | right; left; lia | right; right; exact H1].
  - cbn [app]. destruct (p_masked p); cbn [map In num_value]; (intros [<-|H]; [|destruct (IH _ _ _ H) as [H1|[H1|H1]]]); try tauto; try lia.
Qed.

(* all atom numbers of a query are distinct: explicit numbers distinct, positive and below the masked counter g0 (10^9 + 1 or
   more), and fewer atoms than numbers left below g0 *)
Theorem numbers_nodup g0 ps :
  NoDup (explicit_of ps) -> (forall k, In k (explicit_of ps) -> 1 <= k) ->
  max_explicit ps + 1 + Z.of_nat (List.length ps) <= g0 ->
  NoDup (map (num_value g0) (atom_numbers ps)).
Proof.
  intros Hnd Hpos Hb. unfold atom_numbers.
  assert (G : forall ps free masked, NoDup (explicit_of ps) -> (forall k, In k (explicit_of ps) -> k < free) ->
            free + Z.of_nat (List.length ps) <= g0 -> 0 <= masked -> NoDup (map (num_value g0) (assign_numbers ps free masked))).
  { clear. induction ps as [|p r IH]; intros free masked Hnd Hlt Hb Hm; cbn [assign_numbers map]; [constructor|].
    cbn [explicit_of flat_map List.length] in *. fold (explicit_of r) in *. destruct (p_mapping p) as [k|].
    - cbn [app] in *. inversion Hnd as [|? ? Hk Hnd']; subst. cbn [map num_value]. constructor.
      + intros Hin. destruct (assign_range g0 r _ _ _ Hin) as [H1|[H1|H1]]; [exact (Hk H1)| |];
          pose proof (Hlt k (or_introl eq_refl)); lia.
      + apply IH; [exact Hnd' | intros j Hj; apply Hlt; right; exact Hj | lia | exact Hm].
    - cbn [app] in *. destruct (p_masked p); cbn [map num_value]; constructor.
      + intros Hin. destruct (assign_range g0 r _ _ _ Hin) as [H1|[H1|H1]]; [pose proof (Hlt _ H1); lia | lia | lia].
      + apply IH; [exact Hnd | exact Hlt | lia | lia].
      + intros Hin. destruct (assign_range g0 r _ _ _ Hin) as [H1|[H1|H1]]; [pose proof (Hlt _ H1); lia | lia | lia].
      + apply IH; [exact Hnd | intros j Hj; pose proof (Hlt j Hj); lia | lia | exact Hm].
  }
  apply G; [exact Hnd | intros k Hk; pose proof (max_explicit_ge ps k Hk); lia | lia | lia].
Qed.

(* explicit numbers are kept; an atom without one gets a number above every explicit number (or a masked one) *)
Theorem numbers_explicit ps : forall free masked i p, nth_error ps i = Some p ->
  exists a, nth_error (assign_numbers ps free masked) i = Some a /\
            match p_mapping p with Some k => a = NGiven k | None => if p_masked p then exists j, a = NMasked j /\ masked <= j
                                                                 else exists k, a = NGiven k /\ free <= k end.
Proof.
  induction ps as [|q r IH]; intros free masked i p Hn; [destruct i; discriminate|].
  destruct i as [|i]; cbn in Hn.
  - inversion Hn; subst. cbn [assign_numbers]. destruct (p_mapping p) as [k|]; [eexists; split; reflexivity|].
    destruct (p_masked p); eexists; (split; [reflexivity|]); eexists; split; try reflexivity; lia.
  - assert (W : forall f m f' m', f <= f' -> m <= m' ->
              (exists a, nth_error (assign_numbers r f' m') i = Some a /\
                 match p_mapping p with Some k => a = NGiven k | None => if p_masked p then exists j, a = NMasked j /\ m' <= j
                                                                        else exists k, a = NGiven k /\ f' <= k end) ->
              exists a, nth_error (assign_numbers r f' m') i = Some a /\
                 match p_mapping p with Some k => a = NGiven k | None => if p_masked p then exists j, a = NMasked j /\ m <= j
                                                                        else exists k, a = NGiven k /\ f <= k end).
    { intros f m f' m' Hf Hm [a [E H]]. exists a. split; [exact E|]. destruct (p_mapping p); [exact H|].
      destruct (p_masked p); destruct H as [x [Hx Hl]]; exists x; (split; [exact Hx | lia]). }
    cbn [assign_numbers]. destruct (p_mapping q) as [k|]; [|destruct (p_masked q)]; cbn [nth_error].
    + apply (IH free masked i p Hn).
    + apply (W free masked free (masked + 1)); [lia | lia | apply (IH free (masked + 1) i p Hn)].
    + apply (W free masked (free + 1) masked); [lia | lia | apply (IH (free + 1) masked i p Hn)].
Qed.

Theorem numbers_example :
  smarts_numbers "[C:7]C[N;M:2][O;M]C[S;M]" = Ok [NGiven 7; NGiven 8; NGiven 2; NMasked 0; NGiven 9; NMasked 1].
Proof. vm_compute. reflexivity. Qed.
