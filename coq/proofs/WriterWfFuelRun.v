(* C02, fuel sufficiency, part 3: the whole run.  On a well-formed molecule every fuelled loop of the writer model ends within
   its fuel: the DFS (dfs_fuel), the flattening (fl_fuel) and the loop over the components (n_atoms + 1).  Hence the round-2
   theorems are unconditional, and the only errors smiles_tokens can return are those of the code itself: heappop from an
   empty heap (number_atoms) and the exceptions of _format_atom / _format_bond / __ct_map (emit). *)
From Coq Require Import ZArith List Bool Lia Permutation.
From Model Require Import PyBase Graph Stereo Writer.
From Proofs Require Import WriterProofsClosures WriterWfAtoms WriterWfStream WriterWfDfs WriterWfEvents WriterWfTree
                           WriterWfComplete WriterWfFlatten2 WriterWfDistinct WriterWfFinal WriterWfRun
                           WriterWfFuelDfs WriterWfFuelFlat.
Import ListNotations.
Open Scope Z_scope.

Section Total.
  Variable g : mol.
  Variable w tb : Z -> Z.
  Variable o : opts.
  Variable tabs : stabs.
  Hypothesis Hwf : wf_mol g = true.

  Lemma RI_sub st : RI g st -> forall n, In n (ws_atoms st) -> In n (ids g).
  Proof. intros R n Hn. apply (Permutation_in _ (ri_perm _ _ R)). apply in_or_app. left. exact Hn. Qed.

  (* the two loops of a component always return, and what they return is well-formed (C02_writer_wellformed) *)
  Theorem component_loops_total : forall st, RI g st -> ws_atoms st <> [] ->
    exists t smi, traverse g w tb o (ids g) st = Ok t /\ flatten g t = Ok smi /\ component_wf g (ws_atoms st) t smi.
  Proof.
    intros st R Hne. destruct (wf_mol_graph g Hwf) as [Hloop Hsym]. pose proof (wf_mol_nbr_nodup g Hwf) as Hnn.
    destruct (traverse_total g w tb o (ids g) st (ri_nodup _ _ R) (RI_sub st R) Hne (ri_closed _ _ R)) as [t Ht].
    destruct (flatten_total g w tb o (ids g) st t Hnn Hloop (ri_nodup _ _ R) (RI_sub st R) (ri_closed _ _ R) Ht) as [smi Hf].
    exists t, smi. split; [exact Ht|]. split; [exact Hf|]. apply (writer_wellformed g w tb o (ids g) st t smi Hwf (ri_closed _ _ R) Ht Hf).
  Qed.

  (* where an error of one component can come from *)
  Definition component_error (st : wstate) (e : pyexn) : Prop :=
    exists t smi, traverse g w tb o (ids g) st = Ok t /\ flatten g t = Ok smi /\
      let d := tr_dfs t in let ro := ring_positions (ds_tokens d) smi 0 in
      (number_atoms (ds_tokens d) ro ro (ws_casted st) (ws_heap st) = Err e \/
       exists casted heap tokens' visited',
         number_atoms (ds_tokens d) ro ro (ws_casted st) (ws_heap st) = Ok (casted, heap) /\
         order_neighbours smi casted (ds_edges d) (ds_tokens d) (ds_visited d) = (tokens', visited') /\
         emit o (fun n => format_atom g o tabs n visited') (format_bond g o (ct_map g tabs visited')) smi tokens' casted (ws_vb st) = Err e).

  Lemma component_err st e : RI g st -> ws_atoms st <> [] -> component g w tb o tabs (ids g) st = Err e -> component_error st e.
  Proof.
    intros R Hne H. destruct (component_loops_total st R Hne) as [t [smi [Ht [Hf _]]]].
    exists t, smi. split; [exact Ht|]. split; [exact Hf|]. unfold component in H. rewrite Ht, Hf in H. cbv zeta.
    destruct (number_atoms _ _ _ (ws_casted st) (ws_heap st)) as [[casted heap]|e1] eqn:En; [|inversion H; left; reflexivity].
    right. destruct (order_neighbours smi casted _ _ _) as [tokens' visited'] eqn:Eo.
    exists casted, heap, tokens', visited'. split; [first [exact En | reflexivity]|]. split; [first [exact Eo | reflexivity]|].
    destruct (emit _ _ _ _ _ _ _) as [[[out ord] vb]|e2]; [discriminate | inversion H; reflexivity].
  Qed.

  (* the loop over the components ends within its fuel; an error is the error of one component *)
  Lemma components_total : forall fuel st, RI g st -> ws_atoms st <> [] -> (List.length (ws_atoms st) < fuel)%nat ->
    (exists st', components g w tb o tabs fuel (ids g) st = Ok st') \/
    (exists e st1, components g w tb o tabs fuel (ids g) st = Err e /\ RI g st1 /\ ws_atoms st1 <> [] /\ component_error st1 e).
  Proof.
    induction fuel as [|fuel IH]; intros st R Hne Hl; [lia|]. cbn [components].
    destruct (component g w tb o tabs (ids g) st) as [st1|e] eqn:Ec.
    - destruct (component_run g w tb o tabs Hwf st st1 R Ec) as [R1 [t [smi [_ [_ [CW [_ Hp]]]]]]].
      destruct (ws_atoms st1) as [|a r] eqn:Ea; [left; exists st1; reflexivity|]. rewrite <- Ea in *.
      apply IH; [exact R1 | rewrite Ea; discriminate|].
      pose proof (Permutation_length Hp) as Hlen. rewrite app_length in Hlen.
      assert (Hv : (0 < List.length (atoms_of smi))%nat) by (pose proof (cw_start _ _ _ _ CW) as Hs; destruct (atoms_of smi); [destruct Hs | cbn; lia]).
      lia.
    - right. exists e, st. split; [reflexivity|]. split; [exact R|]. split; [exact Hne | apply (component_err st e R Hne Ec)].
  Qed.

  Theorem writer_total :
    (exists r, smiles_tokens g w tb o tabs = Ok r) \/
    (exists e st, smiles_tokens g w tb o tabs = Err e /\ RI g st /\ ws_atoms st <> [] /\ component_error st e).
  Proof.
    unfold smiles_tokens. destruct (ids g) as [|a r] eqn:Ei; [left; eexists; reflexivity|]. rewrite <- Ei.
    assert (R0 : RI g (init_state g)).
    { destruct (wf_mol_ids g Hwf) as [A B]. constructor; cbn [ws_atoms ws_order init_state]; [exact A | exact B | rewrite app_nil_r; apply Permutation_refl]. }
    destruct (components_total (S (n_atoms g)) (init_state g) R0) as [[st' H] | [e [st1 [H [R1 [N1 C1]]]]]].
    - cbn [ws_atoms init_state]. rewrite Ei. discriminate.
    - cbn [ws_atoms init_state]. unfold n_atoms. lia.
    - left. rewrite H. eexists. reflexivity.
    - right. exists e, st1. rewrite H. split; [reflexivity|]. split; [exact R1|]. split; [exact N1 | exact C1].
  Qed.
End Total.
