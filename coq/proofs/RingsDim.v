(* C06 -- extension round: the dimension theorem of the GF(2) cycle space of the model graphs.
   Every linearly independent family of even edge functions (in particular of simple cycles) of a well-formed graph has at most
   bonds - atoms + components members.  Proof by induction on the number of bonds, deleting one bond at a time:
   a bond whose ends stay connected lowers the cyclomatic number by one and costs at most one dimension; a bond whose
   ends fall apart (a bridge) lies in no even edge set (cut argument) and leaves the cyclomatic number unchanged. *)
From Coq Require Import ZArith List Bool Lia Permutation Sorted.
From Model Require Import PyBase Graph Rings.
From Proofs Require Import RingsProofs RingsMcb RingsRank RingsExt.
Import ListNotations.
Open Scope Z_scope.


Section DelEdge.
Variable g : graph.
Variables a b : Z.
Hypothesis W : gwf g.
Hypothesis Hab : In b (gnbrs g a).

Let g' := del_edge g a b.

Lemma de_ne : a <> b.
Proof. apply (proj1 (gwf_gnbrs g)) in W. destruct W as [_ Wg]. destruct (Wg a (adjacent_key g a b Hab)) as [_ H]. destruct (H b Hab) as [Ne _]. congruence. Qed.

Lemma de_ba : In a (gnbrs g b).
Proof. apply (gwf_sym g a b W Hab). Qed.

Lemma de_keys : keys g' = keys g.
Proof. unfold g', del_edge. rewrite !keys_discard_in. reflexivity. Qed.

Lemma de_gnbrs v : gnbrs g' v = if v =? a then discard b (gnbrs g v) else if v =? b then discard a (gnbrs g v) else gnbrs g v.
Proof.
  pose proof W as [N _]. pose proof de_ne as Ne. unfold g', del_edge.
  rewrite gnbrs_discard_in_eq by (rewrite keys_discard_in; exact N). rewrite gnbrs_discard_in_eq by exact N.
  destruct (Z.eqb_spec v b) as [Eb|Nb]; destruct (Z.eqb_spec v a) as [Ea|Na]; try reflexivity. subst. congruence.
Qed.

Lemma de_In v x : In x (gnbrs g' v) <-> In x (gnbrs g v) /\ ~ (v = a /\ x = b) /\ ~ (v = b /\ x = a).
Proof.
  pose proof de_ne as Ne. rewrite de_gnbrs. destruct (Z.eqb_spec v a) as [Ea|Na]; [|destruct (Z.eqb_spec v b) as [Eb|Nb]].
  - subst v. rewrite In_discard. split; [intros [H1 H2]; repeat split; [exact H1 | tauto | intros [E _]; congruence] | intros [H1 [H2 _]]; split; [exact H1 | intros E; apply H2; tauto]].
  - subst v. rewrite In_discard. split; [intros [H1 H2]; repeat split; [exact H1 | intros [E _]; congruence | tauto] | intros [H1 [_ H2]]; split; [exact H1 | intros E; apply H2; tauto]].
  - split; [intros H; repeat split; [exact H | tauto | tauto] | tauto].
Qed.

Lemma de_wf : gwf g'.
Proof.
  apply gwf_gnbrs. rewrite de_keys. pose proof (proj1 (gwf_gnbrs g) W) as [N Wg]. split; [exact N|].
  intros v Kv. destruct (Wg v Kv) as [Nd H]. split.
  - rewrite de_gnbrs. destruct (v =? a); [apply NoDup_filter; exact Nd | destruct (v =? b); [apply NoDup_filter; exact Nd | exact Nd]].
  - intros m Hm. apply de_In in Hm. destruct Hm as [Hm [X1 X2]]. destruct (H m Hm) as [A1 [A2 A3]]. split; [exact A1|]. split; [exact A2|].
    apply de_In. split; [exact A3|]. split; [intros [E1 E2]; apply X2; split; congruence | intros [E1 E2]; apply X1; split; congruence].
Qed.

Lemma de_length : length g' = length g.
Proof. unfold g', del_edge, discard_in. rewrite !map_length. reflexivity. Qed.

Lemma de_reach_bwd u v : reach g' u v -> reach g u v.
Proof. intros R. induction R as [|u x y R IH Hy]; [constructor|]. apply (reach_step g u x y IH). apply de_In in Hy. tauto. Qed.

(* if the ends stay connected, nothing changes for reachability *)
Lemma de_reach_fwd u v : reach g' a b -> reach g u v -> reach g' u v.
Proof.
  intros C R. induction R as [|u x y R IH Hy]; [constructor|].
  destruct (Z.eq_dec x a) as [Ea|Na]; [destruct (Z.eq_dec y b) as [Eb|Nb]|].
  - subst x y. apply (reach_trans g' u a b IH C).
  - apply (reach_step g' u x y IH). apply de_In. split; [exact Hy|]. split; [tauto | intros [E1 E2]; pose proof de_ne; congruence].
  - destruct (Z.eq_dec x b) as [Eb|Nb]; [destruct (Z.eq_dec y a) as [Ea|Na']|].
    + subst x y. apply (reach_trans g' u b a IH). apply (reach_sym g' a b de_wf C).
    + apply (reach_step g' u x y IH). apply de_In. split; [exact Hy|]. split; [tauto | tauto].
    + apply (reach_step g' u x y IH). apply de_In. split; [exact Hy|]. tauto.
Qed.

(* in general: what was reachable is reachable from the same end, or from the other end of the deleted bond *)
Lemma de_reach_split v : reach g a v -> reach g' a v \/ reach g' b v.
Proof.
  intros R. remember a as u eqn:Eu in R at 1. induction R as [u|u x y R IH Hy]; [left; subst; constructor|]. specialize (IH Eu).
  destruct (Z.eq_dec x a) as [Ea|Na]; [destruct (Z.eq_dec y b) as [Eb|Nb]|].
  - subst y. right. constructor.
  - assert (S : In y (gnbrs g' x)) by (apply de_In; split; [exact Hy|]; split; [tauto | intros [E1 E2]; pose proof de_ne; congruence]).
    destruct IH as [IH|IH]; [left | right]; apply (reach_step g' _ x y IH S).
  - destruct (Z.eq_dec x b) as [Eb|Nb]; [destruct (Z.eq_dec y a) as [Ea|Na']|].
    + subst y. left. constructor.
    + assert (S : In y (gnbrs g' x)) by (apply de_In; split; [exact Hy|]; tauto).
      destruct IH as [IH|IH]; [left | right]; apply (reach_step g' _ x y IH S).
    + assert (S : In y (gnbrs g' x)) by (apply de_In; split; [exact Hy|]; tauto).
      destruct IH as [IH|IH]; [left | right]; apply (reach_step g' _ x y IH S).
Qed.

End DelEdge.

(* ---------- the number of components after deleting a bond ---------- *)
Lemma NoDup_app_mid_replace {A} (a c c' d : list A) : NoDup (a ++ c ++ d) -> NoDup c' -> (forall x, In x c' -> In x c) -> NoDup (a ++ c' ++ d).
Proof.
  intros N Nc' Sub. destruct (NoDup_app_inv _ _ N) as [Na [Ncd Dis]]. destruct (NoDup_app_inv _ _ Ncd) as [Nc [Nd Dis2]].
  apply NoDup_app_disjoint; [exact Na | |].
  - apply NoDup_app_disjoint; [exact Nc' | exact Nd|]. intros x Hx. apply Dis2. apply Sub. exact Hx.
  - intros x Hx Hy. apply (Dis x Hx). apply in_app_or in Hy. apply in_or_app. destruct Hy as [Hy|Hy]; [left; apply Sub; exact Hy | right; exact Hy].
Qed.

Lemma NoDup_filter_split {A} (f : A -> bool) (l : list A) : NoDup l -> NoDup (filter f l ++ filter (fun x => negb (f x)) l).
Proof.
  intros N. apply NoDup_app_disjoint; [apply NoDup_filter; exact N | apply NoDup_filter; exact N|].
  intros x H1 H2. apply filter_In in H1. apply filter_In in H2. destruct H1 as [_ H1]. destruct H2 as [_ H2]. rewrite H1 in H2. discriminate.
Qed.

Section DelEdgeComponents.
Variable g : graph.
Variables a b : Z.
Hypothesis W : gwf g.
Hypothesis Hab : In b (gnbrs g a).

Let g' := del_edge g a b.
Let W' : gwf g' := de_wf g a b W Hab.

Lemma de_comps_connected : reach g' a b -> length (comps g') = length (comps g).
Proof.
  intros C. symmetry. apply (partition_count g' (comps g) W'). destruct (comps_partition g W) as [Cov [N Cl]].
  split; [|split; [exact N|]].
  - intros v Kv. apply Cov. unfold g' in Kv. rewrite (de_keys g a b) in Kv. exact Kv.
  - intros c Hc. destruct (Cl c Hc) as [Ne Cu]. split; [exact Ne|]. intros u Hu. destruct (Cu u Hu) as [Ku Cv].
    split; [unfold g'; rewrite (de_keys g a b); exact Ku|]. intros v. rewrite Cv. split; [apply (de_reach_fwd g a b W Hab u v C) | apply (de_reach_bwd g a b W Hab u v)].
Qed.

Lemma de_reach_or u v : reach g u v -> reach g' u v \/ reach g u a.
Proof.
  intros R. induction R as [u|u x y R IH Hy]; [left; constructor|]. destruct IH as [IH|IH]; [|right; exact IH].
  destruct (Z.eq_dec x a) as [Ea|Na]; [right; subst x; exact R|].
  destruct (Z.eq_dec x b) as [Eb|Nb]; [right; subst x; apply (reach_step g u b a R (de_ba g a b W Hab))|].
  left. apply (reach_step g' u x y IH). apply (de_In g a b W Hab). tauto.
Qed.

Lemma de_comps_bridge : ~ reach g' a b -> length (comps g') = S (length (comps g)).
Proof.
  intros NC. pose proof (comps_partition g W) as P. destruct P as [Cov [N Cl]].
  assert (Ka : In a (keys g)) by (apply (adjacent_key g a b Hab)).
  assert (Ka' : In a (keys g')) by (unfold g'; rewrite (de_keys g a b); exact Ka).
  destruct (Cov a Ka) as [c [Hc Ha]]. destruct (in_split c _ Hc) as [l1 [l2 E]].
  destruct (component_of_spec g' W' a Ka') as [_ Sa].
  set (ina := fun v => zmem v (component_of g' a)).
  assert (Ina : forall v, ina v = true <-> reach g' a v) by (intros v; unfold ina; rewrite zmem_In; apply Sa).
  set (ca := filter ina c). set (cb := filter (fun v => negb (ina v)) c).
  destruct (Cl c Hc) as [_ Cc]. destruct (Cc a Ha) as [_ Ca].
  destruct (partition_members (comps g) N (fun x Hx => proj1 (Cl x Hx))) as [Nd Same].
  assert (Hb : In b c) by (apply Ca; apply (reach_step g a a b (reach_refl g a) Hab)).
  assert (P' : is_partition g' (l1 ++ ca :: cb :: l2)).
  { split; [|split].
    - intros v Kv. unfold g' in Kv. rewrite (de_keys g a b) in Kv. destruct (Cov v Kv) as [c0 [H0 Hv]]. rewrite E in H0.
      apply in_app_or in H0. destruct H0 as [H0|[H0|H0]].
      + exists c0. split; [apply in_or_app; left; exact H0 | exact Hv].
      + subst c0. destruct (ina v) eqn:Iv.
        * exists ca. split; [apply in_or_app; right; left; reflexivity | apply filter_In; tauto].
        * exists cb. split; [apply in_or_app; right; right; left; reflexivity | apply filter_In; rewrite Iv; tauto].
      + exists c0. split; [apply in_or_app; right; right; right; exact H0 | exact Hv].
    - rewrite E in N. rewrite concat_app in N |- *. cbn [concat] in N |- *. rewrite (app_assoc ca cb).
      assert (Nc : NoDup c) by (destruct (NoDup_app_inv _ _ N) as [_ [X _]]; destruct (NoDup_app_inv _ _ X) as [Y _]; exact Y).
      apply (NoDup_app_mid_replace _ c); [exact N | apply NoDup_filter_split; exact Nc|].
      intros x Hx. apply in_app_or in Hx. destruct Hx as [Hx|Hx]; apply filter_In in Hx; tauto.
    - assert (Other : forall c0, In c0 (l1 ++ l2) -> c0 <> [] /\ forall u, In u c0 -> In u (keys g') /\ forall v, In v c0 <-> reach g' u v).
      { intros c0 H0. assert (H0' : In c0 (comps g)) by (rewrite E; apply in_app_or in H0; apply in_or_app; cbn; tauto).
        destruct (Cl c0 H0') as [Ne Cu]. split; [exact Ne|]. intros u Hu. destruct (Cu u Hu) as [Ku Cv].
        split; [unfold g'; rewrite (de_keys g a b); exact Ku|]. intros v. rewrite Cv. split; [|apply (de_reach_bwd g a b W Hab u v)].
        intros R. destruct (de_reach_or u v R) as [R'|Ra]; [exact R'|]. exfalso.
        assert (Ha0 : In a c0) by (apply Cv; exact Ra). assert (Ec : c0 = c) by (apply (Same c0 c a H0' Hc Ha0 Ha)). subst c0.
        rewrite E in Nd. apply NoDup_remove_2 in Nd. contradiction. }
      intros c0 H0. apply in_app_or in H0. destruct H0 as [H0|[H0|[H0|H0]]].
      + apply Other. apply in_or_app. left. exact H0.
      + subst c0. assert (Haa : In a ca) by (apply filter_In; split; [exact Ha | apply Ina; constructor]).
        split; [intros E0; rewrite E0 in Haa; destruct Haa|]. intros u Hu. apply filter_In in Hu. destruct Hu as [Hu Iu]. apply Ina in Iu.
        split; [apply (reach_key g' a u W' Ka' Iu)|]. intros v. split.
        * intros Hv. apply filter_In in Hv. destruct Hv as [_ Iv]. apply Ina in Iv. apply (reach_trans g' u a v); [apply reach_sym; assumption | exact Iv].
        * intros R. assert (Rv : reach g' a v) by (apply (reach_trans g' a u v); assumption). apply filter_In. split; [|apply Ina; exact Rv].
          apply Ca. apply (de_reach_bwd g a b W Hab a v Rv).
      + subst c0. assert (Nb : ina b = false) by (destruct (ina b) eqn:X; [apply Ina in X; contradiction | reflexivity]).
        assert (Hbb : In b cb) by (apply filter_In; split; [exact Hb | rewrite Nb; reflexivity]).
        assert (Kb' : In b (keys g')) by (apply (reach_key g' b b W'); [unfold g'; rewrite (de_keys g a b); apply (gwf_closed g a b W Hab) | constructor]).
        assert (FromB : forall u, In u cb -> reach g' b u).
        { intros u Hu. apply filter_In in Hu. destruct Hu as [Hu Iu]. apply negb_true_iff in Iu.
          destruct (de_reach_split g a b W Hab u (proj1 (Ca u) Hu)) as [R|R]; [apply Ina in R; congruence | exact R]. }
        split; [intros E0; rewrite E0 in Hbb; destruct Hbb|]. intros u Hu. pose proof (FromB u Hu) as Ru.
        split; [apply (reach_key g' b u W' Kb' Ru)|]. intros v. split.
        * intros Hv. apply (reach_trans g' u b v); [apply reach_sym; assumption | apply FromB; exact Hv].
        * intros R. assert (Rv : reach g' b v) by (apply (reach_trans g' b u v); assumption). apply filter_In. split.
          -- apply Ca. apply (reach_trans g a b v); [apply (reach_step g a a b (reach_refl g a) Hab) | apply (de_reach_bwd g a b W Hab b v Rv)].
          -- apply negb_true_iff. destruct (ina v) eqn:X; [|reflexivity]. exfalso. apply Ina in X. apply NC.
             apply (reach_trans g' a v b X). apply reach_sym; assumption.
      + apply Other. apply in_or_app. right. exact H0. }
  rewrite <- (partition_count g' _ W' P'). rewrite E, !app_length. cbn [length]. lia.
Qed.

End DelEdgeComponents.

(* ---------- bonds after deleting a bond ---------- *)
Lemma norm_edge_sym x y : x <> y -> norm_edge (x, y) = norm_edge (y, x).
Proof. intros H. unfold norm_edge. cbn [fst snd]. destruct (Z.ltb_spec x y), (Z.ltb_spec y x); try reflexivity; lia. Qed.

Lemma de_edges_mem g a b p : gwf g -> In b (gnbrs g a) ->
  (In p (edges (del_edge g a b)) <-> In p (edges g) /\ p <> norm_edge (a, b)).
Proof.
  intros W Hab. pose proof (de_wf g a b W Hab) as W'. pose proof W as [N _]. pose proof W' as [N' _]. pose proof (de_ne g a b W Hab) as Ne.
  destruct p as [x y]. rewrite (In_edges_gnbrs _ x y N'), (In_edges_gnbrs g x y N), (de_keys g a b), (de_In g a b W Hab).
  unfold norm_edge. cbn [fst snd]. destruct (Z.ltb_spec a b) as [L|L].
  - split; [intros [K [[H [X1 X2]] Lt]]; split; [tauto|]; intros E; inversion E; subst; tauto
           | intros [[K [H Lt]] X]; repeat split; try assumption; [intros [E1 E2]; subst; apply X; reflexivity | intros [E1 E2]; subst; lia]].
  - split; [intros [K [[H [X1 X2]] Lt]]; split; [tauto|]; intros E; inversion E; subst; tauto
           | intros [[K [H Lt]] X]; repeat split; try assumption; [intros [E1 E2]; subst; lia | intros [E1 E2]; subst; apply X; reflexivity]].
Qed.

Lemma de_edge_in g a b : gwf g -> In b (gnbrs g a) -> In (norm_edge (a, b)) (edges g).
Proof.
  intros W Hab. pose proof W as [N _]. pose proof (de_ne g a b W Hab) as Ne. unfold norm_edge. cbn [fst snd]. destruct (Z.ltb_spec a b) as [L|L].
  - apply (In_edges_gnbrs g a b N). split; [apply (adjacent_key g a b Hab)|]. tauto.
  - apply (In_edges_gnbrs g b a N). split; [apply (gwf_closed g a b W Hab)|]. split; [apply (gwf_sym g a b W Hab) | lia].
Qed.

Lemma de_edges_length g a b : gwf g -> In b (gnbrs g a) -> length (edges g) = S (length (edges (del_edge g a b))).
Proof.
  intros W Hab. pose proof (de_wf g a b W Hab) as W'.
  assert (P : Permutation (edges g) (norm_edge (a, b) :: edges (del_edge g a b))).
  { apply NoDup_Permutation; [apply NoDup_edges; exact W | |].
    - constructor; [|apply NoDup_edges; exact W']. intros H. apply (de_edges_mem g a b _ W Hab) in H. destruct H as [_ H]. apply H. reflexivity.
    - intros p. cbn [In]. rewrite (de_edges_mem g a b p W Hab). split.
      + intros H. destruct (edge_eqb p (norm_edge (a, b))) eqn:E.
        * left. unfold edge_eqb in E. apply andb_prop in E. destruct E as [E1 E2]. apply Z.eqb_eq in E1, E2. destruct p, (norm_edge (a, b)). cbn in *. congruence.
        * right. split; [exact H|]. intros E'. subst p. unfold edge_eqb in E. rewrite !Z.eqb_refl in E. discriminate.
      + intros [H|H]; [subst p; apply de_edge_in; assumption | tauto]. }
  apply Permutation_length in P. exact P.
Qed.

(* ---------- edge functions, their sums, even ones ---------- *)
Definition efun := (Z * Z)%type -> bool.

Fixpoint fsum (sel : list bool) (fs : list efun) (e : Z * Z) : bool :=
  match sel, fs with
  | s :: sel', f :: fs' => xorb (s && f e) (fsum sel' fs' e)
  | _, _ => false
  end.

Lemma sel_parity_fsum sel : forall rs e, sel_parity sel rs e = fsum sel (map (fun r => ring_has_edge r) rs) e.
Proof. induction sel as [|s sel IH]; intros [|r rs] e; cbn; try reflexivity. rewrite IH. reflexivity. Qed.

Definition xfold (l : list bool) : bool := fold_right xorb false l.
Definition deg (g : graph) (f : efun) (v : Z) : bool := xfold (map (fun m => f (norm_edge (v, m))) (gnbrs g v)).
Definition even (g : graph) (f : efun) : Prop := forall v, In v (keys g) -> deg g f v = false.
(* no non-empty selection of the family sums to the empty edge set *)
Definition findep (g : graph) (fs : list efun) : Prop :=
  forall sel, length sel = length fs -> existsb (fun s => s) sel = true -> exists e, In e (edges g) /\ fsum sel fs e = true.

Lemma xfold_xor {A} (h k : A -> bool) l : xfold (map (fun x => xorb (h x) (k x)) l) = xorb (xfold (map h l)) (xfold (map k l)).
Proof. induction l as [|a l IH]; [reflexivity|]. cbn. unfold xfold in IH. rewrite IH. destruct (h a), (k a), (fold_right xorb false (map h l)), (fold_right xorb false (map k l)); reflexivity. Qed.

Lemma xfold_and {A} (s : bool) (h : A -> bool) l : xfold (map (fun x => s && h x) l) = s && xfold (map h l).
Proof. induction l as [|a l IH]; [destruct s; reflexivity|]. cbn. unfold xfold in IH. rewrite IH. destruct s, (h a), (fold_right xorb false (map h l)); reflexivity. Qed.

Lemma xfold_all_false l : (forall x, In x l -> x = false) -> xfold l = false.
Proof. induction l as [|a l IH]; intros H; [reflexivity|]. cbn. rewrite (H a (or_introl eq_refl)). rewrite xorb_false_l. apply IH. intros x Hx. apply H. right. exact Hx. Qed.

Lemma xfold_discard (h : Z -> bool) n l : h n = false -> xfold (map h (discard n l)) = xfold (map h l).
Proof.
  intros Hn. induction l as [|x l IH]; [reflexivity|]. unfold discard in *. cbn [filter]. destruct (Z.eqb_spec x n) as [E|E]; cbn [negb map].
  - subst x. unfold xfold in *. cbn [fold_right]. rewrite Hn, xorb_false_l. exact IH.
  - unfold xfold in *. cbn [fold_right]. rewrite IH. reflexivity.
Qed.

Lemma xfold_app l1 l2 : xfold (l1 ++ l2) = xorb (xfold l1) (xfold l2).
Proof.
  unfold xfold. induction l1 as [|a l1 IH]; [cbn [app fold_right]; rewrite xorb_false_l; reflexivity|].
  cbn [app fold_right]. rewrite IH. rewrite xorb_assoc. reflexivity.
Qed.

Lemma xfold_perm l l' : Permutation l l' -> xfold l = xfold l'.
Proof. induction 1 as [|x l l' _ IH|x y l|l l' l'' _ IH1 _ IH2]; cbn; [reflexivity | unfold xfold in IH; rewrite IH; reflexivity | destruct x, y, (fold_right xorb false l); reflexivity | congruence]. Qed.

Lemma even_xor g f h : even g f -> even g h -> even g (fun e => xorb (f e) (h e)).
Proof. intros Ef Eh v Kv. unfold deg. rewrite (xfold_xor (fun m => f (norm_edge (v, m))) (fun m => h (norm_edge (v, m)))). fold (deg g f v). fold (deg g h v). rewrite (Ef v Kv), (Eh v Kv). reflexivity. Qed.

Lemma even_del g a b f : gwf g -> In b (gnbrs g a) -> even g f -> f (norm_edge (a, b)) = false -> even (del_edge g a b) f.
Proof.
  intros W Hab Ef F0 v Kv. rewrite (de_keys g a b) in Kv. specialize (Ef v Kv). unfold deg in *. rewrite (de_gnbrs g a b W Hab v).
  pose proof (de_ne g a b W Hab) as Ne.
  destruct (Z.eqb_spec v a) as [Ea|Na]; [|destruct (Z.eqb_spec v b) as [Eb|Nb]; [|exact Ef]].
  - subst v. rewrite xfold_discard; [exact Ef | exact F0].
  - subst v. rewrite xfold_discard; [exact Ef|]. rewrite (norm_edge_sym b a) by congruence. exact F0.
Qed.

(* ---------- double counting: a bridge lies in no even edge set ---------- *)
Definition allp (g : graph) : list (Z * Z) := flat_map (fun e => map (fun m => (fst e, m)) (snd e)) g.
Definition swap (p : Z * Z) : Z * Z := (snd p, fst p).
Definition geb (x y : Z) : bool := negb (x <? y).

Lemma xfold_allp (t : Z * Z -> bool) g :
  xfold (map t (allp g)) = xfold (map (fun e => xfold (map (fun m => t (fst e, m)) (snd e))) g).
Proof.
  unfold allp. induction g as [|e g IH]; [reflexivity|]. cbn [flat_map map]. rewrite map_app, xfold_app, IH, map_map. reflexivity.
Qed.

Lemma xfold_filter_split {A} (F : A -> bool) (p : A -> bool) l :
  xfold (map F l) = xorb (xfold (map F (filter p l))) (xfold (map F (filter (fun x => negb (p x)) l))).
Proof.
  unfold xfold. induction l as [|a l IH]; [reflexivity|]. cbn [map filter fold_right]. rewrite IH. destruct (p a); cbn [negb map fold_right].
  - rewrite xorb_assoc. reflexivity.
  - rewrite <- !xorb_assoc. f_equal. apply xorb_comm.
Qed.

Lemma xfold_allp_split (t : Z * Z -> bool) g :
  xfold (map t (allp g)) = xorb (xfold (map t (dpairs Z.ltb g))) (xfold (map t (dpairs geb g))).
Proof.
  unfold allp, dpairs. induction g as [|e g IH]; [reflexivity|]. cbn [flat_map]. rewrite !map_app, !xfold_app, IH. rewrite !map_map.
  rewrite (xfold_filter_split (fun m => t (fst e, m)) (Z.ltb (fst e)) (snd e)). unfold geb.
  set (A := xfold (map (fun x => t (fst e, x)) (filter (Z.ltb (fst e)) (snd e)))).
  set (B := xfold (map (fun x => t (fst e, x)) (filter (fun x => negb (fst e <? x)) (snd e)))).
  destruct A, B, (xfold (map t (flat_map (fun e0 => map (fun m => (fst e0, m)) (filter (Z.ltb (fst e0)) (snd e0))) g))),
    (xfold (map t (flat_map (fun e0 => map (fun m => (fst e0, m)) (filter (fun b => negb (fst e0 <? b)) (snd e0))) g))); reflexivity.
Qed.

Lemma swap_down_up g : gwf g -> Permutation (map swap (dpairs geb g)) (edges g).
Proof.
  intros W. pose proof W as [N Wm]. assert (Nm : forall k l, In (k, l) g -> NoDup l) by (intros k l H; apply (Wm k l H)).
  rewrite edges_dpairs. apply NoDup_Permutation.
  - apply FinFun.Injective_map_NoDup; [intros [x1 x2] [y1 y2] E; unfold swap in E; cbn in E; inversion E; reflexivity|]. apply NoDup_dpairs; assumption.
  - apply NoDup_dpairs; assumption.
  - intros [x y]. rewrite in_map_iff. split.
    + intros [[k m] [E H]]. unfold swap in E. cbn in E. inversion E as [[E1 E2]]; subst x y. apply In_dpairs in H. destruct H as [l [H1 [H2 H3]]].
      destruct (Wm k l H1) as [_ Hl]. destruct (Hl m H2) as [Ne [_ Sy]]. apply gnbrs_In in Sy. destruct Sy as [l' [S1 S2]].
      apply In_dpairs. exists l'. split; [exact S1|]. split; [exact S2|]. unfold geb in H3. apply negb_true_iff in H3. apply Z.ltb_lt. apply Z.ltb_ge in H3. lia.
    + intros H. apply In_dpairs in H. destruct H as [l [H1 [H2 H3]]]. exists (y, x). split; [reflexivity|].
      destruct (Wm x l H1) as [_ Hl]. destruct (Hl y H2) as [_ [_ Sy]]. apply gnbrs_In in Sy. destruct Sy as [l' [S1 S2]].
      apply In_dpairs. exists l'. split; [exact S1|]. split; [exact S2|]. unfold geb. apply negb_true_iff. apply Z.ltb_ge. apply Z.ltb_lt in H3. lia.
Qed.

Lemma xfold_single (term : Z * Z -> bool) (E : list (Z * Z)) e0 : NoDup E -> In e0 E -> (forall p, In p E -> p <> e0 -> term p = false) ->
  xfold (map term E) = term e0.
Proof.
  intros N I H. destruct (in_split e0 E I) as [l1 [l2 Eq]]. subst E. rewrite map_app, xfold_app. cbn [map]. unfold xfold at 2. cbn [fold_right]. fold (xfold (map term l2)).
  assert (Z1 : xfold (map term l1) = false).
  { apply xfold_all_false. intros x Hx. apply in_map_iff in Hx. destruct Hx as [p [Ep Hp]]. subst x. apply H; [apply in_or_app; left; exact Hp|].
    intros Ee. subst p. apply NoDup_remove_2 in N. apply N. apply in_or_app. left. exact Hp. }
  assert (Z2 : xfold (map term l2) = false).
  { apply xfold_all_false. intros x Hx. apply in_map_iff in Hx. destruct Hx as [p [Ep Hp]]. subst x. apply H; [apply in_or_app; right; right; exact Hp|].
    intros Ee. subst p. apply NoDup_remove_2 in N. apply N. apply in_or_app. right. exact Hp. }
  rewrite Z1, Z2, xorb_false_l, xorb_false_r. reflexivity.
Qed.

Theorem bridge_not_in_even g a b f : gwf g -> In b (gnbrs g a) -> even g f -> ~ reach (del_edge g a b) a b -> f (norm_edge (a, b)) = false.
Proof.
  intros W Hab Ef NC. pose proof (de_wf g a b W Hab) as W'. pose proof W as [N Wm]. set (g' := del_edge g a b) in *.
  assert (Ka' : In a (keys g')) by (unfold g'; rewrite (de_keys g a b); apply (adjacent_key g a b Hab)).
  destruct (component_of_spec g' W' a Ka') as [_ Sa].
  set (s := fun v => zmem v (component_of g' a)).
  assert (Is : forall v, s v = true <-> reach g' a v) by (intros v; unfold s; rewrite zmem_In; apply Sa).
  set (t := fun p : Z * Z => s (fst p) && f (norm_edge p)).
  (* summing the degrees of the atoms on a's side *)
  assert (Zero : xfold (map t (allp g)) = false).
  { rewrite xfold_allp. apply xfold_all_false. intros x Hx. apply in_map_iff in Hx. destruct Hx as [[k l] [Ex Hk]]. subst x. cbn [fst snd].
    unfold t. cbn [fst]. rewrite (xfold_and (s k) (fun m => f (norm_edge (k, m)))). rewrite <- (gnbrs_entry g k l N Hk).
    fold (deg g f k). rewrite (Ef k (entry_In_keys g k l Hk)). apply andb_false_r. }
  rewrite xfold_allp_split in Zero.
  assert (Down : xfold (map t (dpairs geb g)) = xfold (map (fun p => t (swap p)) (edges g))).
  { rewrite <- (xfold_perm _ _ (Permutation_map (fun p => t (swap p)) (swap_down_up g W))). rewrite map_map. f_equal. apply map_ext.
    intros [x y]. reflexivity. }
  rewrite Down, <- edges_dpairs in Zero. rewrite <- (xfold_xor t (fun p => t (swap p))) in Zero.
  set (e0 := norm_edge (a, b)) in *.
  rewrite (xfold_single (fun p => xorb (t p) (t (swap p))) (edges g) e0 (NoDup_edges g W) (de_edge_in g a b W Hab)) in Zero.
  - (* the term of the deleted bond is f e0 *)
    assert (Sa1 : s a = true) by (apply Is; constructor).
    assert (Sb0 : s b = false) by (destruct (s b) eqn:X; [apply Is in X; contradiction | reflexivity]).
    pose proof (de_ne g a b W Hab) as Ne. unfold t, swap, e0, norm_edge in Zero |- *. cbn [fst snd] in Zero |- *.
    destruct (Z.ltb_spec a b) as [L|L]; cbn [fst snd] in Zero |- *.
    + replace (a <? b) with true in Zero by (symmetry; apply Z.ltb_lt; exact L). replace (b <? a) with false in Zero by (symmetry; apply Z.ltb_ge; lia).
      cbn [fst snd] in Zero. rewrite Sa1, Sb0 in Zero. destruct (f (a, b)); [discriminate | reflexivity].
    + replace (b <? a) with true in Zero by (symmetry; apply Z.ltb_lt; lia). replace (a <? b) with false in Zero by (symmetry; apply Z.ltb_ge; lia).
      cbn [fst snd] in Zero. rewrite Sa1, Sb0 in Zero. destruct (f (b, a)); [discriminate | reflexivity].
  - (* every other bond has both ends on the same side *)
    intros [x y] Hp Np. assert (Hp' : In (x, y) (edges g')) by (apply (de_edges_mem g a b _ W Hab); split; assumption).
    pose proof W' as [N' _]. apply (In_edges_gnbrs g' x y N') in Hp'. destruct Hp' as [Kx [Hy Lt]].
    assert (Sxy : s x = s y).
    { apply bool_eq_iff. rewrite !Is. split; intros R; [apply (reach_step g' a x y R Hy) | apply (reach_step g' a y x R (gwf_sym g' x y W' Hy))]. }
    unfold t, swap, norm_edge. cbn [fst snd]. replace (x <? y) with true by (symmetry; apply Z.ltb_lt; exact Lt).
    replace (y <? x) with false by (symmetry; apply Z.ltb_ge; lia). cbn [fst snd]. rewrite Sxy. destruct (s y), (f (x, y)); reflexivity.
Qed.

(* ---------- sums of edge functions ---------- *)
Lemma fsum_app s1 : forall l1 s2 l2 x, length s1 = length l1 -> fsum (s1 ++ s2) (l1 ++ l2) x = xorb (fsum s1 l1 x) (fsum s2 l2 x).
Proof.
  induction s1 as [|s s1 IH]; intros [|f l1] s2 l2 x L; try discriminate; [cbn [app fsum]; destruct (fsum s2 l2 x); reflexivity|].
  cbn [app fsum]. rewrite IH by (cbn in L; lia). rewrite xorb_assoc. reflexivity.
Qed.

Lemma fsum_all_false sel : forall fs x, (forall f, In f fs -> f x = false) -> fsum sel fs x = false.
Proof.
  induction sel as [|s sel IH]; intros [|f fs] x H; try reflexivity. cbn [fsum]. rewrite (H f (or_introl eq_refl)), andb_false_r, xorb_false_l.
  apply IH. intros h Hh. apply H. right. exact Hh.
Qed.

(* f + f(e0) f0 : clears the coordinate e0 when f0 e0 = true *)
Definition clear_at (e0 : Z * Z) (f0 f : efun) : efun := fun e => xorb (f e) (f e0 && f0 e).

Lemma fsum_clear e0 f0 sel : forall fs x, fsum sel (map (clear_at e0 f0) fs) x = xorb (fsum sel fs x) (fsum sel fs e0 && f0 x).
Proof.
  induction sel as [|s sel IH]; intros [|f fs] x; try reflexivity. cbn [map fsum]. rewrite IH. unfold clear_at.
  destruct s, (f x), (f e0), (f0 x), (fsum sel fs x), (fsum sel fs e0); reflexivity.
Qed.

Lemma findep_drop g a b fs : gwf g -> In b (gnbrs g a) -> (forall f, In f fs -> f (norm_edge (a, b)) = false) ->
  findep g fs -> findep (del_edge g a b) fs.
Proof.
  intros W Hab Z Fi sel L Ex. destruct (Fi sel L Ex) as [e [He Se]]. exists e. split; [|exact Se].
  apply (de_edges_mem g a b e W Hab). split; [exact He|]. intros E. subst e. rewrite (fsum_all_false sel fs _ Z) in Se. discriminate.
Qed.

Lemma findep_reduce g a b l1 f0 l2 : gwf g -> In b (gnbrs g a) -> f0 (norm_edge (a, b)) = true ->
  findep g (l1 ++ f0 :: l2) -> findep (del_edge g a b) (map (clear_at (norm_edge (a, b)) f0) (l1 ++ l2)).
Proof.
  intros W Hab F0 Fi sel' L Ex. set (e0 := norm_edge (a, b)). rewrite map_length in L.
  set (s1 := firstn (length l1) sel'). set (s2 := skipn (length l1) sel').
  assert (Es : sel' = s1 ++ s2) by (symmetry; apply firstn_skipn).
  assert (L1 : length s1 = length l1) by (unfold s1; rewrite firstn_length; rewrite app_length in L; lia).
  set (t := fsum sel' (l1 ++ l2) e0).
  assert (Eq : forall x, fsum (s1 ++ t :: s2) (l1 ++ f0 :: l2) x = fsum sel' (map (clear_at e0 f0) (l1 ++ l2)) x).
  { intros x. rewrite fsum_clear. fold t. rewrite Es at 1. rewrite !fsum_app by exact L1. cbn [fsum].
    destruct (fsum s1 l1 x), (t && f0 x), (fsum s2 l2 x); reflexivity. }
  destruct (Fi (s1 ++ t :: s2)) as [e [He Se]].
  - rewrite !app_length. cbn [length]. rewrite Es, !app_length in L. lia.
  - rewrite Es, existsb_app in Ex. rewrite existsb_app. cbn [existsb]. destruct (existsb (fun s => s) s1), (existsb (fun s => s) s2), t; cbn in *; congruence.
  - exists e. rewrite <- Eq. split; [|exact Se]. apply (de_edges_mem g a b e W Hab). split; [exact He|]. intros E. subst e.
    rewrite Eq, fsum_clear in Se. fold t in Se. unfold e0 in Se. rewrite F0, andb_true_r, xorb_nilpotent in Se. discriminate.
Qed.

Lemma even_clear g e0 f0 f : even g f0 -> even g f -> even g (clear_at e0 f0 f).
Proof.
  intros E0 Ef. unfold clear_at. destruct (f e0).
  - apply (even_xor g f (fun e => true && f0 e) Ef). intros v Kv. apply (E0 v Kv).
  - intros v Kv.
    assert (X : deg g (fun e => xorb (f e) (false && f0 e)) v = deg g f v)
      by (unfold deg; f_equal; apply map_ext; intros m; cbn beta; destruct (f (norm_edge (v, m))); reflexivity).
    rewrite X. apply Ef. exact Kv.
Qed.

(* ---------- a graph without bonds ---------- *)
Lemma edgeless_cyclomatic g : gwf g -> edges g = [] -> 0 <= cyclomatic g.
Proof.
  intros W E. unfold cyclomatic. rewrite E. cbn [length]. fold (comps g). destruct (comps_partition g W) as [Cov [N Cl]]. pose proof W as [Nk _].
  assert (Iso : forall u, gnbrs g u = []).
  { intros u. destruct (gnbrs g u) as [|m l] eqn:G; [reflexivity|]. exfalso.
    assert (H : In m (gnbrs g u)) by (rewrite G; left; reflexivity). pose proof (de_edge_in g u m W H) as X. rewrite E in X. destruct X. }
  assert (One : forall c, In c (comps g) -> length c = 1%nat).
  { intros c Hc. destruct (Cl c Hc) as [Ne Cu]. destruct c as [|u [|v c']]; [congruence | reflexivity|]. exfalso.
    destruct (Cu u (or_introl eq_refl)) as [_ Cv]. assert (R : reach g u v) by (apply Cv; right; left; reflexivity).
    apply (reach_isolated g u v (Iso u)) in R. subst v.
    assert (Nc : NoDup (u :: u :: c')).
    { clear - N Hc. induction (comps g) as [|c0 cs IH]; [destruct Hc|]. cbn [concat] in N. destruct (NoDup_app_inv _ _ N) as [N0 [N1 _]].
      destruct Hc as [Hc|Hc]; [subst; exact N0 | apply IH; assumption]. }
    inversion Nc as [|? ? X _]. apply X. left. reflexivity. }
  assert (Lc : length (concat (comps g)) = length (comps g)).
  { clear - One. induction (comps g) as [|c cs IH]; [reflexivity|]. cbn [concat]. rewrite app_length, (One c (or_introl eq_refl)), IH; [reflexivity|].
    intros c0 H0. apply One. right. exact H0. }
  assert (Le : (length (keys g) <= length (concat (comps g)))%nat).
  { apply NoDup_incl_length; [exact Nk|]. intros v Kv. destruct (Cov v Kv) as [c [Hc Hv]]. apply in_concat. exists c. tauto. }
  unfold keys in Le. rewrite map_length in Le. lia.
Qed.

(* ---------- the dimension theorem ---------- *)
Theorem dim_bound_strong n : forall g, length (edges g) = n -> gwf g ->
  0 <= cyclomatic g /\ forall fs, Forall (even g) fs -> findep g fs -> Z.of_nat (length fs) <= cyclomatic g.
Proof.
  induction n as [|n IH]; intros g Ln W.
  - assert (E : edges g = []) by (destruct (edges g); [reflexivity | discriminate]).
    pose proof (edgeless_cyclomatic g W E) as P. split; [exact P|]. intros fs _ Fi. destruct fs as [|f fs]; [cbn; exact P|]. exfalso.
    destruct (Fi (true :: repeat false (length fs))) as [e [He _]]; [cbn; rewrite repeat_length; reflexivity | reflexivity|]. rewrite E in He. destruct He.
  - destruct (edges g) as [|[a b] rest] eqn:E; [discriminate|].
    assert (He : In (a, b) (edges g)) by (rewrite E; left; reflexivity). pose proof W as [Nk _].
    apply (In_edges_gnbrs g a b Nk) in He. destruct He as [Ka [Hab Lt]].
    set (g' := del_edge g a b). pose proof (de_wf g a b W Hab) as W'.
    assert (Ln' : length (edges g') = n) by (pose proof (de_edges_length g a b W Hab) as X; rewrite E in X; cbn [length] in X, Ln; unfold g'; lia).
    destruct (IH g' Ln' W') as [P' B'].
    assert (Ne0 : norm_edge (a, b) = (a, b)) by (unfold norm_edge; cbn [fst snd]; replace (a <? b) with true by (symmetry; apply Z.ltb_lt; exact Lt); reflexivity).
    assert (Ka' : In a (keys g')) by (unfold g'; rewrite (de_keys g a b); exact Ka).
    destruct (component_of_spec g' W' a Ka') as [_ Sa].
    assert (Cy : cyclomatic g = cyclomatic g' + (if zmem b (component_of g' a) then 1 else 0)).
    { pose proof (de_edges_length g a b W Hab) as EL. pose proof (de_length g a b) as VL. fold g' in EL, VL.
      pose proof (de_comps_connected g a b W Hab) as CC. pose proof (de_comps_bridge g a b W Hab) as CB. fold g' in CC, CB.
      unfold cyclomatic. fold (comps g) (comps g'). rewrite EL, VL.
      destruct (zmem b (component_of g' a)) eqn:Zb.
      - apply zmem_In, Sa in Zb. rewrite (CC Zb). lia.
      - assert (NC : ~ reach g' a b) by (intros R; apply Sa, zmem_In in R; congruence). rewrite (CB NC). lia. }
    split; [rewrite Cy; destruct (zmem b (component_of g' a)); lia|].
    intros fs Ev Fi. rewrite Forall_forall in Ev.
    destruct (existsb (fun f : efun => f (a, b)) fs) eqn:Ex.
    + (* some member contains the bond: it is not a bridge *)
      apply existsb_exists in Ex. destruct Ex as [f0 [Hf0 F0]]. destruct (in_split f0 fs Hf0) as [l1 [l2 Efs]]. subst fs.
      assert (Conn : zmem b (component_of g' a) = true).
      { destruct (zmem b (component_of g' a)) eqn:Zb; [reflexivity|]. exfalso.
        assert (NC : ~ reach g' a b) by (intros R; apply Sa, zmem_In in R; congruence).
        pose proof (bridge_not_in_even g a b f0 W Hab (Ev f0 Hf0) NC) as X. rewrite Ne0 in X. congruence. }
      rewrite Cy, Conn. rewrite <- Ne0 in F0.
      pose proof (findep_reduce g a b l1 f0 l2 W Hab F0 Fi) as Fi'.
      assert (Ev' : Forall (even g') (map (clear_at (norm_edge (a, b)) f0) (l1 ++ l2))).
      { apply Forall_forall. intros h Hh. apply in_map_iff in Hh. destruct Hh as [f [Eh Hf]]. subst h.
        assert (Hf' : In f (l1 ++ f0 :: l2)) by (apply in_app_or in Hf; apply in_or_app; cbn; tauto).
        apply (even_del g a b _ W Hab); [apply even_clear; [apply Ev; exact Hf0 | apply Ev; exact Hf']|].
        unfold clear_at. rewrite F0, andb_true_r. apply xorb_nilpotent. }
      specialize (B' _ Ev' Fi'). rewrite map_length in B'. rewrite !app_length in B' |- *. cbn [length]. lia.
    + (* no member contains the bond *)
      assert (Zf : forall f, In f fs -> f (norm_edge (a, b)) = false).
      { intros f Hf. rewrite Ne0. destruct (f (a, b)) eqn:X; [|reflexivity]. exfalso.
        assert (T : existsb (fun f : efun => f (a, b)) fs = true) by (apply existsb_exists; exists f; tauto). congruence. }
      assert (Ev' : Forall (even g') fs) by (apply Forall_forall; intros f Hf; apply (even_del g a b f W Hab (Ev f Hf) (Zf f Hf))).
      specialize (B' fs Ev' (findep_drop g a b fs W Hab Zf Fi)). rewrite Cy. destruct (zmem b (component_of g' a)); lia.
Qed.

Theorem cyclomatic_nonneg g : gwf g -> 0 <= cyclomatic g.
Proof. intros W. apply (dim_bound_strong (length (edges g)) g eq_refl W). Qed.

Theorem dim_bound g fs : gwf g -> Forall (even g) fs -> findep g fs -> Z.of_nat (length fs) <= cyclomatic g.
Proof. intros W. apply (dim_bound_strong (length (edges g)) g eq_refl W). Qed.

(* ---------- a simple cycle is an even edge set ---------- *)
Lemma seq_pairs_nth (l : list Z) : forall x y, In (x, y) (seq_pairs l) <-> exists i, (S i < length l)%nat /\ nth i l 0 = x /\ nth (S i) l 0 = y.
Proof.
  induction l as [|a l IH]; intros x y; [split; [intros [] | intros [i [H _]]; cbn in H; lia]|].
  destruct l as [|b l']; [split; [intros [] | intros [i [H _]]; cbn in H; lia]|]. cbn [seq_pairs In]. rewrite IH. split.
  - intros [E|[i [Hi [E1 E2]]]]; [inversion E; subst; exists O; cbn; repeat split; lia | exists (S i); cbn [length nth] in *; repeat split; [lia | exact E1 | exact E2]].
  - intros [[|i] [Hi [E1 E2]]]; [left; cbn in E1, E2; congruence | right; exists i; cbn [length nth] in *; repeat split; [lia | exact E1 | exact E2]].
Qed.

Lemma ring_pairs_fun r x y y' : NoDup r -> In (x, y) (ring_pairs r) -> In (x, y') (ring_pairs r) -> y = y'.
Proof.
  intros N H1 H2. destruct r as [|h t]; [destruct H1|]. unfold ring_pairs in *. set (r := h :: t) in *.
  apply seq_pairs_nth in H1. apply seq_pairs_nth in H2. destruct H1 as [i [Hi [A1 A2]]]. destruct H2 as [j [Hj [B1 B2]]].
  rewrite app_length in Hi, Hj. cbn [length] in Hi, Hj. rewrite app_nth1 in A1, B1 by lia.
  assert (E : i = j) by (apply (proj1 (NoDup_nth r 0) N); [lia | lia | congruence]). subst j. congruence.
Qed.

Lemma ring_pairs_inj r x x' y : NoDup r -> In (x, y) (ring_pairs r) -> In (x', y) (ring_pairs r) -> x = x'.
Proof.
  intros N H1 H2. destruct r as [|h t]; [destruct H1|]. unfold ring_pairs in *. set (r := h :: t) in *.
  apply seq_pairs_nth in H1. apply seq_pairs_nth in H2. destruct H1 as [i [Hi [A1 A2]]]. destruct H2 as [j [Hj [B1 B2]]].
  rewrite app_length in Hi, Hj. cbn [length] in Hi, Hj.
  assert (Pos : forall k, (S k < length r + 1)%nat -> nth (S k) (r ++ [h]) 0 = nth (if Nat.eqb (S k) (length r) then O else S k) r 0).
  { intros k Hk. destruct (Nat.eqb_spec (S k) (length r)) as [E|E].
    - rewrite app_nth2 by lia. rewrite E, Nat.sub_diag. reflexivity.
    - rewrite app_nth1 by lia. reflexivity. }
  rewrite (Pos i Hi) in A2. rewrite (Pos j Hj) in B2.
  assert (E : (if Nat.eqb (S i) (length r) then O else S i) = (if Nat.eqb (S j) (length r) then O else S j)).
  { apply (proj1 (NoDup_nth r 0) N); [| | congruence].
    - destruct (Nat.eqb_spec (S i) (length r)); [unfold r; cbn; lia | lia].
    - destruct (Nat.eqb_spec (S j) (length r)); [unfold r; cbn; lia | lia]. }
  assert (Eij : i = j) by (destruct (Nat.eqb_spec (S i) (length r)), (Nat.eqb_spec (S j) (length r)); lia). subst j.
  rewrite app_nth1 in A1, B1 by lia. congruence.
Qed.

Lemma ring_has_edge_spec r v m : v <> m ->
  (ring_has_edge r (norm_edge (v, m)) = true <-> In (v, m) (ring_pairs r) \/ In (m, v) (ring_pairs r)).
Proof.
  intros Ne. unfold ring_has_edge. rewrite existsb_exists. split.
  - intros [[x y] [H E]]. unfold edge_eqb in E. apply andb_prop in E. destruct E as [E1 E2]. apply Z.eqb_eq in E1, E2.
    unfold norm_edge in E1, E2. cbn [fst snd] in E1, E2.
    destruct (Z.ltb_spec x y), (Z.ltb_spec v m); cbn [fst snd] in E1, E2; subst; tauto.
  - intros [H|H]; [exists (v, m) | exists (m, v)]; (split; [exact H|]); unfold edge_eqb; rewrite ?(norm_edge_sym m v) by congruence; rewrite !Z.eqb_refl; reflexivity.
Qed.

Lemma xfold_ind_out (p : Z) l : ~ In p l -> xfold (map (fun x => x =? p) l) = false.
Proof.
  intros H. apply xfold_all_false. intros x Hx. apply in_map_iff in Hx. destruct Hx as [m [E Hm]]. subst x.
  apply Z.eqb_neq. intros E. subst m. contradiction.
Qed.

Lemma xfold_ind_in (p : Z) l : NoDup l -> In p l -> xfold (map (fun x => x =? p) l) = true.
Proof.
  intros N I. destruct (in_split p l I) as [l1 [l2 E]]. subst l. pose proof (NoDup_remove_2 _ _ _ N) as Np.
  rewrite map_app, xfold_app. cbn [map]. unfold xfold at 2. cbn [fold_right]. fold (xfold (map (fun x => x =? p) l2)).
  rewrite xfold_ind_out by (intros H; apply Np; apply in_or_app; left; exact H).
  rewrite xfold_ind_out by (intros H; apply Np; apply in_or_app; right; exact H). rewrite Z.eqb_refl. reflexivity.
Qed.

Theorem cycle_even g r : gwf g -> is_cycle g r -> even g (fun e => ring_has_edge r e).
Proof.
  intros W [L [Nd A]] v Kv. unfold deg. pose proof (proj1 (gwf_gnbrs g) W) as [_ Wg]. destruct (Wg v Kv) as [Nn Hn].
  destruct (in_dec Z.eq_dec v r) as [Iv|Nv].
  - destruct (cycle_two_neighbours r v Nd L Iv) as [p [q [Npq [Hp Hq]]]].
    assert (Ip : In p (gnbrs g v)) by (apply (A p v Hp)). assert (Iq : In q (gnbrs g v)) by (apply (A v q Hq)).
    assert (Ext : forall m, In m (gnbrs g v) -> ring_has_edge r (norm_edge (v, m)) = xorb (m =? p) (m =? q)).
    { intros m Hm. destruct (Hn m Hm) as [Nm _]. apply bool_eq_iff. rewrite (ring_has_edge_spec r v m) by congruence. split.
      - intros [H|H].
        + rewrite (ring_pairs_fun r v m q Nd H Hq). rewrite Z.eqb_refl. destruct (Z.eqb_spec q p); [congruence | reflexivity].
        + rewrite (ring_pairs_inj r m p v Nd H Hp). rewrite Z.eqb_refl. destruct (Z.eqb_spec p q); [congruence | reflexivity].
      - intros H. destruct (Z.eqb_spec m p) as [E|E]; [subst; right; exact Hp|]. destruct (Z.eqb_spec m q) as [E2|E2]; [subst; left; exact Hq | discriminate]. }
    rewrite (map_ext_in _ _ _ Ext). rewrite (xfold_xor (fun m => m =? p) (fun m => m =? q)). rewrite !xfold_ind_in by assumption. reflexivity.
  - apply xfold_all_false. intros x Hx. apply in_map_iff in Hx. destruct Hx as [m [Ex Hm]]. subst x. destruct (Hn m Hm) as [Nm _].
    destruct (ring_has_edge r (norm_edge (v, m))) eqn:X; [|reflexivity]. exfalso. apply (ring_has_edge_spec r v m) in X; [|congruence].
    destruct X as [X|X]; apply In_ring_pairs_In in X; tauto.
Qed.

(* ---------- an accepted ring list SPANS the cycle space ---------- *)
Lemma ring_family_even g rs : gwf g -> Forall (is_cycle g) rs -> Forall (even g) (map (fun r => (fun e => ring_has_edge r e) : efun) rs).
Proof.
  intros W C. apply Forall_forall. intros f Hf. apply in_map_iff in Hf. destruct Hf as [r [E Hr]]. subst f. rewrite Forall_forall in C. apply cycle_even; [exact W | apply C; exact Hr].
Qed.

Lemma independent_b_findep g rs : independent_b (map (ring_vec g) rs) = true -> findep g (map (fun r => (fun e => ring_has_edge r e) : efun) rs).
Proof.
  intros H sel L Ex. rewrite map_length in L.
  destruct (independent_b_sound (map (ring_vec g) rs) (length (edges g))) with (sel := sel) as [i [Hi Ci]].
  - intros v Hv. apply in_map_iff in Hv. destruct Hv as [r [E _]]. subst v. unfold ring_vec. apply map_length.
  - exact H.
  - rewrite map_length. exact L.
  - exact Ex.
  - exists (nth i (edges g) (0, 0)). split; [apply nth_In; exact Hi|]. rewrite <- sel_parity_fsum. rewrite <- (comb_bit_ring_vec g sel rs i (0, 0) Hi). exact Ci.
Qed.

(* no independent family of simple cycles is larger than bonds - atoms + components *)
Theorem cycle_rank_bound g rs : gwf g -> Forall (is_cycle g) rs -> independent_b (map (ring_vec g) rs) = true ->
  Z.of_nat (length rs) <= cyclomatic g.
Proof.
  intros W C I. rewrite <- (map_length (fun r => (fun e => ring_has_edge r e) : efun) rs).
  apply dim_bound; [exact W | apply ring_family_even; assumption | apply independent_b_findep; exact I].
Qed.

Theorem basis_spans g rs c : is_cycle_basis g rs = true -> is_cycle g c ->
  exists sel, length sel = length rs /\ forall e, In e (edges g) -> ring_has_edge c e = sel_parity sel rs e.
Proof.
  intros H Cc. pose proof (basis_checker_sound g rs H) as [W [C [_ Cnt]]].
  assert (Ind : independent_b (map (ring_vec g) rs) = true) by (unfold is_cycle_basis in H; rewrite !andb_true_iff in H; tauto).
  destruct (independent_b (map (ring_vec g) (rs ++ [c]))) eqn:E.
  - exfalso. assert (C' : Forall (is_cycle g) (rs ++ [c])) by (apply Forall_app; split; [exact C | constructor; [exact Cc | constructor]]).
    pose proof (cycle_rank_bound g (rs ++ [c]) W C' E) as B. rewrite app_length in B. cbn [length] in B. unfold cyclomatic in B. lia.
  - destruct (independent_b_complete _ E) as [sel [L [Ex Z]]]. rewrite map_length, app_length in L. cbn [length] in L.
    assert (NE : sel <> []) by (intros X; subst; cbn in L; lia). destruct (exists_last NE) as [sel0 [t Es]]. subst sel.
    rewrite app_length in L. cbn [length] in L. assert (L0 : length sel0 = length rs) by lia.
    assert (Zi : forall i, xorb (comb_bit sel0 (map (ring_vec g) rs) i) (t && bit (ring_vec g c) i) = false).
    { intros i. specialize (Z i). rewrite map_app in Z. cbn [map] in Z. rewrite comb_bit_app in Z by (rewrite map_length; exact L0). exact Z. }
    destruct t.
    + exists sel0. split; [exact L0|]. intros e He. destruct (In_nth _ _ (0, 0) He) as [i [Hi Ei]]. specialize (Zi i). rewrite andb_true_l in Zi.
      rewrite (comb_bit_ring_vec g sel0 rs i (0, 0) Hi), Ei in Zi.
      assert (Bc : bit (ring_vec g c) i = ring_has_edge c e).
      { unfold bit, ring_vec. rewrite (nth_indep _ false (ring_has_edge c (0, 0))) by (rewrite map_length; exact Hi). rewrite map_nth, Ei. reflexivity. }
      rewrite Bc in Zi. destruct (sel_parity sel0 rs e), (ring_has_edge c e); cbn in Zi; congruence.
    + exfalso. apply (independent_b_indep _ Ind). exists sel0. rewrite map_length. split; [exact L0|]. split.
      * rewrite existsb_app in Ex. cbn in Ex. rewrite !orb_false_r in Ex. exact Ex.
      * intros i. specialize (Zi i). rewrite andb_false_l, xorb_false_r in Zi. exact Zi.
Qed.

(* non-vacuity: the envelope of the two fused six-rings is the sum of the two rings of the accepted basis *)
Example ex_spans :
  is_cycle_basis ex_graph [[1;2;3;4;5;6]; [3;4;5;6;7;8]] = true /\ is_cycle ex_graph [1;2;3;8;7;6] /\
  forallb (fun e => Bool.eqb (ring_has_edge [1;2;3;8;7;6] e) (sel_parity [true; true] [[1;2;3;4;5;6]; [3;4;5;6;7;8]] e)) (edges ex_graph) = true /\
  cyclomatic ex_graph = 2.
Proof. split; [vm_compute; reflexivity|]. split; [exact ex_cycle|]. split; vm_compute; reflexivity. Qed.
