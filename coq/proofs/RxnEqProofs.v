(* C15 -- ReactionContainer.__eq__ / __hash__: coherence, equivalence, freedom from the order of molecules within a
   role, and soundness (equal reactions have the same molecules role by role). *)
From Coq Require Import ZArith List String Ascii Bool Lia Permutation.
From Model Require Import PyBase RxnSmiles.
From Proofs Require Import RxnSmilesProofs RxnCxProofs.
Import ListNotations.
Open Scope Z_scope.

Theorem rxn_eq_hash_coherent sh a b : rxn_eq a b = true -> rxn_hash sh a = rxn_hash sh b.
Proof. unfold rxn_eq, rxn_hash. intros H. apply String.eqb_eq in H. rewrite H. reflexivity. Qed.

Theorem rxn_eq_equivalence :
  (forall a, rxn_eq a a = true) /\ (forall a b, rxn_eq a b = rxn_eq b a) /\
  (forall a b c, rxn_eq a b = true -> rxn_eq b c = true -> rxn_eq a c = true).
Proof.
  unfold rxn_eq. split; [intros a; apply String.eqb_refl|]. split; [intros a b; apply String.eqb_sym|].
  intros a b c H1 H2. apply String.eqb_eq in H1, H2. rewrite H1, H2. apply String.eqb_refl.
Qed.

(* the same molecules in another order within the roles: equal, and the same hash whatever the string hash is *)
Definition same_roles (a b : rxn) : Prop :=
  match a, b with (rs, gs, ps), (rs', gs', ps') => Permutation rs rs' /\ Permutation gs gs' /\ Permutation ps ps' end.
Definition rxn_ncomp_det (a : rxn) : Prop := match a with (rs, gs, ps) => ncomp_det rs /\ ncomp_det gs /\ ncomp_det ps end.

Theorem rxn_eq_hash_role_order_free sh a b : same_roles a b -> rxn_ncomp_det a ->
  rxn_str a = rxn_str b /\ rxn_eq a b = true /\ rxn_hash sh a = rxn_hash sh b.
Proof.
  destruct a as [[rs gs] ps], b as [[rs' gs'] ps']. intros [P1 [P2 P3]] [K1 [K2 K3]].
  assert (E : rxn_str (rs, gs, ps) = rxn_str (rs', gs', ps')).
  { cbn [rxn_str]. apply rxn_string_role_order_free; assumption. }
  split; [exact E|]. split; [unfold rxn_eq; rewrite E; apply String.eqb_refl|unfold rxn_hash; rewrite E; reflexivity].
Qed.

(* soundness of ==: equal reactions (well-formed molecule descriptions, at most one atom per character of a SMILES)
   have, role by role, the same molecule strings in canonical order, and the same radical positions *)
Definition flags_fit (m : fmol) : Prop := atoms_cover (fun x => Z.of_nat (String.length x)) m.
Definition rxn_ok (a : rxn) : Prop :=
  match a with (rs, gs, ps) =>
    Forall fmol_ok rs /\ Forall fmol_ok gs /\ Forall fmol_ok ps /\
    Forall fmol_nows rs /\ Forall fmol_nows gs /\ Forall fmol_nows ps /\
    Forall flags_fit rs /\ Forall flags_fit gs /\ Forall flags_fit ps /\ (rs ++ gs ++ ps)%list <> []
  end.
Definition canon_roles (a : rxn) : list string * list string * list string :=
  match a with (rs, gs, ps) => (map f_smi (sort_by key_leb rs), map f_smi (sort_by key_leb gs), map f_smi (sort_by key_leb ps)) end.
Definition canon_radicals (a : rxn) : list Z := match a with (rs, gs, ps) => w_radicals (rxn_write false rs gs ps) end.

Theorem rxn_eq_sound a b : rxn_ok a -> rxn_ok b -> rxn_eq a b = true ->
  canon_roles a = canon_roles b /\ canon_radicals a = canon_radicals b.
Proof.
  destruct a as [[rs gs] ps], b as [[rs' gs'] ps'].
  intros [A1 [A2 [A3 [A4 [A5 [A6 [A7 [A8 [A9 A10]]]]]]]]] [B1 [B2 [B3 [B4 [B5 [B6 [B7 [B8 [B9 B10]]]]]]]]] H.
  unfold rxn_eq in H. apply String.eqb_eq in H. cbn [rxn_str] in H.
  pose proof (rxn_roundtrip (fun x => Z.of_nat (String.length x)) true false rs gs ps A1 A2 A3 A4 A5 A6 A7 A8 A9 A10) as Ra.
  pose proof (rxn_roundtrip (fun x => Z.of_nat (String.length x)) true false rs' gs' ps' B1 B2 B3 B4 B5 B6 B7 B8 B9 B10) as Rb.
  rewrite H in Ra. rewrite Ra in Rb. injection Rb as E1 E2 E3 E4. cbn [canon_roles canon_radicals prep] in *.
  split; [rewrite E1, E2, E3; reflexivity|exact E4].
Qed.

(* non-vacuity: two arrangements of the same three molecules; a reaction that differs in one radical flag is different *)
Example rxn_eq_example :
  let a := mkF "CCO" 1 [false; false; false] in let c := mkF "[CH3]" 1 [true] in let c' := mkF "[CH3]" 1 [false] in
  rxn_ok ([a; nacl; c], [], [a]) /\ same_roles ([a; nacl; c], [], [a]) ([c; a; nacl], [], [a]) /\
  rxn_eq ([a; nacl; c], [], [a]) ([c; a; nacl], [], [a]) = true /\
  rxn_eq ([a; nacl; c], [], [a]) ([a; nacl; c'], [], [a]) = false.
Proof.
  cbv zeta. split; [|split; [|split; vm_compute; reflexivity]].
  - unfold rxn_ok. repeat split; try (repeat constructor; vm_compute; try reflexivity; discriminate). all: try discriminate.
  - cbn [same_roles]. split; [|split; apply Permutation_refl].
    apply Permutation_sym. apply (Permutation_cons_app [_; _] []). apply Permutation_refl.
Qed.
