(* C08 -- denotation of SMARTS patterns with ring closures at the token level: trees (Proofs.SmartsTree) whose atoms may carry
   closure items  bond? digit.  The parser pairs the two occurrences of a digit and bonds the two atoms. *)
From Coq Require Import ZArith List String Ascii Bool Lia.
From Gen Require Import Elements TokenTables SmartsTables.
From Model Require Import PyBase Graph PeriodicTable Tokenize Smarts Query SmartsFull.
From Model Require Parser.
From Proofs Require Import TokenizeProofs SmartsDenote SmartsTree SmartsParser.
Import ListNotations.
Open Scope Z_scope.
Import Parser.

(* the state of the parser between two items *)
Definition TC (k : Z) (bs : list (Z * Z * payload)) (st : list Z) (last : Z) (cyc : list (Z * cyc)) (s : pstate) : Prop :=
  1 <= k /\ ps_n s = k /\ ps_last s = last /\ 0 <= last < k /\ Z.of_nat (List.length (ps_atoms s)) = k /\
  ps_types s = repeat 0 (List.length (ps_atoms s)) /\
  ps_bonds s = bs /\ ps_stack s = st /\ ps_cycles s = cyc /\ ps_sbonds s = [] /\ ps_prev s = None.

Lemma TC_type_at k bs st last cy s : TC k bs st last cy s -> type_at s (ps_last s) = Ok 0.
Proof.
  intros [H1 [H2 [H3 [H4 [H5 [H6 _]]]]]]. unfold type_at. rewrite H3, H6.
  destruct (last <? 0) eqn:E; [apply Z.ltb_lt in E; lia|].
  rewrite nth_error_repeat; [reflexivity | lia].
Qed.

Lemma TC_bond_tok k bs st last cy s t : TC k bs st last cy s -> is_bond_tok t -> step false s t = Ok (set_prev s (Some t)).
Proof.
  intros [H1 [H2 [H3 [H4 [H5 [H6 [H7 [H8 [H9 [H10 H11]]]]]]]]]] Ht. unfold step.
  assert (Hat : ps_atoms s <> []) by (intros E; rewrite E in H5; cbn in H5; lia).
  destruct Ht as [[o ->]|[[l ->]|[l [r ->]]]]; cbn [Z.eqb Pos.eqb zmem existsb orb]; rewrite H11;
    (destruct (ps_atoms s); [congruence | reflexivity]).
Qed.

Lemma TC_atom k bs st last cy s b a : TC k bs st last cy s -> match b with Some t => is_bond_tok t | None => True end ->
  exists s', step false (set_prev s b) (0, PAtom a) = Ok s' /\ TC (k + 1) (bs ++ [(k, last, bond_value b)]) st k cy s'.
Proof.
  intros HC Hb. pose proof (TC_type_at _ _ _ _ _ _ HC) as HT.
  destruct HC as [H1 [H2 [H3 [H4 [H5 [H6 [H7 [H8 [H9 [H10 H11]]]]]]]]]].
  destruct s as [atoms types bonds order n lst stack cycles satoms sbonds prev lg].
  cbn [ps_n ps_last ps_atoms ps_types ps_bonds ps_stack ps_cycles ps_sbonds ps_prev] in *. subst.
  destruct atoms as [|a0 ar]; [cbn in H1; lia|].
  assert (Fin : forall bonds' order' sat,
            TC (Z.of_nat (List.length (a0 :: ar)) + 1) bonds' st (Z.of_nat (List.length (a0 :: ar))) cy
               (mkP ((a0 :: ar) ++ [mkAt (at_el a) (at_iso a) (at_map a) (at_chg a) (at_h a) None])
                    (repeat 0 (List.length (a0 :: ar)) ++ [0]) bonds' order' (Z.of_nat (List.length (a0 :: ar)) + 1)
                    (Z.of_nat (List.length (a0 :: ar))) st cy sat [] None lg)).
  { intros bonds' order' sat. unfold TC. cbn [ps_n ps_last ps_atoms ps_types ps_bonds ps_stack ps_cycles ps_sbonds ps_prev].
    repeat split; try lia.
    - rewrite app_length. cbn [List.length]. lia.
    - rewrite app_length. cbn [List.length]. change [0] with (repeat 0 1). rewrite <- repeat_app. reflexivity. }
  unfold step, set_prev. cbn [ps_n ps_last ps_atoms ps_types ps_bonds ps_stack ps_cycles ps_sbonds ps_prev ps_order ps_satoms ps_log].
  cbn [Z.eqb Pos.eqb zmem existsb orb].
  destruct b as [[bt bv]|].
  - destruct Hb as [[o E]|[[l E]|[l [r E]]]]; inversion E; subst; cbn [Z.eqb Pos.eqb zmem existsb orb bond_value];
      (eexists; split; [reflexivity | apply Fin]).
  - unfold type_at in HT |- *. cbn [ps_types ps_last] in HT |- *.
    destruct (last <? 0); [discriminate|].
    destruct (nth_error _ _) as [t|]; [|discriminate]. inversion HT; subst.
    eexists; split; [reflexivity | apply Fin].
Qed.

Lemma TC_open k bs st last cy s : TC k bs st last cy s -> exists s', step false s (2, PNone) = Ok s' /\ TC k bs (last :: st) last cy s'.
Proof.
  intros [H1 [H2 [H3 [H4 [H5 [H6 [H7 [H8 [H9 [H10 H11]]]]]]]]]]. unfold step. cbn [Z.eqb Pos.eqb]. rewrite H11.
  eexists. split; [reflexivity|]. destruct s. cbn in *. subst. unfold TC. cbn. repeat split; try lia; try reflexivity; try exact H6.
Qed.
Lemma TC_close k bs st last parent cy s : TC k bs (parent :: st) last cy s -> 0 <= parent < k ->
  exists s', step false s (3, PNone) = Ok s' /\ TC k bs st parent cy s'.
Proof.
  intros [H1 [H2 [H3 [H4 [H5 [H6 [H7 [H8 [H9 [H10 H11]]]]]]]]]] Hp. unfold step. cbn [Z.eqb Pos.eqb]. rewrite H11, H8.
  eexists. split; [reflexivity|]. destruct s. cbn in *. subst. unfold TC. cbn. repeat split; try lia; try reflexivity; try exact H6.
Qed.


Definition okb (b : option token) : Prop := match b with Some t => is_bond_tok t | None => True end.

(* the bond of a ring closure from the bond tokens written at its two ends (parser(.., strong_cycle=False)): the one that is
   written; both written: they must be equal; none: single *)
Definition resolve (ob b : option token) : option payload :=
  match ob, b with
  | None, None => Some (PInt 1)
  | Some (_, v), None => Some v
  | None, Some (_, v) => Some v
  | Some (_, ov), Some (_, v) => if py_eq v ov then Some v else None
  end.

Lemma type_at_idx s i : ps_types s = repeat 0 (List.length (ps_atoms s)) -> 0 <= i < Z.of_nat (List.length (ps_atoms s)) -> type_at s i = Ok 0.
Proof.
  intros H Hi. unfold type_at. rewrite H. destruct (i <? 0) eqn:E; [apply Z.ltb_lt in E; lia|].
  rewrite nth_error_repeat; [reflexivity | lia].
Qed.

Lemma bond_tok_not9 t : is_bond_tok t -> (fst t =? 9) = false /\ exists v, snd t = v.
Proof. intros [[o ->]|[[l ->]|[l [r ->]]]]; split; try reflexivity; eexists; reflexivity. Qed.

Lemma close_bond_ring k bs st last cy s a ob b : TC k bs st last cy s -> 0 <= a < k -> okb ob -> okb b ->
  match resolve ob b with
  | Some v => exists lg, close_bond false (set_prev s b) a ob = Ok (v, [], lg, None)
  | None => close_bond false (set_prev s b) a ob = Err IncorrectSmiles
  end.
Proof.
  intros HT Ha Hob Hb. destruct HT as [H1 [H2 [H3 [H4 [H5 [H6 [H7 [H8 [H9 [H10 H11]]]]]]]]]].
  assert (A : arom_at (set_prev s b) a = Ok (PInt 1)).
  { unfold arom_at. assert (T1 : type_at (set_prev s b) (ps_last (set_prev s b)) = Ok 0).
    { destruct s; cbn in *. apply type_at_idx; cbn; [assumption | lia]. }
    assert (T2 : type_at (set_prev s b) a = Ok 0) by (destruct s; cbn in *; apply type_at_idx; cbn; [assumption | lia]).
    rewrite T1, T2. reflexivity. }
  unfold close_bond, ISm. rewrite A.
  assert (P : ps_prev (set_prev s b) = b) by (destruct s; reflexivity).
  assert (SB : ps_sbonds (set_prev s b) = []) by (destruct s; exact H10).
  rewrite P, SB.
  destruct ob as [[obt obv]|], b as [[bt bv]|]; cbn [resolve okb] in *.
  - destruct (bond_tok_not9 _ Hob) as [E1 _], (bond_tok_not9 _ Hb) as [E2 _]. cbn [fst] in E1, E2. rewrite E1, E2.
    destruct (py_eq bv obv); cbn [negb]; [eexists; reflexivity | reflexivity].
  - destruct (bond_tok_not9 _ Hob) as [E1 _]. cbn [fst] in E1. rewrite E1. eexists; reflexivity.
  - destruct (bond_tok_not9 _ Hb) as [E2 _]. cbn [fst] in E2. rewrite E2. eexists; reflexivity.
  - eexists; reflexivity.
Qed.

(* the open ring closures as (digit, (atom, bond token)) *)
Definition cyc_view (c : list (Z * cyc)) : list (Z * (Z * option token)) := map (fun x => (fst x, (fst (fst (snd x)), snd (fst (snd x))))) c.
Definition cyc_wf (k : Z) (c : list (Z * cyc)) : Prop := Forall (fun x => 0 <= fst (fst (snd x)) < k /\ okb (snd (fst (snd x)))) c.

Lemma zget_view c d : zget (cyc_view c) d = match zget c d with Some x => Some (fst (fst x), snd (fst x)) | None => None end.
Proof. induction c as [|[d0 [[a ob] ind]] r IH]; cbn; [reflexivity|]. destruct (d =? d0); [reflexivity | exact IH]. Qed.
Lemma zdel_view c d : cyc_view (zdel c d) = zdel (cyc_view c) d.
Proof. induction c as [|[d0 [[a ob] ind]] r IH]; cbn; [reflexivity|]. destruct (d =? d0); [reflexivity|]. cbn. f_equal. exact IH. Qed.

Lemma PI_bond s t : PI s -> is_bond_tok t -> forall k bs st last cy, TC k bs st last cy s -> PI (set_prev s (Some t)).
Proof.
  intros HP Ht k bs st last cy HT.
  assert (Q : qwfb t = true) by (destruct Ht as [[o ->]|[[l ->]|[l [r ->]]]]; reflexivity).
  pose proof (step_good false s t Q HP) as G. rewrite (TC_bond_tok _ _ _ _ _ _ t HT Ht) in G. exact G.
Qed.
Lemma PI_prev s b : PI s -> okb b -> forall k bs st last cy, TC k bs st last cy s -> PI (set_prev s b).
Proof.
  intros HP Hb k bs st last cy HT. destruct b as [t|]; [eapply PI_bond; eassumption|].
  rewrite set_prev_same; [exact HP|]. destruct HT as [_ [_ [_ [_ [_ [_ [_ [_ [_ [_ H]]]]]]]]]]. exact H.
Qed.

(* a closure item  b d  at the current atom: opens d, or closes it with a bond to the atom that opened it *)
Lemma ring_item k bs st last cy s b d : TC k bs st last cy s -> PI s -> cyc_wf k cy -> okb b ->
  match zget (cyc_view cy) d with
  | None => exists s' cy', step false (set_prev s b) (6, PInt d) = Ok s' /\ TC k bs st last cy' s' /\ PI s' /\
                           cyc_view cy' = (cyc_view cy ++ [(d, (last, b))])%list /\ cyc_wf k cy'
  | Some (a, ob) =>
      match resolve ob b with
      | Some v => exists s', step false (set_prev s b) (6, PInt d) = Ok s' /\ TC k (bs ++ [(last, a, v)]) st last (zdel cy d) s' /\ PI s' /\
                             cyc_wf k (zdel cy d)
      | None => step false (set_prev s b) (6, PInt d) = Err IncorrectSmiles
      end
  end.
Proof.
  intros HT HP Hc Hb. pose proof (PI_prev s b HP Hb _ _ _ _ _ HT) as HPb.
  assert (Q : qwfb (6, PInt d) = true) by reflexivity.
  pose proof (step_good false (set_prev s b) (6, PInt d) Q HPb) as G.
  rewrite zget_view.
  assert (Pv : ps_prev (set_prev s b) = b) by (destruct s; reflexivity).
  assert (Cy : ps_cycles (set_prev s b) = cy) by (destruct s; destruct HT as [_ [_ [_ [_ [_ [_ [_ [_ [H _]]]]]]]]]; exact H).
  assert (Dot : (match ps_prev (set_prev s b) with Some (pt, _) => pt =? 4 | None => false end) = false).
  { rewrite Pv. destruct b as [[bt bv]|]; [|reflexivity]. destruct Hb as [[o E]|[[l E]|[l [r E]]]]; inversion E; reflexivity. }
  unfold step in G |- *. cbn [Z.eqb Pos.eqb zmem existsb orb] in G |- *. rewrite Dot in G |- *. rewrite Cy in G |- *.
  destruct (zget cy d) as [[[a ob] ind]|] eqn:Ez.
  - cbn [fst snd].
    assert (Hin : 0 <= a < k /\ okb ob).
    { unfold cyc_wf in Hc. destruct (zget_Forall _ _ _ _ Hc Ez) as [k0 H]. exact H. }
    destruct Hin as [Ha Hob].
    pose proof (close_bond_ring k bs st last cy s a ob b HT Ha Hob Hb) as CB.
    destruct (resolve ob b) as [v|].
    + destruct CB as [lg CB]. rewrite CB in G |- *.
      assert (Ez' : zget (ps_cycles (set_prev s b)) d = Some (a, ob, ind)) by (rewrite Cy; exact Ez).
      destruct (zget_Forall _ _ _ _ (pi_cyc _ HPb) Ez') as [k0 [_ [Hind _]]].
      destruct (od_set_ok (ps_order (set_prev s b)) a ind (Some (ps_last (set_prev s b))) Hind) as [o1 [Eo _]].
      rewrite Eo in G |- *.
      eexists. split; [reflexivity|]. split; [|split; [exact G|]].
      * destruct HT as [H1 [H2 [H3 [H4 [H5 [H6 [H7 [H8 [H9 [H10 H11]]]]]]]]]]. destruct s. cbn in *. subst.
        unfold TC. cbn. repeat split; try lia; try reflexivity; try assumption.
      * unfold cyc_wf. apply Forall_zdel. exact Hc.
    + rewrite CB. reflexivity.
  - destruct HT as [H1 [H2 [H3 [H4 [H5 [H6 [H7 [H8 [H9 [H10 H11]]]]]]]]]].
    eexists. exists (cy ++ [(d, (ps_last s, b, Z.of_nat (List.length (od_get (od_touch (ps_order s) (ps_last s)) (ps_last s)))))])%list.
    split; [destruct s; reflexivity|]. split; [|split; [destruct s; exact G|split]].
    + destruct s. cbn in *. subst. unfold TC. cbn. repeat split; try lia; try reflexivity; try assumption.
    + unfold cyc_view. rewrite map_app. cbn. destruct s; cbn in *. subst. reflexivity.
    + unfold cyc_wf. apply Forall_app. split; [exact Hc|]. constructor; [|constructor]. cbn. destruct s; cbn in *. subst. split; [lia | exact Hb].
Qed.

(* ---------------------------------------------------------------- trees with ring-closure items *)
Definition ritem := (option token * Z)%type.
Inductive rtree := RNode (p : Query.parsed) (cls : list ritem) (kids : rforest)
with rforest :=
| RNil
| RBranch (b : option token) (t : rtree) (rest : rforest)
| RNext (b : option token) (t : rtree).
Scheme rtree_mind := Induction for rtree Sort Prop
with rforest_mind := Induction for rforest Sort Prop.
Combined Scheme rtree_rforest_mind from rtree_mind, rforest_mind.

Definition item_tokens (x : ritem) : list token := (optb (fst x) ++ [(6, PInt (snd x))])%list.
Fixpoint tok_rtree (t : rtree) : list token :=
  match t with RNode p cls f => (atom_token (p_stereo p) :: flat_map item_tokens cls ++ tok_rforest f)%list end
with tok_rforest (f : rforest) : list token :=
  match f with
  | RNil => []
  | RBranch b t r => ((2, PNone) :: optb b ++ tok_rtree t ++ (3, PNone) :: tok_rforest r)%list
  | RNext b t => (optb b ++ tok_rtree t)%list
  end.
Fixpoint atoms_rtree (t : rtree) : list Query.parsed :=
  match t with RNode p _ f => p :: atoms_rforest f end
with atoms_rforest (f : rforest) : list Query.parsed :=
  match f with
  | RNil => []
  | RBranch _ t r => (atoms_rtree t ++ atoms_rforest r)%list
  | RNext _ t => atoms_rtree t
  end.
Definition size_rtree (t : rtree) : Z := Z.of_nat (List.length (atoms_rtree t)).
Definition size_rforest (f : rforest) : Z := Z.of_nat (List.length (atoms_rforest f)).
Fixpoint last_rtree (t : rtree) (start : Z) : Z :=
  match t with RNode _ _ f => last_rforest f start (start + 1) end
with last_rforest (f : rforest) (parent start : Z) : Z :=
  match f with
  | RNil => parent
  | RBranch _ t r => last_rforest r parent (start + size_rtree t)
  | RNext _ t => last_rtree t start
  end.
Fixpoint rok_tree (t : rtree) : Prop := match t with RNode _ cls f => Forall (fun x => okb (fst x)) cls /\ rok_forest f end
with rok_forest (f : rforest) : Prop :=
  match f with
  | RNil => True
  | RBranch b t r => okb b /\ rok_tree t /\ rok_forest r
  | RNext b t => okb b /\ rok_tree t
  end.

(* the meaning: the open closures (digit -> atom, bond token) and the bonds so far, threaded through the text in reading order *)
Definition dstate := (list (Z * (Z * option token)) * list (Z * Z * payload))%type.
Definition ring_item_spec (a : Z) (st : dstate) (x : ritem) : option dstate :=
  let '(opn, bs) := st in
  match zget opn (snd x) with
  | None => Some ((opn ++ [(snd x, (a, fst x))])%list, bs)
  | Some (a0, ob) => match resolve ob (fst x) with
                     | Some v => Some (zdel opn (snd x), (bs ++ [(a, a0, v)])%list)
                     | None => None
                     end
  end.
Fixpoint ring_items_spec (a : Z) (cls : list ritem) (st : dstate) : option dstate :=
  match cls with
  | [] => Some st
  | x :: r => match ring_item_spec a st x with Some st' => ring_items_spec a r st' | None => None end
  end.
Fixpoint den_tree (t : rtree) (b : option token) (parent k : Z) (st : dstate) : option dstate :=
  match t with
  | RNode _ cls f =>
      match ring_items_spec k cls (fst st, (snd st ++ [(k, parent, bond_value b)])%list) with
      | Some st1 => den_forest f k (k + 1) st1
      | None => None
      end
  end
with den_forest (f : rforest) (parent start : Z) (st : dstate) : option dstate :=
  match f with
  | RNil => Some st
  | RBranch b t r => match den_tree t b parent start st with
                     | Some st1 => den_forest r parent (start + size_rtree t) st1
                     | None => None
                     end
  | RNext b t => den_tree t b parent start st
  end.

Lemma cyc_wf_mono k k' c : k <= k' -> cyc_wf k c -> cyc_wf k' c.
Proof. intros H Hc. eapply Forall_impl; [|exact Hc]. intros x [[A B] C]. repeat split; try lia; exact C. Qed.

Lemma loop_optb_c k bs st last cy s b X : TC k bs st last cy s -> okb b -> loop false s (optb b ++ X) = loop false (set_prev s b) X.
Proof.
  intros HT Hb. destruct b as [t|]; cbn [optb app].
  - cbn [loop]. rewrite (TC_bond_tok _ _ _ _ _ _ t HT Hb). reflexivity.
  - rewrite set_prev_same; [reflexivity|]. destruct HT as [_ [_ [_ [_ [_ [_ [_ [_ [_ [_ H]]]]]]]]]]. exact H.
Qed.

Lemma items_loop cls : forall s k bs st last cy rest opn' bs', TC k bs st last cy s -> PI s -> cyc_wf k cy ->
  Forall (fun x => okb (fst x)) cls -> ring_items_spec last cls (cyc_view cy, bs) = Some (opn', bs') ->
  exists s' cy', loop false s (flat_map item_tokens cls ++ rest) = loop false s' rest /\ TC k bs' st last cy' s' /\ PI s' /\
                 cyc_view cy' = opn' /\ cyc_wf k cy'.
Proof.
  induction cls as [|[b d] r IH]; intros s k bs st last cy rest opn' bs' HT HP Hc Hok Hs.
  - cbn in Hs. inversion Hs; subst. exists s, cy. split; [reflexivity|]. split; [exact HT|]. split; [exact HP|]. split; [reflexivity | exact Hc].
  - inversion Hok as [|? ? Hb Hr]; subst. cbn [fst] in Hb. cbn [ring_items_spec ring_item_spec fst snd] in Hs.
    cbn [flat_map]. unfold item_tokens at 1. cbn [fst snd]. rewrite <- !app_assoc. cbn [app].
    rewrite (loop_optb_c _ _ _ _ _ s b _ HT Hb). cbn [loop]. pose proof (ring_item k bs st last cy s b d HT HP Hc Hb) as RI.
    destruct (zget (cyc_view cy) d) as [[a ob]|].
    + destruct (resolve ob b) as [v|]; [|discriminate].
      destruct RI as [s1 [E1 [T1 [P1 W1]]]]. rewrite E1.
      apply (IH s1 k _ st last (zdel cy d) rest opn' bs' T1 P1 W1 Hr). rewrite zdel_view. exact Hs.
    + destruct RI as [s1 [cy1 [E1 [T1 [P1 [V1 W1]]]]]]. rewrite E1.
      apply (IH s1 k bs st last cy1 rest opn' bs' T1 P1 W1 Hr). rewrite V1. exact Hs.
Qed.

Lemma PI_step s t s' : PI s -> qwfb t = true -> step false s t = Ok s' -> PI s'.
Proof. intros HP Q E. pose proof (step_good false s t Q HP) as G. rewrite E in G. exact G. Qed.

Lemma size_rtree_node p c f : size_rtree (RNode p c f) = 1 + size_rforest f.
Proof. unfold size_rtree, size_rforest. cbn [atoms_rtree List.length]. lia. Qed.
Lemma size_rforest_branch b t r : size_rforest (RBranch b t r) = size_rtree t + size_rforest r.
Proof. unfold size_rtree, size_rforest. cbn [atoms_rforest]. rewrite app_length. lia. Qed.
Lemma size_rtree_pos t : 1 <= size_rtree t.
Proof. destruct t. rewrite size_rtree_node. unfold size_rforest. lia. Qed.

Definition R_tree (t : rtree) : Prop := forall b s k bs st parent cy rest opn' bs',
  TC k bs st parent cy s -> PI s -> cyc_wf k cy -> okb b -> rok_tree t ->
  den_tree t b parent k (cyc_view cy, bs) = Some (opn', bs') ->
  exists s' cy', loop false (set_prev s b) (tok_rtree t ++ rest) = loop false s' rest /\
                 TC (k + size_rtree t) bs' st (last_rtree t k) cy' s' /\ PI s' /\ cyc_view cy' = opn' /\ cyc_wf (k + size_rtree t) cy'.
Definition R_forest (f : rforest) : Prop := forall s k bs st parent cy rest opn' bs',
  TC k bs st parent cy s -> PI s -> cyc_wf k cy -> rok_forest f ->
  den_forest f parent k (cyc_view cy, bs) = Some (opn', bs') ->
  exists s' cy', loop false s (tok_rforest f ++ rest) = loop false s' rest /\
                 TC (k + size_rforest f) bs' st (last_rforest f parent k) cy' s' /\ PI s' /\ cyc_view cy' = opn' /\ cyc_wf (k + size_rforest f) cy'.

Lemma ring_loop_all : (forall t, R_tree t) /\ (forall f, R_forest f).
Proof.
  apply rtree_rforest_mind; unfold R_tree, R_forest.
  - (* RNode *)
    intros p cls f IHf b s k bs st parent cy rest opn' bs' HT HP Hc Hb [Hcl Hf] Hd.
    pose proof (PI_prev s b HP Hb _ _ _ _ _ HT) as HPb.
    destruct (TC_atom k bs st parent cy s b (mkAt ""%string None None 0 None (p_stereo p)) HT Hb) as [s1 [E1 T1]].
    assert (P1 : PI s1) by (eapply (PI_step (set_prev s b) (0, PAtom _)); [exact HPb | reflexivity | exact E1]).
    cbn [tok_rtree app loop]. unfold atom_token. rewrite E1. rewrite <- app_assoc.
    cbn [den_tree fst snd] in Hd.
    destruct (ring_items_spec k cls (cyc_view cy, (bs ++ [(k, parent, bond_value b)])%list)) as [[opn1 bs1]|] eqn:Ei; [|discriminate].
    assert (W1 : cyc_wf (k + 1) cy) by (eapply cyc_wf_mono; [|exact Hc]; lia).
    destruct (items_loop cls s1 (k + 1) _ st k cy (tok_rforest f ++ rest) opn1 bs1 T1 P1 W1 Hcl Ei) as [s2 [cy2 [E2 [T2 [P2 [V2 W2]]]]]].
    rewrite E2. rewrite <- V2 in Hd.
    destruct (IHf s2 (k + 1) bs1 st k cy2 rest opn' bs' T2 P2 W2 Hf Hd) as [s' [cy' [E' [T' [P' [V' W']]]]]].
    exists s', cy'. rewrite size_rtree_node. cbn [last_rtree].
    replace (k + (1 + size_rforest f)) with (k + 1 + size_rforest f) by lia. (split; [exact E'|]; split; [exact T'|]; split; [exact P'|]; split; [exact V' | exact W']).
  - (* RNil *)
    intros s k bs st parent cy rest opn' bs' HT HP Hc _ Hd. cbn in Hd. inversion Hd; subst.
    exists s, cy. unfold size_rforest. cbn [atoms_rforest List.length last_rforest]. rewrite Z.add_0_r.
    split; [reflexivity|]. split; [exact HT|]. split; [exact HP|]. split; [reflexivity | exact Hc].
  - (* RBranch *)
    intros b t IHt r IHr s k bs st parent cy rest opn' bs' HT HP Hc [Hb [Ht Hr]] Hd.
    cbn [den_forest] in Hd. destruct (den_tree t b parent k (cyc_view cy, bs)) as [[opn1 bs1]|] eqn:Ed; [|discriminate].
    destruct (TC_open k bs st parent cy s HT) as [s1 [E1 T1]].
    assert (P1 : PI s1) by (eapply (PI_step s (2, PNone)); [exact HP | reflexivity | exact E1]).
    cbn [tok_rforest app loop]. rewrite E1. rewrite <- !app_assoc.
    change (((3, PNone) :: tok_rforest r) ++ rest)%list with ((3, PNone) :: (tok_rforest r ++ rest))%list.
    rewrite (loop_optb_c _ _ _ _ _ s1 b _ T1 Hb).
    destruct (IHt b s1 k bs (parent :: st) parent cy ((3, PNone) :: (tok_rforest r ++ rest))%list opn1 bs1 T1 P1 Hc Hb Ht Ed)
      as [s2 [cy2 [E2 [T2 [P2 [V2 W2]]]]]]. rewrite E2.
    assert (Hp : 0 <= parent < k + size_rtree t) by (destruct HT as [_ [_ [_ [H4 _]]]]; pose proof (size_rtree_pos t); lia).
    destruct (TC_close _ _ st _ parent cy2 s2 T2 Hp) as [s3 [E3 T3]].
    assert (P3 : PI s3) by (eapply (PI_step s2 (3, PNone)); [exact P2 | reflexivity | exact E3]).
    cbn [loop]. rewrite E3. rewrite <- V2 in Hd.
    destruct (IHr s3 _ bs1 st parent cy2 rest opn' bs' T3 P3 W2 Hr Hd) as [s' [cy' [E' [T' [P' [V' W']]]]]].
    exists s', cy'. rewrite size_rforest_branch. cbn [last_rforest]. rewrite Z.add_assoc. (split; [exact E'|]; split; [exact T'|]; split; [exact P'|]; split; [exact V' | exact W']).
  - (* RNext *)
    intros b t IHt s k bs st parent cy rest opn' bs' HT HP Hc [Hb Ht] Hd.
    cbn [tok_rforest]. rewrite <- app_assoc. rewrite (loop_optb_c _ _ _ _ _ s b _ HT Hb).
    cbn [den_forest] in Hd.
    destruct (IHt b s k bs st parent cy rest opn' bs' HT HP Hc Hb Ht Hd) as [s' [cy' [E' [T' [P' [V' W']]]]]].
    exists s', cy'. unfold size_rforest. cbn [atoms_rforest last_rforest]. (split; [exact E'|]; split; [exact T'|]; split; [exact P'|]; split; [exact V' | exact W']).
Qed.

(* ---------------------------------------------------------------- the whole pattern *)
Definition den_root (t : rtree) : option dstate :=
  match t with
  | RNode _ cls f => match ring_items_spec 0 cls ([], []) with Some st1 => den_forest f 0 1 st1 | None => None end
  end.

Theorem ring_parse t bonds : rok_tree t -> den_root t = Some ([], bonds) ->
  exists pr, parse (tok_rtree t) false = Ok pr /\ p_bonds pr = bonds /\ p_stereo_bonds pr = [].
Proof.
  destruct t as [p cls f]. intros [Hcl Hf] Hd. unfold parse. cbn [tok_rtree]. unfold atom_token at 1.
  cbn [guard Z.eqb Pos.eqb zmem existsb orb loop].
  assert (F : exists s1, step false p_init (0, PAtom (mkAt ""%string None None 0 None (p_stereo p))) = Ok s1 /\ TC 1 [] [] 0 [] s1).
  { eexists. split; [reflexivity|]. unfold TC. cbn. repeat split; lia. }
  destruct F as [s1 [E1 T1]]. unfold atom_token. rewrite E1.
  assert (P1 : PI s1).
  { pose proof (first_atom false 0 (mkAt ""%string None None 0 None (p_stereo p)) [] ltac:(cbn; tauto) (or_introl eq_refl)) as G.
    change (set_last_stack p_init 0 []) with p_init in G. rewrite E1 in G. exact G. }
  cbn [den_root] in Hd. destruct (ring_items_spec 0 cls ([], [])) as [[opn1 bs1]|] eqn:Ei; [|discriminate].
  rewrite <- (app_nil_r (tok_rforest f)).
  destruct (items_loop cls s1 1 [] [] 0 [] (tok_rforest f ++ []) opn1 bs1 T1 P1 ltac:(constructor) Hcl Ei) as [s2 [cy2 [E2 [T2 [P2 [V2 W2]]]]]].
  rewrite E2. rewrite <- V2 in Hd.
  destruct (proj2 ring_loop_all f s2 1 bs1 [] 0 cy2 [] [] bonds T2 P2 W2 Hf Hd) as [s' [cy' [E' [T' [P' [V' W']]]]]].
  rewrite E'. cbn [loop].
  assert (Cn : cy' = []) by (destruct cy'; [reflexivity | discriminate V']).
  destruct T' as [H1 [H2 [H3 [H4 [H5 [H6 [H7 [H8 [H9 [H10 H11]]]]]]]]]]. unfold finish. rewrite H8, H9, Cn, H11.
  eexists. split; [reflexivity|]. cbn [p_bonds p_stereo_bonds]. split; [exact H7 | exact H10].
Qed.

(* no bond from an atom to itself, no two bonds between the same two atoms *)
Fixpoint distinct_pairs (seen : list (Z * Z)) (bs : list (Z * Z * payload)) : Prop :=
  match bs with
  | [] => True
  | (n, m, _) :: r => n <> m /\ (forall p, In p seen -> ~ ((fst p = n /\ snd p = m) \/ (fst p = m /\ snd p = n))) /\
                      distinct_pairs ((n, m) :: seen) r
  end.

Lemma bonds_loop_distinct bs : forall seen, distinct_pairs seen bs -> Forall payload_valid bs ->
  bonds_loop [] bs seen = Ok (map to_sbond bs).
Proof.
  induction bs as [|[[n m] v] r IH]; intros seen Hd Hv; [reflexivity|].
  cbn in Hd. destruct Hd as [H1 [H2 H3]]. inversion Hv as [|? ? [q Hq] Hr]; subst. cbn [snd] in Hq.
  cbn [bonds_loop]. unfold stereo_of. cbn [zget]. rewrite Hq.
  destruct (n =? m) eqn:E; [apply Z.eqb_eq in E; congruence|].
  assert (Hex : existsb (fun p => ((fst p =? n) && (snd p =? m)) || ((fst p =? m) && (snd p =? n))) seen = false).
  { destruct (existsb _ seen) eqn:Ex; [|reflexivity]. apply existsb_exists in Ex. destruct Ex as [p [Hp Hc]].
    exfalso. apply (H2 p Hp). apply orb_true_iff in Hc. destruct Hc as [Hc|Hc]; apply andb_true_iff in Hc; destruct Hc as [C1 C2];
      apply Z.eqb_eq in C1, C2; [left | right]; split; assumption. }
  rewrite Hex. rewrite (IH _ H3 Hr). cbn [map]. f_equal. f_equal. unfold to_sbond, qb_of. cbn [fst snd]. rewrite Hq. reflexivity.
Qed.

(* the denotation of a pattern with branches and ring closures (token level) *)
Theorem ring_denotation t qs bonds :
  rok_tree t -> den_root t = Some ([], bonds) ->
  Forall2 (fun p q => build_atom p = Ok q) (atoms_rtree t) qs ->
  NoDup (explicit_maps (atoms_rtree t)) ->
  distinct_pairs [] bonds -> Forall payload_valid bonds ->
  full_of_tokens (tok_rtree t) (atoms_rtree t) =
  Ok (map (fun pq => atom_result (fst pq) (snd pq)) (combine (atoms_rtree t) qs), map to_sbond bonds).
Proof.
  intros Hok Hd Hat Hnd Hdp Hv. unfold full_of_tokens.
  destruct (ring_parse t bonds Hok Hd) as [pr [E [B1 B2]]]. rewrite E.
  rewrite (atoms_loop_ok _ _ [] Hat Hnd) by (intros k _ []).
  rewrite B1, B2, (bonds_loop_distinct bonds [] Hdp Hv). reflexivity.
Qed.

(* rejection: a closure whose two bond tokens differ, or a closure left open *)
Theorem ring_examples :
  let C := Query.mkParsed None None None None [ESym (s2l "C")] None None None None None false in
  let t := RNode C [(None, 1)] (RNext None (RNode C [] (RNext (Some (1, PInt 2)) (RNode C [(Some (10, PZs [1; 2]), 1); (None, 2)]
             (RNext None (RNode C [(None, 2)] RNil)))))) in
  den_root t = Some ([], [(1, 0, PInt 1); (2, 1, PInt 2); (2, 0, PZs [1; 2]); (3, 2, PInt 1); (3, 2, PInt 1)]) /\
  den_root (RNode C [(Some (1, PInt 2), 1)] (RNext None (RNode C [] (RNext None (RNode C [(Some (1, PInt 1), 1)] RNil))))) = None /\
  den_root (RNode C [(None, 1)] (RNext None (RNode C [] RNil))) = Some ([(1, (0, None))], [(1, 0, PInt 1)]).
Proof. cbv zeta. repeat split; reflexivity. Qed.

(* non-vacuity of ring_denotation: cyclopropane with a branch, C1(N)CC=1 as tokens; every hypothesis holds *)
Definition ex_ring : rtree :=
  let C := Query.mkParsed None None None None [ESym (s2l "C")] None None None None None false in
  let N := Query.mkParsed None None None None [ESym (s2l "N")] None None None None None false in
  RNode C [(None, 1)] (RBranch None (RNode N [] RNil) (RNext None (RNode C [] (RNext None (RNode C [(Some (1, PInt 2), 1)] RNil))))).
Theorem ring_denotation_example :
  rok_tree ex_ring /\
  den_root ex_ring = Some ([], [(1, 0, PInt 1); (2, 0, PInt 1); (3, 2, PInt 1); (3, 0, PInt 2)]) /\
  distinct_pairs [] [(1, 0, PInt 1); (2, 0, PInt 1); (3, 2, PInt 1); (3, 0, PInt 2)] /\
  Forall payload_valid [(1, 0, PInt 1); (2, 0, PInt 1); (3, 2, PInt 1); (3, 0, PInt 2)] /\
  full_of_tokens (tok_rtree ex_ring) (atoms_rtree ex_ring) =
  Ok ([(QElem 6 None (mkQX 0 false [] [] [] [] [] false), None); (QElem 7 None (mkQX 0 false [] [] [] [] [] false), None);
       (QElem 6 None (mkQX 0 false [] [] [] [] [] false), None); (QElem 6 None (mkQX 0 false [] [] [] [] [] false), None)],
      [mkSB 1 0 (mkQB [1] None) None; mkSB 2 0 (mkQB [1] None) None; mkSB 3 2 (mkQB [1] None) None; mkSB 3 0 (mkQB [2] None) None]).
Proof.
  split; [cbn; repeat split; try exact I; repeat (first [apply Forall_nil | apply Forall_cons]); try exact I; left; eexists; reflexivity|]. split; [reflexivity|]. split.
  - cbn. repeat split; try lia; intros p H; repeat (destruct H as [H|H]; [subst p; cbn; lia|]); destruct H.
  - split; [repeat constructor; eexists; reflexivity | vm_compute; reflexivity].
Qed.
