(* contract_spec_correct: the CXSMILES fragment contraction of smiles() (index array, shrinking role sets, negative product indices)
   computes exactly the grouping rule of Model.CxGroups. *)
From Coq Require Import ZArith List String Ascii Bool Lia.
From Model Require Import PyBase Tokenize Parser Reader CxGroups.
From Proofs Require Import TokenizeProofs ParserProofs ReaderProofs.
Import ListNotations.
Open Scope Z_scope.

Lemma nth_error_list_set {A} (l : list A) : forall i v l' j, list_set l i v = Some l' ->
  nth_error l' j = if Nat.eqb j i then Some v else nth_error l j.
Proof.
  induction l as [|x r IH]; intros i v l' j H; cbn in H; [discriminate|]. destruct i as [|i].
  - inversion H; subst. destruct j; reflexivity.
  - destruct (list_set r i v) as [r'|] eqn:E; [|discriminate]. inversion H; subst. destruct j as [|j]; [reflexivity|]. cbn. apply (IH i v r' j E).
Qed.

Lemma map_res_val {A B} (f : A -> pyres B) (g : A -> B) l : (forall x, In x l -> f x = Ok (g x)) -> map_res f l = Ok (map g l).
Proof.
  induction l as [|x r IH]; intros H; [reflexivity|]. cbn. rewrite (H x (or_introl eq_refl)), IH by (intros y Hy; apply H; right; exact Hy). reflexivity.
Qed.

Lemma nth_error_nth' {A} (l : list A) n d : (n < List.length l)%nat -> nth_error l n = Some (nth n l d).
Proof. revert n. induction l as [|x r IH]; intros n H; cbn in H; [lia|]. destruct n; [reflexivity|]. cbn. apply IH. lia. Qed.

Section CX.
Variables (R P G : list (list ascii)).
Let lr := Z.of_nat (List.length R).
Let lg := Z.of_nat (List.length G).
Let lp := Z.of_nat (List.length P).
Let mc := lr + lp + lg.
Notation piece := (piece R P G).
Notation role_of := (role_of R P G).
Notation applicable := (applicable R P G).

Lemma role_cases i : (role_of i = 0 /\ 0 <= i < lr) \/ (role_of i = 1 /\ lr <= i < lr + lg) \/ (role_of i = 2 /\ lr + lg <= i < mc) \/
                     (role_of i = -1 /\ (i < 0 \/ mc <= i)).
Proof.
  assert (NN : 0 <= lr /\ 0 <= lg /\ 0 <= lp) by (unfold lr, lg, lp; lia).
  unfold CxGroups.role_of. fold lr lg lp. fold mc.
  destruct (i <? 0) eqn:E0; [apply Z.ltb_lt in E0; right; right; right; split; [reflexivity | lia]|]. apply Z.ltb_ge in E0.
  destruct (i <? lr) eqn:E1; [apply Z.ltb_lt in E1; left; split; [reflexivity | lia]|]. apply Z.ltb_ge in E1.
  destruct (i <? lr + lg) eqn:E2; [apply Z.ltb_lt in E2; right; left; split; [reflexivity | lia]|]. apply Z.ltb_ge in E2.
  destruct (i <? mc) eqn:E3; [apply Z.ltb_lt in E3; right; right; left; split; [reflexivity | lia]|]. apply Z.ltb_ge in E3.
  right; right; right. split; [reflexivity | lia].
Qed.

(* reading molecule i from the list of its role, with the index arithmetic of the code *)
Lemma py_nth_R i : 0 <= i < lr -> py_nth R (i - 0) = Ok (piece i).
Proof.
  intros H. unfold py_nth, CxGroups.piece. fold lr. replace (i - 0) with i by lia.
  destruct (i <? 0) eqn:E; [apply Z.ltb_lt in E; lia|]. rewrite E.
  assert (E1 : (i <? lr) = true) by (apply Z.ltb_lt; lia). rewrite E1.
  rewrite (nth_error_nth' R (Z.to_nat i) []) by (unfold lr in H; lia). reflexivity.
Qed.
Lemma py_nth_G i : lr <= i < lr + lg -> py_nth G (i - lr) = Ok (piece i).
Proof.
  intros H. unfold py_nth, CxGroups.piece. fold lr lg.
  destruct (i - lr <? 0) eqn:E; [apply Z.ltb_lt in E; lia|]. rewrite E.
  assert (E1 : (i <? lr) = false) by (apply Z.ltb_ge; lia). assert (E2 : (i <? lr + lg) = true) by (apply Z.ltb_lt; lia). rewrite E1, E2.
  rewrite (nth_error_nth' G (Z.to_nat (i - lr)) []) by (unfold lg in H; lia). reflexivity.
Qed.
Lemma py_nth_P i : lr + lg <= i < mc -> py_nth P (i - mc) = Ok (piece i).
Proof.
  intros H. unfold py_nth, CxGroups.piece. fold lr lg lp.
  assert (E : (i - mc <? 0) = true) by (apply Z.ltb_lt; lia). rewrite E.
  assert (J : i - mc + lp = i - lr - lg) by (unfold mc; lia). rewrite J.
  destruct (i - lr - lg <? 0) eqn:E0; [apply Z.ltb_lt in E0; lia|].
  assert (E1 : (i <? lr) = false) by (apply Z.ltb_ge; lia). assert (E2 : (i <? lr + lg) = false) by (apply Z.ltb_ge; lia). rewrite E1, E2.
  rewrite (nth_error_nth' P (Z.to_nat (i - lr - lg)) []) by (unfold mc, lp in H; lia). reflexivity.
Qed.

Lemma joined_R c : (forall x, In x c -> 0 <= x < lr) -> cr_joined R 0 c = Ok (join_with "." (map piece c)).
Proof. intros H. unfold cr_joined. rewrite (map_res_val _ piece) by (intros x Hx; apply py_nth_R, H, Hx). reflexivity. Qed.
Lemma joined_G c : (forall x, In x c -> lr <= x < lr + lg) -> cr_joined G lr c = Ok (join_with "." (map piece c)).
Proof. intros H. unfold cr_joined. rewrite (map_res_val _ piece) by (intros x Hx; apply py_nth_G, H, Hx). reflexivity. Qed.
Lemma joined_P c : (forall x, In x c -> lr + lg <= x < mc) -> cr_joined P mc c = Ok (join_with "." (map piece c)).
Proof. intros H. unfold cr_joined. rewrite (map_res_val _ piece) by (intros x Hx; apply py_nth_P, H, Hx). reflexivity. Qed.

(* new_molecules[i] = v *)
Lemma set_new_ok nm i v : 0 <= i < Z.of_nat (List.length nm) ->
  exists nm', cr_set_new nm i v = Ok nm' /\ List.length nm' = List.length nm /\
              forall j, nth_error nm' j = if Nat.eqb j (Z.to_nat i) then Some (Some v) else nth_error nm j.
Proof.
  intros H. unfold cr_set_new. destruct (i <? 0) eqn:E; [apply Z.ltb_lt in E; lia|].
  destruct (list_set_some nm (Z.to_nat i) (Some v)) as [nm' [E1 E2]]; [lia|]. rewrite E1. exists nm'. split; [reflexivity|]. split; [exact E2|].
  intros j. apply (nth_error_list_set nm _ _ _ j E1).
Qed.

(* applicable = not empty and all members in one role *)
Lemma applicable_spec c : applicable c = true <-> c <> [] /\ exists r, 0 <= r /\ forall x, In x c -> role_of x = r.
Proof.
  unfold CxGroups.applicable. destruct c as [|x c']; [split; [discriminate | intros [H _]; contradiction]|].
  rewrite andb_true_iff, forallb_forall. split.
  - intros [H1 H2]. split; [discriminate|]. exists (role_of x). split; [apply Z.leb_le; exact H1|].
    intros y [<- | Hy]; [reflexivity | apply Z.eqb_eq, H2, Hy].
  - intros [_ [r [Hr H]]]. split; [apply Z.leb_le; rewrite (H x (or_introl eq_refl)); exact Hr|].
    intros y Hy. apply Z.eqb_eq. rewrite (H y (or_intror Hy)), (H x (or_introl eq_refl)). reflexivity.
Qed.

Definition A (cs : list (list Z)) : list (list Z) := filter applicable cs.
Definition heads (cs : list (list Z)) (i : Z) : option (list ascii) :=
  match find (fun c => applicable c && (i =? hd 0 c)) cs with Some c => Some (join_with "." (map piece c)) | None => None end.

Record CInv (cs1 : list (list Z)) (st : cr_state) : Prop := mkCInv {
  ci_r : forall x, In x (fst (fst (fst st))) <-> 0 <= x < lr /\ ~ In x (List.concat (A cs1));
  ci_g : forall x, In x (snd (fst (fst st))) <-> lr <= x < lr + lg /\ ~ In x (List.concat (A cs1));
  ci_p : forall x, In x (snd (fst st)) <-> lr + lg <= x < mc /\ ~ In x (List.concat (A cs1));
  ci_len : Z.of_nat (List.length (snd st)) = mc;
  ci_nm : forall i, 0 <= i < mc -> nth_error (snd st) (Z.to_nat i) = Some (heads cs1 i) }.

Lemma subset_iff c s : subset_z c s = true <-> forall x, In x c -> In x s.
Proof. unfold subset_z. rewrite forallb_forall. split; intros H x Hx; [apply zmem_In, H, Hx | apply zmem_In, H, Hx]. Qed.

Lemma A_app a b : A (a ++ b) = A a ++ A b.
Proof. unfold A. apply filter_app. Qed.

Lemma heads_snoc cs c i : heads (cs ++ [c]) i =
  match heads cs i with Some v => Some v | None => if applicable c && (i =? hd 0 c) then Some (join_with "." (map piece c)) else None end.
Proof.
  unfold heads. induction cs as [|c0 r IH]; cbn [app find].
  - destruct (applicable c && (i =? hd 0 c)); reflexivity.
  - destruct (applicable c0 && (i =? hd 0 c0)); [reflexivity | exact IH].
Qed.

Lemma heads_none cs i : ~ In i (List.concat (A cs)) -> heads cs i = None.
Proof.
  unfold heads, A. induction cs as [|c r IH]; intros H; [reflexivity|]. cbn [find filter] in *.
  destruct (applicable c) eqn:Ea; cbn [andb].
  - cbn [List.concat] in H. destruct (i =? hd 0 c) eqn:E.
    + exfalso. apply H. apply in_or_app. left. apply Z.eqb_eq in E. subst i.
      apply applicable_spec in Ea. destruct Ea as [Hne _]. destruct c; [contradiction | left; reflexivity].
    + apply IH. intros Hin. apply H. apply in_or_app. right. exact Hin.
  - apply IH. exact H.
Qed.

Lemma subset_false c s x : In x c -> ~ In x s -> subset_z c s = false.
Proof. intros Hx Hs. destruct (subset_z c s) eqn:E; [|reflexivity]. exfalso. apply Hs. apply (proj1 (subset_iff c s) E x Hx). Qed.

Lemma zdiff_in a b x : In x (zdiff a b) <-> In x a /\ ~ In x b.
Proof.
  unfold zdiff. rewrite filter_In. split; intros [H1 H2]; split; try assumption.
  - intros Hin. apply zmem_In in Hin. rewrite Hin in H2. discriminate.
  - destruct (zmem x b) eqn:E; [apply zmem_In in E; contradiction | reflexivity].
Qed.

Lemma go_inv cs2 : forall cs1 st, NoDup (List.concat (cs1 ++ cs2)) -> Forall (fun c => c <> []) cs2 -> CInv cs1 st ->
  exists st', cr_go R P G lr mc cs2 st = Ok st' /\ CInv (cs1 ++ cs2) st'.
Proof.
  assert (NN : 0 <= lr /\ 0 <= lg /\ 0 <= lp) by (unfold lr, lg, lp; lia).
  induction cs2 as [|c r IH]; intros cs1 st ND NE I.
  - exists st. rewrite app_nil_r. split; [reflexivity | exact I].
  - inversion NE as [|? ? Hc NEr]; subst. cbn [cr_go]. destruct st as [[[sr sg] sp] nm]. destruct I as [I1 I2 I3 I4 I5]. cbn [fst snd] in *.
    assert (AS : (cs1 ++ [c]) ++ r = cs1 ++ c :: r) by (rewrite <- app_assoc; reflexivity).
    (* the members of c are in no earlier group *)
    assert (Fresh : forall x, In x c -> ~ In x (List.concat (A cs1))).
    { intros x Hx Hin. rewrite concat_app in ND. cbn [List.concat] in ND. 
      assert (Hin1 : In x (List.concat cs1)).
      { unfold A in Hin. apply in_concat in Hin. destruct Hin as [l [Hl Hxl]]. apply filter_In in Hl. apply in_concat. exists l. tauto. }
      clear - ND Hx Hin1. induction (List.concat cs1) as [|y l IHl]; [destruct Hin1|]. cbn in ND. inversion ND; subst.
      destruct Hin1 as [-> | Hin1]; [apply H1; apply in_or_app; right; apply in_or_app; left; exact Hx | apply IHl; assumption]. }
    set (c0 := match c with x :: _ => x | [] => 0 end).
    assert (Hc0 : In c0 c /\ c0 = hd 0 c) by (unfold c0; destruct c; [contradiction | split; [left; reflexivity | reflexivity]]).
    destruct Hc0 as [Hc0 Hhd].
    set (joined := join_with "." (map piece c)).
    (* the state after an applicable group *)
    assert (Upd : forall nm', List.length nm' = List.length nm ->
                   (forall j, nth_error nm' j = if Nat.eqb j (Z.to_nat c0) then Some (Some joined) else nth_error nm j) ->
                   applicable c = true -> 0 <= c0 < mc ->
                   forall i, 0 <= i < mc -> nth_error nm' (Z.to_nat i) = Some (heads (cs1 ++ [c]) i)).
    { intros nm' L1 L2 Ea Hr i Hi. rewrite L2, heads_snoc, Ea. cbn [andb]. rewrite <- Hhd.
      destruct (Nat.eqb (Z.to_nat i) (Z.to_nat c0)) eqn:E.
      - apply Nat.eqb_eq in E. assert (i = c0) by lia. subst i. rewrite (heads_none cs1 c0 (Fresh c0 Hc0)), Z.eqb_refl. reflexivity.
      - apply Nat.eqb_neq in E. assert (E2 : (i =? c0) = false) by (apply Z.eqb_neq; intros ->; apply E; reflexivity).
        rewrite E2, (I5 i Hi). destruct (heads cs1 i); reflexivity. }
    assert (CA : applicable c = true -> List.concat (A (cs1 ++ [c])) = List.concat (A cs1) ++ c).
    { intros Ea. rewrite A_app, concat_app. unfold A at 2. cbn [filter]. rewrite Ea. cbn [List.concat]. rewrite app_nil_r. reflexivity. }
    destruct (applicable c) eqn:Ea.
    + destruct (proj1 (applicable_spec c) Ea) as [_ [r0 [Hr0 Hall]]].
      assert (Hrange : forall x, In x c -> (r0 = 0 -> 0 <= x < lr) /\ (r0 = 1 -> lr <= x < lr + lg) /\ (r0 = 2 -> lr + lg <= x < mc)).
      { intros x Hx. specialize (Hall x Hx). destruct (role_cases x) as [[E R1] | [[E R1] | [[E R1] | [E R1]]]]; rewrite E in Hall; subst r0; repeat split; intros; try lia; try discriminate. }
      assert (R3 : r0 = 0 \/ r0 = 1 \/ r0 = 2).
      { specialize (Hall c0 Hc0). destruct (role_cases c0) as [[E _] | [[E _] | [[E _] | [E _]]]]; rewrite E in Hall; subst r0; lia. }
      destruct R3 as [-> | [-> | ->]].
      * (* reactants *)
        assert (S1 : subset_z c sr = true) by (apply subset_iff; intros x Hx; apply I1; split; [apply (Hrange x Hx); reflexivity | apply Fresh; exact Hx]).
        rewrite S1, (joined_R c (fun x Hx => proj1 (Hrange x Hx) eq_refl)). fold joined.
        destruct (set_new_ok nm c0 joined) as [nm' [E1 [L1 L2]]]; [pose proof (proj1 (Hrange c0 Hc0) eq_refl); lia|]. rewrite E1.
        destruct (IH (cs1 ++ [c]) (zdiff sr c, sg, sp, nm')) as [st' [E2 I']]; [rewrite AS; exact ND | exact NEr | | exists st'; rewrite <- AS; split; assumption].
        constructor; cbn [fst snd].
        -- intros x. rewrite zdiff_in, I1, (CA eq_refl), in_app_iff. tauto.
        -- intros x. rewrite I2, (CA eq_refl), in_app_iff. split; [intros [H1 H2]; split; [exact H1 | intros [H | H]; [contradiction | pose proof (proj1 (Hrange x H) eq_refl); lia]] | tauto].
        -- intros x. rewrite I3, (CA eq_refl), in_app_iff. split; [intros [H1 H2]; split; [exact H1 | intros [H | H]; [contradiction | pose proof (proj1 (Hrange x H) eq_refl); lia]] | tauto].
        -- rewrite L1. exact I4.
        -- apply (Upd nm' L1 L2 eq_refl). pose proof (proj1 (Hrange c0 Hc0) eq_refl). lia.
      * (* reagents *)
        assert (S1 : subset_z c sr = false) by (apply (subset_false c sr c0 Hc0); rewrite I1; pose proof (proj1 (proj2 (Hrange c0 Hc0)) eq_refl); lia).
        assert (S2 : subset_z c sp = false) by (apply (subset_false c sp c0 Hc0); rewrite I3; pose proof (proj1 (proj2 (Hrange c0 Hc0)) eq_refl); lia).
        assert (S3 : subset_z c sg = true) by (apply subset_iff; intros x Hx; apply I2; split; [apply (Hrange x Hx); reflexivity | apply Fresh; exact Hx]).
        rewrite S1, S2, S3, (joined_G c (fun x Hx => proj1 (proj2 (Hrange x Hx)) eq_refl)). fold joined.
        destruct (set_new_ok nm c0 joined) as [nm' [E1 [L1 L2]]]; [pose proof (proj1 (proj2 (Hrange c0 Hc0)) eq_refl); lia|]. rewrite E1.
        destruct (IH (cs1 ++ [c]) (sr, zdiff sg c, sp, nm')) as [st' [E2 I']]; [rewrite AS; exact ND | exact NEr | | exists st'; rewrite <- AS; split; assumption].
        constructor; cbn [fst snd].
        -- intros x. rewrite I1, (CA eq_refl), in_app_iff. split; [intros [H1 H2]; split; [exact H1 | intros [H | H]; [contradiction | pose proof (proj1 (proj2 (Hrange x H)) eq_refl); lia]] | tauto].
        -- intros x. rewrite zdiff_in, I2, (CA eq_refl), in_app_iff. tauto.
        -- intros x. rewrite I3, (CA eq_refl), in_app_iff. split; [intros [H1 H2]; split; [exact H1 | intros [H | H]; [contradiction | pose proof (proj1 (proj2 (Hrange x H)) eq_refl); lia]] | tauto].
        -- rewrite L1. exact I4.
        -- apply (Upd nm' L1 L2 eq_refl). pose proof (proj1 (proj2 (Hrange c0 Hc0)) eq_refl). lia.
      * (* products *)
        assert (S1 : subset_z c sr = false) by (apply (subset_false c sr c0 Hc0); rewrite I1; pose proof (proj2 (proj2 (Hrange c0 Hc0)) eq_refl); lia).
        assert (S2 : subset_z c sp = true) by (apply subset_iff; intros x Hx; apply I3; split; [apply (Hrange x Hx); reflexivity | apply Fresh; exact Hx]).
        rewrite S1, S2, (joined_P c (fun x Hx => proj2 (proj2 (Hrange x Hx)) eq_refl)). fold joined.
        destruct (set_new_ok nm c0 joined) as [nm' [E1 [L1 L2]]]; [pose proof (proj2 (proj2 (Hrange c0 Hc0)) eq_refl); lia|]. rewrite E1.
        destruct (IH (cs1 ++ [c]) (sr, sg, zdiff sp c, nm')) as [st' [E2 I']]; [rewrite AS; exact ND | exact NEr | | exists st'; rewrite <- AS; split; assumption].
        constructor; cbn [fst snd].
        -- intros x. rewrite I1, (CA eq_refl), in_app_iff. split; [intros [H1 H2]; split; [exact H1 | intros [H | H]; [contradiction | pose proof (proj2 (proj2 (Hrange x H)) eq_refl); lia]] | tauto].
        -- intros x. rewrite I2, (CA eq_refl), in_app_iff. split; [intros [H1 H2]; split; [exact H1 | intros [H | H]; [contradiction | pose proof (proj2 (proj2 (Hrange x H)) eq_refl); lia]] | tauto].
        -- intros x. rewrite zdiff_in, I3, (CA eq_refl), in_app_iff. tauto.
        -- rewrite L1. exact I4.
        -- apply (Upd nm' L1 L2 eq_refl). pose proof (proj2 (proj2 (Hrange c0 Hc0)) eq_refl). lia.
    + (* a group across roles or beyond the molecule count: nothing happens *)
      assert (NA : forall s lo hi ro, (forall x, In x s -> lo <= x < hi) -> (forall x, lo <= x < hi -> role_of x = ro) -> 0 <= ro -> subset_z c s = false).
      { intros s lo hi ro Hs Hro H0. destruct (subset_z c s) eqn:E; [|reflexivity]. exfalso.
        assert (applicable c = true); [|congruence]. apply applicable_spec. split; [exact Hc|]. exists ro. split; [exact H0|].
        intros x Hx. apply Hro, Hs. apply (proj1 (subset_iff c s) E x Hx). }
      assert (RO : forall x, (0 <= x < lr -> role_of x = 0) /\ (lr <= x < lr + lg -> role_of x = 1) /\ (lr + lg <= x < mc -> role_of x = 2)).
      { intros x. destruct (role_cases x) as [[E R1] | [[E R1] | [[E R1] | [E R1]]]]; rewrite E; repeat split; intros; lia. }
      rewrite (NA sr 0 lr 0 (fun x Hx => proj1 (proj1 (I1 x) Hx)) (fun x Hx => proj1 (RO x) Hx) ltac:(lia)).
      rewrite (NA sp (lr + lg) mc 2 (fun x Hx => proj1 (proj1 (I3 x) Hx)) (fun x Hx => proj2 (proj2 (RO x)) Hx) ltac:(lia)).
      rewrite (NA sg lr (lr + lg) 1 (fun x Hx => proj1 (proj1 (I2 x) Hx)) (fun x Hx => proj1 (proj2 (RO x)) Hx) ltac:(lia)).
      destruct (IH (cs1 ++ [c]) (sr, sg, sp, nm)) as [st' [E2 I']]; [rewrite AS; exact ND | exact NEr | | exists st'; rewrite <- AS; split; assumption].
      assert (CA' : List.concat (A (cs1 ++ [c])) = List.concat (A cs1)).
      { rewrite A_app, concat_app. unfold A at 2. cbn [filter]. rewrite Ea. cbn. rewrite app_nil_r. reflexivity. }
      constructor; cbn [fst snd]; try (intros x; rewrite CA'; auto); [exact I4|].
      intros i Hi. rewrite heads_snoc, Ea, (I5 i Hi). cbn [andb]. destruct (heads cs1 i); reflexivity.
Qed.

Lemma fill_spec src shift xs : forall nm,
  (forall x, In x xs -> py_nth src (x - shift) = Ok (piece x) /\ 0 <= x < Z.of_nat (List.length nm)) ->
  exists nm', cr_fill src shift xs nm = Ok nm' /\ List.length nm' = List.length nm /\
              forall i, 0 <= i -> nth_error nm' (Z.to_nat i) = if zmem i xs then Some (Some (piece i)) else nth_error nm (Z.to_nat i).
Proof.
  induction xs as [|x r IH]; intros nm H; cbn [cr_fill].
  - exists nm. repeat split. 
  - destruct (H x (or_introl eq_refl)) as [H1 H2]. rewrite H1.
    destruct (set_new_ok nm x (piece x) H2) as [nm1 [E1 [L1 L2]]]. rewrite E1.
    destruct (IH nm1) as [nm' [E2 [L3 L4]]]; [intros y Hy; rewrite L1; apply H; right; exact Hy|].
    exists nm'. split; [exact E2|]. split; [lia|]. intros i Hi. rewrite (L4 i Hi). cbn [zmem existsb]. fold (zmem i r).
    destruct (zmem i r); [rewrite orb_true_r; reflexivity|]. rewrite orb_false_r, L2.
    destruct (i =? x) eqn:E.
    + apply Z.eqb_eq in E. subst. rewrite Nat.eqb_refl. reflexivity.
    + assert (E3 : Nat.eqb (Z.to_nat i) (Z.to_nat x) = false) by (apply Nat.eqb_neq; apply Z.eqb_neq in E; lia). rewrite E3. reflexivity.
Qed.

Lemma uniq_group (cs : list (list Z)) : NoDup (List.concat cs) -> forall c c' i, In c cs -> In c' cs -> In i c -> In i c' -> c = c'.
Proof.
  induction cs as [|c0 r IH]; intros ND c c' i Hc Hc' Hi Hi'; [destruct Hc|].
  cbn [List.concat] in ND. 
  assert (ND2 : NoDup (List.concat r)) by (clear - ND; induction c0; [exact ND | inversion ND; auto]).
  assert (Dis : forall x, In x c0 -> ~ In x (List.concat r)).
  { clear - ND. induction c0 as [|y l IHl]; intros x Hx; [destruct Hx|]. cbn in ND. inversion ND; subst.
    destruct Hx as [<- | Hx]; [intros Hin; apply H1; apply in_or_app; right; exact Hin | apply IHl; assumption]. }
  destruct Hc as [<- | Hc]; destruct Hc' as [<- | Hc'].
  - reflexivity.
  - exfalso. apply (Dis i Hi). apply in_concat. exists c'. tauto.
  - exfalso. apply (Dis i Hi'). apply in_concat. exists c. tauto.
  - apply (IH ND2 c c' i); assumption.
Qed.

Lemma list_as_map {B} (f : Z -> B) n : forall s (l : list B), List.length l = n ->
  (forall k, (k < n)%nat -> nth_error l k = Some (f (s + Z.of_nat k))) -> l = map f (zrange_from s n).
Proof.
  induction n as [|n IH]; intros s l L H; [destruct l; [reflexivity | discriminate]|].
  destruct l as [|x r]; [discriminate|]. cbn [zrange_from map]. f_equal.
  - specialize (H 0%nat ltac:(lia)). cbn in H. inversion H. f_equal. lia.
  - apply IH; [cbn in L; lia|]. intros k Hk. specialize (H (S k) ltac:(lia)). cbn in H. rewrite H. f_equal. f_equal. lia.
Qed.

(* The fragment contraction of smiles() computes the grouping rule: for every reaction (any molecule texts) and every list of
   non-empty groups without a repeated index (what cx_block hands over) *)
Theorem contract_spec_correct contract : Forall (fun c => c <> []) contract -> NoDup (List.concat contract) ->
  contract_roles contract R P G = Ok (contract_spec R P G contract).
Proof.
  intros NE ND. assert (NN : 0 <= lr /\ 0 <= lg /\ 0 <= lp) by (unfold lr, lg, lp; lia).
  unfold contract_roles. fold lr lp. fold lg. fold mc.
  set (st0 := (zrange 0 lr, zrange lr (mc - lp), zrange (mc - lp) mc, repeat None (Z.to_nat mc))).
  assert (I0 : CInv [] st0).
  { unfold st0. constructor; cbn [fst snd A filter List.concat].
    - intros x. rewrite zrange_In. tauto.
    - intros x. rewrite zrange_In. unfold mc. split; [intros H; split; [lia | tauto] | intros [H _]; lia].
    - intros x. rewrite zrange_In. unfold mc. split; [intros H; split; [lia | tauto] | intros [H _]; lia].
    - rewrite repeat_length. unfold mc. lia.
    - intros i Hi. unfold heads. cbn [find]. apply nth_error_repeat. lia. }
  destruct (go_inv contract [] st0 ND NE I0) as [[[[sr sg] sp] nm] [E I]]. cbn [app] in I. rewrite E.
  destruct I as [I1 I2 I3 I4 I5]. cbn [fst snd] in *.
  destruct (fill_spec R 0 sr nm) as [nm1 [E1 [L1 F1]]].
  { intros x Hx. apply I1 in Hx. destruct Hx as [Hx _]. split; [apply py_nth_R; exact Hx | unfold mc in I4; lia]. }
  rewrite E1.
  destruct (fill_spec P mc sp nm1) as [nm2 [E2 [L2 F2]]].
  { intros x Hx. apply I3 in Hx. destruct Hx as [Hx _]. split; [apply py_nth_P; exact Hx | lia]. }
  rewrite E2.
  destruct (fill_spec G lr sg nm2) as [nm3 [E3 [L3 F3]]].
  { intros x Hx. apply I2 in Hx. destruct Hx as [Hx _]. split; [apply py_nth_G; exact Hx | unfold mc in *; lia]. }
  rewrite E3.
  assert (LEN : List.length nm3 = Z.to_nat mc) by lia.
  assert (EQ : nm3 = map (slot R P G contract) (zrange 0 mc)).
  { unfold zrange. rewrite Z.sub_0_r. apply list_as_map; [exact LEN|]. intros k Hk.
    set (i := Z.of_nat k). assert (Hi : 0 <= i < mc) by (unfold i; lia). replace k with (Z.to_nat i) by (unfold i; lia). change (0 + i) with i.
    rewrite (F3 i (proj1 Hi)), (F2 i (proj1 Hi)), (F1 i (proj1 Hi)), (I5 i Hi).
    unfold slot.
    destruct (find (fun c => applicable c && zmem i c) contract) as [c|] eqn:Ef.
    - apply find_some in Ef. destruct Ef as [Hc Hf]. apply andb_prop in Hf. destruct Hf as [Ha Hi2]. apply zmem_In in Hi2.
      assert (InA : In i (List.concat (A contract))) by (apply in_concat; exists c; split; [apply filter_In; split; assumption | exact Hi2]).
      assert (Z1 : zmem i sg = false) by (destruct (zmem i sg) eqn:Ez; [apply zmem_In, I2 in Ez; tauto | reflexivity]).
      assert (Z2 : zmem i sp = false) by (destruct (zmem i sp) eqn:Ez; [apply zmem_In, I3 in Ez; tauto | reflexivity]).
      assert (Z3 : zmem i sr = false) by (destruct (zmem i sr) eqn:Ez; [apply zmem_In, I1 in Ez; tauto | reflexivity]).
      rewrite Z1, Z2, Z3. f_equal. unfold heads.
      destruct (find (fun c' => applicable c' && (i =? hd 0 c')) contract) as [c'|] eqn:Eh.
      + apply find_some in Eh. destruct Eh as [Hc' Hf']. apply andb_prop in Hf'. destruct Hf' as [Ha' Hh]. apply Z.eqb_eq in Hh.
        assert (Hi' : In i c') by (apply applicable_spec in Ha'; destruct Ha' as [Hne _]; destruct c'; [contradiction | left; cbn in Hh; auto]).
        rewrite (uniq_group contract ND c c' i Hc Hc' Hi2 Hi'). rewrite Hh, Z.eqb_refl. reflexivity.
      + destruct (i =? hd 0 c) eqn:Eh2; [|reflexivity]. exfalso.
        pose proof (find_none _ _ Eh c Hc) as F. cbn beta in F. rewrite Ha, Eh2 in F. discriminate.
    - assert (NotA : ~ In i (List.concat (A contract))).
      { intros Hin. apply in_concat in Hin. destruct Hin as [c [Hc Hic]]. apply filter_In in Hc. destruct Hc as [Hc Ha].
        pose proof (find_none _ _ Ef c Hc) as F. cbn beta in F. rewrite Ha in F. apply zmem_In in Hic. rewrite Hic in F. discriminate. }
      destruct (role_cases i) as [[_ Rg] | [[_ Rg] | [[_ Rg] | [_ Rg]]]]; [| | |lia].
      + assert (Z3 : zmem i sr = true) by (apply zmem_In, I1; tauto).
        assert (Z1 : zmem i sg = false) by (destruct (zmem i sg) eqn:Ez; [apply zmem_In, I2 in Ez; lia | reflexivity]).
        assert (Z2 : zmem i sp = false) by (destruct (zmem i sp) eqn:Ez; [apply zmem_In, I3 in Ez; lia | reflexivity]).
        rewrite Z1, Z2, Z3. reflexivity.
      + assert (Z1 : zmem i sg = true) by (apply zmem_In, I2; tauto). rewrite Z1. reflexivity.
      + assert (Z2 : zmem i sp = true) by (apply zmem_In, I3; tauto).
        assert (Z1 : zmem i sg = false) by (destruct (zmem i sg) eqn:Ez; [apply zmem_In, I2 in Ez; lia | reflexivity]).
        rewrite Z1, Z2. reflexivity. }
  unfold contract_spec. fold lr lg lp. fold mc. rewrite <- EQ.
  assert (N1 : (List.length nm3 - Z.to_nat lp)%nat = Z.to_nat (lr + lg)) by (rewrite LEN; unfold mc; lia).
  rewrite N1. reflexivity.
Qed.
End CX.

Example contract_spec_example :
  let ch := to_chars in
  contract_spec (ch ["C"; "O"; "N"]%string) (ch ["S"; "F"]%string) (ch ["Cl"; "Br"; "I"]%string) [[0; 2]; [3; 4]; [6; 7]; [1; 5]] =
    (ch ["C.N"; "O"]%string, ch ["S.F"]%string, ch ["Cl.Br"; "I"]%string) /\
  contract_roles [[0; 2]; [3; 4]; [6; 7]; [1; 5]] (ch ["C"; "O"; "N"]%string) (ch ["S"; "F"]%string) (ch ["Cl"; "Br"; "I"]%string) =
    Ok (ch ["C.N"; "O"]%string, ch ["S.F"]%string, ch ["Cl.Br"; "I"]%string).
Proof. cbn zeta. split; vm_compute; reflexivity. Qed.

Lemma nodup_z_NoDup l : nodup_z l = true -> NoDup l.
Proof.
  induction l as [|x r IH]; intros H; [constructor|]. cbn in H. apply andb_prop in H. destruct H as [H1 H2]. apply negb_true_iff in H1.
  constructor; [intros Hin; apply zmem_In in Hin; congruence | apply IH; exact H2].
Qed.

(* ... in particular for every contract the CXSMILES block parser hands over *)
Corollary cx_block_contract_spec cxs rads c R P G : cx_block cxs = Ok (rads, Some c) ->
  contract_roles c R P G = Ok (contract_spec R P G c).
Proof.
  intros H. pose proof (cx_block_good cxs) as Gd. rewrite H in Gd. unfold cx_ok in Gd. cbn [snd] in Gd.
  apply contract_spec_correct; [exact Gd|].
  unfold cx_block in H. destruct (frag_search cxs) as [groups|]; [|destruct (match map_res py_int _ with Err e => Err e | Ok r => _ end); inversion H].
  destruct (map_res _ groups) as [contract|]; [|discriminate].
  destruct (match map_res py_int _ with Err e => Err e | Ok r => _ end); [|discriminate].
  destruct (nodup_z (List.concat contract)) eqn:E; inversion H; subst. apply nodup_z_NoDup. exact E.
Qed.
