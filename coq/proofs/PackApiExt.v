(* C10: API level statements: ReactionContainer.pack (header, 255 limit, order of the errors) and the exact extent of the
   limits check of MoleculeContainer.pack. *)
From Coq Require Import ZArith List Bool Lia ZifyBool.
From Model Require Import PyBase Pack PackSpec PackApi PackRxnApi.
From Proofs Require Import PackBits PackRoundtrip PackRoundtripGraph PackRoundtripMol PackApiProofs PackProofs PackRxn PackRxnLen.
Import ListNotations.
Open Scope Z_scope.

Definition api_ok (m : pmol) : Prop := pack_ok m = true /\ pm_atoms m <> [].

Lemma pack_all_ok ms : Forall api_ok ms -> pack_all true ms = Ok (map pack_layout ms).
Proof.
  induction 1 as [|m r [Hm Hne] Hr IH]; [reflexivity|]. cbn [pack_all map].
  rewrite (mol_pack_within_limits m Hm Hne), (pack_blocks m Hm), IH. reflexivity.
Qed.

Lemma Forall_api_ok_pack_ok ms : Forall api_ok ms -> Forall (fun m => pack_ok m = true) ms.
Proof. intros H. eapply Forall_impl; [|exact H]. intros m [Hm _]. exact Hm. Qed.

(* HEADER: within the limits the reaction pack is 1, the three role counts, then the molecule packs in the order
   reactants, reagents, products *)
Theorem rxn_api_pack_header rs ags ps :
  Forall api_ok rs -> Forall api_ok ags -> Forall api_ok ps ->
  (length rs <= 255)%nat -> (length ags <= 255)%nat -> (length ps <= 255)%nat ->
  rxn_api_pack true rs ags ps =
  Ok ([1; Z.of_nat (length rs); Z.of_nat (length ags); Z.of_nat (length ps)] ++ concat (map pack_layout (rs ++ ags ++ ps))).
Proof.
  intros Hr Ha Hp Lr La Lp. unfold rxn_api_pack.
  destruct ((255 <? Z.of_nat (length rs)) || (255 <? Z.of_nat (length ags)) || (255 <? Z.of_nat (length ps))) eqn:E; [lia|].
  rewrite pack_all_ok by (rewrite !Forall_app; auto). reflexivity.
Qed.

(* API level round trip of reactions: pack, then unpack and pack_len *)
Theorem rxn_api_roundtrip rs ags ps :
  Forall api_ok rs -> Forall api_ok ags -> Forall api_ok ps ->
  (length rs <= 255)%nat -> (length ags <= 255)%nat -> (length ps <= 255)%nat ->
  exists bytes, rxn_api_pack true rs ags ps = Ok bytes /\
    rxn_unpack bytes = Ok (map (fun m => unpacked_of m (pack_size m)) rs, map (fun m => unpacked_of m (pack_size m)) ags,
                           map (fun m => unpacked_of m (pack_size m)) ps) /\
    ((1 <= length rs + length ags + length ps)%nat ->
     rxn_pack_len bytes = Ok (map natoms rs, map natoms ags, map natoms ps)).
Proof.
  intros Hr Ha Hp Lr La Lp. rewrite (rxn_api_pack_header rs ags ps Hr Ha Hp Lr La Lp). eexists. split; [reflexivity|].
  pose proof (Forall_api_ok_pack_ok _ Hr) as Hr'. pose proof (Forall_api_ok_pack_ok _ Ha) as Ha'. pose proof (Forall_api_ok_pack_ok _ Hp) as Hp'.
  assert (Er : map pack rs = map (@Ok _) (map pack_layout rs)).
  { rewrite map_map. apply map_ext_in. intros m Hm. rewrite Forall_forall in Hr'. apply pack_blocks. apply Hr'. exact Hm. }
  assert (Ea : map pack ags = map (@Ok _) (map pack_layout ags)).
  { rewrite map_map. apply map_ext_in. intros m Hm. rewrite Forall_forall in Ha'. apply pack_blocks. apply Ha'. exact Hm. }
  assert (Ep : map pack ps = map (@Ok _) (map pack_layout ps)).
  { rewrite map_map. apply map_ext_in. intros m Hm. rewrite Forall_forall in Hp'. apply pack_blocks. apply Hp'. exact Hm. }
  assert (Eb : forall bytes, rxn_pack (map pack_layout rs) (map pack_layout ags) (map pack_layout ps) = Ok bytes ->
               bytes = [1; Z.of_nat (length rs); Z.of_nat (length ags); Z.of_nat (length ps)] ++ concat (map pack_layout (rs ++ ags ++ ps))).
  { intros bytes. unfold rxn_pack. rewrite !map_length.
    destruct ((255 <? Z.of_nat (length rs)) || (255 <? Z.of_nat (length ags)) || (255 <? Z.of_nat (length ps))); [discriminate|].
    intros E. injection E as E. rewrite <- E, !map_app, !concat_app. reflexivity. }
  split.
  - destruct (rxn_roundtrip rs ags ps _ _ _ Hr' Ha' Hp' Er Ea Ep Lr La Lp) as [bytes [E1 E2]]. rewrite <- (Eb bytes E1). exact E2.
  - intros Lt. destruct (rxn_pack_len_correct rs ags ps _ _ _ Hr' Ha' Hp' Er Ea Ep Lr La Lp Lt) as [bytes [E1 E2]].
    rewrite <- (Eb bytes E1). exact E2.
Qed.

(* 255 LIMIT: a role with more than 255 molecules raises ValueError whatever the molecules are and whether or not they
   are checked (the header bytearray is built before any molecule is packed) *)
Theorem rxn_api_pack_limit check rs ags ps : (255 < length rs \/ 255 < length ags \/ 255 < length ps)%nat ->
  rxn_api_pack check rs ags ps = Err ValueError.
Proof.
  intros H. unfold rxn_api_pack.
  destruct ((255 <? Z.of_nat (length rs)) || (255 <? Z.of_nat (length ags)) || (255 <? Z.of_nat (length ps))) eqn:E; [reflexivity | lia].
Qed.

(* a molecule outside the checked limits, all molecules before it within the limits: ValueError *)
Theorem rxn_api_pack_rejects rs ags ps pre m post :
  (length rs <= 255)%nat -> (length ags <= 255)%nat -> (length ps <= 255)%nat ->
  rs ++ ags ++ ps = pre ++ m :: post -> Forall api_ok pre -> mol_pack true m = Err ValueError ->
  rxn_api_pack true rs ags ps = Err ValueError.
Proof.
  intros Lr La Lp E Hpre Hm. unfold rxn_api_pack.
  destruct ((255 <? Z.of_nat (length rs)) || (255 <? Z.of_nat (length ags)) || (255 <? Z.of_nat (length ps))) eqn:E0; [reflexivity|].
  rewrite E. clear E. induction Hpre as [|m0 r [H0 Hne] Hr IH]; cbn [app pack_all].
  - rewrite Hm. reflexivity.
  - rewrite (mol_pack_within_limits m0 H0 Hne), (pack_blocks m0 H0).
    destruct (pack_all true (r ++ m :: post)) as [x|e] eqn:Ep; [discriminate IH | injection IH as IH; subst e; reflexivity].
Qed.

(* ------------------------------------------------------------------------------------------------ *)
(* the limits check of MoleculeContainer.pack: exactly what it accepts *)

Theorem mol_pack_check_characterised m :
  mol_pack_check m = Ok tt <->
  pm_atoms m <> [] /\ (forall a, In a (pm_atoms m) -> 1 <= pa_n a <= 4095) /\ (forall a, In a (pm_atoms m) -> (length (pa_nbrs a) <= 15)%nat).
Proof.
  unfold mol_pack_check. destruct (pm_atoms m) as [|a0 r] eqn:Ea.
  - split; [discriminate | intros [H _]; contradiction].
  - rewrite <- Ea. split.
    + destruct ((py_min (map pa_n (pm_atoms m)) 1 <? 1) || (4095 <? py_max (map pa_n (pm_atoms m)) 0)) eqn:E1; [discriminate|].
      destruct (existsb (fun a => (15 <? length (pa_nbrs a))%nat) (pm_atoms m)) eqn:E2; [discriminate|]. intros _.
      split; [rewrite Ea; discriminate|]. split.
      * intros a Ha. pose proof (py_max_ge (map pa_n (pm_atoms m)) (pa_n a) (in_map pa_n _ _ Ha)).
        pose proof (py_min_le (map pa_n (pm_atoms m)) (pa_n a) (in_map pa_n _ _ Ha)). lia.
      * intros a Ha. destruct (Nat.leb_spec (length (pa_nbrs a)) 15) as [L|L]; [exact L|].
        assert (existsb (fun a => (15 <? length (pa_nbrs a))%nat) (pm_atoms m) = true)
          by (apply existsb_exists; exists a; split; [exact Ha | apply Nat.ltb_lt; exact L]). congruence.
    + intros [_ [H1 H2]].
      assert (Hm : py_max (map pa_n (pm_atoms m)) 0 <= 4095).
      { apply py_max_le; [rewrite Ea; discriminate|]. intros y Hy. apply in_map_iff in Hy. destruct Hy as [a [Hn Ha]]. subst y. apply H1. exact Ha. }
      assert (Hn : 1 <= py_min (map pa_n (pm_atoms m)) 1).
      { apply py_min_ge; [rewrite Ea; discriminate|]. intros y Hy. apply in_map_iff in Hy. destruct Hy as [a [Hn Ha]]. subst y. apply H1. exact Ha. }
      destruct ((py_min (map pa_n (pm_atoms m)) 1 <? 1) || (4095 <? py_max (map pa_n (pm_atoms m)) 0)) eqn:E1; [lia|].
      destruct (existsb (fun a => (15 <? length (pa_nbrs a))%nat) (pm_atoms m)) eqn:E2; [|reflexivity].
      apply existsb_exists in E2. destruct E2 as [a [Ha Hl]]. apply Nat.ltb_lt in Hl. pose proof (H2 a Ha). lia.
Qed.

Definition decoded_atoms (m : pmol) : option (list uatom) :=
  match pack m with Ok b => match unpack b with Ok u => Some (up_atoms u) | Err _ => None end | Err _ => None end.

(* atom numbers below 1 are rejected (since fix c3175c9; a negative number used to wrap to 65535 and make the packer
   write outside its 4096 cell table) *)
Theorem mol_pack_nonpositive_rejected :
  mol_pack true unrep_negative = Err ValueError /\ mol_pack true unrep_zero = Err ValueError.
Proof. vm_compute. split; reflexivity. Qed.

(* "the check accepts only molecules within the format limits" is still FALSE for values that can only be written
   through private attributes (the public setters validate isotope and charge; hydrogens are computed): accepted (so the
   API call is the .pyx packer), outside the limits, and decoded to a different atom *)
Theorem mol_pack_check_complete_refuted :
  (mol_pack true unrep_h7 = pack unrep_h7 /\ pack_ok unrep_h7 = false /\
   option_map (map ua_h) (decoded_atoms unrep_h7) = Some [None]) /\
  (mol_pack true unrep_h8 = pack unrep_h8 /\ pack_ok unrep_h8 = false /\
   option_map (map ua_h) (decoded_atoms unrep_h8) = Some [Some 0]) /\
  (mol_pack true unrep_charge12 = pack unrep_charge12 /\ pack_ok unrep_charge12 = false /\
   option_map (map (fun u => (ua_chg u, ua_h u))) (decoded_atoms unrep_charge12) = Some [(-4, Some 1)]) /\
  (mol_pack true unrep_charge_m5 = pack unrep_charge_m5 /\ pack_ok unrep_charge_m5 = false /\
   option_map (map (fun u => (ua_chg u, ua_h u))) (decoded_atoms unrep_charge_m5) = Some [(11, None)]) /\
  (mol_pack true unrep_isotope = pack unrep_isotope /\ pack_ok unrep_isotope = false /\
   option_map (map (fun u => (ua_iso u, ua_stereo u))) (decoded_atoms unrep_isotope) = Some [(None, Some true)]).
Proof. vm_compute. repeat split; reflexivity. Qed.

(* what IS implied: accepted + the atom level limits the check does not look at (isotope offset, hydrogens, charge, coordinate bytes) + the graph conditions = within the format limits *)
Theorem mol_pack_check_complete_partial m :
  mol_pack_check m = Ok tt ->
  forall a, In a (pm_atoms m) -> 1 <= pa_n a < 4096 /\ (length (pa_nbrs a) <= 15)%nat.
Proof. intros H a Ha. apply mol_pack_check_characterised in H. destruct H as [_ [H1 H2]]. split; [pose proof (H1 a Ha); lia | apply H2; exact Ha]. Qed.
