(* C02, extension round 3: the hand-written constants / branch orders of coq/model/Writer.v against the values that
   tools/gen_smiles_more.py reads from chython/algorithms/smiles.py and chython/files/daylight/tokenize.py on every run
   (coq/gen/SmilesMore.v).  A source edit of a flag, a default, a bond symbol, the order of the `bond == k` tests, the radical
   block or a character class of atom_re changes the generated file and breaks the named lemma here. *)
From Coq Require Import ZArith List String Ascii Bool Lia.
From Gen Require Import SmilesTables SmilesMore.
From Model Require Import PyBase Graph Writer.
Import ListNotations.
Open Scope Z_scope.

(* ---------------- Smiles.__format__: the flag table and the keyword defaults ---------------- *)
(* kwargs = {}; if '<flag>' in format_spec: kwargs['<kw>'] = <value>   (in source order; later assignments win) *)
Definition kwargs_of (spec : string) : list (string * bool) :=
  fold_left (fun kw fkv => let '(f, k, v) := fkv in if substr f spec then (k, v) :: kw else kw) spec_flags [].
Definition kw_lookup (kw : list (string * bool)) (k : string) : option bool :=
  match find (fun kv => String.eqb (fst kv) k) kw with Some kv => Some (snd kv) | None => None end.
(* kwargs.get(k, default) with the default the source gives *)
Definition kw_get (spec k : string) : bool :=
  match kw_lookup (kwargs_of spec) k with
  | Some v => v
  | None => match kw_lookup kw_defaults k with Some d => d | None => false end
  end.
Definition opts_gen (spec : string) : opts :=
  mkOpts (kw_get spec "asymmetric_closures") (kw_get spec "stereo") (kw_get spec "aromatic") (kw_get spec "mapping")
         (kw_get spec "hydrogens") (kw_get spec "bonds") (kw_get spec "charges") (kw_get spec "random")
         (negb (substr spec_cx_off spec)).

Lemma opts_of_spec_generated : forall spec, opts_of_spec spec = opts_gen spec.
Proof.
  intro spec. unfold opts_of_spec, opts_gen, kw_get, kwargs_of, spec_flags, spec_cx_off. cbn [fold_left].
  destruct (substr "a" spec); destruct (substr "!s" spec); destruct (substr "A" spec); destruct (substr "m" spec);
  destruct (substr "h" spec); destruct (substr "!b" spec); destruct (substr "!z" spec); destruct (substr "r" spec);
  reflexivity.
Qed.

(* every keyword the flag table sets has a default in the source, and the model's default options are those defaults *)
Lemma default_opts_generated : opts_gen "" = default_opts /\
  forallb (fun fkv => match kw_lookup kw_defaults (snd (fst fkv)) with Some _ => true | None => false end) spec_flags = true.
Proof. split; reflexivity. Qed.

(* ---------------- MoleculeSmiles._format_bond: order of the tests and the returned strings ---------------- *)
Definition bt (k : nat) : Z := nth k bond_tests 0.
Definition br (k : nat) : string := nth k bond_returns "?"%string.

Lemma format_bond_generated : forall g o ctm n m,
  format_bond g o ctm n m =
  if negb (o_bonds o) then Ok (br 0) else
  match bond_of g n m with
  | None => Err KeyError
  | Some b =>
      if b_ord b =? bt 0 then Ok (if o_aromatic o then br 1 else br 2)
      else if b_ord b =? bt 1 then
        if o_aromatic o && (hybridization g n =? 4) && (hybridization g m =? 4) then Ok (br 3)
        else if o_stereo o then
          match ctm with
          | Err e => Err e
          | Ok cm => match pget cm (n, m) with Some x => Ok (if x then br 4 else br 5) | None => Ok (br 6) end
          end
        else Ok (br 6)
      else if b_ord b =? bt 2 then Ok (br 7)
      else if b_ord b =? bt 3 then Ok (br 8)
      else Ok (br 9)
  end.
Proof. intros. reflexivity. Qed.

Lemma bond_tables_shape : List.length bond_tests = 4%nat /\ List.length bond_returns = 10%nat.
Proof. split; reflexivity. Qed.

(* ---------------- MoleculeSmiles._format_cxsmiles ---------------- *)
Lemma format_cxsmiles_generated : forall g order,
  format_cxsmiles g order =
  if existsb (fun na => a_rad (snd na)) (m_atoms g)
  then Some (scat [cx_prefix; String.concat cx_sep (map str_Z (radical_positions g order 0)); cx_suffix])
  else None.
Proof. intros. reflexivity. Qed.

(* ---------------- atom_re: the character classes of the six groups ---------------- *)
Definition all_ascii : list ascii := map ascii_of_nat (seq 0 256).
Lemma all_ascii_complete : forall c, In c all_ascii.
Proof.
  intro c. unfold all_ascii. rewrite <- (ascii_nat_embedding c). apply in_map. apply in_seq.
  pose proof (nat_ascii_bounded c). lia.
Qed.
Lemma sweep (P : ascii -> bool) : forallb P all_ascii = true -> forall c, P c = true.
Proof. intros H c. rewrite forallb_forall in H. apply H, all_ascii_complete. Qed.

Definition beq (a b : bool) : bool := Bool.eqb a b.
Lemma beq_eq a b : beq a b = true -> a = b. Proof. apply Bool.eqb_prop. Qed.

(* the tests the stages of atom_parse_chars make, against the classes read from the pattern text *)
Lemma atom_re_classes_generated : forall c,
  in_range c "1" "9" = char_in c re_iso_first /\
  is_digit c = char_in c re_iso_more /\
  elem_first c = char_in c re_el_first /\
  elem_second c = char_in c re_el_second /\
  in_range c "1" "4" = char_in c re_h_digits /\
  (Ascii.eqb c "+" || Ascii.eqb c "-") = char_in c re_chg_first /\
  (in_range c "1" "4" || Ascii.eqb c "+" || Ascii.eqb c "-") = char_in c re_chg_second /\
  is_digit c = char_in c re_map_digits.
Proof.
  intro c.
  repeat match goal with |- _ /\ _ => split end;
  (apply beq_eq;
   match goal with |- beq ?l ?r = true =>
     let P := eval pattern c in (beq l r) in
     match P with ?F _ => exact (sweep F (eq_refl true <: forallb F all_ascii = true) c) end
   end).
Qed.

(* the {0,n} bound of the isotope tail is the `take_digits 2` of the first stage *)
Lemma atom_re_iso_bound_generated : re_iso_more_max = 2.
Proof. reflexivity. Qed.
