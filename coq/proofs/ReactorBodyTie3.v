(* C16 (round 4): TIE BY TRANSLATION, third piece.  Gen.ReactorBody.g_patcher_atoms is the loop of BaseReactor._patcher over
   the atoms of the replacement (`for n, ra in self._replacement.atoms()`: re-used any-atoms, re-typed matched atoms, new atoms,
   the extension of the mapping, hydrogen counts and stereo labels taken from the patch), translated statement by statement
   from /repo on every run.  For ALL inputs it computes what the first fold of the hand-written Model.Reactor.patcher
   (fold_res patch_atom) computes on the replacement read through `conv` (same exceptions; atoms up to the stereo label). *)
From Coq Require Import ZArith List Bool Lia.
From Model Require Import PyBase Graph Reactor ReactorStage.
From Gen Require Import ReactorBody.
From Proofs Require Import ReactorProofs ReactorBodyTie ReactorBodyTie2.
Import ListNotations.
Open Scope Z_scope.

(* the replacement atom of the hand-written model (Model.Reactor.ratom) behind a replacement atom as the code reads it: this
   was the hand-written read-out of the correspondence runner (tpl_term in harness/checks/C16.py) *)
Definition conv (ra : gratom) : ratom :=
  match r_kind ra with
  | KAny => RAny (r_chg ra) (r_rad ra)
  | KElement => RElem (r_num ra) (r_iso ra) (r_chg ra) (r_rad ra) (r_h ra)
  | KQuery => RElem (r_num ra) (r_iso ra) (r_chg ra) (r_rad ra) (hd_error (r_hs ra))
  end.
Definition conv_atoms (l : list (Z * gratom)) : list (Z * ratom) := map (fun nr => (fst nr, conv (snd nr))) l.

Notation S5 := (list (Z * atom) * list (Z * list (Z * bond)) * list (Z * Z) * Z * list Z)%type (only parsing).

Definition agrees (r : pyres S5) (h : pyres pstate) : Prop :=
  match r with
  | Ok (ng, nb, mp, mx, _) => exists s, h = Ok s /\ erase_stereo ng = erase_stereo (p_atoms s) /\ nb = p_adj s /\ mp = p_map s /\ mx = p_max s
  | Err e => h = Err e
  end.

Lemma atoms5_loop_gen (g : mol) (F : S5 -> Z * gratom -> pyres S5) :
  (forall ng nh nb mp mx sts nra, erase_stereo ng = erase_stereo nh ->
     agrees (F (ng, nb, mp, mx, sts) nra) (patch_atom g (mkP nh nb mp mx) (fst nra, conv (snd nra)))) ->
  forall l ng nh nb mp mx sts, erase_stereo ng = erase_stereo nh ->
     agrees (fold_res F l (ng, nb, mp, mx, sts)) (fold_res (patch_atom g) (conv_atoms l) (mkP nh nb mp mx)).
Proof.
  intros Hstep. induction l as [|nra r IH]; intros ng nh nb mp mx sts He; cbn [fold_res conv_atoms map].
  - exists (mkP nh nb mp mx). repeat split; assumption.
  - specialize (Hstep ng nh nb mp mx sts nra He). unfold agrees in Hstep.
    destruct (F (ng, nb, mp, mx, sts) nra) as [[[[[ng1 nb1] mp1] mx1] sts1]|e].
    + destruct Hstep as (s1 & Hs1 & He1 & -> & -> & ->). rewrite Hs1. destruct s1 as [a1 b1 c1 d1]. cbn [p_atoms p_adj p_map p_max] in *.
      apply IH. assumption.
    + rewrite Hstep. reflexivity.
Qed.

Theorem g_patcher_atoms_is_model : forall g ratoms natoms nbonds mapping mx sts,
  agrees (g_patcher_atoms ratoms (m_atoms g) natoms nbonds mapping mx sts)
         (fold_res (patch_atom g) (conv_atoms ratoms) (mkP natoms nbonds mapping mx)).
Proof.
  intros g ratoms natoms nbonds mapping mx sts. unfold g_patcher_atoms, py_for.
  match goal with |- context [fold_res ?F ratoms ?s0] =>
    pose proof (atoms5_loop_gen g F) as HL end.
  match type of HL with ?Hyp -> _ => assert (Hs : Hyp) end.
  { clear HL. intros ng nh nb mp mx0 sts0 [n ra] Heq. cbn [fst snd]. cbv zeta.
    destruct ra as [k num iso chg rad st h hs]. unfold conv, patch_atom, is_kind, atom_of. cbn [r_kind r_num r_iso r_chg r_rad r_stereo r_h r_hs p_map p_max].
    destruct k; cbn match.
    - (* AnyElement *)
      destruct (truthy_get mp n) as [m|]; [|reflexivity].
      destruct (zget (m_atoms g) m) as [sa|]; [|reflexivity].
      destruct st as [st|]; cbn [py_is_some]; [|destruct (a_stereo sa) as [ss|]; cbn [py_is_some]];
        (eexists; split; [reflexivity|]; unfold put_atom; cbn [p_atoms p_adj p_map p_max];
         repeat split; rewrite !erase_zset, Heq; reflexivity).
    - (* QueryElement *)
      destruct (truthy_get mp n) as [m|].
      + destruct (zget (m_atoms g) m) as [sa|]; [|reflexivity].
        destruct st as [st|]; cbn [py_is_some]; [|destruct (a_stereo sa) as [ss|]; cbn [py_is_some]];
          (eexists; split; [reflexivity|]; unfold put_atom; cbn [p_atoms p_adj p_map p_max];
           repeat split; rewrite !erase_zset, Heq; reflexivity).
      + destruct hs as [|h0 hr]; cbn [py_nonempty hd_error];
          (eexists; split; [reflexivity|]; unfold put_atom; cbn [p_atoms p_adj p_map p_max];
           repeat split; rewrite !erase_zset, Heq; reflexivity).
    - (* Element *)
      destruct (truthy_get mp n) as [m|].
      + destruct (zget (m_atoms g) m) as [sa|]; [|reflexivity].
        destruct st as [st|]; cbn [py_is_some]; [|destruct (a_stereo sa) as [ss|]; cbn [py_is_some]];
          (eexists; split; [reflexivity|]; unfold put_atom; cbn [p_atoms p_adj p_map p_max];
           repeat split; rewrite !erase_zset, Heq; reflexivity).
      + eexists; split; [reflexivity|]; unfold put_atom; cbn [p_atoms p_adj p_map p_max];
          repeat split; rewrite !erase_zset, Heq; reflexivity. }
  specialize (HL Hs ratoms natoms natoms nbonds mapping mx sts eq_refl).
  unfold agrees in *.
  destruct (fold_res _ ratoms (natoms, nbonds, mapping, mx, sts)) as [[[[[ng1 nb1] mp1] mx1] sts1]|e]; exact HL.
Qed.

(* ---------- the whole structural _patcher through the translated pieces ---------- *)
Lemma keys_erase atoms : keys (erase_stereo atoms) = keys atoms.
Proof. unfold keys, erase_stereo. rewrite map_map. apply map_ext. intros [k v]; reflexivity. Qed.

Lemma keep_atoms_erase P del : forall l a a' nb, erase_stereo a = erase_stereo a' ->
  erase_stereo (fst (fold_left (keep_atom P del) l (a, nb))) = erase_stereo (fst (fold_left (keep_atom P del) l (a', nb))) /\
  snd (fold_left (keep_atom P del) l (a, nb)) = snd (fold_left (keep_atom P del) l (a', nb)).
Proof.
  induction l as [|na r IH]; intros a a' nb He; cbn [fold_left]; [split; [assumption|reflexivity]|].
  replace (keep_atom P del (a, nb) na) with (if zmem (fst na) P || zmem (fst na) del then (a, nb) else (zset a (fst na) (plain_atom (snd na)), zset nb (fst na) [])) by reflexivity.
  replace (keep_atom P del (a', nb) na) with (if zmem (fst na) P || zmem (fst na) del then (a', nb) else (zset a' (fst na) (plain_atom (snd na)), zset nb (fst na) [])) by reflexivity.
  destruct (zmem (fst na) P || zmem (fst na) del); [apply IH; assumption|].
  apply IH. rewrite !erase_zset, He. reflexivity.
Qed.

(* Model.Reactor.patcher = max(satoms); the TRANSLATED loop over the replacement atoms; the (hand-written) loop over the
   replacement bonds; the TRANSLATED loops over the atoms and bonds of the structure.  For every replacement read through
   `conv`, every tetrahedron registry and whatever the stereo work lists hold. *)
Theorem patcher_runs_translated_text : forall g mapping ratoms tb del tetra sts0 stb,
  patcher g mapping (mkTpl (conv_atoms ratoms) tb) del =
  match zmax_list (ids g) with
  | None => Err ValueError
  | Some mx =>
      match g_patcher_atoms ratoms (m_atoms g) [] [] mapping mx sts0 with
      | Err e => Err e
      | Ok (na, nb, mp, _, sts) =>
          match fold_res (patch_bonds_of mp) tb nb with
          | Err e => Err e
          | Ok adj2 =>
              match g_patcher_keep (m_atoms g) (m_adj g) del tetra na adj2 sts stb with
              | Err e => Err e
              | Ok (atoms', adj', _, _) => Ok (mkMol (erase_stereo atoms') adj', mp)
              end
          end
      end
  end.
Proof.
  intros g mapping ratoms tb del tetra sts0 stb.
  rewrite (patcher_runs_translated_loops g mapping (mkTpl (conv_atoms ratoms) tb) del tetra sts0 stb). cbn [t_atoms t_bonds].
  destruct (zmax_list (ids g)) as [mx|]; [|reflexivity].
  pose proof (g_patcher_atoms_is_model g ratoms [] [] mapping mx sts0) as HA. unfold agrees in HA.
  destruct (g_patcher_atoms ratoms (m_atoms g) [] [] mapping mx sts0) as [[[[[na nb] mp] mx1] sts]|e].
  - destruct HA as (s & -> & He & -> & -> & ->).
    destruct (fold_res (patch_bonds_of (p_map s)) tb (p_adj s)) as [adj2|e]; [|reflexivity].
    pose proof (g_patcher_keep_is_model (m_atoms g) (m_adj g) del tetra na adj2 sts stb) as H1.
    pose proof (g_patcher_keep_is_model (m_atoms g) (m_adj g) del tetra (p_atoms s) adj2 sts0 stb) as H2.
    cbv zeta in H1, H2.
    assert (Hk : keys na = keys (p_atoms s)) by (rewrite <- (keys_erase na), He, keys_erase; reflexivity).
    rewrite Hk in H1.
    destruct (keep_atoms_erase (keys (p_atoms s)) del (m_atoms g) na (p_atoms s) adj2 He) as [Hea Hsn].
    rewrite Hsn in H1.
    destruct (g_patcher_keep (m_atoms g) (m_adj g) del tetra na adj2 sts stb) as [[[[a1 b1] c1] d1]|e1];
      destruct (g_patcher_keep (m_atoms g) (m_adj g) del tetra (p_atoms s) adj2 sts0 stb) as [[[[a2 b2] c2] d2]|e2].
    + destruct H1 as [E1 B1], H2 as [E2 B2]. rewrite B1 in B2. inversion B2; subst. rewrite E1, E2, Hea. reflexivity.
    + destruct H1 as [E1 B1]. rewrite B1 in H2. discriminate.
    + destruct H2 as [E2 B2]. rewrite B2 in H1. discriminate.
    + rewrite H1 in H2. inversion H2; reflexivity.
  - rewrite HA. reflexivity.
Qed.

(* non-vacuity: CCO with O matched to replacement atom 2; replacement = any-atom 2 with charge -1 and a stereo override,
   a new Element atom 3 (Na, +1, H count 0 from the patch), a new query atom 4 with h clause (2,): *)
Definition ex_ratoms : list (Z * gratom) :=
  [(2, mkGR KAny 0 None (-1) false (Some true) None []); (3, mkGR KElement 11 None 1 false None (Some 0) []);
   (4, mkGR KQuery 7 (Some 15) 0 false None None [2])].
Definition ex_cco : list (Z * atom) :=
  [(1, mkAtom 6 None 0 false (Some 3) None); (2, mkAtom 6 None 0 false (Some 2) None); (5, mkAtom 8 None 0 false (Some 1) None)].
Lemma g_patcher_atoms_example :
  g_patcher_atoms ex_ratoms ex_cco [] [] [(2, 5)] 5 [] =
    Ok ([(5, mkAtom 8 None (-1) false None (Some true)); (6, mkAtom 11 None 1 false (Some 0) None); (7, mkAtom 7 (Some 15) 0 false (Some 2) None)],
        [(5, []); (6, []); (7, [])], [(2, 5); (3, 6); (4, 7)], 7, []) /\
  g_patcher_atoms ex_ratoms ex_cco [] [] [(2, 9)] 5 [] = Err KeyError /\
  g_patcher_atoms ex_ratoms ex_cco [] [] [] 5 [] = Err ValueError.
Proof. vm_compute. repeat split; reflexivity. Qed.

(* ---------- labels and work list of the translated loop, one replacement atom at a time ---------- *)
(* a replacement atom with an image: the stored label is the override of the patch or nothing (the label of the matched atom
   is flushed; the atom is queued in stereo_atoms for the translation loop iff it had one and the patch gives none) *)
Theorem g_patcher_atoms_reused : forall n ra satoms natoms nbonds mapping mx sts m sa,
  truthy_get mapping n = Some m -> zget satoms m = Some sa ->
  exists a, g_patcher_atoms [(n, ra)] satoms natoms nbonds mapping mx sts =
              Ok (zset natoms m a, zset nbonds m [], mapping, mx,
                  if py_is_some (r_stereo ra) then sts else if py_is_some (a_stereo sa) then sts ++ [m] else sts) /\
            a_stereo a = r_stereo ra /\ a_h a = None /\ a_chg a = r_chg ra /\ a_rad a = r_rad ra /\
            (if is_kind KAny ra then a_num a = a_num sa /\ a_iso a = a_iso sa else a_num a = r_num ra /\ a_iso a = r_iso ra).
Proof.
  intros n ra satoms natoms nbonds mapping mx sts m sa Hm Hsa. unfold g_patcher_atoms, py_for. cbn [fold_res]. cbv zeta.
  rewrite Hm, Hsa. destruct ra as [k num iso chg rad st h hs]. unfold is_kind. cbn [r_kind r_num r_iso r_chg r_rad r_stereo r_h r_hs].
  destruct k; cbn match; destruct st as [st|]; cbn [py_is_some]; try (destruct (a_stereo sa); cbn [py_is_some]);
    eexists; (split; [reflexivity|]); cbn; repeat split; reflexivity.
Qed.

(* a replacement atom without image (never an any-atom: ValueError): a new atom numbered max_atom + 1, recorded in the mapping,
   with element, isotope, charge, radical state and label of the patch and the hydrogen count of the patch (Element: as is;
   query atom: the first value of its h clause if it has one) *)
Theorem g_patcher_atoms_new : forall n ra satoms natoms nbonds mapping mx sts,
  truthy_get mapping n = None ->
  if is_kind KAny ra then g_patcher_atoms [(n, ra)] satoms natoms nbonds mapping mx sts = Err ValueError
  else g_patcher_atoms [(n, ra)] satoms natoms nbonds mapping mx sts =
         Ok (zset natoms (mx + 1) (mkAtom (r_num ra) (r_iso ra) (r_chg ra) (r_rad ra)
                                          (if is_kind KElement ra then r_h ra else hd_error (r_hs ra)) (r_stereo ra)),
             zset nbonds (mx + 1) [], zset mapping n (mx + 1), mx + 1, sts).
Proof.
  intros n ra satoms natoms nbonds mapping mx sts Hm. unfold g_patcher_atoms, py_for. cbn [fold_res]. cbv zeta.
  rewrite Hm. destruct ra as [k num iso chg rad st h hs]. unfold is_kind. cbn [r_kind r_num r_iso r_chg r_rad r_stereo r_h r_hs].
  destruct k; cbn match; try reflexivity. destruct hs as [|h0 hr]; reflexivity.
Qed.
