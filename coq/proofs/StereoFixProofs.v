(* C12 extension: the retry loop of fix_stereo (Model.StereoFix), for EVERY chirality function.
   - what survives was saved, and was chiral when it was restored (given the labels restored before it);
   - at the end no dropped label is chiral any more (the loop ran to its fixpoint);
   - if chirality is monotone in the set of present labels: a saved label survives IFF its centre is chiral after the labels of
     the other surviving centres are restored. *)
From Coq Require Import ZArith List Bool Lia Permutation.
From Model Require Import PyBase Graph Stereo StereoRegistry StereoFix.
From Proofs Require Import StereoRegistryProofs.
Import ListNotations.
Open Scope Z_scope.

Lemma centre_eqb_eq x y : centre_eqb x y = true <-> x = y.
Proof.
  destruct x, y; cbn; split; try discriminate; try (intros E; discriminate E).
  - intros H. apply Z.eqb_eq in H. subst. reflexivity.
  - intros E. injection E as ->. apply Z.eqb_refl.
  - intros H. apply Z.eqb_eq in H. subst. reflexivity.
  - intros E. injection E as ->. apply Z.eqb_refl.
  - intros H. apply andb_prop in H. destruct H as [H1 H2]. apply Z.eqb_eq in H1, H2. subst. reflexivity.
  - intros E. injection E as -> ->. rewrite !Z.eqb_refl. reflexivity.
Qed.

Lemma label_eqb_eq x y : label_eqb x y = true <-> x = y.
Proof.
  destruct x as [c s], y as [d t]. unfold label_eqb. cbn [fst snd]. rewrite andb_true_iff, centre_eqb_eq. split.
  - intros [-> H]. apply eqb_prop in H. subst. reflexivity.
  - intros E. injection E as -> ->. split; [reflexivity | apply eqb_reflx].
Qed.

Lemma NoDup_app_l {A} (l l' : list A) : NoDup (l ++ l') -> NoDup l.
Proof.
  induction l as [|x l IH]; cbn; [constructor|]. intros H. inversion H as [|? ? Hx Hr]; subst.
  constructor; [intros Hin; apply Hx; apply in_or_app; left; exact Hin | apply IH; exact Hr].
Qed.

Section LoopProofs.
  Variable chiral : list label -> centre -> bool.

  Lemma filter_nil_all {A} (p : A -> bool) l : filter p l = [] -> forall x, In x l -> p x = false.
  Proof.
    induction l as [|y l IH]; cbn; [intros _ x []|]. destruct (p y) eqn:E; [discriminate|].
    intros H x [<-|Hx]; [exact E | apply IH; assumption].
  Qed.

  Lemma filter_neg_shorter {A} (p : A -> bool) l : filter p l <> [] ->
    (List.length (filter (fun x => negb (p x)) l) < List.length l)%nat.
  Proof.
    induction l as [|y l IH]; cbn; [congruence|]. destruct (p y); cbn.
    - intros _. pose proof (filter_length_le (fun x => negb (p x)) l). lia.
    - intros H. specialize (IH H). lia.
  Qed.

  (* 1. the result is the restored list extended by saved labels; each of them was chiral when it was restored *)
  Theorem fix_loop_justified : forall fuel restored pending,
    exists kept, fix_loop chiral fuel restored pending = restored ++ kept /\ incl kept pending /\
      forall cs, In cs kept -> exists pre tail, kept = pre ++ tail /\ In cs tail /\ chiral (restored ++ pre) (fst cs) = true.
  Proof.
    induction fuel as [|k IH]; intros restored pending; cbn [fix_loop].
    - exists []. rewrite app_nil_r. split; [reflexivity|]. split; [intros ? []|intros ? []].
    - destruct pending as [|p0 pending']; [exists []; rewrite app_nil_r; split; [reflexivity|]; split; [intros ? []|intros ? []]|].
      set (pending := p0 :: pending'). destruct (filter (fun cs => chiral restored (fst cs)) pending) as [|n0 now'] eqn:En.
      + exists []. rewrite app_nil_r. split; [reflexivity|]. split; [intros ? []|intros ? []].
      + set (now := n0 :: now') in *. destruct (IH (restored ++ now) (filter (fun cs => negb (chiral restored (fst cs))) pending)) as (kept' & E & Hi & Hj).
        exists (now ++ kept'). split; [rewrite E, app_assoc; reflexivity|]. split.
        * intros x Hx. apply in_app_or in Hx. destruct Hx as [Hx|Hx].
          -- rewrite <- En in Hx. apply filter_In in Hx. tauto.
          -- apply Hi in Hx. apply filter_In in Hx. tauto.
        * intros cs Hcs. apply in_app_or in Hcs. destruct Hcs as [Hcs|Hcs].
          -- exists [], (now ++ kept'). split; [reflexivity|]. split; [apply in_or_app; left; exact Hcs|]. rewrite app_nil_r.
             rewrite <- En in Hcs. apply filter_In in Hcs. tauto.
          -- destruct (Hj cs Hcs) as (pre & tail & -> & Ht & Hc). exists (now ++ pre), tail.
             split; [rewrite app_assoc; reflexivity|]. split; [exact Ht|]. rewrite app_assoc. exact Hc.
  Qed.

  (* 2. fixpoint: with enough fuel, a saved label that is not in the result is not chiral given the result *)
  Theorem fix_loop_stable : forall fuel restored pending, (List.length pending <= fuel)%nat ->
    forall cs, In cs pending -> In cs (fix_loop chiral fuel restored pending) \/ chiral (fix_loop chiral fuel restored pending) (fst cs) = false.
  Proof.
    induction fuel as [|k IH]; intros restored pending Hf cs Hcs.
    - destruct pending; [destruct Hcs | cbn in Hf; lia].
    - cbn [fix_loop]. destruct pending as [|p0 pending']; [destruct Hcs|].
      set (pending := p0 :: pending') in *. destruct (filter (fun cs => chiral restored (fst cs)) pending) as [|n0 now'] eqn:En.
      + right. apply (filter_nil_all _ _ En cs Hcs).
      + set (now := n0 :: now') in *.
        assert (Hlt : (List.length (filter (fun cs => negb (chiral restored (fst cs))) pending) <= k)%nat).
        { pose proof (filter_neg_shorter (fun cs => chiral restored (fst cs)) pending) as H. rewrite En in H.
          specialize (H ltac:(discriminate)). cbv beta in H. unfold label in *. lia. }
        destruct (chiral restored (fst cs)) eqn:Ec.
        * left. destruct (fix_loop_justified k (restored ++ now) (filter (fun cs => negb (chiral restored (fst cs))) pending)) as (kept & -> & _).
          apply in_or_app. left. apply in_or_app. right. rewrite <- En. apply filter_In. split; assumption.
        * apply (IH (restored ++ now) _ Hlt cs). apply filter_In. split; [exact Hcs | rewrite Ec; reflexivity].
  Qed.

  (* distinct centres stay distinct *)
  Lemma fix_loop_NoDup : forall fuel restored pending, NoDup (map fst (restored ++ pending)) ->
    NoDup (map fst (fix_loop chiral fuel restored pending)).
  Proof.
    induction fuel as [|k IH]; intros restored pending Hn; cbn [fix_loop].
    - rewrite map_app in Hn. apply NoDup_app_l in Hn. exact Hn.
    - destruct pending as [|p0 pending']; [rewrite app_nil_r in Hn; exact Hn|].
      set (pending := p0 :: pending') in *. destruct (filter (fun cs => chiral restored (fst cs)) pending) as [|n0 now'] eqn:En.
      + rewrite map_app in Hn. apply NoDup_app_l in Hn. exact Hn.
      + rewrite <- En. apply IH. rewrite <- app_assoc.
        assert (P : Permutation (restored ++ pending)
                      (restored ++ filter (fun cs => chiral restored (fst cs)) pending ++ filter (fun cs => negb (chiral restored (fst cs))) pending)).
        { apply Permutation_app_head. eapply Permutation_trans; [apply (filter_split_perm (fun cs => chiral restored (fst cs)))|].
          apply Permutation_app_comm. }
        apply (Permutation_NoDup (Permutation_map fst P)). exact Hn.
  Qed.

  Definition others (cs : label) (l : list label) : list label := filter (fun x => negb (label_eqb x cs)) l.

  Lemma others_notin cs l : ~ In cs l -> others cs l = l.
  Proof.
    intros H. unfold others. induction l as [|x l IH]; [reflexivity|]. cbn [filter].
    destruct (label_eqb x cs) eqn:E; [apply label_eqb_eq in E; subst; exfalso; apply H; left; reflexivity|].
    cbn [negb]. f_equal. apply IH. intros Hin. apply H. right. exact Hin.
  Qed.

  (* 3. THE SPECIFICATION: for a chirality function that is monotone in the labels present (more labels never make an unlabelled
     centre non-chiral), a saved label survives fix_stereo iff its centre is chiral after the labels of the OTHER surviving
     centres are restored *)
  Hypothesis chiral_mono : forall R R' c, incl R R' -> (forall s, ~ In (c, s) R') -> chiral R c = true -> chiral R' c = true.

  Theorem fix_stereo_spec (saved : list label) : NoDup (map fst saved) ->
    let result := fix_loop chiral (S (List.length saved)) [] saved in
    forall cs, In cs saved -> (In cs result <-> chiral (others cs result) (fst cs) = true).
  Proof.
    intros Hn result cs Hcs. subst result.
    pose proof (fix_loop_NoDup (S (List.length saved)) [] saved Hn) as Hnd.
    destruct (fix_loop_justified (S (List.length saved)) [] saved) as (kept & E & Hi & Hj). cbn [app] in E. unfold label in *. rewrite E in *.
    split.
    - intros Hin. destruct (Hj cs Hin) as (pre & tail & -> & Ht & Hc). cbn [app] in Hc.
      rewrite map_app in Hnd.
      apply (chiral_mono pre); [| |exact Hc].
      + intros x Hx. unfold others. apply filter_In. split; [apply in_or_app; left; exact Hx|].
        apply negb_true_iff. destruct (label_eqb x cs) eqn:Ex; [|reflexivity]. apply label_eqb_eq in Ex. subst x. exfalso.
        (* cs both in pre and in tail contradicts NoDup on centres *)
        clear -Hnd Hx Ht. induction pre as [|y pre IH]; [destruct Hx|]. cbn [map app] in Hnd. inversion Hnd as [|? ? Hy Hr]; subst.
        destruct Hx as [->|Hx]; [|apply IH; assumption]. apply Hy. apply in_or_app. right. apply in_map. exact Ht.
      + intros s Hs. unfold others in Hs. apply filter_In in Hs. destruct Hs as [Hs Hne].
        assert (Hne' : (fst cs, s) <> cs). { intros Eq. apply negb_true_iff in Hne. apply (proj2 (label_eqb_eq _ _)) in Eq. congruence. }
        (* another label on the same centre contradicts NoDup on centres *)
        assert (Hcs' : In cs (pre ++ tail)) by (apply in_or_app; right; exact Ht).
        clear -Hnd Hs Hcs' Hne'. rewrite <- map_app in Hnd. induction (pre ++ tail) as [|y l IH]; [destruct Hs|].
        cbn [map] in Hnd. inversion Hnd as [|? ? Hy Hr]; subst. destruct Hs as [Ey|Hs], Hcs' as [Ec|Hc].
        * congruence.
        * apply Hy. subst y. cbn [fst]. apply in_map. exact Hc.
        * apply Hy. subst y. apply in_map_iff. exists (fst cs, s). split; [reflexivity | exact Hs].
        * apply IH; assumption.
    - intros Hc. destruct (fix_loop_stable (S (List.length saved)) [] saved (Nat.le_succ_diag_r _) cs Hcs) as [H|H]; unfold label in *; rewrite E in H; [exact H|].
      destruct (in_dec (fun x y => match Bool.bool_dec (label_eqb x y) true with
                                   | left e => left (proj1 (label_eqb_eq x y) e)
                                   | right n => right (fun e => n (proj2 (label_eqb_eq x y) e)) end) cs kept) as [Hin|Hnin]; [exact Hin|].
      rewrite (others_notin cs kept Hnin) in Hc. congruence.
  Qed.
End LoopProofs.

(* ---------- non-vacuity: a pseudo-asymmetric centre (3) between two chiral centres (1, 2) ---------- *)
(* centres 1 and 2 are always chiral; centre 3 is chiral once both others carry labels of different sign; centre 4 never *)
Definition ex_chiral (R : list label) (c : centre) : bool :=
  match c with
  | CT 1 | CT 2 => true
  | CT 3 => match find (fun x => centre_eqb (fst x) (CT 1)) R, find (fun x => centre_eqb (fst x) (CT 2)) R with
            | Some (_, a), Some (_, b) => xorb a b
            | _, _ => false
            end
  | _ => false
  end.

Theorem fix_loop_example :
  fix_loop ex_chiral 5 [] [(CT 1, true); (CT 2, false); (CT 3, true); (CT 4, true)] = [(CT 1, true); (CT 2, false); (CT 3, true)] /\
  fix_loop ex_chiral 5 [] [(CT 1, true); (CT 2, true); (CT 3, true); (CT 4, true)] = [(CT 1, true); (CT 2, true)] /\
  fix_loop ex_chiral 5 [] [(CT 3, true); (CT 4, false)] = [].
Proof. repeat split; vm_compute; reflexivity. Qed.

(* a monotone chirality function (the hypothesis of fix_stereo_spec is satisfiable): centre 1 always chiral, centre 2 chiral once
   centre 1 carries the label `true`, nothing else *)
Definition ex_mono (R : list label) (c : centre) : bool :=
  match c with CT 1 => true | CT 2 => label_mem (CT 1, true) R | _ => false end.

Theorem fix_stereo_spec_example :
  (forall R R' c, incl R R' -> (forall s, ~ In (c, s) R') -> ex_mono R c = true -> ex_mono R' c = true) /\
  NoDup (map fst [(CT 2, false); (CT 1, true); (CT 3, true)]) /\
  fix_loop ex_mono 4 [] [(CT 2, false); (CT 1, true); (CT 3, true)] = [(CT 1, true); (CT 2, false)].
Proof.
  split; [|split; [|vm_compute; reflexivity]].
  - intros R R' c Hi _ H. destruct c as [n|n|a b]; cbn in *; try discriminate.
    destruct n as [|p|p]; try discriminate. destruct p as [p|p|]; try exact H; destruct p; try discriminate.
    unfold label_mem in *. apply existsb_exists in H. destruct H as (x & Hx & E). apply existsb_exists. exists x. split; [apply Hi; exact Hx | exact E].
  - repeat constructor; cbn; intuition discriminate.
Qed.
