(* C15 -- tie by translation: the bodies of ReactionContainer.thiele / kekule / clean_isotopes / implicify_hydrogens / clean_stereo
   (chython/algorithms/standardize/reaction.py) as regenerated from the SOURCE by tools/gen_rxncache.py (Gen.RxnCacheGen) are the
   hand-written flag / flush model Model.RxnCache, for ALL lists of molecule-level results and every cache cell. *)
From Coq Require Import ZArith List Bool Lia.
From Model Require Import PyBase RxnCache.
From Gen Require Import RxnCacheGen.
From Proofs Require Import RxnCacheProofs.
Import ListNotations.
Open Scope Z_scope.

Theorem g_thiele_eq {V} results (cell : option V) : g_thiele results cell = (flag_any results, flush_if (flag_any results) cell).
Proof. reflexivity. Qed.
Theorem g_kekule_eq {V} results (cell : option V) : g_kekule results cell = (flag_any results, flush_if (flag_any results) cell).
Proof. reflexivity. Qed.
Theorem g_clean_isotopes_eq {V} results (cell : option V) : g_clean_isotopes results cell = (flag_any results, flush_if (flag_any results) cell).
Proof. reflexivity. Qed.
Theorem g_implicify_hydrogens_eq {V} counts (cell : option V) :
  g_implicify_hydrogens counts cell = (fold_left Z.add counts 0, flush_if (flag_count counts) cell).
Proof. reflexivity. Qed.
Theorem g_clean_stereo_eq {V} results (cell : option V) : g_clean_stereo results cell = (tt, None).
Proof. reflexivity. Qed.

(* the cache clause of the property about the translated methods: whatever was cached (str, hash, condensed graph), if the value can
   only change when some molecule reports a change, the cached_method answers with the value of the CURRENT molecules afterwards *)
Theorem g_cache_coherent {V} results (cell : option V) (old new : V) :
  (cell = None \/ cell = Some old) -> ((forall r, In r results -> r = false) -> new = old) ->
  fst (cached_read (snd (g_thiele results cell)) new) = new /\
  fst (cached_read (snd (g_kekule results cell)) new) = new /\
  fst (cached_read (snd (g_clean_isotopes results cell)) new) = new /\
  (forall us, fst (cached_read (snd (g_clean_stereo us cell)) new) = new).
Proof.
  intros Hc Hn. rewrite g_thiele_eq, g_kekule_eq, g_clean_isotopes_eq. cbn [snd].
  pose proof (cache_coherent_flag results cell old new Hc Hn) as H. repeat split; try exact H.
Qed.
Theorem g_cache_coherent_count {V} counts (cell : option V) (old new : V) :
  Forall (fun n => 0 <= n) counts -> (cell = None \/ cell = Some old) -> (Forall (fun n => n = 0) counts -> new = old) ->
  fst (cached_read (snd (g_implicify_hydrogens counts cell)) new) = new.
Proof. intros. rewrite g_implicify_hydrogens_eq. cbn [snd]. apply (cache_coherent_count counts cell old new); assumption. Qed.
Example g_cache_example :
  g_thiele [true; false] (Some 1) = (true, None) /\ g_thiele [false; false] (Some 1) = (false, Some 1) /\
  g_implicify_hydrogens [0; 2; 0] (Some 1) = (2, None) /\ g_implicify_hydrogens [0; 0] (Some 1) = (0, Some 1).
Proof. repeat split. Qed.
