(* C11: the block round trips of MdlV2000.v / MdlV3000.v with an ARBITRARY TAIL of further lines after the written block
   (the parsers stop at "M  END" / "END CTAB"), the shape of the written lines, and the first character of a text
   that float() accepts.  Used by the reaction blocks (MdlRxn.v) and by the record theorems. *)
From Coq Require Import ZArith List String Ascii Bool Lia.
From Model Require Import PyBase Mdl.
From Gen Require Import MdlTables.
From Proofs Require Import MdlProofs MdlV2000 MdlV3000.
Import ListNotations.
Open Scope Z_scope.
Local Notation length := List.length.
Local Notation concat := List.concat.

(* ================================================================================================ *)
(** * V2000 with a tail *)

Lemma foldM_prop_done tail : forall st, st_done st = true -> foldM v2_prop_line tail st = Ok st.
Proof.
  induction tail as [|x tail IH]; intros st H; [reflexivity|].
  cbn [foldM]. rewrite v2_prop_done by exact H. cbn [bind]. apply IH. exact H.
Qed.

Theorem v2000_fields_roundtrip_tail mapping g fs :
  Forall2 wf_atom (wm_atoms g) fs ->
  wm_atoms g <> [] ->
  (length (wm_atoms g) <= 999)%nat ->
  (length (wm_bonds g) <= 999)%nat ->
  NoDup (map wa_num (wm_atoms g)) ->
  Forall (bond_ok (wm_atoms g)) (wm_bonds g) ->
  Forall (wedge_ok (wm_atoms g) (wm_bonds g)) (wm_wedge g) ->
  (length (wm_wedge g) + length (plain_bonds g) = length (wm_bonds g))%nat ->
  exists lines, write_mol_v2000 mapping g = Ok lines /\
    forall tail, parse_mol_v2000 (map add_nl lines ++ tail) =
    Ok (mk_parsed (title_of (wm_name g))
                  (map2 (expected_atom mapping) (wm_atoms g) fs)
                  (map (exp_wedge_bond (wm_atoms g) (wm_bonds g)) (wm_wedge g) ++ map (exp_plain_bond (wm_atoms g)) (plain_bonds g))
                  (map (exp_wedge_stereo (wm_atoms g)) (wm_wedge g))
                  []).
Proof.
  intros Hwf Hne Hna Hnb Hnd Hb Hw Hcnt.
  assert (Hex : existsb (fun a => 999 <? wa_num a) (wm_atoms g) = false).
  { apply not_true_iff_false. intros H. apply existsb_exists in H. destruct H as [a [Hin Hgt]].
    destruct (Forall2_in_l _ _ _ _ Hwf Hin) as [f [W _]]. destruct W. apply Z.ltb_lt in Hgt. lia. }
  destruct (mapM_write_parse2 (v2_atom_line mapping) v2_parse_atom (raw_atom3 mapping) (wm_atoms g) fs) as [al [Hal [Hlal Hpal]]].
  { eapply Forall2_imp; [|exact Hwf]. intros a f [W _].
    destruct (v2_atom_roundtrip mapping a _ _ _ W) as [line [Hl Hp]]. exists line. split; [exact Hl|].
    unfold add_nl. rewrite Hp. reflexivity. }
  set (gw := fun w => (exp_wedge_bond (wm_atoms g) (wm_bonds g) w, [exp_wedge_stereo (wm_atoms g) w], @nil str)).
  set (gp := fun b => (exp_plain_bond (wm_atoms g) b, @nil (Z * Z * Z), @nil str)).
  destruct (mapM_write_parse (v2_wedge_line (index_map (wm_atoms g)) (wm_bonds g)) v2_parse_bond gw (wm_wedge g)) as [wl [Hwl [Hlwl Hpwl]]].
  { eapply Forall_impl; [|exact Hw]. intros w Hw'. unfold add_nl. apply wedge_line_roundtrip; assumption. }
  destruct (mapM_write_parse (v2_plain_line (index_map (wm_atoms g))) v2_parse_bond gp (plain_bonds g)) as [bl [Hbl [Hlbl Hpbl]]].
  { apply Forall_forall. intros b Hin. unfold plain_bonds in Hin. apply filter_In in Hin. destruct Hin as [Hin _].
    rewrite Forall_forall in Hb. unfold add_nl. apply plain_line_roundtrip; auto. }
  rewrite write_mol_v2000_unfold by assumption. rewrite Hal, Hwl, Hbl. cbn [bind].
  eexists. split; [reflexivity|]. intros tail.
  set (bs := map gw (wm_wedge g) ++ map gp (plain_bonds g)).
  assert (Hlog : concat (map snd bs) = []).
  { subst bs gw gp. rewrite map_app, concat_app, !map_map. cbn [snd]. rewrite !concat_map_nil. reflexivity. }
  replace (map add_nl ([wm_name g; []; []; v2_counts_line (Z.of_nat (length (wm_atoms g))) (Z.of_nat (length (wm_bonds g)))] ++
                       al ++ wl ++ bl ++ prop_lines_of 1 (wm_atoms g) ++ [L "M  END"]) ++ tail)
    with (add_nl (wm_name g) :: add_nl [] :: add_nl [] ::
          add_nl (v2_counts_line (Z.of_nat (length (wm_atoms g))) (Z.of_nat (length (wm_bonds g)))) ::
          map add_nl al ++ map add_nl (wl ++ bl) ++ (map add_nl (prop_lines_of 1 (wm_atoms g)) ++ (map add_nl [L "M  END"] ++ tail)))
    by (rewrite !map_app, <- !app_assoc; reflexivity).
  destruct (v2_counts_roundtrip (Z.of_nat (length (wm_atoms g))) (Z.of_nat (length (wm_bonds g))) [nl]) as [Hc1 Hc2]; [lia | lia |].
  rewrite (parse_structured _ _ _ _ _ _ _ (length (wm_atoms g)) (length (wm_bonds g))
             (map2 (raw_atom3 mapping) (wm_atoms g) fs) bs
             (mk_st (map2 (expected_atom mapping) (wm_atoms g) fs) [] [] true)).
  - rewrite title_add_nl. cbn [st_atoms st_log]. f_equal. f_equal.
    + subst bs gw gp. rewrite map_app, !map_map. cbn [fst snd]. reflexivity.
    + subst bs gw gp. rewrite map_app, concat_app, !map_map. cbn [fst snd].
      rewrite concat_map_single, concat_map_nil, app_nil_r. reflexivity.
  - exact Hc1.
  - exact Hc2.
  - intros E. apply length_zero_iff_nil in E. contradiction.
  - rewrite map_length. exact Hlal.
  - rewrite map_length, app_length, Hlwl, Hlbl. exact Hcnt.
  - exact Hpal.
  - rewrite map_app. apply mapM_app; assumption.
  - rewrite Hlog.
    pose proof (props_block mapping [] [] (wm_atoms g) fs Hwf [] (map add_nl [L "M  END"] ++ tail)) as P.
    cbn [length app] in P. change (1 + Z.of_nat 0) with 1 in P. rewrite P by (cbn [Nat.add]; lia).
    cbn [map app foldM]. unfold add_nl. rewrite v2_prop_end by reflexivity. cbn [bind].
    apply foldM_prop_done. reflexivity.
  - reflexivity.
Qed.

(* ================================================================================================ *)
(** * V3000 with a tail *)

Lemma foldM_sgroup_done ats tail : forall atoms log,
  foldM (v3_sgroup_line ats) tail (atoms, log, 2%nat) = Ok (atoms, log, 2%nat).
Proof.
  induction tail as [|x tail IH]; intros atoms log; [reflexivity|].
  cbn [foldM]. unfold v3_sgroup_line at 1. cbn [bind]. apply IH.
Qed.

Lemma v3_sgroup_end_tail ats atoms log X :
  foldM (v3_sgroup_line ats) (L "END CTAB" :: X) (atoms, log, 0%nat) = Ok (atoms, log, 2%nat).
Proof.
  cbn [foldM]. change (v3_sgroup_line ats (atoms, log, 0%nat) (L "END CTAB")) with (Ok (atoms, log, 2%nat)).
  cbn [bind]. apply foldM_sgroup_done.
Qed.

(* parse_ctab_structured of MdlV3000.v with anything after the joined "END CTAB" *)
Lemma parse_ctab_structured_tail title l0 l1 l2 rest AB BB X na nb ats bs :
  split_ws (slice_from 13 l1) = [zstr (Z.of_nat na); zstr (Z.of_nat nb); L "0"; L "0"; L "0"] -> na <> 0%nat ->
  v3_join rest [] = AB ++ [L "END ATOM"; L "BEGIN BOND"] ++ BB ++ [L "END BOND"] ++ L "END CTAB" :: X ->
  length AB = na -> length BB = nb ->
  foldM v3_parse_atom AB (mk_v3a [] [] []) = Ok ats ->
  foldM (v3_parse_bond ats) BB (mk_v3b [] [] []) = Ok bs ->
  parse_ctab_v3000 title (l0 :: l1 :: l2 :: rest) =
  Ok (mk_parsed3 (mk_parsed title (v3_atoms ats) (v3_bonds bs) (v3_stereo bs) (v3_log bs)) []).
Proof.
  intros Hc Hna Hj HAB HBB Hat Hbs.
  unfold parse_ctab_v3000. cbn [nth_error of_opt bind]. rewrite Hc. rewrite !py_int_zstr. cbn [bind].
  replace (Z.of_nat na =? 0) with false by (symmetry; apply Z.eqb_neq; lia).
  replace ((Z.of_nat na <? 0) || (Z.of_nat nb <? 0)) with false
    by (symmetry; apply orb_false_intro; apply Z.ltb_ge; lia).
  cbn [fold_left]. change (split1 "="%char (L "0")) with (@None (str * str)). cbv iota zeta beta.
  rewrite !Nat2Z.id. cbn [skipn]. rewrite Hj.
  rewrite (firstn_app_exact AB _ na HAB). rewrite Hat. cbn [bind].
  replace (AB ++ [L "END ATOM"; L "BEGIN BOND"] ++ BB ++ [L "END BOND"] ++ L "END CTAB" :: X)
    with ((AB ++ [L "END ATOM"; L "BEGIN BOND"]) ++ BB ++ ([L "END BOND"] ++ L "END CTAB" :: X))
    by (rewrite <- app_assoc; reflexivity).
  rewrite (lslice_mid (AB ++ [L "END ATOM"; L "BEGIN BOND"]) BB _ (2 + na) nb)
    by (try assumption; rewrite app_length, HAB; cbn [length]; lia).
  rewrite Hbs. cbn [bind].
  replace ((AB ++ [L "END ATOM"; L "BEGIN BOND"]) ++ BB ++ ([L "END BOND"] ++ L "END CTAB" :: X))
    with (((AB ++ [L "END ATOM"; L "BEGIN BOND"]) ++ BB ++ [L "END BOND"]) ++ L "END CTAB" :: X)
    by (rewrite <- !app_assoc; reflexivity).
  rewrite (skipn_app_exact _ (L "END CTAB" :: X) (3 + na + nb))
    by (rewrite !app_length, HAB, HBB; cbn [length]; lia).
  rewrite v3_sgroup_end_tail. cbn [bind]. reflexivity.
Qed.

Theorem v3000_ctab_roundtrip_tail mapping g fs :
  Forall2 wf3_atom (wm_atoms g) fs ->
  wm_atoms g <> [] ->
  NoDup (map wa_num (wm_atoms g)) ->
  Forall (bond_ok (wm_atoms g)) (wm_bonds g) ->
  Forall (wedge_ok (wm_atoms g) (wm_bonds g)) (wm_wedge g) ->
  (length (wm_wedge g) + length (plain_bonds g) = length (wm_bonds g))%nat ->
  exists lines, write_ctab_v3000 mapping g = Ok lines /\
    forall title tail, parse_ctab_v3000 title (map add_nl lines ++ tail) =
    Ok (mk_parsed3
          (mk_parsed title
                     (map2 (expected_atom mapping) (wm_atoms g) fs)
                     (map (exp_wedge_bond (wm_atoms g) (wm_bonds g)) (wm_wedge g) ++ map (exp_plain_bond (wm_atoms g)) (plain_bonds g))
                     (map (exp_wedge_stereo (wm_atoms g)) (wm_wedge g))
                     [])
          []).
Proof.
  intros Hwf Hne Hnd Hb Hw Hcnt.
  set (AB := map (fun na => atom_body mapping (fst na) (snd na)) (enum_from 1 (wm_atoms g))).
  set (WB := map (wedge_body (wm_atoms g) (wm_bonds g)) (enum_from 1 (wm_wedge g))).
  set (PB := map (plain_body (wm_atoms g)) (enum_from (1 + Z.of_nat (length (wm_wedge g))) (plain_bonds g))).
  assert (Hpl : Forall (bond_ok (wm_atoms g)) (plain_bonds g)).
  { apply Forall_forall. intros b Hin. unfold plain_bonds in Hin. apply filter_In in Hin. destruct Hin as [Hin _].
    rewrite Forall_forall in Hb. apply Hb. exact Hin. }
  assert (Hwe : forall s, Forall (fun iw => wedge_ok (wm_atoms g) (wm_bonds g) (snd iw)) (enum_from s (wm_wedge g))).
  { intros s. apply Forall_forall. intros [i w] Hin. cbn [snd]. rewrite Forall_forall in Hw. apply Hw. eapply enum_from_in. exact Hin. }
  assert (Hpe : forall s, Forall (fun ib => bond_ok (wm_atoms g) (snd ib)) (enum_from s (plain_bonds g))).
  { intros s. apply Forall_forall. intros [i w] Hin. cbn [snd]. rewrite Forall_forall in Hpl. apply Hpl. eapply enum_from_in. exact Hin. }
  assert (Hal : map (fun na => v3_atom_line mapping (fst na) (snd na)) (enum_from 1 (wm_atoms g)) = map (fun b => pfx ++ b) AB).
  { subst AB. rewrite map_map. apply map_ext. intros na. apply v3_atom_line_body. }
  assert (Hwl : mapM (v3_wedge_line (index_map (wm_atoms g)) (wm_bonds g)) (enum_from 1 (wm_wedge g)) = Ok (map (fun b => pfx ++ b) WB)).
  { subst WB. rewrite map_map. apply mapM_ok_map. eapply Forall_impl; [|apply Hwe]. intros iw H. apply v3_wedge_line_body; assumption. }
  assert (Hbl : mapM (v3_plain_line (index_map (wm_atoms g))) (enum_from (1 + Z.of_nat (length (wm_wedge g))) (plain_bonds g)) =
                Ok (map (fun b => pfx ++ b) PB)).
  { subst PB. rewrite map_map. apply mapM_ok_map. eapply Forall_impl; [|apply Hpe]. intros ib H. apply v3_plain_line_body; assumption. }
  unfold write_ctab_v3000. cbv zeta. rewrite Hal, Hwl, Hbl. cbn [bind].
  eexists. split; [reflexivity|]. intros title tail.
  set (na := length (wm_atoms g)). set (nb := length (wm_bonds g)).
  match goal with |- parse_ctab_v3000 _ ?x = _ => replace x
    with (add_nl (L "M  V30 BEGIN CTAB") :: add_nl (v3_counts_line (Z.of_nat na) (Z.of_nat nb)) :: add_nl (L "M  V30 BEGIN ATOM") ::
          (map (fun b => add_nl (pfx ++ b)) (AB ++ [L "END ATOM"; L "BEGIN BOND"] ++ (WB ++ PB) ++ [L "END BOND"; L "END CTAB"]) ++
           tail)) end.
  2:{ rewrite !map_app, !map_map, <- !app_assoc. reflexivity. }
  rewrite (parse_ctab_structured_tail _ _ _ _ _ AB (WB ++ PB) (v3_join tail []) na nb
             (mk_v3a (map2 (expected_atom mapping) (wm_atoms g) fs) (atom_map na) [])
             (mk_v3b (map (exp_wedge_bond (wm_atoms g) (wm_bonds g)) (wm_wedge g) ++ map (exp_plain_bond (wm_atoms g)) (plain_bonds g))
                     (map (exp_wedge_stereo (wm_atoms g)) (wm_wedge g)) [])).
  - reflexivity.
  - apply v3_counts_roundtrip.
  - subst na. intros E. apply length_zero_iff_nil in E. contradiction.
  - rewrite v3_join_bodies.
    + rewrite <- !app_assoc. reflexivity.
    + pose proof fixed_bodies_ok as F. inversion F as [|? ? F1 F']; subst. inversion F' as [|? ? F2 F'']; subst.
      apply Forall_app. split.
      { subst AB. apply Forall_forall. intros b Hin. apply in_map_iff in Hin. destruct Hin as [x [<- _]]. apply atom_body_ok. }
      constructor; [exact F1|]. constructor; [exact F2|]. apply Forall_app. split; [|exact F''].
      apply Forall_app. split.
      { subst WB. apply Forall_forall. intros b Hin. apply in_map_iff in Hin. destruct Hin as [x [<- _]]. apply wedge_body_ok. }
      { subst PB. apply Forall_forall. intros b Hin. apply in_map_iff in Hin. destruct Hin as [x [<- _]]. apply plain_body_ok. }
  - subst AB. rewrite map_length, enum_from_length. reflexivity.
  - subst WB PB. rewrite app_length, !map_length, !enum_from_length. exact Hcnt.
  - subst AB. rewrite (atoms_block mapping _ _ Hwf 1 [] [] []). reflexivity.
  - subst WB PB. rewrite foldM_app.
    match goal with |- context [v3_parse_bond ?a] => set (ats := a) end.
    rewrite (wedge_block (wm_atoms g) (wm_bonds g) ats Hnd Hb eq_refl eq_refl _ (Hwe 1)). cbn [bind].
    rewrite (plain_block (wm_atoms g) ats Hnd eq_refl eq_refl _ (Hpe _)).
    cbn [v3_bonds v3_stereo v3_log app]. rewrite !map_snd_enum. reflexivity.
Qed.

Theorem v3000_fields_roundtrip_tail mapping g fs :
  Forall2 wf3_atom (wm_atoms g) fs ->
  wm_atoms g <> [] ->
  NoDup (map wa_num (wm_atoms g)) ->
  Forall (bond_ok (wm_atoms g)) (wm_bonds g) ->
  Forall (wedge_ok (wm_atoms g) (wm_bonds g)) (wm_wedge g) ->
  (length (wm_wedge g) + length (plain_bonds g) = length (wm_bonds g))%nat ->
  exists lines, write_mol_v3000 mapping g = Ok lines /\
    forall tail, parse_mol_v3000 (map add_nl lines ++ tail) =
    Ok (mk_parsed3
          (mk_parsed (title_of (wm_name g))
                     (map2 (expected_atom mapping) (wm_atoms g) fs)
                     (map (exp_wedge_bond (wm_atoms g) (wm_bonds g)) (wm_wedge g) ++ map (exp_plain_bond (wm_atoms g)) (plain_bonds g))
                     (map (exp_wedge_stereo (wm_atoms g)) (wm_wedge g))
                     [])
          []).
Proof.
  intros Hwf Hne Hnd Hb Hw Hcnt.
  destruct (v3000_ctab_roundtrip_tail mapping g fs Hwf Hne Hnd Hb Hw Hcnt) as [c [Hc Hp]].
  unfold write_mol_v3000. rewrite Hc. cbn [bind]. eexists. split; [reflexivity|]. intros tail.
  unfold v3_header. rewrite map_app, <- app_assoc. cbn [map app].
  unfold parse_mol_v3000. cbn [nth_error of_opt bind skipn]. rewrite title_add_nl.
  rewrite map_app, <- app_assoc. apply Hp.
Qed.

(* ================================================================================================ *)
(** * The first character of a text that float() accepts *)

Definition float_first : str := L "+-.0123456789iInN".

Definition float_signed (t : str) : option fval :=
  match t with
  | "-"%char :: d => match float_unsigned d with
                     | Some (FDec m e) => Some (FDec (- m) e)
                     | Some (FInf _) => Some (FInf true)
                     | x => x
                     end
  | "+"%char :: d => float_unsigned d
  | _ => float_unsigned t
  end.
Lemma py_float_signed s : py_float s = match float_signed (strip_by is_cspace s) with Some v => Ok v | None => Err ValueError end.
Proof. reflexivity. Qed.

(* every test of float_signed on a non-empty text is decided by its first character *)
Lemma float_signed_bad c r : amem c float_first = false -> float_signed (c :: r) = None.
Proof.
  destruct c as [[] [] [] [] [] [] [] []]; intros H; try (vm_compute in H; discriminate H); reflexivity.
Qed.

Lemma rstrip_by_keep_head f c r : f c = false -> exists r', rstrip_by f (c :: r) = c :: r'.
Proof.
  intros H. unfold rstrip_by. cbn [rev]. rewrite lstrip_by_app.
  destruct (lstrip_by f (rev r)) as [|x l].
  - cbn [lstrip_by]. rewrite H. exists []. reflexivity.
  - rewrite rev_app_distr. cbn [rev app]. eexists. reflexivity.
Qed.
Lemma strip_by_keep_head f c r : f c = false -> exists r', strip_by f (c :: r) = c :: r'.
Proof. intros H. unfold strip_by. rewrite lstrip_by_stop by exact H. apply rstrip_by_keep_head. exact H. Qed.

Theorem py_float_first_char c r f : py_float (c :: r) = Ok f -> is_cspace c = true \/ In c float_first.
Proof.
  intros H. destruct (is_cspace c) eqn:Ec; [left; reflexivity | right].
  destruct (amem c float_first) eqn:Ea.
  - unfold amem in Ea. apply existsb_exists in Ea. destruct Ea as [x [Hin Hx]]. apply Ascii.eqb_eq in Hx. subst x. exact Hin.
  - exfalso. rewrite py_float_signed in H. destruct (strip_by_keep_head is_cspace c r Ec) as [r' E]. rewrite E in H.
    rewrite float_signed_bad in H by exact Ea. discriminate H.
Qed.
Lemma py_float_first_char_b c r f : py_float (c :: r) = Ok f -> is_cspace c || amem c float_first = true.
Proof.
  intros H. destruct (py_float_first_char c r f H) as [E | E]; [rewrite E; reflexivity|].
  apply orb_true_intro. right. unfold amem. apply existsb_exists. exists c. split; [exact E | apply ascii_eqb_refl].
Qed.
Lemma py_float_nonempty x f : py_float x = Ok f -> x <> [].
Proof. intros H E. subst x. discriminate H. Qed.

Lemma float_first_not_marker c : is_cspace c || amem c float_first = true ->
  Ascii.eqb "$"%char c = false /\ Ascii.eqb "M"%char c = false.
Proof.
  destruct c as [[] [] [] [] [] [] [] []]; intros H; first [split; reflexivity | vm_compute in H; discriminate H].
Qed.

(* a field that float() accepts, followed by anything, starts neither with "$" nor with "M" *)
Corollary py_float_not_dollar x f rest : py_float x = Ok f -> startswith (L "$") (x ++ rest) = false.
Proof.
  intros H. destruct x as [|c r]; [discriminate H|]. apply py_float_first_char_b in H.
  destruct (float_first_not_marker c H) as [E _]. cbn [app]. change (L "$") with ["$"%char]. cbn [startswith]. rewrite E. reflexivity.
Qed.
Corollary py_float_not_M x f rest : py_float x = Ok f -> startswith (L "M") (x ++ rest) = false.
Proof.
  intros H. destruct x as [|c r]; [discriminate H|]. apply py_float_first_char_b in H.
  destruct (float_first_not_marker c H) as [_ E]. cbn [app]. change (L "M") with ["M"%char]. cbn [startswith]. rewrite E. reflexivity.
Qed.
(* hence no marker that begins with one of these characters *)
Lemma startswith_head_false c p s : startswith [c] s = false -> startswith (c :: p) s = false.
Proof. destruct s as [|d s]; [reflexivity|]. cbn [startswith]. rewrite andb_true_r. intros ->. reflexivity. Qed.
Corollary py_float_not_dollar_p p x f rest : py_float x = Ok f -> startswith ("$"%char :: p) (x ++ rest) = false.
Proof. intros H. apply startswith_head_false. apply (py_float_not_dollar x f rest H). Qed.
Corollary py_float_not_M_p p x f rest : py_float x = Ok f -> startswith ("M"%char :: p) (x ++ rest) = false.
Proof. intros H. apply startswith_head_false. apply (py_float_not_M x f rest H). Qed.

(* ================================================================================================ *)
(** * Shape of the written lines (no hypothesis other than that the writer succeeds) *)

Lemma mapM_Forall2 {A B} (f : A -> pyres B) l : forall r, mapM f l = Ok r -> Forall2 (fun x y => f x = Ok y) l r.
Proof.
  induction l as [|x l IH]; intros r H; cbn [mapM] in H.
  - inversion H. constructor.
  - destruct (f x) as [y|e] eqn:E; cbn [bind] in H; [|discriminate].
    destruct (mapM f l) as [ys|e]; cbn [bind] in H; [|discriminate]. inversion H. constructor; [exact E | apply IH; reflexivity].
Qed.
Lemma mapM_Forall {A B} (f : A -> pyres B) (P : B -> Prop) l r :
  mapM f l = Ok r -> (forall x y, f x = Ok y -> P y) -> Forall P r.
Proof.
  intros H HP. apply mapM_Forall2 in H. induction H as [|x y l r Hxy _ IH]; constructor; [eapply HP; exact Hxy | exact IH].
Qed.
Lemma mapM_length {A B} (f : A -> pyres B) l r : mapM f l = Ok r -> length r = length l.
Proof. intros H. apply mapM_Forall2 in H. induction H; cbn [length]; congruence. Qed.

Definition starts_x (a : watom) (line : str) : Prop := exists r, line = wa_x a ++ r.
Definition starts_fmt3 (line : str) : Prop := exists i r, line = fmt_d 3 i ++ r.
Definition starts_prop (line : str) : Prop := exists r, line = L "M  ISO" ++ r \/ line = L "M  RAD" ++ r \/ line = L "M  CHG" ++ r.

Lemma v2_atom_line_starts mapping a line : v2_atom_line mapping a = Ok line -> starts_x a line.
Proof.
  unfold v2_atom_line. destruct (w_charge (wa_chg a)) as [c|e]; cbn [bind]; intros H; [|discriminate].
  inversion H. eexists. reflexivity.
Qed.
Lemma v2_wedge_line_starts im bonds w line : v2_wedge_line im bonds w = Ok line -> starts_fmt3 line.
Proof.
  destruct w as [[n m] s]. unfold v2_wedge_line.
  destruct (idx im n) as [i|e]; cbn [bind]; [|discriminate]. destruct (idx im m) as [j|e]; cbn [bind]; [|discriminate].
  destruct (bond_order bonds n m) as [o|e]; cbn [bind]; [|discriminate].
  intros H. inversion H. unfold v2_bond_line. eexists. eexists. reflexivity.
Qed.
Lemma v2_plain_line_starts im b line : v2_plain_line im b = Ok line -> starts_fmt3 line.
Proof.
  destruct b as [[n m] o]. unfold v2_plain_line.
  destruct (idx im n) as [i|e]; cbn [bind]; [|discriminate]. destruct (idx im m) as [j|e]; cbn [bind]; [|discriminate].
  intros H. inversion H. unfold v2_bond_line. eexists. eexists. reflexivity.
Qed.
Lemma v2_prop_lines_start n a : Forall starts_prop (v2_prop_lines n a).
Proof.
  unfold v2_prop_lines. repeat (apply Forall_app; split).
  - destruct (iso_truthy (wa_iso a)); constructor; [|constructor]. eexists. left. change (L "M  ISO  1 ") with (L "M  ISO" ++ L "  1 ").
    rewrite <- app_assoc. reflexivity.
  - destruct (wa_rad a); constructor; [|constructor]. eexists. right. left. change (L "M  RAD  1 ") with (L "M  RAD" ++ L "  1 ").
    rewrite <- app_assoc. reflexivity.
  - destruct ((wa_chg a =? -4) || (wa_chg a =? 4)); constructor; [|constructor]. eexists. right. right.
    change (L "M  CHG  1 ") with (L "M  CHG" ++ L "  1 "). rewrite <- app_assoc. reflexivity.
Qed.
Lemma prop_lines_of_start atoms : forall s, Forall starts_prop (prop_lines_of s atoms).
Proof.
  induction atoms as [|a atoms IH]; intros s; [constructor|].
  unfold prop_lines_of. cbn [length zrange_from combine map concat fst snd]. apply Forall_app. split; [apply v2_prop_lines_start | apply IH].
Qed.

(* header (4 lines), one line per atom, bond lines, property lines, "M  END" *)
Theorem write_mol_v2000_shape mapping g lines : write_mol_v2000 mapping g = Ok lines ->
  wm_atoms g <> [] /\
  exists al bl pl,
    lines = [wm_name g; []; []; v2_counts_line (Z.of_nat (length (wm_atoms g))) (Z.of_nat (length (wm_bonds g)))] ++
            al ++ bl ++ pl ++ [L "M  END"] /\
    length al = length (wm_atoms g) /\
    Forall2 starts_x (wm_atoms g) al /\ Forall starts_fmt3 bl /\ Forall starts_prop pl.
Proof.
  intros H.
  assert (Hne : wm_atoms g <> []).
  { intros E. unfold write_mol_v2000 in H. rewrite E in H. discriminate H. }
  split; [exact Hne|].
  assert (Hex : existsb (fun a => 999 <? wa_num a) (wm_atoms g) = false).
  { destruct (existsb (fun a => 999 <? wa_num a) (wm_atoms g)) eqn:E; [|reflexivity].
    unfold write_mol_v2000 in H. rewrite E in H. destruct (wm_atoms g); discriminate H. }
  rewrite write_mol_v2000_unfold in H by assumption.
  destruct (mapM (v2_atom_line mapping) (wm_atoms g)) as [al|e] eqn:Hal; cbn [bind] in H; [|discriminate].
  destruct (mapM (v2_wedge_line (index_map (wm_atoms g)) (wm_bonds g)) (wm_wedge g)) as [wl|e] eqn:Hwl; cbn [bind] in H; [|discriminate].
  destruct (mapM (v2_plain_line (index_map (wm_atoms g))) (plain_bonds g)) as [bl|e] eqn:Hbl; cbn [bind] in H; [|discriminate].
  inversion H as [E]. exists al, (wl ++ bl), (prop_lines_of 1 (wm_atoms g)).
  split; [rewrite <- !app_assoc; reflexivity|]. split; [eapply mapM_length; exact Hal|]. split; [|split].
  - apply mapM_Forall2 in Hal. eapply Forall2_imp; [|exact Hal]. intros a l. apply v2_atom_line_starts.
  - apply Forall_app. split.
    + eapply mapM_Forall; [exact Hwl|]. intros x y. apply v2_wedge_line_starts.
    + eapply mapM_Forall; [exact Hbl|]. intros x y. apply v2_plain_line_starts.
  - apply prop_lines_of_start.
Qed.

(* V3000: "M  V30 BEGIN CTAB", then lines "M  V30 " ++ body; atom and bond lines begin (after the prefix) with a number *)
Definition starts_v30 (line : str) : Prop := exists r, line = L "M  V30 " ++ r.
Definition starts_v30_num (line : str) : Prop := exists n r, line = L "M  V30 " ++ zstr n ++ r.

Lemma v3_wedge_line_starts im bonds iw line : v3_wedge_line im bonds iw = Ok line -> starts_v30_num line.
Proof.
  destruct iw as [i [[n m] s]]. unfold v3_wedge_line.
  destruct (bond_order bonds n m) as [o|e]; cbn [bind]; [|discriminate].
  destruct (idx im n) as [a|e]; cbn [bind]; [|discriminate]. destruct (idx im m) as [b|e]; cbn [bind]; [|discriminate].
  intros H. inversion H. unfold v3_bond_line. eexists. eexists. reflexivity.
Qed.
Lemma v3_plain_line_starts im ib line : v3_plain_line im ib = Ok line -> starts_v30_num line.
Proof.
  destruct ib as [i [[n m] o]]. unfold v3_plain_line.
  destruct (idx im n) as [a|e]; cbn [bind]; [|discriminate]. destruct (idx im m) as [b|e]; cbn [bind]; [|discriminate].
  intros H. inversion H. unfold v3_bond_line. eexists. eexists. reflexivity.
Qed.

Theorem write_ctab_v3000_shape mapping g lines : write_ctab_v3000 mapping g = Ok lines ->
  exists al bl,
    lines = [L "M  V30 BEGIN CTAB";
             L "M  V30 COUNTS " ++ zstr (Z.of_nat (length (wm_atoms g))) ++ [sp] ++ zstr (Z.of_nat (length (wm_bonds g))) ++ L " 0 0 0";
             L "M  V30 BEGIN ATOM"] ++ al ++ [L "M  V30 END ATOM"; L "M  V30 BEGIN BOND"] ++ bl ++
            [L "M  V30 END BOND"; L "M  V30 END CTAB"] /\
    length al = length (wm_atoms g) /\ Forall starts_v30_num al /\ Forall starts_v30_num bl.
Proof.
  unfold write_ctab_v3000. cbv zeta. intros H.
  destruct (mapM (v3_wedge_line (index_map (wm_atoms g)) (wm_bonds g)) (enum_from 1 (wm_wedge g))) as [wl|e] eqn:Hwl; cbn [bind] in H; [|discriminate].
  destruct (mapM (v3_plain_line (index_map (wm_atoms g))) (enum_from (1 + Z.of_nat (length (wm_wedge g))) (plain_bonds g))) as [bl|e] eqn:Hbl;
    cbn [bind] in H; [|discriminate].
  inversion H as [E]. exists (map (fun na => v3_atom_line mapping (fst na) (snd na)) (enum_from 1 (wm_atoms g))), (wl ++ bl).
  split; [rewrite <- !app_assoc; reflexivity|]. split; [|split].
  - rewrite map_length, enum_from_length. reflexivity.
  - apply Forall_forall. intros l Hin. apply in_map_iff in Hin. destruct Hin as [x [<- _]]. unfold v3_atom_line. cbv zeta.
    eexists. eexists. reflexivity.
  - apply Forall_app. split.
    + eapply mapM_Forall; [exact Hwl|]. intros x y. apply v3_wedge_line_starts.
    + eapply mapM_Forall; [exact Hbl|]. intros x y. apply v3_plain_line_starts.
Qed.

Lemma starts_v30_num_v30 l : starts_v30_num l -> starts_v30 l.
Proof. intros [n [r ->]]. eexists. reflexivity. Qed.
Corollary write_ctab_v3000_all_v30 mapping g lines : write_ctab_v3000 mapping g = Ok lines -> Forall starts_v30 lines.
Proof.
  intros H. destruct (write_ctab_v3000_shape mapping g lines H) as [al [bl [-> [_ [Ha Hb]]]]].
  assert (Ha' : Forall starts_v30 al) by (eapply Forall_impl; [apply starts_v30_num_v30 | assumption]).
  assert (Hb' : Forall starts_v30 bl) by (eapply Forall_impl; [apply starts_v30_num_v30 | assumption]).
  apply Forall_app. split.
  - constructor; [eexists; reflexivity|]. constructor; [|constructor; [eexists; reflexivity | constructor]].
    exists (L "COUNTS " ++ zstr (Z.of_nat (length (wm_atoms g))) ++ [sp] ++ zstr (Z.of_nat (length (wm_bonds g))) ++ L " 0 0 0"). reflexivity.
  - apply Forall_app. split; [exact Ha'|]. apply Forall_app. split; [repeat constructor; eexists; reflexivity|].
    apply Forall_app. split; [exact Hb'|]. repeat constructor; eexists; reflexivity.
Qed.

Print Assumptions v2000_fields_roundtrip_tail.
Print Assumptions py_float_first_char.
Print Assumptions v3000_ctab_roundtrip_tail.
Print Assumptions v3000_fields_roundtrip_tail.
