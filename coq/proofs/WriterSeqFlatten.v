(* C02, read_write_graph, step a: the SEQUENCE-level specification of the flattening loop of Smiles._smiles.
   Ser n l : l is the serialisation of the subtree below atom n in the table `edges` - for children c1 .. ck-1, ck:
             ( bond(n,c1) c1 Ser(c1) ) ... ( bond(n,ck-1) ck-1 Ser(ck-1) ) bond(n,ck) ck Ser(ck)
   fl_run, whenever it returns, returns  TAtom start :: l  with  Ser start l  (big-step relation Collapse over the stack; no
   assumption on `edges`). *)
From Coq Require Import ZArith List Bool Lia.
From Model Require Import PyBase Graph Writer.
From Proofs Require Import WriterWfFlatten.
Import ListNotations.
Open Scope Z_scope.

Section Seq.
  Variable edges : list (Z * list Z).

  Inductive Ser : Z -> list tok -> Prop :=
  | Ser_leaf n : zget edges n = None -> Ser n []
  | Ser_node n children front last ls ll :
      zget edges n = Some children -> children = front ++ [last] ->
      SerSides n front ls -> Ser last ll ->
      Ser n (ls ++ [TBond n last; TAtom last] ++ ll)
  with SerSides : Z -> list Z -> list tok -> Prop :=
  | SS_nil n : SerSides n [] []
  | SS_cons n c front lc l : Ser c lc -> SerSides n front l ->
      SerSides n (c :: front) (([TOpen; TBond n c; TAtom c] ++ lc ++ [TClose]) ++ l).

  Definition deliver (chunk : list tok) (c : Z) (rest : list fl_entry) : list fl_entry :=
    upd_at (List.length rest - 1 - Z.to_nat (c - 1)) (fun e : fl_entry => (fst e, snd e ++ chunk)) rest.

  Inductive Collapse : list fl_entry -> list tok -> Prop :=
  | Col_done t c s l : Ser t l -> Collapse [(t, c, s)] (s ++ l)
  | Col_side t c s l rest r : Ser t l -> c <> 0 -> c - 1 < Z.of_nat (List.length rest) ->
      Collapse (deliver ((s ++ l) ++ [TClose]) c rest) r -> Collapse ((t, c, s) :: rest) r
  | Col_main t s l t1 c1 s1 rest' t' r : Ser t l -> zget edges t' = None ->
      Collapse ((t', c1, s1 ++ s ++ l) :: rest') r -> Collapse ((t, 0, s) :: (t1, c1, s1) :: rest') r.

  Lemma Ser_leaf_inv n l : zget edges n = None -> Ser n l -> l = [].
  Proof. intros H S. inversion S as [|? ? ? ? ? ? E]; [reflexivity | rewrite H in E; discriminate]. Qed.

  (* the pending subtree of the top entry may be spelled out, or folded back *)
  Lemma collapse_retail t t' c s l rest r : zget edges t' = None -> Ser t l ->
    Collapse ((t', c, s ++ l) :: rest) r -> Collapse ((t, c, s) :: rest) r.
  Proof.
    intros Hleaf HS H. inversion H as [? ? ? l' S' | ? ? ? l' ? ? S' Hc Hlt Hrec | ? ? l' ? ? ? ? t'' ? S' Hl'' Hrec]; subst.
    - rewrite (Ser_leaf_inv t' l' Hleaf S'). rewrite app_nil_r. apply Col_done. exact HS.
    - rewrite (Ser_leaf_inv t' l' Hleaf S') in Hrec. rewrite app_nil_r in Hrec. apply (Col_side t c s l rest r HS Hc Hlt Hrec).
    - rewrite (Ser_leaf_inv t' l' Hleaf S') in Hrec. rewrite app_nil_r in Hrec. apply (Col_main t s l t1 c1 s1 rest' t'' r HS Hl'' Hrec).
  Qed.

  Lemma collapse_grow t child c s rest r : zget edges t = Some [child] ->
    Collapse ((child, c, s ++ [TBond t child; TAtom child]) :: rest) r -> Collapse ((t, c, s) :: rest) r.
  Proof.
    intros He H.
    assert (Hnode : forall l, Ser child l -> Ser t ([TBond t child; TAtom child] ++ l)).
    { intros l S. apply (Ser_node t [child] [] child [] l He eq_refl (SS_nil t) S). }
    inversion H as [? ? ? l' S' | ? ? ? l' ? ? S' Hc Hlt Hrec | ? ? l' ? ? ? ? t'' ? S' Hl'' Hrec]; subst.
    - rewrite <- app_assoc. apply Col_done. apply Hnode. exact S'.
    - replace ((s ++ [TBond t child; TAtom child]) ++ l') with (s ++ [TBond t child; TAtom child] ++ l') in Hrec by (rewrite <- app_assoc; reflexivity).
      apply (Col_side t c s _ rest r (Hnode l' S') Hc Hlt Hrec).
    - replace ((s ++ [TBond t child; TAtom child]) ++ l') with (s ++ [TBond t child; TAtom child] ++ l') in Hrec by (rewrite <- app_assoc; reflexivity).
      apply (Col_main t s _ t1 c1 s1 rest' t'' r (Hnode l' S') Hl'' Hrec).
  Qed.

  Lemma collapse_inv_side t c s rest r : c <> 0 -> rest <> [] -> Collapse ((t, c, s) :: rest) r ->
    exists l, Ser t l /\ c - 1 < Z.of_nat (List.length rest) /\ Collapse (deliver ((s ++ l) ++ [TClose]) c rest) r.
  Proof.
    intros Hc Hne H. inversion H as [? ? ? l1 S1 | ? ? ? l0 ? ? S0 Hc0 Hlt Hrec | ]; subst.
    - contradiction.
    - exists l0. repeat split; assumption.
    - contradiction.
  Qed.

  Lemma collapse_inv_main t s t1 c1 s1 rest' r : Collapse ((t, 0, s) :: (t1, c1, s1) :: rest') r ->
    exists l t', Ser t l /\ zget edges t' = None /\ Collapse ((t', c1, s1 ++ s ++ l) :: rest') r.
  Proof.
    intros H. inversion H as [| ? ? ? l0 ? ? S0 Hc0 Hlt Hrec | ? ? l2 ? ? ? ? t' ? S2 Hl2 Hrec2]; subst.
    - contradiction.
    - exists l2, t'. repeat split; assumption.
  Qed.

  Lemma upd_at_mid {A} (f : A -> A) pre x post : upd_at (List.length pre) f (pre ++ x :: post) = pre ++ f x :: post.
  Proof. induction pre as [|y pre IH]; cbn [List.length app upd_at]; [reflexivity | rewrite IH; reflexivity]. Qed.

  Lemma deliver_mid chunk (pre : list fl_entry) x post :
    deliver chunk (Z.of_nat (S (List.length post))) (pre ++ x :: post) = pre ++ (fst x, snd x ++ chunk) :: post.
  Proof.
    unfold deliver.
    assert (E : (List.length (pre ++ x :: post) - 1 - Z.to_nat (Z.of_nat (S (List.length post)) - 1))%nat = List.length pre).
    { rewrite app_length. cbn [List.length]. rewrite Nat2Z.inj_succ.
      replace (Z.succ (Z.of_nat (List.length post)) - 1) with (Z.of_nat (List.length post)) by lia. rewrite Nat2Z.id. lia. }
    rewrite E. rewrite upd_at_mid. reflexivity.
  Qed.

  (* the side chains pushed by one expansion are delivered one after the other to the entry that pushed them, then the main
     chain merges into it *)
  Lemma collapse_sides t last c sT rest r : forall front acc,
    Collapse (map (fun x => (x, Z.of_nat (S (List.length rest)), [TOpen; TBond t x; TAtom x])) front ++
              (last, 0, [TBond t last; TAtom last]) :: (t, c, sT ++ acc) :: rest) r ->
    exists ls ll t', SerSides t front ls /\ Ser last ll /\ zget edges t' = None /\
                     Collapse ((t', c, (sT ++ acc) ++ ls ++ [TBond t last; TAtom last] ++ ll) :: rest) r.
  Proof.
    induction front as [|c0 front IH]; intros acc H; cbn [map app] in H.
    - destruct (collapse_inv_main _ _ _ _ _ _ _ H) as [l' [t'' [S' [Hl'' Hrec]]]].
      exists [], l', t''. split; [apply SS_nil|]. split; [exact S'|]. split; [exact Hl''|]. cbn [app]. exact Hrec.
    - set (L := Z.of_nat (S (List.length rest))) in *.
      assert (HL0 : L <> 0) by (unfold L; rewrite Nat2Z.inj_succ; pose proof (Nat2Z.is_nonneg (List.length rest)); lia).
      assert (Hne0 : map (fun x => (x, L, [TOpen; TBond t x; TAtom x])) front ++ (last, 0, [TBond t last; TAtom last]) :: (t, c, sT ++ acc) :: rest <> []).
      { intros E. destruct (map (fun x => (x, L, [TOpen; TBond t x; TAtom x])) front); discriminate E. }
      destruct (collapse_inv_side _ _ _ _ _ HL0 Hne0 H) as [l0 [S0 [Hlt Hrec]]].
      set (sides := map (fun x => (x, L, [TOpen; TBond t x; TAtom x])) front) in *.
      set (M := (last, 0, [TBond t last; TAtom last])) in *.
      replace (sides ++ M :: (t, c, sT ++ acc) :: rest) with ((sides ++ [M]) ++ (t, c, sT ++ acc) :: rest) in Hrec by (rewrite <- app_assoc; reflexivity).
      unfold L in Hrec. rewrite deliver_mid in Hrec. fold L in Hrec. cbn [fst snd] in Hrec. rewrite <- app_assoc in Hrec. cbn [app] in Hrec.
      rewrite <- (app_assoc sT acc) in Hrec.
      destruct (IH (acc ++ ([TOpen; TBond t c0; TAtom c0] ++ l0) ++ [TClose]) Hrec) as [ls [ll [t' [HS [HL [Hlf HC]]]]]].
      exists ((([TOpen; TBond t c0; TAtom c0] ++ l0 ++ [TClose]) ++ ls)), ll, t'.
      split; [apply SS_cons; assumption|]. split; [exact HL|]. split; [exact Hlf|].
      replace ((sT ++ acc) ++ (([TOpen; TBond t c0; TAtom c0] ++ l0 ++ [TClose]) ++ ls) ++ [TBond t last; TAtom last] ++ ll)
        with ((sT ++ acc ++ ([TOpen; TBond t c0; TAtom c0] ++ l0) ++ [TClose]) ++ ls ++ [TBond t last; TAtom last] ++ ll); [exact HC|].
      repeat rewrite <- app_assoc. reflexivity.
  Qed.

  Theorem fl_run_collapse : forall fuel st r, entries_shaped st -> fl_run fuel edges st = Ok r -> Collapse st r.
  Proof.
    induction fuel as [|fuel IH]; intros st r Hs H; cbn [fl_run] in H; [discriminate|].
    pose proof (fl_step_shaped edges st Hs) as Hs'.
    unfold fl_step in *. destruct st as [|[[tail closure] smi] rest]; [discriminate|].
    inversion Hs as [|? ? Hshape _]. subst. cbn [snd] in Hshape.
    destruct (zget edges tail) as [children|] eqn:Ech.
    - destruct (rev children) as [|last revfront] eqn:Er; [discriminate|].
      assert (Hch : children = rev revfront ++ [last]) by (rewrite <- (rev_involutive children), Er; reflexivity).
      destruct (1 <? Z.of_nat (List.length children)) eqn:Elen.
      + specialize (IH _ r Hs' H). cbv zeta in IH. cbn [List.length] in IH.
        rewrite <- (app_nil_r smi) in IH.
        destruct (collapse_sides tail last closure smi rest r (rev revfront) [] IH) as [ls [ll [t' [HS [HL [Hlf HC]]]]]].
        rewrite app_nil_r in HC.
        apply (collapse_retail tail t' closure smi (ls ++ [TBond tail last; TAtom last] ++ ll) rest r Hlf); [|exact HC].
        apply (Ser_node tail children (rev revfront) last ls ll Ech Hch HS HL).
      + assert (Hrf : revfront = []).
        { apply Z.ltb_ge in Elen. rewrite Hch, app_length in Elen. cbn [List.length] in Elen. rewrite rev_length in Elen.
          destruct revfront; [reflexivity | cbn [List.length] in Elen; lia]. }
        subst revfront. cbn [rev app] in Hch. subst children.
        apply (collapse_grow tail last closure smi rest r Ech). apply (IH _ r Hs' H).
    - destruct (negb (closure =? 0)) eqn:Ecl.
      + apply negb_true_iff in Ecl. apply Z.eqb_neq in Ecl.
        destruct (second_last_is_open smi) as [[|]|] eqn:Eb; [exfalso; exact (shaped_second_last smi Hshape Eb) | | discriminate].
        destruct (closure - 1 <? Z.of_nat (List.length rest)) eqn:Elt; [|discriminate].
        apply Z.ltb_lt in Elt. specialize (IH _ r Hs' H).
        apply (Col_side tail closure smi [] rest r (Ser_leaf tail Ech) Ecl Elt). unfold deliver. rewrite app_nil_r. exact IH.
      + apply negb_false_iff in Ecl. apply Z.eqb_eq in Ecl. subst closure.
        destruct rest as [|[[t1 c1] s1] [|e2 rest']].
        * inversion H. subst r. rewrite <- (app_nil_r smi) at 2. apply Col_done. apply Ser_leaf. exact Ech.
        * inversion H. subst r. apply (Col_main tail smi [] t1 c1 s1 [] tail _ (Ser_leaf tail Ech) Ech).
          rewrite app_nil_r. rewrite <- (app_nil_r (s1 ++ smi)) at 2. apply Col_done. apply Ser_leaf. exact Ech.
        * specialize (IH _ r Hs' H). apply (Col_main tail smi [] t1 c1 s1 (e2 :: rest') tail r (Ser_leaf tail Ech) Ech).
          rewrite app_nil_r. exact IH.
  Qed.
End Seq.

(* the flattening of any traversal is the serialisation of the tree below the start atom *)
Theorem flatten_ser : forall g t smi, flatten g t = Ok smi ->
  exists l, Ser (ds_edges (tr_dfs t)) (tr_start t) l /\ smi = TAtom (tr_start t) :: l.
Proof.
  intros g t smi H. unfold flatten in H.
  apply fl_run_collapse in H; [|constructor; [reflexivity | constructor]].
  inversion H as [? ? ? l S | ? ? ? ? ? ? ? Hc | ]; subst; [exists l; split; [exact S | reflexivity] | contradiction].
Qed.
