(* C10: the half-float coordinate codec (Model.F16: double_to_float16 / double_from_bytes on exact dyadics).
   - f16_exact: every bit pattern with exponent field < 31 other than negative zero re-encodes to itself (finite sweep)
   - f16_exceptions: negative zero and the 2048 patterns with exponent field 31 re-encode to 0 0
   - f16_truncates_*: for EVERY dyadic M * 2^E the decoded value of the encoding is the truncation of the input toward
     zero to the half-float grid (11 significant bits in the normal range, multiples of 2^-24 below 2^-14); values
     >= 65536 or < 2^-25 are stored as 0. *)
From Coq Require Import ZArith List Bool Lia ZifyBool.
From Model Require Import PyBase F16.
Import ListNotations.
Open Scope Z_scope.

Definition pairZ_eqb (x y : Z * Z) : bool := (fst x =? fst y) && (snd x =? snd y).

Definition is_exception (a b : Z) : bool := (Z.land (Z.shiftr a 2) 31 =? 31) || ((a =? 128) && (b =? 0)).

Definition reencode (a b : Z) : Z * Z := let '(neg, M, E) := f16_decode a b in f16_encode neg M E.

Definition exact_chk (a b : Z) : bool :=
  if is_exception a b then pairZ_eqb (reencode a b) (0, 0) else pairZ_eqb (reencode a b) (a, b).

Lemma exact_sweep : forallb (fun a => forallb (exact_chk a) (zrange 0 256)) (zrange 0 256) = true.
Proof. vm_compute. reflexivity. Qed.

Lemma forallb_zrange (f : Z -> bool) a b : forallb f (zrange a b) = true -> forall x, a <= x < b -> f x = true.
Proof. intros H x Hx. rewrite forallb_forall in H. apply H. apply zrange_In. exact Hx. Qed.

Lemma pairZ_eqb_eq x y : pairZ_eqb x y = true -> x = y.
Proof.
  destruct x, y. unfold pairZ_eqb. cbn [fst snd]. intros H. apply andb_true_iff in H. destruct H as [H1 H2].
  apply Z.eqb_eq in H1, H2. congruence.
Qed.

Lemma exact_chk_all a b : 0 <= a < 256 -> 0 <= b < 256 -> exact_chk a b = true.
Proof.
  intros Ha Hb. pose proof (forallb_zrange _ _ _ exact_sweep a Ha) as S. cbv beta in S.
  apply (forallb_zrange _ _ _ S b Hb).
Qed.

(* all 63487 patterns with exponent field < 31 other than negative zero *)
Theorem f16_exact a b : 0 <= a < 256 -> 0 <= b < 256 -> is_exception a b = false ->
  let '(neg, M, E) := f16_decode a b in f16_encode neg M E = (a, b).
Proof.
  intros Ha Hb He. pose proof (exact_chk_all a b Ha Hb) as C. unfold exact_chk in C. rewrite He in C.
  apply pairZ_eqb_eq in C. unfold reencode in C. destruct (f16_decode a b) as [[neg M] E]. exact C.
Qed.

(* the stated exceptions: -0 and exponent field 31 (the format has no infinities: these decode to 65536..131008, which
   the encoder stores as 0) *)
Theorem f16_exceptions a b : 0 <= a < 256 -> 0 <= b < 256 -> is_exception a b = true ->
  let '(neg, M, E) := f16_decode a b in f16_encode neg M E = (0, 0).
Proof.
  intros Ha Hb He. pose proof (exact_chk_all a b Ha Hb) as C. unfold exact_chk in C. rewrite He in C.
  apply pairZ_eqb_eq in C. unfold reencode in C. destruct (f16_decode a b) as [[neg M] E]. exact C.
Qed.

(* ------------------------------------------------------------------------------------------------ *)
(* assembling the 16 bits and reading them back *)

Definition assemble (frac ef : Z) (neg : bool) : Z * Z :=
  let bits := (Z.lor (Z.lor (frac mod 65536) (Z.shiftl ef 10)) (Z.shiftl (if neg then 1 else 0) 15)) mod 65536 in
  ((Z.shiftr bits 8) mod 256, bits mod 256).

Definition triple_eqb (x y : bool * Z * Z) : bool :=
  Bool.eqb (fst (fst x)) (fst (fst y)) && (snd (fst x) =? snd (fst y)) && (snd x =? snd y).

Definition asm_chk (neg : bool) (ef frac : Z) : bool :=
  let '(a, b) := assemble frac ef neg in
  triple_eqb (f16_decode a b) (neg, if ef =? 0 then frac else frac + 1024, if ef =? 0 then -24 else ef - 25).

Lemma asm_sweep :
  forallb (fun neg => forallb (fun ef => forallb (asm_chk neg ef) (zrange 0 1024)) (zrange 0 31)) [true; false] = true.
Proof. vm_compute. reflexivity. Qed.

Lemma triple_eqb_eq x y : triple_eqb x y = true -> x = y.
Proof.
  destruct x as [[x1 x2] x3], y as [[y1 y2] y3]. unfold triple_eqb. cbn [fst snd]. intros H.
  apply andb_true_iff in H. destruct H as [H H3]. apply andb_true_iff in H. destruct H as [H1 H2].
  apply Bool.eqb_prop in H1. apply Z.eqb_eq in H2, H3. congruence.
Qed.

Lemma decode_assemble neg ef frac : 0 <= ef < 31 -> 0 <= frac < 1024 ->
  let '(a, b) := assemble frac ef neg in
  f16_decode a b = (neg, if ef =? 0 then frac else frac + 1024, if ef =? 0 then -24 else ef - 25).
Proof.
  intros He Hf. pose proof asm_sweep as S. rewrite forallb_forall in S.
  assert (Hin : In neg [true; false]) by (destruct neg; cbn; auto).
  pose proof (forallb_zrange _ _ _ (S neg Hin) ef He) as S1. cbv beta in S1.
  pose proof (forallb_zrange _ _ _ S1 frac Hf) as S2. unfold asm_chk in S2.
  destruct (assemble frac ef neg) as [a b]. apply triple_eqb_eq in S2. exact S2.
Qed.

(* ------------------------------------------------------------------------------------------------ *)
(* scale = floor (M * 2^k) *)

Lemma bitlen_spec M : 0 < M -> 2 ^ (bitlen M - 1) <= M < 2 ^ (bitlen M) /\ 1 <= bitlen M.
Proof.
  intros H. unfold bitlen. pose proof (Z.log2_spec M H) as S. pose proof (Z.log2_nonneg M).
  replace (Z.log2 M + 1 - 1) with (Z.log2 M) by lia. replace (Z.log2 M + 1) with (Z.succ (Z.log2 M)) by lia.
  split; [exact S | lia].
Qed.

Lemma scale_up M k : 0 <= k -> scale M k = M * 2 ^ k.
Proof. intros H. unfold scale. destruct (0 <=? k) eqn:E; [|lia]. apply Z.shiftl_mul_pow2. exact H. Qed.

Lemma scale_down M k : k < 0 -> 0 <= M ->
  scale M k = M / 2 ^ (- k) /\ 2 ^ (- k) * scale M k <= M < 2 ^ (- k) * (scale M k + 1).
Proof.
  intros H HM. unfold scale. destruct (0 <=? k) eqn:E; [lia|].
  rewrite Z.shiftr_div_pow2 by lia. split; [reflexivity|].
  assert (P : 0 < 2 ^ (- k)) by (apply Z.pow_pos_nonneg; lia).
  split; [apply Z.mul_div_le; exact P|].
  pose proof (Z.mul_succ_div_gt M (2 ^ (- k)) P). lia.
Qed.

(* M with exactly bl bits scaled to p bits lies in [2^(p-1), 2^p) *)
Lemma scale_window M p : 0 < M -> 1 <= p -> 2 ^ (p - 1) <= scale M (p - bitlen M) < 2 ^ p.
Proof.
  intros HM Hp. destruct (bitlen_spec M HM) as [[L U] Hb]. set (bl := bitlen M) in *.
  destruct (Z_le_gt_dec 0 (p - bl)) as [Hk|Hk].
  - rewrite scale_up by exact Hk.
    replace (2 ^ (p - 1)) with (2 ^ (bl - 1) * 2 ^ (p - bl)) by (rewrite <- Z.pow_add_r by lia; f_equal; lia).
    replace (2 ^ p) with (2 ^ bl * 2 ^ (p - bl)) by (rewrite <- Z.pow_add_r by lia; f_equal; lia).
    assert (P : 0 < 2 ^ (p - bl)) by (apply Z.pow_pos_nonneg; lia). nia.
  - destruct (scale_down M (p - bl) ltac:(lia) ltac:(lia)) as [Hs _]. rewrite Hs.
    replace (- (p - bl)) with (bl - p) by lia.
    assert (P : 0 < 2 ^ (bl - p)) by (apply Z.pow_pos_nonneg; lia).
    split.
    + apply Z.div_le_lower_bound; [exact P|].
      replace (2 ^ (bl - p) * 2 ^ (p - 1)) with (2 ^ (bl - 1)) by (rewrite <- Z.pow_add_r by lia; f_equal; lia). exact L.
    + apply Z.div_lt_upper_bound; [exact P|].
      replace (2 ^ (bl - p) * 2 ^ p) with (2 ^ bl) by (rewrite <- Z.pow_add_r by lia; f_equal; lia). exact U.
Qed.

(* the truncation law in integer form: D = floor (M * 2^k) *)
Definition is_floor_scaled (D M k : Z) : Prop :=
  if 0 <=? k then D = M * 2 ^ k else 2 ^ (- k) * D <= M < 2 ^ (- k) * (D + 1).

Lemma scale_is_floor M k : 0 <= M -> is_floor_scaled (scale M k) M k.
Proof.
  intros HM. unfold is_floor_scaled. destruct (0 <=? k) eqn:E.
  - apply scale_up. lia.
  - apply (scale_down M k ltac:(lia) HM).
Qed.

(* ------------------------------------------------------------------------------------------------ *)
(* the encoder on an arbitrary dyadic x = +-M * 2^E, M > 0; e = floor (log2 |x|) *)

(* normal range 2^-14 <= |x| < 65536: the stored value is (neg, M', e - 10) with M' = floor (M * 2^(11 - bitlen M)) in
   [1024, 2048): |x| truncated toward zero to 11 significant bits (M' * 2^(e-10) <= |x| < (M'+1) * 2^(e-10)) *)
Theorem f16_truncates_normal neg M E : 0 < M ->
  let e := bitlen M + E - 1 in -14 <= e < 16 ->
  let M' := scale M (11 - bitlen M) in
  (let '(a, b) := f16_encode neg M E in f16_decode a b = (neg, M', e - 10)) /\
  1024 <= M' < 2048 /\ is_floor_scaled M' M (11 - bitlen M) /\ (e - 10) + (11 - bitlen M) = E.
Proof.
  intros HM e He M'. pose proof (scale_window M 11 HM ltac:(lia)) as Wd. fold M' in Wd.
  change (2 ^ (11 - 1)) with 1024 in Wd. change (2 ^ 11) with 2048 in Wd.
  split; [|split; [exact Wd | split; [apply scale_is_floor; lia | subst e; lia]]].
  unfold f16_encode. destruct (M =? 0) eqn:E0; [lia|]. fold e.
  destruct ((16 <=? e) || (e <? -25)) eqn:E1; [lia|]. destruct (e <? -14) eqn:E2; [lia|].
  fold M'. change (let '(a, b) := assemble (M' - 1024) (e + 15) neg in f16_decode a b = (neg, M', e - 10)).
  pose proof (decode_assemble neg (e + 15) (M' - 1024) ltac:(lia) ltac:(lia)) as D.
  destruct (assemble (M' - 1024) (e + 15) neg) as [a b]. rewrite D.
  destruct (e + 15 =? 0) eqn:E3; [lia|]. f_equal; [f_equal|]; lia.
Qed.

(* subnormal range 2^-25 <= |x| < 2^-14: the stored value is (neg, floor (M * 2^(E + 24)), -24): |x| truncated toward
   zero to a multiple of 2^-24 (values below 2^-24 become zero with the sign kept) *)
Theorem f16_truncates_subnormal neg M E : 0 < M ->
  let e := bitlen M + E - 1 in -25 <= e < -14 ->
  let M' := scale M (E + 24) in
  (let '(a, b) := f16_encode neg M E in f16_decode a b = (neg, M', -24)) /\
  0 <= M' < 1024 /\ is_floor_scaled M' M (E + 24).
Proof.
  intros HM e He M'.
  assert (Wd : 0 <= M' < 1024).
  { pose proof (scale_window M (e + 25) HM) as Wd.
    replace (e + 25 - bitlen M) with (E + 24) in Wd by (subst e; lia). fold M' in Wd.
    destruct (Z.eq_dec e (-25)) as [E25|E25].
    - (* below 2^-24: p = 0 *)
      destruct (bitlen_spec M HM) as [[L U] Hb]. unfold M'.
      destruct (scale_down M (E + 24) ltac:(subst e; lia) ltac:(lia)) as [Hs _]. rewrite Hs.
      replace (- (E + 24)) with (bitlen M) by (subst e; lia). rewrite Z.div_small by lia. lia.
    - specialize (Wd ltac:(lia)). assert (2 ^ (e + 25) <= 2 ^ 10) by (apply Z.pow_le_mono_r; lia).
      assert (0 < 2 ^ (e + 25 - 1)) by (apply Z.pow_pos_nonneg; lia). change (2 ^ 10) with 1024 in *. lia. }
  split; [|split; [exact Wd | apply scale_is_floor; lia]].
  unfold f16_encode. destruct (M =? 0) eqn:E0; [lia|]. fold e.
  destruct ((16 <=? e) || (e <? -25)) eqn:E1; [lia|]. destruct (e <? -14) eqn:E2; [|lia].
  replace (1 - bitlen M + 14 + e + 10) with (E + 24) by (subst e; lia). fold M'.
  change (let '(a, b) := assemble M' 0 neg in f16_decode a b = (neg, M', -24)).
  pose proof (decode_assemble neg 0 M' ltac:(lia) Wd) as D.
  destruct (assemble M' 0 neg) as [a b]. rewrite D. reflexivity.
Qed.

(* out of range: |x| >= 65536 or |x| < 2^-25 (and zero) are stored as 0 0 *)
Theorem f16_out_of_range neg M E : 0 <= M ->
  let e := bitlen M + E - 1 in M = 0 \/ 16 <= e \/ e < -25 -> f16_encode neg M E = (0, 0).
Proof.
  intros HM e H. unfold f16_encode. destruct (M =? 0) eqn:E0; [reflexivity|]. fold e.
  destruct ((16 <=? e) || (e <? -25)) eqn:E1; [reflexivity|]. lia.
Qed.

(* non-vacuity: 1/3 rounded to double = 6004799503160661 * 2^-54 is stored as 0x3555 = 1365 * 2^-12 (truncated) *)
Lemma f16_example :
  f16_encode false 6004799503160661 (-54) = (53, 85) /\ f16_decode 53 85 = (false, 1365, -12) /\
  bitlen 6004799503160661 + (-54) - 1 = -2.
Proof. vm_compute. repeat split; reflexivity. Qed.
