(* C09 extension 4 -- termination of the explicit-stack searches: with dfs_fuel_bound iterations of fuel the loops of the model
   never return the out-of-fuel value None, and more fuel never changes a result.  Hence the equivalence theorems, stated for
   any fuel, are statements about the actual (fuel-free) results, and the public call of the model does not depend on the fuel
   the runner happens to pass, once it is at least public_fuel. *)
From Coq Require Import ZArith List Bool Lia Arith.
From Model Require Import PyBase PeriodicTable IsoBits IsoBitsExt IsoBitsPyx IsoBitsFuel.
From Model Require Iso.
From Proofs Require Import IsoBitsProofs IsoBitsSearchProofs IsoBitsExtProofs IsoBitsPyxProofs.
Import ListNotations.

Lemma tree_weight_pos D k : (1 <= tree_weight D k)%nat.
Proof. destruct k; cbn [tree_weight]; lia. Qed.

Section Fuel.
  Variables (E : Type) (idx : E -> Z) (nbrs : Z -> list E) (last : nat) (back : nat -> Z).
  Variable cand_ok : nat -> list Z -> Z -> E -> bool.
  Variable D : nat.
  Hypothesis deg_le : forall b, (List.length (nbrs b) <= D)%nat.

  Let run := dfs E idx nbrs last back cand_ok.

  (* the iterations still to come: every stack entry stands for a tree of height last - depth *)
  Fixpoint sw (st : list (Z * nat)) : nat :=
    match st with [] => O | e :: r => tree_weight D (last - snd e) + sw r end.
  Definition depths_ok (st : list (Z * nat)) : Prop := Forall (fun e => (snd e <= last)%nat) st.

  Lemma sw_app a b : sw (a ++ b) = (sw a + sw b)%nat.
  Proof. induction a as [|e a IH]; cbn [sw app]; [reflexivity|]. rewrite IH. lia. Qed.

  Lemma sw_const d l : (forall e, In e l -> snd e = d) -> sw l = (List.length l * tree_weight D (last - d))%nat.
  Proof.
    induction l as [|e l IH]; intros H; cbn [sw List.length]; [reflexivity|].
    rewrite IH by (intros x Hx; apply H; right; exact Hx). rewrite (H e (or_introl eq_refl)). lia.
  Qed.

  Lemma filter_length_le {A} (p : A -> bool) l : (List.length (filter p l) <= List.length l)%nat.
  Proof. induction l as [|a l IH]; cbn [filter List.length]; [lia|]. destruct (p a); cbn [List.length]; lia. Qed.

  (* every iteration strictly decreases sw: the loop stops before the fuel is used up *)
  Lemma dfs_terminates : forall fuel st path acc, depths_ok st -> (sw st < fuel)%nat ->
    exists r, run fuel st path acc = Some r.
  Proof.
    unfold run. induction fuel as [|f IH]; intros st path acc Hd Hw; [lia|].
    cbn [dfs]. destruct st as [|[n depth] st']; [eexists; reflexivity|].
    inversion Hd as [|? ? Hd1 Hd2]; subst. cbn [snd] in Hd1. cbn [sw snd] in Hw.
    destruct (Nat.eqb depth last) eqn:Ed.
    - apply IH; [exact Hd2|]. pose proof (tree_weight_pos D (last - depth)). lia.
    - apply Nat.eqb_neq in Ed. assert (Hlt : (depth < last)%nat) by lia.
      set (path' := firstn depth path ++ [n]).
      set (base := if negb (back (S depth) =? Z.of_nat depth)%Z then znth path' (back (S depth)) 0%Z else n).
      set (cands := filter (cand_ok (S depth) path' base) (nbrs base)).
      apply IH.
      + apply Forall_app. split; [|exact Hd2].
        apply Forall_forall. intros e He. apply in_rev in He. apply in_map_iff in He. destruct He as [x [<- _]]. cbn [snd]. lia.
      + rewrite sw_app.
        rewrite (sw_const (S depth)).
        2:{ intros e He. apply in_rev in He. apply in_map_iff in He. destruct He as [x [<- _]]. reflexivity. }
        rewrite rev_length, map_length.
        assert (Hc : (List.length cands <= D)%nat).
        { unfold cands. eapply Nat.le_trans; [apply filter_length_le|apply deg_le]. }
        replace (last - depth)%nat with (S (last - S depth)) in Hw by lia. cbn [tree_weight] in Hw.
        assert ((List.length cands * tree_weight D (last - S depth) <= D * tree_weight D (last - S depth))%nat)
          by (apply Nat.mul_le_mono_r; exact Hc).
        lia.
  Qed.

  (* more fuel never changes a result *)
  Lemma dfs_fuel_mono : forall fuel st path acc r, run fuel st path acc = Some r ->
    forall k, run (fuel + k) st path acc = Some r.
  Proof.
    unfold run. induction fuel as [|f IH]; intros st path acc r H k; [discriminate|].
    cbn [Nat.add]. cbn [dfs] in *. destruct st as [|[n depth] st']; [exact H|].
    destruct (Nat.eqb depth last); apply IH; exact H.
  Qed.

  Variables (natoms : Z) (first_ok : Z -> bool) (N : nat).
  Hypothesis natoms_le : (Z.to_nat natoms <= N)%nat.

  Let srch := search E idx natoms first_ok nbrs last back cand_ok.

  Lemma init_stack_weight :
    depths_ok (init_stack natoms first_ok) /\ (sw (init_stack natoms first_ok) <= N * tree_weight D last)%nat.
  Proof.
    unfold init_stack. split.
    - apply Forall_forall. intros e He. apply in_rev in He. apply in_map_iff in He. destruct He as [x [<- _]]. cbn [snd]. lia.
    - rewrite (sw_const O).
      2:{ intros e He. apply in_rev in He. apply in_map_iff in He. destruct He as [x [<- _]]. reflexivity. }
      rewrite rev_length, map_length, Nat.sub_0_r. apply Nat.mul_le_mono_r.
      eapply Nat.le_trans; [apply filter_length_le|]. unfold zrange. rewrite zrange_from_length. rewrite Z.sub_0_r. exact natoms_le.
  Qed.

  Lemma search_terminates fuel : (dfs_fuel_bound N D last <= fuel)%nat -> exists r, srch fuel = Some r.
  Proof.
    intros Hf. unfold srch, search. destruct init_stack_weight as [Hd Hw].
    apply dfs_terminates; [exact Hd|]. unfold dfs_fuel_bound in Hf. lia.
  Qed.

  Lemma search_fuel_mono fuel r : srch fuel = Some r -> forall fuel', (fuel <= fuel')%nat -> srch fuel' = Some r.
  Proof.
    clear natoms_le deg_le. intros H fuel' Hle. replace fuel' with (fuel + (fuel' - fuel))%nat by lia. unfold srch, search. apply dfs_fuel_mono. exact H.
  Qed.

  (* beyond the bound the result is one and the same *)
  Lemma search_fuel_irrelevant f1 f2 : (dfs_fuel_bound N D last <= f1)%nat -> (dfs_fuel_bound N D last <= f2)%nat ->
    srch f1 = srch f2 /\ srch f1 <> None.
  Proof.
    intros H1 H2. destruct (search_terminates _ (Nat.le_refl _)) as [r Hr].
    rewrite (search_fuel_mono _ _ Hr f1 H1), (search_fuel_mono _ _ Hr f2 H2). split; [reflexivity|discriminate].
  Qed.
End Fuel.

(* ------------------------------------------------------------------------------------------------------------ *)
(* the compiled side: ANY buffers *)
Lemma zlen_to_nat {A} (l : list A) : Z.to_nat (zlen l) = List.length l.
Proof. unfold zlen. apply Nat2Z.id. Qed.

Theorem mask_search_terminates qu mo scope fuel : (mask_fuel qu mo <= fuel)%nat ->
  exists r, mask_search qu mo scope fuel = Some r.
Proof.
  intros H. unfold mask_search.
  apply search_terminates with (D := max_degree mo) (N := List.length (mo_atoms mo)); [apply m_bonds_of_length| |exact H].
  rewrite zlen_to_nat. apply Nat.le_refl.
Qed.

Theorem mask_search_fuel_mono qu mo scope fuel r : mask_search qu mo scope fuel = Some r ->
  forall fuel', (fuel <= fuel')%nat -> mask_search qu mo scope fuel' = Some r.
Proof. unfold mask_search. apply search_fuel_mono. Qed.

(* the reference side *)
Lemma ref_nbrs_length rm i : (List.length (ra_nbrs (r_atom rm i)) <= ref_degree rm)%nat.
Proof.
  unfold ref_degree, r_atom.
  destruct (znth_In_or_default rm i (mkRA 0 (mkLA 0 None 0 false 0 0 None 0 []) [])) as [H|H].
  - apply (max_ge (fun a => List.length (ra_nbrs a))). exact H.
  - rewrite H. cbn. lia.
Qed.

Theorem ref_search_terminates rq rm scope fuel : (ref_fuel rq rm <= fuel)%nat ->
  exists r, ref_search rq rm scope fuel = Some r.
Proof.
  intros H. unfold ref_search.
  apply search_terminates with (D := ref_degree rm) (N := List.length rm); [intros b; apply ref_nbrs_length| |exact H].
  rewrite zlen_to_nat. apply Nat.le_refl.
Qed.

Theorem ref_search_fuel_mono rq rm scope fuel r : ref_search rq rm scope fuel = Some r ->
  forall fuel', (fuel <= fuel')%nat -> ref_search rq rm scope fuel' = Some r.
Proof. unfold ref_search. apply search_fuel_mono. Qed.

(* the array-level loop of the .pyx *)
Theorem pyx_search_terminates qu mo scope fuel : mo_ok mo -> (mask_fuel qu mo <= fuel)%nat ->
  exists r, pyx_search qu mo scope fuel = Some r.
Proof.
  intros Hok H. rewrite (proj1 (pyx_search_refines qu mo scope Hok fuel)). apply mask_search_terminates. exact H.
Qed.

(* ------------------------------------------------------------------------------------------------------------ *)
(* one component call under either flag *)
Theorem component_mappings_terminates cython rq rm scope fuel : (component_fuel rq rm <= fuel)%nat ->
  exists r, component_mappings cython rq rm scope fuel = Some r.
Proof.
  intros H. unfold component_fuel in H. unfold component_mappings.
  destruct (uses_mask_path cython rm).
  - destruct (mask_search_terminates (enc_query rq) (enc_mol rm) scope fuel) as [r Hr]; [lia|]. rewrite Hr. eexists; reflexivity.
  - destruct (ref_search_terminates rq rm scope fuel) as [r Hr]; [lia|]. rewrite Hr. eexists; reflexivity.
Qed.

Theorem component_mappings_fuel_mono cython rq rm scope fuel r : component_mappings cython rq rm scope fuel = Some r ->
  forall fuel', (fuel <= fuel')%nat -> component_mappings cython rq rm scope fuel' = Some r.
Proof.
  unfold component_mappings. intros H fuel' Hle. destruct (uses_mask_path cython rm).
  - destruct (mask_search _ _ scope fuel) as [l|] eqn:El; [|discriminate].
    rewrite (mask_search_fuel_mono _ _ _ _ _ El fuel' Hle). exact H.
  - destruct (ref_search _ _ scope fuel) as [l|] eqn:El; [|discriminate].
    rewrite (ref_search_fuel_mono _ _ _ _ _ El fuel' Hle). exact H.
Qed.

Theorem component_mappings_fuel_irrelevant cython rq rm scope f1 f2 :
  (component_fuel rq rm <= f1)%nat -> (component_fuel rq rm <= f2)%nat ->
  component_mappings cython rq rm scope f1 = component_mappings cython rq rm scope f2 /\
  component_mappings cython rq rm scope f1 <> None.
Proof.
  intros H1 H2. destruct (component_mappings_terminates cython rq rm scope _ (Nat.le_refl _)) as [r Hr].
  rewrite (component_mappings_fuel_mono _ _ _ _ _ _ Hr f1 H1), (component_mappings_fuel_mono _ _ _ _ _ _ Hr f2 H2).
  split; [reflexivity|discriminate].
Qed.

(* the public call: the same list of dictionaries for every fuel from public_fuel on *)
Lemma public_fuel_ge comps rm rq : In rq comps -> (component_fuel rq rm <= public_fuel comps rm)%nat.
Proof. intros H. unfold public_fuel. apply (max_ge (fun rq => component_fuel rq rm)). exact H. Qed.

Lemma component_list_fuel_irrelevant cython rm rq s f1 f2 :
  (component_fuel rq rm <= f1)%nat -> (component_fuel rq rm <= f2)%nat ->
  component_list cython rm f1 rq s = component_list cython rm f2 rq s.
Proof.
  intros H1 H2. unfold component_list.
  rewrite (proj1 (component_mappings_fuel_irrelevant cython rq rm (scope_bits rm s) f1 f2 H1 H2)). reflexivity.
Qed.

Theorem public_get_mapping_fuel_irrelevant stereo_ok cython comps rm tcomps flt scope f1 f2 :
  (public_fuel comps rm <= f1)%nat -> (public_fuel comps rm <= f2)%nat ->
  public_get_mapping stereo_ok cython comps rm tcomps flt scope f1 =
  public_get_mapping stereo_ok cython comps rm tcomps flt scope f2.
Proof.
  intros H1 H2. unfold public_get_mapping, w_get_mapping. f_equal. f_equal.
  apply w_stream_ext. intros rq Hrq s. pose proof (public_fuel_ge comps rm rq Hrq).
  apply component_list_fuel_irrelevant; lia.
Qed.

(* and no component call inside it runs out of fuel: the `None => []` branch of component_list is never taken *)
Theorem public_no_component_out_of_fuel cython comps rm fuel : (public_fuel comps rm <= fuel)%nat ->
  forall rq s, In rq comps -> component_mappings cython rq rm (scope_bits rm s) fuel <> None.
Proof.
  intros H rq s Hrq. pose proof (public_fuel_ge comps rm rq Hrq).
  destruct (component_mappings_terminates cython rq rm (scope_bits rm s) fuel) as [r Hr]; [lia|]. rewrite Hr. discriminate.
Qed.

(* the equivalence of the two public calls, free of fuel: for every pair of sufficient fuels (not even the same on both sides) *)
Theorem public_get_mapping_equiv_fuel_free stereo_ok comps rm tcomps flt scope f1 f2 :
  Forall (fun rq => rq <> [] /\ wf_query rq /\ in_range_pair rq rm) comps ->
  (has_unknown_h rm = false -> wf_mol rm) ->
  (public_fuel comps rm <= f1)%nat -> (public_fuel comps rm <= f2)%nat ->
  public_get_mapping stereo_ok true comps rm tcomps flt scope f1 =
  public_get_mapping stereo_ok false comps rm tcomps flt scope f2.
Proof.
  intros Hc Hm H1 H2. rewrite (public_get_mapping_equiv stereo_ok comps rm tcomps flt scope f1 Hc Hm).
  apply public_get_mapping_fuel_irrelevant; assumption.
Qed.

(* non-vacuity: the bounds of the examples are small numbers and lie below the fuel the example theorems use *)
Theorem fuel_examples :
  mask_fuel (enc_query ex_rq) (enc_mol ex_rm) = 53%nat /\ ref_fuel ex_rq ex_rm = 53%nat /\
  mask_search (enc_query ex_rq) (enc_mol ex_rm) [true; true; true; true] 53 =
    Some [[3; 2; 1]; [3; 1; 2]; [2; 3; 1]; [2; 1; 3]; [1; 3; 2]; [1; 2; 3]]%Z /\
  mask_search (enc_query ex_rq) (enc_mol ex_rm) [true; true; true; true] 15 = None /\
  public_fuel ex2_comps ex2_rm = 4%nat.
Proof. vm_compute. repeat split; reflexivity. Qed.
