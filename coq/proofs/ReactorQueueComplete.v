(* C16 (extension 3): completeness of the one_shot=False queue of Reactor.__call__: when the generator runs to its end,
   every stage result of every processed item is represented among the yielded reactions, and everything a yielded
   (first-seen, unambiguous, not too deep) reaction expands to has been processed as well *)
From Coq Require Import ZArith List Bool Lia.
From Model Require Import PyBase ReactorStage ReactorQueue.
From Proofs Require Import ReactorQueueProofs.
Import ListNotations.

Section QueueComplete.
  Variables (M K : Type).
  Variable key_eqb : K -> K -> bool.
  Variable stage : list M -> list M -> list (list M) * option pyexn.
  Variable finish : list M -> list M -> list M.
  Variable key : list M -> K.
  Variable operms : list M -> list (list M).
  Variables n_patterns n_products limit : nat.
  Hypothesis key_eqb_spec : forall a b, key_eqb a b = true <-> a = b.

  Local Notation expand := (expand M operms n_patterns).
  Local Notation step_new := (step_new M K key_eqb finish key operms n_patterns n_products limit).
  Local Notation run := (run M K key_eqb stage finish key operms n_patterns n_products limit).

  (* `len(new) > 1 and len(r.products) != len(ignored) + len(self._products_atoms)`: yielded but not expanded *)
  Definition ambiguous (new prods ignored : list M) : bool :=
    Nat.ltb 1 (length new) && negb (Nat.eqb (length prods) (length ignored + n_products)).

  Lemma existsb_key_In' k seen : existsb (key_eqb k) seen = true <-> In k seen.
  Proof.
    rewrite existsb_exists. split.
    - intros (x & Hx & E). apply key_eqb_spec in E. subst. exact Hx.
    - intros H. exists k. split; [exact H|]. apply key_eqb_spec. reflexivity.
  Qed.

  Section OneItem.
    Variables (chosen ignored : list M) (d : nat).

    (* what holds after the news in `done` have been processed *)
    Definition CInv (done : list (list M)) (a : acc M K) : Prop :=
      (forall new, In new done -> In (key (finish new ignored)) (a_seen M K a)) /\
      (forall y, In y (a_yields M K a) -> exists new, In new done /\ y = finish new ignored /\
         (ambiguous new y ignored = false -> (S d < limit)%nat -> incl (expand chosen y (S d)) (a_items M K a))).

    Lemma step_new_mono a new :
      incl (a_seen M K a) (a_seen M K (step_new chosen ignored (S d) a new)) /\
      incl (a_items M K a) (a_items M K (step_new chosen ignored (S d) a new)) /\
      (exists l, a_yields M K (step_new chosen ignored (S d) a new) = a_yields M K a ++ l).
    Proof.
      unfold ReactorQueue.step_new.
      destruct (existsb (key_eqb (key (finish new ignored))) (a_seen M K a)).
      - split; [apply incl_refl|]. split; [apply incl_refl|]. exists []. rewrite app_nil_r. reflexivity.
      - destruct (Nat.ltb 1 (length new) && negb (Nat.eqb (length (finish new ignored)) (length ignored + n_products))); cbn [a_seen a_items a_yields].
        + split; [apply incl_tl, incl_refl|]. split; [apply incl_refl|]. eexists; reflexivity.
        + split; [apply incl_tl, incl_refl|]. split; [|eexists; reflexivity].
          destruct (Nat.ltb (S d) limit); [apply incl_appl|]; apply incl_refl.
    Qed.

    Lemma step_new_cinv done a new : CInv done a -> CInv (done ++ [new]) (step_new chosen ignored (S d) a new).
    Proof.
      intros [C1 C2]. destruct (step_new_mono a new) as (M1 & M2 & _).
      unfold CInv. split.
      - intros n Hn. apply in_app_or in Hn. destruct Hn as [Hn|[<-|[]]]; [apply M1; apply C1; exact Hn|].
        unfold ReactorQueue.step_new. destruct (existsb (key_eqb (key (finish new ignored))) (a_seen M K a)) eqn:E.
        + apply existsb_key_In'. exact E.
        + destruct (Nat.ltb 1 (length new) && negb (Nat.eqb (length (finish new ignored)) (length ignored + n_products))); cbn [a_seen]; left; reflexivity.
      - intros y Hy. revert Hy. unfold ReactorQueue.step_new.
        destruct (existsb (key_eqb (key (finish new ignored))) (a_seen M K a)) eqn:E.
        + intros Hy. destruct (C2 y Hy) as (n & Hn & Ey & Hexp). exists n. split; [apply in_or_app; left; exact Hn|]. split; [exact Ey|exact Hexp].
        + fold (ambiguous new (finish new ignored) ignored).
          destruct (ambiguous new (finish new ignored) ignored) eqn:Ea; cbn [a_yields a_items]; intros Hy; apply in_app_or in Hy.
          * destruct Hy as [Hy|[<-|[]]].
            -- destruct (C2 y Hy) as (n & Hn & Ey & Hexp). exists n. split; [apply in_or_app; left; exact Hn|]. split; [exact Ey|exact Hexp].
            -- exists new. split; [apply in_or_app; right; left; reflexivity|]. split; [reflexivity|]. intros Hc. congruence.
          * destruct Hy as [Hy|[<-|[]]].
            -- destruct (C2 y Hy) as (n & Hn & Ey & Hexp). exists n. split; [apply in_or_app; left; exact Hn|]. split; [exact Ey|].
               intros H1 H2. specialize (Hexp H1 H2). destruct (Nat.ltb (S d) limit); [apply incl_appl|]; exact Hexp.
            -- exists new. split; [apply in_or_app; right; left; reflexivity|]. split; [reflexivity|]. intros _ Hl.
               apply Nat.ltb_lt in Hl. rewrite Hl. apply incl_appr, incl_refl.
    Qed.

    Lemma fold_cinv : forall news done a, CInv done a ->
      CInv (done ++ news) (fold_left (step_new chosen ignored (S d)) news a) /\
      incl (a_seen M K a) (a_seen M K (fold_left (step_new chosen ignored (S d)) news a)).
    Proof.
      induction news as [|new news IH]; intros done a HC; cbn [fold_left].
      - rewrite app_nil_r. split; [exact HC|apply incl_refl].
      - destruct (IH (done ++ [new]) _ (step_new_cinv done a new HC)) as [H1 H2]. rewrite <- app_assoc in H1. split; [exact H1|].
        eapply incl_tran; [apply (step_new_mono a new)|exact H2].
    Qed.
  End OneItem.

  (* In k (a ++ b) in the form used below *)
  Definition known (seen : list K) (ys : list (list M)) (k : K) : Prop := In k seen \/ In k (map key ys).

  Theorem run_complete : forall fuel queue seen ys,
    run fuel queue seen = (ys, None, true) ->
    exists processed : list (item M),
      incl queue processed /\
      (* every result of a single stage on a processed item is represented: its key was seen before or is yielded *)
      (forall chosen ignored d new, In (chosen, ignored, d) processed -> In new (fst (stage chosen ignored)) ->
         known seen ys (key (finish new ignored))) /\
      (* every yielded reaction is such a result, and what it expands to has been processed too *)
      (forall y, In y ys -> exists chosen ignored d new,
         In (chosen, ignored, d) processed /\ In new (fst (stage chosen ignored)) /\ y = finish new ignored /\
         (ambiguous new y ignored = false -> (S d < limit)%nat -> incl (expand chosen y (S d)) processed)).
  Proof.
    induction fuel as [|f IH]; intros queue seen ys H; cbn [ReactorQueue.run] in H.
    - destruct queue; [|discriminate]. inversion H; subst. exists []. split; [apply incl_refl|]. split; [intros ? ? ? ? []|intros y []].
    - destruct queue as [|[[chosen ignored] d] rest].
      + inversion H; subst. exists []. split; [apply incl_refl|]. split; [intros ? ? ? ? []|intros y []].
      + destruct (stage chosen ignored) as [news ex] eqn:Est.
        set (a := fold_left (step_new chosen ignored (S d)) news (mkAcc M K seen [] [])) in *.
        destruct ex as [exn|]; [discriminate|].
        destruct (run f (rest ++ a_items M K a) (a_seen M K a)) as [[ys' e'] ok'] eqn:Er. inversion H; subst ys e' ok'. clear H.
        destruct (IH _ _ _ Er) as (I' & Q1 & Q2 & Q3).
        (* facts about the item just processed *)
        destruct (fold_cinv chosen ignored d news [] (mkAcc M K seen [] [])) as [[C1 C2] _].
        { split; [intros new []|intros y []]. }
        cbn [app] in C1, C2. fold a in C1, C2.
        pose proof (fold_step_inv M K key_eqb stage finish key operms n_patterns n_products limit key_eqb_spec
                      [(chosen, ignored, d)] chosen ignored d seen
                      (reach_init M stage finish operms n_patterns limit [(chosen, ignored, d)] (chosen, ignored, d) (or_introl eq_refl)) news (mkAcc M K seen [] [])) as HA.
        destruct HA as (_ & A2 & _).
        { unfold AInv. cbn. split; [constructor|]. split; [intros k; tauto|]. split; [intros y []|]. split; [constructor|intros it []]. }
        { rewrite Est. auto. }
        fold a in A2.
        assert (Hknown : forall k, known (a_seen M K a) ys' k -> known seen (a_yields M K a ++ ys') k).
        { intros k [Hk|Hk]; unfold known; rewrite map_app, in_app_iff; [apply A2 in Hk; tauto|tauto]. }
        exists ((chosen, ignored, d) :: I'). split; [|split].
        * intros it [<-|Hit]; [left; reflexivity|right; apply Q1; apply in_or_app; left; exact Hit].
        * intros ch ign d' new [E|Hin] Hnew.
          -- inversion E; subst ch ign d'. rewrite Est in Hnew. cbn [fst] in Hnew.
             apply Hknown. left. apply C1. exact Hnew.
          -- apply Hknown. eapply Q2; eassumption.
        * intros y Hy. apply in_app_or in Hy. destruct Hy as [Hy|Hy].
          -- destruct (C2 y Hy) as (new & Hnew & Ey & Hexp). exists chosen, ignored, d, new.
             split; [left; reflexivity|]. split; [rewrite Est; exact Hnew|]. split; [exact Ey|].
             intros H1 H2 it Hit. right. apply Q1. apply in_or_app. right. apply (Hexp H1 H2). exact Hit.
          -- destruct (Q3 y Hy) as (ch & ign & d' & new & Hi & Hn & Ey & Hexp). exists ch, ign, d', new.
             split; [right; exact Hi|]. split; [exact Hn|]. split; [exact Ey|].
             intros H1 H2 it Hit. right. apply (Hexp H1 H2). exact Hit.
  Qed.
End QueueComplete.

(* Reactor.__call__(one_shot=False) run to its end (no exception, queue exhausted): the yielded reactions are closed under
   "one more single stage": every stage result of every initial choice is yielded (up to its key), and so is every stage
   result of every item a yielded reaction expands to *)
Theorem exhaustive_complete : forall (M K : Type) (key_eqb : K -> K -> bool) stage finish (key : list M -> K) operms
    n_patterns n_products limit,
  (forall a b, key_eqb a b = true <-> a = b) ->
  forall structures fuel ys,
    exhaustive M K key_eqb stage finish key operms n_patterns n_products limit structures fuel = (ys, None, true) ->
    exists processed : list (item M),
      incl (init_queue M n_patterns structures) processed /\
      (forall chosen ignored d new, In (chosen, ignored, d) processed -> In new (fst (stage chosen ignored)) ->
         In (key (finish new ignored)) (map key ys)) /\
      (forall y, In y ys -> exists chosen ignored d new,
         In (chosen, ignored, d) processed /\ In new (fst (stage chosen ignored)) /\ y = finish new ignored /\
         (ambiguous M n_products new y ignored = false -> (S d < limit)%nat ->
          incl (expand M operms n_patterns chosen y (S d)) processed)).
Proof.
  intros M K key_eqb stage finish key operms n_patterns n_products limit Hk structures fuel ys H.
  unfold exhaustive in H.
  destruct (run_complete M K key_eqb stage finish key operms n_patterns n_products limit Hk fuel _ _ _ H) as (I & Q1 & Q2 & Q3).
  exists I. split; [exact Q1|]. split; [|exact Q3].
  intros ch ign d new Hi Hn. destruct (Q2 ch ign d new Hi Hn) as [[]|Hk']. exact Hk'.
Qed.

(* non-vacuity: the token example of ReactorQueueProofs runs to its end *)
Example exhaustive_complete_example :
  exhaustive Z (list Z) zl_eqb q_stage (fun new ign => new ++ ign) (fun p => p) (fun ms => [ms]) 1 1 3 [1%Z; 2%Z] 50
    = ([[3; 2]; [4; 2]]%Z, None, true).
Proof. vm_compute. reflexivity. Qed.
