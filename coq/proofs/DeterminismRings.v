(* C19 extension round 2: the two-element unpacks of rings.py
       n, m = common
       c = _canonic_ring(( *_ring_scissors(c, n, m), *_ring_scissors(r, m, n)[1:-1]))
   give the same merged ring for both enumerations of the two-member set, when n-m is a bond of both rings and the rings
   share no other atom.  Uses the model of _canonic_ring / _ring_scissors of Model.Rings and C06's
   canonic_ring_canonical (Proofs.RingsProofs), read-only. *)
From Coq Require Import ZArith List Bool Lia Permutation.
From Model Require Import PyBase Graph Rings Determinism.
From Proofs Require Import RingsProofs DeterminismProofs.
Import ListNotations.
Open Scope list_scope.
Open Scope Z_scope.

(* n and m are neighbours on the ring spelling (cyclically) *)
Definition cyc_adj (ring : list Z) (a b : Z) : Prop :=
  (exists X Y, ring = X ++ a :: b :: Y) \/ (exists X Y, ring = X ++ b :: a :: Y) \/
  (exists M, ring = a :: M ++ [b]) \/ (exists M, ring = b :: M ++ [a]).

Lemma cyc_adj_sym ring a b : cyc_adj ring a b -> cyc_adj ring b a.
Proof. unfold cyc_adj. intros [H|[H|[H|H]]]; tauto. Qed.

Lemma NoDup_app_notin {A} (x : list A) a y : NoDup (x ++ a :: y) -> ~ In a x /\ ~ In a y.
Proof.
  intros H. apply NoDup_remove_2 in H. split; intros Hin; apply H; apply in_or_app; tauto.
Qed.

Lemma firstn_len_app {A} (X R : list A) : firstn (length X) (X ++ R) = X.
Proof. induction X as [|x X IH]; cbn; [destruct R; reflexivity | rewrite IH; reflexivity]. Qed.
Lemma skipn_len_app {A} (X R : list A) : skipn (length X) (X ++ R) = R.
Proof. induction X as [|x X IH]; cbn; [reflexivity | exact IH]. Qed.
Lemma firstn_S_app {A} (X : list A) a R : firstn (S (length X)) (X ++ a :: R) = X ++ [a].
Proof. induction X as [|x X IH]; cbn; [destruct R; reflexivity | f_equal; exact IH]. Qed.
Lemma skipn_S_app {A} (X : list A) a R : skipn (S (length X)) (X ++ a :: R) = R.
Proof. induction X as [|x X IH]; cbn; [reflexivity | exact IH]. Qed.

(* b directly after a *)
Lemma scissors_next X a b Y : NoDup (X ++ a :: b :: Y) -> (3 <= length (X ++ a :: b :: Y))%nat ->
  ring_scissors (X ++ a :: b :: Y) a b = Ok (a :: (rev X ++ rev Y) ++ [b]) /\
  ring_scissors (X ++ a :: b :: Y) b a = Ok (b :: rev (rev X ++ rev Y) ++ [a]).
Proof.
  intros Hn Hl.
  destruct (NoDup_app_notin X a (b :: Y) Hn) as [HaX HaY].
  assert (Hn2 : NoDup ((X ++ [a]) ++ b :: Y)) by (rewrite <- app_assoc; exact Hn).
  destruct (NoDup_app_notin (X ++ [a]) b Y Hn2) as [HbX HbY].
  assert (Ia : index_nat a (X ++ a :: b :: Y) = Some (length X)) by (apply index_nat_app; exact HaX).
  assert (Ib : index_nat b (X ++ a :: b :: Y) = Some (S (length X))).
  { replace (X ++ a :: b :: Y) with ((X ++ [a]) ++ b :: Y) by (rewrite <- app_assoc; reflexivity).
    rewrite index_nat_app by exact HbX. rewrite app_length. cbn. f_equal. lia. }
  assert (Hlen : length (X ++ a :: b :: Y) = (length X + 2 + length Y)%nat) by (rewrite app_length; cbn; lia).
  assert (Hfs : firstn (S (S (length X))) (X ++ a :: b :: Y) = X ++ [a; b]).
  { replace (X ++ a :: b :: Y) with ((X ++ [a]) ++ b :: Y) by (rewrite <- app_assoc; reflexivity).
    replace (S (S (length X))) with (S (length (X ++ [a]))) by (rewrite app_length; cbn; lia).
    rewrite firstn_S_app, <- app_assoc. reflexivity. }
  assert (Hss : skipn (S (S (length X))) (X ++ a :: b :: Y) = Y).
  { replace (X ++ a :: b :: Y) with ((X ++ [a]) ++ b :: Y) by (rewrite <- app_assoc; reflexivity).
    replace (S (S (length X))) with (S (length (X ++ [a]))) by (rewrite app_length; cbn; lia).
    apply skipn_S_app. }
  split.
  - unfold ring_scissors. rewrite Ia, Ib.
    destruct (Nat.eqb_spec (length X) 0) as [E0|E0].
    + apply length_zero_iff_nil in E0. subst X. cbn. unfold sl_rev_to1. cbn. reflexivity.
    + destruct (Nat.eqb_spec (length X) (length (X ++ a :: b :: Y) - 1)) as [E1|E1]; [rewrite Hlen in E1; lia|].
      destruct (Nat.ltb_spec (length X) (S (length X))) as [_|H]; [|lia].
      unfold sl_rev_from, sl_rev_after. rewrite firstn_S_app, skipn_S_app.
      rewrite rev_app_distr. cbn [rev app]. rewrite <- !app_assoc. reflexivity.
  - unfold ring_scissors. rewrite Ia, Ib.
    destruct (Nat.eqb_spec (S (length X)) 0) as [E0|_]; [lia|].
    destruct (Nat.eqb_spec (S (length X)) (length (X ++ a :: b :: Y) - 1)) as [E1|E1].
    + (* b is the last atom *)
      rewrite Hlen in E1. assert (length Y = 0%nat) by lia. apply length_zero_iff_nil in H. subst Y.
      destruct (Nat.eqb_spec (length X) 0) as [E2|_]; [rewrite Hlen in Hl; cbn in Hl; lia|].
      unfold sl_init. replace (X ++ [a; b]) with ((X ++ [a]) ++ [b]) by (rewrite <- app_assoc; reflexivity).
      rewrite removelast_last. cbn [rev app]. rewrite app_nil_r, rev_involutive. reflexivity.
    + destruct (Nat.ltb_spec (S (length X)) (length X)) as [H|_]; [lia|].
      unfold sl_from, sl_to.
      assert (Hf : firstn (S (length X)) (X ++ a :: b :: Y) = X ++ [a]) by apply firstn_S_app.
      assert (Hs : skipn (S (length X)) (X ++ a :: b :: Y) = b :: Y) by apply skipn_S_app.
      rewrite Hf, Hs. rewrite rev_app_distr, !rev_involutive. cbn [app]. rewrite <- !app_assoc. reflexivity.
Qed.

(* a first, b last *)
Lemma scissors_wrap a M b : NoDup (a :: M ++ [b]) -> M <> [] ->
  ring_scissors (a :: M ++ [b]) a b = Ok (a :: M ++ [b]) /\
  ring_scissors (a :: M ++ [b]) b a = Ok (b :: rev M ++ [a]).
Proof.
  intros Hn HM.
  assert (Ia : index_nat a (a :: M ++ [b]) = Some O) by (cbn; rewrite Z.eqb_refl; reflexivity).
  assert (Hb : ~ In b (a :: M)).
  { change (a :: M ++ [b]) with ((a :: M) ++ [b]) in Hn. apply (NoDup_app_notin (a :: M) b []) in Hn. tauto. }
  assert (Ib : index_nat b (a :: M ++ [b]) = Some (S (length M))).
  { change (a :: M ++ [b]) with ((a :: M) ++ b :: []). rewrite index_nat_app by exact Hb. reflexivity. }
  assert (Hlen : length (a :: M ++ [b]) = S (S (length M))) by (cbn; rewrite app_length; cbn; lia).
  assert (HlM : (length M <> 0)%nat) by (intros E; apply length_zero_iff_nil in E; contradiction).
  split.
  - unfold ring_scissors. rewrite Ia, Ib. cbn [Nat.eqb].
    destruct (Nat.eqb_spec (length M) 0) as [E|_]; [lia | reflexivity].
  - unfold ring_scissors. rewrite Ia, Ib.
    destruct (Nat.eqb_spec (S (length M)) 0) as [E|_]; [lia|].
    destruct (Nat.eqb_spec (S (length M)) (length (a :: M ++ [b]) - 1)) as [_|E]; [|rewrite Hlen in E; lia].
    cbn [Nat.eqb]. unfold sl_rev. cbn [rev]. rewrite rev_app_distr. cbn. reflexivity.
Qed.

(* _ring_scissors(ring, a, b) for a ring bond a-b: the spelling that starts at a and ends at b; with the arguments
   exchanged: the same walk backwards *)
Lemma scissors_pair ring a b : NoDup ring -> (3 <= length ring)%nat -> cyc_adj ring a b ->
  exists I, ring_scissors ring a b = Ok (a :: I ++ [b]) /\ ring_scissors ring b a = Ok (b :: rev I ++ [a]) /\
            Permutation ring (a :: I ++ [b]).
Proof.
  intros Hn Hl [[X [Y ->]]|[[X [Y ->]]|[[M ->]|[M ->]]]].
  - destruct (scissors_next X a b Y Hn Hl) as [H1 H2]. exists (rev X ++ rev Y). repeat split; auto.
    apply Permutation_trans with (a :: X ++ b :: Y); [apply Permutation_sym, Permutation_middle|].
    apply perm_skip. apply Permutation_trans with (b :: X ++ Y); [apply Permutation_sym, Permutation_middle|].
    apply Permutation_trans with ((X ++ Y) ++ [b]); [apply Permutation_cons_append|].
    apply Permutation_app_tail. apply Permutation_app; apply Permutation_rev.
  - destruct (scissors_next X b a Y Hn Hl) as [H1 H2]. exists (rev (rev X ++ rev Y)). rewrite rev_involutive.
    repeat split; auto.
    apply Permutation_trans with (b :: X ++ a :: Y); [apply Permutation_sym, Permutation_middle|].
    apply Permutation_trans with (a :: b :: X ++ Y).
    { apply Permutation_trans with (b :: a :: X ++ Y); [apply perm_skip, Permutation_sym, Permutation_middle | apply perm_swap]. }
    apply perm_skip. apply Permutation_trans with ((X ++ Y) ++ [b]); [apply Permutation_cons_append|].
    apply Permutation_app_tail. rewrite rev_app_distr, !rev_involutive. apply Permutation_app_comm.
  - assert (M <> []) by (intros ->; cbn in Hl; lia).
    destruct (scissors_wrap a M b Hn H) as [H1 H2]. exists M. repeat split; auto.
  - assert (M <> []) by (intros ->; cbn in Hl; lia).
    destruct (scissors_wrap b M a Hn H) as [H1 H2]. exists (rev M). rewrite rev_involutive. repeat split; auto.
    apply perm_trans with (a :: b :: M); [|apply perm_skip].
    + apply Permutation_sym. apply Permutation_trans with ((b :: M) ++ [a]); [apply Permutation_cons_append | reflexivity].
    + apply Permutation_trans with (M ++ [b]); [apply Permutation_cons_append|]. apply Permutation_app_tail, Permutation_rev.
Qed.

(* the expression of the code: [1:-1] of the second spelling, concatenation, canonical form *)
Definition interior (l : list Z) : list Z := removelast (tl l).
Definition merged_ring (c r : list Z) (n m : Z) : pyres (list Z) :=
  match ring_scissors c n m, ring_scissors r m n with
  | Ok s1, Ok s2 => canonic_ring (s1 ++ interior s2)
  | Err e, _ => Err e
  | _, Err e => Err e
  end.

Lemma interior_spec a Q b : interior (a :: Q ++ [b]) = Q.
Proof. unfold interior. cbn [tl]. apply removelast_last. Qed.

(* `n, m = common`: both enumerations of the two-member set give the same merged ring *)
Theorem merged_ring_sym c r n m :
  NoDup c -> NoDup r -> (3 <= length c)%nat -> (3 <= length r)%nat ->
  cyc_adj c n m -> cyc_adj r n m ->
  (forall x, In x c -> In x r -> x = n \/ x = m) ->
  merged_ring c r n m = merged_ring c r m n /\ exists ring, merged_ring c r n m = Ok ring.
Proof.
  intros Nc Nr Lc Lr Ac Ar Hcommon.
  destruct (scissors_pair c n m Nc Lc Ac) as [P [C1 [C2 PC]]].
  destruct (scissors_pair r m n Nr Lr (cyc_adj_sym _ _ _ Ar)) as [Q [R1 [R2 PR]]].
  unfold merged_ring. rewrite C1, C2, R1, R2, !interior_spec.
  (* the merged spelling is duplicate free and long enough *)
  assert (NP : NoDup (n :: P ++ [m])) by (eapply Permutation_NoDup; [exact PC | exact Nc]).
  assert (NQ : NoDup (m :: Q ++ [n])) by (eapply Permutation_NoDup; [exact PR | exact Nr]).
  assert (Hnm : n <> m).
  { intros ->. inversion NP as [|? ? Hnot _]; subst. apply Hnot. apply in_or_app. right. left. reflexivity. }
  assert (HQ : forall x, In x Q -> ~ In x (n :: P ++ [m])).
  { intros x Hx Hin.
    assert (In x c) by (eapply Permutation_in; [apply Permutation_sym, PC | exact Hin]).
    assert (In x r) by (eapply Permutation_in; [apply Permutation_sym, PR | right; apply in_or_app; left; exact Hx]).
    inversion NQ as [|? ? Hm NQ']; subst.
    destruct (Hcommon x H H0) as [->| ->].
    - apply NoDup_remove_2 in NQ'. apply NQ'. rewrite app_nil_r. exact Hx.
    - apply Hm. apply in_or_app. left. exact Hx. }
  assert (NQQ : NoDup Q).
  { inversion NQ as [|? ? _ NQ']; subst. apply NoDup_remove_1 in NQ'. rewrite app_nil_r in NQ'. exact NQ'. }
  assert (Nall : NoDup ((n :: P ++ [m]) ++ Q)).
  { clear - NP NQQ HQ. induction (n :: P ++ [m]) as [|x l IH]; cbn; [exact NQQ|].
    inversion NP; subst. constructor.
    - intros Hin. apply in_app_or in Hin. destruct Hin as [Hin|Hin]; [contradiction|]. apply (HQ x Hin). left. reflexivity.
    - apply IH; auto. intros y Hy Hin. apply (HQ y Hy). right. exact Hin. }
  assert (Lall : (3 <= length ((n :: P ++ [m]) ++ Q))%nat).
  { rewrite app_length. rewrite <- (Permutation_length PC). lia. }
  destruct (canonic_ring_canonical _ Nall Lall) as [mn [f [E [_ [_ [_ [_ Hall]]]]]]].
  split; [|exists (mn :: f); exact E].
  rewrite E. symmetry. apply Hall.
  (* the other enumeration spells the same cycle backwards *)
  right. exists (rev Q), (m :: rev P ++ [n]). split.
  - cbn [app]. rewrite <- !app_assoc. cbn [rev]. rewrite !rev_app_distr. cbn [rev app]. rewrite <- !app_assoc. reflexivity.
  - cbn [app]. rewrite <- !app_assoc. reflexivity.
Qed.

(* the same fact in the vocabulary of the audit: the two-element unpack is order free *)
Corollary unpack_merged_ring c r n m e :
  NoDup c -> NoDup r -> (3 <= length c)%nat -> (3 <= length r)%nat -> cyc_adj c n m -> cyc_adj r n m ->
  (forall x, In x c -> In x r -> x = n \/ x = m) -> Permutation [n; m] e ->
  unpack2 (merged_ring c r) e = unpack2 (merged_ring c r) [n; m].
Proof.
  intros Nc Nr Lc Lr Ac Ar Hc Hp. apply Permutation_length_2_inv in Hp. destruct Hp as [->| ->]; [reflexivity|].
  cbn. f_equal. symmetry. apply (merged_ring_sym c r n m); assumption.
Qed.

(* non-vacuity: two fused rings of the model, both enumerations *)
Lemma merged_ring_example :
  merged_ring [1; 2; 3; 4] [3; 4; 5; 6; 7] 3 4 = Ok [1; 2; 3; 7; 6; 5; 4] /\
  merged_ring [1; 2; 3; 4] [3; 4; 5; 6; 7] 4 3 = Ok [1; 2; 3; 7; 6; 5; 4] /\
  cyc_adj [1; 2; 3; 4] 3 4 /\ cyc_adj [3; 4; 5; 6; 7] 3 4.
Proof.
  repeat split; try (vm_compute; reflexivity).
  - left. exists [1; 2], []. reflexivity.
  - left. exists [], [5; 6; 7]. reflexivity.
Qed.

(* WITHOUT the guard (the `n, m = common` of _is_condensed_ring, len(common) == 2): two rings that share two atoms which are
   not neighbours - the merge expression depends on the unpack order (and is not even a ring spelling) *)
Lemma merged_ring_unguarded_order_dependent :
  let c := [1; 2; 3; 4] in let r := [1; 5; 3; 6] in
  NoDup c /\ NoDup r /\ (forall x, In x c -> In x r -> x = 1 \/ x = 3) /\
  merged_ring c r 1 3 = Ok [1; 1; 6; 4; 3; 2] /\ merged_ring c r 3 1 = Ok [1; 2; 5; 3; 3; 4].
Proof.
  cbn zeta. repeat split; try (vm_compute; reflexivity).
  - repeat constructor; cbn; intuition lia.
  - repeat constructor; cbn; intuition lia.
  - cbn. intros x Hc Hr. intuition lia.
Qed.
