(* C01, extension: the string theorem under ANY renumbering and ANY insertion order with BOTH kinds of stereo marks, conditional on
   the agreement of the atom marks and of the bond tokens of the two labelled molecules (generalisation of
   StereoOrderExt.smiles_text_atom_stereo_perm: the no-cis/trans hypothesis is replaced by the bond-token hypothesis). *)
From Coq Require Import ZArith List String Bool Lia Permutation.
From Model Require Import PyBase PyHash Graph Morgan Stereo Writer.
From Proofs Require Import MorganProofs WriterInvProofs BfsExt BfsExt2 TraverseOrderExt InsertionOrderExt InsertionOrderExt2 StereoOrderExt.
Import ListNotations.
Open Scope Z_scope.

Section AllStereo.
  Variable g g' : mol.
  Variable s w w' tb tb' : Z -> Z.
  Variable o : opts.
  Variable tabs tabs' : stabs.
  Let gs := strip g.
  Let gs' := strip g'.
  Hypothesis Hwf : wf_mol (strip g) = true.
  Hypothesis Hwf' : wf_mol (strip g') = true.
  Hypothesis s_inj : forall x y, s x = s y -> x = y.
  Hypothesis Hp : mol_perm (ren_mol s (strip g)) (strip g').
  Hypothesis w_inj : inj_on (ids g) w.
  Hypothesis w_ren : forall n, In n (ids g) -> w' (s n) = w n.
  Hypothesis Hmp : o_mapping o = false.
  (* the same stereoisomer: the atom marks of the two labelled molecules agree for every neighbour table *)
  Hypothesis Hsm : forall n a a' adj, atom_of g n = Some a -> atom_of g' (s n) = Some a' ->
    stereo_mark g' o tabs' (s n) (ren_vis s adj) a' = stereo_mark g o tabs n adj a.
  (* ... and so do the bond tokens (cis / trans marks) *)
  Hypothesis Hfb : forall visited n m,
    format_bond g' o (ct_map g' tabs' (ren_vis s visited)) (s n) (s m) = format_bond g o (ct_map g tabs visited) n m.

  Lemma w_inj_s_all : inj_on (ids (strip g)) w.
  Proof. rewrite ids_strip. exact w_inj. Qed.
  Lemma w_ren_s_all n : In n (ids (strip g)) -> w' (s n) = w n.
  Proof. rewrite ids_strip. apply w_ren. Qed.

  Lemma atoms_agree_all n : option_map strip_atom (atom_of g' (s n)) = option_map strip_atom (atom_of g n).
  Proof. rewrite <- !atom_of_strip. apply (atom_of_perm (strip g) (strip g') s Hwf s_inj Hp). Qed.

  Lemma format_atom_stereo_perm_all visited n : format_atom g' o tabs' (s n) (ren_vis s visited) = format_atom g o tabs n visited.
  Proof.
    unfold format_atom, atom_fields. pose proof (atoms_agree_all n) as Ha.
    destruct (atom_of g' (s n)) as [a'|] eqn:E'; destruct (atom_of g n) as [a|] eqn:E; cbn [option_map] in Ha; try discriminate; [|reflexivity].
    injection Ha as H1 H2 H3 H4 H5. rewrite H1, H2, H3, H4, H5, (Hsm n a a' visited E E'), Hmp.
    rewrite <- (hybridization_strip g' (s n)), <- (hybridization_strip g n), (hybridization_perm (strip g) (strip g') s Hwf s_inj Hp n).
    rewrite <- (no_plain_strip g' (s n)), <- (no_plain_strip g n), (no_plain_perm (strip g) (strip g') s Hwf s_inj Hp n).
    reflexivity.
  Qed.

  Lemma format_bond_stereo_perm_all visited n m :
    format_bond g' o (ct_map g' tabs' (ren_vis s visited)) (s n) (s m) = format_bond g o (ct_map g tabs visited) n m.
  Proof. apply Hfb. Qed.

  Lemma format_cxsmiles_strip_all g0 ord : format_cxsmiles (strip g0) ord = format_cxsmiles g0 ord.
  Proof.
    unfold format_cxsmiles.
    assert (forall i, radical_positions (strip g0) ord i = radical_positions g0 ord i) as ->.
    { induction ord as [|m r IH]; intros i; cbn [radical_positions]; [reflexivity|]. rewrite atom_of_strip, !IH.
      destruct (atom_of g0 m); reflexivity. }
    replace (existsb (fun na => a_rad (snd na)) (m_atoms (strip g0))) with (existsb (fun na => a_rad (snd na)) (m_atoms g0)); [reflexivity|].
    unfold strip. cbn [m_atoms]. induction (m_atoms g0) as [|[k a] l IH]; cbn; [reflexivity|]. rewrite IH. reflexivity.
  Qed.

  Theorem component_stereo_perm_all st st' : incl (ws_atoms st) (ids g) -> wstate_relp (strip g) (strip g') s st st' ->
    wres_relp (strip g) (strip g') s (component g w tb o tabs (ids g) st) (component g' w' tb' o tabs' (ids g') st').
  Proof.
    intros Hi [[Hpa [Hcy [Hca [Hhe [Hout [Hord Hvb]]]]]] [Hrel [Ca Cb]]]. unfold component.
    assert (incl (ws_atoms st) (ids (strip g))) as Hi' by (rewrite ids_strip; exact Hi).
    pose proof (traverse_perm (strip g) (strip g') s w w' tb tb' o Hwf Hwf' s_inj Hp w_inj_s_all w_ren_s_all st st' Hi' Hpa Hcy Hrel Ca Cb) as Ht.
    rewrite !traverse_strip, !ids_strip in Ht.
    destruct (traverse g w tb o (ids g) st) as [t|e]; destruct (traverse g' w' tb' o (ids g') st') as [t'|e'];
      cbn [trav_rel2] in Ht; try contradiction; [|subst e'; reflexivity].
    destruct Ht as [H1 [H2 [H3 [H4 H5]]]].
    assert (flatten g' t' = ren_toks s (flatten g t)) as ->.
    { rewrite <- (flatten_strip g'), <- (flatten_strip g). unfold flatten, fl_fuel.
      rewrite (n_atoms_g' (strip g) (strip g') s Hp), H1, H2. unfold ren_dfs. cbn [ds_edges].
      apply (fl_run_ren s s_inj _ (ds_edges (tr_dfs t)) [(tr_start t, 0, [TAtom (tr_start t)])]). }
    destruct (flatten g t) as [smi|e]; cbn [ren_toks wres_relp]; [|reflexivity].
    rewrite H2. unfold ren_dfs. cbn [ds_tokens ds_edges ds_visited ds_cycle].
    rewrite (ring_positions_ren s s_inj), Hca, Hhe, (number_atoms_ren s s_inj).
    destruct (number_atoms (ds_tokens (tr_dfs t)) _ _ (ws_casted st) (ws_heap st)) as [[casted heap]|e]; cbn [wres_relp]; [|reflexivity].
    rewrite (order_neighbours_ren s s_inj).
    destruct (order_neighbours smi casted (ds_edges (tr_dfs t)) (ds_tokens (tr_dfs t)) (ds_visited (tr_dfs t))) as [tokens visited] eqn:E.
    cbn [fst snd]. rewrite Hvb.
    rewrite (emit_ren s s_inj o (format_bond g o (ct_map g tabs visited)) (format_bond g' o (ct_map g' tabs' (ren_vis s visited)))
                      (fun n => format_atom g o tabs n visited) (fun n => format_atom g' o tabs' n (ren_vis s visited)))
      by (intros; first [apply format_atom_stereo_perm_all | apply format_bond_stereo_perm_all]).
    destruct (emit o _ _ smi tokens casted (ws_vb st)) as [[[out ord] vb]|e]; cbn [ren_emit wres_relp]; [|reflexivity].
    assert (Permutation (map s (filter (fun n => negb (zhas visited n)) (ws_atoms st)))
                        (filter (fun n => negb (zhas (ren_vis s visited) n)) (ws_atoms st'))) as Hrest.
    { rewrite <- (filter_not_visited s s_inj). apply filter_perm. exact Hpa. }
    unfold wstate_relp, wstate_rel0. cbn [ws_atoms ws_seen ws_cycle ws_casted ws_heap ws_out ws_order ws_vb].
    repeat split; try reflexivity; try assumption.
    - rewrite Hout, !map_app. f_equal. f_equal.
      destruct (filter (fun n => negb (zhas visited n)) (ws_atoms st)) as [|r0 rr];
        destruct (filter (fun n => negb (zhas (ren_vis s visited) n)) (ws_atoms st')) as [|q0 qq]; try reflexivity.
      + apply Permutation_nil in Hrest. discriminate.
      + apply Permutation_sym, Permutation_nil in Hrest. discriminate.
    - rewrite Hord, map_app. reflexivity.
  Qed.

  Lemma component_atoms_incl2_all st st2 : component g w tb o tabs (ids g) st = Ok st2 -> incl (ws_atoms st2) (ws_atoms st).
  Proof.
    unfold component. destruct (traverse g w tb o (ids g) st) as [t|]; [|discriminate].
    destruct (flatten g t) as [smi|]; [|discriminate].
    destruct (number_atoms _ _ _ _ _) as [[casted heap]|]; [|discriminate].
    destruct (order_neighbours _ _ _ _ _) as [tokens visited].
    destruct (emit _ _ _ _ _ _ _) as [[[out ord] vb]|]; [|discriminate].
    intros [= <-]. cbn [ws_atoms]. intros x Hx. apply filter_In in Hx. apply Hx.
  Qed.

  Lemma components_stereo_perm_all fuel : forall st st', incl (ws_atoms st) (ids g) -> wstate_relp (strip g) (strip g') s st st' ->
    wres_relp (strip g) (strip g') s (components g w tb o tabs fuel (ids g) st) (components g' w' tb' o tabs' fuel (ids g') st').
  Proof.
    induction fuel as [|fuel IH]; intros st st' Hi Hrel; cbn [components]; [reflexivity|].
    pose proof (component_stereo_perm_all st st' Hi Hrel) as Hc.
    destruct (component g w tb o tabs (ids g) st) as [a|e] eqn:Ea;
      destruct (component g' w' tb' o tabs' (ids g') st') as [b|e'] eqn:Eb; cbn [wres_relp] in Hc; try contradiction.
    - pose proof Hc as [[Hpa _] _].
      destruct (ws_atoms a) as [|a0 ar] eqn:Eaa; destruct (ws_atoms b) as [|b0 br] eqn:Ebb.
      + exact Hc.
      + apply Permutation_nil in Hpa. discriminate.
      + apply Permutation_sym, Permutation_nil in Hpa. discriminate.
      + apply IH; [|exact Hc]. intros x Hx. apply Hi. apply (component_atoms_incl2_all st a Ea). exact Hx.
    - exact Hc.
  Qed.

  (* the string with tetrahedral / allene marks under any renumbering and insertion order *)
  Theorem smiles_text_atom_stereo_perm_all : smiles_text g' w' tb' o tabs' = map_order s (smiles_text g w tb o tabs).
  Proof.
    pose proof (ids_perm_g' (strip g) (strip g') s Hp) as Hids. rewrite !ids_strip in Hids.
    assert (wstate_relp (strip g) (strip g') s (init_state g) (init_state g')) as Hrel.
    { unfold init_state, wstate_relp, wstate_rel0. cbn [ws_atoms ws_seen ws_cycle ws_casted ws_heap ws_out ws_order ws_vb].
      repeat split; try reflexivity; try (intros y []). exact Hids. }
    pose proof (components_stereo_perm_all (S (n_atoms g)) (init_state g) (init_state g') (incl_refl _) Hrel) as Hc.
    unfold smiles_text, smiles_tokens.
    replace (n_atoms g') with (n_atoms g) by (rewrite <- (n_atoms_strip g'), <- (n_atoms_strip g); symmetry; apply (n_atoms_g' (strip g) (strip g') s Hp)).
    destruct (components g w tb o tabs (S (n_atoms g)) (ids g) (init_state g)) as [a|e];
      destruct (components g' w' tb' o tabs' (S (n_atoms g)) (ids g') (init_state g')) as [b|e']; cbn [wres_relp] in Hc; try contradiction.
    - destruct Hc as [[_ [_ [_ [_ [Hout [Hord _]]]]]] _].
      destruct (ids g) as [|i0 ir]; destruct (ids g') as [|j0 jr]; cbn [map] in Hids.
      + reflexivity.
      + apply Permutation_nil in Hids. discriminate.
      + apply Permutation_sym, Permutation_nil in Hids. discriminate.
      + rewrite Hout, Hord, spell_ren, <- (format_cxsmiles_strip_all g'), (format_cxsmiles_perm (strip g) (strip g') s Hwf s_inj Hp), format_cxsmiles_strip_all.
        destruct (o_cx o); [destruct (format_cxsmiles g (ws_order a))|]; reflexivity.
    - subst e'. destruct (ids g) as [|i0 ir]; destruct (ids g') as [|j0 jr]; cbn [map] in Hids; try reflexivity.
      + apply Permutation_nil in Hids. discriminate.
      + apply Permutation_sym, Permutation_nil in Hids. discriminate.
  Qed.
End AllStereo.
