(* C12, round 4: TIE BY TRANSLATION of the loop body of MoleculeStereo.stereogenic_cumulenes (Gen.StereoRegBody, regenerated on every
   run by tools/gen_stereoreg.py): which double bonds / cumulenes may carry a label and in which order their substituents are listed.
   Model.StereoRegistry.sg_cum_entry equals the translated body on every path with at least two atoms (every path of `cumulenes` has:
   cumulenes_chains), hence the whole registry stereogenic_cumulenes of the model is the one computed by the translated source. *)
From Coq Require Import ZArith List Bool Lia.
From Model Require Import PyBase Graph StereoRegistry.
From Gen Require Import StereoConsts StereoRegBody.
From Proofs Require Import StereoRegistryProofs.
Import ListNotations.
Open Scope Z_scope.

Lemma second_of_nth : forall l : list Z, (if zlen l =? 2 then Some (nth 1 l 0) else None) = second_of l.
Proof.
  intros l. unfold second_of. destruct l as [|a [|b [|c r]]]; try reflexivity.
  assert (E : (zlen (a :: b :: c :: r) =? 2) = false).
  { apply Z.eqb_neq. unfold zlen. cbn [List.length]. lia. }
  rewrite E. reflexivity.
Qed.

Lemma rev_two : forall (l : list Z), (2 <= List.length l)%nat -> exists t2 m1 r', rev l = t2 :: m1 :: r'.
Proof.
  intros l H. destruct (rev l) as [|t2 [|m1 r']] eqn:E.
  - apply (f_equal (@List.length Z)) in E. rewrite rev_length in E. cbn in E. lia.
  - apply (f_equal (@List.length Z)) in E. rewrite rev_length in E. cbn in E. lia.
  - eauto.
Qed.

Lemma last_z_rev : forall l t2 r', rev l = t2 :: r' -> last_z l = t2.
Proof.
  intros l t2 r' E. rewrite <- (rev_involutive l), E. cbn [rev]. unfold last_z. apply last_last.
Qed.

Theorem g_sg_cum_entry_eq : forall (fs : Z -> bool) g path, (2 <= List.length path)%nat ->
  g_sg_cum_entry fs g path = sg_cum_entry fs g path.
Proof.
  intros fs g path H.
  destruct (rev_two path H) as [t2 [m1 [r' E]]].
  destruct path as [|t1 [|n1 r]]; [cbn in H; lia | cbn in H; lia |].
  unfold g_sg_cum_entry, sg_cum_entry. rewrite E.
  rewrite (last_z_rev _ _ _ E). unfold penult_z. rewrite E.
  change (first_z (t1 :: n1 :: r)) with t1. change (second_z (t1 :: n1 :: r)) with n1. change (second_z (t2 :: m1 :: r')) with m1.
  cbv zeta.
  change (existsb (fun mb => negb (fst mb =? n1) && ((b_ord (snd mb) =? 3) || negb (fs (anum g (fst mb))) && negb (b_ord (snd mb) =? 8))) (nbrs g t1))
    with (end_blocked fs g t1 n1).
  change (existsb (fun mb => negb (fst mb =? m1) && ((b_ord (snd mb) =? 3) || negb (fs (anum g (fst mb))) && negb (b_ord (snd mb) =? 8))) (nbrs g t2))
    with (end_blocked fs g t2 m1).
  destruct (end_blocked fs g t1 n1); [reflexivity|]. destruct (end_blocked fs g t2 m1); [reflexivity|].
  change (existsb (fun mb => negb (fst mb =? n1) && (b_ord (snd mb) =? 2)) (nbrs g t1)) with (end_more_double g t1 n1).
  change (existsb (fun mb => negb (fst mb =? m1) && (b_ord (snd mb) =? 2)) (nbrs g t2)) with (end_more_double g t2 m1).
  destruct (end_more_double g t1 n1 || end_more_double g t2 m1); [reflexivity|].
  rewrite !Z.gtb_ltb.
  change (3 <? zlen (filter (fun mb => negb (b_ord (snd mb) =? 8)) (nbrs g t1))) with (end_crowded g t1).
  change (3 <? zlen (filter (fun mb => negb (b_ord (snd mb) =? 8)) (nbrs g t2))) with (end_crowded g t2).
  destruct (end_crowded g t1 || end_crowded g t2); [reflexivity|].
  change (map fst (filter (fun mb => negb (fst mb =? n1) && negb (anum g (fst mb) =? src_H) && negb (b_ord (snd mb) =? 8)) (nbrs g t1)))
    with (end_subst g t1 n1).
  change (map fst (filter (fun mb => negb (fst mb =? m1) && negb (anum g (fst mb) =? src_H) && negb (b_ord (snd mb) =? 8)) (nbrs g t2)))
    with (end_subst g t2 m1).
  rewrite !second_of_nth.
  destruct (end_subst g t1 n1) as [|a ra]; [reflexivity|]. destruct (end_subst g t2 m1) as [|c rc]; reflexivity.
Qed.

(* the whole registry: on the paths that `cumulenes` returns the model's stereogenic_cumulenes is the translated body, path by path *)
Theorem sg_cumulenes_of_translated : forall (fs : Z -> bool) g paths, (forall p, In p paths -> (2 <= List.length p)%nat) ->
  sg_cumulenes_of fs g paths = flat_map (g_sg_cum_entry fs g) paths.
Proof.
  intros fs g paths H. unfold sg_cumulenes_of. induction paths as [|p r IH]; [reflexivity|].
  cbn [flat_map]. rewrite IH by (intros q Hq; apply H; right; exact Hq).
  rewrite g_sg_cum_entry_eq by (apply H; left; reflexivity). reflexivity.
Qed.

Theorem sg_cumulenes_translated : forall (fs fd : Z -> bool) g,
  sg_cumulenes fs fd g = match cumulenes fd g with Ok ps => Ok (flat_map (g_sg_cum_entry fs g) ps) | Err e => Err e end.
Proof.
  intros fs fd g. unfold sg_cumulenes. destruct (cumulenes fd g) as [ps|e] eqn:E; [|reflexivity].
  rewrite (sg_cumulenes_of_translated fs g ps); [reflexivity|].
  intros p Hp. apply (cumulenes_chains fd g ps E p Hp).
Qed.

(* non-vacuity: the allene F-C(Cl)=C=C(Br)-I of StereoRegistryProofs.ex_allene (path 2-4-5), computed by the translated body *)
Theorem translated_body_example :
  g_sg_cum_entry (fun _ => true) ex_allene [2; 4; 5] = [([2; 4; 5], (1, 6, Some 3, Some 7))] /\
  g_sg_cum_entry (fun _ => false) ex_allene [2; 4; 5] = [].
Proof. vm_compute. split; reflexivity. Qed.

(* ---- tetrahedrons / stereogenic_tetrahedrons: the loop bodies as translated ---- *)
Lemma sum_ones : forall l : list (Z * bond), forallb (fun mb => b_ord (snd mb) =? 1) l = true ->
  fold_right Z.add 0 (map (fun mb => b_ord (snd mb)) l) = zlen l.
Proof.
  induction l as [|mb r IH]; intro H; [reflexivity|].
  cbn [forallb] in H. apply andb_true_iff in H. destruct H as [H1 H2]. apply Z.eqb_eq in H1.
  cbn [map fold_right]. rewrite H1, (IH H2). unfold zlen. cbn [List.length]. lia.
Qed.

Theorem g_tetra_entry_eq : forall g n a, g_tetra_entry g n a = if is_tetra g (n, a) then [n] else [].
Proof.
  intros g n a. unfold g_tetra_entry, is_tetra. cbn [fst snd]. cbv zeta. rewrite negb_involutive.
  change src_C with 6.
  destruct ((a_num a =? 6) && (a_chg a =? 0) && negb (a_rad a)); [|reflexivity].
  cbn [andb].
  destruct (forallb (fun mb => b_ord (snd mb) =? 1) (nbrs g n)) eqn:F; [|reflexivity].
  rewrite (sum_ones _ F), Z.gtb_ltb. cbn [andb]. destruct (4 <? zlen (nbrs g n)); reflexivity.
Qed.

Theorem tetrahedrons_translated : forall g,
  tetrahedrons g = flat_map (fun na => g_tetra_entry g (fst na) (snd na)) (m_atoms g).
Proof.
  intro g. unfold tetrahedrons. induction (m_atoms g) as [|[n a] r IH]; [reflexivity|].
  cbn [filter flat_map fst snd]. rewrite g_tetra_entry_eq. destruct (is_tetra g (n, a)); cbn [map app fst]; rewrite IH; reflexivity.
Qed.

Theorem g_sg_th_entry_eq : forall (fs : Z -> bool) g n, g_sg_th_entry fs g n = sg_th_entry fs g n.
Proof. intros. reflexivity. Qed.

Theorem sg_tetrahedrons_translated : forall (fs : Z -> bool) g,
  sg_tetrahedrons fs g = flat_map (g_sg_th_entry fs g) (flat_map (fun na => g_tetra_entry g (fst na) (snd na)) (m_atoms g)).
Proof. intros. unfold sg_tetrahedrons. rewrite tetrahedrons_translated. reflexivity. Qed.

Theorem translated_tetra_example :
  g_tetra_entry ex_th 2 (mkAtom 6 None 0 false (Some 0) None) = [2] /\ g_tetra_entry ex_th 2 (mkAtom 6 None 1 false (Some 0) None) = [] /\
  g_tetra_entry ex_th 2 (mkAtom 7 None 0 false (Some 0) None) = [].
Proof. vm_compute. repeat split; reflexivity. Qed.
