(* C04 -- proofs about Model.Valence.  Sections:
     1. calc_implicit / check_implicit agree (for ANY rule table); first rule wins
     2. locality and permutation invariance of calc_implicit / check_implicit
     3. fix_structure + check_valence report exactly the atoms without a valence state
     4. totals (formula, charge, radical flag, mass) are sums over atoms: additive, permutation invariant
     5. finite sweeps over the generated tables: tables compile, electron parity of every main-group rule,
        agreement with an independently written octet rule on the organic subset *)
From Coq Require Import ZArith List String Bool Lia Permutation.
From Model Require Import PyBase Graph PeriodicTable Valence.
From Gen Require Import Elements.
Import ListNotations.
Open Scope Z_scope.

(* ================================================================================================
   1. calc / check agreement
   ================================================================================================ *)
Definition no_aromatic (nv : nview) : bool := forallb (fun oz => negb (fst oz =? 4)) nv.

Lemma scan_calc_check ok nv : forall s d a, no_aromatic nv = true ->
  scan_calc ok nv s d a = match scan_check nv s d with SDone s' d' _ => SDone s' d' a | x => x end.
Proof.
  induction nv as [|[o z] r IH]; intros s d a H; cbn [scan_calc scan_check].
  - reflexivity.
  - cbn [no_aromatic forallb fst] in H. apply andb_prop in H. destruct H as [H4 Hr].
    destruct (o =? 4); [discriminate|].
    destruct (negb (o =? 8)).
    + destruct z; [apply IH; exact Hr | reflexivity].
    + apply IH; exact Hr.
Qed.

Lemma scan_check_aroma nv : forall s d s' d' a, scan_check nv s d = SDone s' d' a -> a = 0.
Proof.
  induction nv as [|[o z] r IH]; intros s d s' d' a; cbn [scan_check].
  - intros H. inversion H. reflexivity.
  - destruct (o =? 4); [discriminate|]. destruct (negb (o =? 8)).
    + destruct z; [apply IH | discriminate].
    + apply IH.
Qed.

Lemma scan_check_done_localised nv : forall s d s' d' a, scan_check nv s d = SDone s' d' a -> no_aromatic nv = true.
Proof.
  induction nv as [|[o z] r IH]; intros s d s' d' a; cbn [scan_check no_aromatic forallb fst]; [reflexivity|].
  destruct (o =? 4); [discriminate|]. cbn [negb andb].
  destruct (negb (o =? 8)); [destruct z; [apply IH | discriminate] | apply IH].
Qed.

Lemma first_rule_some_rule rs d h : first_rule rs d = Some h -> some_rule rs d h = true.
Proof.
  unfold some_rule. induction rs as [|r rest IH]; cbn [first_rule existsb]; [discriminate|].
  destruct (rule_matches r d) eqn:M.
  - intros H. inversion H. subst. rewrite Z.eqb_refl. reflexivity.
  - intros H. rewrite (IH H). apply orb_true_r.
Qed.

Lemma some_rule_first_rule rs d h : some_rule rs d h = true -> exists h', first_rule rs d = Some h'.
Proof.
  unfold some_rule. induction rs as [|r rest IH]; cbn [first_rule existsb]; [discriminate|].
  destruct (rule_matches r d) eqn:M.
  - intros _. eexists. reflexivity.
  - rewrite andb_false_r. cbn [orb]. exact IH.
Qed.

Lemma some_rule_In rs d h : some_rule rs d h = true <-> exists r, In r rs /\ r_h r = h /\ rule_matches r d = true.
Proof.
  unfold some_rule. rewrite existsb_exists. split.
  - intros [r [Hin H]]. apply andb_prop in H. destruct H as [H1 H2]. apply Z.eqb_eq in H1. exists r. auto.
  - intros [r [Hin [H1 H2]]]. exists r. split; [exact Hin|]. rewrite H2, <- H1, Z.eqb_refl. reflexivity.
Qed.

(* the first rule wins: exact characterisation of the scan *)
Theorem first_rule_wins rs d h :
  first_rule rs d = Some h <->
  exists pre r post, rs = pre ++ r :: post /\ forallb (fun x => negb (rule_matches x d)) pre = true /\
                     rule_matches r d = true /\ r_h r = h.
Proof.
  split.
  - induction rs as [|r rest IH]; cbn [first_rule]; [discriminate|].
    destruct (rule_matches r d) eqn:M.
    + intros H. inversion H. exists [], r, rest. cbn. auto.
    + intros H. destruct (IH H) as [pre [r' [post [E [P [M' Hh]]]]]].
      exists (r :: pre), r', post. cbn [app forallb]. rewrite E, M, P. auto.
  - intros [pre [r [post [E [P [M Hh]]]]]]. subst rs. induction pre as [|x pre IH]; cbn [app first_rule].
    + rewrite M, Hh. reflexivity.
    + cbn [forallb] in P. apply andb_prop in P. destruct P as [Px Pp]. apply negb_true_iff in Px. rewrite Px. exact (IH Pp).
Qed.

Theorem first_rule_none rs d : first_rule rs d = None <-> forall h, some_rule rs d h = false.
Proof.
  split.
  - intros H h. destruct (some_rule rs d h) eqn:S; [|reflexivity].
    destruct (some_rule_first_rule _ _ _ S) as [h' E]. congruence.
  - intros H. destruct (first_rule rs d) as [h|] eqn:F; [|reflexivity].
    specialize (H h). rewrite (first_rule_some_rule _ _ _ F) in H. discriminate.
Qed.

Section AnyRules.
  Variable vr : Z -> pyres (list rule).

  (* on localised bonds the computed count is accepted by the check *)
  Theorem calc_check_agree num chg rad nv h :
    no_aromatic nv = true -> calc_atom vr num chg rad nv = Ok (Some h) -> check_atom vr num nv h = Ok true.
  Proof.
    intros Hna. unfold calc_atom, check_atom. destruct (num =? 1).
    - intros H. inversion H. reflexivity.
    - rewrite (scan_calc_check _ _ _ _ _ Hna). destruct (scan_check nv 0 []) as [| e | s d a]; try discriminate.
      cbn [Z.eqb negb]. destruct (vr s) as [rules | e]; [| destruct e; discriminate].
      intros H. inversion H as [H1]. rewrite (first_rule_some_rule _ _ _ H1). reflexivity.
  Qed.

  (* an accepted count is justified by a rule of the table, and then calc_implicit finds a state as well *)
  Theorem check_justified num chg rad nv h :
    check_atom vr num nv h = Ok true ->
    (num = 1 /\ h = 0 /\ calc_atom vr num chg rad nv = Ok (Some 0)) \/
    (num <> 1 /\ no_aromatic nv = true /\
     exists s d rules r, scan_check nv 0 [] = SDone s d 0 /\ vr s = Ok rules /\ In r rules /\ r_h r = h /\
                         rule_matches r d = true /\
                         exists h', calc_atom vr num chg rad nv = Ok (Some h') /\ first_rule rules d = Some h').
  Proof.
    unfold check_atom, calc_atom. destruct (num =? 1) eqn:E1.
    - intros H. inversion H as [H1]. left. apply Z.eqb_eq in E1. apply Z.eqb_eq in H1. auto.
    - intros H. right. apply Z.eqb_neq in E1. split; [exact E1|].
      destruct (scan_check nv 0 []) as [| e | s d a] eqn:Sc; try discriminate.
      pose proof (scan_check_done_localised _ _ _ _ _ _ Sc) as Hna.
      split; [exact Hna|].
      rewrite (scan_calc_check _ _ _ _ _ Hna), Sc.
      pose proof (scan_check_aroma _ _ _ _ _ _ Sc) as Ha. subst a.
      destruct (vr s) as [rules | e] eqn:V; [| destruct e; discriminate].
      assert (H1 : some_rule rules d h = true) by congruence. destruct (proj1 (some_rule_In _ _ _) H1) as [r [Hin [Hh M]]].
      destruct (some_rule_first_rule _ _ _ H1) as [h' F].
      exists s, d, rules, r. split; [reflexivity|]. split; [exact V|]. split; [exact Hin|]. split; [exact Hh|].
      split; [exact M|]. exists h'. cbn [Z.eqb negb]. rewrite F. split; reflexivity.
  Qed.

  (* no valence state: calc_implicit stores None exactly when no hydrogen count passes check_implicit *)
  Theorem calc_none_iff num chg rad nv :
    no_aromatic nv = true -> num <> 1 ->
    (calc_atom vr num chg rad nv = Ok None <-> forall h, check_atom vr num nv h = Ok false).
  Proof.
    intros Hna H1. apply Z.eqb_neq in H1. unfold calc_atom, check_atom. rewrite H1.
    rewrite (scan_calc_check _ _ _ _ _ Hna).
    destruct (scan_check nv 0 []) as [| e | s d a] eqn:Sc.
    - split; auto.
    - split; [discriminate | intros H; specialize (H 0); discriminate].
    - pose proof (scan_check_aroma _ _ _ _ _ _ Sc) as Ha. subst a. cbn [Z.eqb negb].
      destruct (vr s) as [rules | e].
      + split.
        * intros H h. inversion H as [H2]. rewrite (proj1 (first_rule_none _ _) H2 h). reflexivity.
        * intros H. f_equal. apply first_rule_none. intros h. specialize (H h). inversion H. reflexivity.
      + destruct e; split; auto; try discriminate; intros H; specialize (H 0); discriminate.
  Qed.

  (* outside localised structures check_implicit refuses everything, whatever calc_implicit stored *)
  Theorem check_aromatic_false num nv h :
    num <> 1 -> no_aromatic nv = false ->
    check_atom vr num nv h = Ok false \/ exists e, check_atom vr num nv h = Err e.
  Proof.
    intros H1 Hna. apply Z.eqb_neq in H1. unfold check_atom. rewrite H1.
    assert (Hs : forall s d, scan_check nv s d = SReturn \/ exists e, scan_check nv s d = SRaise e).
    { induction nv as [|[o z] r IH]; intros s d; [discriminate|]. cbn [scan_check no_aromatic forallb fst] in *.
      destruct (o =? 4); [left; reflexivity|]. cbn [negb andb] in Hna.
      destruct (negb (o =? 8)); [destruct z; [apply IH; exact Hna | right; eexists; reflexivity] | apply IH; exact Hna]. }
    destruct (Hs 0 []) as [E | [e E]]; rewrite E; [left; reflexivity | right; eexists; reflexivity].
  Qed.
End AnyRules.

(* the scope restriction of calc_check_agree is necessary: an aromatic CH carbon gets 1 hydrogen from calc_implicit and
   check_implicit refuses it ("can't check aromatic rings") *)
Lemma calc_check_agree_needs_localised :
  exists nv, calc_atom (valence_rules el_C 0 false) 6 0 false nv = Ok (Some 1) /\
             check_atom (valence_rules el_C 0 false) 6 nv 1 = Ok false.
Proof. exists [(4, Some 6); (4, Some 6)]. vm_compute. split; reflexivity. Qed.

(* ================================================================================================
   2. locality and permutation invariance
   ================================================================================================ *)
Lemma ekey_eqb_eq a b : ekey_eqb a b = true <-> a = b.
Proof.
  unfold ekey_eqb. destruct a as [a1 a2], b as [b1 b2]. cbn [fst snd]. rewrite andb_true_iff, !Z.eqb_eq.
  split; [intros [H1 H2]; subst; reflexivity | intros H; inversion H; auto].
Qed.
Lemma ekey_eqb_refl a : ekey_eqb a a = true.
Proof. apply ekey_eqb_eq. reflexivity. Qed.
Lemma ekey_eqb_sym a b : ekey_eqb a b = ekey_eqb b a.
Proof.
  destruct (ekey_eqb a b) eqn:E.
  - apply ekey_eqb_eq in E. subst. symmetry. apply ekey_eqb_refl.
  - destruct (ekey_eqb b a) eqn:E'; [|reflexivity]. apply ekey_eqb_eq in E'. subst. rewrite ekey_eqb_refl in E. discriminate.
Qed.

Definition is_expl (oz : Z * Z) : bool := negb (fst oz =? 4) && negb (fst oz =? 8).
Definition is4 (oz : Z * Z) : bool := fst oz =? 4.
Definition non8 (oz : Z * Z) : bool := negb (fst oz =? 8).
Definition expl (e : env) : env := filter is_expl e.
Definition has4 (e : env) : bool := existsb is4 e.
Definition n4 (e : env) : Z := Z.of_nat (List.length (filter is4 e)).
Definition esum (l : env) : Z := fold_right (fun oz acc => fst oz + acc) 0 l.
Definition build (l : env) (d : edict) : edict := fold_left eincr l d.
Definition kcount (l : env) (k : ekey) : Z := Z.of_nat (List.length (filter (ekey_eqb k) l)).
Definition dict_equiv (d d' : edict) : Prop := forall k, eget d k = eget d' k.

Lemma scan_calc_env ok e : forall s d a,
  scan_calc ok (nview_of_env e) s d a =
  if negb ok && has4 e then SReturn else SDone (s + esum (expl e)) (build (expl e) d) (a + n4 e).
Proof.
  induction e as [|[o z] r IH]; intros s d a.
  - cbn. rewrite andb_false_r. f_equal; lia.
  - cbn [nview_of_env map scan_calc fst snd]. unfold has4, expl, n4, is_expl, is4 in *. cbn [existsb filter fst].
    destruct (o =? 4) eqn:E4.
    + cbn [negb andb orb]. destruct ok; cbn [negb andb].
      * rewrite IH. cbn [negb andb]. cbn [List.length]. f_equal. lia.
      * reflexivity.
    + cbn [negb andb orb]. destruct (o =? 8) eqn:E8; cbn [negb].
      * apply IH.
      * rewrite IH. cbn [fold_right esum build fold_left fst]. destruct (negb ok && existsb (fun oz => fst oz =? 4) r); [reflexivity|].
        f_equal. unfold esum. lia.
Qed.

Lemma scan_check_env e : forall s d,
  scan_check (nview_of_env e) s d = if has4 e then SReturn else SDone (s + esum (expl e)) (build (expl e) d) 0.
Proof.
  induction e as [|[o z] r IH]; intros s d.
  - cbn. f_equal; lia.
  - cbn [nview_of_env map scan_check fst snd]. unfold has4, expl, is_expl, is4 in *. cbn [existsb filter fst].
    destruct (o =? 4) eqn:E4; [reflexivity|]. cbn [negb andb orb]. destruct (o =? 8) eqn:E8; cbn [negb].
    + apply IH.
    + rewrite IH. cbn [fold_right esum build fold_left fst]. destruct (existsb (fun oz => fst oz =? 4) r); [reflexivity|].
      f_equal. unfold esum. lia.
Qed.

Lemma eget_eincr d k k' : eget (eincr d k) k' = if ekey_eqb k' k then Some (ecount d k + 1) else eget d k'.
Proof.
  unfold ecount. induction d as [|[k0 c] r IH]; cbn [eincr eget].
  - destruct (ekey_eqb k' k); reflexivity.
  - destruct (ekey_eqb k k0) eqn:E; cbn [eget].
    + apply ekey_eqb_eq in E. subst k0. destruct (ekey_eqb k' k); reflexivity.
    + destruct (ekey_eqb k' k0) eqn:E'.
      * apply ekey_eqb_eq in E'. subst k0. rewrite ekey_eqb_sym, E. reflexivity.
      * exact IH.
Qed.

Lemma kcount_nonneg l k : 0 <= kcount l k.
Proof. unfold kcount. lia. Qed.
Lemma kcount_cons x l k : kcount (x :: l) k = (if ekey_eqb k x then 1 else 0) + kcount l k.
Proof. unfold kcount. cbn [filter]. destruct (ekey_eqb k x); cbn [List.length]; lia. Qed.

Lemma eget_build l : forall d k,
  eget (build l d) k = match eget d k with
                       | Some c => Some (c + kcount l k)
                       | None => if kcount l k =? 0 then None else Some (kcount l k)
                       end.
Proof.
  induction l as [|x l IH]; intros d k.
  - cbn. destruct (eget d k); [f_equal; lia | reflexivity].
  - cbn [build fold_left]. fold (build l (eincr d x)). rewrite IH, eget_eincr, kcount_cons.
    pose proof (kcount_nonneg l k) as Hn. destruct (ekey_eqb k x) eqn:E.
    + apply ekey_eqb_eq in E. subst x. unfold ecount. destruct (eget d k) as [c|].
      * f_equal. lia.
      * destruct (1 + kcount l k =? 0) eqn:Z0; [apply Z.eqb_eq in Z0; lia | f_equal; lia].
    + cbn [Z.add]. reflexivity.
Qed.

Lemma Permutation_filter' {A} (f : A -> bool) l l' : Permutation l l' -> Permutation (filter f l) (filter f l').
Proof.
  induction 1; cbn [filter].
  - constructor.
  - destruct (f x); [constructor|]; assumption.
  - destruct (f x), (f y); try apply perm_swap; apply Permutation_refl.
  - eapply Permutation_trans; eassumption.
Qed.

Lemma kcount_perm l l' k : Permutation l l' -> kcount l k = kcount l' k.
Proof. intros P. unfold kcount. rewrite (Permutation_length (Permutation_filter' (ekey_eqb k) _ _ P)). reflexivity. Qed.

Lemma esum_perm l l' : Permutation l l' -> esum l = esum l'.
Proof.
  induction 1.
  - reflexivity.
  - change (esum (x :: l)) with (fst x + esum l). change (esum (x :: l')) with (fst x + esum l'). lia.
  - change (esum (y :: x :: l)) with (fst y + (fst x + esum l)). change (esum (x :: y :: l)) with (fst x + (fst y + esum l)). lia.
  - congruence.
Qed.

Lemma existsb_perm {A} (f : A -> bool) l l' : Permutation l l' -> existsb f l = existsb f l'.
Proof.
  induction 1; cbn [existsb].
  - reflexivity.
  - rewrite IHPermutation. reflexivity.
  - destruct (f x), (f y); reflexivity.
  - congruence.
Qed.

Lemma build_perm l l' : Permutation l l' -> dict_equiv (build l []) (build l' []).
Proof. intros P k. rewrite !eget_build. cbn [eget]. rewrite (kcount_perm _ _ k P). reflexivity. Qed.

Lemma forallb_ext' {A} (f g : A -> bool) l : (forall x, f x = g x) -> forallb f l = forallb g l.
Proof. intros H. induction l as [|x l IH]; cbn [forallb]; [reflexivity | rewrite H, IH; reflexivity]. Qed.

Lemma rule_matches_equiv r d d' : dict_equiv d d' -> rule_matches r d = rule_matches r d'.
Proof.
  intros H. unfold rule_matches. f_equal.
  - apply forallb_ext'. intros k. unfold ehas. rewrite H. reflexivity.
  - apply forallb_ext'. intros kc. unfold ecount. rewrite H. reflexivity.
Qed.
Lemma first_rule_equiv rs d d' : dict_equiv d d' -> first_rule rs d = first_rule rs d'.
Proof.
  intros H. induction rs as [|r rest IH]; cbn [first_rule]; [reflexivity|].
  rewrite (rule_matches_equiv r d d' H), IH. reflexivity.
Qed.
Lemma some_rule_equiv rs d d' h : dict_equiv d d' -> some_rule rs d h = some_rule rs d' h.
Proof.
  intros H. unfold some_rule. induction rs as [|r rest IH]; cbn [existsb]; [reflexivity|].
  rewrite (rule_matches_equiv r d d' H), IH. reflexivity.
Qed.

(* the result is a function of: presence / number of aromatic bonds, the sum of the explicit orders and the
   multiplicity function of (order, element) over the explicit bonds *)
Lemma calc_env_ext t num chg rad e e' :
  has4 e = has4 e' -> n4 e = n4 e' -> esum (expl e) = esum (expl e') ->
  dict_equiv (build (expl e) []) (build (expl e') []) ->
  calc_env t num chg rad e = calc_env t num chg rad e' /\
  forall h, check_env t num chg rad e h = check_env t num chg rad e' h.
Proof.
  intros H4 Hn Hs Hd. unfold calc_env, check_env, calc_atom, check_atom. split.
  - destruct (num =? 1); [reflexivity|]. rewrite !scan_calc_env, H4, Hn, Hs.
    destruct (negb ((chg =? 0) && negb rad && (num =? 6)) && has4 e'); [reflexivity|].
    destruct (0 + n4 e' =? 2); [reflexivity|]. destruct (0 + n4 e' =? 3); [reflexivity|].
    destruct (negb (0 + n4 e' =? 0)); [reflexivity|].
    destruct (lookup_rules t chg rad (0 + esum (expl e'))) as [rules|x]; [|reflexivity].
    rewrite (first_rule_equiv rules _ _ Hd). reflexivity.
  - intros h. destruct (num =? 1); [reflexivity|]. rewrite !scan_check_env, H4, Hs.
    destruct (has4 e'); [reflexivity|].
    destruct (lookup_rules t chg rad (0 + esum (expl e'))) as [rules|x]; [|reflexivity].
    rewrite (some_rule_equiv rules _ _ h Hd). reflexivity.
Qed.

(* invariance under ANY permutation of the neighbour list *)
Theorem calc_env_perm t num chg rad e e' : Permutation e e' ->
  calc_env t num chg rad e = calc_env t num chg rad e' /\
  forall h, check_env t num chg rad e h = check_env t num chg rad e' h.
Proof.
  intros P. apply calc_env_ext.
  - apply existsb_perm. exact P.
  - unfold n4. rewrite (Permutation_length (Permutation_filter' is4 _ _ P)). reflexivity.
  - apply esum_perm. apply Permutation_filter'. exact P.
  - apply build_perm. apply Permutation_filter'. exact P.
Qed.

Lemma filter_filter {A} (f g : A -> bool) l : (forall x, f x = true -> g x = true) -> filter f (filter g l) = filter f l.
Proof.
  intros H. induction l as [|x l IH]; cbn [filter]; [reflexivity|].
  destruct (g x) eqn:G; cbn [filter].
  - rewrite IH. reflexivity.
  - destruct (f x) eqn:F; [rewrite (H x F) in G; discriminate | exact IH].
Qed.

Lemma has4_non8 e : has4 e = has4 (filter non8 e).
Proof.
  unfold has4. induction e as [|[o z] r IH]; cbn [filter existsb]; [reflexivity|].
  unfold non8 at 1, is4 at 1. cbn [fst]. destruct (o =? 8) eqn:E8; cbn [negb existsb].
  - apply Z.eqb_eq in E8. subst o. rewrite <- IH. reflexivity.
  - unfold is4 at 2. cbn [fst]. rewrite IH. reflexivity.
Qed.

(* order-8 ("any") bonds are ignored *)
Lemma calc_env_ignores_8 t num chg rad e :
  calc_env t num chg rad e = calc_env t num chg rad (filter non8 e) /\
  forall h, check_env t num chg rad e h = check_env t num chg rad (filter non8 e) h.
Proof.
  assert (E4 : filter is4 (filter non8 e) = filter is4 e).
  { apply filter_filter. intros [o z]. unfold is4, non8. cbn [fst]. intros H. apply Z.eqb_eq in H. subst. reflexivity. }
  apply calc_env_ext.
  - apply has4_non8.
  - unfold n4. rewrite E4. reflexivity.
  - unfold expl. rewrite filter_filter; [reflexivity|].
    intros [o z]. unfold is_expl, non8. cbn [fst]. intros H. apply andb_prop in H. tauto.
  - unfold expl. rewrite filter_filter; [intros k; reflexivity|].
    intros [o z]. unfold is_expl, non8. cbn [fst]. intros H. apply andb_prop in H. tauto.
Qed.

(* the count depends only on element, charge, radical state and the MULTISET of (order, element) over non-8 bonds *)
Theorem calc_env_multiset t num chg rad e e' : Permutation (filter non8 e) (filter non8 e') ->
  calc_env t num chg rad e = calc_env t num chg rad e' /\
  forall h, check_env t num chg rad e h = check_env t num chg rad e' h.
Proof.
  intros P. destruct (calc_env_ignores_8 t num chg rad e) as [A1 A2], (calc_env_ignores_8 t num chg rad e') as [B1 B2].
  destruct (calc_env_perm t num chg rad _ _ P) as [C1 C2]. split; [congruence|]. intros h. rewrite A2, B2. apply C2.
Qed.

(* molecule level *)
Fixpoint resolve (g : mol) (nb : list (Z * bond)) : option env :=
  match nb with
  | [] => Some []
  | (m, b) :: r => match atom_of g m, resolve g r with
                   | Some a, Some e => Some ((b_ord b, a_num a) :: e)
                   | _, _ => None
                   end
  end.
(* the (order, atomic number) list of atom n in dictionary order; None when n or a neighbour is missing *)
Definition env_of (g : mol) (n : Z) : option env :=
  match zget (m_adj g) n with Some nb => resolve g nb | None => None end.

Lemma resolve_nview g nb : forall e, resolve g nb = Some e -> nview_of g nb = nview_of_env e.
Proof.
  induction nb as [|[m b] r IH]; intros e; cbn [resolve nview_of map].
  - intros H. inversion H. reflexivity.
  - destruct (atom_of g m) as [a|] eqn:Ea; [|discriminate]. destruct (resolve g r) as [e0|]; [|discriminate].
    intros H. inversion H. unfold nview_of, nview_of_env. cbn [map fst snd]. rewrite Ea. cbn [option_map]. f_equal.
    apply IH. reflexivity.
Qed.

Lemma calc_implicit_env g n a e : atom_of g n = Some a -> env_of g n = Some e ->
  calc_implicit g n = calc_env (rules_of_atom a) (a_num a) (a_chg a) (a_rad a) e /\
  forall h, check_implicit g n h = check_env (rules_of_atom a) (a_num a) (a_chg a) (a_rad a) e h.
Proof.
  unfold env_of, calc_implicit, check_implicit, calc_env, check_env. intros Ha. rewrite Ha.
  destruct (zget (m_adj g) n) as [nb|]; [|discriminate]. intros Hr. rewrite (resolve_nview _ _ _ Hr).
  unfold calc_atom, check_atom. destruct (a_num a =? 1); split; reflexivity.
Qed.

Theorem calc_implicit_local g g' n n' a a' e e' :
  atom_of g n = Some a -> atom_of g' n' = Some a' ->
  a_num a = a_num a' -> a_chg a = a_chg a' -> a_rad a = a_rad a' ->
  env_of g n = Some e -> env_of g' n' = Some e' -> Permutation (filter non8 e) (filter non8 e') ->
  calc_implicit g n = calc_implicit g' n' /\ forall h, check_implicit g n h = check_implicit g' n' h.
Proof.
  intros Ha Ha' Hn Hc Hr He He' P.
  destruct (calc_implicit_env _ _ _ _ Ha He) as [A1 A2], (calc_implicit_env _ _ _ _ Ha' He') as [B1 B2].
  assert (R : rules_of_atom a = rules_of_atom a') by (unfold rules_of_atom; rewrite Hn; reflexivity).
  destruct (calc_env_multiset (rules_of_atom a) (a_num a) (a_chg a) (a_rad a) _ _ P) as [C1 C2].
  split.
  - rewrite A1, B1, C1, R, Hn, Hc, Hr. reflexivity.
  - intros h. rewrite A2, B2, C2, R, Hn, Hc, Hr. reflexivity.
Qed.

(* non-vacuity: two differently ordered environments with an inserted order-8 bond *)
Example calc_env_multiset_example :
  Permutation (filter non8 [(1, 6); (2, 8); (1, 8)]) (filter non8 [(1, 8); (8, 26); (2, 8); (1, 6)]) /\
  calc_env (compiled_rules el_N) 7 1 false [(1, 6); (2, 8); (1, 8)] = Ok (Some 0).
Proof.
  split; [|vm_compute; reflexivity]. cbn.
  apply Permutation_trans with [(1, 8); (1, 6); (2, 8)].
  - apply Permutation_sym. apply Permutation_trans with [(1, 6); (1, 8); (2, 8)]; [apply perm_swap | apply perm_skip; apply perm_swap].
  - apply perm_skip. apply perm_swap.
Qed.

(* ================================================================================================
   3. fix_structure + check_valence
   ================================================================================================ *)
Definition with_h (a : atom) (h : option Z) : atom := mkAtom (a_num a) (a_iso a) (a_chg a) (a_rad a) h (a_stereo a).
Definition core (a : atom) : Z * Z * bool := (a_num a, a_chg a, a_rad a).
Definition same_skel (g g' : mol) : Prop :=
  m_adj g = m_adj g' /\ forall k, option_map core (atom_of g k) = option_map core (atom_of g' k).

Lemma atom_of_set_h g m h k :
  atom_of (set_h g m h) k = match atom_of g k with
                            | Some a => Some (if k =? m then with_h a h else a)
                            | None => None
                            end.
Proof.
  unfold atom_of, set_h. cbn [m_atoms]. induction (m_atoms g) as [|[k0 a0] r IH]; cbn [map zget fst snd]; [reflexivity|].
  destruct (k0 =? m) eqn:E0; cbn [zget fst snd].
  - destruct (k =? k0) eqn:E; [|exact IH]. apply Z.eqb_eq in E. subst k0. rewrite E0. reflexivity.
  - destruct (k =? k0) eqn:E; [|exact IH]. apply Z.eqb_eq in E. subst k0. rewrite E0. reflexivity.
Qed.

Lemma ids_set_h g m h : ids (set_h g m h) = ids g.
Proof.
  unfold ids, set_h, keys. cbn [m_atoms]. rewrite map_map. apply map_ext. intros [k a]. cbn [fst snd]. destruct (k =? m); reflexivity.
Qed.

Lemma same_skel_refl g : same_skel g g.
Proof. split; reflexivity. Qed.
Lemma same_skel_trans g1 g2 g3 : same_skel g1 g2 -> same_skel g2 g3 -> same_skel g1 g3.
Proof. intros [A1 A2] [B1 B2]. split; [congruence | intros k; rewrite A2; apply B2]. Qed.
Lemma same_skel_set_h g m h : same_skel g (set_h g m h).
Proof.
  split; [reflexivity|]. intros k. rewrite atom_of_set_h. destruct (atom_of g k) as [a|]; [|reflexivity].
  destruct (k =? m); reflexivity.
Qed.

Lemma same_skel_nview g g' nb : same_skel g g' -> nview_of g nb = nview_of g' nb.
Proof.
  intros [_ H]. unfold nview_of. apply map_ext. intros [m b]. cbn [fst snd]. f_equal.
  specialize (H m). destruct (atom_of g m) as [a|], (atom_of g' m) as [a'|]; cbn [option_map] in *; try congruence.
  unfold core in H. inversion H. reflexivity.
Qed.

(* the stored hydrogen counts never influence calc_implicit / check_implicit *)
Lemma same_skel_calc g g' n : same_skel g g' ->
  calc_implicit g n = calc_implicit g' n /\ forall h, check_implicit g n h = check_implicit g' n h.
Proof.
  intros S. pose proof S as [Hadj Hat]. unfold calc_implicit, check_implicit. specialize (Hat n).
  destruct (atom_of g n) as [a|], (atom_of g' n) as [a'|]; cbn [option_map] in Hat; try discriminate; [|split; reflexivity].
  unfold core in Hat. injection Hat as Hn Hc Hr. rewrite <- Hadj.
  assert (R : rules_of_atom a = rules_of_atom a') by (unfold rules_of_atom; rewrite Hn; reflexivity).
  rewrite <- Hn, <- Hc, <- Hr, <- R. destruct (a_num a =? 1); [split; reflexivity|].
  destruct (zget (m_adj g) n) as [nb|]; [|split; reflexivity]. rewrite (same_skel_nview _ _ nb S). split; reflexivity.
Qed.

Definition result_of (r : pyres (option Z)) : option Z := match r with Ok v => v | Err _ => None end.

Lemma with_h_with_h a h v : with_h (with_h a h) v = with_h a v.
Proof. reflexivity. Qed.

Lemma recalc_loop_spec ns : forall g g', recalc_loop g ns = Ok g' ->
  same_skel g g' /\ ids g' = ids g /\
  (forall k, In k ns -> exists v, calc_implicit g k = Ok v) /\
  forall k, atom_of g' k = match atom_of g k with
                           | Some a => Some (if zmem k ns then with_h a (result_of (calc_implicit g k)) else a)
                           | None => None
                           end.
Proof.
  induction ns as [|n r IH]; intros g g'; cbn [recalc_loop].
  - intros H. inversion H. subst g'. split; [apply same_skel_refl|]. split; [reflexivity|]. split; [intros k []|].
    intros k. cbn. destruct (atom_of g k); reflexivity.
  - destruct (calc_implicit g n) as [h|x] eqn:C; [|discriminate]. intros H.
    destruct (IH _ _ H) as [S [I [Hok Hat]]]. pose proof (same_skel_set_h g n h) as S0.
    split; [eapply same_skel_trans; eassumption|]. split; [rewrite I; apply ids_set_h|]. split.
    + intros k [Hk | Hk]; [subst k; eexists; exact C|]. destruct (Hok k Hk) as [v Hv].
      exists v. rewrite (proj1 (same_skel_calc _ _ k S0)). exact Hv.
    + intros k. rewrite Hat, atom_of_set_h. destruct (atom_of g k) as [a|]; [|reflexivity]. f_equal.
      rewrite <- (proj1 (same_skel_calc _ _ k S0)). cbn [zmem existsb].
      fold (zmem k r). destruct (zmem k r) eqn:Zr.
      * rewrite orb_true_r. destruct (k =? n); reflexivity.
      * rewrite orb_false_r. destruct (k =? n) eqn:E; [|reflexivity]. apply Z.eqb_eq in E. subst k. rewrite C. reflexivity.
Qed.

Lemma zget_In {V} (d : list (Z * V)) k v : zget d k = Some v -> In (k, v) d.
Proof.
  induction d as [|[k0 v0] r IH]; cbn [zget]; [discriminate|].
  destruct (k =? k0) eqn:E.
  - intros H. inversion H. apply Z.eqb_eq in E. subst. left. reflexivity.
  - intros H. right. exact (IH H).
Qed.
Lemma In_zget_nodup {V} (d : list (Z * V)) k v : NoDup (keys d) -> In (k, v) d -> zget d k = Some v.
Proof.
  induction d as [|[k0 v0] r IH]; cbn [keys map fst zget In]; [intros _ []|].
  intros ND [H | H].
  - inversion H. subst. rewrite Z.eqb_refl. reflexivity.
  - inversion ND as [|? ? Hnot ND']. subst. destruct (k =? k0) eqn:E.
    + apply Z.eqb_eq in E. subst k0. exfalso. apply Hnot. change (In (fst (k, v)) (map fst r)). apply in_map. exact H.
    + apply IH; assumption.
Qed.

(* check_valence reports exactly the atoms whose stored hydrogen count is None *)
Theorem check_valence_spec g n :
  In n (check_valence g) <-> exists a, In (n, a) (m_atoms g) /\ a_h a = None.
Proof.
  unfold check_valence. rewrite in_map_iff. split.
  - intros [[k a] [E H]]. cbn [fst] in E. subst k. apply filter_In in H. destruct H as [Hin Hh]. cbn [snd] in Hh.
    exists a. split; [exact Hin|]. destruct (a_h a); [discriminate | reflexivity].
  - intros [a [Hin Hh]]. exists (n, a). split; [reflexivity|]. apply filter_In. split; [exact Hin|]. cbn [snd]. rewrite Hh. reflexivity.
Qed.

(* after fix_structure the reported atoms are exactly those for which calc_implicit finds no valence state;
   the list is in atom order *)
Theorem check_valence_exact g g' : NoDup (ids g) -> fix_hydrogens g = Ok g' ->
  forall n, In n (check_valence g') <-> In n (ids g) /\ calc_implicit g n = Ok None.
Proof.
  unfold fix_hydrogens. intros ND H n. destruct (recalc_loop_spec _ _ _ H) as [S [I [Hok Hat]]].
  assert (ND' : NoDup (keys (m_atoms g'))) by (change (NoDup (ids g')); rewrite I; exact ND).
  rewrite check_valence_spec. split.
  - intros [a' [Hin Hh]]. pose proof (In_zget_nodup _ _ _ ND' Hin) as Z'. change (atom_of g' n = Some a') in Z'.
    assert (Hn : In n (ids g)). { rewrite <- I. unfold ids, keys. change n with (fst (n, a')). apply in_map. exact Hin. }
    split; [exact Hn|]. rewrite Hat in Z'. destruct (atom_of g n) as [a|]; [|discriminate].
    rewrite (proj2 (zmem_In n (ids g)) Hn) in Z'. inversion Z' as [Z'']. subst a'. cbn [with_h a_h] in Hh.
    destruct (Hok n Hn) as [v Hv]. rewrite Hv in Hh |- *. cbn [result_of] in Hh. subst v. reflexivity.
  - intros [Hn C]. specialize (Hat n). rewrite (proj2 (zmem_In n (ids g)) Hn), C in Hat. cbn [result_of] in Hat.
    unfold ids, keys in Hn. apply in_map_iff in Hn. destruct Hn as [[k a] [E Hin]]. cbn [fst] in E. subst k.
    pose proof (In_zget_nodup _ _ _ ND Hin) as Z0. change (atom_of g n = Some a) in Z0. rewrite Z0 in Hat.
    exists (with_h a None). split; [apply zget_In; exact Hat | reflexivity].
Qed.

Lemma no_aromatic_env e : no_aromatic (nview_of_env e) = negb (has4 e).
Proof.
  unfold no_aromatic, has4, nview_of_env, is4. induction e as [|[o z] r IH]; cbn [map forallb existsb fst snd]; [reflexivity|].
  rewrite IH. destruct (o =? 4); reflexivity.
Qed.

(* ... i.e. (localised bonds) exactly the atoms for which NO hydrogen count is a valence state of the element *)
Theorem check_valence_no_state g g' : NoDup (ids g) -> fix_hydrogens g = Ok g' ->
  forall n a e, atom_of g n = Some a -> env_of g n = Some e -> has4 e = false ->
  (In n (check_valence g') <-> a_num a <> 1 /\ forall h, check_implicit g n h = Ok false).
Proof.
  intros ND H n a e Ha He H4. rewrite (check_valence_exact g g' ND H n).
  destruct (calc_implicit_env _ _ _ _ Ha He) as [A1 A2].
  assert (Hn : In n (ids g)). { unfold ids, keys. change n with (fst (n, a)). apply in_map. apply zget_In. exact Ha. }
  assert (Hna : no_aromatic (nview_of_env e) = true) by (rewrite no_aromatic_env, H4; reflexivity).
  destruct (Z.eq_dec (a_num a) 1) as [E1 | E1].
  - split.
    + intros [_ C]. rewrite A1 in C. unfold calc_env, calc_atom in C. rewrite E1 in C. discriminate.
    + intros [N _]. contradiction.
  - pose proof (calc_none_iff (lookup_rules (rules_of_atom a) (a_chg a) (a_rad a)) (a_num a) (a_chg a) (a_rad a) _ Hna E1) as Iff.
    unfold calc_env in A1. unfold check_env in A2. split.
    + intros [_ C]. split; [exact E1|]. intros h. rewrite A2. apply Iff. rewrite <- A1. exact C.
    + intros [_ C]. split; [exact Hn|]. rewrite A1. apply Iff. intros h. rewrite <- A2. apply C.
Qed.

(* non-vacuity: nitromethane drawn with a pentavalent nitrogen; the nitrogen (atom 2) is the one reported *)
Definition nitromethane_5 : mol :=
  mkMol [(1, mkAtom 6 None 0 false None None); (2, mkAtom 7 None 0 false None None);
         (3, mkAtom 8 None 0 false None None); (4, mkAtom 8 None 0 false None None)]
        [(1, [(2, mkBond 1 None)]); (2, [(1, mkBond 1 None); (3, mkBond 2 None); (4, mkBond 2 None)]);
         (3, [(2, mkBond 2 None)]); (4, [(2, mkBond 2 None)])].
Example check_valence_example :
  exists g', fix_hydrogens nitromethane_5 = Ok g' /\ check_valence g' = [2] /\
             option_map a_h (atom_of g' 1) = Some (Some 3) /\ wf_mol nitromethane_5 = true.
Proof. eexists. vm_compute. repeat split; reflexivity. Qed.

(* ================================================================================================
   4. totals are sums over atoms
   ================================================================================================ *)
(* disjoint union of two molecules (MoleculeContainer.union: the dictionaries are concatenated) *)
Definition mol_union (g1 g2 : mol) : mol := mkMol (m_atoms g1 ++ m_atoms g2) (m_adj g1 ++ m_adj g2).
Definition zsum (l : list Z) : Z := fold_right Z.add 0 l.

Lemma fold_left_add l : forall a, fold_left Z.add l a = a + zsum l.
Proof. induction l as [|x l IH]; intros a; cbn [fold_left zsum fold_right]; [lia | rewrite IH; unfold zsum; lia]. Qed.
Lemma zsum_app l1 l2 : zsum (l1 ++ l2) = zsum l1 + zsum l2.
Proof.
  induction l1 as [|x l IH]; [reflexivity|].
  change (zsum ((x :: l) ++ l2)) with (x + zsum (l ++ l2)). change (zsum (x :: l)) with (x + zsum l). lia.
Qed.
Lemma zsum_perm l l' : Permutation l l' -> zsum l = zsum l'.
Proof.
  induction 1.
  - reflexivity.
  - change (zsum (x :: l)) with (x + zsum l). change (zsum (x :: l')) with (x + zsum l'). lia.
  - change (zsum (y :: x :: l)) with (y + (x + zsum l)). change (zsum (x :: y :: l)) with (x + (y + zsum l)). lia.
  - congruence.
Qed.

Theorem charge_is_sum g : molecular_charge g = zsum (map (fun na => a_chg (snd na)) (m_atoms g)).
Proof. unfold molecular_charge. rewrite fold_left_add. lia. Qed.
Theorem charge_union g1 g2 : molecular_charge (mol_union g1 g2) = molecular_charge g1 + molecular_charge g2.
Proof. rewrite !charge_is_sum. unfold mol_union. cbn [m_atoms]. rewrite map_app, zsum_app. reflexivity. Qed.
Theorem charge_perm g g' : Permutation (m_atoms g) (m_atoms g') -> molecular_charge g = molecular_charge g'.
Proof. intros P. rewrite !charge_is_sum. apply zsum_perm. apply Permutation_map. exact P. Qed.

Theorem radical_union g1 g2 : is_radical (mol_union g1 g2) = is_radical g1 || is_radical g2.
Proof. unfold is_radical, mol_union. cbn [m_atoms]. apply existsb_app. Qed.
Theorem radical_perm g g' : Permutation (m_atoms g) (m_atoms g') -> is_radical g = is_radical g'.
Proof. intros P. unfold is_radical. apply existsb_perm. exact P. Qed.
Theorem radical_iff g : is_radical g = true <-> exists n a, In (n, a) (m_atoms g) /\ a_rad a = true.
Proof.
  unfold is_radical. rewrite existsb_exists. split.
  - intros [[n a] [Hin H]]. exists n, a. auto.
  - intros [n [a [Hin H]]]. exists (n, a). auto.
Qed.

(* generic left-to-right summation loop that stops at the first exception *)
Fixpoint psum {A} (f : A -> pyres Z) (l : list A) (acc : Z) : pyres Z :=
  match l with
  | [] => Ok acc
  | x :: r => match f x with Err e => Err e | Ok v => psum f r (acc + v) end
  end.

Lemma psum_acc {A} (f : A -> pyres Z) l : forall acc v, psum f l acc = Ok v -> forall acc', psum f l acc' = Ok (v - acc + acc').
Proof.
  induction l as [|x l IH]; intros acc v; cbn [psum].
  - intros H acc'. inversion H. f_equal. lia.
  - destruct (f x) as [w|e]; [|discriminate]. intros H acc'. rewrite (IH _ _ H (acc' + w)). f_equal. lia.
Qed.
Lemma psum_app {A} (f : A -> pyres Z) l1 l2 : forall acc,
  psum f (l1 ++ l2) acc = match psum f l1 acc with Ok v => psum f l2 v | Err e => Err e end.
Proof.
  induction l1 as [|x l IH]; intros acc; cbn [app psum]; [reflexivity|]. destruct (f x); [apply IH | reflexivity].
Qed.
Lemma psum_union {A} (f : A -> pyres Z) l1 l2 v1 v2 :
  psum f l1 0 = Ok v1 -> psum f l2 0 = Ok v2 -> psum f (l1 ++ l2) 0 = Ok (v1 + v2).
Proof. intros H1 H2. rewrite psum_app, H1, (psum_acc f l2 0 v2 H2 v1). f_equal. lia. Qed.
Lemma psum_perm {A} (f : A -> pyres Z) l l' : Permutation l l' -> forall acc v, psum f l acc = Ok v -> psum f l' acc = Ok v.
Proof.
  induction 1; intros acc v; cbn [psum].
  - auto.
  - destruct (f x); [apply IHPermutation | discriminate].
  - destruct (f y) as [vy|]; [|discriminate]. destruct (f x) as [vx|]; [|discriminate].
    replace (acc + vx + vy) with (acc + vy + vx) by lia. auto.
  - auto.
Qed.
Lemma psum_value {A} (f : A -> pyres Z) l : forall acc v, psum f l acc = Ok v ->
  v = acc + zsum (map (fun x => match f x with Ok w => w | Err _ => 0 end) l) /\ forall x, In x l -> exists w, f x = Ok w.
Proof.
  induction l as [|x l IH]; intros acc v; cbn [psum map zsum fold_right].
  - intros H. inversion H. split; [lia | intros x []].
  - destruct (f x) as [w|e] eqn:F; [|discriminate]. intros H. destruct (IH _ _ H) as [E Hall]. split.
    + unfold zsum in E. lia.
    + intros y [Hy | Hy]; [subst y; eexists; exact F | apply Hall; exact Hy].
Qed.

Definition h_term (na : Z * atom) : pyres Z := match a_h (snd na) with None => Err TypeError | Some h => Ok h end.
Definition mass_term (hm : Z) (na : Z * atom) : pyres Z :=
  match atomic_mass_e24 (a_num (snd na)) (a_iso (snd na)) with
  | Err e => Err e
  | Ok m => match a_h (snd na) with None => Err TypeError | Some h => Ok (m + h * hm) end
  end.

Lemma sum_h_psum l : forall acc, sum_h l acc = psum h_term l acc.
Proof.
  induction l as [|[n a] l IH]; intros acc; cbn [sum_h psum]; [reflexivity|]. unfold h_term at 1. cbn [snd].
  destruct (a_h a); [apply IH | reflexivity].
Qed.
Lemma mass_loop_psum hm l : forall acc, mass_loop hm l acc = psum (mass_term hm) l acc.
Proof.
  induction l as [|[n a] l IH]; intros acc; cbn [mass_loop psum]; [reflexivity|]. unfold mass_term at 1. cbn [snd].
  destruct (atomic_mass_e24 (a_num a) (a_iso a)); [|reflexivity]. destruct (a_h a); [apply IH | reflexivity].
Qed.

(* mass: every atom contributes its own mass plus its implicit hydrogens times the hydrogen mass *)
Theorem mass_is_sum g m : molecular_mass_e24 g = Ok m ->
  exists hm, atomic_mass_e24 1 None = Ok hm /\
  m = zsum (map (fun na => match mass_term hm na with Ok w => w | Err _ => 0 end) (m_atoms g)) /\
  forall na, In na (m_atoms g) -> exists am h, atomic_mass_e24 (a_num (snd na)) (a_iso (snd na)) = Ok am /\ a_h (snd na) = Some h /\
                                             mass_term hm na = Ok (am + h * hm).
Proof.
  unfold molecular_mass_e24. destruct (atomic_mass_e24 1 None) as [hm|]; [|discriminate]. rewrite mass_loop_psum. intros H.
  destruct (psum_value _ _ _ _ H) as [E Hall]. exists hm. split; [reflexivity|]. split; [lia|].
  intros na Hin. destruct (Hall na Hin) as [w Hw]. unfold mass_term in Hw |- *.
  destruct (atomic_mass_e24 (a_num (snd na)) (a_iso (snd na))) as [am|]; [|discriminate].
  destruct (a_h (snd na)) as [h|]; [|discriminate]. exists am, h. auto.
Qed.
Theorem mass_union g1 g2 m1 m2 : molecular_mass_e24 g1 = Ok m1 -> molecular_mass_e24 g2 = Ok m2 ->
  molecular_mass_e24 (mol_union g1 g2) = Ok (m1 + m2).
Proof.
  unfold molecular_mass_e24, mol_union. cbn [m_atoms]. destruct (atomic_mass_e24 1 None) as [hm|]; [|discriminate].
  rewrite !mass_loop_psum. apply psum_union.
Qed.
Theorem mass_perm g g' m : Permutation (m_atoms g) (m_atoms g') -> molecular_mass_e24 g = Ok m -> molecular_mass_e24 g' = Ok m.
Proof.
  unfold molecular_mass_e24. intros P. destruct (atomic_mass_e24 1 None) as [hm|]; [|discriminate].
  rewrite !mass_loop_psum. apply psum_perm. exact P.
Qed.

(* formula *)
Definition sval (c : list (string * Z)) (s : string) : Z := match sget c s with Some v => v | None => 0 end.
Definition sym_is (s : string) (na : Z * atom) : bool :=
  match symbol_of (a_num (snd na)) with Some s' => String.eqb s s' | None => false end.
Definition sym_known (na : Z * atom) : bool := match symbol_of (a_num (snd na)) with Some _ => true | None => false end.
Definition nsym (l : list (Z * atom)) (s : string) : Z := Z.of_nat (List.length (filter (sym_is s) l)).
Definition hsum (l : list (Z * atom)) : Z := zsum (map (fun na => match a_h (snd na) with Some h => h | None => 0 end) l).
(* number of atoms of symbol s in the formula: explicit atoms plus, for "H", all implicit hydrogens *)
Definition formula_count (l : list (Z * atom)) (s : string) : Z := nsym l s + (if String.eqb s "H" then hsum l else 0).

Lemma sget_sincr c k v s : sget (sincr c k v) s = if String.eqb s k then Some (sval c k + v) else sget c s.
Proof.
  unfold sval. induction c as [|[k0 w] r IH]; cbn [sincr sget].
  - destruct (String.eqb s k); [f_equal|]; reflexivity.
  - destruct (String.eqb k k0) eqn:E; cbn [sget].
    + apply String.eqb_eq in E. subst k0. destruct (String.eqb s k); reflexivity.
    + destruct (String.eqb s k0) eqn:E'.
      * apply String.eqb_eq in E'. subst k0. rewrite String.eqb_sym, E. reflexivity.
      * exact IH.
Qed.
Lemma sval_sincr c k v s : sval (sincr c k v) s = sval c s + (if String.eqb s k then v else 0).
Proof.
  unfold sval at 1. rewrite sget_sincr. destruct (String.eqb s k) eqn:E.
  - apply String.eqb_eq in E. subst. reflexivity.
  - fold (sval c s). lia.
Qed.
Lemma keys_sincr c k v : keys (sincr c k v) = if smem k (keys c) then keys c else keys c ++ [k].
Proof.
  unfold keys, smem. induction c as [|[k0 w] r IH]; cbn [sincr map fst existsb]; [reflexivity|].
  destruct (String.eqb k k0) eqn:E; cbn [map fst orb]; [reflexivity|]. rewrite IH.
  destruct (existsb (String.eqb k) (map fst r)); reflexivity.
Qed.

Lemma nsym_cons na l s : nsym (na :: l) s = (if sym_is s na then 1 else 0) + nsym l s.
Proof. unfold nsym. cbn [filter]. destruct (sym_is s na); cbn [List.length]; lia. Qed.

Lemma symbols_counter_spec l : forall c c', symbols_counter l c = Ok c' ->
  (forall s, sval c' s = sval c s + nsym l s) /\ forallb sym_known l = true.
Proof.
  induction l as [|[n a] l IH]; intros c c'; cbn [symbols_counter].
  - intros H. inversion H. split; [intros s; unfold nsym; cbn; lia | reflexivity].
  - destruct (symbol_of (a_num a)) as [s0|] eqn:S; [|discriminate]. intros H. destruct (IH _ _ H) as [E K]. split.
    + intros s. rewrite E, sval_sincr, nsym_cons. unfold sym_is. cbn [snd]. rewrite S. lia.
    + cbn [forallb]. unfold sym_known at 1. cbn [snd]. rewrite S. exact K.
Qed.
Lemma symbols_counter_ok l : forall c, forallb sym_known l = true -> exists c', symbols_counter l c = Ok c'.
Proof.
  induction l as [|[n a] l IH]; intros c; cbn [symbols_counter forallb].
  - intros _. eexists. reflexivity.
  - unfold sym_known at 1. cbn [snd]. destruct (symbol_of (a_num a)); [|discriminate]. cbn [andb]. apply IH.
Qed.

Lemma forallb_perm {A} (f : A -> bool) l l' : Permutation l l' -> forallb f l = forallb f l'.
Proof.
  induction 1; cbn [forallb].
  - reflexivity.
  - rewrite IHPermutation. reflexivity.
  - destruct (f x), (f y); reflexivity.
  - congruence.
Qed.

Lemma sum_h_value l v : sum_h l 0 = Ok v -> v = hsum l.
Proof.
  rewrite sum_h_psum. intros H. destruct (psum_value _ _ _ _ H) as [E _]. rewrite E. unfold hsum. cbn [Z.add].
  f_equal. apply map_ext. intros na. unfold h_term. destruct (a_h (snd na)); reflexivity.
Qed.

(* brutto = number of atoms per symbol, with all implicit hydrogens added under "H" (which is always a key) *)
Theorem brutto_is_count g c : brutto g = Ok c ->
  (forall s, sval c s = formula_count (m_atoms g) s) /\ (exists v, sget c "H" = Some v) /\
  forall na, In na (m_atoms g) -> exists h, a_h (snd na) = Some h.
Proof.
  unfold brutto. destruct (symbols_counter (m_atoms g) []) as [c0|] eqn:S; [|discriminate].
  destruct (sum_h (m_atoms g) 0) as [h|] eqn:H; [|discriminate]. intros E. inversion E. subst c. clear E.
  destruct (symbols_counter_spec _ _ _ S) as [Hc _]. split; [|split].
  - intros s. rewrite sval_sincr, Hc. unfold formula_count, sval at 1. cbn [sget]. rewrite (sum_h_value _ _ H). lia.
  - rewrite sget_sincr. cbn. eexists. reflexivity.
  - intros na Hin. rewrite sum_h_psum in H. destruct (psum_value _ _ _ _ H) as [_ Hall]. destruct (Hall na Hin) as [w Hw].
    unfold h_term in Hw. destruct (a_h (snd na)); [eexists; reflexivity | discriminate].
Qed.

Lemma nsym_app l1 l2 s : nsym (l1 ++ l2) s = nsym l1 s + nsym l2 s.
Proof. unfold nsym. rewrite filter_app, app_length. lia. Qed.
Lemma hsum_app l1 l2 : hsum (l1 ++ l2) = hsum l1 + hsum l2.
Proof. unfold hsum. rewrite map_app, zsum_app. reflexivity. Qed.
Theorem formula_count_app l1 l2 s : formula_count (l1 ++ l2) s = formula_count l1 s + formula_count l2 s.
Proof. unfold formula_count. rewrite nsym_app, hsum_app. destruct (String.eqb s "H"); lia. Qed.
Theorem formula_count_perm l l' s : Permutation l l' -> formula_count l s = formula_count l' s.
Proof.
  intros P. unfold formula_count, nsym, hsum. rewrite (Permutation_length (Permutation_filter' (sym_is s) _ _ P)).
  rewrite (zsum_perm _ _ (Permutation_map _ P)). reflexivity.
Qed.

Lemma brutto_ok_iff g : (exists c, brutto g = Ok c) <->
  forallb sym_known (m_atoms g) = true /\ forallb (fun na => match a_h (snd na) with Some _ => true | None => false end) (m_atoms g) = true.
Proof.
  unfold brutto. split.
  - intros [c H]. destruct (symbols_counter (m_atoms g) []) as [c0|] eqn:S; [|discriminate].
    destruct (sum_h (m_atoms g) 0) as [h|] eqn:Hh; [|discriminate]. split; [exact (proj2 (symbols_counter_spec _ _ _ S))|].
    rewrite sum_h_psum in Hh. destruct (psum_value _ _ _ _ Hh) as [_ Hall]. apply forallb_forall. intros na Hin.
    destruct (Hall na Hin) as [w Hw]. unfold h_term in Hw. destruct (a_h (snd na)); [reflexivity | discriminate].
  - intros [K Hh]. destruct (symbols_counter_ok _ [] K) as [c0 S]. rewrite S.
    assert (Hs : forall l acc, forallb (fun na : Z * atom => match a_h (snd na) with Some _ => true | None => false end) l = true ->
                               exists v, sum_h l acc = Ok v).
    { induction l as [|[n a] l IH]; intros acc; cbn [forallb sum_h snd]; [intros _; eexists; reflexivity|].
      destruct (a_h a); [cbn [andb]; apply IH | discriminate]. }
    destruct (Hs _ 0 Hh) as [v Hv]. rewrite Hv. eexists. reflexivity.
Qed.

Theorem brutto_union g1 g2 c1 c2 : brutto g1 = Ok c1 -> brutto g2 = Ok c2 ->
  exists c, brutto (mol_union g1 g2) = Ok c /\ forall s, sval c s = sval c1 s + sval c2 s.
Proof.
  intros H1 H2.
  destruct (proj1 (brutto_ok_iff g1) (ex_intro _ c1 H1)) as [K1 A1], (proj1 (brutto_ok_iff g2) (ex_intro _ c2 H2)) as [K2 A2].
  destruct (proj2 (brutto_ok_iff (mol_union g1 g2))) as [c Hc].
  { unfold mol_union. cbn [m_atoms]. rewrite !forallb_app, K1, K2, A1, A2. split; reflexivity. }
  exists c. split; [exact Hc|]. intros s.
  rewrite (proj1 (brutto_is_count _ _ Hc) s), (proj1 (brutto_is_count _ _ H1) s), (proj1 (brutto_is_count _ _ H2) s).
  unfold mol_union. cbn [m_atoms]. apply formula_count_app.
Qed.

Theorem brutto_perm g g' c : Permutation (m_atoms g) (m_atoms g') -> brutto g = Ok c ->
  exists c', brutto g' = Ok c' /\ forall s, sval c' s = sval c s.
Proof.
  intros P H. destruct (proj1 (brutto_ok_iff g) (ex_intro _ c H)) as [K A].
  destruct (proj2 (brutto_ok_iff g')) as [c' Hc'].
  { rewrite <- (forallb_perm _ _ _ P), <- (forallb_perm _ _ _ P), K, A. split; reflexivity. }
  exists c'. split; [exact Hc'|]. intros s.
  rewrite (proj1 (brutto_is_count _ _ Hc') s), (proj1 (brutto_is_count _ _ H) s). symmetry. apply formula_count_perm. exact P.
Qed.

(* non-vacuity: [Na+] . CH3-OH ; the hydrogens of the formula are the implicit ones, "H" is a key even when zero *)
Definition methanol : mol :=
  mkMol [(1, mkAtom 6 None 0 false (Some 3) None); (2, mkAtom 8 None 0 false (Some 1) None)]
        [(1, [(2, mkBond 1 None)]); (2, [(1, mkBond 1 None)])].
Definition sodium : mol := mkMol [(3, mkAtom 11 None 1 false (Some 0) None)] [(3, [])].
Example totals_example :
  brutto methanol = Ok [("C"%string, 1); ("O"%string, 1); ("H"%string, 4)] /\
  brutto sodium = Ok [("Na"%string, 1); ("H"%string, 0)] /\
  brutto (mol_union sodium methanol) = Ok [("Na"%string, 1); ("C"%string, 1); ("O"%string, 1); ("H"%string, 4)] /\
  molecular_charge (mol_union sodium methanol) = 1 /\
  molecular_mass_e24 methanol = Ok 32041904090630000000000000 /\
  molecular_mass_e24 (mol_union sodium methanol) = Ok 55031674090630000000000000.
Proof. vm_compute. repeat split; reflexivity. Qed.

(* ================================================================================================
   5. finite sweeps over the generated tables
   ================================================================================================ *)
Open Scope string_scope.
Open Scope Z_scope.
Open Scope list_scope.

(* 5a. every table compiles (all environment symbols are element symbols, no empty _common_valences) and the decimals
       of the isotope tables fit the 12-digit scaling used for exact masses *)
Definition compiles (e : elem) : bool := match compiled_rules e with Ok _ => true | Err _ => false end.
Lemma tables_compile_b : forallb compiles elements = true.
Proof. vm_compute. reflexivity. Qed.
Theorem tables_compile e : In e elements -> exists t, compiled_rules e = Ok t.
Proof.
  intros H. pose proof (proj1 (forallb_forall _ _) tables_compile_b e H) as C. unfold compiles in C.
  destruct (compiled_rules e) as [t|]; [exists t; reflexivity | discriminate].
Qed.

Definition decimals_fit_b : bool :=
  forallb (fun e => forallb (fun kv => Nat.leb (snd (snd kv)) 12) (e_dist e) && forallb (fun kv => Nat.leb (snd (snd kv)) 12) (e_mass e)) elements.
Lemma decimals_fit : decimals_fit_b = true.
Proof. vm_compute. reflexivity. Qed.

(* 5b. electron bookkeeping of every main-group rule *)
Definition main_group (e : elem) : bool := (e_group e <=? 2) || (13 <=? e_group e).
Definition valence_electrons (e : elem) : Z :=
  if e_num e =? 2 then 2 else if e_group e <=? 2 then e_group e else e_group e - 10.
(* one compiled rule: charge, radical, sum of explicit orders, implicit hydrogens, required neighbours *)
Definition flat_rule := (Z * bool * Z * Z * edict)%type.
Definition flat_rules (e : elem) : list flat_rule :=
  match compiled_rules e with
  | Ok t => flat_map (fun kr => let '(c, r, v) := fst kr in map (fun ru => (c, r, v, r_h ru, r_dict ru)) (snd kr)) t
  | Err _ => []
  end.
(* electrons left on the atom after charge, all bonds (explicit + implicit H) and the radical electron *)
Definition lone_electrons (e : elem) (x : flat_rule) : Z :=
  let '(c, r, v, h, _) := x in valence_electrons e - c - (v + h) - (if r then 1 else 0).
(* the deliberate exceptions: the elemental (zero-valent, uncharged, non-radical) state of an odd-electron element,
   and the Bi(II) / Bi(IV) environment rules *)
Definition parity_exception (e : elem) (x : flat_rule) : bool :=
  let '(c, r, v, h, d) := x in
  (c =? 0) && negb r && (h =? 0) &&
  (((v =? 0) && match d with [] => true | _ => false end && Z.odd (valence_electrons e)) ||
   (String.eqb (e_sym e) "Bi" && ((v =? 2) || (v =? 4)))).
Definition parity_ok (e : elem) (x : flat_rule) : bool :=
  (0 <=? lone_electrons e x) && Bool.eqb (Z.even (lone_electrons e x)) (negb (parity_exception e x)).

Lemma rule_electron_parity_b : forallb (fun e => implb (main_group e) (forallb (parity_ok e) (flat_rules e))) elements = true.
Proof. vm_compute. reflexivity. Qed.

Definition main_rules : list (string * flat_rule) :=
  flat_map (fun e => if main_group e then map (fun x => (e_sym e, x)) (flat_rules e) else []) elements.
Definition odd_rules : list (string * Z) :=
  flat_map (fun e => if main_group e then map (fun x => (e_sym e, snd (fst (fst x))))
                                              (filter (fun x => Z.odd (lone_electrons e x)) (flat_rules e)) else []) elements.

Theorem rule_electron_parity :
  (forall e x, In e elements -> main_group e = true -> In x (flat_rules e) ->
     0 <= lone_electrons e x /\ Z.even (lone_electrons e x) = negb (parity_exception e x)) /\
  Z.of_nat (List.length main_rules) = 536 /\
  (* (symbol, explicit valence) of the 28 rules that leave an odd number of electrons *)
  odd_rules = [("Li", 0); ("Na", 0); ("K", 0); ("Rb", 0); ("Cs", 0); ("Fr", 0);
               ("B", 0); ("Al", 0); ("Ga", 0); ("In", 0); ("Tl", 0); ("Nh", 0);
               ("P", 0); ("As", 0); ("Sb", 0);
               ("Bi", 0); ("Bi", 2); ("Bi", 2); ("Bi", 2); ("Bi", 2); ("Bi", 2); ("Bi", 2); ("Bi", 2); ("Bi", 4); ("Bi", 4);
               ("Mc", 0); ("At", 0); ("Ts", 0)].
Proof.
  split; [|split; vm_compute; reflexivity].
  intros e x He Hm Hx. pose proof (proj1 (forallb_forall _ _) rule_electron_parity_b e He) as H. cbv beta in H. rewrite Hm in H. cbn [implb] in H.
  pose proof (proj1 (forallb_forall _ _) H x Hx) as P. unfold parity_ok in P. apply andb_prop in P. destruct P as [P1 P2].
  split; [apply Z.leb_le; exact P1 | apply eqb_prop; exact P2].
Qed.

(* 5c. agreement with an octet rule written independently of the tables *)
Definition organic : list elem := [el_B; el_C; el_N; el_O; el_F; el_Si; el_P; el_S; el_Cl; el_Br; el_I; el_Se].
Definition nbr_numbers : list Z := [6; 7; 8; 16; 9; 17].
Definition bond_types : list (Z * Z) := flat_map (fun o => map (fun z => (o, z)) nbr_numbers) [1; 2; 3].
Definition charges : list Z := [-2; -1; 0; 1; 2].

(* valence electrons of the organic elements, by atomic number *)
Definition octet_electrons (num : Z) : option Z :=
  if num =? 5 then Some 3
  else if (num =? 6) || (num =? 14) then Some 4
  else if (num =? 7) || (num =? 15) then Some 5
  else if (num =? 8) || (num =? 16) || (num =? 34) then Some 6
  else if (num =? 9) || (num =? 17) || (num =? 35) || (num =? 53) then Some 7
  else None.
(* an atom with n = electrons - charge valence electrons forms n bonds when n <= 4 and 8 - n otherwise; a radical centre
   forms one bond less; the bonds not used by explicit neighbours are hydrogens; no value when over-bonded *)
Definition octet_h (num chg : Z) (rad : bool) (e : env) : option Z :=
  match octet_electrons num with
  | None => None
  | Some ve =>
      let n := ve - chg in
      let bonds := if n <=? 4 then n else 8 - n in
      let h := bonds - (if rad then 1 else 0) - esum e in
      if 0 <=? h then Some h else None
  end.

Definition state_in (l : list (string * list (Z * bool))) (sym : string) (chg : Z) (rad : bool) : bool :=
  existsb (fun sl => String.eqb sym (fst sl) && existsb (fun cr => (chg =? fst cr) && Bool.eqb rad (snd cr)) (snd sl)) l.
(* the (element, charge, radical) states in which chython finds a hydrogen count for EVERY environment of the space to
   which the octet rule assigns one *)
Definition octet_supported : string -> Z -> bool -> bool := state_in
  [("B", [(-1, false); (0, false); (0, true)]);
   ("C", [(-1, false); (0, false); (0, true); (1, false)]);
   ("N", [(-1, false); (0, false); (0, true); (1, false)]);
   ("O", [(-2, false); (-1, false); (0, false); (0, true); (1, false)]);
   ("F", [(-1, false); (0, false)]);
   ("Si", [(0, false)]);
   ("P", [(-1, false); (0, false); (0, true); (1, false)]);
   ("S", [(-2, false); (-1, false); (0, false); (0, true)]);
   ("Cl", [(-1, false); (0, false)]); ("Br", [(-1, false); (0, false)]); ("I", [(-1, false); (0, false)]);
   ("Se", [(-2, false); (-1, false); (0, false)])].
(* the states in which chython tabulates valences beyond the octet *)
Definition hypervalent_state : string -> Z -> bool -> bool := state_in
  [("P", [(0, false); (0, true)]); ("S", [(0, false); (0, true); (1, false)]); ("Se", [(0, false)]);
   ("Cl", [(0, false)]); ("Br", [(-1, false); (0, false)]); ("I", [(-1, false); (0, false)])].

Definition octet_verdict (sym : string) (chg : Z) (rad : bool) (o : option Z) (c : pyres (option Z)) : bool :=
  match o, c with
  | Some a, Ok (Some b) => a =? b
  | Some _, Ok None => negb (octet_supported sym chg rad)
  | None, Ok (Some _) => hypervalent_state sym chg rad
  | None, Ok None => true
  | _, Err _ => false
  end.

(* multisets of size k over a list of types, as lists in the order of the types *)
Fixpoint multisets (types : list (Z * Z)) (k : nat) : list env :=
  match types with
  | [] => match k with O => [[]] | S _ => [] end
  | t :: r => (fix with_t (k : nat) : list env :=
                 match k with
                 | O => [[]]
                 | S k' => map (cons t) (with_t k') ++ multisets r (S k')
                 end) k
  end.
Lemma multisets_cons t r k :
  multisets (t :: r) k = match k with O => [[]] | S k' => map (cons t) (multisets (t :: r) k') ++ multisets r (S k') end.
Proof. destruct k; reflexivity. Qed.

Definition ekey_dec (a b : Z * Z) : {a = b} + {a <> b}.
Proof. decide equality; apply Z.eq_dec. Defined.

Lemma multisets_complete types : forall k l, List.length l = k -> (forall x, In x l -> In x types) ->
  exists l', In l' (multisets types k) /\ Permutation l l'.
Proof.
  induction types as [|t r IHt].
  - intros k l Hk Hin. destruct l as [|x l]; [subst k; exists []; split; [left; reflexivity | constructor]|].
    exfalso. apply (Hin x). left. reflexivity.
  - induction k as [|k IHk]; intros l Hk Hin.
    + destruct l; [|discriminate]. exists []. split; [left; reflexivity | constructor].
    + rewrite multisets_cons. destruct (in_dec ekey_dec t l) as [Ht | Ht].
      * destruct (in_split _ _ Ht) as [l1 [l2 E]]. subst l.
        assert (P : Permutation (l1 ++ t :: l2) (t :: l1 ++ l2)) by (apply Permutation_sym; apply Permutation_middle).
        destruct (IHk (l1 ++ l2)) as [l' [Hl' P']].
        { rewrite app_length in *. cbn [List.length] in Hk. lia. }
        { intros x Hx. apply Hin. apply in_app_or in Hx. apply in_or_app. destruct Hx; [left | right; right]; assumption. }
        exists (t :: l'). split; [apply in_or_app; left; apply in_map; exact Hl'|].
        eapply Permutation_trans; [exact P | apply perm_skip; exact P'].
      * destruct (IHt (S k) l Hk) as [l' [Hl' P']].
        { intros x Hx. destruct (Hin x Hx) as [E | E]; [subst x; contradiction | exact E]. }
        exists l'. split; [apply in_or_app; right; exact Hl' | exact P'].
Qed.

Definition all_envs : list env := flat_map (multisets bond_types) [0; 1; 2; 3; 4]%nat.

Definition octet_sweep (e : elem) : bool :=
  let t := compiled_rules e in
  forallb (fun chg => forallb (fun rad => forallb (fun env =>
     octet_verdict (e_sym e) chg rad (octet_h (e_num e) chg rad env) (calc_env t (e_num e) chg rad env)) all_envs) [false; true]) charges.

Lemma organic_octet_b : forallb octet_sweep organic = true.
Proof. vm_compute. reflexivity. Qed.

Lemma octet_h_perm num chg rad e e' : Permutation e e' -> octet_h num chg rad e = octet_h num chg rad e'.
Proof. intros P. unfold octet_h. rewrite (esum_perm _ _ P). reflexivity. Qed.

(* for ANY neighbour list (any order) of at most four bonds of orders 1-3 to C, N, O, S, F, Cl around an atom of the organic
   subset with charge -2..2, radical or not:
     - chython and the octet rule never give two different hydrogen counts;
     - chython has no state where the octet rule has one only outside the listed supported states;
     - chython has a state where the octet rule is exceeded only in the listed hypervalent states *)
Theorem organic_octet e chg rad env :
  In e organic -> -2 <= chg <= 2 -> (List.length env <= 4)%nat -> (forall x, In x env -> In x bond_types) ->
  exists r, calc_env (compiled_rules e) (e_num e) chg rad env = Ok r /\
    match octet_h (e_num e) chg rad env, r with
    | Some a, Some b => a = b
    | Some _, None => octet_supported (e_sym e) chg rad = false
    | None, Some _ => hypervalent_state (e_sym e) chg rad = true
    | None, None => True
    end.
Proof.
  intros He Hc Hl Hin.
  destruct (multisets_complete bond_types (List.length env) env eq_refl Hin) as [env' [Hm P]].
  assert (Hall : In env' all_envs).
  { unfold all_envs. apply in_flat_map. exists (List.length env). split; [|exact Hm].
    destruct (List.length env) as [|[|[|[|[|n]]]]]; cbn; try tauto. lia. }
  assert (Hch : In chg charges) by (unfold charges; cbn; lia).
  assert (Hr : In rad [false; true]) by (destruct rad; cbn; tauto).
  pose proof (proj1 (forallb_forall _ _) organic_octet_b e He) as S. unfold octet_sweep in S. cbv zeta in S.
  pose proof (proj1 (forallb_forall _ _) S chg Hch) as S1. cbv beta in S1.
  pose proof (proj1 (forallb_forall _ _) S1 rad Hr) as S2. cbv beta in S2.
  pose proof (proj1 (forallb_forall _ _) S2 env' Hall) as V. cbv beta in V.
  rewrite <- (octet_h_perm _ _ _ _ _ P), <- (proj1 (calc_env_perm (compiled_rules e) (e_num e) chg rad _ _ P)) in V.
  unfold octet_verdict in V.
  destruct (calc_env (compiled_rules e) (e_num e) chg rad env) as [r|x].
  - exists r. split; [reflexivity|]. destruct (octet_h (e_num e) chg rad env) as [a|], r as [b|]; auto.
    + apply Z.eqb_eq. exact V.
    + apply negb_true_iff. exact V.
  - destruct (octet_h (e_num e) chg rad env); discriminate.
Qed.

(* measured size of the four classes over the whole space (12 elements x 5 charges x 2 x 7315 multisets = 877800 cases),
   so that the two lists in the statement are seen not to be vacuous *)
Definition octet_class (o : option Z) (c : pyres (option Z)) : Z :=
  match o, c with
  | Some _, Ok (Some _) => 0 | Some _, Ok None => 1 | None, Ok (Some _) => 2 | None, Ok None => 3 | _, Err _ => 4
  end.
Definition octet_classes : list Z :=
  flat_map (fun e => let t := compiled_rules e in
    flat_map (fun chg => flat_map (fun rad => map (fun env =>
      octet_class (octet_h (e_num e) chg rad env) (calc_env t (e_num e) chg rad env)) all_envs) [false; true]) charges) organic.
Definition count_class (k : Z) (l : list Z) : Z := fold_left (fun acc x => if x =? k then acc + 1 else acc) l 0.
Lemma organic_octet_counts :
  Z.of_nat (List.length all_envs) = 7315 /\
  map (fun k => count_class k octet_classes) [0; 1; 2; 3; 4] = [3480; 4587; 1321; 868412; 0].
Proof. vm_compute. split; reflexivity. Qed.

(* every element of the organic subset is in the table and the octet rule knows it *)
Lemma organic_in_table : forallb (fun e => existsb (fun e' => String.eqb (e_sym e) (e_sym e') && (e_num e =? e_num e')) elements &&
                                          match octet_electrons (e_num e) with Some v => v =? valence_electrons e | None => false end) organic = true.
Proof. vm_compute. reflexivity. Qed.
