(* C09 -- the candidate block of the REFERENCE matcher (_get_mapping of chython/algorithms/isomorphism.py: scope / not matched / bond
   test, atom test, closure set of the candidate, its comparison with the closure partners of the query atom, the bond test of every
   closure, the push), regenerated statement by statement by tools/gen_isorefcand.py on every run (Gen.IsoRefCand.g_ref_cand_body), IS
   ref_cand of the hand-written model: one push exactly when ref_cand holds, none otherwise, for all inputs. *)
From Coq Require Import ZArith List Bool.
From Model Require Import PyBase IsoBits.
From Gen Require Import IsoRefCand.
Import ListNotations.
Open Scope Z_scope.

Lemma filter_filter_and {A} (f g : A -> bool) l : filter g (filter f l) = filter (fun x => f x && g x) l.
Proof.
  induction l as [|a l IH]; cbn [filter]; [reflexivity|].
  destruct (f a); cbn [andb filter]; [destruct (g a)|]; rewrite IH; reflexivity.
Qed.

Theorem g_ref_cand_body_is_model rq rm scope front path base e :
  g_ref_cand_body rq rm scope front path base e = Z.b2z (ref_cand rq rm scope front path base e).
Proof.
  unfold g_ref_cand_body, ref_cand. rewrite filter_filter_and.
  destruct (znth scope (fst e) false); [|reflexivity].
  destruct (negb (zmem (fst e) path)); [|reflexivity].
  destruct (match rq_bond (rq_ent rq (Z.of_nat front)) with Some sb => qbond_match sb (snd e) | None => false end); [|reflexivity].
  cbn [andb].
  destruct (match_atom _ _); [|reflexivity]. cbn [andb].
  destruct (same_keys_z _ _); [|reflexivity]. cbn [andb].
  destruct (forallb _ _); reflexivity.
Qed.

(* non-vacuity: third atom of a triangle query on a triangle: the closure to the first atom is found -> one push; no push when the
   closure bond has the wrong order; no push outside the scope *)
Definition t_c : qatom := QElem 6 None (mkQX 0 false [] [] [] [] []).
Definition t_a : latom := mkLA 6 None 0 false 2 1 (Some 2) 0 [3].
Definition t_rq (o : Z) : list rqent :=
  [mkRQ 1 0 t_c None []; mkRQ 2 0 t_c (Some (mkQB [1] None)) []; mkRQ 3 1 t_c (Some (mkQB [1] None)) [(0, mkQB [o] None)]].
Definition t_rm : list ratom :=
  [mkRA 1 t_a [(1, mkLB 1 true); (2, mkLB 1 true)]; mkRA 2 t_a [(0, mkLB 1 true); (2, mkLB 1 true)];
   mkRA 3 t_a [(0, mkLB 1 true); (1, mkLB 1 true)]].
Example g_ref_cand_body_example :
  g_ref_cand_body (t_rq 1) t_rm [true; true; true] 2 [0; 1] 1 (2, mkLB 1 true) = 1 /\
  g_ref_cand_body (t_rq 2) t_rm [true; true; true] 2 [0; 1] 1 (2, mkLB 1 true) = 0 /\
  g_ref_cand_body (t_rq 1) t_rm [true; true; false] 2 [0; 1] 1 (2, mkLB 1 true) = 0.
Proof. vm_compute. repeat split; reflexivity. Qed.
