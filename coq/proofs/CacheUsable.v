(* C13 -- a well formed molecule is editable: fix_structure raises nothing, hence add_atom raises nothing outside a transaction. *)
From Coq Require Import ZArith List Bool Lia.
From Model Require Import PyBase Cache.
From Proofs Require Import CacheProofs CacheWf CacheCopy CacheCoh CacheWorld CacheUnion CacheTheorems.
Import ListNotations.
Open Scope Z_scope.

(* every bond slot holds an allocated reference and leads to an existing atom *)
Definition ready (h : hp) (o : mobj) : Prop :=
  forall n r, In (n, r) (o_adj o) -> In n (keys (o_atoms o)) /\
    forall m rf, In (m, rf) r -> (exists c, hget h rf = Some c) /\ In m (keys (o_atoms o)).
Lemma wf_ready h o : wf h o -> ready h o.
Proof.
  intros Wf n r Hi. pose proof Wf as Wf0. destruct Wf as [Wk Wnd Wsym Wloop Wval Wlt]. split.
  - rewrite <- Wk. change n with (fst (n, r)). now apply in_map.
  - intros m rf Hm. assert (aslot (o_adj o) n m = Some rf) as S by (eapply nd_In_aslot; eauto). split.
    + apply Wval. eapply aslot_arefs; eauto.
    + eapply wfa_nbr_atom; eauto.
Qed.
Lemma ready_relabel h o h' o' : relabel h o h' o' -> ready h o -> ready h' o'.
Proof.
  intros [[A [K _]] [[_ V] _]] R n r Hi. rewrite A in Hi. destruct (R n r Hi) as [R1 R2]. rewrite K. split; [exact R1|].
  intros m rf Hm. destruct (R2 m rf Hm) as [[c Hc] Hk]. split; [eapply V; eauto | exact Hk].
Qed.
Lemma lenv_ok h atoms r :
  (forall m rf, In (m, rf) r -> (exists c, hget h rf = Some c) /\ In m (keys atoms)) -> exists l, lenv_of_row h atoms r = Ok l.
Proof.
  induction r as [|[m rf] t IH]; intros H; cbn; [eauto|]. destruct (H m rf (or_introl eq_refl)) as [[c Hc] Hk]. rewrite Hc.
  destruct IH as [l Hl]; [intros; apply H; now right|]. destruct (b_ord c =? 8); [eauto|].
  apply keys_In_zget in Hk. destruct Hk as [a Ha]. rewrite Ha, Hl. eauto.
Qed.

Lemma label_rows_total rows : forall h o, ready h o -> (forall n r, In (n, r) rows -> In (n, r) (o_adj o)) ->
  exists h' o', label_rows rows h o = (h', o', None).
Proof.
  induction rows as [|[n r] t IH]; intros h o R Sub; cbn [label_rows]; [unfold ok; eauto|].
  destruct (R n r (Sub n r (or_introl eq_refl))) as [Hn Hr]. destruct (lenv_ok h (o_atoms o) r Hr) as [l Hl]. rewrite Hl.
  apply keys_In_zget in Hn. destruct Hn as [a Ha]. rewrite Ha.
  apply IH.
  - assert (relabel h o (mark_row h r) (set_atoms o (zset (o_atoms o) n (mkA (a_core a) (a_hyd a) (Some l))))) as Rl.
    { destruct (mark_row_spec r h) as [L [N [U O]]]. split.
      - unfold same_struct; cbn. repeat split. eapply keys_zset_same; eauto.
      - split; [exact L|]. split; [exact N|]. split; [|exact O]. intros x Hx. apply U. intros Hi. apply Hx.
        apply In_arefs. apply in_map_iff in Hi. destruct Hi as [[m rf] [E Hi]]. cbn in E. subst. exists n, r, m. split; [|exact Hi].
        apply Sub. now left. }
    eapply ready_relabel; eauto.
  - intros n0 r0 Hi. cbn [o_adj set_atoms]. apply Sub. now right.
Qed.

Lemma calc_implicit_total n h o : ready h o -> NoDup (keys (o_adj o)) -> keys (o_adj o) = keys (o_atoms o) -> In n (keys (o_atoms o)) ->
  exists h' o', calc_implicit n h o = (h', o', None).
Proof.
  intros R ND K Hn. unfold calc_implicit. pose proof Hn as Hn'. apply keys_In_zget in Hn. destruct Hn as [a Ha]. rewrite Ha.
  rewrite <- K in Hn'. apply keys_In_zget in Hn'. destruct Hn' as [r Hr]. rewrite Hr.
  destruct (R n r (zget_In _ _ _ Hr)) as [_ Hrr]. destruct (lenv_ok h (o_atoms o) r Hrr) as [l Hl]. rewrite Hl. unfold ok. eauto.
Qed.
Lemma calc_implicit_all_total ns : forall h o, inv1 h o -> (forall n, In n ns -> In n (keys (o_atoms o))) ->
  exists h' o', calc_implicit_all ns h o = (h', o', None) /\ inv1 h' o'.
Proof.
  induction ns as [|n t IH]; intros h o I Sub; cbn [calc_implicit_all]; [unfold ok; eauto|].
  destruct I as [Wf Cw]. destruct (calc_implicit_total n h o (wf_ready _ _ Wf) (proj1 (wf_nd _ _ _ Wf)) (wf_keys _ _ _ Wf) (Sub n (or_introl eq_refl)))
    as [h1 [o1 E]].
  pose proof (calc_implicit_relabels n h o) as Rl. unfold seq. rewrite E in *.
  destruct (relabel_inv1 _ _ _ _ Rl (conj Wf Cw)) as [I1 _]. apply IH; [exact I1|].
  intros m Hm. destruct Rl as [[_ [K _]] _]. rewrite K. apply Sub. now right.
Qed.

Lemma fix_structure_total h o : inv1 h o -> exists h' o', fix_structure h o = (h', o', None) /\ inv1 h' o'.
Proof.
  intros I. unfold fix_structure, calc_labels.
  (* the two reads *)
  set (o1 := set_cache o (fst (read_key 5 (view_of h o) (o_cache o) Kars))).
  set (o2 := set_cache o1 (fst (read_key 5 (view_of h o1) (o_cache o1) Kar))).
  assert (inv1 h o2) as I2 by (eapply inv1_same; eauto).
  destruct I2 as [Wf2 Cw2].
  destruct (label_rows_total (o_adj o2) h o2 (wf_ready _ _ Wf2) (fun _ _ H => H)) as [h3 [o3 E3]].
  pose proof (label_rows_relabels (o_adj o2) h o2 (incl_refl _)) as Rl. rewrite E3 in Rl.
  destruct (relabel_inv1 _ _ _ _ Rl (conj Wf2 Cw2)) as [I3 _].
  assert (exists h4 o4, (match o_changed o3 with None | Some [] => calc_implicit_all (keys (o_atoms o3)) h3 o3
                                               | Some l => calc_implicit_all l h3 o3 end) = (h4, o4, None) /\ inv1 h4 o4) as [h4 [o4 [E4 I4]]].
  { destruct (o_changed o3) as [[|x l]|] eqn:Ec.
    - apply calc_implicit_all_total; auto.
    - apply calc_implicit_all_total; [exact I3|]. destruct I3 as [_ Cw3]. intros n Hn. eapply Cw3; eauto.
    - apply calc_implicit_all_total; auto. }
  exists h4, (set_changed o4 None). unfold seq, read, ok. fold o1. fold o2. rewrite E3. rewrite E4. split; [reflexivity|].
  destruct I4 as [W4 _]. split; [exact W4 | intros l Hl; discriminate].
Qed.

(* outside a transaction a well formed molecule accepts a new atom *)
Theorem add_atom_total c h o : inv1 h o -> o_backup o = None -> exists h' o', add_atom c None h o = (h', o', None).
Proof.
  intros I B. unfold add_atom. cbv zeta. set (n' := zmax (keys (o_atoms o)) 0 + 1).
  assert (~ In n' (keys (o_atoms o))) as N. { intros Hi. apply (zmax_ge _ 0) in Hi. unfold n' in Hi. lia. }
  pose proof (put_atom_good c n' h o (conj I N)) as G. unfold put_atom, ok in G. cbn beta iota in G. destruct G as [[I1 Hn] _].
  unfold seq, put_atom, flush, ok. cbn beta iota.
  set (o1 := set_cache _ _). assert (inv1 h o1) as I1' by (eapply inv1_same; eauto).
  destruct (mark_changed_ok [n'] h o1) as [o2 E2]. rewrite E2.
  assert (inv1 h o2 /\ o_backup o2 = None) as [I2 B2].
  { pose proof (mark_changed_good [n'] h o1) as G2. rewrite E2 in G2. destruct G2 as [I2 [_ [_ [_ Bk]]]].
    - split; [exact I1'|]. intros x [<-|[]]. exact Hn.
    - split; [exact I2|]. rewrite Bk. exact B. }
  unfold unless_transaction. rewrite B2. destruct (fix_structure_total h o2 I2) as [h3 [o3 [E3 _]]]. rewrite E3. eauto.
Qed.

Theorem usable : forall s c, W s -> o_backup (s_cur s) = None -> snd (step s (OAddAtom c None)) = None.
Proof.
  intros s c Ws B. pose proof (W_cur s Ws) as [I _]. cbn [step]. unfold lift. destruct (add_atom_total c _ _ I B) as [h' [o' E]].
  rewrite E. reflexivity.
Qed.
