(* C18: the generated Query* / Dynamic* classes and their lookup / symbol methods as translated from the source
   (Gen.ElemVariants, regenerated on every run by tools/gen_elemvariants.py): clause "query and dynamic variants exist with the
   same number" of C18 stated on the translated code. *)
From Coq Require Import ZArith List String Bool Lia.
From Model Require Import PyBase PeriodicTable.
From Gen Require Import Elements RuntimeDump ElemCode ElemVariants.
From Proofs Require Import PeriodicTable.
Import ListNotations.
Open Scope string_scope.
Open Scope Z_scope.

(* ---- the symbol of a variant is its class name without the prefix, for ANY symbol string ---- *)
Lemma substring_all : forall s, substring 0 (String.length s) s = s.
Proof. induction s as [|c s IH]; simpl; [reflexivity|]. rewrite IH. reflexivity. Qed.

Lemma dynamic_symbol_exact : forall s n m, g_dynamic_symbol (mkV ("Dynamic" ++ s) n m) = s.
Proof. intros s n m. unfold g_dynamic_symbol, py_slice_from. simpl. rewrite Nat.sub_0_r. apply substring_all. Qed.

Lemma query_symbol_exact : forall s n m, g_query_symbol (mkV ("Query" ++ s) n m) = s.
Proof. intros s n m. unfold g_query_symbol, py_slice_from. simpl. rewrite Nat.sub_0_r. apply substring_all. Qed.

(* ---- every element has exactly the expected variants, found by number and by symbol ---- *)
Definition vclass_eqb (a b : vclass) : bool :=
  String.eqb (v_name a) (v_name b) && (v_num a =? v_num b) && option_eqb Z.eqb (v_mdl a) (v_mdl b).

Definition qres_eqb (a b : qres) : bool :=
  match a, b with QClass x, QClass y => vclass_eqb x y | QAnyElement, QAnyElement => true | QAnyMetal, QAnyMetal => true | _, _ => false end.

Definition four_b (x1 x2 : pyres vclass) (y1 y2 : pyres qres) (d q : vclass) : bool :=
  pyres_eqb vclass_eqb x1 (Ok d) && pyres_eqb vclass_eqb x2 (Ok d) && pyres_eqb qres_eqb y1 (Ok (QClass q)) && pyres_eqb qres_eqb y2 (Ok (QClass q)).
Lemma variants_ok_all :
  forallb (fun e => four_b (g_dynamic_from_atomic_number (e_num e)) (g_dynamic_from_symbol (e_sym e))
                           (g_query_from_atomic_number (e_num e)) (g_query_from_symbol (e_sym e))
                           (mkV ("Dynamic" ++ e_sym e) (e_num e) None) (mkV ("Query" ++ e_sym e) (e_num e) (Some (e_mdl e)))) elements = true.
Proof. vm_compute. reflexivity. Qed.

Lemma vclass_eqb_eq : forall a b, vclass_eqb a b = true -> a = b.
Proof.
  intros [n1 k1 m1] [n2 k2 m2] H. unfold vclass_eqb in H. simpl in H.
  apply andb_prop in H. destruct H as [H H3]. apply andb_prop in H. destruct H as [H1 H2].
  apply String.eqb_eq in H1. apply Z.eqb_eq in H2. subst.
  destruct m1 as [x|]; destruct m2 as [y|]; simpl in H3; try discriminate; [apply Z.eqb_eq in H3; subst|]; reflexivity.
Qed.

Lemma res_vclass_eq : forall x d, pyres_eqb vclass_eqb x (Ok d) = true -> x = Ok d.
Proof. intros [a|ex] d H; simpl in H; [apply vclass_eqb_eq in H; subst; reflexivity | discriminate]. Qed.

Lemma res_qres_eq : forall x q, pyres_eqb qres_eqb x (Ok (QClass q)) = true -> x = Ok (QClass q).
Proof. intros [[a| |]|ex] q H; simpl in H; try discriminate. apply vclass_eqb_eq in H. subst. reflexivity. Qed.

Lemma four_b_eq : forall x1 x2 y1 y2 d q, four_b x1 x2 y1 y2 d q = true ->
  x1 = Ok d /\ x2 = Ok d /\ y1 = Ok (QClass q) /\ y2 = Ok (QClass q).
Proof.
  intros x1 x2 y1 y2 d q H. unfold four_b in H.
  apply andb_prop in H. destruct H as [H H4]. apply andb_prop in H. destruct H as [H H3]. apply andb_prop in H. destruct H as [H1 H2].
  split; [exact (res_vclass_eq _ _ H1)|]. split; [exact (res_vclass_eq _ _ H2)|].
  split; [exact (res_qres_eq _ _ H3) | exact (res_qres_eq _ _ H4)].
Qed.

Lemma source_variants_exist : forall e, In e elements ->
  g_dynamic_from_atomic_number (e_num e) = Ok (mkV ("Dynamic" ++ e_sym e) (e_num e) None) /\
  g_dynamic_from_symbol (e_sym e) = Ok (mkV ("Dynamic" ++ e_sym e) (e_num e) None) /\
  g_query_from_atomic_number (e_num e) = Ok (QClass (mkV ("Query" ++ e_sym e) (e_num e) (Some (e_mdl e)))) /\
  g_query_from_symbol (e_sym e) = Ok (QClass (mkV ("Query" ++ e_sym e) (e_num e) (Some (e_mdl e)))) /\
  g_dynamic_symbol (mkV ("Dynamic" ++ e_sym e) (e_num e) None) = e_sym e /\
  g_query_symbol (mkV ("Query" ++ e_sym e) (e_num e) (Some (e_mdl e))) = e_sym e.
Proof.
  intros e He.
  destruct (four_b_eq _ _ _ _ _ _ (proj1 (forallb_forall _ elements) variants_ok_all e He)) as [H1 [H2 [H3 H4]]].
  split; [exact H1|]. split; [exact H2|]. split; [exact H3|]. split; [exact H4|].
  split; [apply dynamic_symbol_exact | apply query_symbol_exact].
Qed.

(* by number, for every n in 1..118: the variants report the standard symbol and the number n *)
Definition two_b (x : pyres vclass) (y : pyres qres) (s : string) (n : Z) : bool :=
  match x, y with
  | Ok d, Ok (QClass q) => String.eqb (g_dynamic_symbol d) s && String.eqb (g_query_symbol q) s && (v_num d =? n) && (v_num q =? n)
  | _, _ => false
  end.

Lemma two_b_eq : forall x y s n, two_b x y s n = true ->
  exists d q, x = Ok d /\ y = Ok (QClass q) /\ g_dynamic_symbol d = s /\ g_query_symbol q = s /\ v_num d = n /\ v_num q = n.
Proof.
  intros [d|] [[q| |]|] s n H; simpl in H; try discriminate.
  apply andb_prop in H. destruct H as [H H4]. apply andb_prop in H. destruct H as [H H3]. apply andb_prop in H. destruct H as [H1 H2].
  exists d, q. repeat split; try (apply String.eqb_eq; assumption); apply Z.eqb_eq; assumption.
Qed.

Lemma variant_numbers_ok_all :
  forallb (fun n => two_b (g_dynamic_from_atomic_number n) (g_query_from_atomic_number n) (std_symbol n) n) all_numbers = true.
Proof. vm_compute. reflexivity. Qed.

Lemma source_variants_by_number : forall n, 1 <= n <= 118 ->
  exists d q, g_dynamic_from_atomic_number n = Ok d /\ g_query_from_atomic_number n = Ok (QClass q) /\
              g_dynamic_symbol d = std_symbol n /\ g_query_symbol q = std_symbol n /\ v_num d = n /\ v_num q = n.
Proof.
  intros n Hn. assert (Hin : In n all_numbers) by (apply zrange_In; lia).
  exact (two_b_eq _ _ _ _ (proj1 (forallb_forall _ all_numbers) variant_numbers_ok_all n Hin)).
Qed.

(* numbers outside 1..118 are rejected by both variant lookups *)
Lemma filter_none {A} (f : A -> bool) l : (forall x, In x l -> f x = false) -> filter f l = [].
Proof.
  induction l as [|x l IH]; intros H; simpl; [reflexivity|].
  rewrite (H x (or_introl eq_refl)). apply IH. intros y Hy. apply H. right. exact Hy.
Qed.

Lemma variant_numbers_in_range :
  forallb (fun c => (1 <=? v_num c) && (v_num c <=? 118)) g_dynamic_classes = true /\
  forallb (fun c => (1 <=? v_num c) && (v_num c <=? 118)) g_query_classes = true.
Proof. vm_compute. split; reflexivity. Qed.

Lemma source_variants_reject : forall n, ~ (1 <= n <= 118) ->
  g_dynamic_from_atomic_number n = Err ValueError /\ g_query_from_atomic_number n = Err ValueError.
Proof.
  intros n Hn. destruct variant_numbers_in_range as [Hd Hq]. rewrite forallb_forall in Hd, Hq.
  unfold g_dynamic_from_atomic_number, g_query_from_atomic_number.
  rewrite (filter_none (fun x => v_num x =? n) g_dynamic_classes), (filter_none (fun x => v_num x =? n) g_query_classes).
  - split; reflexivity.
  - intros x Hx. specialize (Hq x Hx). apply andb_prop in Hq. destruct Hq as [A B]. apply Z.leb_le in A, B. apply Z.eqb_neq. lia.
  - intros x Hx. specialize (Hd x Hx). apply andb_prop in Hd. destruct Hd as [A B]. apply Z.leb_le in A, B. apply Z.eqb_neq. lia.
Qed.

(* ---- the classes found in the running interpreter (runtime dump, sorted by name there) are exactly the translated ones ---- *)
Definition same_members {A} (eq : A -> A -> bool) (a b : list A) : bool :=
  Nat.eqb (List.length a) (List.length b) && forallb (fun x => existsb (eq x) b) a && forallb (fun x => existsb (eq x) a) b.

Lemma source_variants_are_runtime :
  same_members (fun x y => String.eqb (fst x) (fst y) && (snd x =? snd y))
               rt_dynamic (map (fun c => (v_name c, v_num c)) g_dynamic_classes) = true /\
  same_members (fun x y => let '(s1, n1, m1) := x in let '(s2, n2, m2) := y in String.eqb s1 s2 && (n1 =? n2) && (m1 =? m2))
               rt_query (map (fun c => (v_name c, v_num c, match v_mdl c with Some m => m | None => -1 end)) g_query_classes) = true /\
  List.length g_dynamic_classes = 118%nat /\ List.length g_query_classes = 118%nat /\
  same_members (fun x y => String.eqb (e_sym x) (e_sym y)) import_order elements = true.
Proof. vm_compute. repeat split; reflexivity. Qed.

Lemma source_variant_examples :
  g_query_from_symbol "A" = Ok QAnyElement /\ g_query_from_symbol "M" = Ok QAnyMetal /\
  g_query_from_symbol "Xx" = Err ValueError /\ g_dynamic_from_symbol "A" = Err ValueError /\
  g_dynamic_from_atomic_number 66 = Ok (mkV "DynamicDy" 66 None) /\ g_dynamic_symbol (mkV "DynamicDy" 66 None) = "Dy" /\
  g_query_from_atomic_number 35 = Ok (QClass (mkV "QueryBr" 35 (Some 80))).
Proof. vm_compute. repeat split; reflexivity. Qed.
