(* C06 -- extension round: all minimum cycle bases of a graph have the same ring sizes.
   An accepted ring list whose total size is that of mcb_ref has, ring by ring after sorting, the sizes of mcb_ref:
   the multiset of ring sizes of a minimum cycle basis is an invariant of the graph. *)
From Coq Require Import ZArith List Bool Lia Permutation Sorted.
From Model Require Import PyBase Graph Rings.
From Proofs Require Import RingsProofs RingsMcb RingsRank RingsExt RingsDim RingsFund RingsMin RingsHorton.
Import ListNotations.
Open Scope Z_scope.

Lemma dominate_head_tail x X t T : StronglySorted le (x :: X) -> StronglySorted le (t :: T) ->
  (forall L, cnt L (t :: T) <= cnt L (x :: X))%nat -> (x <= t)%nat /\ forall L, (cnt L T <= cnt L X)%nat.
Proof.
  intros SX ST H. inversion SX as [|? ? SX' HX]; subst. inversion ST as [|? ? ST' HT]; subst.
  assert (Xt : (x <= t)%nat).
  { destruct (Nat.le_gt_cases x t) as [Le|Gt]; [exact Le|]. exfalso. specialize (H t).
    rewrite (cnt_zero_sorted t x X Gt HX), cnt_cons, Nat.leb_refl in H. lia. }
  split; [exact Xt|]. intros L. specialize (H L). rewrite !cnt_cons in H. destruct (Nat.leb_spec x L) as [Lx|Lx].
  - destruct (Nat.leb_spec t L) as [Lt|Lt]; [lia|].
    destruct T as [|t' T']; [unfold cnt; cbn; lia|]. inversion HT as [|? ? Ht' _]; subst.
    assert (Z : cnt L (t' :: T') = 0%nat); [|lia].
    inversion ST' as [|? ? _ HT']; subst. apply cnt_zero_sorted; [cbn in Ht'; lia | exact HT'].
  - assert (Z : cnt L X = 0%nat).
    { pose proof (cnt_zero_sorted L x X Lx HX) as Q. rewrite cnt_cons in Q. lia. }
    lia.
Qed.

Lemma dominate_equal X : forall T, StronglySorted le X -> StronglySorted le T -> length X = length T ->
  (forall L, cnt L T <= cnt L X)%nat -> nsum X = nsum T -> X = T.
Proof.
  induction X as [|x X IH]; intros T SX ST Len H E; [destruct T; [reflexivity | discriminate]|].
  destruct T as [|t T]; [discriminate|]. destruct (dominate_head_tail x X t T SX ST H) as [Xt Tail].
  inversion SX as [|? ? SX' _]; subst. inversion ST as [|? ? ST' _]; subst. cbn [length] in Len.
  pose proof (dominate_sorted X SX' T ST' Tail) as D. replace (length T) with (length X) in D by lia. rewrite firstn_all in D.
  unfold nsum in E. cbn [fold_right] in E. fold (nsum X) (nsum T) in E.
  assert (x = t) by lia. assert (nsum X = nsum T) by lia. subst t. f_equal. apply IH; try assumption; lia.
Qed.

Theorem minimum_sizes g rs : is_cycle_basis g rs = true -> total_size rs = total_size (mcb_ref g) ->
  isort (map (@length Z) rs) = map (@length Z) (mcb_ref g).
Proof.
  intros H E. pose proof (basis_checker_sound g rs H) as [W [C _]]. rewrite Forall_forall in C.
  set (cands := sort_by_len (mcb_candidates g)). set (Ginf := greedy g [] cands (length cands)).
  (* without a cut-off the greedy selection has exactly cyclomatic-many rings: it IS mcb_ref *)
  assert (Sound : Forall (is_cycle g) Ginf /\ independent_b (map (ring_vec g) Ginf) = true).
  { destruct (greedy_cycles_sound g cands (length cands)) as [A [B _]]; [intros c Hc; apply (mcb_candidates_cycles g c W Hc) | tauto]. }
  assert (Up : Z.of_nat (length Ginf) <= cyclomatic g) by (apply cycle_rank_bound; tauto).
  assert (EqG : mcb_ref g = Ginf).
  { unfold mcb_ref. fold cands. rewrite (greedy_firstn g cands [] (Z.to_nat (cyclomatic g)) (length cands) (le_n _)). fold Ginf.
    apply firstn_all2. apply Nat2Z.inj_le. rewrite Z2Nat.id by (apply cyclomatic_nonneg; exact W). exact Up. }
  assert (Lrs : length rs = length Ginf) by (rewrite <- EqG; apply (accepted_same_length g rs H)).
  symmetry. rewrite EqG. apply dominate_equal.
  - apply sorted_map_length. apply greedy_sorted. apply sort_by_len_sorted.
  - apply isort_sorted.
  - rewrite map_length. rewrite (Permutation_length (isort_perm (map (@length Z) rs))). rewrite map_length. symmetry. exact Lrs.
  - intros L. rewrite (cnt_perm L _ _ (isort_perm _)), !cnt_map_length.
    apply (threshold_count_spanned g cands rs L (sort_by_len_sorted _)); [|apply (accepted_independent g rs H)].
    intros t Ht. apply (horton_property_holds g W t (C t Ht)).
  - rewrite (nsum_perm _ _ (isort_perm _)). apply Nat2Z.inj. rewrite <- !total_size_nsum, <- EqG. symmetry. exact E.
Qed.

(* two minimum cycle bases of one graph have the same ring sizes *)
Corollary minimum_bases_same_sizes g rs rs' : is_cycle_basis g rs = true -> is_cycle_basis g rs' = true ->
  total_size rs = total_size (mcb_ref g) -> total_size rs' = total_size (mcb_ref g) ->
  isort (map (@length Z) rs) = isort (map (@length Z) rs').
Proof. intros H H' E E'. rewrite (minimum_sizes g rs H E), (minimum_sizes g rs' H' E'). reflexivity. Qed.
