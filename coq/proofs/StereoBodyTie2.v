(* C12, round 4: the tetrahedral SMILES round trip with the reader's first-atom rule AS TRANSLATED FROM THE SOURCE (Gen.StereoBody
   g_read_mark), for arbitrary atom numbers: pos gives the position of an atom in the string (atom numbers = positions + 1 for an
   unmapped SMILES, anything injective for a mapped one). *)
From Coq Require Import ZArith List Bool Lia.
From Model Require Import PyBase Stereo StereoSmiles.
From Gen Require Import StereoBody.
From Proofs Require Import StereoSmilesProofs StereoBodyTie.
Import ListNotations.
Open Scope Z_scope.

Lemma nopred_map : forall (pos : Z -> Z) n adj, nopred (fun x => x) (pos n) (map pos adj) = nopred pos n adj.
Proof. intros. unfold nopred. induction adj as [|m r IH]; [reflexivity|]. cbn [map forallb]. rewrite IH. reflexivity. Qed.

Theorem source_reader_roundtrip_th : forall (isH : Z -> bool) order (pos : Z -> Z) n adj s hasH (is_start : bool) w,
  (is_start = true -> forall m, In m adj -> pos n < pos m) ->
  (is_start = false -> exists parent rest, adj = parent :: rest /\ pos parent < pos n) ->
  write_th isH order adj s hasH is_start = Ok w ->
  translate_th isH order adj (g_read_mark hasH (pos n) (map pos adj) w) = Ok s.
Proof.
  intros isH order pos n adj s hasH is_start w H1 H2 Hw.
  rewrite g_read_mark_eq, nopred_map.
  exact (smiles_stereo_roundtrip_th isH order pos n adj s hasH is_start w H1 H2 Hw).
Qed.

