(* C10: ReactionContainer.pack_len on reaction packs whose molecule packs are all VERSION 0 (reactions published by an
   earlier chython): the walk steps over 2 bytes per 5 bonds in the order block. *)
From Coq Require Import ZArith List Bool Lia ZifyBool.
From Model Require Import PyBase Pack PackSpec PackSpecV0.
From Gen Require Import Elements.
From Proofs Require Import PackBits PackRoundtrip PackRoundtripGraph PackRoundtripMol PackProofs PackRxn PackRxnLen PackV0 PackV0Unpack.
Import ListNotations.
Open Scope Z_scope.

Lemma groups_ceil k : 0 <= k -> k / 5 + (if k mod 5 =? 0 then 0 else 1) = (k + 4) / 5.
Proof.
  intros Hk. pose proof (Z.div_mod k 5 ltac:(lia)) as D. pose proof (Z.mod_pos_bound k 5 ltac:(lia)) as B.
  pose proof (Z.div_mod (k + 4) 5 ltac:(lia)) as D2. pose proof (Z.mod_pos_bound (k + 4) 5 ltac:(lia)) as B2.
  destruct (k mod 5 =? 0) eqn:E; lia.
Qed.

Lemma pack_layout_v0_length m : pack_ok m = true ->
  let k := Z.of_nat (length (mol_fwd [] (pm_atoms m))) in
  Z.of_nat (length (pack_layout_v0 m)) = 2 * ((k + 4) / 5) + (4 + 9 * Z.of_nat (length (pm_atoms m)) + 3 * k) + 4 * pm_ct_count m.
Proof.
  intros H k. pose proof (pack_ok_graph_wf m H) as W.
  destruct (pack_ok_ct m H) as [Hct _].
  destruct (groups5_spec (fwd_orders (mol_fwd [] (pm_atoms m))) (wf_fwd_orders _ W [])) as [Gok [_ Gl]].
  assert (Lf : Z.of_nat (length (fwd_orders (mol_fwd [] (pm_atoms m)))) = k) by (unfold fwd_orders; rewrite map_length; reflexivity).
  rewrite Lf in Gl. rewrite groups_ceil in Gl by lia.
  unfold pack_layout_v0. cbv zeta. rewrite !app_length, !Nat2Z.inj_add.
  change (Z.of_nat (length (0 :: tl (header_bytes _ _)))) with 4.
  rewrite atoms_block_length by (unfold pack_ok in H; cbv zeta in H; split_andb; assumption).
  destruct (conn_roundtrip (mol_conns (pm_atoms m)) [] [] (wf_conns_num _ W) (wf_conns_even _ W)) as [_ Hcl].
  rewrite Hcl. rewrite (conns_twice_fwd _ W).
  unfold v0_order_bytes. rewrite v0_order_bytes_length by exact Gok. rewrite Gl.
  rewrite ct_block_length, <- Hct.
  replace (Z.of_nat (2 * length (mol_fwd [] (pm_atoms m))) / 2) with k by (subst k; rewrite Nat2Z.inj_mul, Z.mul_comm, Z.div_mul; lia).
  lia.
Qed.

Lemma pack_layout_v0_split m : pack_ok m = true ->
  exists a b c body,
    pack_layout_v0 m = 0 :: a :: b :: c :: atoms_block (pm_atoms m) ++ body /\
    Z.shiftr ((a * 256 + b) * 256 + c) 12 = natoms m /\ Z.land ((a * 256 + b) * 256 + c) 4095 = pm_ct_count m.
Proof.
  intros H. pose proof (pack_ok_graph_wf m H) as W. pose proof (wf_atoms_count _ W) as Hcnt.
  destruct (pack_ok_ct m H) as [_ [Hctr _]].
  destruct (header_roundtrip (Z.of_nat (length (pm_atoms m))) (pm_ct_count m)) as [a [b [c [Hh [_ [Hct [Hs [Ra [Rb Rc]]]]]]]]];
    [unfold num_ok; lia | unfold num_ok; lia|].
  exists a, b, c. eexists. unfold pack_layout_v0. cbv zeta. rewrite Hh. cbn [tl]. split; [reflexivity|].
  apply be3_counts; assumption.
Qed.

Lemma walk_step_v0 m pre suf : pack_ok m = true ->
  let data := pre ++ pack_layout_v0 m ++ suf in
  let sh := Z.of_nat (length pre) + 1 in
  let acs := be3 data sh in
  Z.shiftr acs 12 = natoms m /\
  exists ngb sh1, sum_ngb data (Z.to_nat (natoms m)) (sh + 4) 0 = Ok (ngb, sh1) /\
    sh1 + 3 * (ngb / 2) + ((ngb / 2 + 4) / 5) * 2 + Z.land acs 4095 * 4 = Z.of_nat (length (pre ++ pack_layout_v0 m)) + 1.
Proof.
  intros H data sh acs. pose proof (pack_ok_graph_wf m H) as W.
  assert (Hatoms : forallb atom_ok (pm_atoms m) = true) by (unfold pack_ok in H; cbv zeta in H; split_andb; assumption).
  pose proof (pack_layout_v0_length m H) as Hlen. cbv zeta in Hlen.
  destruct (pack_layout_v0_split m H) as [a [b [c [body [E [Hac Hct]]]]]].
  assert (Eacs : acs = (a * 256 + b) * 256 + c).
  { subst acs data sh. rewrite E.
    replace (pre ++ (0 :: a :: b :: c :: atoms_block (pm_atoms m) ++ body) ++ suf)
      with ((pre ++ [0]) ++ a :: b :: c :: (atoms_block (pm_atoms m) ++ body) ++ suf) by lassoc.
    replace (Z.of_nat (length pre) + 1) with (Z.of_nat (length (pre ++ [0]))) by (rewrite app_length; cbn [length]; lia).
    apply be3_at. }
  rewrite Eacs, Hac, Hct. split; [reflexivity|].
  rewrite app_length, Nat2Z.inj_add, Hlen.
  unfold natoms. rewrite Nat2Z.id. subst data sh. rewrite E.
  replace (pre ++ (0 :: a :: b :: c :: atoms_block (pm_atoms m) ++ body) ++ suf)
    with ((pre ++ [0; a; b; c]) ++ atoms_block (pm_atoms m) ++ body ++ suf) by lassoc.
  replace (Z.of_nat (length pre) + 1 + 4) with (Z.of_nat (length (pre ++ [0; a; b; c])) + 1) by (rewrite app_length; cbn [length]; lia).
  rewrite sum_ngb_block by exact Hatoms. do 2 eexists. split; [reflexivity|].
  rewrite Z.add_0_l, (conns_twice_fwd _ W).
  set (k := Z.of_nat (length (mol_fwd [] (pm_atoms m)))) in *.
  replace (Z.of_nat (2 * length (mol_fwd [] (pm_atoms m))) / 2) with k by (subst k; rewrite Nat2Z.inj_mul, Z.mul_comm, Z.div_mul; lia).
  rewrite app_length. cbn [length]. lia.
Qed.

Lemma rxn_len_walk_spec_v0 : forall ms pre suf, Forall (fun m => pack_ok m = true) ms ->
  rxn_len_walk (pre ++ concat (map pack_layout_v0 ms) ++ suf) 0 (length ms) (Z.of_nat (length pre) + 1)
  = Ok (map natoms ms, Z.of_nat (length (pre ++ concat (map pack_layout_v0 ms))) + 1).
Proof.
  induction ms as [|m r IH]; intros pre suf H.
  - cbn [map concat length rxn_len_walk]. rewrite app_nil_r. reflexivity.
  - inversion H as [|? ? Hm Hr]; subst. cbn [length map concat rxn_len_walk]. rewrite <- app_assoc.
    destruct (walk_step_v0 m pre (concat (map pack_layout_v0 r) ++ suf) Hm) as [Hac [ngb [sh1 [Hs Hsh]]]].
    cbv zeta in Hac, Hs, Hsh. rewrite Hac, Hs. change (0 =? 2) with false. change (0 =? 0) with true. cbv iota. rewrite Hsh.
    rewrite (app_assoc pre). rewrite IH by exact Hr. rewrite <- !app_assoc. reflexivity.
Qed.

(* ReactionContainer.pack_len on a reaction pack of VERSION 0 molecule packs (the declarative version 0 bit layout of every
   molecule), all role sizes 0..255 with at least one molecule, empty sides included: the atom counts role by role *)
Theorem rxn_pack_len_v0_correct (rs ags ps : list pmol) :
  Forall (fun m => pack_ok m = true) rs -> Forall (fun m => pack_ok m = true) ags -> Forall (fun m => pack_ok m = true) ps ->
  (length rs <= 255)%nat -> (length ags <= 255)%nat -> (length ps <= 255)%nat -> (1 <= length rs + length ags + length ps)%nat ->
  rxn_pack_len ([1; Z.of_nat (length rs); Z.of_nat (length ags); Z.of_nat (length ps)] ++
                concat (map (fun m => bytes_of_bits (layout_v0 m)) (rs ++ ags ++ ps)))
  = Ok (map natoms rs, map natoms ags, map natoms ps).
Proof.
  intros Hr Ha Hp Lr La Lp Lt.
  set (hdr := [1; Z.of_nat (length rs); Z.of_nat (length ags); Z.of_nat (length ps)]).
  assert (Hall : Forall (fun m => pack_ok m = true) (rs ++ ags ++ ps)) by (rewrite !Forall_app; auto).
  assert (Emap : map (fun m => bytes_of_bits (layout_v0 m)) (rs ++ ags ++ ps) = map pack_layout_v0 (rs ++ ags ++ ps)).
  { apply map_ext_in. intros m Hm. rewrite Forall_forall in Hall. apply layout_v0_blocks. apply Hall. exact Hm. }
  rewrite Emap.
  destruct (exists_last (l := rs ++ ags ++ ps)) as [init [last Hlast]].
  { intros Hn. apply (f_equal (@length _)) in Hn. rewrite !app_length in Hn. cbn [length] in Hn. lia. }
  assert (Hlen : (length rs + (length ags + length ps) = length init + 1)%nat).
  { apply (f_equal (@length _)) in Hlast. rewrite !app_length in Hlast. cbn [length] in Hlast. exact Hlast. }
  rewrite Hlast in Hall. apply Forall_app in Hall. destruct Hall as [Hinit Hl]. inversion Hl as [|? ? Hlast_ok _]; subst.
  unfold rxn_pack_len.
  change (getb (hdr ++ _) 0) with (Some 1). change (getb (hdr ++ _) 1) with (Some (Z.of_nat (length rs))).
  change (getb (hdr ++ _) 2) with (Some (Z.of_nat (length ags))). change (getb (hdr ++ _) 3) with (Some (Z.of_nat (length ps))).
  cbn [Z.eqb Pos.eqb negb].
  rewrite Hlast, map_app, concat_app. cbn [map concat]. rewrite app_nil_r.
  destruct (pack_layout_v0_split last Hlast_ok) as [a [b [c [body [El [Hac _]]]]]].
  assert (G4 : getb (hdr ++ concat (map pack_layout_v0 init) ++ pack_layout_v0 last) 4 = Some 0).
  { change 4 with (Z.of_nat (length hdr)). destruct init as [|m0 init'].
    - cbn [map concat app]. rewrite El. apply getb_at.
    - inversion Hinit as [|? ? Hm0 _]; subst. destruct (pack_layout_v0_split m0 Hm0) as [a0 [b0 [c0 [body0 [E0 _]]]]].
      cbn [map concat]. rewrite E0. cbn [app]. apply (getb_at hdr 0). }
  rewrite G4.
  replace (Z.to_nat (Z.of_nat (length rs) + Z.of_nat (length ags) + Z.of_nat (length ps) - 1)) with (length init) by lia.
  pose proof (rxn_len_walk_spec_v0 init hdr (pack_layout_v0 last) Hinit) as Wk. change (Z.of_nat (length hdr) + 1) with 5 in Wk.
  rewrite Wk.
  assert (Hnz : (Z.of_nat (length rs) =? 0) && (Z.of_nat (length ags) =? 0) && (Z.of_nat (length ps) =? 0) = false) by lia.
  rewrite Hnz.
  assert (Eb : be3 (hdr ++ concat (map pack_layout_v0 init) ++ pack_layout_v0 last)
                   (Z.of_nat (length (hdr ++ concat (map pack_layout_v0 init))) + 1) = (a * 256 + b) * 256 + c).
  { rewrite El.
    replace (hdr ++ concat (map pack_layout_v0 init) ++ 0 :: a :: b :: c :: atoms_block (pm_atoms last) ++ body)
      with (((hdr ++ concat (map pack_layout_v0 init)) ++ [0]) ++ a :: b :: c :: atoms_block (pm_atoms last) ++ body)
      by lassoc.
    replace (Z.of_nat (length (hdr ++ concat (map pack_layout_v0 init))) + 1)
      with (Z.of_nat (length ((hdr ++ concat (map pack_layout_v0 init)) ++ [0]))) by (rewrite (app_length _ [0]); cbn [length]; lia).
    apply be3_at. }
  rewrite Eb, Hac.
  replace (map natoms init ++ [natoms last]) with (map natoms (rs ++ ags ++ ps)) by (rewrite Hlast, map_app; reflexivity).
  rewrite !map_app.
  rewrite <- (map_length natoms rs) at 1. rewrite <- (map_length natoms ags) at 1. rewrite <- (map_length natoms ps) at 1.
  rewrite rxn_split_correct. reflexivity.
Qed.

(* non-vacuity, evaluated: the molecule at the format limits (19 bonds: four groups of five) three times, empty reagent side *)
Lemma rxn_pack_len_v0_example :
  pack_ok pack_example = true /\
  rxn_pack_len ([1; 1; 0; 2] ++ concat (map (fun m => bytes_of_bits (layout_v0 m)) [pack_example; pack_example; pack_example]))
  = Ok ([16], [], [16; 16]).
Proof. split; [exact (proj1 pack_example_ok) | vm_compute; reflexivity]. Qed.
