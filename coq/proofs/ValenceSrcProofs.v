(* C04 extension 3 -- the branch structure and constants of the hand-written models against Gen.ValenceSrc, which
   tools/gen_valence_src.py regenerates from the source of calc_implicit / check_implicit / implicify_hydrogens on every run:
   a source edit to the aromatic chain, to a compared bond order, to the `neutral carbon` test or to a constant of
   implicify_hydrogens changes the generated file and breaks one of these lemmas. *)
From Coq Require Import ZArith List String Bool Lia.
From Model Require Import PyBase Graph PeriodicTable Valence ValenceArom.
From Gen Require Import Elements ValenceSrc.
Import ListNotations.
Open Scope Z_scope.

(* the neighbour loops with the compared orders as parameters *)
Fixpoint scan_calc_o (o4 o8 : Z) (arom_ok : bool) (nv : nview) (sum : Z) (d : edict) (aroma : Z) : scanres :=
  match nv with
  | [] => SDone sum d aroma
  | (o, z) :: r =>
      if o =? o4 then (if arom_ok then scan_calc_o o4 o8 arom_ok r sum d (aroma + 1) else SReturn)
      else if negb (o =? o8) then
        match z with
        | None => SRaise KeyError
        | Some zn => scan_calc_o o4 o8 arom_ok r (sum + o) (eincr d (o, zn)) aroma
        end
      else scan_calc_o o4 o8 arom_ok r sum d aroma
  end.
Fixpoint scan_check_o (o4 o8 : Z) (nv : nview) (sum : Z) (d : edict) : scanres :=
  match nv with
  | [] => SDone sum d 0
  | (o, z) :: r =>
      if o =? o4 then SReturn
      else if negb (o =? o8) then
        match z with
        | None => SRaise KeyError
        | Some zn => scan_check_o o4 o8 r (sum + o) (eincr d (o, zn))
        end
      else scan_check_o o4 o8 r sum d
  end.

(* calc_implicit / check_implicit for one atom, every constant and the whole aromatic chain taken from the generated file *)
Definition support_of (l : list string) (num chg : Z) (rad : bool) : bool :=
  forallb (fun t => if String.eqb t "atom == C" then num =? e_num el_C
                    else if String.eqb t "not atom.charge" then chg =? 0
                    else if String.eqb t "not atom.is_radical" then negb rad
                    else false) l.
Definition calc_atom_src (vr : Z -> pyres (list rule)) (num chg : Z) (rad : bool) (nv : nview) : pyres (option Z) :=
  if num =? e_num el_H then Ok (Some src_hydrogen_value)
  else
    match scan_calc_o (fst src_calc_orders) (snd src_calc_orders) (support_of src_support num chg rad) nv 0 [] 0 with
    | SReturn => Ok None
    | SRaise e => Err e
    | SDone sum d aroma =>
        match src_arom_value aroma sum with
        | Some v => Ok v
        | None => match vr sum with
                  | Err ValenceError => Ok None
                  | Err e => Err e
                  | Ok rules => Ok (first_rule rules d)
                  end
        end
    end.
Definition check_atom_src (vr : Z -> pyres (list rule)) (num : Z) (nv : nview) (h : Z) : pyres bool :=
  if num =? e_num el_H then Ok (h =? src_check_hydrogen_value)
  else
    match scan_check_o (fst src_check_orders) (snd src_check_orders) nv 0 [] with
    | SReturn => Ok false
    | SRaise e => Err e
    | SDone sum d _ =>
        match vr sum with
        | Err ValenceError => Ok false
        | Err e => Err e
        | Ok rules => Ok (some_rule rules d h)
        end
    end.

Lemma scan_calc_o_48 ok nv : forall s d a, scan_calc_o 4 8 ok nv s d a = scan_calc ok nv s d a.
Proof.
  induction nv as [|[o z] r IH]; intros s d a; cbn [scan_calc_o scan_calc]; [reflexivity|].
  destruct (o =? 4); [destruct ok; [apply IH | reflexivity]|]. destruct (negb (o =? 8)); [destruct z; [apply IH | reflexivity] | apply IH].
Qed.
Lemma scan_check_o_48 nv : forall s d, scan_check_o 4 8 nv s d = scan_check nv s d.
Proof.
  induction nv as [|[o z] r IH]; intros s d; cbn [scan_check_o scan_check]; [reflexivity|].
  destruct (o =? 4); [reflexivity|]. destruct (negb (o =? 8)); [destruct z; [apply IH | reflexivity] | apply IH].
Qed.

Lemma support_is num chg rad : support_of src_support num chg rad = (chg =? 0) && negb rad && (num =? 6).
Proof. cbn. destruct (num =? 6), (chg =? 0), rad; reflexivity. Qed.

(* the hand-written model IS the source-derived one *)
Theorem calc_atom_follows_source vr num chg rad nv : calc_atom vr num chg rad nv = calc_atom_src vr num chg rad nv.
Proof.
  unfold calc_atom, calc_atom_src. change (e_num el_H) with 1. change src_hydrogen_value with 0.
  destruct (num =? 1); [reflexivity|].
  change (fst src_calc_orders) with 4. change (snd src_calc_orders) with 8. rewrite support_is, scan_calc_o_48.
  destruct (scan_calc ((chg =? 0) && negb rad && (num =? 6)) nv 0 [] 0) as [| e | sum d aroma]; try reflexivity.
  unfold src_arom_value.
  destruct (aroma =? 2); [destruct (sum =? 0); [reflexivity | destruct (sum =? 1); reflexivity]|].
  destruct (aroma =? 3); [destruct (negb (sum =? 0)); reflexivity|].
  destruct (negb (aroma =? 0)); reflexivity.
Qed.
Theorem check_atom_follows_source vr num nv h : check_atom vr num nv h = check_atom_src vr num nv h.
Proof.
  unfold check_atom, check_atom_src. change (e_num el_H) with 1. change src_check_hydrogen_value with 0.
  destruct (num =? 1); [reflexivity|].
  change (fst src_check_orders) with 4. change (snd src_check_orders) with 8. rewrite scan_check_o_48. reflexivity.
Qed.

(* the closed form of the aromatic branch against the generated chain *)
Theorem arom_h_follows_source num chg rad e : has_arom e = true ->
  (if support_of src_support num chg rad then src_arom_value (arom_bonds e) (sigma_sum e) else Some None) = Some (arom_h num chg rad e).
Proof.
  intros H. rewrite support_is. unfold arom_h, arom_supported, src_arom_value.
  destruct ((chg =? 0) && negb rad && (num =? 6)); [|reflexivity].
  destruct (arom_bonds e =? 2); [destruct (sigma_sum e =? 0); [reflexivity | destruct (sigma_sum e =? 1); reflexivity]|].
  destruct (arom_bonds e =? 3); [destruct (sigma_sum e =? 0); reflexivity|].
  destruct (arom_bonds e =? 0) eqn:E; [|reflexivity]. exfalso. apply Z.eqb_eq in E.
  unfold has_arom in H. unfold arom_bonds in E. induction e as [|x r IH]; [discriminate|]. cbn [existsb filter] in *.
  destruct (fst x =? 4); [cbn [List.length] in E; lia | apply IH; assumption].
Qed.

(* the constants the model of implicify_hydrogens spells out: H = 1, C = 6, plain hydrogen isotope 1, hydrogen bond order 1, any
   bond order 8 (three places), at most 1 non-8 bond on a hydrogen *)
Theorem implicify_constants : src_impl_consts = [1; 6; 1; 1; 8; 8; 8; 1] /\ e_num el_H = 1 /\ e_num el_C = 6.
Proof. repeat split; reflexivity. Qed.
