(* C16 (strengthening 4): PreparedReactor.__call__, multi-step mode: nothing is yielded twice, every yielded reaction is one
   stage of a reachable (reactor, reactants) pair, and after every yielded reaction EACH reactant of the call is dropped in
   turn, for every reactor not used yet *)
From Coq Require Import ZArith List Bool Lia.
From Model Require Import PyBase ReactorStage ReactorPrepared.
Import ListNotations.

Section PreparedProofs.
  Variables (T M K : Type).
  Variable key_eqb : K -> K -> bool.
  Variable react : T -> list M -> list (list M) * option pyexn.
  Variable key : list M -> list M -> K.
  Variable overlap : list M -> list M.
  Variable rxn_ms : list T.
  Variable allowed : nat -> bool.
  Variable molecules : list M.
  Variable excess : option (list M).
  Hypothesis key_eqb_spec : forall a b, key_eqb a b = true <-> a = b.

  Local Notation preach := (preach T M react overlap rxn_ms allowed molecules excess).
  Local Notation pushes := (pushes T M overlap molecules excess).
  Local Notation pstep := (pstep T M K key_eqb key overlap molecules excess).
  Local Notation prun := (prun T M K key_eqb react key overlap molecules excess).
  Definition ykey (y : list M * list M) : K := key (fst y) (snd y).
  Definition from_stage (y : list M * list M) : Prop :=
    exists rx nxt, preach (rx, fst y, nxt) /\ In (snd y) (fst (react rx (fst y))).

  Lemma existsb_key_In'' k seen : existsb (key_eqb k) seen = true <-> In k seen.
  Proof.
    rewrite existsb_exists. split.
    - intros (x & Hx & E). apply key_eqb_spec in E. subst. exact Hx.
    - intros H. exists k. split; [exact H|]. apply key_eqb_spec. reflexivity.
  Qed.

  Lemma NoDup_snoc' {A} (l : list A) k : NoDup l -> ~ In k l -> NoDup (l ++ [k]).
  Proof.
    induction 1 as [|x l Hx Hnd IH]; intros Hk; cbn; [constructor; [intros []|constructor]|].
    constructor.
    - intros Hin. apply in_app_or in Hin. destruct Hin as [Hin|[<-|[]]]; [contradiction|]. apply Hk. left. reflexivity.
    - apply IH. intros Hin. apply Hk. right. exact Hin.
  Qed.

  Lemma NoDup_app' {A} (l l' : list A) : NoDup l -> NoDup l' -> (forall x, In x l -> ~ In x l') -> NoDup (l ++ l').
  Proof.
    induction 1 as [|x l Hx Hnd IH]; intros Hl' Hdis; cbn; [exact Hl'|]. constructor.
    - intros Hin. apply in_app_or in Hin. destruct Hin as [Hin|Hin]; [contradiction|]. apply (Hdis x); [left; reflexivity|exact Hin].
    - apply IH; [exact Hl'|]. intros y Hy. apply Hdis. right. exact Hy.
  Qed.

  Section OneItem.
    Variables (rx : T) (rct : list M) (nxt : list T) (seen0 : list K).
    Hypothesis Hreach : preach (rx, rct, nxt).

    Definition PInv (a : pacc T M K) : Prop :=
      NoDup (map ykey (pa_yields T M K a)) /\
      (forall k, In k (pa_seen T M K a) <-> In k seen0 \/ In k (map ykey (pa_yields T M K a))) /\
      (forall y, In y (pa_yields T M K a) -> ~ In (ykey y) seen0) /\
      Forall from_stage (pa_yields T M K a) /\
      (forall it, In it (pa_stack T M K a) -> preach it).

    Lemma pstep_inv a prods : PInv a -> In prods (fst (react rx rct)) -> PInv (pstep rct nxt a prods).
    Proof.
      intros (I1 & I2 & I3 & I4 & I5) Hp. unfold ReactorPrepared.pstep. set (k := key rct prods).
      destruct (existsb (key_eqb k) (pa_seen T M K a)) eqn:Es; [exact (conj I1 (conj I2 (conj I3 (conj I4 I5))))|].
      assert (Hk : ~ In k (pa_seen T M K a)) by (intros H; apply existsb_key_In'' in H; congruence).
      unfold PInv. cbn [pa_seen pa_stack pa_yields]. split; [|split; [|split; [|split]]].
      - rewrite map_app. apply NoDup_snoc'; [exact I1|]. intros H. apply Hk. apply I2. right. exact H.
      - intros k'. rewrite map_app, in_app_iff. cbn. rewrite I2. unfold ykey at 3. cbn [fst snd]. fold k. tauto.
      - intros y Hy. apply in_app_or in Hy. destruct Hy as [Hy|[<-|[]]]; [apply I3; exact Hy|].
        unfold ykey. cbn [fst snd]. fold k. intros H. apply Hk. apply I2. left. exact H.
      - apply Forall_app. split; [exact I4|]. constructor; [|constructor]. exists rx, nxt. cbn [fst snd]. split; assumption.
      - intros it Hit. apply in_app_or in Hit. destruct Hit as [Hit|Hit]; [|apply I5; exact Hit].
        apply (preach_step T M react overlap rxn_ms allowed molecules excess rx rct nxt prods it Hreach Hp Hit).
    Qed.

    Lemma pfold_inv : forall news a, PInv a -> (forall p, In p news -> In p (fst (react rx rct))) -> PInv (fold_left (pstep rct nxt) news a).
    Proof.
      induction news as [|p news IH]; intros a HI Hn; cbn [fold_left]; [exact HI|].
      apply IH; [apply pstep_inv; [exact HI|apply Hn; left; reflexivity]|]. intros q Hq. apply Hn. right. exact Hq.
    Qed.
  End OneItem.

  Theorem prun_sound : forall fuel stack seen ys e ok,
    prun fuel stack seen = (ys, e, ok) -> (forall it, In it stack -> preach it) ->
    NoDup (map ykey ys) /\ (forall y, In y ys -> ~ In (ykey y) seen) /\ Forall from_stage ys.
  Proof.
    induction fuel as [|f IH]; intros stack seen ys e ok H Hq; cbn [ReactorPrepared.prun] in H.
    - inversion H; subst. split; [constructor|]. split; [intros y []|constructor].
    - destruct stack as [|[[rx rct] nxt] rest].
      + inversion H; subst. split; [constructor|]. split; [intros y []|constructor].
      + destruct (react rx rct) as [news ex] eqn:Est.
        set (a := fold_left (pstep rct nxt) news (mkPacc T M K seen rest [])) in *.
        assert (HA : PInv seen a).
        { apply (pfold_inv rx rct nxt seen); [apply Hq; left; reflexivity| |rewrite Est; auto].
          unfold PInv. cbn. split; [constructor|]. split; [intros k; tauto|]. split; [intros y []|]. split; [constructor|].
          intros it Hit. apply Hq. right. exact Hit. }
        destruct HA as (A1 & A2 & A3 & A4 & A5).
        destruct ex as [exn|].
        * inversion H; subst. auto.
        * destruct (prun f (pa_stack T M K a) (pa_seen T M K a)) as [[ys' e'] ok'] eqn:Er. inversion H; subst ys e ok. clear H.
          destruct (IH _ _ _ _ _ Er A5) as (R1 & R2 & R3).
          split; [|split].
          -- rewrite map_app. apply NoDup_app'; [exact A1|exact R1|].
             intros k Hk Hk'. apply in_map_iff in Hk'. destruct Hk' as (y' & Ek & Hy'). apply (R2 y' Hy').
             apply A2. right. rewrite Ek. exact Hk.
          -- intros y Hy. apply in_app_or in Hy. destruct Hy as [Hy|Hy]; [apply A3; exact Hy|].
             intros Hs. apply (R2 y Hy). apply A2. left. exact Hs.
          -- apply Forall_app. split; assumption.
  Qed.

  (* default excess: after a yielded reaction with products prods, EVERY position behind the products in
     x = fix_mapping_overlap(products + molecules) -- i.e. every reactant of the call -- is dropped in turn, for every reactor
     that was not used yet *)
  Theorem pushes_cover : excess = None ->
    forall prods nxt n m nrx,
      let x := overlap (prods ++ molecules) in
      (length prods <= n < length x)%nat -> nth_error nxt m = Some nrx ->
      In (nrx, remove_nth n x, remove_nth m nxt) (pushes prods nxt).
  Proof.
    intros He prods nxt n m nrx x Hn Hm. unfold ReactorPrepared.pushes. rewrite He. fold x.
    apply -> in_rev. apply in_flat_map. exists n. split.
    - apply in_seq. lia.
    - apply in_map_iff. exists (m, nrx). split; [reflexivity|].
      clear - Hm. assert (G : forall (l : list T) s k y, nth_error l k = Some y -> In ((s + k)%nat, y) (number_from s l)).
      { induction l as [|z l IH]; intros s k y H; [destruct k; discriminate|]. destruct k as [|k]; cbn in H.
        - inversion H; subst. left. rewrite Nat.add_0_r. reflexivity.
        - right. replace (s + S k)%nat with (S s + k)%nat by lia. apply IH. exact H. }
      apply (G nxt 0%nat m nrx Hm).
  Qed.
End PreparedProofs.

Theorem multistep_sound : forall (T M K : Type) (key_eqb : K -> K -> bool) react (key : list M -> list M -> K) overlap rxn_ms allowed
    molecules excess,
  (forall a b, key_eqb a b = true <-> a = b) ->
  forall fuel ys e ok,
    multistep T M K key_eqb react key overlap rxn_ms allowed molecules excess fuel = (ys, e, ok) ->
    NoDup (map (ykey M K key) ys) /\ Forall (from_stage T M react overlap rxn_ms allowed molecules excess) ys.
Proof.
  intros T M K key_eqb react key overlap rxn_ms allowed molecules excess Hk fuel ys e ok H. unfold multistep in H.
  destruct (prun_sound T M K key_eqb react key overlap rxn_ms allowed molecules excess Hk fuel _ _ _ _ _ H) as (R1 & _ & R3).
  - intros it Hit. apply preach_init. exact Hit.
  - split; assumption.
Qed.

(* non-vacuity: tokens; reactors 1 and 2; molecules [10; 20]; reactor 1 turns [10; 20] into [11]; reactor 2 turns [11; 20]
   (first reactant dropped) into [12] and finds nothing on [11; 10] *)
Definition pr_react (rx : Z) (rct : list Z) : list (list Z) * option pyexn :=
  match rx, rct with
  | 1%Z, [10%Z; 20%Z] => ([[11%Z]], None)
  | 2%Z, [11%Z; 20%Z] => ([[12%Z]], None)
  | _, _ => ([], None)
  end.

Example multistep_example :
  multistep Z Z (list Z) (list_eqb Z.eqb) pr_react (fun rct p => rct ++ p) (fun x => x) [1%Z; 2%Z] (fun _ => true) [10%Z; 20%Z] None 50
    = ([([10; 20], [11]); ([11; 20], [12])]%Z, None, true).
Proof. vm_compute. reflexivity. Qed.
