(* C10: the limits check of MoleculeContainer.pack accepts every non-empty molecule within the format limits and
   rejects atom numbers below 1 or above 4095 and more than 15 neighbours *)
From Coq Require Import ZArith List Bool Lia ZifyBool.
From Model Require Import PyBase Pack PackSpec PackApi.
From Proofs Require Import PackBits PackRoundtrip PackRoundtripGraph PackRoundtripMol.
Import ListNotations.
Open Scope Z_scope.

Lemma fold_max_le (l : list Z) : forall x b, x <= b -> (forall y, In y l -> y <= b) -> fold_left Z.max l x <= b.
Proof. induction l as [|y l IH]; intros x b Hx H; [exact Hx|]. cbn [fold_left]. apply IH; [pose proof (H y (or_introl eq_refl)); lia|]. intros z Hz. apply H. right. exact Hz. Qed.

Lemma fold_max_ge (l : list Z) : forall x, x <= fold_left Z.max l x /\ forall y, In y l -> y <= fold_left Z.max l x.
Proof.
  induction l as [|y l IH]; intros x; [cbn [fold_left]; split; [lia | contradiction]|]. cbn [fold_left].
  destruct (IH (Z.max x y)) as [H1 H2]. split; [lia|]. intros z [Hz|Hz]; [subst; lia | apply H2; exact Hz].
Qed.

Lemma py_max_le l b : l <> [] -> (forall y, In y l -> y <= b) -> py_max l 0 <= b.
Proof. destruct l as [|x r]; [contradiction|]. intros _ H. cbn [py_max]. apply fold_max_le; [apply H; left; reflexivity|]. intros y Hy. apply H. right. exact Hy. Qed.

Lemma py_max_ge l y : In y l -> y <= py_max l 0.
Proof. destruct l as [|x r]; [contradiction|]. cbn [py_max]. destruct (fold_max_ge r x) as [H1 H2]. intros [H|H]; [subst; exact H1 | apply H2; exact H]. Qed.

Lemma fold_min_ge (l : list Z) : forall x b, b <= x -> (forall y, In y l -> b <= y) -> b <= fold_left Z.min l x.
Proof. induction l as [|y l IH]; intros x b Hx H; [exact Hx|]. cbn [fold_left]. apply IH; [pose proof (H y (or_introl eq_refl)); lia|]. intros z Hz. apply H. right. exact Hz. Qed.

Lemma fold_min_le (l : list Z) : forall x, fold_left Z.min l x <= x /\ forall y, In y l -> fold_left Z.min l x <= y.
Proof.
  induction l as [|y l IH]; intros x; [cbn [fold_left]; split; [lia | contradiction]|]. cbn [fold_left].
  destruct (IH (Z.min x y)) as [H1 H2]. split; [lia|]. intros z [Hz|Hz]; [subst; lia | apply H2; exact Hz].
Qed.

Lemma py_min_ge l b : l <> [] -> (forall y, In y l -> b <= y) -> b <= py_min l 1.
Proof. destruct l as [|x r]; [contradiction|]. intros _ H. cbn [py_min]. apply fold_min_ge; [apply H; left; reflexivity|]. intros y Hy. apply H. right. exact Hy. Qed.

Lemma py_min_le l y : In y l -> py_min l 1 <= y.
Proof. destruct l as [|x r]; [contradiction|]. cbn [py_min]. destruct (fold_min_le r x) as [H1 H2]. intros [H|H]; [subst; exact H1 | apply H2; exact H]. Qed.

(* within the limits the check passes: the API call is the .pyx packer *)
Theorem mol_pack_within_limits m : pack_ok m = true -> pm_atoms m <> [] -> mol_pack true m = pack m.
Proof.
  intros H Hne. pose proof (pack_ok_graph_wf m H) as W. unfold mol_pack, mol_pack_check.
  destruct (pm_atoms m) as [|a0 r] eqn:Ea; [contradiction|]. rewrite <- Ea in *.
  assert (Hm : py_max (map pa_n (pm_atoms m)) 0 <= 4095).
  { apply py_max_le; [rewrite Ea; discriminate|]. intros y Hy. apply in_map_iff in Hy. destruct Hy as [a [Hn Ha]]. subst y.
    pose proof (graph_wf_num a _ W Ha). lia. }
  assert (Hn : 1 <= py_min (map pa_n (pm_atoms m)) 1).
  { apply py_min_ge; [rewrite Ea; discriminate|]. intros y Hy. apply in_map_iff in Hy. destruct Hy as [a [Hn Ha]]. subst y.
    pose proof (graph_wf_num a _ W Ha). lia. }
  destruct ((py_min (map pa_n (pm_atoms m)) 1 <? 1) || (4095 <? py_max (map pa_n (pm_atoms m)) 0)) eqn:E1; [lia|].
  destruct (existsb (fun a => (15 <? length (pa_nbrs a))%nat) (pm_atoms m)) eqn:E2; [|reflexivity].
  apply existsb_exists in E2. destruct E2 as [a [Ha Hl]]. pose proof (wf_nbrs_15 _ W a Ha). apply Nat.ltb_lt in Hl. lia.
Qed.

(* outside the checked limits: ValueError *)
Theorem mol_pack_rejects m :
  pm_atoms m = [] \/ (exists a, In a (pm_atoms m) /\ (pa_n a < 1 \/ 4095 < pa_n a \/ (15 < length (pa_nbrs a))%nat)) ->
  mol_pack true m = Err ValueError.
Proof.
  intros H. unfold mol_pack, mol_pack_check. destruct (pm_atoms m) as [|a0 r] eqn:Ea; [reflexivity|]. rewrite <- Ea in *.
  destruct H as [H|[a [Ha H]]]; [rewrite Ea in H; discriminate|].
  destruct ((py_min (map pa_n (pm_atoms m)) 1 <? 1) || (4095 <? py_max (map pa_n (pm_atoms m)) 0)) eqn:E1; [reflexivity|].
  destruct (existsb (fun a => (15 <? length (pa_nbrs a))%nat) (pm_atoms m)) eqn:E2; [reflexivity|].
  exfalso. destruct H as [H|[H|H]].
  - pose proof (py_min_le (map pa_n (pm_atoms m)) (pa_n a) (in_map pa_n _ _ Ha)). lia.
  - pose proof (py_max_ge (map pa_n (pm_atoms m)) (pa_n a) (in_map pa_n _ _ Ha)). lia.
  - assert (existsb (fun a => (15 <? length (pa_nbrs a))%nat) (pm_atoms m) = true)
      by (apply existsb_exists; exists a; split; [exact Ha | apply Nat.ltb_lt; exact H]). congruence.
Qed.
