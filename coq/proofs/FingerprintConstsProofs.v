(* C17 round 3 (2): the constants, tuple layouts and branch constants that the hand-written fingerprint models copy from the
   source are regenerated on every run (tools/gen_fingerprints.py -> Gen.FingerprintConsts) and compared here with what the
   models use.  A source edit of one of them either stops the translator (unknown shape) or breaks this theorem. *)
From Coq Require Import String ZArith List Bool Lia.
From Model Require Import PyBase Graph PyHash Fingerprint FingerprintCGR LinearSpell.
From Gen Require Import FingerprintConsts.
Import ListNotations.
Open Scope Z_scope.

(* what the models assume, written next to the model terms they describe *)
Definition model_mol_fields : list string := ["atom.isotope or 0"; "atom.atomic_number"; "atom.charge"; "atom.is_radical"]%string.
Definition model_cgr_fields : list string :=
  ["atom.isotope or 0"; "atom.atomic_number"; "atom.charge"; "atom.p_charge"; "atom.is_radical"; "atom.p_is_radical"]%string.
Definition model_dynbond_fields : list string := ["self.order or 0"; "self.p_order or 0"]%string.
Definition model_fold : string * string * Z * Z := ("length - 1", "int(log2(length))", 2, 2)%string.

Lemma atom_identifier_layout a :
  atom_identifier a = tuple_hash_lanes [hash_int (match a_iso a with Some i => i | None => 0 end); hash_int (a_num a);
                                        hash_int (a_chg a); hash_bool (a_rad a)].
Proof. reflexivity. Qed.

Definition eqK (p : string * string * Z * Z) : Z := snd (fst p).
Definition gtK (p : string * string * Z * Z) : Z := snd p.

Theorem generated_constants_agree :
  (* the cap *)
  fpc_cap = cap 0 /\
  (* folding: the expressions the model reads as `length - 1` and Z.log2, and the two branch constants *)
  fpc_linear_fold = model_fold /\ fpc_morgan_fold = model_fold /\
  (forall len nab tpl, fold_bits len nab tpl =
     Z.land tpl (len - 1) ::
     (if nab =? eqK fpc_linear_fold then [Z.land (Z.shiftr tpl (Z.log2 len)) (len - 1)]
      else if gtK fpc_linear_fold <? nab then shift_loop (Z.to_nat (nab - 1)) (Z.log2 len) (len - 1) tpl
      else [])) /\
  (* the asserts of _morgan_hash_dict, modelled by `lo <? 1` and `hi <? lo` *)
  fpc_morgan_asserts = ["min_radius >= 1"; "max_radius >= min_radius"]%string /\
  (* tuple layouts of the three hashes *)
  fpc_mol_fields = model_mol_fields /\ fpc_cgr_fields = model_cgr_fields /\ fpc_dynbond_fields = model_dynbond_fields /\
  (* the spelling of a bond *)
  forallb (fun p => String.eqb (spell_bond_of (fst p)) (snd p)) fpc_bond_spelling = true /\
  (forall o, ~ In o (map fst fpc_bond_spelling) -> spell_bond_of o = fpc_bond_default).
Proof.
  split; [reflexivity|]. split; [reflexivity|]. split; [reflexivity|]. split; [intros; reflexivity|].
  split; [reflexivity|]. split; [reflexivity|]. split; [reflexivity|]. split; [reflexivity|]. split; [reflexivity|].
  intros o H. cbn in H. unfold spell_bond_of.
  destruct (o =? 4) eqn:E4; [apply Z.eqb_eq in E4; lia|].
  destruct (o =? 1) eqn:E1; [apply Z.eqb_eq in E1; lia|].
  destruct (o =? 2) eqn:E2; [apply Z.eqb_eq in E2; lia|].
  destruct (o =? 3) eqn:E3; [apply Z.eqb_eq in E3; lia|]. reflexivity.
Qed.
