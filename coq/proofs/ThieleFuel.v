(* C05 -- fuel sufficiency of the pruning loop of Thiele.thiele (`while True: n = next(n for n, ms in rings.items() if len(ms) == 1)`):
   Model.Thiele.prune is a fuelled function called with fuel S (number of skeleton atoms); its out-of-fuel value Err OtherError
   is excluded by a THEOREM, for all inputs of thiele_model / thiele_model_t (not by observation):
   every iteration deletes a key with a non-empty set, sets only shrink and re-created keys (defaultdict) are empty, so the
   number of non-empty entries strictly decreases; keys stay distinct (the skeleton is a dict). *)
From Coq Require Import ZArith List Bool Lia Arith.
From Model Require Import PyBase Graph Kekule Thiele.
From Gen Require Import ThieleCls ThielePost.
From Proofs Require Import KekuleGenTie ThielePostTie.
Import ListNotations.
Open Scope Z_scope.

Definition ne_count (d : adjl) : nat := List.length (filter (fun nl => nonempty (snd nl)) d).
Definition kn (d : adjl) : Prop := NoDup (keys d).

Lemma al_has_in d x : al_has d x = true <-> In x (keys d).
Proof.
  unfold al_has. induction d as [|[k l] r IH]; simpl; [split; [discriminate|tauto]|].
  destruct (Z.eqb_spec x k); [subst; split; auto|]. rewrite IH. split; [auto|intros [H|H]; [congruence|exact H]].
Qed.
Lemma al_has_notin d x : al_has d x = false -> ~ In x (keys d).
Proof. intros H I. apply al_has_in in I. congruence. Qed.

(* al_upd keeps the keys; with a shrinking function it does not create non-empty entries *)
Lemma keys_al_upd d n f : keys (al_upd d n f) = keys d.
Proof. unfold keys. induction d as [|[k l] r IH]; simpl; [reflexivity|]. destruct (k =? n); simpl; [reflexivity|]. f_equal. exact IH. Qed.
Lemma ne_al_upd d n f : (forall l, nonempty (f l) = true -> nonempty l = true) -> (ne_count (al_upd d n f) <= ne_count d)%nat.
Proof.
  intros Hf. unfold ne_count. induction d as [|[k l] r IH]; simpl; [lia|].
  destruct (k =? n); simpl.
  - specialize (Hf l). destruct (nonempty (f l)); destruct (nonempty l); simpl; try lia; try discriminate (Hf eq_refl).
  - destruct (nonempty l); simpl; lia.
Qed.
Lemma remove_first_shrinks n l : nonempty (remove_first n l) = true -> nonempty l = true.
Proof. destruct l; simpl; [discriminate|reflexivity]. Qed.
Lemma kn_discard d m n : kn d -> kn (ds_discard d m n).
Proof. unfold kn, ds_discard. rewrite keys_al_upd. exact id. Qed.
Lemma ne_discard d m n : (ne_count (ds_discard d m n) <= ne_count d)%nat.
Proof. apply ne_al_upd. apply remove_first_shrinks. Qed.

(* ds_del removes the (only) entry of a key *)
Lemma keys_ds_del_incl d n x : In x (keys (ds_del d n)) -> In x (keys d).
Proof.
  induction d as [|[k l] r IH]; simpl; [tauto|]. destruct (k =? n); simpl; [auto|]. intros [H|H]; [auto|right; apply IH; exact H].
Qed.
Lemma kn_del d n : kn d -> kn (ds_del d n).
Proof.
  unfold kn. induction d as [|[k l] r IH]; simpl; [exact id|]. intros H. inversion H as [|? ? Hn Hr]; subst.
  destruct (k =? n); simpl; [exact Hr|]. constructor; [|apply IH; exact Hr].
  intros I. apply Hn. apply (keys_ds_del_incl r n). exact I.
Qed.
Lemma ne_del_le d n : (ne_count (ds_del d n) <= ne_count d)%nat.
Proof.
  unfold ne_count. induction d as [|[k l] r IH]; simpl; [lia|]. destruct (k =? n); simpl; destruct (nonempty l); simpl; lia.
Qed.
Lemma ne_del_lt d n ms : kn d -> In (n, ms) d -> nonempty ms = true -> (ne_count (ds_del d n) < ne_count d)%nat.
Proof.
  unfold kn, ne_count. induction d as [|[k l] r IH]; simpl; [tauto|]. intros H I Hne. inversion H as [|? ? Hn Hr]; subst.
  destruct (Z.eqb_spec k n) as [E|E].
  - subst k. destruct I as [I|I].
    + inversion I; subst. rewrite Hne. simpl. lia.
    + exfalso. apply Hn. change (In (fst (n, ms)) (map fst r)). apply in_map. exact I.
  - destruct I as [I|I]; [inversion I; congruence|]. simpl. specialize (IH Hr I Hne). destruct (nonempty l); simpl; lia.
Qed.

Lemma NoDup_app_intro_one {A} (l : list A) (x : A) : NoDup l -> ~ In x l -> NoDup (l ++ [x]).
Proof.
  induction l as [|y r IH]; simpl; intros H N; [constructor; [tauto|constructor]|].
  inversion H as [|? ? Hn Hr]; subst. constructor.
  - intros I. apply in_app_or in I. destruct I as [I|[I|[]]]; [tauto|subst; tauto].
  - apply IH; tauto.
Qed.
(* a key the defaultdict re-creates is new and empty *)
Lemma kn_app_new d x : kn d -> al_has d x = false -> kn (d ++ [(x, [])]).
Proof.
  unfold kn, keys. intros H A. rewrite map_app. simpl. apply NoDup_app_intro_one. - exact H. - apply al_has_notin. exact A.
Qed.
Lemma ne_app_empty d x : ne_count (d ++ [(x, [])]) = ne_count d.
Proof. unfold ne_count. rewrite filter_app. simpl. rewrite app_nil_r. reflexivity. Qed.

Definition readd (m : Z) (d : adjl) (x : Z) : adjl := if al_has d x then ds_discard d x m else d ++ [(x, [])].
Lemma readd_inv m pm : forall d, kn d -> kn (fold_left (readd m) pm d) /\ (ne_count (fold_left (readd m) pm d) <= ne_count d)%nat.
Proof.
  induction pm as [|x r IH]; simpl; intros d H; [split; [exact H|lia]|].
  assert (K : kn (readd m d x) /\ (ne_count (readd m d x) <= ne_count d)%nat).
  { unfold readd. destruct (al_has d x) eqn:A.
    - split; [apply kn_discard; exact H|apply ne_discard].
    - split; [apply kn_app_new; assumption|rewrite ne_app_empty; lia]. }
  destruct K as [K1 K2]. destruct (IH _ K1) as [I1 I2]. split; [exact I1|lia].
Qed.

Lemma filter_head {A} (f : A -> bool) l x r : filter f l = x :: r -> In x l /\ f x = true.
Proof. intros E. assert (I : In x (filter f l)) by (rewrite E; left; reflexivity). apply filter_In in I. exact I. Qed.

(* the pruning loop never runs out of fuel *)
Theorem prune_fuel : forall fuel pyr d, kn d -> (ne_count d < fuel)%nat -> prune fuel pyr d <> Err OtherError.
Proof.
  induction fuel as [|f IH]; intros pyr d K L; [lia|].
  simpl. destruct (filter _ d) as [|[n ms] r] eqn:F; [discriminate|].
  apply filter_head in F. destruct F as [I Leaf]. simpl in Leaf.
  assert (Hne : nonempty ms = true) by (destruct ms; [discriminate Leaf|reflexivity]).
  pose proof (ne_del_lt d n ms K I Hne) as D. pose proof (kn_del d n K) as K1.
  destruct (zmem n pyr).
  - apply IH.
    + destruct (al_has (ds_del d n) (hd 0 ms)) eqn:A; [apply kn_discard; exact K1|apply kn_app_new; assumption].
    + destruct (al_has (ds_del d n) (hd 0 ms)); [pose proof (ne_discard (ds_del d n) (hd 0 ms) n); lia|rewrite ne_app_empty; lia].
  - destruct (negb (al_has (ds_del d n) (hd 0 ms))); [discriminate|].
    destruct (readd_inv (hd 0 ms) (remove_first n (al_get (ds_del d n) (hd 0 ms))) (ds_del (ds_del d n) (hd 0 ms)) (kn_del _ _ K1)) as [R1 R2].
    pose proof (ne_del_le (ds_del d n) (hd 0 ms)).
    apply IH; [exact R1|unfold readd in R2; lia].
Qed.

(* ---------------- the skeleton thiele() builds has distinct keys ---------------- *)
Lemma keys_ds_add d n m : keys (ds_add d n m) = if al_has d n then keys d else keys d ++ [n].
Proof.
  unfold al_has, keys. induction d as [|[k l] r IH]; simpl; [reflexivity|].
  rewrite (Z.eqb_sym n k). destruct (k =? n); simpl; [reflexivity|]. rewrite IH.
  destruct (zget r n); reflexivity.
Qed.
Lemma kn_ds_add d n m : kn d -> kn (ds_add d n m).
Proof.
  unfold kn. rewrite keys_ds_add. destruct (al_has d n) eqn:A; [exact id|]. intros H.
  apply NoDup_app_intro_one; [exact H|apply al_has_notin; exact A].
Qed.
Lemma kn_add_ring d r : kn d -> kn (add_ring d r).
Proof.
  unfold add_ring. generalize (ring_pairs r). intros ps. revert d. induction ps as [|p q IH]; simpl; intros d H; [exact H|].
  apply IH. unfold ds_add2. apply kn_ds_add. apply kn_ds_add. exact H.
Qed.

Lemma kn_ring_step g s ring : kn (t_rings s) -> kn (t_rings (ring_step g s ring)).
Proof.
  intros H. unfold ring_step. cbv zeta.
  repeat match goal with
         | |- kn (t_rings (if ?b then _ else _)) => destruct b
         | |- kn (t_rings (match ?l with [] => _ | _ :: _ => _ end)) => destruct l
         end; simpl; try exact H; apply kn_add_ring; exact H.
Qed.
Lemma kn_ring_loop g sssr : forall s, kn (t_rings s) -> kn (t_rings (fold_left (ring_step g) sssr s)).
Proof. induction sssr as [|r q IH]; simpl; intros s H; [exact H|]. apply IH. apply kn_ring_step. exact H. Qed.

Lemma kn_ring_step_t g s ring : kn (t_rings (tt_base s)) -> kn (t_rings (tt_base (ring_step_t g s ring))).
Proof.
  intros H. pose proof (kn_ring_step g (tt_base s) ring H) as B. unfold ring_step_t. cbv zeta.
  repeat match goal with
         | |- kn (t_rings (tt_base (if ?b then _ else _))) => destruct b
         | |- kn (t_rings (tt_base (match ?l with [] => _ | _ :: _ => _ end))) => destruct l
         end; simpl; try exact H; exact B.
Qed.
Lemma kn_ring_loop_t g sssr : forall s, kn (t_rings (tt_base s)) -> kn (t_rings (tt_base (fold_left (ring_step_t g) sssr s))).
Proof. induction sssr as [|r q IH]; simpl; intros s H; [exact H|]. apply IH. apply kn_ring_step_t. exact H. Qed.

Lemma kn_drop_atom d n : kn d -> kn (drop_atom d n).
Proof.
  intros H. unfold drop_atom. generalize (al_get d n). intros ms. pose proof (kn_del d n H) as K. revert K. generalize (ds_del d n).
  induction ms as [|m r IH]; simpl; intros e K; [exact K|]. apply IH. apply kn_discard. exact K.
Qed.
Lemma kn_drop_atoms dbl : forall d, kn d -> kn (fold_left drop_atom dbl d).
Proof. induction dbl as [|n r IH]; simpl; intros d H; [exact H|]. apply IH. apply kn_drop_atom. exact H. Qed.
Lemma kn_filter (f : Z * list Z -> bool) d : kn d -> kn (filter f d).
Proof.
  unfold kn, keys. induction d as [|[k l] r IH]; simpl; [exact id|]. intros H. inversion H as [|? ? Hn Hr]; subst.
  destruct (f (k, l)); simpl; [|apply IH; exact Hr]. constructor; [|apply IH; exact Hr].
  intros I. apply Hn. apply in_map_iff in I. destruct I as [x [E I]]. apply filter_In in I. destruct I as [I _].
  rewrite <- E. apply in_map. exact I.
Qed.
Lemma ne_filter_all d : ne_count (filter (fun nl => nonempty (snd nl)) d) = List.length (filter (fun nl => nonempty (snd nl)) d).
Proof.
  unfold ne_count. f_equal. induction d as [|x r IH]; simpl; [reflexivity|].
  destruct (nonempty (snd x)) eqn:E; simpl; [rewrite E, IH; reflexivity|exact IH].
Qed.

(* everything of thiele() after the hydrogen-moving search: the out-of-fuel value cannot come out *)
Lemma tail_no_fuel_error gt s rings0 dbl pyr rings2 fok :
  kn rings0 -> thiele_tail_src gt s rings0 dbl pyr rings2 fok <> Err OtherError.
Proof.
  intros K. unfold thiele_tail_src. cbv zeta. rewrite gen_prune_eq.
  destruct dbl as [|n0 dr].
  - destruct (gen_tp_stop _); discriminate.
  - set (d2 := filter (fun nl => nonempty (snd nl)) (fold_left drop_atom (n0 :: dr) rings0)).
    assert (K2 : kn d2) by (apply kn_filter; apply kn_drop_atoms; exact K).
    assert (N2 : (ne_count d2 < S (List.length d2))%nat) by (unfold d2; rewrite ne_filter_all; lia).
    pose proof (prune_fuel (S (List.length d2)) pyr d2 K2 N2) as P.
    destruct d2 as [|e er]; [discriminate|].
    destruct (prune (S (List.length (e :: er))) pyr (e :: er)) as [[|x y]|err].
    + discriminate.
    + destruct (gen_tp_stop _); discriminate.
    + intros E. apply P. inversion E. reflexivity.
Qed.

Theorem thiele_model_no_fuel_error : forall g sssr rings2 fok, thiele_model g sssr rings2 fok <> Err OtherError.
Proof.
  intros. rewrite <- gen_thiele_model_eq. unfold thiele_model_src. cbv zeta.
  rewrite (fold_ext _ _ (gen_ring_step_eq g)).
  pose proof (kn_ring_loop g sssr (mkTh1 [] [] [] []) (NoDup_nil Z)) as K.
  destruct (t_rings (fold_left (ring_step g) sssr (mkTh1 [] [] [] []))) as [|x0 l] eqn:E; [discriminate|].
  apply tail_no_fuel_error. exact K.
Qed.

Theorem thiele_model_t_no_fuel_error : forall g sssr ords rings2 fok, thiele_model_t g sssr ords rings2 fok <> Err OtherError.
Proof.
  intros. rewrite <- gen_thiele_model_t_eq. unfold thiele_model_t_src. cbv zeta.
  rewrite (fold_ext _ _ (gen_ring_step_t_eq g)).
  pose proof (kn_ring_loop_t g sssr (mkTh1t (mkTh1 [] [] [] []) [] []) (NoDup_nil Z)) as K.
  generalize dependent (fold_left (ring_step_t g) sssr (mkTh1t (mkTh1 [] [] [] []) [] [])). intros st K.
  destruct (t_rings (tt_base st)) as [|x0 l] eqn:E; [discriminate|].
  destruct (tt_acc st) as [|a0 al]; destruct (tt_don st) as [|d0 dl]; try (apply tail_no_fuel_error; exact K).
  destruct (taut_donors_src _ ords _ (d0 :: dl) g (a0 :: al) (t_pyr (tt_base st))) as [[gt a] pyr].
  apply tail_no_fuel_error. exact K.
Qed.

(* non-vacuity: a skeleton on which the loop really prunes (a benzene ring with a two-atom tail: both tail atoms go) *)
Example prune_runs :
  prune 9 [] [(1, [2; 6]); (2, [1; 3]); (3, [2; 4]); (4, [3; 5]); (5, [4; 6]); (6, [5; 1; 7]); (7, [6; 8]); (8, [7])] =
  Ok [(1, [2; 6]); (2, [1; 3]); (3, [2; 4]); (4, [3; 5]); (5, [4; 6]); (6, [5; 1])].
Proof. vm_compute. reflexivity. Qed.
