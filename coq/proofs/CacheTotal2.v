(* C13 -- totality of union (formerly compared / searched only): with a settled partner (the first of the other live molecules, not
   inside a transaction), overlapping numbers only together with remap=True, and - for copy=True - a current molecule that is not
   inside a transaction, union raises nothing: both copies succeed (labels and ring marks present: freshness invariant FW) and the
   renumbering {atom of the copy -> max(self) + 1 ..} never overlaps. *)
From Coq Require Import ZArith List Bool Lia.
From Model Require Import PyBase Cache.
From Proofs Require Import CacheProofs CacheWf CacheCopy CacheCopyTotal CacheCoh CacheWorld CacheUnion CacheTheorems CacheUsable CacheExamples CacheTxn
  CacheFresh CacheFreshOps CacheFreshWorld CacheFreshUnion CacheUsable2 CacheUsable3 CacheTotal.
Import ListNotations.
Open Scope Z_scope.

Lemma remap_act_exact mp h o : snd (remap mp h o) = if remap_overlap mp o then Some ValueError else None.
Proof. unfold remap, remap_overlap. destruct (negb (nodup_z (map snd mp)) || _); reflexivity. Qed.

Lemma snd_combine (ks vs : list Z) : length vs = length ks -> map snd (combine ks vs) = vs.
Proof.
  revert vs. induction ks as [|k t IH]; intros [|v vs] L; simpl in *; try discriminate; [reflexivity|]. f_equal. apply IH. lia.
Qed.
Lemma fst_combine (ks vs : list Z) : length vs = length ks -> keys (combine ks vs) = ks.
Proof.
  revert vs. induction ks as [|k t IH]; intros [|v vs] L; simpl in *; try discriminate; [reflexivity|]. f_equal. apply IH. lia.
Qed.
Lemma zrange_from_NoDup n : forall s, NoDup (zrange_from s n).
Proof.
  induction n as [|n IH]; intros s; simpl; constructor; [|apply IH]. intros H. apply zrange_from_In in H. lia.
Qed.
Lemma union_mapping_fine st o :
  remap_overlap (combine (keys (o_atoms o)) (zrange_from st (length (o_atoms o)))) o = false.
Proof.
  assert (length (zrange_from st (length (o_atoms o))) = length (keys (o_atoms o))) as L
    by (rewrite zrange_from_length; unfold keys; now rewrite map_length).
  unfold remap_overlap. rewrite (snd_combine _ _ L), (fst_combine _ _ L).
  rewrite (NoDup_nodup_z _ (zrange_from_NoDup _ _)). simpl. apply not_true_is_false. intros H.
  apply existsb_exists in H. destruct H as [n [Hn Hc]]. apply andb_prop in Hc. destruct Hc as [H1 _].
  apply negb_true_iff in H1. apply zmem_false_notin in H1. contradiction.
Qed.

Lemma settled_copy ks kc h o : U h o -> Fr h o -> o_backup o = None -> exists h1 b, copy_mol ks kc h o = Ok (h1, b).
Proof.
  intros [[Wf _] _] F B. destruct (Fr_settled _ _ F B) as [_ [Bo OK]]. apply copy_mol_total; [exact Wf | | exact Bo].
  intros n a Ha. destruct (OK n a Ha) as [_ [l [_ E]]]. congruence.
Qed.

Theorem union_total rmp cp s other rest : FW s -> s_others s = other :: rest -> o_backup other = None ->
  (existsb (fun n => zmem n (keys (o_atoms other))) (keys (o_atoms (s_cur s))) = true -> rmp = true) ->
  (cp = true -> o_backup (s_cur s) = None) ->
  snd (union rmp cp s) = None.
Proof.
  intros Fs Eo Bo Hc Hcp. pose proof (proj1 Fs) as Ws. pose proof (W_cur s Ws) as Uc. pose proof (FW_cur s Fs) as Fc.
  destruct s as [h self others]. cbn [s_heap s_cur s_others] in *. subst others. unfold union. cbn [s_heap s_cur s_others].
  assert (In other (units (mkS h self (other :: rest)))) as Hin.
  { apply in_flat_map. exists other. split; [right; now left | now left]. }
  assert (U h other) as Uot by (destruct Ws as [F _]; rewrite Forall_forall in F; now apply F).
  assert (Fr h other) as Fot by (destruct Fs as [_ F]; rewrite Forall_forall in F; now apply F).
  set (collide := existsb (fun n => zmem n (keys (o_atoms other))) (keys (o_atoms self))) in *.
  assert (collide && negb rmp = false) as -> by (destruct collide; [rewrite Hc; reflexivity | reflexivity]).
  destruct (settled_copy false false h other Uot Fot Bo) as [h1 [oc Ec]]. rewrite Ec.
  destruct (copy_mol_spec _ _ _ _ _ _ (proj1 (proj1 Uot)) Ec) as [cb [Eoc [_ [X1 _]]]].
  assert (exists oc', (if collide then remap (combine (keys (o_atoms oc)) (zrange_from (zmax (keys (o_atoms self)) 0 + 1) (length (o_atoms oc)))) h1 oc
                       else ok h1 oc) = (h1, oc', None)) as [oc' ->].
  { destruct collide; [|eexists; reflexivity]. set (mp := combine _ _).
    pose proof (remap_act_exact mp h1 oc) as Ex. pose proof (remap_spec mp h1 oc) as Sp. unfold mp in Ex at 2. rewrite union_mapping_fine in Ex.
    destruct (remap mp h1 oc) as [[h2 oc'] e2]. destruct Sp as [-> _]. cbn [snd] in Ex. subst e2. eexists. reflexivity. }
  destruct cp.
  - assert (U h1 self) as Us1 by (eapply hext_U; eauto).
    assert (Fr h1 self) as Fs1.
    { pose proof (Fr_heap_ext _ h1 Fs X1) as F. rewrite Forall_forall in F. apply F. rewrite units_cons. now left. }
    destruct (settled_copy false false h1 self Us1 Fs1 (Hcp eq_refl)) as [h3 [u Eu]]. rewrite Eu. reflexivity.
  - reflexivity.
Qed.

(* non-vacuity: CCO | [NH4+]-like second molecule under the same numbers: refused without remap, fine with it (copy and in place) *)
Example union_total_example :
  let s := init [(1, mkCore 6 None 0 false); (2, mkCore 8 None 0 false)] [(1, [(2, 1)]); (2, [(1, 1)])]
                [(1, mkCore 7 None 0 false)] [(1, [])] in
  snd (union false true s) = Some ValueError /\ snd (union true true s) = None /\ snd (union true false s) = None /\
  keys (o_atoms (s_cur (fst (union true false s)))) = [1; 2; 3].
Proof. vm_compute. repeat split; reflexivity. Qed.
