(* C15 -- the reaction-level cache stays coherent across the in-place standardisation methods: whenever a molecule
   reports a change the cached string / hash / condensed graph is dropped. *)
From Coq Require Import ZArith List Bool Lia.
From Model Require Import PyBase RxnCache.
Import ListNotations.
Open Scope Z_scope.

Lemma flag_any_acc results : forall acc, fold_left (fun (total r : bool) => if r then true else total) results acc = acc || existsb (fun r => r) results.
Proof.
  induction results as [|r results IH]; intros acc; cbn [fold_left existsb]; [rewrite orb_false_r; reflexivity|].
  rewrite IH. destruct r, acc; reflexivity.
Qed.

(* the flag is raised iff SOME molecule reported a change (not only the last one) *)
Theorem flag_any_spec results : flag_any results = true <-> exists r, In r results /\ r = true.
Proof.
  unfold flag_any. rewrite flag_any_acc. cbn [orb]. rewrite existsb_exists. split; intros [r [H1 H2]]; exists r; auto.
Qed.

Lemma fold_add_nonneg counts : Forall (fun n => 0 <= n) counts -> forall acc, 0 <= acc ->
  (fold_left Z.add counts acc = 0 <-> acc = 0 /\ Forall (fun n => n = 0) counts).
Proof.
  induction 1 as [|n counts Hn H IH]; intros acc Ha; cbn [fold_left].
  - split; [intros E; split; [exact E|constructor]|intros [E _]; exact E].
  - rewrite (IH (acc + n)) by lia. split.
    + intros [E F]. split; [lia|]. constructor; [lia|exact F].
    + intros [E F]. inversion F; subst. split; [lia|assumption].
Qed.

Theorem flag_count_spec counts : Forall (fun n => 0 <= n) counts -> (flag_count counts = false <-> Forall (fun n => n = 0) counts).
Proof.
  intros H. unfold flag_count. rewrite negb_false_iff, Z.eqb_eq. rewrite (fold_add_nonneg counts H 0) by lia. tauto.
Qed.

(* coherence: if the value can only have changed when some molecule reported a change, then after the method the
   cached_method returns the value of the CURRENT molecules, whatever was cached before *)
Theorem cache_coherent_flag {V : Type} results (cell : option V) (old new : V) :
  (cell = None \/ cell = Some old) -> ((forall r, In r results -> r = false) -> new = old) ->
  fst (cached_read (flush_if (flag_any results) cell) new) = new.
Proof.
  intros Hc Hu. destruct (flag_any results) eqn:F; cbn [flush_if]; [reflexivity|].
  destruct Hc as [->| ->]; [reflexivity|]. cbn [cached_read fst]. symmetry. apply Hu. intros r Hr.
  destruct r; [|reflexivity]. exfalso. assert (X : flag_any results = true) by (apply flag_any_spec; exists true; auto). congruence.
Qed.

Theorem cache_coherent_count {V : Type} counts (cell : option V) (old new : V) :
  Forall (fun n => 0 <= n) counts -> (cell = None \/ cell = Some old) -> (Forall (fun n => n = 0) counts -> new = old) ->
  fst (cached_read (flush_if (flag_count counts) cell) new) = new.
Proof.
  intros Hn Hc Hu. destruct (flag_count counts) eqn:F; cbn [flush_if]; [reflexivity|].
  destruct Hc as [->| ->]; [reflexivity|]. cbn [cached_read fst]. symmetry. apply Hu. apply flag_count_spec; assumption.
Qed.

(* non-vacuity, and the shape that matters: the change is reported by an EARLIER molecule, the last one reports none *)
Example cache_example :
  flag_any [true; false] = true /\ flag_any [false; false] = false /\ flag_count [0; 2; 0] = true /\
  fst (cached_read (flush_if (flag_any [true; false]) (Some 1)) 2) = 2 /\
  fst (cached_read (flush_if (flag_any [false; false]) (Some 1)) 1) = 1.
Proof. repeat split. Qed.
