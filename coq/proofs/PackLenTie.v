(* C10: MoleculeContainer.pack_len and ReactionContainer.pack_len translated from the sources (Gen.PackLenGen) are the
   hand-written models Pack.mol_pack_len / Pack.rxn_pack_len, for ALL byte strings (no range hypothesis: the offsets
   stay non-negative because every increment is a sum of `x & const`, floor halves and ceilings of non-negative numbers) *)
From Coq Require Import ZArith List Bool Lia ZifyBool.
From Model Require Import PyBase Pack PackTop PackLen.
From Gen Require Import PackLenGen.
Import ListNotations.
Open Scope Z_scope.

(* ---------- Python slices with non-negative bounds ---------- *)
Lemma py_slice_nonneg {A} (l : list A) i j : 0 <= i -> 0 <= j ->
  py_slice l i j = firstn (Z.to_nat j - Z.to_nat i) (skipn (Z.to_nat i) l).
Proof.
  intros Hi Hj. unfold py_slice.
  replace (i <? 0) with false by lia. replace (j <? 0) with false by lia.
  destruct (Z.min j (Z.of_nat (length l)) <=? Z.min i (Z.of_nat (length l))) eqn:E.
  - destruct (Z_le_gt_dec j i) as [Hji|Hji].
    + replace (Z.to_nat j - Z.to_nat i)%nat with 0%nat by lia. reflexivity.
    + rewrite skipn_all2 by lia. symmetry. apply firstn_nil.
  - assert (Hil : i < Z.of_nat (length l)) by lia.
    rewrite (Z.min_l i) by lia.
    destruct (Z_le_gt_dec j (Z.of_nat (length l))) as [Hjl|Hjl].
    + rewrite Z.min_l by lia. f_equal. lia.
    + rewrite Z.min_r by lia.
      rewrite !firstn_all2; [reflexivity | rewrite skipn_length; lia | rewrite skipn_length; lia].
Qed.

Lemma getb_skipn data n k : getb data (Z.of_nat n + Z.of_nat k) = nth_error (skipn n data) k.
Proof.
  unfold getb. replace (Z.of_nat n + Z.of_nat k <? 0) with false by lia.
  replace (Z.to_nat (Z.of_nat n + Z.of_nat k)) with (n + k)%nat by lia.
  revert data. induction n as [|n IH]; intros data; [reflexivity|].
  destruct data as [|x r]; cbn [skipn plus]; [destruct k; reflexivity | apply IH].
Qed.

Lemma be3_slice data sh : 0 <= sh -> be_bytes (py_slice data sh (sh + 3)) = be3 data sh.
Proof.
  intros H. rewrite py_slice_nonneg by lia.
  replace (Z.to_nat (sh + 3) - Z.to_nat sh)%nat with 3%nat by lia.
  unfold be3.
  replace sh with (Z.of_nat (Z.to_nat sh) + Z.of_nat 0) at 2 by lia.
  replace (sh + 1) with (Z.of_nat (Z.to_nat sh) + Z.of_nat 1) by lia.
  replace (sh + 2) with (Z.of_nat (Z.to_nat sh) + Z.of_nat 2) by lia.
  rewrite !getb_skipn.
  destruct (skipn (Z.to_nat sh) data) as [|a [|b [|c r]]]; cbn; lia.
Qed.

Lemma ceil8 x : py_ceil_div x 8 = (x + 7) / 8.
Proof. unfold py_ceil_div. pose proof (Z.div_mod (- x) 8). pose proof (Z.mod_pos_bound (- x) 8). pose proof (Z.div_mod (x + 7) 8). pose proof (Z.mod_pos_bound (x + 7) 8). lia. Qed.

Lemma ceil5 x : py_ceil_div x 5 = (x + 4) / 5.
Proof. unfold py_ceil_div. pose proof (Z.div_mod (- x) 5). pose proof (Z.mod_pos_bound (- x) 5). pose proof (Z.div_mod (x + 4) 5). pose proof (Z.mod_pos_bound (x + 4) 5). lia. Qed.

(* ---------- MoleculeContainer.pack_len ---------- *)
Theorem gen_mol_pack_len_is_model dec data : gen_mol_pack_len dec false data = mol_pack_len data.
Proof.
  unfold gen_mol_pack_len, mol_pack_len, py_index. destruct (getb data 0) as [v|] eqn:E0; [|reflexivity]. cbn [bind].
  unfold zmem. cbn [existsb]. rewrite orb_false_r.
  destruct (negb ((v =? 0) || (v =? 2))); [reflexivity|]. f_equal. f_equal.
  rewrite py_slice_nonneg by lia. change (Z.to_nat 3 - Z.to_nat 1)%nat with 2%nat. change (Z.to_nat 1) with 1%nat.
  assert (H1 : getb data 1 = nth_error (skipn 1 data) 0) by exact (getb_skipn data 1 0).
  assert (H2 : getb data 2 = nth_error (skipn 1 data) 1) by exact (getb_skipn data 1 1).
  rewrite H1, H2. destruct (skipn 1 data) as [|a [|b r]]; cbn; lia.
Qed.

(* ---------- ReactionContainer.pack_len ---------- *)
(* the inner loop IS sum_ngb *)
Lemma inner_loop data : forall k nb sh,
  for_range k (fun '(neighbors, shift) => bind (py_index data shift)
      (fun t7 => let neighbors := neighbors + Z.land t7 15 in let shift := shift + 9 in Ok (neighbors, shift))) (nb, sh)
  = sum_ngb data k sh nb.
Proof.
  induction k as [|k IH]; intros nb sh; [reflexivity|].
  cbn [for_range sum_ngb]. unfold py_index at 1. destruct (getb data sh) as [b|]; cbn [bind]; [apply IH | reflexivity].
Qed.

Lemma sum_ngb_shape data : forall k sh acc a' sh', sum_ngb data k sh acc = Ok (a', sh') -> 0 <= acc -> sh' = sh + 9 * Z.of_nat k /\ 0 <= a'.
Proof.
  induction k as [|k IH]; intros sh acc a' sh' H Ha; cbn [sum_ngb] in H.
  - injection H as H1 H2. subst. lia.
  - destruct (getb data sh) as [b|]; [|discriminate]. apply IH in H; [lia|].
    pose proof (Z.land_nonneg b 15). lia.
Qed.

(* the generated body of the outer loop *)
Definition len_body (data : list Z) (v : Z) : Z * list Z -> pyres (Z * list Z) :=
  fun '(shift, molecules) =>
    let acs := be_bytes (py_slice data shift (shift + 3)) in let neighbors := 0 in let ac := Z.shiftr acs 12 in let shift := shift + 4 in
    bind (for_range (Z.to_nat ac) (fun '(neighbors, shift) => bind (py_index data shift)
            (fun t7 => let neighbors := neighbors + Z.land t7 15 in let shift := shift + 9 in Ok (neighbors, shift))) (neighbors, shift))
         (fun '(neighbors, shift) => let neighbors := neighbors / 2 in
            if v =? 2 then let shift := shift + (3 * neighbors + py_ceil_div (neighbors * 3) 8 + Z.land acs 4095 * 4) in
                           let molecules := molecules ++ [ac] in Ok (shift, molecules)
            else if v =? 0 then let shift := shift + (3 * neighbors + py_ceil_div neighbors 5 * 2 + Z.land acs 4095 * 4) in
                                let molecules := molecules ++ [ac] in Ok (shift, molecules)
            else let molecules := molecules ++ [ac] in Ok (shift, molecules)).

Lemma outer_loop data v : forall n sh acc, 0 <= sh ->
  for_range n (len_body data v) (sh, acc) =
    match rxn_len_walk data v n sh with Ok (l, shf) => Ok (shf, acc ++ l) | Err e => Err e end /\
  (forall l shf, rxn_len_walk data v n sh = Ok (l, shf) -> 0 <= shf).
Proof.
  induction n as [|n IH]; intros sh acc Hsh.
  - cbn. rewrite app_nil_r. split; [reflexivity|]. intros l shf H. injection H as H1 H2. lia.
  - cbn [for_range rxn_len_walk]. unfold len_body at 1. cbv zeta.
    rewrite be3_slice by exact Hsh. rewrite inner_loop.
    set (acs := be3 data sh). set (ac := Z.shiftr acs 12).
    destruct (sum_ngb data (Z.to_nat ac) (sh + 4) 0) as [[ngb sh1]|e] eqn:Es; cbn [bind]; [|split; [reflexivity | discriminate]].
    destruct (sum_ngb_shape data _ _ _ _ _ Es ltac:(lia)) as [Hsh1 Hngb].
    assert (Hnb : 0 <= ngb / 2) by (apply Z.div_pos; lia).
    pose proof (Z.land_nonneg acs 4095) as Hl.
    assert (Hc8 : 0 <= (ngb / 2 * 3 + 7) / 8) by (apply Z.div_pos; lia).
    assert (Hc5 : 0 <= (ngb / 2 + 4) / 5) by (apply Z.div_pos; lia).
    rewrite ceil8, ceil5.
    set (sh2 := if v =? 2 then sh1 + 3 * (ngb / 2) + (ngb / 2 * 3 + 7) / 8 + Z.land acs 4095 * 4
                else if v =? 0 then sh1 + 3 * (ngb / 2) + (ngb / 2 + 4) / 5 * 2 + Z.land acs 4095 * 4 else sh1).
    assert (Hsh2 : 0 <= sh2) by (subst sh2; destruct (v =? 2); [lia|]; destruct (v =? 0); lia).
    assert (Estep : (if v =? 2 then Ok (sh1 + (3 * (ngb / 2) + (ngb / 2 * 3 + 7) / 8 + Z.land acs 4095 * 4), acc ++ [ac])
                     else if v =? 0 then Ok (sh1 + (3 * (ngb / 2) + (ngb / 2 + 4) / 5 * 2 + Z.land acs 4095 * 4), acc ++ [ac])
                     else Ok (sh1, acc ++ [ac])) = (Ok (sh2, acc ++ [ac]) : pyres (Z * list Z))).
    { subst sh2. destruct (v =? 2); [f_equal; f_equal; lia|]. destruct (v =? 0); [f_equal; f_equal; lia | reflexivity]. }
    rewrite Estep. destruct (IH sh2 (acc ++ [ac]) Hsh2) as [IH1 IH2]. rewrite IH1. fold sh2.
    destruct (rxn_len_walk data v n sh2) as [[l shf]|e] eqn:Ew.
    + split; [rewrite <- app_assoc; reflexivity|]. intros l' shf' H. injection H as H1 H2. subst. apply (IH2 l shf'). reflexivity.
    + split; [reflexivity | discriminate].
Qed.

Theorem gen_rxn_pack_len_is_model dec data : gen_rxn_pack_len dec false data = rxn_pack_len data.
Proof.
  unfold gen_rxn_pack_len, rxn_pack_len, py_index.
  destruct (getb data 0) as [h|]; [|reflexivity]. cbn [bind].
  destruct (negb (h =? 1)) eqn:Eh.
  { destruct (getb data 1), (getb data 2), (getb data 3); reflexivity. }
  destruct (getb data 1) as [r|]; [|reflexivity]. cbn [bind].
  destruct (getb data 2) as [a|]; [|reflexivity]. cbn [bind].
  destruct (getb data 3) as [p|]; [|reflexivity]. cbn [bind]. cbv zeta.
  destruct (getb data 4) as [v|]; [|reflexivity]. cbn [bind].
  change (for_range ?n _ (5, [])) with (for_range n (len_body data v) (5, [])).
  destruct (outer_loop data v (Z.to_nat (r + a + p - 1)) 5 [] ltac:(lia)) as [W1 W2]. rewrite W1.
  destruct (rxn_len_walk data v (Z.to_nat (r + a + p - 1)) 5) as [[ms sh]|e]; [|reflexivity]. cbn [bind app].
  specialize (W2 ms sh eq_refl). rewrite be3_slice by exact W2.
  unfold py_truthy, rxn_split, py_from.
  destruct (r =? 0), (a =? 0), (p =? 0); cbn [negb orb andb]; reflexivity.
Qed.
