(* C08 -- denotation of branched SMARTS patterns at the token level.  A pattern is a tree: an atom followed by parenthesised
   branches "(" bond? tree ")" and at most one continuation  bond? tree.  parser(tokens, False) numbers the atoms in the order
   written and bonds every atom to its parent in the tree with the value of its bond token (single when there is none). *)
From Coq Require Import ZArith List String Ascii Bool Lia.
From Gen Require Import Elements TokenTables SmartsTables.
From Model Require Import PyBase Graph PeriodicTable Tokenize Smarts Query SmartsFull.
From Model Require Parser.
From Proofs Require Import SmartsDenote.
Import ListNotations.
Open Scope Z_scope.
Import Parser.

Inductive tree := Node (p : Query.parsed) (kids : forest)
with forest :=
| FNil
| FBranch (b : option token) (t : tree) (rest : forest)       (* "(" b t ")" rest *)
| FNext (b : option token) (t : tree).                         (* b t : the continuation of the chain *)
Scheme tree_mind := Induction for tree Sort Prop
with forest_mind := Induction for forest Sort Prop.
Combined Scheme tree_forest_mind from tree_mind, forest_mind.

Definition optb (b : option token) : list token := match b with Some t => [t] | None => [] end.
Fixpoint tok_tree (t : tree) : list token :=
  match t with Node p f => atom_token (p_stereo p) :: tok_forest f end
with tok_forest (f : forest) : list token :=
  match f with
  | FNil => []
  | FBranch b t r => ((2, PNone) :: optb b ++ tok_tree t ++ (3, PNone) :: tok_forest r)%list
  | FNext b t => (optb b ++ tok_tree t)%list
  end.
Fixpoint atoms_tree (t : tree) : list Query.parsed :=
  match t with Node p f => p :: atoms_forest f end
with atoms_forest (f : forest) : list Query.parsed :=
  match f with
  | FNil => []
  | FBranch _ t r => (atoms_tree t ++ atoms_forest r)%list
  | FNext _ t => atoms_tree t
  end.
Definition size_tree (t : tree) : Z := Z.of_nat (List.length (atoms_tree t)).
Definition size_forest (f : forest) : Z := Z.of_nat (List.length (atoms_forest f)).
Definition kids_of (t : tree) : forest := match t with Node _ f => f end.

(* the bonds of a forest whose trees hang on atom `parent`, its first atom being number `start` *)
Fixpoint bonds_tree (t : tree) (b : option token) (parent start : Z) : list (Z * Z * payload) :=
  match t with Node _ f => (start, parent, bond_value b) :: bonds_forest f start (start + 1) end
with bonds_forest (f : forest) (parent start : Z) : list (Z * Z * payload) :=
  match f with
  | FNil => []
  | FBranch b t r => (bonds_tree t b parent start ++ bonds_forest r parent (start + size_tree t))%list
  | FNext b t => bonds_tree t b parent start
  end.
(* the atom the chain ends on (ps_last after the forest) *)
Fixpoint last_tree (t : tree) (start : Z) : Z :=
  match t with Node _ f => last_forest f start (start + 1) end
with last_forest (f : forest) (parent start : Z) : Z :=
  match f with
  | FNil => parent
  | FBranch _ t r => last_forest r parent (start + size_tree t)
  | FNext _ t => last_tree t start
  end.

Fixpoint ok_tree (t : tree) : Prop := match t with Node _ f => ok_forest f end
with ok_forest (f : forest) : Prop :=
  match f with
  | FNil => True
  | FBranch b t r => match b with Some x => is_bond_tok x | None => True end /\ ok_tree t /\ ok_forest r
  | FNext b t => match b with Some x => is_bond_tok x | None => True end /\ ok_tree t
  end.

(* the state of the parser between two items *)
Definition TI (k : Z) (bs : list (Z * Z * payload)) (st : list Z) (last : Z) (s : pstate) : Prop :=
  1 <= k /\ ps_n s = k /\ ps_last s = last /\ 0 <= last < k /\ Z.of_nat (List.length (ps_atoms s)) = k /\
  ps_types s = repeat 0 (List.length (ps_atoms s)) /\
  ps_bonds s = bs /\ ps_stack s = st /\ ps_cycles s = [] /\ ps_sbonds s = [] /\ ps_prev s = None.

Lemma TI_type_at k bs st last s : TI k bs st last s -> type_at s (ps_last s) = Ok 0.
Proof.
  intros [H1 [H2 [H3 [H4 [H5 [H6 _]]]]]]. unfold type_at. rewrite H3, H6.
  destruct (last <? 0) eqn:E; [apply Z.ltb_lt in E; lia|].
  rewrite nth_error_repeat; [reflexivity | lia].
Qed.

Lemma TI_bond_tok k bs st last s t : TI k bs st last s -> is_bond_tok t -> step false s t = Ok (set_prev s (Some t)).
Proof.
  intros [H1 [H2 [H3 [H4 [H5 [H6 [H7 [H8 [H9 [H10 H11]]]]]]]]]] Ht. unfold step.
  assert (Hat : ps_atoms s <> []) by (intros E; rewrite E in H5; cbn in H5; lia).
  destruct Ht as [[o ->]|[[l ->]|[l [r ->]]]]; cbn [Z.eqb Pos.eqb zmem existsb orb]; rewrite H11;
    (destruct (ps_atoms s); [congruence | reflexivity]).
Qed.

Lemma TI_atom k bs st last s b a : TI k bs st last s -> match b with Some t => is_bond_tok t | None => True end ->
  exists s', step false (set_prev s b) (0, PAtom a) = Ok s' /\ TI (k + 1) (bs ++ [(k, last, bond_value b)]) st k s'.
Proof.
  intros HC Hb. pose proof (TI_type_at _ _ _ _ _ HC) as HT.
  destruct HC as [H1 [H2 [H3 [H4 [H5 [H6 [H7 [H8 [H9 [H10 H11]]]]]]]]]].
  destruct s as [atoms types bonds order n lst stack cycles satoms sbonds prev lg].
  cbn [ps_n ps_last ps_atoms ps_types ps_bonds ps_stack ps_cycles ps_sbonds ps_prev] in *. subst.
  destruct atoms as [|a0 ar]; [cbn in H1; lia|].
  assert (Fin : forall bonds' order' sat,
            TI (Z.of_nat (List.length (a0 :: ar)) + 1) bonds' st (Z.of_nat (List.length (a0 :: ar)))
               (mkP ((a0 :: ar) ++ [mkAt (at_el a) (at_iso a) (at_map a) (at_chg a) (at_h a) None])
                    (repeat 0 (List.length (a0 :: ar)) ++ [0]) bonds' order' (Z.of_nat (List.length (a0 :: ar)) + 1)
                    (Z.of_nat (List.length (a0 :: ar))) st [] sat [] None lg)).
  { intros bonds' order' sat. unfold TI. cbn [ps_n ps_last ps_atoms ps_types ps_bonds ps_stack ps_cycles ps_sbonds ps_prev].
    repeat split; try lia.
    - rewrite app_length. cbn [List.length]. lia.
    - rewrite app_length. cbn [List.length]. change [0] with (repeat 0 1). rewrite <- repeat_app. reflexivity. }
  unfold step, set_prev. cbn [ps_n ps_last ps_atoms ps_types ps_bonds ps_stack ps_cycles ps_sbonds ps_prev ps_order ps_satoms ps_log].
  cbn [Z.eqb Pos.eqb zmem existsb orb].
  destruct b as [[bt bv]|].
  - destruct Hb as [[o E]|[[l E]|[l [r E]]]]; inversion E; subst; cbn [Z.eqb Pos.eqb zmem existsb orb bond_value];
      (eexists; split; [reflexivity | apply Fin]).
  - unfold type_at in HT |- *. cbn [ps_types ps_last] in HT |- *.
    destruct (last <? 0); [discriminate|].
    destruct (nth_error _ _) as [t|]; [|discriminate]. inversion HT; subst.
    eexists; split; [reflexivity | apply Fin].
Qed.

Lemma TI_open k bs st last s : TI k bs st last s -> exists s', step false s (2, PNone) = Ok s' /\ TI k bs (last :: st) last s'.
Proof.
  intros [H1 [H2 [H3 [H4 [H5 [H6 [H7 [H8 [H9 [H10 H11]]]]]]]]]]. unfold step. cbn [Z.eqb Pos.eqb]. rewrite H11.
  eexists. split; [reflexivity|]. destruct s. cbn in *. subst. unfold TI. cbn. repeat split; try lia; try reflexivity; try exact H6.
Qed.
Lemma TI_close k bs st last parent s : TI k bs (parent :: st) last s -> 0 <= parent < k ->
  exists s', step false s (3, PNone) = Ok s' /\ TI k bs st parent s'.
Proof.
  intros [H1 [H2 [H3 [H4 [H5 [H6 [H7 [H8 [H9 [H10 H11]]]]]]]]]] Hp. unfold step. cbn [Z.eqb Pos.eqb]. rewrite H11, H8.
  eexists. split; [reflexivity|]. destruct s. cbn in *. subst. unfold TI. cbn. repeat split; try lia; try reflexivity; try exact H6.
Qed.

Definition okb (b : option token) : Prop := match b with Some t => is_bond_tok t | None => True end.

Lemma loop_optb k bs st last s b X : TI k bs st last s -> okb b -> loop false s (optb b ++ X) = loop false (set_prev s b) X.
Proof.
  intros HT Hb. destruct b as [t|]; cbn [optb app].
  - cbn [loop]. rewrite (TI_bond_tok _ _ _ _ _ t HT Hb). reflexivity.
  - rewrite set_prev_same; [reflexivity|]. destruct HT as [_ [_ [_ [_ [_ [_ [_ [_ [_ [_ H]]]]]]]]]]. exact H.
Qed.

Lemma size_tree_node p f : size_tree (Node p f) = 1 + size_forest f.
Proof. unfold size_tree, size_forest. cbn [atoms_tree List.length]. lia. Qed.
Lemma size_forest_branch b t r : size_forest (FBranch b t r) = size_tree t + size_forest r.
Proof. unfold size_tree, size_forest. cbn [atoms_forest]. rewrite app_length. lia. Qed.
Lemma size_tree_pos t : 1 <= size_tree t.
Proof. destruct t. rewrite size_tree_node. unfold size_forest. lia. Qed.

Definition P_tree (t : tree) : Prop := forall b s k bs st parent rest, TI k bs st parent s -> okb b -> ok_tree t ->
  exists s', loop false (set_prev s b) (tok_tree t ++ rest) = loop false s' rest /\
             TI (k + size_tree t) (bs ++ bonds_tree t b parent k) st (last_tree t k) s'.
Definition P_forest (f : forest) : Prop := forall s k bs st parent rest, TI k bs st parent s -> ok_forest f ->
  exists s', loop false s (tok_forest f ++ rest) = loop false s' rest /\
             TI (k + size_forest f) (bs ++ bonds_forest f parent k) st (last_forest f parent k) s'.

Lemma tree_forest_loop : (forall t, P_tree t) /\ (forall f, P_forest f).
Proof.
  apply tree_forest_mind; unfold P_tree, P_forest.
  - (* Node *)
    intros p f IHf b s k bs st parent rest HT Hb Hok.
    destruct (TI_atom k bs st parent s b (mkAt ""%string None None 0 None (p_stereo p)) HT Hb) as [s1 [E1 T1]].
    cbn [tok_tree app loop]. unfold atom_token. rewrite E1.
    destruct (IHf s1 (k + 1) _ st k rest T1 Hok) as [s' [E' T']]. exists s'. split; [exact E'|].
    rewrite size_tree_node. cbn [bonds_tree last_tree]. rewrite <- app_assoc in T'. cbn [app] in T'.
    replace (k + (1 + size_forest f)) with (k + 1 + size_forest f) by lia. exact T'.
  - (* FNil *)
    intros s k bs st parent rest HT _. exists s. split; [reflexivity|].
    unfold size_forest. cbn [atoms_forest List.length bonds_forest last_forest]. rewrite app_nil_r, Z.add_0_r. exact HT.
  - (* FBranch *)
    intros b t IHt r IHr s k bs st parent rest HT [Hb [Ht Hr]].
    destruct (TI_open k bs st parent s HT) as [s1 [E1 T1]].
    cbn [tok_forest app loop]. rewrite E1. rewrite <- !app_assoc. rewrite (loop_optb _ _ _ _ s1 b _ T1 Hb).
    change (((3, PNone) :: tok_forest r) ++ rest)%list with ((3, PNone) :: (tok_forest r ++ rest))%list.
    destruct (IHt b s1 k bs (parent :: st) parent ((3, PNone) :: (tok_forest r ++ rest))%list T1 Hb Ht) as [s2 [E2 T2]]. rewrite E2.
    assert (Hp : 0 <= parent < k + size_tree t) by (destruct HT as [_ [_ [_ [H4 _]]]]; pose proof (size_tree_pos t); lia).
    destruct (TI_close _ _ st _ parent s2 T2 Hp) as [s3 [E3 T3]].
    cbn [app loop]. rewrite E3.
    destruct (IHr s3 _ _ st parent rest T3 Hr) as [s' [E' T']]. exists s'. split; [exact E'|].
    rewrite size_forest_branch. cbn [bonds_forest last_forest]. rewrite <- app_assoc in T'. rewrite Z.add_assoc. exact T'.
  - (* FNext *)
    intros b t IHt s k bs st parent rest HT [Hb Ht].
    cbn [tok_forest]. rewrite <- app_assoc. rewrite (loop_optb _ _ _ _ s b _ HT Hb).
    destruct (IHt b s k bs st parent rest HT Hb Ht) as [s' [E' T']]. exists s'. split; [exact E'|].
    unfold size_forest. cbn [atoms_forest bonds_forest last_forest]. exact T'.
Qed.

(* ---------------------------------------------------------------- the parse of a whole tree *)
Theorem tree_parse t : ok_tree t ->
  exists pr, parse (tok_tree t) false = Ok pr /\ p_bonds pr = bonds_forest (kids_of t) 0 1 /\ p_stereo_bonds pr = [] /\
             Z.of_nat (List.length (p_atoms pr)) = size_tree t.
Proof.
  destruct t as [p f]. intros Hok. unfold parse. cbn [tok_tree]. unfold atom_token at 1. cbn [guard Z.eqb Pos.eqb zmem existsb orb loop].
  assert (F : exists s1, step false p_init (0, PAtom (mkAt ""%string None None 0 None (p_stereo p))) = Ok s1 /\ TI 1 [] [] 0 s1).
  { eexists. split; [reflexivity|]. unfold TI. cbn. repeat split; lia. }
  destruct F as [s1 [E1 T1]]. unfold atom_token. rewrite E1.
  destruct (proj2 tree_forest_loop f s1 1 [] [] 0 [] T1 Hok) as [s' [E' T']]. rewrite app_nil_r in E'. rewrite E'. cbn [loop].
  destruct T' as [H1 [H2 [H3 [H4 [H5 [H6 [H7 [H8 [H9 [H10 H11]]]]]]]]]]. unfold finish. rewrite H8, H9, H11.
  eexists. split; [reflexivity|]. cbn [p_bonds p_stereo_bonds p_atoms kids_of]. repeat split; [exact H7 | exact H10 |].
  rewrite H5, size_tree_node. reflexivity.
Qed.

(* ---------------------------------------------------------------- the bonds are listed by increasing child, parent < child *)
Fixpoint incrb (lo hi : Z) (bs : list (Z * Z * payload)) : Prop :=
  match bs with
  | [] => lo <= hi
  | (c, q, _) :: r => lo <= c /\ 0 <= q < c /\ incrb (c + 1) hi r
  end.
Lemma incrb_le lo hi bs : incrb lo hi bs -> lo <= hi.
Proof. revert lo. induction bs as [|[[c q] v] r IH]; intros lo; cbn; [auto|]. intros [H1 [H2 H3]]. specialize (IH _ H3). lia. Qed.
Lemma incrb_weaken lo lo' hi bs : lo' <= lo -> incrb lo hi bs -> incrb lo' hi bs.
Proof. destruct bs as [|[[c q] v] r]; cbn; [lia|]. intros H [H1 H2]. split; [lia | exact H2]. Qed.
Lemma incrb_app a : forall lo mid hi b, incrb lo mid a -> incrb mid hi b -> incrb lo hi (a ++ b).
Proof.
  induction a as [|[[c q] v] r IH]; intros lo mid hi b Ha Hb; cbn [app].
  - cbn in Ha. eapply incrb_weaken; eassumption.
  - cbn in Ha |- *. destruct Ha as [H1 [H2 H3]]. split; [exact H1|]. split; [exact H2|]. eapply IH; eassumption.
Qed.

Lemma bonds_incr : (forall t b parent start, 0 <= parent < start -> incrb start (start + size_tree t) (bonds_tree t b parent start)) /\
                   (forall f parent start, 0 <= parent < start -> incrb start (start + size_forest f) (bonds_forest f parent start)).
Proof.
  apply tree_forest_mind.
  - intros p f IH b parent start H. cbn [bonds_tree incrb]. split; [lia|]. split; [lia|].
    rewrite size_tree_node. replace (start + (1 + size_forest f)) with (start + 1 + size_forest f) by lia. apply IH. lia.
  - intros parent start H. cbn. unfold size_forest. cbn. lia.
  - intros b t IHt r IHr parent start H. cbn [bonds_forest]. rewrite size_forest_branch.
    eapply incrb_app; [apply IHt; exact H|]. rewrite Z.add_assoc. apply IHr. pose proof (size_tree_pos t). lia.
  - intros b t IHt parent start H. cbn [bonds_forest]. unfold size_forest. cbn [atoms_forest]. apply IHt. exact H.
Qed.

Definition qb_of (v : payload) : qbond := match qbond_of_payload v with Ok q => q | Err _ => mkQB [] None end.
Definition to_sbond (x : Z * Z * payload) : sbond := mkSB (fst (fst x)) (snd (fst x)) (qb_of (snd x)) None.
Definition payload_valid (x : Z * Z * payload) : Prop := exists q, qbond_of_payload (snd x) = Ok q.

Lemma bonds_loop_incr bs : forall lo hi seen, incrb lo hi bs -> Forall payload_valid bs ->
  (forall p, In p seen -> snd p < fst p /\ fst p < lo) ->
  bonds_loop [] bs seen = Ok (map to_sbond bs).
Proof.
  induction bs as [|[[c q] v] r IH]; intros lo hi seen Hi Hv Hs; [reflexivity|].
  cbn in Hi. destruct Hi as [H1 [H2 H3]]. inversion Hv as [|? ? [qq Hq] Hr]; subst. cbn [snd] in Hq.
  cbn [bonds_loop]. unfold stereo_of. cbn [zget]. rewrite Hq.
  destruct (c =? q) eqn:E; [apply Z.eqb_eq in E; lia|].
  assert (Hex : existsb (fun p => ((fst p =? c) && (snd p =? q)) || ((fst p =? q) && (snd p =? c))) seen = false).
  { destruct (existsb _ seen) eqn:Ex; [|reflexivity]. apply existsb_exists in Ex. destruct Ex as [p [Hp Hc]].
    destruct (Hs p Hp) as [A B]. apply orb_true_iff in Hc. destruct Hc as [Hc|Hc]; apply andb_true_iff in Hc; destruct Hc as [C1 C2];
      apply Z.eqb_eq in C1, C2; lia. }
  rewrite Hex. rewrite (IH (c + 1) hi _ H3 Hr).
  - cbn [map]. f_equal. f_equal. unfold to_sbond, qb_of. cbn [fst snd]. rewrite Hq. reflexivity.
  - intros p [<-|Hp]; cbn [fst snd]; [lia|]. destruct (Hs p Hp). lia.
Qed.

(* ---------------------------------------------------------------- the denotation of a tree of tokens *)
Theorem tree_denotation t qs :
  ok_tree t ->
  Forall2 (fun p q => build_atom p = Ok q) (atoms_tree t) qs ->
  NoDup (explicit_maps (atoms_tree t)) ->
  Forall payload_valid (bonds_forest (kids_of t) 0 1) ->
  full_of_tokens (tok_tree t) (atoms_tree t) =
  Ok (map (fun pq => atom_result (fst pq) (snd pq)) (combine (atoms_tree t) qs), map to_sbond (bonds_forest (kids_of t) 0 1)).
Proof.
  intros Hok Hat Hnd Hv. unfold full_of_tokens.
  destruct (tree_parse t Hok) as [pr [E [B1 [B2 _]]]]. rewrite E.
  rewrite (atoms_loop_ok _ _ [] Hat Hnd) by (intros k _ []).
  rewrite B1, B2.
  rewrite (bonds_loop_incr _ 1 (1 + size_forest (kids_of t)) []); [reflexivity | apply (proj2 bonds_incr); lia | exact Hv | intros p []].
Qed.
