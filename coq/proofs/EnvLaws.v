From Coq Require Import ZArith List String Bool Lia.
From Model Require Import PyBase Graph Stereo.
Import ListNotations.
Open Scope Z_scope.

Ltac crush_env :=
  unfold translate_env, opt_is; cbn [option_map];
  repeat match goal with
         | |- context [?x =? ?y] => destruct (Z.eqb_spec x y); subst; try (exfalso; congruence); try (exfalso; lia)
         | |- context [if ?b then _ else _] => match type of b with bool => destruct b eqn:? end; try (exfalso; congruence)
         end;
  try reflexivity.
Ltac finish_env sg :=
  cbn [option_map]; repeat match goal with |- context [ct_lookup ?a ?b] => let v := eval vm_compute in (ct_lookup a b) in change (ct_lookup a b) with v end;
  destruct sg; reflexivity.

Definition exch_env (e : Z * Z * option Z * option Z) : Z * Z * option Z * option Z :=
  let '(n0, n1, n2, n3) := e in (n1, n0, n3, n2).

Definition env_ok (isH : Z -> bool) (e : Z * Z * option Z * option Z) : Prop :=
  let '(n0, n1, n2, n3) := e in
  n0 <> n1 /\ isH n0 = false /\ isH n1 = false /\
  match n2 with Some x => x <> n0 /\ x <> n1 /\ isH x = false | None => True end /\
  match n3 with Some y => y <> n0 /\ y <> n1 /\ isH y = false | None => True end /\
  match n2, n3 with Some x, Some y => x <> y | _, _ => True end.
(* the other order of the two substituents of the first / second end (only when there are two) *)
Definition swapA (e : Z * Z * option Z * option Z) := match e with (n0, n1, Some x, n3) => (x, n1, Some n0, n3) | _ => e end.
Definition swapB (e : Z * Z * option Z * option Z) := match e with (n0, n1, n2, Some y) => (n0, y, n2, Some n1) | _ => e end.
Definition canA (e : Z * Z * option Z * option Z) : bool := match e with (_, _, Some _, _) => true | _ => false end.
Definition canB (e : Z * Z * option Z * option Z) : bool := match e with (_, _, _, Some _) => true | _ => false end.

Section Laws.
  Variable isH : Z -> bool.

  Lemma swapA_law e nn nm sg : env_ok isH e -> canA e = true ->
    translate_env isH (swapA e) nn nm (negb sg) = translate_env isH e nn nm sg.
  Proof.
    destruct e as [[[n0 n1] [x|]] n3]; [|discriminate]. intros [H1 [H2 [H3 [[H4 [H5 H6]] [H7 H8]]]]] _. cbn [swapA].
    destruct n3 as [y|]; [destruct H7 as [H7 [H9 H10]]|]; crush_env; finish_env sg.
  Qed.

  Lemma swapB_law e nn nm sg : env_ok isH e -> canB e = true ->
    translate_env isH (swapB e) nn nm (negb sg) = translate_env isH e nn nm sg.
  Proof.
    destruct e as [[[n0 n1] n2] [y|]]; [|discriminate]. intros [H1 [H2 [H3 [H4 [[H7 [H9 H10]] H8]]]]] _. cbn [swapB].
    destruct n2 as [x|]; [destruct H4 as [H4 [H5 H6]]|]; crush_env; finish_env sg.
  Qed.

  (* exchange of the two ends = exchange of the two arguments, for EVERY pair of arguments *)
  Lemma exch_law e nn nm sg : env_ok isH e -> isH nn = false -> isH nm = false ->
    translate_env isH (exch_env e) nn nm sg = translate_env isH e nm nn sg.
  Proof.
    destruct e as [[[n0 n1] n2] n3]. intros [H1 [H2 [H3 [H4 [H7 H8]]]]] Hnn Hnm. cbn [exch_env].
    destruct n2 as [x|]; [destruct H4 as [H4 [H5 H6]]|]; (destruct n3 as [y|]; [destruct H7 as [H7 [H9 H10]]|]); crush_env; finish_env sg.
  Qed.

  Lemma env_ok_swapA e : env_ok isH e -> env_ok isH (swapA e).
  Proof.
    destruct e as [[[n0 n1] [x|]] n3]; [|exact (fun H => H)]. intros [H1 [H2 [H3 [[H4 [H5 H6]] [H7 H8]]]]]. cbn [swapA env_ok].
    repeat split; try assumption; try congruence; destruct n3 as [y|]; try exact I; destruct H7 as [H7 [H9 H10]]; repeat split; try assumption; congruence.
  Qed.
  Lemma env_ok_swapB e : env_ok isH e -> env_ok isH (swapB e).
  Proof.
    destruct e as [[[n0 n1] n2] [y|]]; [|exact (fun H => H)]. intros [H1 [H2 [H3 [H4 [[H7 [H9 H10]] H8]]]]]. cbn [swapB env_ok].
    repeat split; try assumption; try congruence; destruct n2 as [x|]; try exact I; destruct H4 as [H4 [H5 H6]]; repeat split; try assumption; congruence.
  Qed.
  Lemma env_ok_exch e : env_ok isH e -> env_ok isH (exch_env e).
  Proof.
    destruct e as [[[n0 n1] n2] n3]. intros [H1 [H2 [H3 [H4 [H7 H8]]]]]. cbn [exch_env env_ok].
    repeat split; try assumption; try congruence.
    - destruct n3 as [y|]; [|exact I]. destruct H7 as [H7 [H9 H10]]. repeat split; assumption.
    - destruct n2 as [x|]; [|exact I]. destruct H4 as [H4 [H5 H6]]. repeat split; assumption.
    - destruct n2, n3; try exact I. congruence.
  Qed.
End Laws.
