(* C20 extension 6: the adjacency of the molecule from_rdkit_molecule rebuilds, and its relation to the adjacency of the molecule
   given: the graph hypotheses of C20_bridge_stereo_molecule_tetrahedra_graph follow from the structural round trip. *)
From Coq Require Import ZArith List String Bool Lia Permutation.
From Model Require Import PyBase Graph PeriodicTable Stereo Rdkit RdkitRegistry.
From Gen Require Import Elements RdkitTables StereoTables.
From Proofs Require Import StereoProofs RdkitProofs RdkitExt RdkitExt4.
Import ListNotations.
Open Scope list_scope.
Open Scope Z_scope.

(* ================================================================================================ *)
(* 1. the neighbours of an atom in the built adjacency are exactly the bonds incident to it, in the order of the bond list *)
Definition nbrs_in (adj : list (Z * list (Z * bond))) (n : Z) : list (Z * bond) := match zget adj n with Some l => l | None => [] end.
Definition plain (l : list (Z * bond)) : list (Z * Z) := map (fun mb => (fst mb, b_ord (snd mb))) l.

Lemma zget_add_nbr adj n m b k :
  zget (add_nbr adj n m b) k = if k =? n then option_map (fun l => l ++ [(m, b)]) (zget adj k) else zget adj k.
Proof.
  unfold add_nbr. induction adj as [|[j l] r IH]; cbn [map zget fst snd].
  - destruct (k =? n); reflexivity.
  - destruct (j =? n) eqn:Ej; cbn [zget fst snd].
    + apply Z.eqb_eq in Ej. subst j. destruct (k =? n) eqn:Ek; [reflexivity | exact IH].
    + destruct (k =? j) eqn:Ekj.
      * apply Z.eqb_eq in Ekj. subst k. rewrite Ej. reflexivity.
      * exact IH.
Qed.

Lemma keys_add_nbr adj n m b : keys (add_nbr adj n m b) = keys adj.
Proof. unfold add_nbr, keys. rewrite map_map. apply map_ext. intros [j l]. cbn. destruct (j =? n); reflexivity. Qed.

Lemma nbrs_add_bond adj a b o k : In a (keys adj) -> In b (keys adj) -> a <> b ->
  plain (nbrs_in (add_bond_adj adj (a, b, o)) k) = plain (nbrs_in adj k) ++ incident k [(a, b, o)].
Proof.
  intros Ha Hb Hab. unfold add_bond_adj, nbrs_in. rewrite !zget_add_nbr.
  assert (Ga : exists l, zget adj a = Some l) by (apply zget_In_keys; exact Ha).
  assert (Gb : exists l, zget adj b = Some l) by (apply zget_In_keys; exact Hb).
  unfold incident. cbn [flat_map]. rewrite app_nil_r.
  destruct (k =? b) eqn:Ekb; destruct (k =? a) eqn:Eka.
  - apply Z.eqb_eq in Ekb, Eka. congruence.
  - apply Z.eqb_eq in Ekb. subst k. rewrite Z.eqb_sym in Eka. rewrite Eka. rewrite Z.eqb_refl.
    destruct Gb as [l ->]. cbn [option_map]. unfold plain. rewrite map_app. reflexivity.
  - apply Z.eqb_eq in Eka. subst k. rewrite Z.eqb_refl. destruct Ga as [l ->]. cbn [option_map]. unfold plain. rewrite map_app. reflexivity.
  - rewrite (Z.eqb_sym a k), Eka, (Z.eqb_sym b k), Ekb. rewrite app_nil_r. reflexivity.
Qed.

Lemma keys_add_bond adj x : keys (add_bond_adj adj x) = keys adj.
Proof. destruct x as [[a b] o]. unfold add_bond_adj. rewrite !keys_add_nbr. reflexivity. Qed.

Lemma incident_app k l l' : incident k (l ++ l') = incident k l ++ incident k l'.
Proof. unfold incident. apply flat_map_app. Qed.

Lemma nbrs_fold : forall bonds adj k,
  (forall a b o, In (a, b, o) bonds -> In a (keys adj) /\ In b (keys adj) /\ a <> b) ->
  plain (nbrs_in (fold_left add_bond_adj bonds adj) k) = plain (nbrs_in adj k) ++ incident k bonds.
Proof.
  induction bonds as [|[[a b] o] r IH]; intros adj k H; cbn [fold_left].
  - unfold incident. cbn. rewrite app_nil_r. reflexivity.
  - destruct (H a b o (or_introl eq_refl)) as (Ha & Hb & Hab).
    rewrite IH.
    + rewrite (nbrs_add_bond adj a b o k Ha Hb Hab). rewrite <- app_assoc. f_equal.
      change ((a, b, o) :: r) with ([(a, b, o)] ++ r). rewrite incident_app. reflexivity.
    + intros a' b' o' Hin. rewrite keys_add_bond. apply (H a' b' o'). right. exact Hin.
Qed.

Theorem built_neighbours nums bonds k :
  (forall a b o, In (a, b, o) bonds -> In a nums /\ In b nums /\ a <> b) -> In k nums ->
  plain (nbrs_in (build_adj nums bonds) k) = incident k bonds.
Proof.
  intros H Hk. unfold build_adj. rewrite nbrs_fold.
  - assert (E : forall k0, nbrs_in (map (fun n => (n, [])) nums) k0 = []).
    { intros k0. unfold nbrs_in. clear H Hk. induction nums as [|j r IH]; [reflexivity|]. cbn [map zget]. destruct (k0 =? j); [reflexivity | exact IH]. }
    rewrite E. reflexivity.
  - intros a b o Hin. unfold keys. rewrite map_map. cbn [fst]. rewrite map_id. apply (H a b o). exact Hin.
Qed.

(* ================================================================================================ *)
(* 2. the bond list from_rdkit_molecule receives (C20_bridge_molecule_inverse_from_to: bond by bond the renamed ends, either way
   round) gives the renamed atom the renamed neighbours, in the same order *)
Lemma rho_of_nth_nat nums i : NoDup nums -> (i < List.length nums)%nat -> rho_of nums (nth i nums 0) = Z.of_nat i + 1.
Proof.
  intros Hn Hi. assert (E : nth i nums 0 = znth nums (Z.of_nat i) 0).
  { unfold znth. destruct (Z.of_nat i <? 0) eqn:El; [apply Z.ltb_lt in El; lia|]. rewrite Nat2Z.id. reflexivity. }
  rewrite E. apply rho_of_nth; [exact Hn | lia].
Qed.

Lemma rho_of_inj nums x y : NoDup nums -> In x nums -> In y nums -> rho_of nums x = rho_of nums y -> x = y.
Proof.
  intros Hn Hx Hy E. destruct (In_nth _ _ 0 Hx) as (i & Hi & <-). destruct (In_nth _ _ 0 Hy) as (j & Hj & <-).
  rewrite !rho_of_nth_nat in E by assumption. assert (i = j) by lia. subst. reflexivity.
Qed.

Lemma same_bond_cases b' x y o : same_bond b' (x, y, o) = true -> b' = (x, y, o) \/ b' = (y, x, o).
Proof.
  destruct b' as [[p q] o']. cbn. intros H. apply andb_prop in H. destruct H as [Ho H]. apply Z.eqb_eq in Ho. subst o'.
  apply orb_prop in H. destruct H as [H|H]; apply andb_prop in H; destruct H as [H1 H2]; apply Z.eqb_eq in H1, H2; subst; auto.
Qed.

Section Renamed.
  Variable nums : list Z.
  Hypothesis nums_nodup : NoDup nums.
  Let rho := rho_of nums.

  Definition rename_nb (p : Z * Z) : Z * Z := (rho (fst p), snd p).

  Lemma incident_one a b o b' n i j :
    (i < List.length nums)%nat -> (j < List.length nums)%nat -> nth i nums 0 = a -> nth j nums 0 = b -> a <> b -> In n nums ->
    same_bond b' (Z.of_nat i + 1, Z.of_nat j + 1, o) = true ->
    incident (rho n) [b'] = map rename_nb (incident n [(a, b, o)]).
  Proof.
    intros Hi Hj Ha Hb Hab Hn Hs.
    assert (Ra : rho a = Z.of_nat i + 1) by (subst a; apply rho_of_nth_nat; assumption).
    assert (Rb : rho b = Z.of_nat j + 1) by (subst b; apply rho_of_nth_nat; assumption).
    assert (Ia : In a nums) by (subst a; apply nth_In; exact Hi).
    assert (Ib : In b nums) by (subst b; apply nth_In; exact Hj).
    rewrite <- Ra, <- Rb in Hs.
    assert (Ea : (rho a =? rho n) = (a =? n)).
    { destruct (a =? n) eqn:E; [apply Z.eqb_eq in E; subst; apply Z.eqb_refl|].
      apply Z.eqb_neq. intros Hr. apply Z.eqb_neq in E. apply E. apply (rho_of_inj nums a n nums_nodup Ia Hn Hr). }
    assert (Eb : (rho b =? rho n) = (b =? n)).
    { destruct (b =? n) eqn:E; [apply Z.eqb_eq in E; subst; apply Z.eqb_refl|].
      apply Z.eqb_neq. intros Hr. apply Z.eqb_neq in E. apply E. apply (rho_of_inj nums b n nums_nodup Ib Hn Hr). }
    unfold incident. cbn [flat_map]. rewrite !app_nil_r.
    destruct (same_bond_cases _ _ _ _ Hs) as [-> | ->]; rewrite ?Ea, ?Eb.
    - destruct (a =? n); [reflexivity|]. destruct (b =? n); reflexivity.
    - destruct (b =? n) eqn:E1; destruct (a =? n) eqn:E2; try reflexivity.
      apply Z.eqb_eq in E1, E2. congruence.
  Qed.

  Theorem incident_renamed : forall B B' n,
    (forall a b o, In (a, b, o) B -> a <> b) -> In n nums ->
    Forall2 (fun b b' => bond_image nums b (fun i j o => same_bond b' (Z.of_nat i + 1, Z.of_nat j + 1, o) = true)) B B' ->
    incident (rho n) B' = map rename_nb (incident n B).
  Proof.
    intros B B' n Hne Hn HF. induction HF as [|[[a b] o] b' B B' Hhd _ IH]; [reflexivity|].
    change ((a, b, o) :: B) with ([(a, b, o)] ++ B). change (b' :: B') with ([b'] ++ B').
    rewrite !incident_app, map_app. rewrite IH by (intros a0 b0 o0 Hin; apply (Hne a0 b0 o0); right; exact Hin).
    f_equal. destruct Hhd as (i & j & Hi & Hj & Ha & Hb & Hs).
    apply (incident_one a b o b' n i j Hi Hj Ha Hb (Hne a b o (or_introl eq_refl)) Hn Hs).
  Qed.

  (* the bonds of the rebuilt list join renamed atoms and are no loops *)
  Lemma renamed_bonds_ok : forall B B',
    (forall a b o, In (a, b, o) B -> a <> b) ->
    Forall2 (fun b b' => bond_image nums b (fun i j o => same_bond b' (Z.of_nat i + 1, Z.of_nat j + 1, o) = true)) B B' ->
    forall a' b' o', In (a', b', o') B' -> In a' (map rho nums) /\ In b' (map rho nums) /\ a' <> b'.
  Proof.
    intros B B' Hne HF. induction HF as [|[[a b] o] x B B' Hhd _ IH]; intros a' b' o' Hin; [contradiction|].
    destruct Hin as [->|Hin]; [|apply (IH (fun a0 b0 o0 H => Hne a0 b0 o0 (or_intror H)) a' b' o' Hin)].
    destruct Hhd as (i & j & Hi & Hj & Ha & Hb & Hs).
    assert (Ra : rho a = Z.of_nat i + 1) by (subst a; apply rho_of_nth_nat; assumption).
    assert (Rb : rho b = Z.of_nat j + 1) by (subst b; apply rho_of_nth_nat; assumption).
    assert (Ia : In a nums) by (subst a; apply nth_In; exact Hi).
    assert (Ib : In b nums) by (subst b; apply nth_In; exact Hj).
    assert (Hab : a <> b) by (apply (Hne a b o); left; reflexivity).
    assert (Hr : rho a <> rho b) by (intros E; apply Hab; apply (rho_of_inj nums a b nums_nodup Ia Ib E)).
    rewrite <- Ra, <- Rb in Hs.
    destruct (same_bond_cases _ _ _ _ Hs) as [E|E]; injection E as -> -> ->; repeat split;
      try (apply in_map; assumption); congruence.
  Qed.

  (* the molecule given: its adjacency lists every bond of B at both ends (any order within an atom) *)
  Definition adjacency_of (g : mol) (B : list (Z * Z * Z)) : Prop :=
    forall k, In k nums -> Permutation (plain (nbrs g k)) (incident k B).

  (* hence: the rebuilt molecule satisfies the neighbour hypothesis of the graph theorem at EVERY atom *)
  Theorem rebuilt_same_nbrs g atoms' B B' n :
    (forall a b o, In (a, b, o) B -> a <> b) -> adjacency_of g B ->
    Forall2 (fun b b' => bond_image nums b (fun i j o => same_bond b' (Z.of_nat i + 1, Z.of_nat j + 1, o) = true)) B B' ->
    In n nums ->
    same_nbrs g (mkMol atoms' (build_adj (map rho nums) B')) rho n.
  Proof.
    intros Hne Hadj HF Hn. unfold same_nbrs.
    change (nbrs (mkMol atoms' (build_adj (map rho nums) B')) (rho n)) with (nbrs_in (build_adj (map rho nums) B') (rho n)).
    change (map (fun mb => (fst mb, b_ord (snd mb))) (nbrs_in (build_adj (map rho nums) B') (rho n)))
      with (plain (nbrs_in (build_adj (map rho nums) B') (rho n))).
    rewrite (built_neighbours (map rho nums) B' (rho n) (renamed_bonds_ok B B' Hne HF) (in_map rho nums n Hn)).
    rewrite (incident_renamed B B' n Hne Hn HF).
    replace (map (fun mb => (rho (fst mb), b_ord (snd mb))) (nbrs g n)) with (map rename_nb (plain (nbrs g n)))
      by (unfold plain; rewrite map_map; reflexivity).
    apply Permutation_map. apply Hadj. exact Hn.
  Qed.
End Renamed.

(* ================================================================================================ *)
(* 3. end to end: structure and tetrahedral configuration of a whole molecule through to_rdkit_molecule and from_rdkit_molecule,
   the rebuilt molecule being COMPUTED (atoms by from_mol, adjacency by build_adj, registry by stereogenic_tetrahedrons_of) *)
Definition atom_of_c (c : catom) (s : option bool) : atom := mkAtom (c_num c) (c_iso c) (c_chg c) (c_rad c) (c_hyd c) s.
Definition graph_atoms (atoms : list (Z * catom)) (lab : Z -> option bool) : list (Z * atom) :=
  map (fun na => (fst na, atom_of_c (snd na) (lab (fst na)))) atoms.

Lemma keys_graph_atoms atoms lab : keys (graph_atoms atoms lab) = map fst atoms.
Proof. unfold graph_atoms, keys. rewrite map_map. reflexivity. Qed.

Lemma zget_graph_atoms lab : forall atoms k, zget (graph_atoms atoms lab) k = option_map (fun c => atom_of_c c (lab k)) (zget atoms k).
Proof.
  induction atoms as [|[n c] r IH]; intros k; [reflexivity|]. cbn [graph_atoms map zget fst snd].
  destruct (k =? n) eqn:E; [apply Z.eqb_eq in E; subst; reflexivity | apply IH].
Qed.

Lemma zget_nth_nodup {V} : forall (l : list (Z * V)) i n v, NoDup (map fst l) -> nth_error l i = Some (n, v) -> zget l n = Some v.
Proof.
  induction l as [|[k w] r IH]; intros i n v Hn H; [destruct i; discriminate|].
  inversion Hn as [|? ? Hk Hr]; subst. destruct i as [|i]; cbn in H.
  - injection H as -> ->. cbn. rewrite Z.eqb_refl. reflexivity.
  - cbn [zget]. destruct (n =? k) eqn:E.
    + apply Z.eqb_eq in E. subst k. exfalso. apply Hk. apply nth_error_In in H. apply (in_map fst) in H. exact H.
    + apply (IH i n v Hr H).
Qed.

Lemma expect_kind keep : forall atoms k impls xy i n c, nth_error atoms i = Some (n, c) ->
  exists c', zget (expect_atoms keep k atoms impls xy) (k + Z.of_nat i + 1) = Some c' /\
             c_num c' = c_num c /\ c_chg c' = c_chg c /\ c_rad c' = c_rad c.
Proof.
  induction atoms as [|[m d] r IH]; intros k impls xy i n c H; [destruct i; discriminate|].
  cbn [expect_atoms]. unfold expect_atom at 1. cbn [zget fst snd]. destruct i as [|i]; cbn in H.
  - injection H as -> ->. replace (k + Z.of_nat 0 + 1 =? k + 1) with true by (symmetry; apply Z.eqb_eq; lia).
    eexists. split; [reflexivity|]. cbn. auto.
  - replace (k + Z.of_nat (S i) + 1 =? k + 1) with false by (symmetry; apply Z.eqb_neq; lia).
    destruct (IH (k + 1) (tl impls) (tl xy) i n c H) as (c' & Hz & Hk). exists c'. split; [|exact Hk].
    replace (k + Z.of_nat (S i) + 1) with (k + 1 + Z.of_nat i + 1) by lia. exact Hz.
Qed.

Lemma zget_Some_In_keys {V} (l : list (Z * V)) k v : zget l k = Some v -> In k (keys l).
Proof.
  induction l as [|[j w] r IH]; intros H; [discriminate|]. cbn in H |- *. destruct (k =? j) eqn:E;
    [apply Z.eqb_eq in E; left; congruence | right; apply IH; exact H].
Qed.

Lemma NoDup_map_rho nums l : NoDup nums -> NoDup l -> (forall x, In x l -> In x nums) -> NoDup (map (rho_of nums) l).
Proof.
  intros Hn Hl. induction Hl as [|x r Hx Hr IH]; intros H; [constructor|]. cbn [map]. constructor.
  - intros Hin. apply in_map_iff in Hin. destruct Hin as (y & Ey & Hy). apply Hx.
    rewrite (rho_of_inj nums x y Hn (H x (or_introl eq_refl)) (H y (or_intror Hy)) (eq_sym Ey)). exact Hy.
  - apply IH. intros y Hy. apply H. right. exact Hy.
Qed.

Section EndToEnd.
  Variable symbol : Z -> string.
  Hypothesis symbol_faithful : forall z e, from_symbol (symbol z) = Some e -> e_num e = z.
  Variable keep : bool.
  Variable atoms : list (Z * catom).                  (* the molecule given: atoms, ... *)
  Variable adj : list (Z * list (Z * bond)).          (* ... adjacency, ... *)
  Variable B : list (Z * Z * Z).                      (* ... data.bonds(), ... *)
  Variables lab lab' : Z -> option bool.              (* ... tetrahedral labels (lab' : whatever the rebuilt atoms carry before the label loop) *)
  Variable nb : Z -> list Z.                          (* RDKit: neighbour indices of the atom with index k *)
  Variables (impls : list Z) (xy : list (Z * Z)).     (* RDKit: implicit hydrogens, coordinates *)

  Let nums := map fst atoms.
  Let rho := rho_of nums.
  Let g := mkMol (graph_atoms atoms lab) adj.
  Let atoms' := expect_atoms keep 0 atoms impls xy.

  Hypothesis nums_nodup : NoDup nums.
  Hypothesis atoms_in_range : atoms_ok symbol atoms.
  Hypothesis bonds_ok : forall n m o, In (n, m, o) B -> In n nums /\ In m nums /\ In o supported_orders /\ n <> m.
  Hypothesis adjacency_ok : adjacency_of nums g B.
  (* RDKit: the neighbours it lists for a labelled stereogenic centre are that centre's neighbours (as indices, any order) *)
  Hypothesis rdkit_lists_neighbours : forall i n, nth_error nums i = Some n -> lab n <> None -> stereogenic_entry g n <> None ->
    NoDup (nbr_ids g n) /\ Permutation (nbr_ids g n) (env_old nums nb (Z.of_nat i)) /\
    (forall j, In j (nb (Z.of_nat i)) -> 0 <= j < Z.of_nat (List.length nums)).

  Lemma kind_preserved adj' x : In x nums -> same_kind g (mkMol (graph_atoms atoms' lab') adj') rho x.
  Proof.
    intros Hx. destruct (In_nth _ _ 0 Hx) as (i & Hi & Hnth).
    assert (He : exists c, nth_error atoms i = Some (x, c)).
    { unfold nums in Hi, Hnth. rewrite map_length in Hi. destruct (nth_error atoms i) as [[n c]|] eqn:E.
      - exists c. f_equal. f_equal. rewrite <- Hnth. symmetry. change 0 with (fst (0, snd (n, c))).
        rewrite map_nth. apply nth_error_nth with (d := (0, snd (n, c))) in E. rewrite E. reflexivity.
      - apply nth_error_None in E. lia. }
    destruct He as [c He].
    destruct (expect_kind keep atoms 0 impls xy i x c He) as (c' & Hz & Hn' & Hc' & Hr').
    exists (atom_of_c c (lab x)), (atom_of_c c' (lab' (rho x))). unfold atom_of, g. cbn [m_atoms].
    rewrite !zget_graph_atoms. rewrite (zget_nth_nodup atoms i x c nums_nodup He).
    assert (Rx : rho x = 0 + Z.of_nat i + 1) by (unfold rho; rewrite <- Hnth; rewrite rho_of_nth_nat by assumption; lia).
    rewrite Rx. unfold atoms'. rewrite Hz. cbn. auto.
  Qed.

  Theorem tetrahedra_end_to_end :
    exists ras rbs bonds', to_mol keep (atoms, B) = Ok (ras, rbs) /\
      from_mol symbol impls xy (ras, rbs) = Ok (atoms', bonds') /\
      let g' := mkMol (graph_atoms atoms' lab') (build_adj (map rho nums) bonds') in
      exists tags, to_tags (is_hydrogen g) (stereogenic_tetrahedrons_of g) nums nb 0 (map (fun n => (n, lab n)) nums) = Ok tags /\
        exists labels', from_tags (is_hydrogen g') (stereogenic_tetrahedrons_of g') nb 0 (map tag_name tags) = Ok labels' /\
          Forall2 (label_image (is_hydrogen g') (stereogenic_tetrahedrons_of g) (stereogenic_tetrahedrons_of g') rho)
                  (map (fun n => (n, lab n)) nums) labels'.
  Proof.
    destruct (from_to_mol symbol symbol_faithful keep atoms B nums_nodup atoms_in_range) as (ras & rbs & Hto & Hfrom).
    { intros n m o Hin. destruct (bonds_ok n m o Hin) as (H1 & H2 & H3 & _). auto. }
    destruct (Hfrom impls xy) as (bonds' & Hfm & HF2). exists ras, rbs, bonds'. split; [exact Hto|]. split; [exact Hfm|].
    cbv zeta. set (g' := mkMol (graph_atoms atoms' lab') (build_adj (map rho nums) bonds')).
    apply (tetrahedra_from_to_graph g g' rho nums nb).
    assert (Hne : forall a b o, In (a, b, o) B -> a <> b) by (intros a b o Hin; apply (bonds_ok a b o Hin)).
    (* graph_wf, position by position *)
    assert (Gen : forall l k0, (forall i n, nth_error l i = Some n -> nth_error nums (k0 + i) = Some n) ->
                  graph_wf g g' rho nums nb (Z.of_nat k0) (map (fun n => (n, lab n)) l)).
    { induction l as [|n r IH]; intros k0 Hpos; [exact I|]. cbn [map graph_wf].
      assert (Hk : nth_error nums k0 = Some n) by (rewrite <- (Nat.add_0_r k0); apply (Hpos 0%nat n); reflexivity).
      assert (Hin : In n nums) by (apply nth_error_In in Hk; exact Hk).
      assert (Hlt : (k0 < List.length nums)%nat) by (apply nth_error_Some; congruence).
      assert (Hnth : nth k0 nums 0 = n) by (apply nth_error_nth; exact Hk).
      assert (Rn : rho n = Z.of_nat k0 + 1) by (unfold rho; rewrite <- Hnth; apply rho_of_nth_nat; assumption).
      split.
      - split; [exact Rn|]. split; [unfold ids, g; cbn [m_atoms]; rewrite keys_graph_atoms; exact Hin|].
        destruct (lab n) as [s|] eqn:El; [|exact I]. destruct (stereogenic_entry g n) as [o|] eqn:Eo; [|exact I].
        destruct (rdkit_lists_neighbours k0 n Hk) as (Hnd & Hperm & Hrange); [congruence | congruence |].
        assert (Hnb : forall x, In x (nbr_ids g n) -> In x nums).
        { intros x Hx. apply (Permutation_in x Hperm) in Hx. unfold env_old in Hx. apply in_map_iff in Hx. destruct Hx as (j & <- & Hj).
          apply znth_In. apply Hrange. exact Hj. }
        split.
        { destruct (kind_preserved (build_adj (map rho nums) bonds') n Hin) as (a & a' & _ & Ha' & _).
          unfold ids. apply (zget_Some_In_keys _ _ a'). exact Ha'. }
        split; [unfold env_new, env_old; apply rho_of_env; assumption|].
        split; [apply kind_preserved; exact Hin|].
        split; [intros x Hx; apply kind_preserved; apply Hnb; exact Hx|].
        split; [apply (rebuilt_same_nbrs nums nums_nodup g (graph_atoms atoms' lab') B bonds' n Hne adjacency_ok HF2 Hin)|].
        split; [exact Hnd|]. split; [apply NoDup_map_rho; assumption | exact Hperm].
      - replace (Z.of_nat k0 + 1) with (Z.of_nat (S k0)) by lia. apply IH.
        intros i m Hm. replace (S k0 + i)%nat with (k0 + S i)%nat by lia. apply (Hpos (S i) m). exact Hm. }
    apply (Gen nums 0%nat). intros i n Hn. exact Hn.
  Qed.
End EndToEnd.

(* non-vacuity of the hypotheses of [tetrahedra_end_to_end]: N(3)H2-C(7)H(-C(9)H3)(-C(4)H3) with the hydrogen of the centre as an
   atom H(5); label on C(7); RDKit lists the neighbours of index 1 as 3, 0, 4, 2 *)
Example end_to_end_example :
  let atoms := [(3, mkC 7 None 0 false (Some 2) None 0 0); (7, mkC 6 None 0 false (Some 0) None 0 0);
                (9, mkC 6 None 0 false (Some 3) None 0 0); (4, mkC 6 None 0 false (Some 3) None 0 0);
                (5, mkC 1 None 0 false (Some 0) None 0 0)] in
  let sb := mkBond 1 None in
  let adj := [(3, [(7, sb)]); (7, [(3, sb); (9, sb); (4, sb); (5, sb)]); (9, [(7, sb)]); (4, [(7, sb)]); (5, [(7, sb)])] in
  let B := [(3, 7, 1); (7, 9, 1); (7, 4, 1); (7, 5, 1)] in
  let lab := fun n => if n =? 7 then Some true else None in
  let nb := fun k => if k =? 1 then [3; 0; 4; 2] else [1] in
  let nums := map fst atoms in
  let g := mkMol (graph_atoms atoms lab) adj in
  NoDup nums /\ atoms_ok chython_symbol atoms /\
  (forall n m o, In (n, m, o) B -> In n nums /\ In m nums /\ In o supported_orders /\ n <> m) /\
  adjacency_of nums g B /\
  (forall i n, nth_error nums i = Some n -> lab n <> None -> stereogenic_entry g n <> None ->
     NoDup (nbr_ids g n) /\ Permutation (nbr_ids g n) (env_old nums nb (Z.of_nat i)) /\
     (forall j, In j (nb (Z.of_nat i)) -> 0 <= j < Z.of_nat (List.length nums))) /\
  stereogenic_tetrahedrons_of g = [(7, [3; 9; 4])].
Proof.
  cbn zeta. split; [repeat constructor; cbn; intuition lia|]. split.
  { intros na Hin. cbn in Hin.
    repeat (destruct Hin as [<-|Hin]; [split; [eexists; split; [vm_compute; reflexivity|]; split;
      [intros i Hi; discriminate | cbn; lia] | eexists; split; [reflexivity | lia]]|]). contradiction. }
  split.
  { intros n m o Hin. cbn in Hin. repeat (destruct Hin as [Hin|Hin]; [injection Hin as <- <- <-; cbn; intuition lia|]). contradiction. }
  split.
  { intros k Hk. cbn in Hk. repeat (destruct Hk as [<-|Hk]; [vm_compute; apply Permutation_refl|]). contradiction. }
  split; [|vm_compute; reflexivity].
  intros i n Hi Hl _. destruct i as [|[|[|[|[|i]]]]]; cbn in Hi; try (destruct i; discriminate); injection Hi as <-; try (exfalso; apply Hl; reflexivity).
  split; [vm_compute; repeat constructor; cbn; intuition lia|]. split.
  - vm_compute.
    apply Permutation_trans with (l' := [3; 4; 9; 5]); [apply perm_skip; apply perm_swap|].
    apply Permutation_trans with (l' := [4; 3; 9; 5]); [apply perm_swap|].
    apply perm_skip. apply perm_skip. apply perm_swap.
  - intros j Hj. vm_compute in Hj. cbn. intuition lia.
Qed.
