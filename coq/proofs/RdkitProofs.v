(* C20: the RDKit bridge.  Finite facts over the generated tables by vm_compute; attribute / bond / conformer / stereo
   round trips for ALL values, with RDKit's own behaviour universally quantified (Section variables / arguments). *)
From Coq Require Import ZArith List String Bool Lia.
From Model Require Import PyBase PeriodicTable Stereo Rdkit.
From Gen Require Import Elements RdkitTables StereoTables.
From Proofs Require Import StereoProofs.
Import ListNotations.
Open Scope string_scope.
Open Scope Z_scope.

(* ================================================================================================ *)
(* 1. the two bond dictionaries *)
Definition supported_orders : list Z := [1; 2; 3; 4; 8].               (* the orders a chython Bond accepts *)
Definition invertible_types : list string := ["SINGLE"; "DOUBLE"; "TRIPLE"; "AROMATIC"; "DATIVE"].

Lemma bond_tables_b :
  same_keys_z (keys bond_map) supported_orders = true /\
  forallb (fun o => match bond_type o with
                    | Ok t => pyres_eqb Z.eqb (rdkit_bond_order t) (Ok o)
                    | Err _ => false
                    end) supported_orders = true /\
  forallb (fun t => match rdkit_bond_order t with
                    | Ok o => pyres_eqb String.eqb (bond_type o) (Ok t)
                    | Err _ => false
                    end) invertible_types = true /\
  (* every key of the reverse table is invertible or one of the two "no bond order" types, which are read as 8 *)
  forallb (fun p => smem (fst p) invertible_types ||
                    ((String.eqb (fst p) "ZERO" || String.eqb (fst p) "UNSPECIFIED") && (snd p =? 8))) rdkit_bond_map = true /\
  pyres_eqb String.eqb (bond_type 8) (Ok "DATIVE") = true.
Proof. vm_compute. repeat split; reflexivity. Qed.

Lemma pyres_eqb_Z_eq (x y : pyres Z) : pyres_eqb Z.eqb x y = true -> x = y.
Proof.
  destruct x as [a|e], y as [b|f]; cbn; intros H; try discriminate.
  - apply Z.eqb_eq in H. subst. reflexivity.
  - destruct e, f; try discriminate; reflexivity.
Qed.
Lemma pyres_eqb_string_eq (x y : pyres string) : pyres_eqb String.eqb x y = true -> x = y.
Proof.
  destruct x as [a|e], y as [b|f]; cbn; intros H; try discriminate.
  - apply String.eqb_eq in H. subst. reflexivity.
  - destruct e, f; try discriminate; reflexivity.
Qed.

Theorem bond_maps_inverse :
  (forall o, In o supported_orders -> exists t, bond_type o = Ok t /\ rdkit_bond_order t = Ok o) /\
  (forall t, In t invertible_types -> exists o, rdkit_bond_order t = Ok o /\ bond_type o = Ok t).
Proof.
  destruct bond_tables_b as (_ & H1 & H2 & _). split.
  - intros o Ho. rewrite forallb_forall in H1. specialize (H1 o Ho).
    destruct (bond_type o) as [t|]; [|discriminate]. exists t. split; [reflexivity | apply pyres_eqb_Z_eq; exact H1].
  - intros t Ht. rewrite forallb_forall in H2. specialize (H2 t Ht).
    destruct (rdkit_bond_order t) as [o|]; [|discriminate]. exists o. split; [reflexivity | apply pyres_eqb_string_eq; exact H2].
Qed.

Lemma zget_last_None {V} (d : list (Z * V)) k : ~ In k (keys d) -> zget_last d k = None.
Proof.
  induction d as [|[k' v] r IH]; intros H; [reflexivity|]. cbn in *.
  rewrite IH by tauto. destruct (k =? k') eqn:E; [apply Z.eqb_eq in E; subst; tauto | reflexivity].
Qed.

(* orders outside the table raise KeyError: the domain of the forward map is exactly the five supported orders *)
Theorem bond_type_domain : forall o, ~ In o supported_orders -> bond_type o = Err KeyError.
Proof.
  intros o Ho. unfold bond_type. rewrite zget_last_None; [reflexivity|].
  intros Hin. apply Ho. destruct bond_tables_b as (Hk & _). unfold same_keys_z in Hk. apply andb_prop in Hk.
  destruct Hk as [Hk _]. unfold subset_z in Hk. rewrite forallb_forall in Hk. apply zmem_In. apply Hk. exact Hin.
Qed.

(* what is NOT inverted: the two bond types without an order come back as DATIVE *)
Theorem bond_maps_inverse_zero_refuted :
  rdkit_bond_order "ZERO" = Ok 8 /\ rdkit_bond_order "UNSPECIFIED" = Ok 8 /\ bond_type 8 = Ok "DATIVE" /\
  rdkit_bond_order "QUADRUPLE" = Err KeyError.
Proof. vm_compute. repeat split; reflexivity. Qed.

(* the enum constants are the expected RDKit members and pairwise different *)
Lemma enum_constants :
  chiral_cw = "CHI_TETRAHEDRAL_CW" /\ chiral_ccw = "CHI_TETRAHEDRAL_CCW" /\ bs_cis = "STEREOZ" /\ bs_trans = "STEREOE".
Proof. vm_compute. repeat split; reflexivity. Qed.

Lemma sign_tag_inverse s : sign_of_tag (tag_of_sign s) = Some s.
Proof. destruct s; vm_compute; reflexivity. Qed.
Lemma sign_bs_inverse s : sign_of_bs (bs_of_sign s) = Some s.
Proof. destruct s; vm_compute; reflexivity. Qed.
Lemma tag_sign_inverse t s : sign_of_tag t = Some s -> tag_of_sign s = t.
Proof.
  unfold sign_of_tag. destruct (String.eqb t chiral_cw) eqn:A; destruct (String.eqb t chiral_ccw) eqn:B; cbn; intros H;
    try discriminate; injection H as <-; unfold tag_of_sign.
  - apply String.eqb_eq in A, B. rewrite A in B. vm_compute in B. discriminate.
  - apply String.eqb_eq in A. symmetry. exact A.
  - apply String.eqb_eq in B. symmetry. exact B.
Qed.
Lemma bs_sign_inverse t s : sign_of_bs t = Some s -> bs_of_sign s = t.
Proof.
  unfold sign_of_bs. destruct (String.eqb t bs_cis) eqn:A; destruct (String.eqb t bs_trans) eqn:B; cbn; intros H;
    try discriminate; injection H as <-; unfold bs_of_sign.
  - apply String.eqb_eq in A, B. rewrite A in B. vm_compute in B. discriminate.
  - apply String.eqb_eq in A. symmetry. exact A.
  - apply String.eqb_eq in B. symmetry. exact B.
Qed.

(* ================================================================================================ *)
(* 2. atom attributes *)
Section Atoms.
  Variable symbol : Z -> string.            (* RDKit's GetSymbol as a function of the atomic number: ANY function ... *)
  (* ... that names, for chython, the element with that number whenever chython knows the name at all *)
  Hypothesis symbol_faithful : forall z e, from_symbol (symbol z) = Some e -> e_num e = z.

  (* a chython atom whose attributes are "in range": element known under RDKit's symbol, isotope a tabulated one
     (never 0), charge within -4..4 (exactly what Element.__init__ accepts) *)
  Definition cvalid (c : catom) : Prop :=
    exists e, from_symbol (symbol (c_num c)) = Some e /\
              (forall i, c_iso c = Some i -> i <> 0 /\ isotope_accepted e i = true) /\ -4 <= c_chg c <= 4.

  (* chython -> RDKit -> chython.  [impl] is whatever number of implicit hydrogens RDKit decides to add. *)
  Theorem from_to_atom : forall n keep c h,
    cvalid c -> c_hyd c = Some h -> 0 <= h ->
    exists r, to_atom n keep c = Ok r /\
      forall impl x y, from_atom symbol impl x y r =
        Ok (mkC (c_num c) (c_iso c) (c_chg c) (c_rad c) (Some (h + impl)) (Some (if keep then n else 0)) x y).
  Proof.
    intros n keep c h (e & He & Hiso & Hchg) Hh Hpos. unfold to_atom. rewrite Hh.
    destruct (h <? 0) eqn:Eh; [lia|]. eexists. split; [reflexivity|].
    intros impl x y. unfold from_atom. cbn [r_num r_iso r_chg r_nrad r_exph r_map]. rewrite He.
    pose proof (symbol_faithful _ _ He) as Hnum.
    assert (Echg : (if c_chg c =? 0 then 0 else c_chg c) = c_chg c) by (destruct (c_chg c =? 0) eqn:E; [apply Z.eqb_eq in E; lia | reflexivity]).
    rewrite Echg.
    assert (Erng : ((4 <? c_chg c) || (c_chg c <? -4)) = false).
    { apply orb_false_iff. split; [apply Z.ltb_ge | apply Z.ltb_ge]; lia. }
    rewrite Erng.
    destruct (c_iso c) as [i|] eqn:Ei.
    - destruct (Hiso i eq_refl) as [Hi0 Hacc].
      assert (E0 : (i =? 0) = false) by (apply Z.eqb_neq; exact Hi0). rewrite E0. rewrite E0. rewrite Hacc. cbn [negb].
      rewrite Hnum. destruct (c_rad c); reflexivity.
    - cbn. rewrite Hnum. destruct (c_rad c); reflexivity.
  Qed.

  (* the identity, under the three conditions the statement above makes explicit *)
  Corollary from_to_atom_identity : forall n c h,
    cvalid c -> c_hyd c = Some h -> 0 <= h -> c_map c = Some n ->
    exists r, to_atom n true c = Ok r /\ from_atom symbol 0 (c_x c) (c_y c) r = Ok c.
  Proof.
    intros n c h Hv Hh Hpos Hm. destruct (from_to_atom n true c h Hv Hh Hpos) as (r & Hr & Hf).
    exists r. split; [exact Hr|]. rewrite Hf. rewrite Z.add_0_r. rewrite <- Hh, <- Hm. destruct c; reflexivity.
  Qed.

  (* RDKit -> chython -> RDKit, for EVERY RDKit property record that from_rdkit_molecule accepts *)
  Theorem to_from_atom : forall impl x y r c n keep,
    from_atom symbol impl x y r = Ok c -> 0 <= r_exph r + impl ->
    to_atom n keep c =
      Ok (mkR (r_num r) (r_iso r) (r_chg r) (if r_nrad r =? 0 then 0 else 1) (r_exph r + impl) (if keep then n else 0)).
  Proof.
    intros impl x y r c n keep H Hpos. unfold from_atom in H.
    destruct (from_symbol (symbol (r_num r))) as [e|] eqn:He; [|discriminate].
    pose proof (symbol_faithful _ _ He) as Hnum.
    destruct (match (if r_iso r =? 0 then None else Some (r_iso r)) with Some i => negb (isotope_accepted e i) | None => false end); [discriminate|].
    destruct ((4 <? r_chg r) || (r_chg r <? -4)); [discriminate|].
    injection H as <-. unfold to_atom. cbn [c_hyd c_num c_iso c_chg c_rad].
    destruct (r_exph r + impl <? 0) eqn:E; [lia|]. f_equal. rewrite Hnum. f_equal.
    - destruct (r_iso r =? 0) eqn:E0; [apply Z.eqb_eq in E0; lia | rewrite E0; reflexivity].
    - destruct (r_chg r =? 0) eqn:E0; [apply Z.eqb_eq in E0; lia | reflexivity].
    - destruct (r_nrad r =? 0); reflexivity.
  Qed.

  (* identity on every transferred property except: radical multiplicity (collapsed to 0/1), the split of the hydrogen
     count into explicit and implicit (only the total is kept, as explicit), and the atom map number (replaced) *)
  Corollary to_from_atom_identity : forall x y r c n,
    from_atom symbol 0 x y r = Ok c -> 0 <= r_exph r -> (r_nrad r = 0 \/ r_nrad r = 1) -> r_map r = n ->
    to_atom n true c = Ok r.
  Proof.
    intros x y r c n H Hpos Hrad Hm. rewrite (to_from_atom 0 x y r c n true H) by lia.
    rewrite Z.add_0_r. rewrite <- Hm. f_equal.
    assert (E : (if r_nrad r =? 0 then 0 else 1) = r_nrad r) by (destruct Hrad as [-> | ->]; reflexivity).
    rewrite E. destruct r; reflexivity.
  Qed.
End Atoms.

(* non-vacuity of the hypothesis on RDKit's symbols: chython's own symbol table satisfies it, and every element
   1..118 is found *)
Lemma zget_last_In {V} (d : list (Z * V)) k v : zget_last d k = Some v -> In (k, v) d.
Proof.
  induction d as [|[k' v'] r IH]; intros H; [discriminate|]. cbn in H.
  destruct (zget_last r k) as [w|] eqn:E.
  - injection H as <-. right. apply IH. reflexivity.
  - destruct (k =? k') eqn:E2; [|discriminate]. apply Z.eqb_eq in E2. injection H as <-. subst. left. reflexivity.
Qed.

Lemma symbols_roundtrip_b :
  forallb (fun e0 => match from_symbol (e_sym e0) with Some e => e_num e =? e_num e0 | None => false end) elements = true /\
  from_symbol "" = None.
Proof. vm_compute. split; reflexivity. Qed.

Lemma chython_symbol_faithful : forall z e, from_symbol (chython_symbol z) = Some e -> e_num e = z.
Proof.
  intros z e H. unfold chython_symbol in H. destruct (from_number z) as [e0|] eqn:E0.
  - unfold from_number in E0. apply zget_last_In in E0. apply in_map_iff in E0. destruct E0 as (e1 & Heq & Hin).
    injection Heq as Hz <-. destruct symbols_roundtrip_b as [Hb _]. rewrite forallb_forall in Hb. specialize (Hb e1 Hin).
    rewrite H in Hb. apply Z.eqb_eq in Hb. lia.
  - destruct symbols_roundtrip_b as [_ Hn]. rewrite Hn in H. discriminate.
Qed.

Lemma chython_symbol_total_b :
  forallb (fun z => match from_symbol (chython_symbol z) with Some e => e_num e =? z | None => false end) (zrange 1 119) = true.
Proof. vm_compute. reflexivity. Qed.

Lemma chython_symbol_total : forall z, 1 <= z <= 118 -> exists e, from_symbol (chython_symbol z) = Some e /\ e_num e = z.
Proof.
  intros z Hz. pose proof chython_symbol_total_b as H. rewrite forallb_forall in H.
  assert (Hin : In z (zrange 1 119)) by (apply zrange_In; lia). specialize (H z Hin).
  destruct (from_symbol (chython_symbol z)) as [e|]; [|discriminate]. exists e. split; [reflexivity | apply Z.eqb_eq; exact H].
Qed.

(* a concrete non-trivial instance: [13CH3] radical, mapped, with coordinates *)
Example from_to_atom_example :
  let c := mkC 6 (Some 13) 0 true (Some 3) (Some 7) 11 22 in
  cvalid chython_symbol c /\
  match to_atom 7 true c with Ok r => from_atom chython_symbol 0 11 22 r = Ok c | Err _ => False end.
Proof.
  cbn zeta. split.
  - eexists. split; [vm_compute; reflexivity|]. split.
    + intros i Hi. injection Hi as <-. split; [lia | vm_compute; reflexivity].
    + cbn. lia.
  - vm_compute. reflexivity.
Qed.

(* what is NOT preserved, each with its witness *)
Theorem to_from_radicals_refuted :           (* carbene / triplet: 2 radical electrons come back as 1 *)
  exists r c, from_atom chython_symbol 0 0 0 r = Ok c /\ r_map r = 1 /\ exists r', to_atom 1 true c = Ok r' /\ r' <> r /\ r_nrad r = 2 /\ r_nrad r' = 1.
Proof.
  exists (mkR 6 0 0 2 2 1). eexists. split; [vm_compute; reflexivity|]. split; [reflexivity|].
  eexists. split; [vm_compute; reflexivity|]. split; [discriminate|]. split; reflexivity.
Qed.

Theorem to_from_mapnum_refuted :             (* RDKit atom map number 5 on the first atom comes back as 1 (its new atom number) *)
  exists r c, from_atom chython_symbol 0 0 0 r = Ok c /\ c_map c = Some 5 /\
              exists r', to_atom 1 true c = Ok r' /\ r_map r = 5 /\ r_map r' = 1.
Proof.
  exists (mkR 8 0 0 0 2 5). eexists. split; [vm_compute; reflexivity|]. split; [reflexivity|].
  eexists. split; [vm_compute; reflexivity|]. split; reflexivity.
Qed.

Theorem from_to_hydrogens_refuted :          (* [Na] with 0 hydrogens, when RDKit adds one implicit hydrogen: comes back as NaH *)
  exists c r c', c_hyd c = Some 0 /\ to_atom 1 true c = Ok r /\ from_atom chython_symbol 1 0 0 r = Ok c' /\ c_hyd c' = Some 1.
Proof.
  exists (mkC 11 None 0 false (Some 0) (Some 1) 0 0). eexists. eexists.
  split; [reflexivity|]. split; [vm_compute; reflexivity|]. split; [vm_compute; reflexivity | reflexivity].
Qed.

Theorem to_atom_no_hydrogen_count_raises : forall n keep c, c_hyd c = None -> to_atom n keep c = Err TypeError.
Proof. intros n keep c H. unfold to_atom. rewrite H. reflexivity. Qed.

(* ================================================================================================ *)
(* 3. bonds *)
Theorem from_to_bond : forall sym n m o, In o supported_orders ->
  exists b e t, to_bond sym n m o = Ok (b, e, t) /\
                exists q, from_bond b e t = Ok q /\ same_bond q (n, m, o) = true.
Proof.
  intros sym n m o Ho. destruct (proj1 bond_maps_inverse o Ho) as (t & Ht & Hback).
  unfold to_bond. rewrite Ht. destruct (negb (smem sym inorganic)).
  - exists m, n, t. split; [reflexivity|]. unfold from_bond. rewrite Hback. eexists. split; [reflexivity|].
    cbn. rewrite !Z.eqb_refl. cbn. rewrite orb_true_r. reflexivity.
  - exists n, m, t. split; [reflexivity|]. unfold from_bond. rewrite Hback. eexists. split; [reflexivity|].
    cbn. rewrite !Z.eqb_refl. reflexivity.
Qed.

(* a bond between an atom of the `_inorganic` (non-metal) set and any other atom is written beginning at the non-metal,
   whichever of the two atoms data.bonds() yields first: a dative bond points at the metal *)
Theorem dative_points_to_metal : forall s_nonmetal s_metal n m,
  smem s_nonmetal inorganic = true -> smem s_metal inorganic = false ->
  to_bond s_nonmetal n m 8 = Ok (n, m, "DATIVE") /\ to_bond s_metal m n 8 = Ok (n, m, "DATIVE").
Proof.
  intros sn sm n m Hn Hm. unfold to_bond. rewrite Hn, Hm. cbn [negb].
  destruct bond_tables_b as (_ & _ & _ & _ & H8). apply pyres_eqb_string_eq in H8. rewrite H8. split; reflexivity.
Qed.

(* RDKit -> chython -> RDKit on a dative bond b -> e: the direction survives when b is a non-metal and e is not *)
Theorem dative_to_from : forall sb se b e,
  smem sb inorganic = true -> smem se inorganic = false ->
  exists q, from_bond b e "DATIVE" = Ok q /\ q = (b, e, 8) /\
            to_bond sb b e 8 = Ok (b, e, "DATIVE") /\ to_bond se e b 8 = Ok (b, e, "DATIVE").
Proof.
  intros sb se b e Hb He. exists (b, e, 8). split; [vm_compute; reflexivity|]. split; [reflexivity|].
  apply dative_points_to_metal; assumption.
Qed.

(* ... it is REVERSED when the donor is not in the set and the acceptor is (Fe -> C comes back as C -> Fe), and between
   two atoms of the same class it follows the enumeration order of the atoms instead of the RDKit direction *)
Theorem dative_to_from_refuted :
  from_bond 1 2 "DATIVE" = Ok (1, 2, 8) /\
  to_bond "Fe" 1 2 8 = Ok (2, 1, "DATIVE") /\            (* begin Fe(1), end C(2): written as 2 -> 1 *)
  from_bond 2 1 "DATIVE" = Ok (2, 1, 8) /\
  to_bond "N" 1 2 8 = Ok (1, 2, "DATIVE").               (* N(2) -> O(1), enumerated from atom 1: written as 1 -> 2 *)
Proof. vm_compute. repeat split; reflexivity. Qed.

(* index dictionaries: mapping = {number: index}; for pairwise distinct atom numbers the i-th number maps to i *)
Lemma enum_from_keys {A} (l : list A) : forall i, map fst (enum_from i l) = zrange_from i (List.length l).
Proof. induction l as [|x r IH]; intros i; cbn; [reflexivity | rewrite IH; reflexivity]. Qed.

Lemma enum_from_In {A} (l : list A) : forall i j y, In (j, y) (enum_from i l) -> In y l.
Proof.
  induction l as [|z r IH]; intros i j y Hin; [contradiction|].
  cbn in Hin. destruct Hin as [Hin|Hin]; [injection Hin as _ ->; left; reflexivity | right; apply (IH (i + 1) j); exact Hin].
Qed.

Lemma zget_last_index_map nums : forall i0 k,
  NoDup nums -> (k < List.length nums)%nat ->
  zget_last (map (fun p => (snd p, fst p)) (enum_from i0 nums)) (nth k nums 0) = Some (i0 + Z.of_nat k).
Proof.
  induction nums as [|x r IH]; intros i0 k Hn Hk; [cbn in Hk; lia|].
  inversion Hn as [|? ? Hx Hr]; subst. cbn [enum_from map fst snd zget_last].
  destruct k as [|k].
  - cbn [nth]. rewrite zget_last_None.
    + rewrite Z.eqb_refl. f_equal. lia.
    + unfold keys. rewrite map_map. cbn [fst snd]. intros Hin. apply in_map_iff in Hin. destruct Hin as ([j y] & Hy & Hin).
      cbn in Hy. subst y. apply Hx. apply (enum_from_In r (i0 + 1) j). exact Hin.
  - cbn [nth]. rewrite (IH (i0 + 1) k Hr) by (cbn in Hk; lia). f_equal. lia.
Qed.

Theorem index_map_lookup : forall nums k, NoDup nums -> (k < List.length nums)%nat ->
  midx (index_map nums) (nth k nums 0) = Ok (Z.of_nat k).
Proof.
  intros nums k Hn Hk. unfold midx, index_map. rewrite (zget_last_index_map nums 0 k Hn Hk). reflexivity.
Qed.

(* ================================================================================================ *)
(* 4. coordinates / conformers *)
Lemma zip_xy_flat xy : zip_xy (List.length xy) (map (fun p => (fst p, snd p, czero)) xy) = xy.
Proof. induction xy as [|[x y] r IH]; cbn; [reflexivity | rewrite IH; reflexivity]. Qed.

Lemma filter_fst_true (confs : list (list pos3)) :
  map snd (filter fst (map (fun c => (true, c)) confs)) = confs.
Proof. induction confs as [|c r IH]; cbn; [reflexivity | rewrite IH; reflexivity]. Qed.

(* chython -> RDKit -> chython: 2D coordinates of every atom and the list of 3D conformers come back unchanged *)
Theorem from_to_conformers : forall xy confs,
  from_conformers (List.length xy) (to_conformers xy confs) = (xy, confs).
Proof.
  intros xy confs. unfold to_conformers, from_conformers. rewrite zip_xy_flat. f_equal.
  cbn [filter fst]. apply filter_fst_true.
Qed.

Definition flat (p : pos3) : pos3 := let '(x, y, _) := p in (x, y, czero).

Lemma zip_xy_pos ps : map (fun p => (fst p, snd p, czero)) (zip_xy (List.length ps) ps) = map flat ps.
Proof. induction ps as [|[[x y] z] r IH]; cbn; [reflexivity | rewrite IH; reflexivity]. Qed.

(* RDKit -> chython -> RDKit: the result always starts with a 2D copy of the first conformer (z dropped), followed by the
   3D conformers; so the conformer list is reproduced exactly iff it was one flat 2D conformer *)
Theorem to_from_conformers : forall d ps rest,
  let cs := (d, ps) :: rest in
  let '(xy, confs) := from_conformers (List.length ps) cs in
  to_conformers xy confs = (false, map flat ps) :: map (fun c => (true, snd c)) (filter fst cs).
Proof.
  intros d ps rest. cbn zeta. unfold from_conformers, to_conformers. rewrite zip_xy_pos. f_equal.
  rewrite map_map. reflexivity.
Qed.

Corollary to_from_conformers_2d : forall ps, (forall p, In p ps -> flat p = p) ->
  let '(xy, confs) := from_conformers (List.length ps) [(false, ps)] in to_conformers xy confs = [(false, ps)].
Proof.
  intros ps H. pose proof (to_from_conformers false ps []) as T. cbn zeta in T.
  destruct (from_conformers (List.length ps) [(false, ps)]) as [xy confs]. rewrite T. cbn [filter fst map].
  f_equal. f_equal. rewrite <- (map_id ps) at 2. apply map_ext_in. exact H.
Qed.

Theorem to_from_conformers_3d_refuted :       (* one 3D conformer comes back as two: a flattened 2D copy and itself *)
  let cs := [(true, [(1, 2, 3)])] in
  let '(xy, confs) := from_conformers 1 cs in to_conformers xy confs = [(false, [(1, 2, 0)]); (true, [(1, 2, 3)])].
Proof. vm_compute. reflexivity. Qed.

(* ================================================================================================ *)
(* 5. configuration labels *)
Lemma xorb_cancel s x : xorb (xorb s x) x = s.
Proof. destruct s, x; reflexivity. Qed.

Section TetrahedronBridge.
  Variable isH : Z -> bool.

  (* chython -> RDKit -> chython, four explicit neighbours: whatever arrangement p of the neighbours RDKit uses, the tag
     written for it is read back as the original label *)
  Theorem bridge_th_from_to4 : forall a b c d p s,
    NoDup [a; b; c; d] -> In p perms4 ->
    let o := [a; b; c; d] in
    exists tag, to_chiral_tag isH (Some o) (sel o p) (Some s) = Ok (Some tag) /\
                sign_of_tag tag = Some (xorb s (odd_perm p)) /\
                from_chiral_tag isH (Some o) (sel o p) tag = Ok (Some s).
  Proof.
    intros a b c d p s Hn Hp o. destruct (translate_th_parity4 isH a b c d p s Hn Hp) as [H1 _].
    exists (tag_of_sign (xorb s (odd_perm p))). unfold to_chiral_tag, from_chiral_tag. subst o. rewrite H1.
    split; [reflexivity|]. rewrite sign_tag_inverse. split; [reflexivity|].
    rewrite (proj1 (translate_th_parity4 isH a b c d p _ Hn Hp)). rewrite xorb_cancel. reflexivity.
  Qed.

  (* three heavy neighbours, hydrogen implicit (RDKit lists three neighbours, any arrangement q) *)
  Theorem bridge_th_from_to3 : forall a b c q s,
    NoDup [a; b; c] -> In q perms3 ->
    let o := [a; b; c] in
    exists tag, to_chiral_tag isH (Some o) (sel o q) (Some s) = Ok (Some tag) /\
                from_chiral_tag isH (Some o) (sel o q) tag = Ok (Some s).
  Proof.
    intros a b c q s Hn Hq o. pose proof (translate_th_parity3 isH a b c q s Hn Hq) as H1.
    exists (tag_of_sign (xorb s (odd_perm (q ++ [3])))). unfold to_chiral_tag, from_chiral_tag. subst o. rewrite H1.
    split; [reflexivity|]. rewrite sign_tag_inverse.
    rewrite (translate_th_parity3 isH a b c q _ Hn Hq). rewrite xorb_cancel. reflexivity.
  Qed.

  (* three heavy neighbours and an explicit hydrogen atom h that RDKit lists among the four neighbours, anywhere *)
  Theorem bridge_th_from_to3H : forall a b c h p s,
    NoDup [a; b; c; h] -> isH a = false -> isH b = false -> isH c = false -> isH h = true -> In p perms4 ->
    exists tag, to_chiral_tag isH (Some [a; b; c]) (sel [a; b; c; h] p) (Some s) = Ok (Some tag) /\
                from_chiral_tag isH (Some [a; b; c]) (sel [a; b; c; h] p) tag = Ok (Some s).
  Proof.
    intros a b c h p s Hn Ha Hb Hc Hh Hp. pose proof (translate_th_parity3H isH a b c h p s Hn Ha Hb Hc Hh Hp) as H1.
    exists (tag_of_sign (xorb s (odd_perm p))). unfold to_chiral_tag, from_chiral_tag. rewrite H1.
    split; [reflexivity|]. rewrite sign_tag_inverse.
    rewrite (translate_th_parity3H isH a b c h p _ Hn Ha Hb Hc Hh Hp). rewrite xorb_cancel. reflexivity.
  Qed.

  (* RDKit -> chython -> RDKit.  The molecule built by to_rdkit_molecule may list the neighbours in another
     arrangement p' than the source molecule (p): the new tag differs from the old one exactly by the parity between the
     two arrangements, i.e. it denotes the same configuration; with the same arrangement it is the same tag. *)
  Theorem bridge_th_to_from4 : forall a b c d p p' tag t,
    NoDup [a; b; c; d] -> In p perms4 -> In p' perms4 -> sign_of_tag tag = Some t ->
    let o := [a; b; c; d] in
    exists s tag', from_chiral_tag isH (Some o) (sel o p) tag = Ok (Some s) /\
                   to_chiral_tag isH (Some o) (sel o p') (Some s) = Ok (Some tag') /\
                   sign_of_tag tag' = Some (xorb t (xorb (odd_perm p) (odd_perm p'))) /\
                   (p' = p -> tag' = tag).
  Proof.
    intros a b c d p p' tag t Hn Hp Hp' Ht o. subst o.
    exists (xorb t (odd_perm p)), (tag_of_sign (xorb (xorb t (odd_perm p)) (odd_perm p'))).
    unfold from_chiral_tag, to_chiral_tag. rewrite Ht.
    rewrite (proj1 (translate_th_parity4 isH a b c d p t Hn Hp)).
    rewrite (proj1 (translate_th_parity4 isH a b c d p' _ Hn Hp')).
    split; [reflexivity|]. split; [reflexivity|]. rewrite sign_tag_inverse. split.
    - f_equal. destruct t, (odd_perm p), (odd_perm p'); reflexivity.
    - intros ->. rewrite xorb_cancel. apply tag_sign_inverse. exact Ht.
  Qed.

  (* What the written tag MEANS cannot depend on RDKit's neighbour arrangement.  [meaning env t] is any reading of a
     (neighbour list, "is CCW") pair as an absolute handedness that behaves like a chirality at this centre: it flips
     with the tag and with an odd rearrangement of the list.  Then the handedness RDKit sees after to_rdkit_molecule is
     the handedness of the chython label read against chython's own neighbour order -- for every arrangement p. *)
  Theorem bridge_th_meaning_independent_of_rdkit_order : forall (meaning : list Z -> bool -> bool) a b c d,
    NoDup [a; b; c; d] ->
    (forall env t, meaning env (negb t) = negb (meaning env t)) ->
    (forall p t, In p perms4 -> meaning (sel [a; b; c; d] p) t = xorb (meaning [a; b; c; d] t) (odd_perm p)) ->
    forall p s, In p perms4 ->
    let o := [a; b; c; d] in
    exists tag t, to_chiral_tag isH (Some o) (sel o p) (Some s) = Ok (Some tag) /\ sign_of_tag tag = Some t /\
                  meaning (sel o p) t = meaning o s.
  Proof.
    intros meaning a b c d Hn meaning_tag meaning_perm p s Hp o.
    destruct (bridge_th_from_to4 a b c d p s Hn Hp) as (tag & H1 & H2 & _).
    exists tag, (xorb s (odd_perm p)). split; [exact H1|]. split; [exact H2|].
    subst o. rewrite meaning_perm by exact Hp.
    destruct (odd_perm p).
    - rewrite !xorb_true_r. rewrite meaning_tag. apply negb_involutive.
    - rewrite !xorb_false_r. reflexivity.
  Qed.
End TetrahedronBridge.

(* non-vacuity of the two hypotheses on [meaning]: for the centre with neighbours 1 2 3 4, "tag xor parity of the listed
   numbers" is such a reading *)
Lemma meaning_instance :
  let meaning := fun (env : list Z) (t : bool) => xorb t (odd_perm env) in
  NoDup [1; 2; 3; 4] /\
  (forall env t, meaning env (negb t) = negb (meaning env t)) /\
  (forall p t, In p perms4 -> meaning (sel [1; 2; 3; 4] p) t = xorb (meaning [1; 2; 3; 4] t) (odd_perm p)).
Proof.
  cbn zeta. split; [repeat constructor; cbn; intuition lia|]. split.
  - intros env t. destruct t, (odd_perm env); reflexivity.
  - intros p t Hp.
    assert (H : forallb (fun p => forallb (fun t => Bool.eqb (xorb t (odd_perm (sel [1; 2; 3; 4] p)))
                                                  (xorb (xorb t (odd_perm [1; 2; 3; 4])) (odd_perm p))) [true; false]) perms4 = true)
      by (vm_compute; reflexivity).
    rewrite forallb_forall in H. specialize (H p Hp). rewrite forallb_forall in H.
    apply eqb_prop. apply H. destruct t; cbn; tauto.
Qed.

Section DoubleBondBridge.
  Variable isH : Z -> bool.

  (* chython -> RDKit: the label is written relative to the registry's first substituents (positions 0 and 1).
     RDKit may afterwards name other reference atoms, positions (a, b), a on the first end, b on the last end; a
     geometry-preserving toolkit then reports the label xor ct_parity a b ([label']).  Reading that back gives the
     original label -- for every such choice, and also when RDKit's begin/end atoms are the registry's ends exchanged. *)
  Theorem bridge_ct_from_to : forall n0 n1 n2 n3 a b s label',
    NoDup [n0; n1; n2; n3] -> In a [0; 2] -> In b [1; 3] ->
    let env := (n0, n1, Some n2, Some n3) in
    sign_of_bs label' = Some (xorb s (ct_parity a b)) ->
    to_bond_stereo env s = (n0, n1, bs_of_sign s) /\
    from_bond_stereo isH (Some env) None (pick (n0, n1, n2, n3) a) (pick (n0, n1, n2, n3) b) label' = Ok (Some s) /\
    from_bond_stereo isH None (Some env) (pick (n0, n1, n2, n3) b) (pick (n0, n1, n2, n3) a) label' = Ok (Some s).
  Proof.
    intros n0 n1 n2 n3 a b s label' Hn Ha Hb env Hl. split; [reflexivity|].
    unfold from_bond_stereo, translate_ct. rewrite Hl. subst env.
    rewrite (proj1 (translate_env_law4 isH n0 n1 n2 n3 a b _ Hn Ha Hb)). rewrite xorb_cancel. split; reflexivity.
  Qed.

  (* without re-referencing (RDKit keeps the stereo atoms it was given): plain identity, and here missing substituents
     (None: hydrogens that are not atoms of the graph) are allowed *)
  Theorem bridge_ct_from_to_same_refs : forall n0 n1 o2 o3 s,
    let env := (n0, n1, o2, o3) in
    let '(r0, r1, label) := to_bond_stereo env s in
    from_bond_stereo isH (Some env) None r0 r1 label = Ok (Some s) /\
    from_bond_stereo isH None (Some env) r1 r0 label = Ok (Some s).
  Proof.
    intros n0 n1 o2 o3 s. cbn zeta. unfold to_bond_stereo, from_bond_stereo, translate_ct. rewrite sign_bs_inverse.
    assert (H : translate_env isH (n0, n1, o2, o3) n0 n1 s = Ok s).
    { unfold translate_env. rewrite !Z.eqb_refl. cbn [option_map].
      destruct alkene_table_law as (_ & Hl & _). rewrite forallb_forall in Hl. specialize (Hl 0 (or_introl eq_refl)).
      rewrite forallb_forall in Hl. specialize (Hl 1 (or_introl eq_refl)). apply andb_prop in Hl. destruct Hl as [Hl _].
      destruct (ct_lookup 0 1) as [[|]|]; cbn in Hl; try discriminate. reflexivity. }
    rewrite H. split; reflexivity.
  Qed.

  (* RDKit -> chython -> RDKit: a label z that RDKit holds relative to reference positions (a, b) is written back, relative
     to positions (0, 1), as z xor ct_parity a b -- the same geometry re-referenced; identical when (a, b) = (0, 1) *)
  Theorem bridge_ct_to_from : forall n0 n1 n2 n3 a b label z,
    NoDup [n0; n1; n2; n3] -> In a [0; 2] -> In b [1; 3] -> sign_of_bs label = Some z ->
    let env := (n0, n1, Some n2, Some n3) in
    exists s, from_bond_stereo isH (Some env) None (pick (n0, n1, n2, n3) a) (pick (n0, n1, n2, n3) b) label = Ok (Some s) /\
              to_bond_stereo env s = (n0, n1, bs_of_sign (xorb z (ct_parity a b))) /\
              (a = 0 -> b = 1 -> to_bond_stereo env s = (n0, n1, label)).
  Proof.
    intros n0 n1 n2 n3 a b label z Hn Ha Hb Hl env. exists (xorb z (ct_parity a b)).
    unfold from_bond_stereo, translate_ct. rewrite Hl. subst env.
    rewrite (proj1 (translate_env_law4 isH n0 n1 n2 n3 a b _ Hn Ha Hb)).
    split; [reflexivity|]. split; [reflexivity|]. intros -> ->. unfold to_bond_stereo.
    change (ct_parity 0 1) with false. rewrite xorb_false_r. rewrite (bs_sign_inverse _ _ Hl). reflexivity.
  Qed.
End DoubleBondBridge.

(* atoms without a label / centres chython does not treat as stereogenic transfer nothing, in both directions *)
Theorem no_label_no_tag : forall isH order env,
  to_chiral_tag isH order env None = Ok None /\
  (forall s, to_chiral_tag isH None env s = Ok None) /\
  (forall tag, sign_of_tag tag = None -> from_chiral_tag isH order env tag = Ok None) /\
  (forall tag, from_chiral_tag isH None env tag = Ok None).
Proof.
  intros isH order env. split; [reflexivity|]. split; [intros [s|]; reflexivity|]. split.
  - intros tag H. unfold from_chiral_tag. rewrite H. reflexivity.
  - intros tag. unfold from_chiral_tag. destruct (sign_of_tag tag); reflexivity.
Qed.

(* ================================================================================================ *)
(* 6. whole molecules: to_rdkit_molecule then from_rdkit_molecule on the structure part *)
Lemma mapM_total {A B} (f : A -> pyres B) : forall l, (forall x, In x l -> exists y, f x = Ok y) -> exists l', mapM f l = Ok l'.
Proof.
  induction l as [|x r IH]; intros H; cbn.
  - eexists; reflexivity.
  - destruct (H x (or_introl eq_refl)) as [y Hy]. rewrite Hy.
    destruct IH as [ys Hys]; [intros z Hz; apply H; right; exact Hz|]. rewrite Hys. eexists; reflexivity.
Qed.

Lemma zget_In_keys {V} (d : list (Z * V)) k : In k (map fst d) -> exists v, zget d k = Some v.
Proof.
  induction d as [|[k' v] r IH]; intros H; [contradiction|]. cbn.
  destruct (k =? k') eqn:E; [eexists; reflexivity|]. destruct H as [H|H]; [cbn in H; subst; rewrite Z.eqb_refl in E; discriminate | apply IH; exact H].
Qed.

Lemma to_bond_shape sym n m o b e t : to_bond sym n m o = Ok (b, e, t) ->
  ((b, e) = (n, m) \/ (b, e) = (m, n)) /\ bond_type o = Ok t.
Proof.
  unfold to_bond. destruct (negb (smem sym inorganic)); destruct (bond_type o) as [t'|]; intros H; try discriminate;
    injection H as <- <- <-; split; auto.
Qed.

(* what from_rdkit_molecule makes of the atoms to_rdkit_molecule wrote: the i-th atom gets number i + 1 (counted from the
   start index), keeps element / isotope / charge / radical flag, has its hydrogen count increased by RDKit's implicit
   hydrogens, the coordinates RDKit holds, and its old NUMBER as map number *)
Definition expect_atom (keep : bool) (i : Z) (na : Z * catom) (impl : Z) (p : Z * Z) : Z * catom :=
  (i + 1, mkC (c_num (snd na)) (c_iso (snd na)) (c_chg (snd na)) (c_rad (snd na))
              (option_map (fun h => h + impl) (c_hyd (snd na))) (Some (if keep then fst na else 0)) (fst p) (snd p)).
Fixpoint expect_atoms (keep : bool) (i : Z) (atoms : list (Z * catom)) (impls : list Z) (xy : list (Z * Z)) : list (Z * catom) :=
  match atoms with
  | [] => []
  | na :: r => expect_atom keep i na (match impls with h :: _ => h | [] => 0 end) (match xy with p :: _ => p | [] => (czero, czero) end)
               :: expect_atoms keep (i + 1) r (tl impls) (tl xy)
  end.

Section Molecules.
  Variable symbol : Z -> string.
  Hypothesis symbol_faithful : forall z e, from_symbol (symbol z) = Some e -> e_num e = z.

  Definition atoms_ok (atoms : list (Z * catom)) : Prop :=
    forall na, In na atoms -> cvalid symbol (snd na) /\ exists h, c_hyd (snd na) = Some h /\ 0 <= h.

  Lemma atoms_from_to keep : forall atoms, atoms_ok atoms ->
    exists ras, mapM (fun na => to_atom (fst na) keep (snd na)) atoms = Ok ras /\
                forall i impls xy, from_atoms symbol i ras impls xy = Ok (expect_atoms keep i atoms impls xy).
  Proof.
    induction atoms as [|na r IH]; intros H.
    - exists []. split; reflexivity.
    - destruct (H na (or_introl eq_refl)) as (Hv & h & Hh & Hpos).
      destruct (from_to_atom symbol symbol_faithful (fst na) keep (snd na) h Hv Hh Hpos) as (ra & Hra & Hf).
      destruct IH as (ras & Hras & Hfrom); [intros x Hx; apply H; right; exact Hx|].
      exists (ra :: ras). split.
      + cbn [mapM]. rewrite Hra, Hras. reflexivity.
      + intros i impls xy. cbn [from_atoms expect_atoms].
        destruct (match xy with p :: _ => p | [] => (czero, czero) end) as [x y] eqn:Exy.
        rewrite Hf, Hfrom. unfold expect_atom. rewrite Hh. reflexivity.
  Qed.

  (* the relation between a chython bond (n, m, o) and what it has become: [i], [j] are the positions of n and m in the
     enumeration of the atoms *)
  Definition bond_image (nums : list Z) (b : Z * Z * Z) (P : nat -> nat -> Z -> Prop) : Prop :=
    let '(n, m, o) := b in
    exists i j, (i < List.length nums)%nat /\ (j < List.length nums)%nat /\ nth i nums 0 = n /\ nth j nums 0 = m /\ P i j o.

  Definition to_bond_idx (atoms : list (Z * catom)) (mp : list (Z * Z)) (b : Z * Z * Z) : pyres (Z * Z * string) :=
    let '(n, m', o) := b in
    match zget atoms n with
    | None => Err KeyError
    | Some a =>
        match to_bond (chython_symbol (c_num a)) n m' o with
        | Err e => Err e
        | Ok (bn, en, t) =>
            match midx mp bn, midx mp en with
            | Ok bi, Ok ei => Ok (bi, ei, t)
            | Err e, _ => Err e
            | _, Err e => Err e
            end
        end
    end.

  Lemma bonds_to atoms : NoDup (map fst atoms) ->
    forall bonds, (forall n m o, In (n, m, o) bonds -> In n (map fst atoms) /\ In m (map fst atoms) /\ In o supported_orders) ->
    exists rbs, mapM (to_bond_idx atoms (index_map (map fst atoms))) bonds = Ok rbs /\
      Forall2 (fun b rb => bond_image (map fst atoms) b (fun i j o =>
                 let '(bi, ei, t) := rb in
                 ((bi, ei) = (Z.of_nat i, Z.of_nat j) \/ (bi, ei) = (Z.of_nat j, Z.of_nat i)) /\ rdkit_bond_order t = Ok o)) bonds rbs.
  Proof.
    intros Hnd. induction bonds as [|[[n m] o] r IH]; intros H.
    - exists []. split; [reflexivity | constructor].
    - destruct (H n m o (or_introl eq_refl)) as (Hn & Hm & Ho).
      destruct IH as (rbs & Hrbs & HF); [intros n' m' o' Hin; apply H; right; exact Hin|].
      destruct (zget_In_keys atoms n Hn) as [a Ha].
      destruct (from_to_bond (chython_symbol (c_num a)) n m o Ho) as (b & e & t & Hto & _).
      destruct (to_bond_shape _ _ _ _ _ _ _ Hto) as [Hshape Ht].
      destruct (proj1 bond_maps_inverse o Ho) as (t' & Ht' & Hback). rewrite Ht in Ht'. injection Ht' as <-.
      destruct (In_nth _ _ 0 Hn) as (i & Hi & Hni). destruct (In_nth _ _ 0 Hm) as (j & Hj & Hmj).
      pose proof (index_map_lookup _ i Hnd Hi) as Li. pose proof (index_map_lookup _ j Hnd Hj) as Lj.
      rewrite Hni in Li. rewrite Hmj in Lj.
      destruct Hshape as [E|E]; injection E as -> ->.
      + exists ((Z.of_nat i, Z.of_nat j, t) :: rbs). split.
        * cbn [mapM]. unfold to_bond_idx at 1. rewrite Ha, Hto, Li, Lj. rewrite Hrbs. reflexivity.
        * constructor; [|exact HF]. exists i, j. repeat split; auto.
      + exists ((Z.of_nat j, Z.of_nat i, t) :: rbs). split.
        * cbn [mapM]. unfold to_bond_idx at 1. rewrite Ha, Hto, Li, Lj. rewrite Hrbs. reflexivity.
        * constructor; [|exact HF]. exists i, j. repeat split; auto.
  Qed.

  Lemma bonds_from nums : forall bonds rbs,
    Forall2 (fun b rb => bond_image nums b (fun i j o =>
               let '(bi, ei, t) := rb in
               ((bi, ei) = (Z.of_nat i, Z.of_nat j) \/ (bi, ei) = (Z.of_nat j, Z.of_nat i)) /\ rdkit_bond_order t = Ok o)) bonds rbs ->
    exists bonds', mapM (fun b => let '(bi, ei, t) := b in from_bond (bi + 1) (ei + 1) t) rbs = Ok bonds' /\
      Forall2 (fun b b' => bond_image nums b (fun i j o => same_bond b' (Z.of_nat i + 1, Z.of_nat j + 1, o) = true)) bonds bonds'.
  Proof.
    intros bonds rbs HF. induction HF as [|[[n m] o] [[bi ei] t] r rr Hhd _ IH].
    - exists []. split; [reflexivity | constructor].
    - destruct IH as (bs & Hbs & HF2). destruct Hhd as (i & j & Hi & Hj & Hn & Hm & Hshape & Hord).
      exists ((bi + 1, ei + 1, o) :: bs). split.
      + cbn [mapM]. rewrite Hbs. unfold from_bond. rewrite Hord. reflexivity.
      + constructor; [|exact HF2]. exists i, j. repeat split; auto.
        destruct Hshape as [E|E]; injection E as -> ->; cbn; rewrite !Z.eqb_refl; cbn; [reflexivity | rewrite orb_true_r; reflexivity].
  Qed.

  (* chython -> RDKit -> chython on a whole molecule (structure part): every well-formed molecule is transferred without
     error, and what comes back is the same molecule with the atoms renumbered 1..N in enumeration order: same element,
     isotope, charge, radical flag for every atom, hydrogens h + (RDKit's implicit hydrogens), RDKit's coordinates, the old
     number as map number, and every bond between the renumbered ends with its order (as an undirected bond) -- in the same
     order of bonds. *)
  Theorem from_to_mol : forall keep atoms bonds,
    NoDup (map fst atoms) -> atoms_ok atoms ->
    (forall n m o, In (n, m, o) bonds -> In n (map fst atoms) /\ In m (map fst atoms) /\ In o supported_orders) ->
    exists ras rbs, to_mol keep (atoms, bonds) = Ok (ras, rbs) /\
      forall impls xy, exists bonds',
        from_mol symbol impls xy (ras, rbs) = Ok (expect_atoms keep 0 atoms impls xy, bonds') /\
        Forall2 (fun b b' => bond_image (map fst atoms) b (fun i j o => same_bond b' (Z.of_nat i + 1, Z.of_nat j + 1, o) = true)) bonds bonds'.
  Proof.
    intros keep atoms bonds Hnd Hok Hb.
    destruct (atoms_from_to keep atoms Hok) as (ras & Hras & Hfrom).
    destruct (bonds_to atoms Hnd bonds Hb) as (rbs & Hrbs & HF).
    exists ras, rbs. split.
    - unfold to_mol. rewrite Hras. unfold to_bond_idx in Hrbs. rewrite Hrbs. reflexivity.
    - intros impls xy. destruct (bonds_from _ _ _ HF) as (bonds' & Hb' & HF2).
      exists bonds'. split; [|exact HF2]. unfold from_mol. rewrite Hfrom. rewrite Hb'. reflexivity.
  Qed.
End Molecules.

(* non-vacuity: ethanol-like C(3 H) - C(2 H) - O(1 H) numbered 7, 3, 9, bond list in chython's enumeration order, and a
   dative bond from the oxygen to an iron atom numbered 1 that is enumerated from the iron *)
Example from_to_mol_example :
  let atoms := [(7, mkC 6 None 0 false (Some 3) None 0 0); (3, mkC 6 (Some 13) 0 false (Some 2) None 0 0);
                (9, mkC 8 None 0 false (Some 1) None 0 0); (1, mkC 26 None 2 false (Some 0) None 0 0)] in
  let bonds := [(7, 3, 1); (3, 9, 1); (1, 9, 8)] in
  NoDup (map fst atoms) /\ atoms_ok chython_symbol atoms /\
  (forall n m o, In (n, m, o) bonds -> In n (map fst atoms) /\ In m (map fst atoms) /\ In o supported_orders) /\
  to_mol true (atoms, bonds) = Ok ([mkR 6 0 0 0 3 7; mkR 6 13 0 0 2 3; mkR 8 0 0 0 1 9; mkR 26 0 2 0 0 1],
                                   [(0, 1, "SINGLE"); (1, 2, "SINGLE"); (2, 3, "DATIVE")]).
Proof.
  cbn zeta. split; [repeat constructor; cbn; intuition lia|]. split.
  - intros na Hin. cbn in Hin.
    repeat (destruct Hin as [<-|Hin]; [split; [eexists; split; [vm_compute; reflexivity|]; split;
      [intros i Hi; first [discriminate | injection Hi as <-; split; [lia | vm_compute; reflexivity]] | cbn; lia] | eexists; split; [reflexivity | lia]]|]).
    contradiction.
  - split; [|vm_compute; reflexivity].
    intros n m o Hin. cbn in Hin. repeat (destruct Hin as [Hin|Hin]; [injection Hin as <- <- <-; cbn; intuition lia|]). contradiction.
Qed.

(* ================================================================================================ *)
(* 7. whole molecules: from_rdkit_molecule then to_rdkit_molecule on the structure part *)
Lemma sget_last_In {V} (d : list (string * V)) k v : sget_last d k = Some v -> In (k, v) d.
Proof.
  induction d as [|[k' v'] r IH]; intros H; [discriminate|]. cbn in H.
  destruct (sget_last r k) as [w|] eqn:E.
  - injection H as <-. right. apply IH. reflexivity.
  - destruct (String.eqb k k') eqn:E2; [|discriminate]. apply String.eqb_eq in E2. injection H as <-. subst. left. reflexivity.
Qed.

Lemma rdkit_orders_supported_b : forallb (fun p => zmem (snd p) supported_orders) rdkit_bond_map = true.
Proof. vm_compute. reflexivity. Qed.

Lemma rdkit_bond_order_supported t o : rdkit_bond_order t = Ok o -> In o supported_orders.
Proof.
  unfold rdkit_bond_order. destruct (sget_last rdkit_bond_map t) as [o'|] eqn:E; intros H; [|discriminate]. injection H as <-.
  apply sget_last_In in E. pose proof rdkit_orders_supported_b as Hb. rewrite forallb_forall in Hb. specialize (Hb _ E).
  apply zmem_In. exact Hb.
Qed.

Lemma zrange_from_nth : forall n s k, (k < n)%nat -> nth k (zrange_from s n) 0 = s + Z.of_nat k.
Proof.
  induction n as [|n IH]; intros s k Hk; [lia|]. cbn [zrange_from]. destruct k as [|k]; cbn [nth]; [lia|].
  rewrite IH by lia. lia.
Qed.

Lemma zrange_from_length : forall n s, List.length (zrange_from s n) = n.
Proof. induction n as [|n IH]; intros s; cbn; [reflexivity | rewrite IH; reflexivity]. Qed.

Lemma zrange_from_NoDup : forall n s, NoDup (zrange_from s n).
Proof.
  induction n as [|n IH]; intros s; cbn [zrange_from]; constructor; [|apply IH].
  intros Hin. apply zrange_from_In in Hin. lia.
Qed.

Definition hd0 (l : list Z) : Z := match l with h :: _ => h | [] => 0 end.
(* what to_rdkit_molecule makes of the atoms from_rdkit_molecule read: every property record comes back with the radical
   electrons capped at 1, the total hydrogen count as explicit hydrogens and the new atom number as map number *)
Fixpoint expect_ratoms (keep : bool) (i : Z) (ras : list ratom) (impls : list Z) : list ratom :=
  match ras with
  | [] => []
  | r :: rest => mkR (r_num r) (r_iso r) (r_chg r) (if r_nrad r =? 0 then 0 else 1) (r_exph r + hd0 impls) (if keep then i + 1 else 0)
                 :: expect_ratoms keep (i + 1) rest (tl impls)
  end.
Fixpoint hyd_nonneg (ras : list ratom) (impls : list Z) : Prop :=
  match ras with
  | [] => True
  | r :: rest => 0 <= r_exph r + hd0 impls /\ hyd_nonneg rest (tl impls)
  end.

Section MoleculesBack.
  Variable symbol : Z -> string.
  Hypothesis symbol_faithful : forall z e, from_symbol (symbol z) = Some e -> e_num e = z.

  Lemma atoms_to_from keep : forall ras i impls xy atoms,
    from_atoms symbol i ras impls xy = Ok atoms -> hyd_nonneg ras impls ->
    mapM (fun na => to_atom (fst na) keep (snd na)) atoms = Ok (expect_ratoms keep i ras impls) /\
    map fst atoms = zrange_from (i + 1) (List.length ras).
  Proof.
    induction ras as [|r rest IH]; intros i impls xy atoms H Hh.
    - cbn in H. injection H as <-. split; reflexivity.
    - cbn [from_atoms] in H. destruct (match xy with p :: _ => p | [] => (czero, czero) end) as [x y].
      destruct (from_atom symbol (match impls with h :: _ => h | [] => 0 end) x y r) as [c|] eqn:Ec; [|discriminate].
      destruct (from_atoms symbol (i + 1) rest (tl impls) (tl xy)) as [l|] eqn:El; [|discriminate].
      injection H as <-. destruct Hh as [Hpos Hrest].
      destruct (IH _ _ _ _ El Hrest) as [IH1 IH2].
      pose proof (to_from_atom symbol symbol_faithful _ x y r c (i + 1) keep Ec Hpos) as Hto.
      split.
      + cbn [mapM fst snd]. rewrite Hto. rewrite IH1. reflexivity.
      + cbn [map fst List.length zrange_from]. rewrite IH2. reflexivity.
  Qed.

  Definition rbond_image (rb rb' : Z * Z * string) : Prop :=
    let '(bi, ei, t) := rb in
    exists o t', rdkit_bond_order t = Ok o /\ bond_type o = Ok t' /\ (rb' = (bi, ei, t') \/ rb' = (ei, bi, t')).

  Lemma bonds_to_from (atoms : list (Z * catom)) N : map fst atoms = zrange_from 1 N ->
    forall rbs bonds,
      (forall bi ei t, In (bi, ei, t) rbs -> 0 <= bi < Z.of_nat N /\ 0 <= ei < Z.of_nat N) ->
      mapM (fun b => let '(bi, ei, t) := b in from_bond (bi + 1) (ei + 1) t) rbs = Ok bonds ->
      exists rbs', mapM (to_bond_idx atoms (index_map (map fst atoms))) bonds = Ok rbs' /\ Forall2 rbond_image rbs rbs'.
  Proof.
    intros Hnums. induction rbs as [|[[bi ei] t] r IH]; intros bonds Hrange H.
    - cbn in H. injection H as <-. exists []. split; [reflexivity | constructor].
    - cbn [mapM] in H. unfold from_bond at 1 in H. destruct (rdkit_bond_order t) as [o|] eqn:Eo; [|discriminate].
      destruct (mapM (fun b => let '(bi0, ei0, t0) := b in from_bond (bi0 + 1) (ei0 + 1) t0) r) as [bs|] eqn:Ebs; [|discriminate].
      injection H as <-.
      destruct (IH bs) as (rbs' & Hrbs' & HF); [intros bi' ei' t0 Hin'; apply (Hrange bi' ei' t0); right; exact Hin' | reflexivity |].
      destruct (Hrange bi ei t (or_introl eq_refl)) as [Hbi Hei].
      pose proof (rdkit_bond_order_supported _ _ Eo) as Ho.
      assert (Hnth : forall z, 0 <= z < Z.of_nat N -> (Z.to_nat z < List.length (map fst atoms))%nat /\ nth (Z.to_nat z) (map fst atoms) 0 = z + 1).
      { intros z Hz. rewrite Hnums, zrange_from_length. split; [lia|]. rewrite zrange_from_nth by lia. lia. }
      assert (Hnd : NoDup (map fst atoms)) by (rewrite Hnums; apply zrange_from_NoDup).
      destruct (Hnth bi Hbi) as [Lb Nb]. destruct (Hnth ei Hei) as [Le Ne].
      pose proof (index_map_lookup _ _ Hnd Lb) as Ib. pose proof (index_map_lookup _ _ Hnd Le) as Ie.
      rewrite Nb in Ib. rewrite Ne in Ie. rewrite Z2Nat.id in Ib, Ie by lia.
      assert (Hin : In (bi + 1) (map fst atoms)) by (rewrite <- Nb; apply nth_In; exact Lb).
      destruct (zget_In_keys atoms _ Hin) as [a Ha].
      destruct (from_to_bond (chython_symbol (c_num a)) (bi + 1) (ei + 1) o Ho) as (b & e & t' & Hto & _).
      destruct (to_bond_shape _ _ _ _ _ _ _ Hto) as [Hshape Ht'].
      destruct Hshape as [E|E]; injection E as -> ->.
      + exists ((bi, ei, t') :: rbs'). split.
        * cbn [mapM]. unfold to_bond_idx at 1. rewrite Ha, Hto, Ib, Ie, Hrbs'. reflexivity.
        * constructor; [|exact HF]. exists o, t'. auto.
      + exists ((ei, bi, t') :: rbs'). split.
        * cbn [mapM]. unfold to_bond_idx at 1. rewrite Ha, Hto, Ib, Ie, Hrbs'. reflexivity.
        * constructor; [|exact HF]. exists o, t'. auto.
  Qed.

  (* RDKit -> chython -> RDKit on a whole molecule (structure part): whatever from_rdkit_molecule accepts (bond ends being
     atom indices, no negative hydrogen totals) is written back without error with the same atoms in the same order
     ([expect_ratoms]) and, bond by bond in the same order, a bond between the same two atoms whose type is the image of the
     type under the two dictionaries (the same type for SINGLE/DOUBLE/TRIPLE/AROMATIC/DATIVE, see bond_maps_inverse), possibly
     with begin and end exchanged (dative_to_from says when the direction of a dative bond survives). *)
  Theorem to_from_mol : forall keep impls xy ras rbs atoms bonds,
    from_mol symbol impls xy (ras, rbs) = Ok (atoms, bonds) -> hyd_nonneg ras impls ->
    (forall bi ei t, In (bi, ei, t) rbs -> 0 <= bi < Z.of_nat (List.length ras) /\ 0 <= ei < Z.of_nat (List.length ras)) ->
    exists rbs', to_mol keep (atoms, bonds) = Ok (expect_ratoms keep 0 ras impls, rbs') /\ Forall2 rbond_image rbs rbs'.
  Proof.
    intros keep impls xy ras rbs atoms bonds H Hh Hr. unfold from_mol in H.
    destruct (from_atoms symbol 0 ras impls xy) as [at'|] eqn:Ea; [|discriminate].
    destruct (mapM (fun b => let '(bi, ei, t) := b in from_bond (bi + 1) (ei + 1) t) rbs) as [bs|] eqn:Eb; [|discriminate].
    injection H as <- <-.
    destruct (atoms_to_from keep _ _ _ _ _ Ea Hh) as [H1 H2].
    destruct (bonds_to_from at' _ H2 rbs bs Hr Eb) as (rbs' & Hrbs' & HF).
    exists rbs'. split; [|exact HF]. unfold to_mol. rewrite H1. unfold to_bond_idx in Hrbs'. rewrite Hrbs'. reflexivity.
  Qed.

  Corollary to_from_mol_invertible_types : forall rb rb', rbond_image rb rb' -> In (snd rb) invertible_types ->
    rb' = rb \/ rb' = (snd (fst rb), fst (fst rb), snd rb).
  Proof.
    intros [[bi ei] t] rb' (o & t' & Ho & Ht' & Hs) Hin. cbn [fst snd] in *.
    destruct (proj2 bond_maps_inverse t Hin) as (o2 & Ho2 & Hback). rewrite Ho in Ho2. injection Ho2 as <-.
    rewrite Ht' in Hback. injection Hback as ->. exact Hs.
  Qed.
End MoleculesBack.

Example to_from_mol_example :
  let ras := [mkR 7 15 1 0 3 0; mkR 29 0 1 0 0 4] in
  let rbs := [(0, 1, "DATIVE")] in
  from_mol chython_symbol [0; 0] [(1, 2); (3, 4)] (ras, rbs) =
    Ok ([(1, mkC 7 (Some 15) 1 false (Some 3) (Some 0) 1 2); (2, mkC 29 None 1 false (Some 0) (Some 4) 3 4)], [(1, 2, 8)]) /\
  hyd_nonneg ras [0; 0] /\
  to_mol true ([(1, mkC 7 (Some 15) 1 false (Some 3) (Some 0) 1 2); (2, mkC 29 None 1 false (Some 0) (Some 4) 3 4)], [(1, 2, 8)]) =
    Ok ([mkR 7 15 1 0 3 1; mkR 29 0 1 0 0 2], rbs).
Proof. cbn zeta. split; [vm_compute; reflexivity|]. split; [cbn; lia | vm_compute; reflexivity]. Qed.
