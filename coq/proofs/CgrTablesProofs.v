(* C15 -- the tables, patterns and source fragments the hand-written C15 models copy from chython, compared with what
   tools/gen_cgr.py reads from the source on every run (Gen.CgrTables): an edit of the source breaks one of these. *)
From Coq Require Import ZArith List String Bool.
From Gen Require Import CgrTables.
From Model Require Import PyBase Compose RxnSmiles CgrWriter.
Import ListNotations.
Open Scope Z_scope.

Definition ostr_eqb (a b : option string) : bool := option_eqb String.eqb a b.
Definition grid6 : list (option Z) := [None; Some 1; Some 2; Some 3; Some 4; Some 8].
Definition src_lookup_order (o p : option Z) : option string :=
  match filter (fun e => option_eqb Z.eqb (fst (fst e)) o && option_eqb Z.eqb (snd (fst e)) p) src_dyn_order_str with
  | e :: _ => Some (snd e) | [] => None end.
Definition src_lookup_charge (i : Z) : option string :=
  match filter (fun e => fst e =? i) src_charge_str with e :: _ => Some (snd e) | [] => None end.

(* dyn_order_str, order_str, dyn_radical_str: the model functions are the source dicts, key by key, and undefined elsewhere
   on the whole grid of orders *)
Definition dyn_tables_ok : bool :=
  forallb (fun o => forallb (fun p => ostr_eqb (dyn_order_str o p) (src_lookup_order o p)) grid6) grid6 &&
  forallb (fun e => existsb (option_eqb Z.eqb (fst (fst e))) grid6 && existsb (option_eqb Z.eqb (snd (fst e))) grid6) src_dyn_order_str &&
  Nat.eqb (List.length src_dyn_order_str) 35 &&
  forallb (fun e => ostr_eqb (order_sym (fst e)) (Some (snd e))) src_order_str && Nat.eqb (List.length src_order_str) 6 &&
  forallb (fun e => ostr_eqb (dyn_radical_str (fst (fst e)) (snd (fst e))) (Some (snd e))) src_dyn_radical_str &&
  Nat.eqb (List.length src_dyn_radical_str) 3 && ostr_eqb (dyn_radical_str false false) None.
Theorem dyn_tables_agree : dyn_tables_ok = true.
Proof. vm_compute. reflexivity. Qed.

(* charge_str and the comprehension that builds dyn_charge_str over product(range(-4, 5), repeat=2) with (0, 0) -> '' *)
Definition charge_tables_ok : bool :=
  forallb (fun e => ostr_eqb (charge_str (fst e)) (Some (snd e))) src_charge_str && Nat.eqb (List.length src_charge_str) 9 &&
  forallb (fun i => forallb (fun j =>
      ostr_eqb (dyn_charge_str i j)
        (if (src_dyn_charge_lo <=? i) && (i <? src_dyn_charge_hi) && (src_dyn_charge_lo <=? j) && (j <? src_dyn_charge_hi) then
           match src_lookup_charge i, src_lookup_charge j with
           | Some a, Some b => Some (if (i =? 0) && (j =? 0) then ""%string else if i =? j then a else (a ++ ">" ++ b)%string)
           | _, _ => None
           end
         else None)) (zrange (-7) 8)) (zrange (-7) 8).
Theorem charge_tables_agree : charge_tables_ok = true.
Proof. vm_compute. reflexivity. Qed.

Definition organic_ok : bool :=
  forallb (fun x => smem x src_organic_set) cgr_organic && forallb (fun x => smem x cgr_organic) src_organic_set.
Theorem organic_set_agrees : organic_ok = true.
Proof. vm_compute. reflexivity. Qed.

(* the two regular expressions the matchers of Model.RxnSmiles implement (p_group / p_groups / search_fragments;
   p_commanums / find_radicals) *)
Definition modelled_cx_fragments : string := "f:(?:[0-9]+(?:\.[0-9]+)+)(?:,(?:[0-9]+(?:\.[0-9]+)+))*".
Definition modelled_cx_radicals : string := "\^[1-7]:[0-9]+(?:,[0-9]+)*".
Theorem cx_regexes_agree : String.eqb src_cx_fragments modelled_cx_fragments && String.eqb src_cx_radicals modelled_cx_radicals = true.
Proof. vm_compute. reflexivity. Qed.

(* the sort key and the spec flags of ReactionContainer.__format__ (model: key_leb = (SMILES, radical flags along the written
   order); keep_order = '!c', no_cx = '!x'), __eq__ / __hash__ (model: rxn_eq / rxn_hash), DynamicBond.__hash__ / __int__
   and DynamicElement.__hash__ (model: dbond_invariant / dbond_int / datom_invariant: the hashed attributes in this order) *)
Definition source_fragments_ok : bool :=
  String.eqb src_format_sort_key "lambda x: (x[1], [x[0].atom(n).is_radical for n in x[2]])" &&
  list_eqb String.eqb src_format_flags ["!c"; "!x"]%string &&
  String.eqb src_rxn_eq "return isinstance(other, ReactionContainer) and str(self) == str(other)" &&
  String.eqb src_rxn_hash "return hash(str(self))" &&
  String.eqb src_dbond_hash "return hash((self.order or 0, self.p_order or 0))" &&
  String.eqb src_dbond_int "return hash(self)" &&
  String.eqb src_datom_hash "return hash((self.isotope or 0, self.atomic_number, self.charge, self.p_charge, self.is_radical, self.p_is_radical))".
Theorem source_fragments_agree : source_fragments_ok = true.
Proof. vm_compute. reflexivity. Qed.
