(* C13 -- the fuel of the model's two fuelled functions is sufficient: the out-of-fuel value is never returned.
   read_key (cached_property lookup through the parent chain sssr -> rings_count -> not_special_connectivity ...): 5 is more than the
   longest chain, every larger fuel gives the same result, and the key read is always stored afterwards.
   closure / comps (connected components, fuel = number of atoms): every component is non-empty, within the atoms and closed under
   adjacency, i.e. the iteration reached its fixed point. *)
From Coq Require Import ZArith List Bool Lia.
From Model Require Import PyBase Cache.
From Proofs Require Import CacheProofs CacheWf CacheCopy CacheCopyTotal CacheCoh CacheWorld CacheUnion CacheTheorems CacheUsable CacheExamples CacheTxn
  CacheFresh CacheFreshOps CacheFreshWorld CacheFreshSplit CacheUsable2 CacheUsable3 CacheUsable4 CacheTotal.
Import ListNotations.
Open Scope Z_scope.

Definition depth (k : key) : nat := match k with Krc => 1 | Ksssr => 2 | Kar => 3 | Kars => 4 | _ => 0 end.
Lemma depth_parent k p : parent k = Some p -> depth k = S (depth p).
Proof. destruct k; simpl; intros H; inversion H; reflexivity. Qed.
Lemma depth_le k : (depth k < 5)%nat.
Proof. destruct k; simpl; lia. Qed.

Lemma read_key_fuel v : forall f k c, (depth k < f)%nat -> read_key f v c k = read_key (S (depth k)) v c k.
Proof.
  induction f as [|f IH]; intros k c L; [lia|]. cbn [read_key]. destruct (cget c k); [reflexivity|].
  destruct (parent k) as [p|] eqn:Ep; [|reflexivity]. rewrite (depth_parent _ _ Ep) in *. rewrite IH by lia. reflexivity.
Qed.
Theorem read_fuel_sufficient v c k : forall f, (5 <= f)%nat -> read_key f v c k = read_key 5 v c k.
Proof.
  intros f L. pose proof (depth_le k). rewrite (read_key_fuel v f) by lia. rewrite (read_key_fuel v 5) by lia. reflexivity.
Qed.
Lemma key_eqb_rfl k : key_eqb k k = true.
Proof. destruct k; simpl; try reflexivity. apply Z.eqb_refl. Qed.
Lemma cget_snoc c k s : cget (c ++ [(k, s)]) k <> None.
Proof.
  induction c as [|[k' s'] t IH]; simpl.
  - rewrite key_eqb_rfl. discriminate.
  - destruct (key_eqb k k'); [discriminate | exact IH].
Qed.
Lemma read_key_stores v : forall f k c, (depth k < f)%nat -> cget (fst (read_key f v c k)) k <> None.
Proof.
  induction f as [|f IH]; intros k c L; [lia|]. cbn [read_key]. destruct (cget c k) eqn:E; [cbn [fst]; congruence|].
  destruct (parent k) as [p|]; cbn [fst]; apply cget_snoc.
Qed.
(* a read never runs out of fuel: the property is in __dict__ afterwards (in every state) *)
Theorem read_stores s k : cget (o_cache (s_cur (fst (step s (ORead k))))) k <> None.
Proof.
  cbn [step]. unfold lift, read, ok. cbn [fst s_cur o_cache set_cache].
  exact (read_key_stores _ 5%nat k _ (depth_le k)).
Qed.

Theorem components_reach_fixpoint s : W s -> forall c, In c (comps (o_adj (s_cur s))) ->
  c <> [] /\ incl c (keys (o_atoms (s_cur s))) /\ closed (o_adj (s_cur s)) c.
Proof.
  intros Ws c Hc. pose proof (W_cur _ Ws) as [[Wf _] _].
  assert (forall x y, In y (nbrs (o_adj (s_cur s)) x) -> In y (keys (o_adj (s_cur s)))) as NK by (intros x y Hy; eapply wf_nbrs; eauto).
  unfold comps in Hc. destruct (comps_sub _ NK _ _ _ (incl_refl _) Hc) as [Ne Sub]. split; [exact Ne|]. split.
  - rewrite <- (wf_keys _ _ _ Wf). exact Sub.
  - eapply comps_closed; eauto.
Qed.
