(* C05 -- Thiele.thiele after the ring loop: Model.Thiele.thiele_model / thiele_model_t are equal to the same functions written
   with the decisions GENERATED from the source (Gen.ThielePost, tools/gen_thielepost.py; the ring loop through
   Gen.ThieleCls / KekuleGenTie.ring_step_src).  An edit of the out-of-ring double bond test, of the hydrogen-moving search
   (seed, cut, stop test, alternation, extension filter, written hydrogens), of the pruning test, of the ring count formula or
   of a written bond order in thiele.py changes Gen.ThielePost and breaks gen_thiele_model_eq / gen_thiele_model_t_eq. *)
From Coq Require Import ZArith List Bool Lia Arith.
From Model Require Import PyBase Graph Kekule Thiele.
From Gen Require Import ThieleCls ThielePost.
From Proofs Require Import KekuleGenTie.
Import ListNotations.
Open Scope Z_scope.

(* ---------------- the pieces, written with the generated decisions ---------------- *)

(* double_bonded = {n for n in rings if any(m not in rings[n] and b == 2 for m, b in bonds[n].items())} *)
Definition exo_dbl_src (g : mol) (rings0 : adjl) : list Z :=
  filter (fun n => existsb (fun mb => gen_tp_exo (zmem (fst mb) (al_get rings0 n)) (b_ord (snd mb))) (nbrs g n)) (keys rings0).
Definition exo_dbl (g : mol) (rings0 : adjl) : list Z :=
  filter (fun n => existsb (fun mb => ord_is 2 mb && negb (zmem (fst mb) (al_get rings0 n))) (nbrs g n)) (keys rings0).

Lemma existsb_ext {A} (f f' : A -> bool) : (forall a, f a = f' a) -> forall l, existsb f l = existsb f' l.
Proof. intros H l. induction l as [|x r IH]; simpl; [reflexivity|]. rewrite H, IH. reflexivity. Qed.
Lemma filter_ext' {A} (f f' : A -> bool) : (forall a, f a = f' a) -> forall l, filter f l = filter f' l.
Proof. intros H l. induction l as [|x r IH]; simpl; [reflexivity|]. rewrite H, IH. reflexivity. Qed.

Lemma gen_exo_dbl_eq g rings0 : exo_dbl_src g rings0 = exo_dbl g rings0.
Proof.
  unfold exo_dbl_src, exo_dbl. apply filter_ext'. intros n. apply existsb_ext. intros mb.
  unfold gen_tp_exo, ord_is. apply andb_comm.
Qed.

(* the hydrogen-moving search *)
Fixpoint taut_dfs_src (fuel : nat) (g : mol) (ords : adjl) (dbl acc : list Z) (stack : list titem) (path : list (Z * Z * Z)) (seen : list Z)
  : option (list (Z * Z * Z) * Z) :=
  match fuel with
  | O => None
  | S f =>
      match pop_last stack with
      | None => None
      | Some ((last, current, depth, order), stack') =>
          let d := Z.to_nat depth in
          let '(path1, seen1) :=
            if gen_tp_cut (List.length path) depth
            then (firstn d path, filter (fun x => negb (zmem x (map (fun e => snd (fst e)) (skipn d path)))) seen)
            else (path, seen) in
          let path2 := path1 ++ [(last, current, order)] in
          if zmem current acc then
            (if gen_tp_found order then Some (path2, current) else taut_dfs_src f g ords dbl acc stack' path2 seen1)
          else
            let seen2 := seen1 ++ [current] in
            let new_order := gen_tp_new_order order in
            let nxt := filter (fun n => gen_tp_extend (zmem n seen2) (zmem n dbl) (order_of g current n) order) (al_get ords current) in
            taut_dfs_src f g ords dbl acc (stack' ++ map (fun n => (current, n, depth + gen_tp_depth_step, new_order)) nxt) path2 seen2
      end
  end.

Theorem gen_taut_dfs_eq : forall fuel g ords dbl acc stack path seen,
  taut_dfs_src fuel g ords dbl acc stack path seen = taut_dfs fuel g ords dbl acc stack path seen.
Proof.
  induction fuel as [|f IH]; intros; [reflexivity|].
  simpl. destruct (pop_last stack) as [[[[[last current] depth] order] stack']|]; [|reflexivity].
  unfold gen_tp_cut, gen_tp_found, gen_tp_new_order, gen_tp_extend, gen_tp_depth_step.
  destruct (Z.to_nat depth <? List.length path)%nat; destruct (zmem current acc); destruct (order =? 1); try reflexivity; apply IH.
Qed.

Fixpoint taut_donors_src (fuel : nat) (ords : adjl) (dbl : list Z) (donors : list Z) (g : mol) (acc pyr : list Z) : mol * list Z * list Z :=
  match donors with
  | [] => (g, acc, pyr)
  | start :: rest =>
      let stack := map (fun n => ((start, n, gen_tp_depth0, gen_tp_order0) : titem)) (filter (fun n => gen_tp_seed (zmem n dbl)) (al_get ords start)) in
      match taut_dfs_src fuel g ords dbl acc stack [] [start] with
      | None => taut_donors_src fuel ords dbl rest g acc pyr
      | Some (path, current) =>
          let acc' := filter (fun x => negb (x =? current)) acc in
          let pyr' := filter (fun x => negb (x =? start)) pyr in
          let pyr'' := if zmem current pyr' then pyr' else pyr' ++ [current] in
          let g1 := set_h_atom (set_h_atom g current gen_tp_h_acceptor) start gen_tp_h_donor in
          let g2 := fold_left (fun g e => let '(n, m, o) := e in set_order g n m o) path g1 in
          match acc' with
          | [] => (g2, acc', pyr'')
          | _ => taut_donors_src fuel ords dbl rest g2 acc' pyr''
          end
      end
  end.

Theorem gen_taut_donors_eq : forall fuel ords dbl donors g acc pyr,
  taut_donors_src fuel ords dbl donors g acc pyr = taut_donors fuel ords dbl donors g acc pyr.
Proof.
  intros fuel ords dbl donors. induction donors as [|start rest IH]; intros; [reflexivity|].
  simpl. rewrite gen_taut_dfs_eq. unfold gen_tp_seed, gen_tp_depth0, gen_tp_order0, gen_tp_h_acceptor, gen_tp_h_donor.
  destruct (taut_dfs fuel g ords dbl acc _ [] [start]) as [[path current]|]; [|apply IH].
  destruct (filter (fun x => negb (x =? current)) acc); [reflexivity|apply IH].
Qed.

(* while True: n = next(n for n, ms in rings.items() if len(ms) == 1) ... *)
Fixpoint prune_src (fuel : nat) (pyr : list Z) (d : adjl) : pyres adjl :=
  match fuel with
  | O => Err OtherError
  | S f =>
      match filter (fun nl => gen_tp_leaf (Z.of_nat (List.length (snd nl)))) d with
      | [] => Ok d
      | (n, ms) :: _ =>
          let m := hd 0 ms in
          let d1 := ds_del d n in
          if zmem n pyr then prune_src f pyr (if al_has d1 m then ds_discard d1 m n else d1 ++ [(m, [])])
          else if negb (al_has d1 m) then Err KeyError
          else let pm := remove_first n (al_get d1 m) in
               prune_src f pyr (fold_left (fun d x => if al_has d x then ds_discard d x m else d ++ [(x, [])]) pm (ds_del d1 m))
      end
  end.

Theorem gen_prune_eq : forall fuel pyr d, prune_src fuel pyr d = prune fuel pyr d.
Proof.
  induction fuel as [|f IH]; intros; [reflexivity|].
  simpl. unfold gen_tp_leaf. destruct (filter _ d) as [|[n ms] r]; [reflexivity|].
  destruct (zmem n pyr); [apply IH|]. destruct (negb (al_has (ds_del d n) (hd 0 ms))); [reflexivity|apply IH].
Qed.

(* quinone removal + pruning, ring count, writing: everything after the (optional) hydrogen-moving search *)
Definition thiele_tail_src (gt : mol) (s : th1) (rings0 : adjl) (dbl pyr : list Z) (rings2 : list (list Z)) (freak_ok : list bool) : pyres th_out :=
  let no := fun (d : adjl) (k : Z) => (Ok (mkOut false gt d k pyr (t_freaks s)) : pyres th_out) in
  let stage2 :=
    match dbl with
    | [] => Ok (Some rings0)
    | _ => let d1 := fold_left drop_atom dbl rings0 in
           let d2 := filter (fun nl => nonempty (snd nl)) d1 in
           match d2 with
           | [] => Ok None
           | _ => match prune_src (S (List.length d2)) pyr d2 with
                  | Err e => Err e
                  | Ok [] => Ok None
                  | Ok d3 => Ok (Some d3)
                  end
           end
    end in
  match stage2 with
  | Err e => Err e
  | Ok None => no [] 0
  | Ok (Some d) =>
      let n_sssr := gen_tp_nsssr (Z.of_nat (fold_right (fun nl a => (List.length (snd nl) + a)%nat) O d)) (Z.of_nat (List.length d))
                                 (components (List.length d) d (keys d) [] 0) in
      if gen_tp_stop n_sssr then no d 0
      else
        let seen := concat rings2 in
        let g1 := fold_left (fun g r => if forallb (fun n => zmem n seen) r then set_bonds g r gen_tp_order_tetra else g) (t_tetra s) gt in
        let g2 := fold_left (fun g r => set_bonds g r gen_tp_order_ring) rings2 g1 in
        let g3 := fold_left (fun (g : mol) (rb : list Z * bool) => if snd rb then set_bonds g (fst rb) gen_tp_order_freak else g) (combine (t_freaks s) freak_ok) g2 in
        Ok (mkOut true g3 d n_sssr pyr (t_freaks s))
  end.

(* the whole of thiele(fix_tautomers=False) from generated decisions only *)
Definition thiele_model_src (g : mol) (sssr : list (list Z)) (rings2 : list (list Z)) (freak_ok : list bool) : pyres th_out :=
  let s := fold_left (ring_step_src g) sssr (mkTh1 [] [] [] []) in
  match t_rings s with
  | [] => Ok (mkOut false g [] 0 (t_pyr s) (t_freaks s))
  | rings0 => thiele_tail_src g s rings0 (exo_dbl_src g rings0) (t_pyr s) rings2 freak_ok
  end.

Theorem gen_thiele_model_eq : forall g sssr rings2 freak_ok,
  thiele_model_src g sssr rings2 freak_ok = thiele_model g sssr rings2 freak_ok.
Proof.
  intros. unfold thiele_model_src, thiele_model. cbv zeta.
  rewrite (fold_ext _ _ (gen_ring_step_eq g)).
  generalize (fold_left (ring_step g) sssr (mkTh1 [] [] [] [])). intros s.
  destruct (t_rings s) as [|x0 l]; [reflexivity|].
  unfold thiele_tail_src. cbv zeta. rewrite gen_exo_dbl_eq. unfold exo_dbl.
  unfold gen_tp_nsssr, gen_tp_stop, gen_tp_order_tetra, gen_tp_order_ring, gen_tp_order_freak.
  rewrite gen_prune_eq. reflexivity.
Qed.

(* the whole of thiele(fix_tautomers=True) from generated decisions only *)
Definition thiele_model_t_src (g : mol) (sssr : list (list Z)) (ords : adjl) (rings2 : list (list Z)) (freak_ok : list bool) : pyres th_out :=
  let st := fold_left (ring_step_t_src g) sssr (mkTh1t (mkTh1 [] [] [] []) [] []) in
  let s := tt_base st in
  match t_rings s with
  | [] => Ok (mkOut false g [] 0 (t_pyr s) (t_freaks s))
  | rings0 =>
      let dbl := exo_dbl_src g rings0 in
      let '(gt, _, pyr) :=
        match tt_acc st, tt_don st with
        | _ :: _, _ :: _ => taut_donors_src (List.length (m_atoms g) * List.length (m_atoms g) + 10)%nat ords dbl (tt_don st) g (tt_acc st) (t_pyr s)
        | _, _ => (g, tt_acc st, t_pyr s)
        end in
      thiele_tail_src gt s rings0 dbl pyr rings2 freak_ok
  end.

Theorem gen_thiele_model_t_eq : forall g sssr ords rings2 freak_ok,
  thiele_model_t_src g sssr ords rings2 freak_ok = thiele_model_t g sssr ords rings2 freak_ok.
Proof.
  intros. unfold thiele_model_t_src, thiele_model_t. cbv zeta.
  rewrite (fold_ext _ _ (gen_ring_step_t_eq g)).
  generalize (fold_left (ring_step_t g) sssr (mkTh1t (mkTh1 [] [] [] []) [] [])). intros st.
  destruct (t_rings (tt_base st)) as [|x0 l]; [reflexivity|].
  rewrite gen_exo_dbl_eq. unfold exo_dbl. rewrite gen_taut_donors_eq.
  destruct (tt_acc st) as [|a0 al]; destruct (tt_don st) as [|d0 dl];
    try (unfold thiele_tail_src; cbv zeta;
         unfold gen_tp_nsssr, gen_tp_stop, gen_tp_order_tetra, gen_tp_order_ring, gen_tp_order_freak;
         rewrite gen_prune_eq; reflexivity).
  destruct (taut_donors _ ords _ (d0 :: dl) g (a0 :: al) (t_pyr (tt_base st))) as [[gt a] pyr].
  unfold thiele_tail_src. cbv zeta.
  unfold gen_tp_nsssr, gen_tp_stop, gen_tp_order_tetra, gen_tp_order_ring, gen_tp_order_freak.
  rewrite gen_prune_eq. reflexivity.
Qed.

(* non-vacuity of the generated decisions: the values the model relies on *)
Theorem gen_thiele_post_values :
  gen_tp_exo false 2 = true /\ gen_tp_exo true 2 = false /\ gen_tp_exo false 1 = false /\
  gen_tp_new_order 2 = 1 /\ gen_tp_new_order 1 = 2 /\ gen_tp_found 1 = true /\ gen_tp_found 2 = false /\
  gen_tp_extend false false 2 2 = true /\ gen_tp_extend true false 2 2 = false /\ gen_tp_extend false true 2 2 = false /\ gen_tp_extend false false 1 2 = false /\
  gen_tp_leaf 1 = true /\ gen_tp_leaf 2 = false /\ gen_tp_nsssr 12 6 1 = 1 /\ gen_tp_nsssr 22 10 1 = 2 /\ gen_tp_stop 0 = true /\ gen_tp_stop 1 = false /\
  [gen_tp_order_tetra; gen_tp_order_ring; gen_tp_order_freak; gen_tp_h_acceptor; gen_tp_h_donor; gen_tp_depth0; gen_tp_order0; gen_tp_depth_step] = [1; 4; 4; 1; 0; 0; 2; 1].
Proof. repeat split; reflexivity. Qed.
