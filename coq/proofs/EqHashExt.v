(* C01: Smiles.__eq__ / __hash__ at molecule level as corollaries of the string theorems: two descriptions of one structure (any
   renumbering, any insertion order, the same stereo labels) compare equal and hash equal, for every hash function of strings. *)
From Coq Require Import ZArith List String Bool Lia Permutation.
From Model Require Import PyBase PyHash Graph Morgan Stereo Writer.
From Proofs Require Import MorganProofs WriterInvProofs StereoOrderExt EnvLaws CtMapOrderExt SameStereo InsertionOrderExt2.
Import ListNotations.
Open Scope Z_scope.

(* a molecule as the writer sees it: the labelled graph, its weights (`_chiral_morgan`), the set-order priorities, its registries *)
Record described := mkDesc { d_mol : mol; d_w : Z -> Z; d_tb : Z -> Z; d_tabs : stabs }.
(* str(mol): the text of the default option set; the Python exception, if any, is not a string: mapped to the empty string *)
Definition canon_of (o : opts) (d : described) : string :=
  match smiles_text (d_mol d) (d_w d) (d_tb d) o (d_tabs d) with Ok (txt, _) => txt | Err _ => EmptyString end.

Lemma canon_of_map_order o d d' s :
  smiles_text (d_mol d') (d_w d') (d_tb d') o (d_tabs d') = map_order s (smiles_text (d_mol d) (d_w d) (d_tb d) o (d_tabs d)) ->
  canon_of o d' = canon_of o d.
Proof. intros H. unfold canon_of. rewrite H. destruct (smiles_text (d_mol d) (d_w d) (d_tb d) o (d_tabs d)) as [[t l]|e]; reflexivity. Qed.

(* mol == other and hash(mol) == hash(other) for two descriptions of one structure with all stereo marks *)
Theorem eq_hash_structure_only (o : opts) (str_hash : string -> Z) (d d' : described) (s : Z -> Z) (flipc : Z -> Z -> bool) :
  wf_mol (strip (d_mol d)) = true -> wf_mol (strip (d_mol d')) = true -> (forall x y, s x = s y -> x = y) -> s 0 = 0 ->
  mol_perm (ren_mol s (strip (d_mol d))) (strip (d_mol d')) -> inj_on (ids (d_mol d)) (d_w d) ->
  (forall n, In n (ids (d_mol d)) -> d_w d' (s n) = d_w d n) -> o_mapping o = false ->
  (forall x, is_H (d_mol d) x = false) -> (forall x, is_H (d_mol d') x = false) ->
  same_atom_stereo (d_mol d) (d_mol d') s (d_tabs d) (d_tabs d') -> same_ct_stereo (d_mol d) (d_mol d') s (d_tabs d) (d_tabs d') flipc ->
  mol_eq (canon_of o) d' d = true /\ mol_eq (canon_of o) d d' = true /\ mol_hash (canon_of o) str_hash d' = mol_hash (canon_of o) str_hash d.
Proof.
  intros. assert (canon_of o d' = canon_of o d) as E
    by (apply (canon_of_map_order o d d' s); apply (smiles_invariant_discrete _ _ s _ _ _ _ o _ _ flipc); assumption).
  unfold mol_eq, mol_hash. rewrite E. repeat split; apply String.eqb_refl.
Qed.

(* the stereo-free comparison format(a, '!s') == format(b, '!s') needs no stereo hypothesis at all *)
Theorem eq_hash_nostereo_structure_only (o : opts) (str_hash : string -> Z) (d d' : described) (s : Z -> Z) :
  wf_mol (d_mol d) = true -> wf_mol (d_mol d') = true -> (forall x y, s x = s y -> x = y) ->
  mol_perm (ren_mol s (d_mol d)) (d_mol d') -> inj_on (ids (d_mol d)) (d_w d) ->
  (forall n, In n (ids (d_mol d)) -> d_w d' (s n) = d_w d n) -> o_stereo o = false -> o_mapping o = false ->
  mol_eq (canon_of o) d' d = true /\ mol_hash (canon_of o) str_hash d' = mol_hash (canon_of o) str_hash d.
Proof.
  intros. assert (canon_of o d' = canon_of o d) as E
    by (apply (canon_of_map_order o d d' s); apply smiles_text_perm; assumption).
  unfold mol_eq, mol_hash. rewrite E. split; [apply String.eqb_refl | reflexivity].
Qed.
