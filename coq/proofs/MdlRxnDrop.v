(* C11: a molecule of a reaction record that the reader has to DROP (empty CTAB, R-group, atom list, polymer ...) leaves every other
   molecule in the role it has in the file -- for the bookkeeping of parse_rxn_v2000 / parse_rxn_v3000 as TRANSLATED from the source
   (Gen.MdlFn.src_rxn_drop; proofs/MdlFnTie.v shows that the model's rxn_loop applies exactly this function on a dropped molecule, and
   that the V3000 chain is the same function).  The molecules of the record are given by their outcome in file order (Some m: parsed,
   None: dropped); the counters start as the parsers compute them from the counts line (a, a + p, a + p + g). *)
From Coq Require Import ZArith List String Ascii Bool Lia.
From Model Require Import PyBase Mdl.
From Gen Require Import MdlFn.
Import ListNotations.
Open Scope Z_scope.
Local Notation length := List.length.

Section Drop.
  Variable X : Type.
  Definition somes (l : list (option X)) : list X := flat_map (fun o => match o with Some m => [m] | None => [] end) l.
  (* one round of the molecule loop on the list of parsed molecules and the three counters *)
  Definition drop_step (st : list X * Z * Z * Z) (o : option X) : list X * Z * Z * Z :=
    let '(mols, rc, pc, gc) := st in
    match o with
    | Some m => (mols ++ [m], rc, pc, gc)
    | None => let '(rc', pc', gc') := src_rxn_drop (Z.of_nat (length mols)) rc pc gc in (mols, rc', pc', gc')
    end.
  Definition drops (l : list (option X)) : Z := Z.of_nat (length l) - Z.of_nat (length (somes l)).

  Lemma somes_cons_some m l : somes (Some m :: l) = m :: somes l. Proof. reflexivity. Qed.
  Lemma somes_cons_none l : somes (None :: l) = somes l. Proof. reflexivity. Qed.
  Lemma somes_app a b : somes (a ++ b) = somes a ++ somes b. Proof. apply flat_map_app. Qed.
  Lemma drops_some m l : drops (Some m :: l) = drops l.
  Proof. unfold drops. rewrite somes_cons_some. cbn [length]. lia. Qed.
  Lemma drops_none l : drops (None :: l) = 1 + drops l.
  Proof. unfold drops. rewrite somes_cons_none. cbn [length]. lia. Qed.
  Lemma len_snoc (l : list X) m : Z.of_nat (length (l ++ [m])) = Z.of_nat (length l) + 1.
  Proof. rewrite app_length. cbn [length]. lia. Qed.

  (* reactant positions: the molecules read so far plus the remaining reactants stay below the reactant boundary *)
  Lemma phase_reactants : forall A mols rc pc gc, Z.of_nat (length mols) + Z.of_nat (length A) <= rc ->
    fold_left drop_step A (mols, rc, pc, gc) = (mols ++ somes A, rc - drops A, pc - drops A, gc - drops A).
  Proof.
    induction A as [|[m|] A IH]; intros mols rc pc gc H.
    - cbn. rewrite app_nil_r. unfold drops. cbn. f_equal; [f_equal; [f_equal|]|]; lia.
    - cbn [fold_left drop_step]. cbn [length] in H. rewrite IH by (rewrite len_snoc; lia).
      rewrite drops_some, somes_cons_some, <- app_assoc. reflexivity.
    - cbn [fold_left drop_step]. cbn [length] in H. unfold src_rxn_drop.
      replace (Z.of_nat (length mols) <? rc) with true by (symmetry; apply Z.ltb_lt; lia).
      rewrite IH by lia. rewrite drops_none, somes_cons_none. f_equal; [f_equal; [f_equal|]|]; lia.
  Qed.
  (* product positions: at or above the reactant boundary, below the product boundary *)
  Lemma phase_products : forall P mols rc pc gc, rc <= Z.of_nat (length mols) -> Z.of_nat (length mols) + Z.of_nat (length P) <= pc ->
    fold_left drop_step P (mols, rc, pc, gc) = (mols ++ somes P, rc, pc - drops P, gc - drops P).
  Proof.
    induction P as [|[m|] P IH]; intros mols rc pc gc H1 H2.
    - cbn. rewrite app_nil_r. unfold drops. cbn. f_equal; [f_equal|]; lia.
    - cbn [fold_left drop_step]. cbn [length] in H2. rewrite IH by (rewrite len_snoc; lia).
      rewrite drops_some, somes_cons_some, <- app_assoc. reflexivity.
    - cbn [fold_left drop_step]. cbn [length] in H2. unfold src_rxn_drop.
      replace (Z.of_nat (length mols) <? rc) with false by (symmetry; apply Z.ltb_ge; lia).
      replace (Z.of_nat (length mols) <? pc) with true by (symmetry; apply Z.ltb_lt; lia).
      rewrite IH by lia. rewrite drops_none, somes_cons_none. f_equal; [f_equal|]; lia.
  Qed.
  (* agent positions: at or above both boundaries *)
  Lemma phase_agents : forall G mols rc pc gc, rc <= Z.of_nat (length mols) -> pc <= Z.of_nat (length mols) ->
    fold_left drop_step G (mols, rc, pc, gc) = (mols ++ somes G, rc, pc, gc - drops G).
  Proof.
    induction G as [|[m|] G IH]; intros mols rc pc gc H1 H2.
    - cbn. rewrite app_nil_r. unfold drops. cbn. f_equal; lia.
    - cbn [fold_left drop_step]. rewrite IH by (rewrite len_snoc; lia).
      rewrite drops_some, somes_cons_some, <- app_assoc. reflexivity.
    - cbn [fold_left drop_step]. unfold src_rxn_drop.
      replace (Z.of_nat (length mols) <? rc) with false by (symmetry; apply Z.ltb_ge; lia).
      replace (Z.of_nat (length mols) <? pc) with false by (symmetry; apply Z.ltb_ge; lia).
      rewrite IH by lia. rewrite drops_none, somes_cons_none. f_equal; lia.
  Qed.

  Lemma drops_len l : drops l = Z.of_nat (length l) - Z.of_nat (length (somes l)). Proof. reflexivity. Qed.

  (* the whole record: the counters end as the lengths of what was read per role, so the final slices
     molecules[:rc], molecules[rc:pc], molecules[pc:] are the parsed reactants, products and agents *)
  Theorem rxn_drop_roles : forall A P G,
    let a := Z.of_nat (length A) in let p := Z.of_nat (length P) in let g := Z.of_nat (length G) in
    let '(mols, rc, pc, gc) := fold_left drop_step (A ++ P ++ G) ([], a, a + p, a + p + g) in
    mols = somes A ++ somes P ++ somes G /\
    rc = Z.of_nat (length (somes A)) /\ pc = rc + Z.of_nat (length (somes P)) /\ gc = pc + Z.of_nat (length (somes G)) /\
    firstn (Z.to_nat rc) mols = somes A /\ lslice (Z.to_nat rc) (Z.to_nat pc) mols = somes P /\ skipn (Z.to_nat pc) mols = somes G.
  Proof.
    intros A P G a p g. rewrite !fold_left_app.
    rewrite phase_reactants by (cbn [length]; lia). cbn [app].
    rewrite phase_products by (rewrite !drops_len; lia).
    rewrite phase_agents by (rewrite app_length, !drops_len; lia).
    rewrite !drops_len. fold a p g.
    set (sa := somes A). set (sp := somes P). set (sg := somes G).
    assert (E1 : a - (a - Z.of_nat (length sa)) = Z.of_nat (length sa)) by lia.
    assert (E2 : a + p - (a - Z.of_nat (length sa)) - (p - Z.of_nat (length sp)) = Z.of_nat (length sa) + Z.of_nat (length sp)) by lia.
    rewrite E1, E2. rewrite <- app_assoc.
    replace (Z.to_nat (Z.of_nat (length sa) + Z.of_nat (length sp))) with (length sa + length sp)%nat by lia. rewrite Nat2Z.id.
    repeat split; try lia.
    - rewrite firstn_app, Nat.sub_diag, firstn_all. cbn [firstn]. apply app_nil_r.
    - unfold lslice. replace (length sa + length sp - length sa)%nat with (length sp) by lia.
      rewrite skipn_app, Nat.sub_diag, skipn_all. cbn [skipn app].
      rewrite firstn_app, Nat.sub_diag, firstn_all. cbn [firstn]. apply app_nil_r.
    - rewrite skipn_app. rewrite (skipn_all2 sa) by lia. replace (length sa + length sp - length sa)%nat with (length sp) by lia.
      rewrite skipn_app, Nat.sub_diag, skipn_all. reflexivity.
  Qed.
End Drop.

(* non-vacuity: 2 reactants, 2 products, 1 agent; the FIRST product is dropped: the second reactant stays a reactant *)
Example rxn_drop_roles_instance :
  fold_left (drop_step nat) ([Some 1; Some 2] ++ [None; Some 4] ++ [Some 5])%nat ([], 2, 4, 5) = ([1; 2; 4; 5]%nat, 2, 3, 4).
Proof. vm_compute. reflexivity. Qed.
