(* C01: the concrete relation "g' is g renumbered by s and re-inserted in another order, carrying the same stereo labels": every
   stereo registry entry of g' is the renamed entry of g up to the re-orderings a different insertion order can cause (the two
   substituents of an end listed in the other order, the two ends exchanged, a centre / terminal pair listed in the other
   orientation), with the stored signs re-expressed accordingly.  From it: the atom marks and the cis/trans map agree, hence
   `smiles_invariant_discrete` with all stereo marks under any renumbering and any insertion order.
   Restriction: the molecule has no explicit hydrogen ATOMS (implicit hydrogens are fine): an explicit hydrogen can stand for either
   missing substituent of a double-bond system, which makes the exchange-of-ends law fail for such arguments. *)
From Coq Require Import ZArith List String Bool Lia Permutation.
From Model Require Import PyBase PyHash Graph Morgan Stereo Writer.
From Proofs Require Import MorganProofs WriterInvProofs WriterStereoExt StereoProofs BfsExt BfsExt2 TraverseOrderExt InsertionOrderExt
  InsertionOrderExt2 StereoOrderExt StereoOrderExt2 EnvLaws CtMapOrderExt AllStereoExt.
Import ListNotations.
Open Scope Z_scope.

Definition var_env (sa sb ex : bool) (e : env4) : env4 :=
  let e1 := if sa then swapA e else e in
  let e2 := if sb then swapB e1 else e1 in
  if ex then exch_env e2 else e2.

Lemma in_env_var sa sb ex e x : in_env x (var_env sa sb ex e) = in_env x e.
Proof.
  destruct e as [[[n0 n1] [n2|]] [n3|]]; destruct sa, sb, ex; cbn;
    repeat match goal with |- context [x =? ?y] => destruct (x =? y) end; reflexivity.
Qed.

Section VarLaw.
  Variable isH : Z -> bool.
  Hypothesis noH : forall x, isH x = false.

  Lemma canB_swapA e : canB (swapA e) = canB e.
  Proof. destruct e as [[[n0 n1] [n2|]] [n3|]]; reflexivity. Qed.

  Lemma var_law sa sb ex e nn nm sg : env_ok isH e -> (sa = true -> canA e = true) -> (sb = true -> canB e = true) ->
    translate_env isH (var_env sa sb ex e) nn nm (xorb sg (xorb sa sb)) =
    if ex then translate_env isH e nm nn sg else translate_env isH e nn nm sg.
  Proof.
    intros Hok Ha Hb. unfold var_env.
    assert (forall e0 u v t, env_ok isH e0 ->
              translate_env isH (if ex then exch_env e0 else e0) u v t = if ex then translate_env isH e0 v u t else translate_env isH e0 u v t) as Hex.
    { intros e0 u v t H0. destruct ex; [apply exch_law; [exact H0 | apply noH | apply noH] | reflexivity]. }
    destruct sa, sb; cbn [xorb].
    - rewrite Hex by (apply env_ok_swapB, env_ok_swapA; exact Hok).
      replace (xorb sg false) with (negb (negb sg)) by (destruct sg; reflexivity).
      destruct ex; rewrite (swapB_law isH (swapA e)), (swapA_law isH e); try reflexivity; try assumption;
        try (apply env_ok_swapA; exact Hok); try (rewrite canB_swapA; apply Hb; reflexivity); apply Ha; reflexivity.
    - rewrite Hex by (apply env_ok_swapA; exact Hok). replace (xorb sg true) with (negb sg) by (destruct sg; reflexivity).
      destruct ex; rewrite (swapA_law isH e); try reflexivity; try assumption; apply Ha; reflexivity.
    - rewrite Hex by (apply env_ok_swapB; exact Hok). replace (xorb sg true) with (negb sg) by (destruct sg; reflexivity).
      destruct ex; rewrite (swapB_law isH e); try reflexivity; try assumption; apply Hb; reflexivity.
    - rewrite Hex by exact Hok. replace (xorb sg false) with sg by (destruct sg; reflexivity). reflexivity.
  Qed.
End VarLaw.

(* ---- the labelled atoms ---- *)
Definition same_atom_stereo (g g' : mol) (s : Z -> Z) (tabs tabs' : stabs) : Prop :=
  forall n a a', atom_of g n = Some a -> atom_of g' (s n) = Some a' ->
    (a_stereo a = None /\ a_stereo a' = None) \/
    (exists sg aa bb cc dd q, a_stereo a = Some sg /\ zget (t_allene_term tabs) n = None /\ zget (t_allene_term tabs') (s n) = None /\
       zget (t_tetra tabs) n = Some [aa; bb; cc; dd] /\ NoDup [aa; bb; cc; dd] /\ In q perms4 /\
       zget (t_tetra tabs') (s n) = Some (map s (sel [aa; bb; cc; dd] q)) /\ a_stereo a' = Some (xorb sg (odd_perm q)) /\ a_h a' = a_h a) \/
    (exists sg aa bb cc q, a_stereo a = Some sg /\ zget (t_allene_term tabs) n = None /\ zget (t_allene_term tabs') (s n) = None /\
       zget (t_tetra tabs) n = Some [aa; bb; cc] /\ NoDup [aa; bb; cc] /\ In q perms3 /\
       zget (t_tetra tabs') (s n) = Some (map s (sel [aa; bb; cc] q)) /\
       a_stereo a' = Some (xorb sg (odd_perm (q ++ [3]))) /\ a_h a' = a_h a) \/
    (* an allene centre: the two substituents of an end may be listed in the other order (sa / sb), the ends may be exchanged (xe) *)
    (exists (sg : bool) (t1 t2 : Z) (env : env4) (sa sb xe : bool), a_stereo a = Some sg /\ zget (t_allene_term tabs) n = Some (t1, t2) /\
       zget (t_allenes tabs) n = Some env /\ env_ok (is_H g) env /\ (sa = true -> canA env = true) /\ (sb = true -> canB env = true) /\
       zget (t_allene_term tabs') (s n) = Some (if xe then (s t2, s t1) else (s t1, s t2)) /\
       zget (t_allenes tabs') (s n) = Some (ren_env s (var_env sa sb xe env)) /\ a_stereo a' = Some (xorb sg (xorb sa sb))).

Section AtomMarks.
  Variable g g' : mol.
  Variable s : Z -> Z.
  Variable o : opts.
  Variable tabs tabs' : stabs.
  Hypothesis s_inj : forall x y, s x = s y -> x = y.
  Hypothesis noH : forall x, is_H g x = false.
  Hypothesis noH' : forall x, is_H g' x = false.
  Hypothesis Hre : same_atom_stereo g g' s tabs tabs'.

  Lemma HisH_noH x : is_H g' (s x) = is_H g x.
  Proof. rewrite noH, noH'. reflexivity. Qed.

  Lemma find_env_ren env env' l : (forall x, in_env (s x) env' = in_env x env) ->
    find (fun x => in_env x env' || is_H g' x) (map s l) = option_map s (find (fun x => in_env x env || is_H g x) l).
  Proof. intros H. apply (find_map s). intros x. rewrite H, noH, noH'. reflexivity. Qed.

  Lemma stereo_mark_same n a a' adj : atom_of g n = Some a -> atom_of g' (s n) = Some a' ->
    stereo_mark g' o tabs' (s n) (ren_vis s adj) a' = stereo_mark g o tabs n adj a.
  Proof.
    intros Ha Ha'. destruct (Hre n a a' Ha Ha') as [[H1 H2]|[[sg [aa [bb [cc [dd [q [H1 [H2 [H3 [H4 [H5 [H6 [H7 [H8 H9]]]]]]]]]]]]]]|
      [[sg [aa [bb [cc [q [H1 [H2 [H3 [H4 [H5 [H6 [H7 [H8 H9]]]]]]]]]]]]]|
       [sg [t1 [t2 [env [sa [sb [xe [H1 [H2 [H3 [Hok [Hsa [Hsb [H4 [H5 H6]]]]]]]]]]]]]]]]]].
    - unfold stereo_mark. rewrite H1, H2. reflexivity.
    - unfold stereo_mark. rewrite H1, H8. destruct (negb (o_stereo o)); [reflexivity|].
      rewrite H2, H3, H4, H7. unfold ren_vis at 1. rewrite (zget_renG s s_inj (map s)). fold (ren_vis s adj).
      destruct (zget adj n) as [env|]; cbn [option_map]; [|reflexivity].
      rewrite (translate_th_ren s s_inj (is_H g) (is_H g') HisH_noH), (translate_th_reorder_any (is_H g) aa bb cc dd H5 q env sg H6).
      rewrite H9, (first_key_ren s s_inj). reflexivity.
    - unfold stereo_mark. rewrite H1, H8. destruct (negb (o_stereo o)); [reflexivity|].
      rewrite H2, H3, H4, H7. unfold ren_vis at 1. rewrite (zget_renG s s_inj (map s)). fold (ren_vis s adj).
      destruct (zget adj n) as [env|]; cbn [option_map]; [|reflexivity].
      rewrite (translate_th_ren s s_inj (is_H g) (is_H g') HisH_noH),
        (translate_th_reorder_any3 (is_H g) aa bb cc H5 (conj (noH aa) (conj (noH bb) (noH cc))) q env sg H6).
      rewrite H9, (first_key_ren s s_inj). reflexivity.
    - unfold stereo_mark. rewrite H1, H6. destruct (negb (o_stereo o)); [reflexivity|].
      rewrite H2, H3, H4, H5.
      assert (forall x, in_env (s x) (ren_env s (var_env sa sb xe env)) = in_env x env) as Hin
        by (intros x; rewrite (in_env_ren s s_inj), in_env_var; reflexivity).
      assert (forall n1 n2, translate_al (is_H g') (ren_env s (var_env sa sb xe env)) (s n1) (s n2) (xorb sg (xorb sa sb)) =
                            if xe then translate_al (is_H g) env n2 n1 sg else translate_al (is_H g) env n1 n2 sg) as Htr.
      { intros n1 n2. unfold translate_al. rewrite (translate_env_ren s s_inj (is_H g) (is_H g') HisH_noH).
        apply (var_law (is_H g) noH sa sb xe env n1 n2 sg Hok Hsa Hsb). }
      unfold ren_vis. destruct xe.
      + rewrite !(zget_renG s s_inj (map s)).
        destruct (zget adj t2) as [l2|]; destruct (zget adj t1) as [l1|]; cbn [option_map]; try reflexivity.
        rewrite !(find_env_ren env _ _ Hin).
        destruct (find (fun x => in_env x env || is_H g x) l2) as [n2|]; destruct (find (fun x => in_env x env || is_H g x) l1) as [n1|];
          cbn [option_map]; try reflexivity.
        rewrite Htr. reflexivity.
      + rewrite !(zget_renG s s_inj (map s)).
        destruct (zget adj t1) as [l1|]; destruct (zget adj t2) as [l2|]; cbn [option_map]; try reflexivity.
        rewrite !(find_env_ren env _ _ Hin).
        destruct (find (fun x => in_env x env || is_H g x) l1) as [n1|]; destruct (find (fun x => in_env x env || is_H g x) l2) as [n2|];
          cbn [option_map]; try reflexivity.
        rewrite Htr. reflexivity.
  Qed.
End AtomMarks.

(* ---- the cis / trans registries ---- *)
(* the environment of the double-bond system with terminals a, b as seen from a *)
Definition oenv (tabs : stabs) (a b : Z) : option env4 :=
  match pget (t_sct tabs) (a, b) with Some e => Some e | None => option_map exch_env (pget (t_sct tabs) (b, a)) end.
Definition phi_of (s : Z -> Z) (flipc : Z -> Z -> bool) (p : Z * Z) : Z * Z :=
  if flipc (fst p) (snd p) then (s (snd p), s (fst p)) else (s (fst p), s (snd p)).

Definition same_ct_stereo (g g' : mol) (s : Z -> Z) (tabs tabs' : stabs) (flipc : Z -> Z -> bool) : Prop :=
  (forall i j, flipc i j = flipc j i) /\
  (forall k, zget (t_ctcp tabs') (s k) = option_map s (zget (t_ctcp tabs) k)) /\
  (forall k, zget (t_ctc tabs') (s k) = option_map (phi_of s flipc) (zget (t_ctc tabs) k)) /\
  Permutation (map s (stereo_bond_atoms g)) (stereo_bond_atoms g') /\
  (forall k, match envof tabs k with
             | None => envof tabs' (s k) = None
             | Some e => exists sa sb xe : bool, envof tabs' (s k) = Some (ren_env s (var_env sa sb xe e))
             end) /\
  (forall key e, pget (t_sct tabs) key = Some e -> env_ok (is_H g) e) /\
  (forall key e, pget (t_sct tabs') key = Some e -> env_ok (is_H g') e) /\
  (forall k o', zget (t_ctcp tabs) k = Some o' ->
     match oenv tabs k o' with
     | None => oenv tabs' (s k) (s o') = None
     | Some e => exists sa sb : bool, (sa = true -> canA e = true) /\ (sb = true -> canB e = true) /\
                   oenv tabs' (s k) (s o') = Some (ren_env s (var_env sa sb false e)) /\
                   centre_stereo g' tabs' (s k) = option_map (fun s0 => xorb s0 (xorb sa sb)) (centre_stereo g tabs k)
     end).

Section CtMarks.
  Variable g g' : mol.
  Variable s : Z -> Z.
  Variable tabs tabs' : stabs.
  Variable flipc : Z -> Z -> bool.
  Hypothesis s_inj : forall x y, s x = s y -> x = y.
  Hypothesis s_zero : s 0 = 0.
  Hypothesis noH : forall x, is_H g x = false.
  Hypothesis noH' : forall x, is_H g' x = false.
  Hypothesis Hct : same_ct_stereo g g' s tabs tabs' flipc.

  Lemma phi_eqb a b : (forall i j, flipc i j = flipc j i) -> pair_eqbZ (phi_of s flipc a) (phi_of s flipc b) = pair_eqbZ a b.
  Proof.
    intros Hsym. destruct a as [i j], b as [i' j']. unfold phi_of, pair_eqbZ. cbn [fst snd].
    destruct (flipc i j) eqn:F1; destruct (flipc i' j') eqn:F2; cbn [fst snd]; rewrite !(seqb s s_inj); try apply andb_comm; try reflexivity.
    - destruct (Z.eqb_spec j i'); destruct (Z.eqb_spec i j'); destruct (Z.eqb_spec i i'); destruct (Z.eqb_spec j j'); subst; cbn; try reflexivity;
        try (rewrite Hsym in F1; congruence); congruence.
    - destruct (Z.eqb_spec i j'); destruct (Z.eqb_spec j i'); destruct (Z.eqb_spec i i'); destruct (Z.eqb_spec j j'); subst; cbn; try reflexivity;
        try (rewrite Hsym in F1; congruence); congruence.
  Qed.

  Lemma translate_ct_oenv (isH : Z -> bool) (tb : stabs) a b nn nm s0 : (forall x, isH x = false) ->
    (forall key e, pget (t_sct tb) key = Some e -> env_ok isH e) ->
    translate_ct isH (pget (t_sct tb) (a, b)) (pget (t_sct tb) (b, a)) nn nm s0 =
    match oenv tb a b with Some e => translate_env isH e nn nm s0 | None => Err KeyError end.
  Proof.
    intros HnH Hok. unfold translate_ct, oenv. destruct (pget (t_sct tb) (a, b)) as [e|]; [reflexivity|].
    destruct (pget (t_sct tb) (b, a)) as [e|] eqn:E; cbn [option_map]; [|reflexivity].
    symmetry. apply exch_law; [apply (Hok (b, a) e E) | apply HnH | apply HnH].
  Qed.

  Lemma Hsem_same k o' v on : zget (t_ctcp tabs) k = Some o' ->
    ct_entry_sign g' tabs' (s k) (s o') (s v) (s on) = ct_entry_sign g tabs k o' v on.
  Proof.
    intros Ho. destruct Hct as [_ [_ [_ [_ [_ [Hok [Hok' H8]]]]]]]. specialize (H8 k o' Ho). unfold ct_entry_sign.
    assert (forall s0, translate_ct (is_H g) (pget (t_sct tabs) (k, o')) (pget (t_sct tabs) (o', k)) v on s0 =
                       match oenv tabs k o' with Some e => translate_env (is_H g) e v on s0 | None => Err KeyError end) as Hl
      by (intros s0; apply translate_ct_oenv; assumption).
    assert (forall s0, translate_ct (is_H g') (pget (t_sct tabs') (s k, s o')) (pget (t_sct tabs') (s o', s k)) (s v) (s on) s0 =
                       match oenv tabs' (s k) (s o') with Some e => translate_env (is_H g') e (s v) (s on) s0 | None => Err KeyError end) as Hr
      by (intros s0; apply translate_ct_oenv; assumption).
    destruct (oenv tabs k o') as [e|] eqn:Eo.
    - destruct H8 as [sa [sb [Ha [Hb [He Hc]]]]]. rewrite Hc. destruct (centre_stereo g tabs k) as [s0|]; cbn [option_map]; [|reflexivity].
      rewrite Hr, Hl, He. rewrite (translate_env_ren s s_inj (is_H g) (is_H g')) by (intros x; rewrite noH, noH'; reflexivity).
      assert (env_ok (is_H g) e) as Hoke.
      { unfold oenv in Eo. destruct (pget (t_sct tabs) (k, o')) as [e1|] eqn:E1; [injection Eo as <-; apply (Hok _ _ E1)|].
        destruct (pget (t_sct tabs) (o', k)) as [e2|] eqn:E2; cbn [option_map] in Eo; [|discriminate]. injection Eo as <-.
        apply env_ok_exch. apply (Hok _ _ E2). }
      apply (var_law (is_H g) noH sa sb false e v on s0 Hoke Ha Hb).
    - destruct (centre_stereo g' tabs' (s k)) as [s1|]; destruct (centre_stereo g tabs k) as [s0|]; rewrite ?Hr, ?Hl, ?H8; reflexivity.
  Qed.

  Theorem ct_map_same adj : ct_map g' tabs' (ren_vis s adj) = ren_pmres s (ct_map g tabs adj).
  Proof.
    destruct Hct as [Hsym [H1 [H2 [H3 [H4 _]]]]].
    apply (ct_map_order g g' s tabs tabs' (phi_of s flipc) s_inj s_zero).
    - intros a b. apply phi_eqb. exact Hsym.
    - exact H2.
    - exact H1.
    - intros k cs _. unfold phi_of. 
      assert (forall x, zmem (s x) (stereo_bond_atoms g') = zmem x (stereo_bond_atoms g)) as Hz
        by (intros x; rewrite <- (zmem_perm _ _ (s x) H3); apply (zmem_renG s s_inj)).
      destruct (flipc (fst cs) (snd cs)); cbn [fst snd]; rewrite !Hz; [apply andb_comm | reflexivity].
    - split; intros E; rewrite E in H3; cbn [map] in H3.
      + apply Permutation_sym, Permutation_nil in H3. destruct (stereo_bond_atoms g); [reflexivity | discriminate].
      + apply Permutation_nil in H3. exact H3.
    - intros k. specialize (H4 k). unfold env_rel. destruct (envof tabs k) as [e|].
      + destruct H4 as [sa [sb [xe ->]]]. intros v. rewrite (in_env_ren s s_inj), in_env_var. reflexivity.
      + rewrite H4. exact I.
    - intros k o' v on Ho. apply Hsem_same. exact Ho.
  Qed.
End CtMarks.

(* ==================================================================================================== *)
(* DESIGN appendix A, in full: g' is g renumbered by s AND re-inserted in any order, carrying the same stereo labels
   (same_atom_stereo, same_ct_stereo); the weights are injective (discrete classes); any tie-break priorities on the two sides.
   The text with ALL stereo marks (tetrahedral, allene, cis/trans), closure numbers and CXSMILES suffix is the same, the written
   order is mapped by s.  Molecules without explicit hydrogen atoms. *)
Theorem smiles_invariant_discrete (g g' : mol) (s w w' tb tb' : Z -> Z) (o : opts) (tabs tabs' : stabs) (flipc : Z -> Z -> bool) :
  wf_mol (strip g) = true -> wf_mol (strip g') = true -> (forall x y, s x = s y -> x = y) -> s 0 = 0 ->
  mol_perm (ren_mol s (strip g)) (strip g') -> inj_on (ids g) w -> (forall n, In n (ids g) -> w' (s n) = w n) -> o_mapping o = false ->
  (forall x, is_H g x = false) -> (forall x, is_H g' x = false) ->
  same_atom_stereo g g' s tabs tabs' -> same_ct_stereo g g' s tabs tabs' flipc ->
  smiles_text g' w' tb' o tabs' = map_order s (smiles_text g w tb o tabs).
Proof.
  intros Hwf Hwf' Hs H0 Hp Hw Hr Hmp HnH HnH' Hat Hct.
  apply (smiles_text_atom_stereo_perm_all g g' s w w' tb tb' o tabs tabs' Hwf Hwf' Hs Hp Hw Hr Hmp).
  - intros n a a' adj Ha Ha'. apply (stereo_mark_same g g' s o tabs tabs' Hs HnH HnH' Hat n a a' adj Ha Ha').
  - intros visited n m. rewrite (ct_map_same g g' s tabs tabs' flipc Hs H0 HnH HnH' Hct). unfold format_bond.
    pose proof (bond_of_perm (strip g) (strip g') s Hwf Hs Hp n m) as Hb. rewrite !bond_of_strip in Hb.
    rewrite <- (hybridization_strip g' (s n)), <- (hybridization_strip g' (s m)), <- (hybridization_strip g n), <- (hybridization_strip g m),
      !(hybridization_perm (strip g) (strip g') s Hwf Hs Hp).
    destruct (bond_of g' (s n) (s m)) as [b'|]; destruct (bond_of g n m) as [b|]; cbn [option_map] in Hb; try discriminate; [|reflexivity].
    injection Hb as ->.
    destruct (ct_map g tabs visited) as [cm|e]; cbn [ren_pmres]; [|reflexivity].
    rewrite (pget_pm_ren s Hs). reflexivity.
Qed.

(* ---- non-vacuity: (Z)-1-chloro-2-fluoroethene, renumbered n -> 2 n and inserted from the other end: the double-bond system is
        registered in the other orientation (key, centre pair, terminal pair, environment exchanged) ---- *)
Definition exd_a (z hh : Z) : atom := mkAtom z None 0 false (Some hh) None.
Definition exd_g : mol :=
  mkMol [(1, exd_a 9 0); (2, exd_a 6 1); (3, exd_a 6 1); (4, exd_a 17 0)]
        [(1, [(2, mkBond 1 None)]); (2, [(1, mkBond 1 None); (3, mkBond 2 (Some true))]); (3, [(2, mkBond 2 (Some true)); (4, mkBond 1 None)]);
         (4, [(3, mkBond 1 None)])].
Definition exd_tabs : stabs :=
  mkStabs [] [] [] [((2, 3), (1, 4, None, None))] [(2, (2, 3)); (3, (2, 3))] [(2, (2, 3)); (3, (2, 3))] [(2, 3); (3, 2)].
Definition exd_g' : mol :=
  mkMol [(8, exd_a 17 0); (6, exd_a 6 1); (4, exd_a 6 1); (2, exd_a 9 0)]
        [(8, [(6, mkBond 1 None)]); (6, [(8, mkBond 1 None); (4, mkBond 2 (Some true))]); (4, [(6, mkBond 2 (Some true)); (2, mkBond 1 None)]);
         (2, [(4, mkBond 1 None)])].
Definition exd_tabs' : stabs :=
  mkStabs [] [] [] [((6, 4), (8, 2, None, None))] [(6, (6, 4)); (4, (6, 4))] [(6, (6, 4)); (4, (6, 4))] [(6, 4); (4, 6)].
Definition exd_s (n : Z) : Z := 2 * n.
Definition exd_flip (i j : Z) : bool := ((i =? 2) && (j =? 3)) || ((i =? 3) && (j =? 2)).

Ltac zcases k := destruct (Z.eqb_spec k 1) as [->|?]; [|destruct (Z.eqb_spec k 2) as [->|?]; [|destruct (Z.eqb_spec k 3) as [->|?];
                   [|destruct (Z.eqb_spec k 4) as [->|?]]]].
Ltac zdone := cbn -[Z.mul Z.eqb]; repeat match goal with |- context [?x =? ?y] => destruct (Z.eqb_spec x y); try lia end; try reflexivity; try discriminate.

Lemma exd_noH x : is_H exd_g x = false.
Proof. unfold is_H, atom_of, exd_g. cbn [m_atoms zget]. zcases x; first [reflexivity | zdone]. Qed.
Lemma exd_noH' x : is_H exd_g' x = false.
Proof.
  unfold is_H, atom_of, exd_g'. cbn [m_atoms zget].
  destruct (Z.eqb_spec x 8) as [->|?]; [reflexivity|]. destruct (Z.eqb_spec x 6) as [->|?]; [reflexivity|].
  destruct (Z.eqb_spec x 4) as [->|?]; [reflexivity|]. destruct (Z.eqb_spec x 2) as [->|?]; [reflexivity|]. first [reflexivity | zdone].
Qed.

Lemma exd_atoms : same_atom_stereo exd_g exd_g' exd_s exd_tabs exd_tabs'.
Proof.
  intros n a a' Ha Ha'. left. unfold atom_of, exd_g in Ha. cbn [m_atoms zget] in Ha.
  zcases n; try (injection Ha as <-; vm_compute in Ha'; injection Ha' as <-; split; reflexivity); try discriminate.
Qed.

Lemma exd_ct : same_ct_stereo exd_g exd_g' exd_s exd_tabs exd_tabs' exd_flip.
Proof.
  unfold same_ct_stereo. split; [intros i j; unfold exd_flip; rewrite orb_comm, (andb_comm (i =? 3)), (andb_comm (i =? 2)); reflexivity|].
  split; [intros k; unfold exd_s; zcases k; zdone|].
  split; [intros k; unfold exd_s, phi_of, exd_flip; zcases k; zdone|].
  split; [vm_compute; apply perm_swap|].
  split.
  { intros k. unfold envof, exd_s. zcases k.
    - reflexivity.
    - exists false, false, true. reflexivity.
    - exists false, false, true. reflexivity.
    - reflexivity.
    - cbn -[Z.mul Z.eqb]. repeat match goal with |- context [?x =? ?y] => destruct (Z.eqb_spec x y); try lia end. reflexivity. }
  split.
  { intros [a b] e H. cbn [exd_tabs t_sct pget] in H. destruct (pair_eqbZ (a, b) (2, 3)); [|discriminate]. injection H as <-.
    cbn. repeat split; try lia; apply exd_noH. }
  split.
  { intros [a b] e H. cbn [exd_tabs' t_sct pget] in H. destruct (pair_eqbZ (a, b) (6, 4)); [|discriminate]. injection H as <-.
    cbn. repeat split; try lia; apply exd_noH'. }
  intros k o' Ho. cbn [exd_tabs t_ctcp zget] in Ho.
  destruct (Z.eqb_spec k 2) as [->|N2]; [injection Ho as <-|destruct (Z.eqb_spec k 3) as [->|N3]; [injection Ho as <-|discriminate]].
  - cbn. exists false, false. repeat split; try discriminate.
  - cbn. exists false, false. repeat split; try discriminate.
Qed.

Theorem smiles_invariant_discrete_example :
  wf_mol (strip exd_g) = true /\ wf_mol (strip exd_g') = true /\ (forall x y, exd_s x = exd_s y -> x = y) /\ exd_s 0 = 0 /\
  mol_perm (ren_mol exd_s (strip exd_g)) (strip exd_g') /\ inj_on (ids exd_g) (fun n => n) /\
  (forall n, In n (ids exd_g) -> (fun m => m / 2) (exd_s n) = (fun n => n) n) /\
  (forall x, is_H exd_g x = false) /\ (forall x, is_H exd_g' x = false) /\
  same_atom_stereo exd_g exd_g' exd_s exd_tabs exd_tabs' /\ same_ct_stereo exd_g exd_g' exd_s exd_tabs exd_tabs' exd_flip /\
  smiles_text exd_g (fun n => n) (fun n => n) default_opts exd_tabs = Ok ("F/C=C\Cl"%string, [1; 2; 3; 4]) /\
  smiles_text exd_g' (fun m => m / 2) (fun n => - n) default_opts exd_tabs' = Ok ("F/C=C\Cl"%string, [2; 4; 6; 8]).
Proof.
  split; [vm_compute; reflexivity|]. split; [vm_compute; reflexivity|]. split; [intros x y; unfold exd_s; lia|]. split; [reflexivity|].
  split.
  { split.
    - cbn [ren_mol strip exd_g exd_g' m_atoms map fst snd exd_s strip_atom exd_a a_num a_iso a_chg a_rad a_h].
      change (2 * 1) with 2. change (2 * 2) with 4. change (2 * 3) with 6. change (2 * 4) with 8.
      apply (Permutation_cons_app [(8, mkAtom 17 None 0 false (Some 0) None); (6, mkAtom 6 None 0 false (Some 1) None); (4, mkAtom 6 None 0 false (Some 1) None)] []).
      apply (Permutation_cons_app [(8, mkAtom 17 None 0 false (Some 0) None); (6, mkAtom 6 None 0 false (Some 1) None)] []).
      apply (Permutation_cons_app [(8, mkAtom 17 None 0 false (Some 0) None)] []). apply Permutation_refl.
    - exists [(2, [(4, mkBond 1 None)]); (4, [(6, mkBond 2 None); (2, mkBond 1 None)]); (6, [(8, mkBond 1 None); (4, mkBond 2 None)]); (8, [(6, mkBond 1 None)])]. split.
      + cbn [ren_mol ren_adj strip exd_g m_adj map fst snd exd_s strip_bond b_ord].
        change (2 * 1) with 2. change (2 * 2) with 4. change (2 * 3) with 6. change (2 * 4) with 8.
        repeat constructor; cbn [fst snd]; try apply Permutation_refl; try apply perm_swap.
      + cbn [strip exd_g' m_adj map fst snd strip_bond b_ord].
        apply (Permutation_cons_app [(8, [(6, mkBond 1 None)]); (6, [(8, mkBond 1 None); (4, mkBond 2 None)]); (4, [(6, mkBond 2 None); (2, mkBond 1 None)])] []).
        apply (Permutation_cons_app [(8, [(6, mkBond 1 None)]); (6, [(8, mkBond 1 None); (4, mkBond 2 None)])] []).
        apply (Permutation_cons_app [(8, [(6, mkBond 1 None)])] []). apply Permutation_refl. }
  split; [intros x y _ _ H; exact H|].
  split; [intros n Hn; cbn in Hn; intuition (subst; vm_compute; reflexivity)|].
  split; [exact exd_noH|]. split; [exact exd_noH'|]. split; [exact exd_atoms|]. split; [exact exd_ct|].
  split; vm_compute; reflexivity.
Qed.
