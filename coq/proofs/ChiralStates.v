(* C01: the intermediate states of Model.ChiralMorgan.chiral_loop: what every call of __differentiation returns (labels, the three
   stereo sets in iteration order, the groups handed to the flip-half heuristic, the trace).  Used by the correspondence to compare
   the real code call by call, not only its final result; the last state determines the result of chiral_loop. *)
From Coq Require Import ZArith List Bool.
From Model Require Import PyBase PyHash Graph Morgan Stereo ChiralMorgan.
Import ListNotations.
Open Scope Z_scope.

Section States.
  Variable h : list Z -> Z.
  Variable g : mol.
  Variable tabs : cmtabs.

  Definition flip_half (d : dres) : labels :=
    let m1 := fold_left (fun mg group => fold_left negate_at (half group) mg) (d_ga d) (d_morgan d) in
    let m2 := fold_left (fun mg group => fold_left (fun mg' x => negate_at mg' (fst x)) (half group) mg) (d_gct d) m1 in
    fold_left (fun mg group => fold_left negate_at (half group) mg) (d_gal d) m2.

  Fixpoint chiral_loop_states (fuel dfuel : nat) (morgan : labels) (sa : list Z) (sct : list (Z * Z)) (sal : list Z) (trace : list labels)
    : list (pyres dres) :=
    match fuel with
    | O => []
    | S f =>
        let r := differentiation h g tabs dfuel morgan sa sct sal trace in
        r :: match r with
             | Err _ => []
             | Ok d =>
                 match d_ga d, d_gct d, d_gal d with
                 | [], [], [] => []
                 | _, _, _ =>
                     match Morgan.morgan h (flip_half d) (int_adjacency g) with
                     | Err _ => []
                     | Ok morgan' => chiral_loop_states f dfuel morgan' (d_atoms d) (d_ct d) (d_al d) (d_trace d ++ [flip_half d])
                     end
                 end
             end
    end.

  (* the result of chiral_loop is read off the last state *)
  Lemma chiral_loop_last fuel dfuel : forall morgan sa sct sal trace r,
    chiral_loop h g tabs fuel dfuel morgan sa sct sal trace = Ok r ->
    exists d, last (chiral_loop_states fuel dfuel morgan sa sct sal trace) (Err OtherError) = Ok d /\ r = (d_morgan d, d_trace d) /\
              d_ga d = [] /\ d_gct d = [] /\ d_gal d = [].
  Proof.
    induction fuel as [|f IH]; intros morgan sa sct sal trace r H; [discriminate|].
    cbn [chiral_loop chiral_loop_states] in *.
    destruct (differentiation h g tabs dfuel morgan sa sct sal trace) as [d|e]; [|discriminate].
    fold (flip_half d) in H.
    destruct (d_ga d) eqn:E1; [destruct (d_gct d) eqn:E2; [destruct (d_gal d) eqn:E3|]|].
    - injection H as <-. exists d. cbn. repeat split; assumption.
    - destruct (Morgan.morgan h (flip_half d) (int_adjacency g)) as [m'|e]; [|discriminate].
      destruct (IH _ _ _ _ _ _ H) as [d' [L R]]. exists d'. split; [|exact R].
      destruct (chiral_loop_states f dfuel m' (d_atoms d) (d_ct d) (d_al d) (d_trace d ++ [flip_half d])) eqn:Es; [discriminate L | exact L].
    - destruct (Morgan.morgan h (flip_half d) (int_adjacency g)) as [m'|e]; [|discriminate].
      destruct (IH _ _ _ _ _ _ H) as [d' [L R]]. exists d'. split; [|exact R].
      destruct (chiral_loop_states f dfuel m' (d_atoms d) (d_ct d) (d_al d) (d_trace d ++ [flip_half d])) eqn:Es; [discriminate L | exact L].
    - destruct (Morgan.morgan h (flip_half d) (int_adjacency g)) as [m'|e]; [|discriminate].
      destruct (IH _ _ _ _ _ _ H) as [d' [L R]]. exists d'. split; [|exact R].
      destruct (chiral_loop_states f dfuel m' (d_atoms d) (d_ct d) (d_al d) (d_trace d ++ [flip_half d])) eqn:Es; [discriminate L | exact L].
  Qed.

  Definition chiral_states (ao : labels) (ord : cmorders) : list (pyres dres) :=
    if negb (has_stereo_labels g) then []
    else chiral_loop_states (S (S (List.length (m_atoms g)))) (diff_fuel ord) ao (o_atoms ord) (o_ct ord) (o_al ord) [].
End States.
