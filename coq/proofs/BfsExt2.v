(* C01, extension: the BFS of a LATER component.  `seen` already holds the labels of the earlier components (a set closed under
   neighbours); the BFS from the new start atom either runs entirely outside it (then it is the first-component BFS of BfsExt with
   the old labels in front) or - if the start atom is already labelled - does nothing.  In both cases the labels of two
   molecules with the same neighbour relation agree pointwise when they agreed before. *)
From Coq Require Import ZArith List Bool Lia Permutation.
From Model Require Import PyBase Graph Morgan Writer.
From Proofs Require Import MorganProofs WriterInvProofs BfsExt.
Import ListNotations.
Open Scope Z_scope.

Lemma zget_zset {V} (d : list (Z * V)) k v x : zget (zset d k v) x = if x =? k then Some v else zget d x.
Proof.
  induction d as [|[k' v'] d IH]; cbn [zset zget].
  - destruct (x =? k); reflexivity.
  - destruct (Z.eqb_spec k k') as [->|Hne]; cbn [zget].
    + destruct (x =? k'); reflexivity.
    + destruct (Z.eqb_spec x k') as [->|Hne2].
      * destruct (Z.eqb_spec k' k); [congruence | reflexivity].
      * exact IH.
Qed.

Lemma zset_notin {V} (d : list (Z * V)) k v : ~ In k (keys d) -> zset d k v = d ++ [(k, v)].
Proof.
  induction d as [|[k' v'] d IH]; intros H; cbn [zset app]; [reflexivity|].
  destruct (Z.eqb_spec k k') as [->|Hne]; [exfalso; apply H; left; reflexivity|].
  rewrite IH; [reflexivity | intros Hi; apply H; right; exact Hi].
Qed.

Lemma keys_zset_in {V} (d : list (Z * V)) k v : In k (keys d) -> keys (zset d k v) = keys d.
Proof.
  induction d as [|[k' v'] d IH]; intros H; [destruct H|]. cbn [zset]. destruct (Z.eqb_spec k k') as [->|Hne]; [reflexivity|].
  cbn [keys map fst]. f_equal. apply IH. destruct H as [H|H]; [cbn in H; congruence | exact H].
Qed.

Definition closed_under (g : mol) (S : list (Z * Z)) : Prop := forall y, In y (keys S) -> incl (nbr_ids g y) (keys S).

Section LaterComponent.
  Variable g : mol.
  Hypothesis Hsym : forall n m, In m (nbr_ids g n) -> In n (nbr_ids g m).

  (* the BFS never looks into a closed prefix it does not start in *)
  Lemma bfs_prefix S0 : closed_under g S0 -> forall fuel queue T,
    (forall n d, In (n, d) queue -> ~ In n (keys S0)) ->
    bfs g fuel queue (S0 ++ T) = S0 ++ bfs g fuel queue T.
  Proof.
    intros Hcl. induction fuel as [|fuel IH]; intros queue T Hq; cbn [bfs]; [reflexivity|].
    destruct queue as [|[n d] q]; [reflexivity|].
    assert (~ In n (keys S0)) as Hn by (apply (Hq n d); left; reflexivity).
    assert (forall m, In m (nbr_ids g n) -> ~ In m (keys S0)) as Hnb.
    { intros m Hm Hin. apply Hn. apply (Hcl m Hin). apply Hsym. exact Hm. }
    assert (filter (fun m => negb (zhas (S0 ++ T) m)) (nbr_ids g n) = filter (fun m => negb (zhas T m)) (nbr_ids g n)) as ->.
    { apply filter_ext_in. intros m Hm. unfold zhas. rewrite zget_app.
      destruct (zget S0 m) as [v|] eqn:E; [|reflexivity]. exfalso. apply (Hnb m Hm). apply zget_in_keys. exists v. exact E. }
    rewrite <- app_assoc. apply IH.
    intros m dm Hin. apply in_app_or in Hin. destruct Hin as [Hin|Hin]; [apply (Hq m dm); right; exact Hin|].
    apply in_map_iff in Hin. destruct Hin as [m' [E Hm']]. injection E as -> _. apply filter_In in Hm'. apply Hnb. apply Hm'.
  Qed.

  (* started on an atom whose neighbours are all labelled, the BFS changes nothing *)
  Lemma bfs_noop fuel start d seen : (forall m, In m (nbr_ids g start) -> In m (keys seen)) ->
    bfs g (S fuel) [(start, d)] seen = seen.
  Proof.
    intros H. cbn [bfs].
    assert (filter (fun m => negb (zhas seen m)) (nbr_ids g start) = []) as ->.
    { induction (nbr_ids g start) as [|m l IH]; cbn [filter]; [reflexivity|].
      assert (zhas seen m = true) as -> by (unfold zhas; destruct (zget_in_keys seen m) as [_ Hk]; destruct (Hk (H m (or_introl eq_refl))) as [v ->]; reflexivity).
      cbn [negb]. apply IH. intros x Hx. apply H. right. exact Hx. }
    cbn [map app]. rewrite app_nil_r. destruct fuel; reflexivity.
  Qed.
End LaterComponent.

(* two molecules with the same neighbour relation, labels that agree pointwise and are closed: after the BFS of the next
   component (from the same start atom) the labels still agree pointwise and are still closed *)
Section NextComponent.
  Variable g1 g2 : mol.
  Variable start : Z.
  Variable S1 S2 : list (Z * Z).
  Hypothesis I1 : forall n, incl (nbr_ids g1 n) (ids g1).
  Hypothesis N1 : forall n, NoDup (nbr_ids g1 n).
  Hypothesis Y1 : forall n m, In m (nbr_ids g1 n) -> In n (nbr_ids g1 m).
  Hypothesis I2 : forall n, incl (nbr_ids g2 n) (ids g2).
  Hypothesis N2 : forall n, NoDup (nbr_ids g2 n).
  Hypothesis Y2 : forall n m, In m (nbr_ids g2 n) -> In n (nbr_ids g2 m).
  Hypothesis Hst1 : In start (ids g1).
  Hypothesis Hst2 : In start (ids g2).
  Hypothesis Hnb : forall y x, In x (nbr_ids g1 y) <-> In x (nbr_ids g2 y).
  Hypothesis C1 : closed_under g1 S1.
  Hypothesis C2 : closed_under g2 S2.
  Hypothesis Hpt : forall y, zget S1 y = zget S2 y.

  Let R1 := bfs g1 (S (List.length (ids g1))) [(start, 1)] (zset S1 start 0).
  Let R2 := bfs g2 (S (List.length (ids g2))) [(start, 1)] (zset S2 start 0).

  Lemma keys_iff y : In y (keys S1) <-> In y (keys S2).
  Proof. rewrite <- !zget_in_keys. rewrite Hpt. reflexivity. Qed.

  Theorem next_component_pointwise y : zget R1 y = zget R2 y.
  Proof.
    unfold R1, R2. destruct (in_dec Z.eq_dec start (keys S1)) as [Hin|Hnin].
    - (* already labelled: nothing happens on either side *)
      assert (In start (keys S2)) as Hin2 by (apply keys_iff; exact Hin).
      rewrite (bfs_noop g1), (bfs_noop g2).
      + rewrite !zget_zset, Hpt. reflexivity.
      + intros m Hm. rewrite keys_zset_in by exact Hin2. apply (C2 start Hin2). exact Hm.
      + intros m Hm. rewrite keys_zset_in by exact Hin. apply (C1 start Hin). exact Hm.
    - assert (~ In start (keys S2)) as Hnin2 by (intros H; apply Hnin; apply keys_iff; exact H).
      rewrite (zset_notin S1 start 0 Hnin), (zset_notin S2 start 0 Hnin2).
      rewrite (bfs_prefix g1 Y1 S1 C1), (bfs_prefix g2 Y2 S2 C2);
        try (intros n d [H|[]]; injection H as <- _; assumption).
      rewrite !zget_app, Hpt. destruct (zget S2 y); [reflexivity|].
      apply (bfs_order_independent g1 g2 start I1 N1 Hst1 I2 N2 Hst2 Hnb).
  Qed.

  (* the labelled set stays closed (side 1; side 2 is the same statement with the roles exchanged) *)
  Theorem next_component_closed : closed_under g1 R1.
  Proof.
    unfold R1. destruct (in_dec Z.eq_dec start (keys S1)) as [Hin|Hnin].
    - rewrite (bfs_noop g1) by (intros m Hm; rewrite keys_zset_in by exact Hin; apply (C1 start Hin); exact Hm).
      intros z Hz. rewrite keys_zset_in in * by exact Hin. apply C1. exact Hz.
    - rewrite (zset_notin S1 start 0 Hnin), (bfs_prefix g1 Y1 S1 C1) by (intros n d [H|[]]; injection H as <- _; assumption).
      pose proof (bfs_first_component_spec g1 start I1 N1 Hst1) as [_ [_ P3]].
      intros z Hz x Hx. rewrite keys_app in *. apply in_app_or in Hz. apply in_or_app. destruct Hz as [Hz|Hz].
      + left. apply (C1 z Hz). exact Hx.
      + right. apply zget_in_keys in Hz. destruct Hz as [dz Hdz]. destruct (P3 z dz Hdz x Hx) as [dx [Hdx _]].
        apply zget_in_keys. exists dx. exact Hdx.
  Qed.
End NextComponent.
