(* C13 -- freshness of the STORED derived data: the implicit-hydrogen count of an atom is the snapshot of its current environment,
   its labels the snapshot of its current neighbourhood, every bond labelled.  Definitions and the lemmas about lenv_of_row. *)
From Coq Require Import ZArith List Bool Lia.
From Model Require Import PyBase Cache.
From Proofs Require Import CacheProofs CacheWf CacheCopy CacheCoh CacheWorld CacheUnion CacheTheorems CacheUsable.
Import ListNotations.
Open Scope Z_scope.

Definition lenvn (h : hp) (o : mobj) (n : Z) : pyres lenv := lenv_of_row h (o_atoms o) (row o n).
Definition hydOK (h : hp) (o : mobj) (n : Z) (a : acell) : Prop := exists l, lenvn h o n = Ok l /\ a_hyd a = Some (a_core a, l).
Definition labOK (h : hp) (o : mobj) (n : Z) (a : acell) : Prop := exists l, lenvn h o n = Ok l /\ a_lab a = Some l.
Definition bondsOK (h : hp) (o : mobj) : Prop := forall r, In r (arefs (o_adj o)) -> exists c, hget h r = Some c /\ b_lab c = true.
Definition anum (a : acell) : Z := c_num (a_core a).

(* ---- what lenv_of_row looks at *)
Lemma lenv_ext h h' atoms atoms' r :
  (forall m rf, In (m, rf) r -> option_map b_ord (hget h' rf) = option_map b_ord (hget h rf)) ->
  (forall m rf, In (m, rf) r -> option_map anum (zget atoms' m) = option_map anum (zget atoms m)) ->
  lenv_of_row h' atoms' r = lenv_of_row h atoms r.
Proof.
  induction r as [|[m rf] t IH]; intros Hh Ha; [reflexivity|]. cbn [lenv_of_row].
  pose proof (Hh m rf (or_introl eq_refl)) as E1. pose proof (Ha m rf (or_introl eq_refl)) as E2.
  rewrite IH; [| intros; eapply Hh; right; eauto | intros; eapply Ha; right; eauto].
  destruct (hget h rf) as [c|], (hget h' rf) as [c'|]; cbn in E1; try discriminate; [|reflexivity].
  injection E1 as E1. rewrite E1. destruct (b_ord c =? 8); [reflexivity|].
  destruct (zget atoms m) as [a|], (zget atoms' m) as [a'|]; cbn in E2; try discriminate; [|reflexivity].
  injection E2 as E2. unfold anum in E2. now rewrite E2.
Qed.
(* an order-8 bond does not count *)
Lemma lenv_skip h atoms r1 m rf r2 c : hget h rf = Some c -> b_ord c = 8 ->
  lenv_of_row h atoms (r1 ++ (m, rf) :: r2) = lenv_of_row h atoms (r1 ++ r2).
Proof.
  intros Hc H8. induction r1 as [|[m1 rf1] t IH]; cbn [app lenv_of_row].
  - rewrite Hc, H8. reflexivity.
  - now rewrite IH.
Qed.
Lemma zdel_split {V} (d : list (Z * V)) k v : NoDup (keys d) -> zget d k = Some v ->
  exists d1 d2, d = d1 ++ (k, v) :: d2 /\ zdel d k = d1 ++ d2.
Proof.
  induction d as [|[k0 v0] t IH]; cbn; [discriminate|]. intros N H. inversion N as [|? ? Hk Nt]; subst.
  destruct (Z.eqb_spec k k0).
  - subst. inversion H; subst. exists [], t. split; [reflexivity|]. unfold zdel. cbn. rewrite Z.eqb_refl. cbn.
    clear -Hk. induction t as [|[k1 v1] t IH]; cbn; [reflexivity|]. destruct (Z.eqb_spec k1 k0); [subst; exfalso; apply Hk; now left|].
    cbn. f_equal. apply IH. intros Hi. apply Hk. now right.
  - destruct (IH Nt H) as [d1 [d2 [E1 E2]]]. exists ((k0, v0) :: d1), d2. split; [cbn; now rewrite E1|]. unfold zdel in *. cbn.
    destruct (Z.eqb_spec k0 k); [congruence|]. cbn. now rewrite E2.
Qed.
Lemma lenv_zdel8 h atoms rw k rf c : NoDup (keys rw) -> zget rw k = Some rf -> hget h rf = Some c -> b_ord c = 8 ->
  lenv_of_row h atoms (zdel rw k) = lenv_of_row h atoms rw.
Proof. intros N Hz Hc H8. destruct (zdel_split rw k rf N Hz) as [d1 [d2 [E1 E2]]]. rewrite E2, E1. symmetry. eapply lenv_skip; eauto. Qed.
Lemma lenv_zset8 h atoms rw k rf c : ~ In k (keys rw) -> hget h rf = Some c -> b_ord c = 8 ->
  lenv_of_row h atoms (zset rw k rf) = lenv_of_row h atoms rw.
Proof. intros N Hc H8. rewrite zset_notin_app by assumption. rewrite (lenv_skip h atoms rw k rf [] c Hc H8). now rewrite app_nil_r. Qed.

(* soft changes: same adjacency, same bond orders, same elements *)
Lemma lenvn_soft h o h' o' :
  o_adj o' = o_adj o -> (forall x, option_map b_ord (hget h' x) = option_map b_ord (hget h x)) ->
  (forall m, option_map anum (zget (o_atoms o') m) = option_map anum (zget (o_atoms o) m)) ->
  forall n, lenvn h' o' n = lenvn h o n.
Proof. intros A Hh Ha n. unfold lenvn, row. rewrite A. apply lenv_ext; auto. Qed.
Lemma anum_zset atoms n a a0 m : zget atoms n = Some a0 -> anum a = anum a0 ->
  option_map anum (zget (zset atoms n a) m) = option_map anum (zget atoms m).
Proof. intros H E. rewrite zget_zset. destruct (Z.eqb_spec m n); [subst; rewrite H; cbn; now rewrite E | reflexivity]. Qed.

(* ---- calc_labels: every atom of the processed rows gets the snapshot of its neighbourhood, every bond of them is labelled;
   cores and stored hydrogen counts are untouched *)
Definition atoms_rel (P : Z -> acell -> acell -> Prop) (o o' : mobj) : Prop :=
  forall n, match zget (o_atoms o') n with
            | Some a' => exists a, zget (o_atoms o) n = Some a /\ a_core a' = a_core a /\ P n a a'
            | None => zget (o_atoms o) n = None
            end.
Lemma atoms_rel_anum P o o' : atoms_rel P o o' -> forall m, option_map anum (zget (o_atoms o') m) = option_map anum (zget (o_atoms o) m).
Proof.
  intros R m. specialize (R m). destruct (zget (o_atoms o') m) as [a'|]; [|now rewrite R]. destruct R as [a [E [C _]]]. rewrite E. cbn.
  unfold anum. now rewrite C.
Qed.

Lemma mark_row_keeps r : forall h x c, hget h x = Some c -> b_lab c = true -> exists c1, hget (mark_row h r) x = Some c1 /\ b_lab c1 = true.
Proof.
  induction r as [|[m rf] t IH]; intros h x c Hc Hl; [cbn; eauto|]. cbn [mark_row].
  destruct (hget h rf) as [c0|] eqn:E0; [|eapply IH; eauto]. destruct (Z.eq_dec x rf) as [->|D].
  - apply (IH _ _ (mkB (b_ord c0) true)); [rewrite hget_hset; now rewrite Z.eqb_refl | reflexivity].
  - apply (IH _ _ c); [rewrite hget_hset; destruct (Z.eqb_spec x rf); [congruence | exact Hc] | exact Hl].
Qed.
Lemma mark_row_marks r : forall h x c, In x (map snd r) -> hget h x = Some c -> exists c1, hget (mark_row h r) x = Some c1 /\ b_lab c1 = true.
Proof.
  induction r as [|[m rf] t IH]; intros h x c Hx Hc; [destruct Hx|]. cbn [mark_row]. cbn in Hx. destruct (Z.eq_dec rf x) as [->|D].
  - rewrite Hc. apply (mark_row_keeps t _ x (mkB (b_ord c) true)); [rewrite hget_hset; now rewrite Z.eqb_refl | reflexivity].
  - destruct Hx as [Hx|Hx]; [congruence|]. destruct (hget h rf) as [c0|] eqn:E0.
    + apply (IH _ _ c Hx). rewrite hget_hset. destruct (Z.eqb_spec x rf); [congruence | exact Hc].
    + now apply (IH _ _ c).
Qed.
Lemma label_rows_fresh rows : forall h o h' o' e,
  NoDup (keys (o_adj o)) -> incl rows (o_adj o) -> NoDup (keys rows) ->
  label_rows rows h o = (h', o', e) -> e = None ->
  atoms_rel (fun n a a' => a_hyd a' = a_hyd a /\
                           (In n (keys rows) -> exists l, lenvn h o n = Ok l /\ a_lab a' = Some l) /\
                           (~ In n (keys rows) -> a_lab a' = a_lab a)) o o' /\
  (forall r, In r (arefs rows) -> (exists c, hget h r = Some c) -> exists c, hget h' r = Some c /\ b_lab c = true) /\
  (forall x c, hget h x = Some c -> b_lab c = true -> exists c', hget h' x = Some c' /\ b_lab c' = true).
Proof.
  induction rows as [|[n r] t IH]; intros h o h' o' e ND Sub NDr H He; cbn [label_rows] in H.
  - inversion H; subst. split; [|split].
    + intros x. destruct (zget (o_atoms o') x) as [a|] eqn:E; [|reflexivity]. exists a. repeat split; auto. intros [].
    + intros r [].
    + intros x c Hc Hl. eauto.
  - destruct (lenv_of_row h (o_atoms o) r) as [l|err] eqn:El; [|inversion H; subst; discriminate].
    destruct (zget (o_atoms o) n) as [a0|] eqn:Ea; [|inversion H; subst; discriminate].
    set (o1 := set_atoms o (zset (o_atoms o) n (mkA (a_core a0) (a_hyd a0) (Some l)))) in *. set (h1 := mark_row h r) in *.
    assert (zget (o_adj o) n = Some r) as Hr by (apply In_zget_nodup; [exact ND | apply Sub; now left]).
    assert (lenvn h o n = Ok l) as Ln by (unfold lenvn, row; now rewrite Hr).
    destruct (mark_row_spec r h) as [L [N [Un Or]]]. fold h1 in L, N, Un, Or.
    cbn [keys map fst] in NDr. inversion NDr as [|? ? Hn NDt]; subst.
    destruct (IH h1 o1 h' o' None ND) as [A [B C]]; auto.
    { intros x Hx. unfold o1; simpo. apply Sub. now right. }
    assert (forall x, lenvn h1 o1 x = lenvn h o x) as Lsame.
    { apply lenvn_soft; [reflexivity | exact Or|]. intros m. unfold o1; simpo. eapply anum_zset; eauto. }
    split; [|split].
    + intros x. specialize (A x). destruct (zget (o_atoms o') x) as [a'|]; [|unfold o1 in A; simpo; rewrite zget_zset in A;
        destruct (Z.eqb_spec x n); [discriminate | exact A]].
      destruct A as [a1 [E1 [C1 [H1 [L1 L2]]]]]. unfold o1 in E1; simpo. rewrite zget_zset in E1. destruct (Z.eqb_spec x n).
      * subst x. inversion E1; subst a1. exists a0. cbn in *. split; [exact Ea|]. split; [exact C1|]. split; [exact H1|]. split.
        -- intros _. exists l. split; [exact Ln|]. rewrite L2; [reflexivity | exact Hn].
        -- intros Hc. exfalso. apply Hc. now left.
      * exists a1. split; [exact E1|]. split; [exact C1|]. split; [exact H1|]. split.
        -- intros [Ex|Hx]; [cbn in Ex; congruence|]. destruct (L1 Hx) as [l' [La Lb]]. exists l'. split; [now rewrite <- Lsame | exact Lb].
        -- intros Hc. apply L2. intros Hx. apply Hc. now right.
    + intros x Hx Hv. rewrite arefs_cons in Hx. apply in_app_or in Hx. destruct Hx as [Hx|Hx].
      * destruct Hv as [c Hc]. destruct (mark_row_marks r h x c Hx Hc) as [c1 [Hc1 Hl1]].
        eapply C; eauto.
      * apply B; [exact Hx|]. destruct Hv as [c Hc]. destruct L as [_ V]. eapply V; eauto.
    + intros x c Hc Hl. destruct (mark_row_keeps r h x c Hc Hl) as [c1 [Hc1 Hl1]]. eapply C; eauto.
Qed.

(* ---- calc_implicit *)
Lemma calc_implicit_fresh n h o h' o' e : calc_implicit n h o = (h', o', e) -> e = None ->
  h' = h /\ o_adj o' = o_adj o /\ o_backup o' = o_backup o /\ o_changed o' = o_changed o /\
  atoms_rel (fun x a a' => a_lab a' = a_lab a /\ (x = n -> exists l, lenvn h o n = Ok l /\ a_hyd a' = Some (a_core a, l)) /\
                           (x <> n -> a_hyd a' = a_hyd a)) o o'.
Proof.
  unfold calc_implicit. destruct (zget (o_atoms o) n) as [a0|] eqn:Ea; [|intros H; inversion H; subst; discriminate].
  destruct (zget (o_adj o) n) as [r|] eqn:Er; [|intros H; inversion H; subst; discriminate].
  destruct (lenv_of_row h (o_atoms o) r) as [l|] eqn:El; [|intros H; inversion H; subst; discriminate].
  intros H _. inversion H; subst. repeat split. intros x. simpo. rewrite zget_zset. destruct (Z.eqb_spec x n).
  - subst. exists a0. cbn. repeat split; auto; [|congruence]. intros _. exists l. split; [unfold lenvn, row; now rewrite Er | reflexivity].
  - destruct (zget (o_atoms o) x) as [a|]; [|reflexivity]. exists a. repeat split; auto. congruence.
Qed.
Lemma calc_implicit_all_fresh ns : forall h o h' o' e, calc_implicit_all ns h o = (h', o', e) -> e = None ->
  h' = h /\ o_adj o' = o_adj o /\ o_backup o' = o_backup o /\ o_changed o' = o_changed o /\
  atoms_rel (fun x a a' => a_lab a' = a_lab a /\ (In x ns -> exists l, lenvn h o x = Ok l /\ a_hyd a' = Some (a_core a, l)) /\
                           (~ In x ns -> a_hyd a' = a_hyd a)) o o'.
Proof.
  induction ns as [|n t IH]; intros h o h' o' e H He; cbn [calc_implicit_all] in H.
  - inversion H; subst. repeat split. intros x. destruct (zget (o_atoms o') x) as [a|]; [|reflexivity]. exists a. repeat split; auto. intros [].
  - unfold seq in H. destruct (calc_implicit n h o) as [[h1 o1] [e1|]] eqn:E1; [inversion H; subst; discriminate|].
    destruct (calc_implicit_fresh n h o h1 o1 None E1 eq_refl) as [-> [A1 [B1 [C1 R1]]]].
    destruct (IH h o1 h' o' e H He) as [-> [A2 [B2 [C2 R2]]]].
    assert (forall x, lenvn h o1 x = lenvn h o x) as Ls.
    { apply lenvn_soft; [exact A1 | reflexivity | eapply atoms_rel_anum; eauto]. }
    split; [reflexivity|]. split; [congruence|]. split; [congruence|]. split; [congruence|].
    intros x. specialize (R2 x). destruct (zget (o_atoms o') x) as [a'|].
    + destruct R2 as [a1 [E2 [K2 [L2 [I2 N2]]]]]. specialize (R1 x). rewrite E2 in R1. destruct R1 as [a [E0 [K1 [L1' [I1 N1]]]]].
      exists a. split; [exact E0|]. split; [congruence|]. split; [congruence|]. split.
      * intros Hi. destruct (in_dec Z.eq_dec x t) as [Ht|Ht].
        -- destruct (I2 Ht) as [l [La Lb]]. exists l. split; [now rewrite <- Ls | now rewrite Lb, K1].
        -- destruct Hi as [Hi|Hi]; [|contradiction]. subst x. destruct (I1 eq_refl) as [l [La Lb]]. exists l. split; [exact La|].
           rewrite (N2 Ht). exact Lb.
      * intros Hn. rewrite N2 by (intros Hi; apply Hn; now right). apply N1. intros ->. apply Hn. now left.
    + specialize (R1 x). rewrite R2 in R1. exact R1.
Qed.

Definition todo (o : mobj) : list Z := match o_changed o with None | Some [] => keys (o_atoms o) | Some l => l end.

Lemma fix_structure_fresh h o : inv1 h o -> exists h' o', fix_structure h o = (h', o', None) /\
  o_changed o' = None /\ o_backup o' = o_backup o /\ o_adj o' = o_adj o /\ (forall n, lenvn h' o' n = lenvn h o n) /\ bondsOK h' o' /\
  atoms_rel (fun n a a' => labOK h' o' n a' /\ (In n (todo o) -> hydOK h' o' n a') /\ (~ In n (todo o) -> a_hyd a' = a_hyd a)) o o'.
Proof.
  intros I. unfold fix_structure, calc_labels.
  set (o1 := set_cache o (fst (read_key 5 (view_of h o) (o_cache o) Kars))).
  set (o2 := set_cache o1 (fst (read_key 5 (view_of h o1) (o_cache o1) Kar))).
  assert (inv1 h o2) as I2 by (eapply inv1_same; eauto). destruct I2 as [Wf2 Cw2].
  destruct (label_rows_total (o_adj o2) h o2 (wf_ready _ _ Wf2) (fun _ _ H => H)) as [h3 [o3 E3]].
  pose proof (label_rows_relabels (o_adj o2) h o2 (incl_refl _)) as Rl. rewrite E3 in Rl.
  destruct (relabel_inv1 _ _ _ _ Rl (conj Wf2 Cw2)) as [I3 _].
  destruct (label_rows_fresh (o_adj o2) h o2 h3 o3 None (proj1 (wf_nd _ _ _ Wf2)) (incl_refl _) (proj1 (wf_nd _ _ _ Wf2)) E3 eq_refl) as [R3 [B3 _]].
  destruct Rl as [[A3 [K3 [Bk3 [Ch3 _]]]] [_ [_ [_ Or3]]]].
  assert (forall x, lenvn h3 o3 x = lenvn h o x) as Ls3.
  { intros x. rewrite (lenvn_soft h o2 h3 o3 A3 Or3 (atoms_rel_anum _ _ _ R3)). reflexivity. }
  set (T := match o_changed o3 with None | Some [] => keys (o_atoms o3) | Some l => l end).
  assert (exists h4 o4, calc_implicit_all T h3 o3 = (h4, o4, None) /\ inv1 h4 o4) as [h4 [o4 [E4 I4]]].
  { unfold T. destruct (o_changed o3) as [[|x l]|] eqn:Ec.
    - apply calc_implicit_all_total; auto.
    - apply calc_implicit_all_total; [exact I3|]. destruct I3 as [_ Cw3]. intros n Hn. eapply Cw3; eauto.
    - apply calc_implicit_all_total; auto. }
  destruct (calc_implicit_all_fresh T h3 o3 h4 o4 None E4 eq_refl) as [-> [A4 [Bk4 [Ch4 R4]]]].
  assert (forall x, lenvn h3 o4 x = lenvn h o x) as Ls4.
  { intros x. rewrite (lenvn_soft h3 o3 h3 o4 A4 (fun _ => eq_refl) (atoms_rel_anum _ _ _ R4)). apply Ls3. }
  assert (T = todo o \/ (T = keys (o_atoms o3) /\ todo o = keys (o_atoms o))) as ET.
  { unfold T, todo. rewrite Ch3. cbn [o_changed o2 o1 set_cache]. destruct (o_changed o) as [[|x l]|]; auto. }
  assert (forall n, In n T <-> In n (todo o)) as ETi.
  { destruct ET as [->|[-> ->]]; [tauto|]. intros n. rewrite K3. cbn. tauto. }
  assert ((match o_changed o3 with None | Some [] => calc_implicit_all (keys (o_atoms o3)) h3 o3 | Some l => calc_implicit_all l h3 o3 end)
          = calc_implicit_all T h3 o3) as EQ by (unfold T; destruct (o_changed o3) as [[|? ?]|]; reflexivity).
  exists h3, (set_changed o4 None). unfold seq, read, ok. fold o1. fold o2. rewrite E3. cbn beta. rewrite EQ, E4.
  split; [reflexivity|]. split; [reflexivity|]. split; [simpo; rewrite Bk4, Bk3; reflexivity|]. split; [simpo; rewrite A4, A3; reflexivity|].
  split; [exact Ls4|]. split.
  - intros r Hr. simpo. rewrite A4, A3 in Hr. apply B3; [exact Hr|]. apply (wf_valid _ _ _ Wf2). exact Hr.
  - intros x. simpo. specialize (R4 x). destruct (zget (o_atoms o4) x) as [a4|].
    + destruct R4 as [a3 [E3' [K4 [L4 [I4' N4]]]]]. specialize (R3 x). rewrite E3' in R3. destruct R3 as [a [E0 [K3' [H3 [L3 _]]]]].
      exists a. split; [exact E0|]. split; [congruence|]. split; [|split].
      * assert (In x (keys (o_adj o2))) as Hk. { rewrite (wf_keys _ _ _ Wf2). eapply zget_In_keys; eauto. }
        destruct (L3 Hk) as [l [La Lb]]. exists l. split; [change (lenvn h3 o4 x = Ok l); rewrite Ls4; exact La | congruence].
      * intros Hi. apply ETi in Hi. destruct (I4' Hi) as [l [La Lb]]. exists l. split; [change (lenvn h3 o4 x = Ok l); rewrite Ls4, <- Ls3; exact La|].
        rewrite Lb. now rewrite K4.
      * intros Hn. rewrite N4 by (intros Hi; apply Hn; now apply ETi). exact H3.
    + specialize (R3 x). rewrite R4 in R3. exact R3.
Qed.
