(* C07 round 4: fuel of the explicit-stack loop model is monotone -- once a run completes, every larger fuel gives the same result -- so the
   refinement holds for ALL sufficiently large fuel: the out-of-fuel value can never be mistaken for a result. *)
From Coq Require Import ZArith List Bool Lia.
From Model Require Import PyBase Iso IsoStack.
From Proofs Require Import IsoStackProofs.
Import ListNotations.

Section Mono.
  Variables QA A QB B : Type.
  Variable am : QA -> A -> bool.
  Variable bm : QB -> B -> bool.
  Variable lq : list (lentry QA QB).
  Variable clo : closures_t QB.
  Variable o_atoms : list (Z * A).
  Variable o_bonds : list (Z * list (Z * B)).
  Variable scope : list Z.

  Lemma sm_run_mono : forall f s r, sm_run am bm lq clo o_atoms o_bonds scope f s = Ok r ->
    forall k, sm_run am bm lq clo o_atoms o_bonds scope (f + k) s = Ok r.
  Proof.
    induction f as [|f IH]; intros s r H k; [discriminate|].
    cbn [Nat.add sm_run] in *. destruct (sm_stack s); [exact H|].
    destruct (sm_step am bm lq clo o_atoms o_bonds scope s) as [[y s']|]; [|discriminate].
    destruct (sm_run am bm lq clo o_atoms o_bonds scope f s') as [out|] eqn:E; [|discriminate].
    rewrite (IH s' out E k). exact H.
  Qed.

  Theorem stack_loop_refines_all_fuel : lq_shape_ok lq ->
    exists fuel0, forall fuel, (fuel0 <= fuel)%nat ->
      sm_get_mapping am bm lq clo o_atoms o_bonds scope fuel = Ok (get_mapping am bm lq clo o_atoms o_bonds scope).
  Proof.
    intros Hs. destruct (sm_get_mapping_refines QA A QB B am bm lq clo o_atoms o_bonds scope Hs) as (f0 & E).
    exists f0. intros fuel Hle. unfold sm_get_mapping in *. destruct (sm_init am lq o_atoms scope) as [s|]; [|discriminate].
    replace fuel with (f0 + (fuel - f0))%nat by lia. apply sm_run_mono. exact E.
  Qed.
End Mono.
