(* C07 round 4: the explicit-stack loop of `_get_mapping` (Model.IsoStack: stack, path, mapping, reversed_mapping with lazy clean-up,
   order_depth) TERMINATES WITHOUT EXCEPTION and yields exactly the sequence of the recursive form Model.Iso.get_mapping, for every
   linear query whose fronts are distinct and whose later entries name an earlier front as `back` (what _compile_query produces).
   So the recursion of the model is no longer tied to the loop of the source by the pop trace only: the loop itself is modelled, with
   the translated tests, and the refinement is a theorem.  `exists fuel` excludes the out-of-fuel value. *)
From Coq Require Import ZArith List Bool Lia.
From Model Require Import PyBase Iso IsoStack.
From Gen Require Import IsoMatch.
From Proofs Require Import IsoMatchTie IsoCompileProofs.
Import ListNotations.
Local Open Scope Z_scope.

(* ------------------------------------------------------------------------------------------------------------------------------ *)
(* association lists built with combine                                                                                           *)
(* ------------------------------------------------------------------------------------------------------------------------------ *)
Lemma combine_app_eq {S T} (a b : list S) (a' b' : list T) :
  length a = length a' -> combine (a ++ b) (a' ++ b') = combine a a' ++ combine b b'.
Proof.
  revert a'. induction a as [|x a IH]; intros [|x' a'] E; simpl in *; try discriminate; [reflexivity|].
  rewrite IH by lia. reflexivity.
Qed.

Lemma keys_combine {T} (ks : list Z) (vs : list T) : keys (combine ks vs) = firstn (length vs) ks.
Proof.
  unfold keys. revert vs. induction ks as [|k ks IH]; intros [|v vs]; simpl; try reflexivity.
  - rewrite IH. reflexivity.
Qed.

Lemma zget_notin {T} (d : list (Z * T)) k : ~ In k (keys d) -> zget d k = None.
Proof.
  induction d as [|[k' v] d IH]; simpl; intros H; [reflexivity|].
  destruct (Z.eqb_spec k k') as [->|_]; [exfalso; apply H; left; reflexivity|]. apply IH. intros C. apply H. right. exact C.
Qed.

Lemma zget_app {T} (d1 d2 : list (Z * T)) k :
  zget (d1 ++ d2) k = match zget d1 k with Some v => Some v | None => zget d2 k end.
Proof. induction d1 as [|[k' v] d1 IH]; simpl; [reflexivity|]. destruct (k =? k'); [reflexivity|exact IH]. Qed.

Lemma dict_del_app_notin (d1 d2 : mapping) k : ~ In k (keys d1) -> dict_del (d1 ++ d2) k = d1 ++ dict_del d2 k.
Proof.
  induction d1 as [|[k' v] d1 IH]; simpl; intros H; [reflexivity|].
  destruct (Z.eqb_spec k k') as [->|_]; [exfalso; apply H; left; reflexivity|]. rewrite IH; [reflexivity|]. intros C. apply H. right. exact C.
Qed.

Lemma dict_set_fresh (d : mapping) k v : ~ In k (keys d) -> dict_set d k v = d ++ [(k, v)].
Proof.
  induction d as [|[k' v'] d IH]; simpl; intros H; [reflexivity|].
  destruct (Z.eqb_spec k k') as [->|_]; [exfalso; apply H; left; reflexivity|]. rewrite IH; [reflexivity|]. intros C. apply H. right. exact C.
Qed.

Lemma zget_combine_nth {T} (ks : list Z) (vs : list T) i k v :
  NoDup ks -> nth_error ks i = Some k -> nth_error vs i = Some v -> zget (combine ks vs) k = Some v.
Proof.
  revert vs i. induction ks as [|k0 ks IH]; intros vs i ND Hk Hv; [destruct i; discriminate|].
  destruct vs as [|v0 vs]; [destruct i; discriminate|].
  inversion ND as [|? ? Hnot ND']; subst. destruct i as [|i]; simpl in *.
  - inversion Hk; inversion Hv; subst. rewrite Z.eqb_refl. reflexivity.
  - destruct (Z.eqb_spec k k0) as [->|_]; [exfalso; apply Hnot; eapply nth_error_In; exact Hk|]. eapply IH; eassumption.
Qed.

Lemma swap_combine (a b : list Z) : swap_mapping (combine a b) = combine b a.
Proof. unfold swap_mapping. revert b. induction a as [|x a IH]; intros [|y b]; simpl; try reflexivity. rewrite IH. reflexivity. Qed.

Lemma combine_snoc {S T} (a : list S) (p : list T) (x : S) (n : T) :
  nth_error a (length p) = Some x -> combine a (p ++ [n]) = combine a p ++ [(x, n)].
Proof.
  revert a. induction p as [|y p IH]; intros [|a0 a] H; simpl in *; try discriminate.
  - inversion H; subst. destruct a; reflexivity.
  - rewrite (IH a H). reflexivity.
Qed.

Lemma combine_snoc_l {S T} (a : list S) (p : list T) (x : S) (n : T) :
  nth_error a (length p) = Some x -> combine (p ++ [n]) a = combine p a ++ [(n, x)].
Proof.
  revert a. induction p as [|y p IH]; intros [|a0 a] H; simpl in *; try discriminate.
  - inversion H; subst. reflexivity.
  - rewrite (IH a H). reflexivity.
Qed.

Lemma last_index_nth (qs : list Z) : NoDup qs -> forall k b i, nth_error qs k = Some b -> last_index qs b i = Some (i + k)%nat.
Proof.
  induction 1 as [|q qs Hnot ND IH]; intros k b i Hk; [destruct k; discriminate|].
  destruct k as [|k]; simpl in *.
  - inversion Hk; subst.
    assert (N : forall j, last_index qs b j = None).
    { clear -Hnot. induction qs as [|q qs IH]; intros j; simpl; [reflexivity|].
      rewrite IH by (intros C; apply Hnot; right; exact C).
      destruct (Z.eqb_spec q b) as [->|_]; [exfalso; apply Hnot; left; reflexivity|reflexivity]. }
    rewrite N, Z.eqb_refl. f_equal. lia.
  - rewrite (IH k b (S i) Hk). f_equal. lia.
Qed.

Lemma skipn_cons_nth {T} (l : list T) d e r :
  skipn d l = e :: r -> nth_error l d = Some e /\ skipn (S d) l = r /\ length l = (d + S (length r))%nat.
Proof.
  revert l. induction d as [|d IH]; intros l H.
  - simpl in H. subst. simpl. repeat split; reflexivity.
  - destruct l as [|x l]; [discriminate|]. simpl in H. destruct (IH l H) as (A & B & C). simpl. repeat split; [exact A|exact B|lia].
Qed.

Lemma flat_map_map_fst {S T U} (g : S -> list U) (l : list (S * T)) : flat_map (fun ob => g (fst ob)) l = flat_map g (map fst l).
Proof. induction l as [|x l IH]; simpl; [reflexivity|]. rewrite IH. reflexivity. Qed.

(* the lazy clean-up: deleting the images path[d:] (and the pattern atoms they belong to) leaves the dictionaries of path[:d] *)
Lemma sm_cleanup_gen : forall (R R' A A' : list Z),
  length A = length A' -> length R = length R' -> NoDup (A ++ R) -> NoDup (A' ++ R') ->
  sm_cleanup R (combine (A' ++ R') (A ++ R)) (combine (A ++ R) (A' ++ R')) = Ok (combine A' A, combine A A').
Proof.
  induction R as [|x R IH]; intros [|x' R'] A A' EA ER ND ND'; simpl in ER; try discriminate.
  - simpl. rewrite !app_nil_r. reflexivity.
  - assert (HxA : ~ In x A) by (intros C; apply (NoDup_remove_2 _ _ _ ND); apply in_or_app; left; exact C).
    assert (HxA' : ~ In x' A') by (intros C; apply (NoDup_remove_2 _ _ _ ND'); apply in_or_app; left; exact C).
    rewrite (combine_app_eq A' (x' :: R') A (x :: R)) by lia.
    rewrite (combine_app_eq A (x :: R) A' (x' :: R')) by lia.
    cbn [sm_cleanup].
    rewrite zget_app, (zget_notin (combine A A') x) by (rewrite keys_combine, <- EA, firstn_all; exact HxA).
    cbn [combine zget]. rewrite Z.eqb_refl.
    rewrite zget_app, (zget_notin (combine A' A) x') by (rewrite keys_combine, EA, firstn_all; exact HxA').
    cbn [zget]. rewrite Z.eqb_refl.
    rewrite dict_del_app_notin by (rewrite keys_combine, EA, firstn_all; exact HxA').
    rewrite dict_del_app_notin by (rewrite keys_combine, <- EA, firstn_all; exact HxA).
    cbn [dict_del]. rewrite !Z.eqb_refl.
    rewrite <- (combine_app_eq A' R' A R) by lia. rewrite <- (combine_app_eq A R A' R') by lia.
    apply IH; [exact EA|lia|eapply NoDup_remove_1; exact ND|eapply NoDup_remove_1; exact ND'].
Qed.

Lemma sm_cleanup_ok (qs path : list Z) d :
  NoDup qs -> NoDup path -> (d <= length path)%nat -> (length path <= length qs)%nat ->
  sm_cleanup (skipn d path) (combine qs path) (combine path qs) = Ok (combine qs (firstn d path), combine (firstn d path) qs).
Proof.
  intros NDq NDp Hd Hl.
  set (Q := firstn (length path) qs).
  assert (LQ : length Q = length path) by (unfold Q; rewrite firstn_length; lia).
  assert (NDQ : NoDup Q).
  { unfold Q. rewrite <- (firstn_skipn (length path) qs) in NDq. clear -NDq. induction (firstn (length path) qs) as [|x l IH]; [constructor|].
    simpl in NDq. inversion NDq; subst. constructor; [intros C; apply H1; apply in_or_app; left; exact C|apply IH; exact H2]. }
  rewrite (combine_firstn_r qs path), (combine_firstn_l path qs). fold Q.
  rewrite <- (firstn_skipn d path) at 2 3. rewrite <- (firstn_skipn d Q) at 1 2.
  rewrite sm_cleanup_gen.
  - f_equal. f_equal.
    + unfold Q. rewrite firstn_firstn, Nat.min_l by lia.
      rewrite (combine_firstn_r qs (firstn d path)), firstn_length, Nat.min_l by lia. reflexivity.
    + unfold Q. rewrite firstn_firstn, Nat.min_l by lia.
      rewrite (combine_firstn_l (firstn d path) qs), firstn_length, Nat.min_l by lia. reflexivity.
  - rewrite !firstn_length. lia.
  - rewrite !skipn_length. lia.
  - rewrite firstn_skipn. exact NDp.
  - rewrite firstn_skipn. exact NDQ.
Qed.

Definition prepend {T} (l : list T) (r : pyres (list T)) : pyres (list T) :=
  match r with Ok o => Ok (l ++ o) | Err e => Err e end.

Lemma prepend_app {T} (a b : list T) r : prepend (a ++ b) r = prepend a (prepend b r).
Proof. destruct r; simpl; [rewrite app_assoc; reflexivity|reflexivity]. Qed.

Lemma g_cand_ok_fresh {QA A QB B} (am : QA -> A -> bool) (bm : QB -> B -> bool) clo o_atoms o_bonds scope mp rm n s_n s_atom s_bond o_n o_bond :
  g_cand_ok am bm clo o_atoms o_bonds scope mp rm n s_n s_atom s_bond o_n o_bond = true -> ~ In o_n (keys rm).
Proof.
  unfold g_cand_ok. intros H C. apply zmem_In in C. rewrite C in H. destruct (zmem o_n scope); simpl in H; discriminate.
Qed.

Section Refine.
  Variables QA A QB B : Type.
  Variable am : QA -> A -> bool.
  Variable bm : QB -> B -> bool.
  Variable lq : list (lentry QA QB).
  Variable clo : closures_t QB.
  Variable o_atoms : list (Z * A).
  Variable o_bonds : list (Z * list (Z * B)).
  Variable scope : list Z.

  Let qs := map fst4 lq.

  (* what _compile_query guarantees about one linear order (and all the loop needs) *)
  Definition lq_shape_ok : Prop :=
    lq <> [] /\ NoDup qs /\
    forall i e, nth_error lq (S i) = Some e -> exists b k, back4 e = Some b /\ (k <= i)%nat /\ nth_error qs k = Some b.

  Hypothesis shape : lq_shape_ok.

  (* the dictionaries are functions of the path *)
  Definition st_of (stk : list (Z * nat)) (path : list Z) : sm_state := mkSM stk path (combine qs path) (combine path qs).

  Notation run := (sm_run am bm lq clo o_atoms o_bonds scope).
  Notation gmg := (gm_from_gen QA A QB B am bm clo o_atoms o_bonds scope).

  Definition subtree_spec (rest : list (lentry QA QB)) : Prop :=
    forall d e n path stk,
      skipn d lq = e :: rest ->
      (d <= length path)%nat -> (length path <= length qs)%nat -> NoDup path -> ~ In n (firstn d path) ->
      (rest = [] -> length path = d) ->
      exists k path',
        (d <= length path')%nat /\ (length path' <= length qs)%nat /\ NoDup path' /\ firstn d path' = firstn d path /\
        (rest = [] -> path' = path) /\
        forall f, run (k + f)%nat (st_of ((n, d) :: stk) path) =
                  prepend (gmg rest (fst4 e) (combine qs (firstn d path)) n) (run f (st_of stk path')).

  Lemma qs_nth d e : nth_error lq d = Some e -> nth_error qs d = Some (fst4 e).
  Proof. intros H. unfold qs. rewrite nth_error_map, H. reflexivity. Qed.

  Lemma current_fresh d e (p : list Z) : nth_error lq d = Some e -> length p = d -> ~ In (fst4 e) (keys (combine qs p)).
  Proof.
    intros H L. rewrite keys_combine, L. destruct shape as (_ & ND & _). apply qs_nth in H.
    rewrite <- (firstn_skipn d qs) in ND. intros C.
    assert (In (fst4 e) (skipn d qs)).
    { destruct (nth_error_split _ _ H) as (l1 & l2 & E & L1). rewrite E, skipn_app, <- L1, Nat.sub_diag, skipn_all. simpl. left. reflexivity. }
    clear -ND C H0. induction (firstn d qs) as [|x l IH]; [destruct C|].
    simpl in ND. inversion ND; subst. destruct C as [->|C]; [apply H2; apply in_or_app; right; exact H0|apply IH; assumption].
  Qed.

  (* all children of one node, popped one after the other *)
  Lemma children_of_subtree rest : subtree_spec rest ->
    forall d e cs path stk,
      skipn d lq = e :: rest ->
      (d <= length path)%nat -> (length path <= length qs)%nat -> NoDup path -> (forall c, In c cs -> ~ In c (firstn d path)) ->
      (rest = [] -> length path = d) ->
      exists k path',
        (d <= length path')%nat /\ (length path' <= length qs)%nat /\ NoDup path' /\ firstn d path' = firstn d path /\
        (rest = [] -> path' = path) /\
        forall f, run (k + f)%nat (st_of (map (fun c => (c, d)) cs ++ stk) path) =
                  prepend (flat_map (gmg rest (fst4 e) (combine qs (firstn d path))) cs) (run f (st_of stk path')).
  Proof.
    intros IHs d e cs. induction cs as [|c cs IHc]; intros path stk Hsk Hd Hl ND Hfresh Hleaf.
    - exists O, path. repeat split; try assumption; try reflexivity. intros f. simpl. destruct (run f (st_of stk path)); reflexivity.
    - destruct (IHs d e c path (map (fun c => (c, d)) cs ++ stk) Hsk Hd Hl ND (Hfresh c (or_introl eq_refl)) Hleaf)
        as (k1 & p1 & Hd1 & Hl1 & ND1 & F1 & Leaf1 & R1).
      destruct (IHc p1 stk Hsk Hd1 Hl1 ND1) as (k2 & p2 & Hd2 & Hl2 & ND2 & F2 & Leaf2 & R2).
      { intros c' Hc'. rewrite F1. apply Hfresh. right. exact Hc'. }
      { intros E. rewrite (Leaf1 E). apply Hleaf. exact E. }
      exists (k1 + k2)%nat, p2. repeat split; try assumption.
      + rewrite F2. exact F1.
      + intros E. rewrite (Leaf2 E). apply Leaf1. exact E.
      + intros f. cbn [map app flat_map]. rewrite <- Nat.add_assoc, R1, R2, prepend_app, F1. reflexivity.
  Qed.

  Lemma NoDup_firstn {T} (l : list T) d : NoDup l -> NoDup (firstn d l).
  Proof.
    intros ND. rewrite <- (firstn_skipn d l) in ND. induction (firstn d l) as [|x p IH]; [constructor|].
    simpl in ND. inversion ND; subst. constructor; [intros C; apply H1; apply in_or_app; left; exact C|apply IH; exact H2].
  Qed.

  Lemma NoDup_snoc {T} (l : list T) x : NoDup l -> ~ In x l -> NoDup (l ++ [x]).
  Proof.
    intros ND H. induction ND as [|y l Hy ND IH]; simpl; [constructor; [intros []|constructor]|]. constructor.
    - intros C. apply in_app_or in C. destruct C as [C|[C|[]]]; [exact (Hy C)|subst; apply H; left; reflexivity].
    - apply IH. intros C. apply H. right. exact C.
  Qed.

  Lemma subtree_all : forall rest, subtree_spec rest.
  Proof.
    induction rest as [|e' rest' IH]; intros d e n path stk Hsk Hd Hl ND Hn Hleaf.
    - (* depth == size: yield {**mapping, current: n} *)
      destruct (skipn_cons_nth _ _ _ _ Hsk) as (He & _ & Hlen). simpl in Hlen. specialize (Hleaf eq_refl).
      exists 1%nat, path. split; [exact Hd|]. split; [exact Hl|]. split; [exact ND|]. split; [reflexivity|]. split; [reflexivity|].
      intros f. change (1 + f)%nat with (S f). cbn [sm_run]. unfold sm_step, st_of. cbn [sm_stack sm_path sm_map sm_rev].
      rewrite He. unfold sm_size. replace (d =? length lq - 1)%nat with true by (symmetry; apply Nat.eqb_eq; lia).
      rewrite dict_set_fresh by (apply current_fresh with d; assumption).
      rewrite (firstn_all2 path) by lia. cbn [gm_from_gen].
      match goal with |- context [sm_run _ _ _ _ _ _ _ f ?S] => destruct (sm_run am bm lq clo o_atoms o_bonds scope f S) end; reflexivity.
    - destruct (skipn_cons_nth _ _ _ _ Hsk) as (He & Hsk' & Hlen). simpl in Hlen.
      destruct (skipn_cons_nth _ _ _ _ Hsk') as (He' & _ & _).
      destruct e' as [[[s_n back] s_atom] s_bond].
      pose proof shape as (_ & NDq & Hback). destruct (Hback d _ He') as (b & kb & Hb & Hkb & Hnb). simpl in Hb. subst back.
      assert (Lqs : length qs = length lq) by (unfold qs; apply map_length).
      set (p0 := firstn d path).
      assert (Lp0 : length p0 = d) by (unfold p0; rewrite firstn_length; lia).
      set (path1 := p0 ++ [n]).
      assert (Lp1 : length path1 = S d) by (unfold path1; rewrite app_length, Lp0; simpl; lia).
      assert (ND1 : NoDup path1).
      { unfold path1. apply NoDup_snoc; [apply NoDup_firstn; exact ND|exact Hn]. }
      assert (Hcur : nth_error qs (length p0) = Some (fst4 e)) by (rewrite Lp0; apply qs_nth; exact He).
      assert (Hmp : dict_set (combine qs p0) (fst4 e) n = combine qs path1).
      { rewrite dict_set_fresh by (apply current_fresh with d; assumption). unfold path1. rewrite (combine_snoc qs p0 (fst4 e) n Hcur). reflexivity. }
      assert (Hrm : dict_set (combine p0 qs) n (fst4 e) = combine path1 qs).
      { rewrite dict_set_fresh by (rewrite keys_combine, firstn_all2 by lia; exact Hn).
        unfold path1. rewrite (combine_snoc_l qs p0 (fst4 e) n Hcur). reflexivity. }
      (* the node whose neighbours are scanned *)
      assert (Hn' : exists n', (if opt_is (Some b) (fst4 e) then Ok n
                                else match last_index qs b 0 with
                                     | None => Err KeyError
                                     | Some k => match nth_error path1 k with Some x => Ok x | None => Err IndexError end
                                     end) = Ok n' /\
                               (if opt_is (Some b) (fst4 e) then Some n else zget (combine qs path1) b) = Some n').
      { destruct (opt_is (Some b) (fst4 e)); [exists n; split; reflexivity|].
        rewrite (last_index_nth qs NDq kb b 0 Hnb). cbn [Nat.add].
        destruct (nth_error path1 kb) as [x|] eqn:Ex; [|apply nth_error_None in Ex; lia].
        exists x. split; [reflexivity|]. eapply zget_combine_nth; eassumption. }
      destruct Hn' as (n' & Hn1 & Hn2).
      set (cands := filter (fun ob => g_cand_ok am bm clo o_atoms o_bonds scope (combine qs path1) (combine path1 qs) n' s_n s_atom s_bond (fst ob) (snd ob))
                           (adj_get o_bonds n')).
      destruct (children_of_subtree rest' IH (S d) (s_n, Some b, s_atom, s_bond) (map fst (rev cands)) path1 stk Hsk')
        as (k2 & path2 & Hd2 & Hl2 & ND2 & F2 & _ & R2).
      { lia. } { lia. } { exact ND1. }
      { intros c Hc. apply in_map_iff in Hc. destruct Hc as (ob & <- & Hob). apply in_rev in Hob. unfold cands in Hob. apply filter_In in Hob.
        destruct Hob as [_ Hok]. apply g_cand_ok_fresh in Hok. rewrite keys_combine, firstn_all2 in Hok by lia.
        rewrite firstn_all2 by lia. exact Hok. }
      { intros _. exact Lp1. }
      exists (S k2), path2. split; [lia|]. split; [exact Hl2|]. split; [exact ND2|]. split.
      { assert (firstn d path2 = firstn d (firstn (S d) path2)) as -> by (rewrite firstn_firstn, Nat.min_l by lia; reflexivity).
        rewrite F2, (firstn_all2 path1) by lia. unfold path1. rewrite firstn_app, Lp0, Nat.sub_diag, (firstn_all2 p0) by lia. simpl. apply app_nil_r. }
      split; [discriminate|].
      intros f. change (S k2 + f)%nat with (S (k2 + f)). cbn [sm_run]. unfold st_of in R2. unfold sm_step, st_of. cbn [sm_stack sm_path sm_map sm_rev].
      rewrite He. unfold sm_size. replace (d =? length lq - 1)%nat with false by (symmetry; apply Nat.eqb_neq; lia).
      match goal with |- context [if (length path =? d)%nat then ?a else ?b] =>
        assert (Hclean : (if (length path =? d)%nat then a else b) = Ok (combine qs p0, combine p0 qs)) end.
      { destruct (Nat.eqb_spec (length path) d) as [E|_]; [unfold p0; rewrite firstn_all2 by lia; reflexivity|].
        apply sm_cleanup_ok; assumption. }
      rewrite Hclean. cbv beta iota. fold p0. rewrite Hmp, Hrm. fold path1. rewrite He'. cbv beta iota. fold qs. rewrite Hn1. cbv beta iota. fold cands.
      rewrite <- map_rev, <- (map_map fst (fun c => (c, S d))).
      rewrite R2. cbn [gm_from_gen fst4].
      replace (combine qs p0 ++ [(fst4 e, n)]) with (combine qs path1)
        by (unfold path1; rewrite (combine_snoc qs p0 (fst4 e) n Hcur); reflexivity).
      rewrite Hn2, swap_combine. fold cands. rewrite (firstn_all2 path1) by lia. rewrite flat_map_map_fst.
      match goal with |- context [sm_run _ _ _ _ _ _ _ f ?S] => destruct (sm_run am bm lq clo o_atoms o_bonds scope f S) end; reflexivity.
  Qed.

  (* THE REFINEMENT: the explicit-stack loop runs to completion without exception and yields, in order, exactly what the recursive
     form of the model yields *)
  Theorem sm_get_mapping_refines :
    exists fuel, sm_get_mapping am bm lq clo o_atoms o_bonds scope fuel = Ok (get_mapping am bm lq clo o_atoms o_bonds scope).
  Proof.
    rewrite get_mapping_generated.
    assert (E : exists s_n b0 s_atom bd0 rest, lq = (s_n, b0, s_atom, bd0) :: rest).
    { destruct shape as (NE & _). revert NE. generalize lq. intros [|[[[s_n b0] s_atom] bd0] rest] NE; [exfalso; apply NE; reflexivity|]. repeat eexists. }
    destruct E as (s_n & b0 & s_atom & bd0 & rest & E).
    set (init := filter (fun na => g_init_ok am scope s_atom (fst na) (snd na)) o_atoms).
    assert (Einit : sm_init am lq o_atoms scope = Ok (st_of (map (fun c => (c, O)) (map fst (rev init)) ++ []) [])).
    { unfold sm_init, st_of. rewrite E. fold init. rewrite combine_nil. cbn [combine]. rewrite app_nil_r, <- map_rev, map_map. reflexivity. }
    assert (Egen : get_mapping_gen QA A QB B am bm lq clo o_atoms o_bonds scope =
                   flat_map (gmg rest s_n []) (map fst (rev init))).
    { rewrite E. cbn [get_mapping_gen]. fold init. rewrite flat_map_map_fst. reflexivity. }
    destruct (children_of_subtree rest (subtree_all rest) O (s_n, b0, s_atom, bd0) (map fst (rev init)) [] []) as (k & p' & _ & _ & _ & _ & _ & R).
    { rewrite E. reflexivity. } { simpl. lia. } { simpl. lia. } { constructor. } { intros c _ []. } { reflexivity. }
    exists (k + 1)%nat. unfold sm_get_mapping. rewrite Einit, R, Egen. cbn [firstn fst4]. rewrite combine_nil.
    unfold st_of. cbn [sm_run sm_stack prepend]. rewrite app_nil_r. reflexivity.
  Qed.
End Refine.

Arguments lq_shape_ok {QA QB} lq.

(* ------------------------------------------------------------------------------------------------------------------------------ *)
(* every linear order that _compile_query produces has the shape the loop needs                                                    *)
(* ------------------------------------------------------------------------------------------------------------------------------ *)
Lemma In_firstn_nth {T} (l : list T) n x : In x (firstn n l) -> exists k, (k < n)%nat /\ nth_error l k = Some x.
Proof.
  revert l. induction n as [|n IH]; intros [|y l] H; simpl in H; try contradiction.
  destruct H as [->|H]; [exists O; split; [lia|reflexivity]|].
  destruct (IH l H) as (k & Hk & E). exists (S k). split; [lia|exact E].
Qed.

Lemma lin_ok_shape {QA QB} (qa : list (Z * QA)) (qb : list (Z * list (Z * QB))) clo : forall rest pre,
  lin_ok qa qb clo pre rest -> NoDup pre ->
  NoDup (pre ++ map fst4 rest) /\
  forall i e, nth_error rest i = Some e -> (length pre + i >= 1)%nat -> exists b, back4 e = Some b /\ In b (pre ++ firstn i (map fst4 rest)).
Proof.
  induction rest as [|[[[s_n back] a] bd] r IH]; intros pre H ND.
  - split; [simpl; rewrite app_nil_r; exact ND|]. intros [|i] e E; discriminate.
  - cbn [lin_ok] in H. destruct H as (Hnot & _ & Hback & _ & _ & Hrec).
    destruct (IH (pre ++ [s_n]) Hrec (NoDup_snoc pre s_n ND Hnot)) as (ND' & Hb').
    split; [cbn [map fst4]; rewrite <- app_assoc in ND'; exact ND'|].
    intros [|i] e E Hlen.
    + cbn in E. inversion E; subst e. cbn [back4 firstn]. rewrite app_nil_r.
      destruct pre as [|p0 pre]; [simpl in Hlen; lia|]. destruct Hback as (bk & bd' & -> & _ & Hin & _). exists bk. split; [reflexivity|exact Hin].
    + cbn [nth_error] in E. destruct (Hb' i e E) as (b & Eb & Hin); [rewrite app_length; simpl; lia|].
      exists b. split; [exact Eb|]. cbn [map fst4 firstn]. rewrite <- app_assoc in Hin. exact Hin.
Qed.

Theorem compiled_shape_ok {QA QB} (atoms : list (Z * QA)) (bonds : list (Z * list (Z * QB))) comps clo :
  compiled_ok atoms bonds comps clo -> forall c, In c comps -> lq_shape_ok c.
Proof.
  intros (_ & Hc & _) c Hin. destruct (Hc c Hin) as (NE & Hlin).
  destruct (lin_ok_shape atoms bonds clo c [] Hlin (NoDup_nil _)) as (ND & Hb).
  split; [exact NE|]. split; [exact ND|].
  intros i e E. destruct (Hb (S i) e E) as (b & Eb & Hi); [simpl; lia|]. change ([] ++ firstn (S i) (map fst4 c)) with (firstn (S i) (map fst4 c)) in Hi.
  destruct (In_firstn_nth _ _ _ Hi) as (k & Hk & Ek). exists b, k. split; [exact Eb|]. split; [lia|exact Ek].
Qed.

(* whole statement for the orders of a compiled pattern: no hypothesis on the linear query is left *)
Theorem stack_loop_refines_compiled {QA A QB B} (am : QA -> A -> bool) (bm : QB -> B -> bool)
    (q_atoms : list (Z * QA)) (q_bonds : list (Z * list (Z * QB))) comps clo :
  wf_adj q_atoms q_bonds -> compile_query q_atoms q_bonds = Ok (comps, clo) ->
  forall c, In c comps -> forall (o_atoms : list (Z * A)) (o_bonds : list (Z * list (Z * B))) scope,
  exists fuel, sm_get_mapping am bm c clo o_atoms o_bonds scope fuel = Ok (get_mapping am bm c clo o_atoms o_bonds scope).
Proof.
  intros WF E c Hin o_atoms o_bonds scope.
  apply sm_get_mapping_refines. eapply compiled_shape_ok; [exact (compile_query_spec QA QB q_atoms q_bonds WF comps clo E)|exact Hin].
Qed.

(* non-vacuity: a three-atom path pattern on a triangle with a pendant atom; the loop needs fuel (3 does not suffice, 100 does) *)
Example stack_loop_example :
  let tb := [(1, [(2, 1); (3, 1)]); (2, [(1, 1); (3, 1); (4, 1)]); (3, [(1, 1); (2, 1)]); (4, [(2, 1)])] in
  let ta := [(1, 6); (2, 6); (3, 6); (4, 6)] in
  let lq := [(1, None, 6, None); (2, Some 1, 6, Some 1); (3, Some 2, 6, Some 1)] in
  zsm_get_mapping lq [] ta tb [1; 2; 3; 4] 100 = Ok (zget_mapping lq [] ta tb [1; 2; 3; 4]) /\
  List.length (zget_mapping lq [] ta tb [1; 2; 3; 4]) = 4%nat /\
  zsm_get_mapping lq [] ta tb [1; 2; 3; 4] 3 = Err OtherError.
Proof. repeat split; vm_compute; reflexivity. Qed.
