(* C07 extension: is_equal <-> isomorphic.  The converse of IsoProofs.is_equal_true_isomorphism needs that
   other.connected_components really are CONNECTED (tcomps_ok only says: a partition that no bond leaves). *)
From Coq Require Import ZArith List Bool Lia Permutation.
From Model Require Import PyBase Iso.
From Proofs Require Import IsoLazyProofs IsoMatchProofs IsoCompileProofs IsoProofs.
Import ListNotations.
Local Open Scope Z_scope.

(* ---------- paths ---------- *)
Section Reach.
  Context {W : Type}.
  Variable bonds : list (Z * list (Z * W)).

  Inductive reach : Z -> Z -> Prop :=
  | reach_refl x : reach x x
  | reach_step x y z : In y (keys (adj_get bonds x)) -> reach y z -> reach x z.

  Lemma reach_trans a b c : reach a b -> reach b c -> reach a c.
  Proof. induction 1 as [|x y z Hxy _ IH]; intros H; [exact H | apply (reach_step x y c Hxy (IH H))]. Qed.

  Lemma reach_snoc a b c : reach a b -> In c (keys (adj_get bonds b)) -> reach a c.
  Proof. intros H Hc. apply (reach_trans a b c H). apply (reach_step b c c Hc). apply reach_refl. Qed.

  Lemma reach_sym : (forall n m, In m (keys (adj_get bonds n)) -> In n (keys (adj_get bonds m))) ->
    forall a b, reach a b -> reach b a.
  Proof.
    intros Hs a b H. induction H as [|x y z Hxy _ IH]; [apply reach_refl|].
    apply (reach_snoc z y x IH). apply Hs. exact Hxy.
  Qed.

  Lemma reach_closed (S : list Z) : (forall y m, In y S -> In m (keys (adj_get bonds y)) -> In m S) ->
    forall a b, reach a b -> In a S -> In b S.
  Proof. intros Hc a b H. induction H as [|x y z Hxy _ IH]; intros Ha; [exact Ha | apply IH; apply (Hc x y Ha Hxy)]. Qed.
End Reach.

Lemma reach_transfer {W1 W2} (b1 : list (Z * list (Z * W1))) (b2 : list (Z * list (Z * W2))) (R : Z -> Z -> Prop) :
  (forall a a' b, R a b -> In a' (keys (adj_get b1 a)) -> exists b', R a' b' /\ In b' (keys (adj_get b2 b))) ->
  (forall a b b', R a b -> R a b' -> b = b') ->
  forall a1 a2, reach b1 a1 a2 -> forall c1 c2, R a1 c1 -> R a2 c2 -> reach b2 c1 c2.
Proof.
  intros Hstep Hfun a1 a2 H. induction H as [x|x y z Hxy _ IH]; intros c1 c2 R1 R2.
  - rewrite (Hfun x c1 c2 R1 R2). apply reach_refl.
  - destruct (Hstep x y c1 R1 Hxy) as (b' & Rb & Hin). apply (reach_step b2 c1 b' c2 Hin). apply IH; assumption.
Qed.

Lemma NoDup_map_snd_inj {S T} (d : list (S * T)) a b : NoDup (map snd d) -> In a d -> In b d -> snd a = snd b -> a = b.
Proof.
  induction d as [|e d IH]; intros Hn Ha Hb E; [destruct Ha|]. cbn in Hn. inversion Hn as [|? ? He Hd]; subst.
  destruct Ha as [<-|Ha], Hb as [<-|Hb].
  - reflexivity.
  - exfalso. apply He. rewrite E. apply in_map. exact Hb.
  - exfalso. apply He. rewrite <- E. apply in_map. exact Ha.
  - apply IH; assumption.
Qed.

Lemma wf_adj_sym {V W} (atoms : list (Z * V)) (bonds : list (Z * list (Z * W))) : wf_adj atoms bonds ->
  forall n m, In m (keys (adj_get bonds n)) -> In n (keys (adj_get bonds m)).
Proof.
  intros (_ & _ & _ & _ & _ & S) n m H. destruct (In_key_zget _ _ H) as [bd Hbd].
  fold (bond_get bonds n m) in Hbd. rewrite S in Hbd. unfold bond_get in Hbd. apply zget_Some_key in Hbd. exact Hbd.
Qed.

Section Iso.
  Variables QA A QB B : Type.
  Variable amatch : QA -> A -> bool.
  Variable bmatch : QB -> B -> bool.
  Variable q_atoms : list (Z * QA).
  Variable q_bonds : list (Z * list (Z * QB)).
  Variable o_atoms : list (Z * A).
  Variable o_bonds : list (Z * list (Z * B)).
  Variable tcomps : list (list Z).
  Hypothesis wf_q : wf_adj q_atoms q_bonds.
  Hypothesis wf_o : wf_adj o_atoms o_bonds.
  Hypothesis tc_ok : tcomps_ok A B o_atoms o_bonds tcomps.

  (* every list of other.connected_components is connected *)
  Definition tcomps_connected : Prop :=
    forall cand y1 y2, In cand tcomps -> In y1 cand -> In y2 cand -> reach o_bonds y1 y2.
  Hypothesis tc_conn : tcomps_connected.

  (* a bijection between ALL atoms of the two graphs that preserves atoms and, in both directions, bonds *)
  Definition isomorphism (f : mapping) : Prop :=
    Permutation (map fst f) (keys q_atoms) /\ Permutation (image f) (keys o_atoms) /\
    (forall x y, In (x, y) f -> exists qa oa, zget q_atoms x = Some qa /\ zget o_atoms y = Some oa /\ amatch qa oa = true) /\
    (forall x1 y1 x2 y2, In (x1, y1) f -> In (x2, y2) f ->
       match bond_get q_bonds x1 x2, bond_get o_bonds y1 y2 with
       | Some qb, Some ob => bmatch qb ob = true
       | None, None => True
       | _, _ => False
       end).

  Section Given.
    Variable comps : list (list (lentry QA QB)).
    Variable clo : closures_t QB.
    Hypothesis c_ok : compiled_ok q_atoms q_bonds comps clo.
    Variable f : mapping.
    Hypothesis iso : isomorphism f.

    Notation aof := (map (@fst4 QA QB)).
    Notation L := (concat (map aof comps)).

    Lemma f_keys_nodup : NoDup (map fst f).
    Proof. destruct iso as (P & _). apply (Permutation_NoDup (Permutation_sym P)). apply wf_q. Qed.
    Lemma f_image_nodup : NoDup (map snd f).
    Proof. destruct iso as (_ & P & _). apply (Permutation_NoDup (Permutation_sym P)). apply wf_o. Qed.
    Lemma f_fun x y y' : In (x, y) f -> In (x, y') f -> y = y'.
    Proof. intros H1 H2. pose proof (NoDup_map_fst_inj f _ _ f_keys_nodup H1 H2 eq_refl) as E. congruence. Qed.
    Lemma f_inj x x' y : In (x, y) f -> In (x', y) f -> x = x'.
    Proof. intros H1 H2. pose proof (NoDup_map_snd_inj f _ _ f_image_nodup H1 H2 eq_refl) as E. congruence. Qed.
    Lemma f_total x : In x (keys q_atoms) -> exists y, In (x, y) f.
    Proof.
      destruct iso as (P & _). intros Hx. apply (Permutation_in _ (Permutation_sym P)) in Hx. apply in_map_iff in Hx.
      destruct Hx as ([x' y] & E & H). cbn in E. subst x'. eauto.
    Qed.
    Lemma f_onto y : In y (keys o_atoms) -> exists x, In (x, y) f.
    Proof.
      destruct iso as (_ & P & _). intros Hy. apply (Permutation_in _ (Permutation_sym P)) in Hy. apply in_map_iff in Hy.
      destruct Hy as ([x y'] & E & H). cbn in E. subst y'. eauto.
    Qed.

    Lemma forward a a' b : In (a, b) f -> In a' (keys (adj_get q_bonds a)) -> exists b', In (a', b') f /\ In b' (keys (adj_get o_bonds b)).
    Proof.
      intros Hab Ha'. pose proof wf_q as (_ & _ & _ & _ & Hnb & _). destruct (Hnb a a' Ha') as [_ Hat].
      destruct (f_total a' Hat) as [b' Hb']. exists b'. split; [exact Hb'|].
      destruct (In_key_zget _ _ Ha') as [qb Hqb]. fold (bond_get q_bonds a a') in Hqb.
      destruct iso as (_ & _ & _ & Hbd). specialize (Hbd a b a' b' Hab Hb'). rewrite Hqb in Hbd.
      destruct (bond_get o_bonds b b') as [ob|] eqn:Eo; [|contradiction]. unfold bond_get in Eo. apply zget_Some_key in Eo. exact Eo.
    Qed.

    Lemma backward b b' a : In (a, b) f -> In b' (keys (adj_get o_bonds b)) -> exists a', In (a', b') f /\ In a' (keys (adj_get q_bonds a)).
    Proof.
      intros Hab Hb'. pose proof wf_o as (_ & _ & _ & _ & Hnb & _). destruct (Hnb b b' Hb') as [_ Hat].
      destruct (f_onto b' Hat) as [a' Ha']. exists a'. split; [exact Ha'|].
      destruct (In_key_zget _ _ Hb') as [ob Hob]. fold (bond_get o_bonds b b') in Hob.
      destruct iso as (_ & _ & _ & Hbd). specialize (Hbd a b a' b' Hab Ha'). rewrite Hob in Hbd.
      destruct (bond_get q_bonds a a') as [qb|] eqn:Eq; [|contradiction]. unfold bond_get in Eq. apply zget_Some_key in Eq. exact Eq.
    Qed.

    Lemma reach_forward x1 x2 y1 y2 : reach q_bonds x1 x2 -> In (x1, y1) f -> In (x2, y2) f -> reach o_bonds y1 y2.
    Proof.
      intros H. apply (reach_transfer q_bonds o_bonds (fun x y => In (x, y) f)); [| |exact H].
      - intros a a' b. apply forward.
      - intros a b b'. apply f_fun.
    Qed.

    Lemma reach_backward x1 x2 y1 y2 : reach o_bonds y1 y2 -> In (x1, y1) f -> In (x2, y2) f -> reach q_bonds x1 x2.
    Proof.
      intros H. apply (reach_transfer o_bonds q_bonds (fun y x => In (x, y) f)); [| |exact H].
      - intros b b' a. apply backward.
      - intros b a a' H1 H2. apply (f_inj a a' b H1 H2).
    Qed.

    (* a linear order hangs together: every atom is reachable from the first one *)
    Lemma lin_reach root : forall rest pre, lin_ok q_atoms q_bonds clo pre rest -> pre <> [] ->
      (forall x, In x pre -> reach q_bonds root x) -> forall x, In x (aof rest) -> reach q_bonds root x.
    Proof.
      induction rest as [|[[[s_n back] a] b] rest IH]; intros pre Hl Hp Hpre x Hx; [destruct Hx|].
      cbn [lin_ok] in Hl. destruct Hl as (_ & _ & H3 & _ & _ & H6).
      destruct pre as [|p0 pre']; [congruence|]. destruct H3 as (bk & bd & _ & _ & Hbk & Hbond).
      assert (Hs : reach q_bonds root s_n).
      { apply (reach_snoc q_bonds root bk s_n (Hpre bk Hbk)). unfold bond_get in Hbond. apply zget_Some_key in Hbond. exact Hbond. }
      cbn [map fst4] in Hx. destruct Hx as [<-|Hx]; [exact Hs|].
      apply (IH ((p0 :: pre') ++ [s_n]) H6); [discriminate | | exact Hx].
      intros z Hz. apply in_app_or in Hz. destruct Hz as [Hz|[<-|[]]]; [apply Hpre; exact Hz | exact Hs].
    Qed.

    Lemma comp_connected c x1 x2 : In c comps -> In x1 (aof c) -> In x2 (aof c) -> reach q_bonds x1 x2.
    Proof.
      intros Hc H1 H2. destruct c_ok as (_ & Hl & _). destruct (Hl c Hc) as [Hne Hlin].
      destruct c as [|[[[s0 b0] a0] bd0] rest]; [congruence|]. cbn [lin_ok] in Hlin. destruct Hlin as (_ & _ & _ & _ & _ & Hlin).
      assert (Hroot : forall x, In x (aof ((s0, b0, a0, bd0) :: rest)) -> reach q_bonds s0 x).
      { intros x [<-|Hx]; [apply reach_refl|]. apply (lin_reach s0 rest ([] ++ [s0]) Hlin); [discriminate | | exact Hx].
        intros z [<-|[]]. apply reach_refl. }
      apply (reach_trans q_bonds x1 s0 x2); [apply (reach_sym q_bonds (wf_adj_sym _ _ wf_q)); apply Hroot; exact H1 | apply Hroot; exact H2].
    Qed.

    (* f listed in the order of the compiled components *)
    Definition g (x : Z) : Z := match zget f x with Some y => y | None => 0 end.
    Definition f' : mapping := map (fun x => (x, g x)) L.

    Lemma L_perm : Permutation L (keys q_atoms).
    Proof. apply c_ok. Qed.
    Lemma L_nodup : NoDup L.
    Proof. apply (Permutation_NoDup (Permutation_sym L_perm)). apply wf_q. Qed.

    Lemma g_spec x y : In (x, y) f -> g x = y.
    Proof. intros H. unfold g. rewrite (In_zget f x y f_keys_nodup H). reflexivity. Qed.

    Lemma In_f' x y : In (x, y) f' <-> In (x, y) f.
    Proof.
      unfold f'. rewrite in_map_iff. split.
      - intros (x0 & E & Hx0). injection E as -> <-. apply (Permutation_in _ L_perm) in Hx0.
        destruct (f_total x Hx0) as [y0 Hy0]. rewrite (g_spec x y0 Hy0). exact Hy0.
      - intros H. exists x. split; [rewrite (g_spec x y H); reflexivity|].
        apply (Permutation_in _ (Permutation_sym L_perm)). destruct iso as (P & _). apply (Permutation_in _ P).
        apply (in_map fst) in H. exact H.
    Qed.

    Lemma iso_is_global : global_embedding QA A QB B amatch bmatch q_atoms q_bonds o_atoms o_bonds tcomps comps None f'.
    Proof.
      pose proof iso as (_ & _ & Hat & Hbd). split.
      - unfold induced_embedding. split; [unfold f'; rewrite map_map; cbn [fst]; apply map_id|]. split; [|split].
        + unfold image, f'. rewrite map_map. cbn [snd]. apply NoDup_map_inj_in; [|exact L_nodup].
          intros a b Ha Hb E.
          assert (Ha' : In (a, g a) f) by (apply In_f'; unfold f'; apply in_map_iff; exists a; split; [reflexivity | exact Ha]).
          assert (Hb' : In (b, g b) f) by (apply In_f'; unfold f'; apply in_map_iff; exists b; split; [reflexivity | exact Hb]).
          rewrite E in Ha'. apply (f_inj a b (g b) Ha' Hb').
        + intros x y Hxy. apply In_f' in Hxy. destruct (Hat x y Hxy) as (qa & oa & H1 & H2 & H3).
          split; [cbn; apply zget_Some_key in H2; exact H2 | eauto].
        + intros x1 y1 x2 y2 H1 H2. apply In_f' in H1. apply In_f' in H2. apply (Hbd _ _ _ _ H1 H2).
      - intros x1 y1 x2 y2 H1 H2. apply In_f' in H1. apply In_f' in H2. pose proof tc_ok as (T1 & T2 & _ & _). split.
        + intros (c & Hc & G1 & G2). pose proof (reach_forward x1 x2 y1 y2 (comp_connected c x1 x2 Hc G1 G2) H1 H2) as Hr.
          destruct (Hat x1 y1 H1) as (_ & oa & _ & Ho & _). destruct (T1 y1 (zget_Some_key _ _ _ Ho)) as (cand & Hcand & Hy1).
          exists cand. split; [exact Hcand|]. split; [exact Hy1|].
          apply (reach_closed o_bonds cand (fun y m => T2 cand y m Hcand) y1 y2 Hr Hy1).
        + intros (cand & Hcand & G1 & G2). pose proof (reach_backward x1 x2 y1 y2 (tc_conn cand y1 y2 Hcand G1 G2) H1 H2) as Hr.
          assert (Hx1 : In x1 L).
          { apply (Permutation_in _ (Permutation_sym L_perm)). destruct iso as (P & _). apply (Permutation_in _ P). apply (in_map fst) in H1. exact H1. }
          apply in_concat in Hx1. destruct Hx1 as (l & Hl & Hx1). apply in_map_iff in Hl. destruct Hl as (c & <- & Hc).
          exists c. split; [exact Hc|]. split; [exact Hx1|]. destruct c_ok as (_ & _ & Hcl).
          apply (reach_closed q_bonds (aof c) (fun n m => Hcl c n m Hc) x1 x2 Hr Hx1).
    Qed.
  End Given.

  (* is_equal answers True exactly for isomorphic graphs *)
  Theorem is_equal_iff_isomorphic :
    exists b, is_equal amatch bmatch q_atoms q_bonds o_atoms o_bonds tcomps = Ok b /\ (b = true <-> exists f, isomorphism f).
  Proof.
    destruct (compile_query_total QA QB q_atoms q_bonds wf_q) as (comps & clo & Hc).
    pose proof (compile_query_spec _ _ _ _ wf_q _ _ Hc) as Hok.
    destruct (is_equal_iff QA A QB B amatch bmatch q_atoms q_bonds o_atoms o_bonds tcomps wf_q wf_o tc_ok comps clo Hc) as (b & E & Hb).
    exists b. split; [exact E|]. split.
    - intros ->. apply (is_equal_true_isomorphism QA A QB B amatch bmatch q_atoms q_bonds o_atoms o_bonds tcomps wf_q wf_o tc_ok). exact E.
    - intros (f & Hiso). apply Hb. split.
      + destruct Hiso as (P1 & P2 & _). apply Permutation_length in P1. apply Permutation_length in P2.
        unfold image, keys in *. rewrite !map_length in *. congruence.
      + exists (f' comps f).
        apply (multi_embedding_iff_global QA A QB B amatch bmatch q_atoms q_bonds o_atoms o_bonds tcomps comps clo wf_q wf_o tc_ok Hok).
        apply (iso_is_global comps clo Hok f Hiso).
  Qed.
End Iso.

(* ---------- deciding connectedness of concrete components (for the example instances) ---------- *)
Fixpoint reachb {W} (fuel : nat) (bonds : list (Z * list (Z * W))) (a b : Z) : bool :=
  (a =? b) || match fuel with
              | O => false
              | S k => existsb (fun m => reachb k bonds m b) (keys (adj_get bonds a))
              end.

Lemma reachb_sound {W} (bonds : list (Z * list (Z * W))) : forall fuel a b, reachb fuel bonds a b = true -> reach bonds a b.
Proof.
  induction fuel as [|k IH]; intros a b H; cbn [reachb] in H; apply orb_prop in H; destruct H as [H|H];
    try (apply Z.eqb_eq in H; subst; apply reach_refl); [discriminate|].
  apply existsb_exists in H. destruct H as (m & Hm & Hr). apply (reach_step bonds a m b Hm). apply IH. exact Hr.
Qed.

Definition tcomps_connectedb {W} (bonds : list (Z * list (Z * W))) (tcomps : list (list Z)) : bool :=
  forallb (fun cand => forallb (fun y1 => forallb (fun y2 => reachb (length cand) bonds y1 y2) cand) cand) tcomps.

Lemma tcomps_connectedb_sound {W} (bonds : list (Z * list (Z * W))) tcomps :
  tcomps_connectedb bonds tcomps = true -> tcomps_connected W bonds tcomps.
Proof.
  unfold tcomps_connectedb, tcomps_connected. rewrite forallb_forall. intros H cand y1 y2 Hc H1 H2.
  specialize (H cand Hc). rewrite forallb_forall in H. specialize (H y1 H1). rewrite forallb_forall in H.
  apply (reachb_sound bonds _ _ _ (H y2 H2)).
Qed.

(* non-vacuity: C-C-O . O renumbered (7,5,6 . 9) against the target of IsoProofs.example_instance *)
Definition ex2_q_atoms : list (Z * Z) := [(9, 8); (7, 6); (5, 6); (6, 8)].
Definition ex2_q_bonds : list (Z * list (Z * Z)) := [(9, []); (7, [(5, 1)]); (5, [(6, 1); (7, 1)]); (6, [(5, 1)])].

Theorem example_is_equal :
  wf_adj ex2_q_atoms ex2_q_bonds /\ wf_adj ex_o_atoms ex_o_bonds /\ tcomps_ok Z Z ex_o_atoms ex_o_bonds ex_tcomps /\
  tcomps_connected Z ex_o_bonds ex_tcomps /\
  is_equal Z.eqb Z.eqb ex2_q_atoms ex2_q_bonds ex_o_atoms ex_o_bonds ex_tcomps = Ok true /\
  isomorphism Z Z Z Z Z.eqb Z.eqb ex2_q_atoms ex2_q_bonds ex_o_atoms ex_o_bonds [(9, 4); (7, 1); (5, 2); (6, 3)].
Proof.
  split; [apply (wf_adjb_sound Z.eqb Zeqb_eq); vm_compute; reflexivity|].
  split; [apply (wf_adjb_sound Z.eqb Zeqb_eq); vm_compute; reflexivity|].
  split; [apply tcomps_okb_sound; vm_compute; reflexivity|].
  split; [apply tcomps_connectedb_sound; vm_compute; reflexivity|].
  split; [vm_compute; reflexivity|].
  unfold isomorphism. split; [|split; [|split]].
  - cbn. apply Permutation_refl.
  - cbn. apply perm_trans with [1; 4; 2; 3]; [apply perm_swap|]. apply perm_skip. apply perm_trans with [2; 4; 3]; [apply perm_swap|]. apply perm_skip. apply perm_swap.
  - intros x y H. cbn in H. destruct H as [E|[E|[E|[E|[]]]]]; injection E as <- <-; eexists; eexists; (split; [vm_compute; reflexivity|]); (split; [vm_compute; reflexivity|]); reflexivity.
  - intros x1 y1 x2 y2 H1 H2. cbn in H1, H2.
    destruct H1 as [E1|[E1|[E1|[E1|[]]]]]; injection E1 as <- <-; destruct H2 as [E2|[E2|[E2|[E2|[]]]]]; injection E2 as <- <-; vm_compute; auto.
Qed.

(* ---------- the hypotheses of the wrapper theorems as one boolean, evaluated by the correspondence on what the real
   code hands over (other._atoms, other._bonds, other.connected_components) ---------- *)
Fixpoint expand {W} (k : nat) (bonds : list (Z * list (Z * W))) (S : list Z) : list Z :=
  match k with
  | O => S
  | S k' => expand k' bonds (S ++ filter (fun m => negb (zmem m S)) (flat_map (fun y => keys (adj_get bonds y)) S))
  end.

Lemma expand_reach {W} (bonds : list (Z * list (Z * W))) a : forall k S, (forall y, In y S -> reach bonds a y) ->
  forall y, In y (expand k bonds S) -> reach bonds a y.
Proof.
  induction k as [|k IH]; intros S HS y Hy; [apply HS; exact Hy|]. cbn [expand] in Hy. apply (IH _) in Hy; [exact Hy|].
  intros z Hz. apply in_app_or in Hz. destruct Hz as [Hz|Hz]; [apply HS; exact Hz|].
  apply filter_In in Hz. destruct Hz as [Hz _]. apply in_flat_map in Hz. destruct Hz as (u & Hu & Hzu).
  apply (reach_snoc bonds a u z (HS u Hu) Hzu).
Qed.

Definition tcomps_connectedb2 {W} (bonds : list (Z * list (Z * W))) (tcomps : list (list Z)) : bool :=
  forallb (fun cand => match cand with
                       | [] => true
                       | a :: _ => let R := expand (length cand) bonds [a] in forallb (fun y => zmem y R) cand
                       end) tcomps.

Lemma tcomps_connectedb2_sound {V W} (atoms : list (Z * V)) (bonds : list (Z * list (Z * W))) tcomps : wf_adj atoms bonds ->
  tcomps_connectedb2 bonds tcomps = true -> tcomps_connected W bonds tcomps.
Proof.
  intros Wf H cand y1 y2 Hc H1 H2. unfold tcomps_connectedb2 in H. rewrite forallb_forall in H. specialize (H cand Hc).
  destruct cand as [|a r]; [destruct H1|]. cbv zeta in H. rewrite forallb_forall in H.
  assert (Hr : forall y, In y (a :: r) -> reach bonds a y).
  { intros y Hy. apply (expand_reach bonds a (length (a :: r)) [a]); [intros z [<-|[]]; apply reach_refl|]. apply zmem_In. apply H. exact Hy. }
  apply (reach_trans bonds y1 a y2); [apply (reach_sym bonds (wf_adj_sym atoms bonds Wf)); apply Hr; exact H1 | apply Hr; exact H2].
Qed.

Definition hyp_okb {V W} (weq : W -> W -> bool) (atoms : list (Z * V)) (bonds : list (Z * list (Z * W))) (tcomps : list (list Z)) : bool :=
  wf_adjb weq atoms bonds && tcomps_okb atoms bonds tcomps && tcomps_connectedb2 bonds tcomps.

Lemma hyp_okb_sound {V W} (weq : W -> W -> bool) (atoms : list (Z * V)) (bonds : list (Z * list (Z * W))) tcomps :
  (forall a b, weq a b = true -> a = b) -> hyp_okb weq atoms bonds tcomps = true ->
  wf_adj atoms bonds /\ tcomps_ok V W atoms bonds tcomps /\ tcomps_connected W bonds tcomps.
Proof.
  intros He H. unfold hyp_okb in H. apply andb_prop in H. destruct H as [H H3]. apply andb_prop in H. destruct H as [H1 H2].
  pose proof (wf_adjb_sound weq He atoms bonds H1) as Wf. split; [exact Wf|]. split; [apply tcomps_okb_sound; exact H2|].
  apply (tcomps_connectedb2_sound atoms bonds tcomps Wf H3).
Qed.
