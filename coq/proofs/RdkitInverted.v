(* C20 round 4: the dictionary `inverted = {v: k for k, v in mapping.items()}` of to_rdkit_molecule.  The whole-molecule tag model
   (Model.Rdkit.to_tags) reads inverted[j] as "the j-th atom number" (znth nums j 0); here the dictionary is modelled as built
   (the items of `mapping` exchanged, a repeated key keeps the last value) and the reading is proved, for distinct atom numbers:
   inverted[j] is the j-th number, and inverted[mapping[n]] = n for every atom n. *)
From Coq Require Import ZArith List String Bool Lia.
From Model Require Import PyBase PeriodicTable Stereo Rdkit.
From Proofs Require Import RdkitProofs.
Import ListNotations.
Open Scope list_scope.
Open Scope Z_scope.

(* {v: k for k, v in mapping.items()}: for distinct atom numbers the items of `mapping` are index_map in order *)
Definition inverted_map (nums : list Z) : list (Z * Z) := map (fun p => (snd p, fst p)) (index_map nums).
Definition inverted_get (nums : list Z) (j : Z) : pyres Z :=
  match zget_last (inverted_map nums) j with Some n => Ok n | None => Err KeyError end.

Lemma inverted_map_enum nums : inverted_map nums = enum_from 0 nums.
Proof.
  unfold inverted_map, index_map. rewrite map_map. cbn [fst snd].
  rewrite <- (map_id (enum_from 0 nums)) at 2. apply map_ext. intros [a b]. reflexivity.
Qed.

Lemma zget_last_enum_from : forall (l : list Z) i j, (j < List.length l)%nat ->
  zget_last (enum_from i l) (i + Z.of_nat j) = Some (nth j l 0).
Proof.
  induction l as [|x r IH]; intros i j Hj; [cbn in Hj; lia|].
  cbn [enum_from zget_last]. destruct j as [|j].
  - rewrite zget_last_None.
    + replace (i + Z.of_nat 0) with i by lia. rewrite Z.eqb_refl. reflexivity.
    + unfold keys. rewrite enum_from_keys. rewrite zrange_from_In. lia.
  - replace (i + Z.of_nat (S j)) with ((i + 1) + Z.of_nat j) by lia.
    rewrite (IH (i + 1) j) by (cbn in Hj; lia). reflexivity.
Qed.

Theorem inverted_lookup : forall nums j, (j < List.length nums)%nat ->
  inverted_get nums (Z.of_nat j) = Ok (znth nums (Z.of_nat j) 0).
Proof.
  intros nums j Hj. unfold inverted_get. rewrite inverted_map_enum.
  replace (Z.of_nat j) with (0 + Z.of_nat j) at 1 by lia. rewrite (zget_last_enum_from nums 0 j Hj).
  unfold znth. destruct (Z.of_nat j <? 0) eqn:E; [apply Z.ltb_lt in E; lia|]. rewrite Nat2Z.id. reflexivity.
Qed.

Theorem inverted_of_mapping : forall nums k, NoDup nums -> (k < List.length nums)%nat ->
  exists i, midx (index_map nums) (nth k nums 0) = Ok i /\ inverted_get nums i = Ok (nth k nums 0).
Proof.
  intros nums k Hn Hk. exists (Z.of_nat k). split; [apply index_map_lookup; assumption|].
  rewrite (inverted_lookup nums k Hk). unfold znth. destruct (Z.of_nat k <? 0) eqn:E; [apply Z.ltb_lt in E; lia|].
  rewrite Nat2Z.id. reflexivity.
Qed.

(* outside the indices the look-up is a KeyError *)
Theorem inverted_domain : forall nums j, (j < 0 \/ Z.of_nat (List.length nums) <= j) -> inverted_get nums j = Err KeyError.
Proof.
  intros nums j Hj. unfold inverted_get. rewrite inverted_map_enum, zget_last_None; [reflexivity|].
  unfold keys. rewrite enum_from_keys, zrange_from_In. lia.
Qed.

Example inverted_example : inverted_get [7; 3; 12] 1 = Ok 3 /\ midx (index_map [7; 3; 12]) 3 = Ok 1 /\ inverted_get [7; 3; 12] 3 = Err KeyError.
Proof. vm_compute. repeat split. Qed.
