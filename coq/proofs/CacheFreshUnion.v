(* C13 -- the freshness invariant FW for union (in place and copying), with the exact residual exception: an in-place union inside a
   transaction must not bring in an atom under a number that the backup still knows (known finding txn-union-number-reuse-untracked). *)
From Coq Require Import ZArith List Bool Lia.
From Model Require Import PyBase Cache.
From Proofs Require Import CacheProofs CacheWf CacheCopy CacheCoh CacheWorld CacheUnion CacheTheorems CacheUsable CacheExamples CacheTxn
  CacheFresh CacheFreshOps CacheFreshWorld.
Import ListNotations.
Open Scope Z_scope.

(* ---- the environment of an atom in a disjoint union is its environment in its own part *)
Lemma lenvn_app_l h o1 o2 om n :
  o_atoms om = o_atoms o1 ++ o_atoms o2 -> o_adj om = o_adj o1 ++ o_adj o2 -> wf h o1 -> In n (keys (o_atoms o1)) ->
  lenvn h om n = lenvn h o1 n.
Proof.
  intros Ea Ed Wf Hn. unfold lenvn, row. rewrite Ea, Ed, zget_app. rewrite <- (wf_keys _ _ _ Wf) in Hn. apply keys_In_zget in Hn.
  destruct Hn as [rw Hr]. rewrite Hr. apply lenv_ext; [reflexivity|]. intros m rf Hm. rewrite zget_app.
  assert (In m (keys (o_atoms o1))) as Hk.
  { eapply (wfa_nbr_atom _ _ _ n m rf Wf). eapply nd_In_aslot; [apply (wf_nd _ _ _ Wf) | apply zget_In; exact Hr | exact Hm]. }
  apply keys_In_zget in Hk. destruct Hk as [am Hk]. now rewrite Hk.
Qed.
Lemma lenvn_app_r h o1 o2 om n :
  o_atoms om = o_atoms o1 ++ o_atoms o2 -> o_adj om = o_adj o1 ++ o_adj o2 -> wf h o1 -> wf h o2 ->
  (forall k, In k (keys (o_atoms o2)) -> ~ In k (keys (o_atoms o1))) -> In n (keys (o_atoms o2)) ->
  lenvn h om n = lenvn h o2 n.
Proof.
  intros Ea Ed Wf1 Wf2 D Hn. unfold lenvn, row. rewrite Ea, Ed, zget_app.
  assert (forall k, In k (keys (o_atoms o2)) -> zget (o_adj o1) k = None /\ zget (o_atoms o1) k = None) as No.
  { intros k Hk. split; apply zget_None_keys; [rewrite (wf_keys _ _ _ Wf1)|]; now apply D. }
  rewrite (proj1 (No n Hn)). destruct (zget (o_adj o2) n) as [rw|] eqn:Hr; [|reflexivity].
  apply lenv_ext; [reflexivity|]. intros m rf Hm. rewrite zget_app.
  assert (In m (keys (o_atoms o2))) as Hk.
  { eapply (wfa_nbr_atom _ _ _ n m rf Wf2). eapply nd_In_aslot; [apply (wf_nd _ _ _ Wf2) | apply zget_In; exact Hr | exact Hm]. }
  now rewrite (proj2 (No m Hk)).
Qed.

Lemma Fr_merge h o1 o2 om :
  wf h o1 -> wf h o2 -> (forall k, In k (keys (o_atoms o2)) -> ~ In k (keys (o_atoms o1))) ->
  o_atoms om = o_atoms o1 ++ o_atoms o2 -> o_adj om = o_adj o1 ++ o_adj o2 ->
  o_backup om = o_backup o1 -> o_changed om = o_changed o1 ->
  Fr h o1 -> Fr h o2 -> o_backup o2 = None ->
  (forall b, o_backup o1 = Some b -> forall k, In k (keys (o_atoms o2)) -> zget (bk_atoms b) k = None) ->
  Fr h om.
Proof.
  intros Wf1 Wf2 D Ea Ed Eb Ec [H1 L1] F2 B2 NR. destruct (Fr_settled h o2 F2 B2) as [C2 [Bo2 OK2]].
  assert (forall n a, zget (o_atoms om) n = Some a ->
            (zget (o_atoms o1) n = Some a /\ lenvn h om n = lenvn h o1 n) \/
            (zget (o_atoms o1) n = None /\ zget (o_atoms o2) n = Some a /\ lenvn h om n = lenvn h o2 n)) as Split.
  { intros n a Ha. rewrite Ea, zget_app in Ha. destruct (zget (o_atoms o1) n) as [a1|] eqn:E1.
    - left. split; [exact Ha|]. eapply lenvn_app_l; eauto. eapply zget_In_keys; eauto.
    - right. split; [reflexivity|]. split; [exact Ha|]. eapply lenvn_app_r; eauto. eapply zget_In_keys; eauto. }
  split.
  - intros n a Ha. destruct (Split n a Ha) as [[E1 Ls]|[E1 [E2 Ls]]].
    + destruct (H1 n a E1) as [Hp|Hc]; [left; unfold pend in *; now rewrite Ec|]. right. apply (hydC_keep h o1); auto.
    + right. destruct (OK2 n a E2) as [[l [X1 X2]] _]. exists (a_core a), l. split; [exact X2|]. split; [now rewrite Ls|].
      split; [reflexivity|]. split; [reflexivity|]. rewrite Eb. destruct (o_backup o1) as [b|] eqn:B1; [|auto].
      rewrite (NR b eq_refl n); [exact I | eapply zget_In_keys; eauto].
  - intros Bm. rewrite Eb in Bm. destruct (L1 Bm) as [C1 [La1 Bo1]]. split; [congruence|]. split.
    + intros n a Ha. destruct (Split n a Ha) as [[E1 Ls]|[E1 [E2 Ls]]].
      * destruct (La1 n a E1) as [l [X1 X2]]. exists l. split; [now rewrite Ls | exact X2].
      * destruct (OK2 n a E2) as [_ [l [X1 X2]]]. exists l. split; [now rewrite Ls | exact X2].
    + intros r Hr. rewrite Ed, arefs_app in Hr. apply in_app_or in Hr. destruct Hr; [now apply Bo1 | now apply Bo2].
Qed.

(* the contract of union for the freshness invariant: the other molecule is not inside a transaction; the current one is not
   either, or the union is in place and brings in no atom under a number the backup still knows *)
Definition union_ok (rmp cp : bool) (s : state) : Prop :=
  match s_others s with
  | [] => True
  | other :: _ =>
      o_backup other = None /\
      (o_backup (s_cur s) = None \/
       (cp = false /\ forall b, o_backup (s_cur s) = Some b ->
          forall k, In k (keys (o_atoms (s_cur (fst (union rmp cp s))))) -> ~ In k (keys (o_atoms (s_cur s))) -> zget (bk_atoms b) k = None))
  end.

Lemma Fr_heap_ext s h1 : FW s -> hext (s_heap s) h1 -> Forall (Fr h1) (units s).
Proof.
  intros [Ws Ff] X. rewrite Forall_forall in *. intros u Hu. apply (Fr_ext (s_heap s)); [now apply Ff|]. intros r Hr. apply X.
  destruct Ws as [F _]. rewrite Forall_forall in F. eapply U_lt; eauto.
Qed.

Theorem Fr_union rmp cp s : FW s -> union_ok rmp cp s ->
  Forall (Fr (s_heap (fst (union rmp cp s)))) (units (fst (union rmp cp s))).
Proof.
  intros Fs UO. pose proof Fs as [Ws Ff]. pose proof (W_cur s Ws) as Uc. pose proof (FW_cur s Fs) as Fc.
  unfold union_ok in UO. unfold union in *. destruct s as [h self others]. cbn [s_heap s_cur s_others] in *.
  destruct others as [|other rest]; [exact Ff|]. destruct UO as [Bot UO].
  assert (U h other /\ Fr h other) as [Uot Fot].
  { destruct Ws as [F _]. rewrite Forall_forall in F, Ff. split; [apply F | apply Ff]; apply in_flat_map; exists other; (split; [right; now left | now left]). }
  set (collide := existsb (fun n => zmem n (keys (o_atoms other))) (keys (o_atoms self))) in *.
  destruct (collide && negb rmp) eqn:Ecn; [exact Ff|].
  destruct (copy_mol false false h other) as [[h1 oc]|e] eqn:Ec; [|exact Ff].
  destruct (copy_mol_spec _ _ _ _ _ _ (proj1 (proj1 Uot)) Ec) as [cb [Eoc [Woc [X1 [Fr1 Voc]]]]].
  assert (inv1 h1 oc) as Ioc.
  { split; [exact Woc|]. subst oc. intros l Hl x Hx. cbn [o_changed o_atoms] in *. destruct Uot as [[_ Cw] _]. eapply Cw; eauto. }
  assert (Fr h1 oc /\ o_backup oc = None) as [Foc Boc].
  { split; [|subst oc; reflexivity]. apply (Fr_view h other); [exact Voc | subst oc; reflexivity | subst oc; simpo; now rewrite Bot | exact Fot]. }
  assert (exists oc' e2, (if collide then remap (combine (keys (o_atoms oc)) (zrange_from (zmax (keys (o_atoms self)) 0 + 1) (length (o_atoms oc)))) h1 oc
                          else ok h1 oc) = (h1, oc', e2) /\ inv1 h1 oc' /\ Fr h1 oc' /\ o_backup oc' = None /\
                         (e2 = None -> forall k, In k (keys (o_atoms oc')) -> ~ In k (keys (o_atoms self)))) as [oc' [e2 [Er [Ioc' [Foc' [Boc' Dk]]]]]].
  { destruct collide eqn:Ecol.
    - set (mp := combine _ _). pose proof (remap_good mp h1 oc Ioc) as G. pose proof (remap_spec mp h1 oc) as Sp.
      pose proof (remap_frop_out mp h1 oc Ioc Foc Boc) as Fm.
      destruct (remap mp h1 oc) as [[h2 oc'] e2]. exists oc', e2. destruct Sp as [-> Sp]. destruct G as [I2 [_ [_ [_ Bk]]]].
      split; [reflexivity|]. split; [exact I2|]. split; [exact Fm|]. split; [congruence|].
      intros E2. destruct Sp as [[Ee _]|[_ [Ea _]]]; [congruence|]. rewrite Ea, keys_rn_atoms. intros k Hk Hs.
      apply in_map_iff in Hk. destruct Hk as [n [<- Hn]].
      destruct (zget_combine (keys (o_atoms oc)) (zrange_from (zmax (keys (o_atoms self)) 0 + 1) (length (o_atoms oc))) n) as [v [Hv Iv]];
        [rewrite zrange_from_length; unfold keys; now rewrite map_length | exact Hn|].
      unfold mg, mp in Hs. rewrite Hv in Hs. apply zrange_from_In in Iv. apply (zmax_ge _ 0) in Hs. lia.
    - exists oc, None. split; [reflexivity|]. split; [exact Ioc|]. split; [exact Foc|]. split; [exact Boc|]. intros _.
      subst oc. cbn [o_atoms]. apply keys_other_disj. exact Ecol. }
  rewrite Er in *. pose proof (Fr_heap_ext _ h1 Fs X1) as Ff1. cbn [s_heap] in Ff1.
  destruct e2 as [e2|]; [exact Ff1|]. specialize (Dk eq_refl). destruct Ioc' as [Woc' Cwoc'].
  assert (NoDup (keys (o_atoms oc'))) as Ndoc by (rewrite <- (wf_keys _ _ _ Woc'); apply (wf_nd _ _ _ Woc')).
  assert (NoDup (keys (o_adj oc'))) as Ndad by (apply (wf_nd _ _ _ Woc')).
  assert (U h1 self) as Us1 by (eapply hext_U; eauto). pose proof Us1 as [[Ws1 Cws] _].
  assert (Fr h1 self) as Fs1. { rewrite Forall_forall in Ff1. apply Ff1. rewrite units_cons. now left. }
  destruct cp.
  - (* a new molecule: the current one is not inside a transaction *)
    destruct UO as [Bs|[Ecp _]]; [|discriminate].
    destruct (copy_mol false false h1 self) as [[h3 u]|e] eqn:Eu; [|exact Ff1].
    destruct (copy_mol_spec _ _ _ _ _ _ (proj1 (proj1 Us1)) Eu) as [cbu [Eub [Wu [X3 [Fr3 Vu]]]]]. cbn [fst s_heap].
    pose proof (Fr_heap_ext _ h3 Fs (hext_trans _ _ _ X1 X3)) as Ff3. cbn [s_heap] in Ff3.
    rewrite units_others in *. apply Forall_app in Ff3. destruct Ff3 as [F3a F3b]. apply Forall_app. split; [exact F3a|].
    apply Forall_app. split; [|exact F3b].
    assert (forall k, In k (keys (o_adj oc')) -> ~ In k (keys cbu)) as DAu.
    { intros k Hk. rewrite (wf_keys _ _ _ Woc') in Hk. subst u. unfold wf in Wu. cbn [o_atoms o_adj] in Wu. rewrite (wf_keys _ _ _ Wu). now apply Dk. }
    subst u. simpo. rewrite filter_kept_ff in *.
    rewrite (zupdate_app (o_atoms oc') _ Ndoc Dk), (zupdate_app (o_adj oc') _ Ndad DAu).
    set (u0 := mkM (o_atoms self) cbu [] (o_changed self) None (o_name self) (o_meta self)) in *.
    constructor; [|unfold shadow; simpo; constructor].
    apply (Fr_merge h3 u0 oc'); auto; try reflexivity.
    + eapply wfa_ext; [exact Woc' | destruct X3; lia |]. intros r Hr. apply X3. apply (wf_lt _ _ _ Woc'). exact Hr.
    + apply (Fr_view h1 self); [exact Vu | reflexivity | unfold u0; simpo; now rewrite Bs | exact Fs1].
    + apply (Fr_ext h1); [exact Foc'|]. intros r Hr. apply X3. apply (wf_lt _ _ _ Woc'). exact Hr.
    + unfold u0; simpo. intros b Hb. discriminate.
  - (* in place *)
    unfold lift, flush, ok in *. cbn [s_heap s_cur s_others fst] in *. simpo. rewrite filter_kept_ff in *.
    assert (forall k, In k (keys (o_adj oc')) -> ~ In k (keys (o_adj self))) as DAs.
    { intros k Hk. rewrite (wf_keys _ _ _ Woc') in Hk. rewrite (wf_keys _ _ _ Ws1). now apply Dk. }
    rewrite (zupdate_app (o_atoms oc') _ Ndoc Dk), (zupdate_app (o_adj oc') _ Ndad DAs) in *.
    rewrite units_cons in *. inversion Ff1 as [|? ? _ Frest]; subst. constructor; [|exact Frest].
    apply (Fr_merge h1 self oc'); auto; try reflexivity.
    intros b Hb k Hk. destruct UO as [Bs|[_ NR]]; [congruence|]. apply (NR b Hb k); [|now apply Dk].
    simpo. rewrite keys_app. apply in_or_app. now right.
Qed.
