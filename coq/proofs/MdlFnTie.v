(* C11: tie BY TRANSLATION.  Gen.MdlFn is regenerated on every run from the statements of parse_rxn_v2000 / parse_rxn_v3000 (the role
   boundaries from the counts line, the bookkeeping that runs when a molecule is dropped) and of chython/files/_mapping.py (the per-atom
   branch chains of postprocess_parsed_molecule and of both passes of postprocess_parsed_reaction, the first fresh number).
   Here: the hand-written models ARE these generated functions. *)
From Coq Require Import ZArith List String Ascii Bool Lia.
From Model Require Import PyBase Mdl MdlMap MdlMapRxn.
From Gen Require Import MdlFn.
Import ListNotations.
Open Scope Z_scope.
Local Notation length := List.length.

(* ---- the reaction parsers ---- *)
Theorem tie_rxn_drop_same : forall lm rc pc gc, src_erxn_drop lm rc pc gc = src_rxn_drop lm rc pc gc.
Proof. reflexivity. Qed.

(* one round of the molecule loop whose molecule is dropped (a ValueError of the molecule parser, EmptyMolecule included): the counters
   after the round are those the translated if / elif / else chain of the source computes *)
Theorem tie_rxn_loop_drop : forall pm marker off1 off2 bias data st n start e,
  find_line marker (skipn (rs_start st + off1) data) (rs_start st + off2) = Some start ->
  pm (skipn start data) = Err e -> is_value_error e = true ->
  rxn_loop pm marker off1 off2 bias data st n =
    let '(rc, pc, gc) := src_rxn_drop (Z.of_nat (length (rs_mols st))) (rs_rc st) (rs_pc st) (rs_gc st) in
    Ok (mk_rs (start + bias) (rs_mols st) rc pc gc (S (rs_log st))).
Proof.
  intros pm marker off1 off2 bias data st n start e Hf Hp He. unfold rxn_loop. rewrite Hf. cbn [of_opt bind]. rewrite Hp, He.
  unfold src_rxn_drop. destruct (Z.of_nat (length (rs_mols st)) <? rs_rc st); [reflexivity|].
  destruct (Z.of_nat (length (rs_mols st)) <? rs_pc st); reflexivity.
Qed.
(* a molecule that is read leaves the counters alone *)
Theorem tie_rxn_loop_keep : forall pm marker off1 off2 bias data st n start m,
  find_line marker (skipn (rs_start st + off1) data) (rs_start st + off2) = Some start -> pm (skipn start data) = Ok m ->
  rxn_loop pm marker off1 off2 bias data st n = Ok (mk_rs (start + bias) (rs_mols st ++ [m]) (rs_rc st) (rs_pc st) (rs_gc st) (rs_log st)).
Proof. intros pm marker off1 off2 bias data st n start m Hf Hp. unfold rxn_loop. rewrite Hf. cbn [of_opt bind]. rewrite Hp. reflexivity. Qed.

(* the role boundaries: the model's parsers continue with the triple the translated assignments compute from the integers of the counts line *)
Theorem tie_rxn_v2000_counts : forall data line l1 i0 i1 i2,
  nth_error data 4 = Some line -> py_int (slice 0 3 line) = Ok i0 -> py_int (slice 3 6 line) = Ok i1 ->
  (match rstrip (slice_from 6 line) with [] => Ok 0 | t => py_int t end) = Ok i2 -> nth_error data 1 = Some l1 ->
  parse_rxn_v2000 data =
    let '(rc, pc, gc) := src_rxn_counts i0 i1 i2 in
    if gc =? 0 then Err ValueError else
    if (rc <? 0) || (pc <? rc) || (gc <? pc) then Err OtherError else
    do st <- foldM (rxn_loop (fun d => lift2 (parse_mol_v2000 d)) (L "$MOL") 4 5 1 data) (nat_range (Z.to_nat gc)) (mk_rs 0 [] rc pc gc 0);
    rxn_result (title_of l1) st.
Proof.
  intros data line l1 i0 i1 i2 H4 H0 H1 H2 Hl. unfold parse_rxn_v2000. rewrite H4. cbn [of_opt bind]. rewrite H0. cbn [bind]. rewrite H1. cbn [bind].
  rewrite H2. cbn [bind]. rewrite Hl. cbn [of_opt bind]. unfold src_rxn_counts. reflexivity.
Qed.
Theorem tie_rxn_v3000_counts : forall data line l1 t0 t1 rest i0 i1 i2,
  nth_error data 4 = Some line -> split_ws (slice_from 13 line) = t0 :: t1 :: rest -> py_int t0 = Ok i0 -> py_int t1 = Ok i1 ->
  (match rest with [t2] => py_int t2 | _ => Ok 0 end) = Ok i2 -> nth_error data 1 = Some l1 ->
  parse_rxn_v3000 data =
    let '(rc, pc, gc) := src_erxn_counts (Z.of_nat (length (t0 :: t1 :: rest))) i0 i1 (match rest with [_] => i2 | _ => 0 end) in
    if gc =? 0 then Err ValueError else
    if (rc <? 0) || (pc <? rc) || (gc <? pc) then Err OtherError else
    do st <- foldM (rxn_loop (parse_ctab_v3000 None) (L "M  V30 BEGIN CTAB") 5 5 0 data) (nat_range (Z.to_nat gc)) (mk_rs 1 [] rc pc gc 0);
    rxn_result (title_of l1) st.
Proof.
  intros data line l1 t0 t1 rest i0 i1 i2 H4 Hs H0 H1 H2 Hl. unfold parse_rxn_v3000. rewrite Hl, H4. cbn [of_opt bind]. rewrite Hs.
  cbn [nth_error of_opt bind]. rewrite H0. cbn [bind]. rewrite H1. cbn [bind]. unfold src_erxn_counts.
  destruct rest as [|t2 [|t3 rest]]; cbn [length] in *.
  - inversion H2; subst. cbn [of_opt bind]. reflexivity.
  - rewrite H2. cbn [of_opt bind]. reflexivity.
  - inversion H2; subst. cbn [of_opt bind].
    replace (Z.of_nat (S (S (S (S (length rest))))) =? 3) with false by (symmetry; apply Z.eqb_neq; lia). reflexivity.
Qed.

(* ---- chython/files/_mapping.py ---- *)
Definition pp_tuple (s : ppstate) := (pp_next s, pp_used s, pp_out s, pp_log s).
Theorem tie_ppm_step : forall ig st om,
  src_ppm_step ig om (pp_next st) (pp_used st) (pp_out st) (pp_log st) = (do s <- pp_step ig st om; Ok (pp_tuple s)).
Proof.
  intros ig st om. unfold src_ppm_step, pp_step. destruct (map_val om =? 0); [reflexivity|].
  destruct (zmem (map_val om) (pp_used st)); [destruct ig; reflexivity | reflexivity].
Qed.
Theorem tie_ppr_step : forall ig st m,
  src_ppr_step ig m (pp_next st) (pp_used st) (pp_out st) (pp_log st) = (do s <- pp_step ig st (Some m); Ok (pp_tuple s)).
Proof.
  intros ig st m. unfold src_ppr_step, pp_step. cbn [map_val]. destruct (m =? 0); [reflexivity|].
  destruct (zmem m (pp_used st)); [destruct ig; reflexivity | reflexivity].
Qed.
Theorem tie_ppr_first_step : forall ig st om,
  src_ppr_first_step ig om (m1_used st) (m1_out st) (m1_log st) = (do s <- m1_step ig st om; Ok (m1_used s, m1_out s, m1_log s)).
Proof.
  intros ig st om. unfold src_ppr_first_step, m1_step. destruct (map_val om =? 0); [reflexivity|]. cbn [negb].
  destruct (zmem (map_val om) (m1_used st)); [destruct ig; reflexivity | reflexivity].
Qed.
Theorem tie_ppr_start : forall reactants products reagents, src_ppr_start reactants products reagents = ppr_start reactants products reagents.
Proof. reflexivity. Qed.
