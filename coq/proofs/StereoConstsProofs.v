(* C12: the constants the hand-written stereo models copy from the source are regenerated on every run (Gen.StereoConsts, by
   tools/gen_stereo.py) and pinned here: an edit of a threshold, an atomic-number constant, a compared bond order or of the meaning
   of '@' / '/' in the source breaks this file *)
From Coq Require Import ZArith List Bool.
From Model Require Import PyBase Graph Stereo StereoRegistry StereoSmiles.
From Gen Require Import StereoConsts.
Import ListNotations.
Open Scope Z_scope.

Theorem constants_pinned :
  src_H = 1 /\ src_C = 6 /\
  src_cmp_tetrahedrons = [1; 4] /\ src_cmp_cumulenes = [2; 1; 2] /\ src_cmp_stereogenic_tetrahedrons = [3; 4] /\
  src_cmp_stereogenic_cumulenes = [3; 8; 3; 8; 2; 2; 3; 8; 3; 8; 8; 8; 2; 2] /\
  src_cmp_chiral_centers = [8; 2; 2; 1; 1] /\ src_cmp_add_wedge = [0; 1; 2; 0; 0; 3; 4; 0] /\ src_cmp_rings_linker_tetrahedrons = [1] /\
  src_slash_is_true = true /\ src_at_is_true = true.
Proof. repeat split; vm_compute; reflexivity. Qed.

(* the model functions in terms of the regenerated constants *)
Theorem model_uses_source_constants :
  (forall g n, is_h g n = (anum g n =? src_H)) /\
  (forall g na, is_tetra g na =
     ((a_num (snd na) =? src_C) && (a_chg (snd na) =? 0) && negb (a_rad (snd na)) &&
      forallb (fun mb => b_ord (snd mb) =? nth 0 src_cmp_tetrahedrons 0) (nbrs g (fst na)) &&
      negb (nth 1 src_cmp_tetrahedrons 0 <? zlen (nbrs g (fst na))))) /\
  (forall fs g n, sg_th_entry fs g n =
     if existsb (fun x => negb (fs (anum g x))) (nbr_ids g n) then []
     else if (zlen (th_env g n) =? nth 0 src_cmp_stereogenic_tetrahedrons 0) || (zlen (th_env g n) =? nth 1 src_cmp_stereogenic_tetrahedrons 0)
          then [(n, th_env g n)] else []) /\
  (forall g t, end_crowded g t = (nth 6 src_cmp_stereogenic_cumulenes 0 <? zlen (filter (fun mb => negb (b_ord (snd mb) =? nth 7 src_cmp_stereogenic_cumulenes 0)) (nbrs g t)))).
Proof. repeat split; reflexivity. Qed.
