(* The hypotheses of the translation theorems hold for everything the reader itself produces: the indices of a CXSMILES radical block
   are >= 0 (they are read with int() from digit strings) and the fragment groups are non-empty, so for every CX block text the
   translated radical loop of the molecule branch and the translated contraction block ARE the model, without side conditions. *)
From Coq Require Import ZArith List Bool Ascii String Lia.
From Model Require Import PyBase Tokenize Parser Reader RadicalPrims ContractPrims.
From Gen Require Import RadicalBody ContractBody.
From Proofs Require Import TokenizeProofs ReaderProofs RadicalTranslated ContractTranslated.
Import ListNotations.
Open Scope Z_scope.

Lemma digits_value_nonneg l : forall acc, 0 <= acc -> forallb is_digit l = true -> 0 <= digits_value l acc.
Proof.
  induction l as [|c r IH]; intros acc Ha H; cbn [digits_value]; [exact Ha|].
  cbn [forallb] in H. apply andb_prop in H. destruct H as [Hc Hr]. apply IH; [|exact Hr].
  unfold is_digit in Hc. apply andb_prop in Hc. destruct Hc as [H1 H2]. apply Z.leb_le in H1. nia.
Qed.

Lemma py_int_nonneg l v : py_int l = Ok v -> 0 <= v.
Proof.
  unfold py_int. destruct l as [|c r]; [discriminate|].
  destruct (forallb is_digit (c :: r)) eqn:E; [|discriminate]. cbn [andb].
  destruct (Z.of_nat (List.length (c :: r)) <=? 4300); [|discriminate]. intros H. injection H as <-.
  apply (digits_value_nonneg (c :: r) 0); [lia | exact E].
Qed.

Lemma map_res_py_int_nonneg : forall ls vs, map_res py_int ls = Ok vs -> Forall (fun x => 0 <= x) vs.
Proof.
  induction ls as [|l r IH]; intros vs H; cbn [map_res] in H; [inversion H; constructor|].
  destruct (py_int l) as [v|] eqn:E; [|discriminate]. destruct (map_res py_int r) as [vr|]; [|discriminate].
  inversion H; subst. constructor; [eapply py_int_nonneg; exact E | apply IH; reflexivity].
Qed.

Theorem cx_radicals_nonneg : forall cxs rads c, cx_block cxs = Ok (rads, c) -> Forall (fun x => 0 <= x) rads.
Proof.
  intros cxs rads c H. unfold cx_block in H.
  destruct (map_res py_int (rad_findall (S (List.length cxs)) cxs)) as [r|] eqn:E.
  - apply map_res_py_int_nonneg in E.
    assert (Hr : Forall (fun x => 0 <= x) (if nodup_z r then r else [])) by (destruct (nodup_z r); [exact E | constructor]).
    destruct (frag_search cxs) as [groups|].
    + destruct (map_res _ groups) as [contract|]; [|discriminate]. inversion H; subst. exact Hr.
    + inversion H; subst. exact Hr.
  - destruct (frag_search cxs) as [groups|]; [destruct (map_res _ groups); discriminate | discriminate].
Qed.

(* the molecule branch: for the indices of any CX block the translated loop is the model *)
Theorem mol_radicals_translated_cx : forall cxs rads c atoms, cx_block cxs = Ok (rads, c) ->
  rfold gen_mol_radical_step atoms rads = set_radicals true IndexError atoms rads.
Proof. intros cxs rads c atoms H. apply mol_radicals_translated. eapply cx_radicals_nonneg. exact H. Qed.

(* the contraction block: for the groups of any CX block the translated block is the model *)
Theorem contract_translated_cx : forall cxs rads c R P G, cx_block cxs = Ok (rads, Some c) ->
  gen_contract_roles c R P G (Z.of_nat (List.length R) + Z.of_nat (List.length P) + Z.of_nat (List.length G)) = contract_roles c R P G.
Proof.
  intros cxs rads c R P G H. apply contract_translated.
  pose proof (cx_block_good cxs) as Gd. rewrite H in Gd. exact Gd.
Qed.
