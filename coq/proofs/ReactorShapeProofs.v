(* C16 (extension 3): the reactor code the hand-written models mirror still has the shape it had when they were written.
   Gen.ReactorShape is regenerated from /repo on every run (tools/gen_reactorshape.py); the constants below were recorded by
   hand from /repo at commit 55af6a9, the source coq/model/Reactor.v, ReactorStage.v, ReactorQueue.v and ReactorPrepared.v were written against.
   When one of the two lemmas stops compiling, a mirrored function was edited: re-inspect the model against the new source,
   then record the new constants. *)
From Coq Require Import ZArith List String.
From Gen Require Import ReactorShape.
Import ListNotations.
Open Scope string_scope.

Definition expected_shape_table : list (string * Z) :=
  [("BaseReactor.__init__", 51762723262543059%Z);
   ("BaseReactor._get_deleted", 27956788625889323%Z);
   ("BaseReactor._patcher", 58907646036583667%Z);
   ("Transformer.__call__", 31697645096744498%Z);
   ("Reactor.__call__", 17463444003769514%Z);
   ("Reactor._single_stage", 13665352522956284%Z);
   ("fix_mapping_overlap", 1453804763258024%Z);
   ("PreparedReactor.__call__", 3855836384029385%Z);
   ("Graph.remap", 47123173752924727%Z);
   ("Graph.union", 22971441314687905%Z)].

Definition expected_condition_table : list (string * list string) :=
  [("BaseReactor._get_deleted", ["not self._to_delete"; "n in to_delete or n in remain or n in delete or (n in keep)"; "stack"; "m in remain"; "m not in to_delete and m not in seen"; "attached"]);
   ("BaseReactor._patcher", ["isinstance(ra, AnyElement)"; "(m := mapping.get(n))"; "ra.stereo is not None"; "sa.stereo is not None"; "not (m := mapping.get(n))"; "isinstance(ra, Element)"; "ra.implicit_hydrogens"; "ra.stereo is not None"; "sa.stereo is not None"; "n in nbonds[m]"; "rb.stereo is not None"; "(sbn := sbonds.get(n)) is None or (sb := sbn.get(m)) is None or sb.stereo is None or (sb != b)"; "n not in patched_atoms and n not in to_delete"; "sa.stereo is not None"; "n in structure.stereogenic_tetrahedrons"; "n in to_delete"; "m in to_delete or (n in patched_atoms and m in patched_atoms)"; "n in nbonds[m]"; "b.stereo is not None"; "a.implicit_hydrogens is None"; "n in new.stereogenic_tetrahedrons"; "sbonds[n].keys() == nbonds[n].keys()"; "n in new.stereogenic_allenes"; "set(new.stereogenic_allenes[n]) == set(structure.stereogenic_allenes[n])"; "(n12 := new._stereo_cis_trans_terminals.get(n, True)) != new._stereo_cis_trans_terminals.get(m, False)"; "set(n12) != set(s12)"; "set(new.stereogenic_cis_trans[n12]) == set((env := structure.stereogenic_cis_trans[s12]))"; "self._fix_rings"; "not new.thiele(fix_tautomers=self._fix_tautomers)"]);
   ("Reactor.__call__", ["any((not isinstance(structure, MoleculeContainer) for structure in structures))"; "self._one_shot"; "len(new) > 1"; "str(r) in seen"; "queue"; "len(new) > 1"; "str(r) in seen"; "len(r.products) != len(ignored) + len(self._products_atoms)"; "str(r) in seen"; "depth < self._polymerise_limit"; "len_patterns == 1"]);
   ("Reactor._single_stage", ["united_chosen is None"; "collision"; "split"]);
   ("fix_mapping_overlap", ["len(structures) == 1"; "intersection"]);
   ("PreparedReactor.__call__", ["not molecules"; "check_alerts and any((a < m for a, m in product(self.global_alerts, molecules)))"; "one_shot"; "check_alerts and any((a < m for a, m in product(al, molecules)))"; "str(r) in seen"; "excess is None"; "check_alerts and any((a < m for a, m in product(al, molecules)))"; "stack"; "str(r) in seen"; "excess is not molecules"])].

Lemma reactor_shape_unchanged : shape_table = expected_shape_table.
Proof. reflexivity. Qed.

Lemma reactor_conditions_unchanged : condition_table = expected_condition_table.
Proof. reflexivity. Qed.
