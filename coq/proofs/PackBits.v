(* C10: byte / bit level lemma library for the pack format (used by PackRoundtrip*.v).
   - lifting of finite boolean sweeps (vm_compute) to universally quantified statements over integer ranges
   - getb / slice / reader "shift" lemmas (reading at offset |pre| + i in pre ++ l is reading at i in l)
   - the byte identities of the 9-byte atom record, the 12-bit pairs, the header and the cis/trans record
   - an abstract bit stream (lists of booleans, most significant bit first, zero padded to whole bytes). *)
From Coq Require Import ZArith List Bool Lia ZifyBool.
From Model Require Import PyBase Pack PackSpec.
From Gen Require Import Elements.
Import ListNotations.
Open Scope Z_scope.

(* ------------------------------------------------------------------------------------------------ *)
(* lifting finite sweeps *)

Lemma sweep1 (f : Z -> bool) a b :
  forallb f (zrange a b) = true -> forall x, a <= x < b -> f x = true.
Proof. intros H x Hx. rewrite forallb_forall in H. apply H. apply zrange_In. exact Hx. Qed.

Lemma sweep2 (f : Z -> Z -> bool) a b c d :
  forallb (fun x => forallb (f x) (zrange c d)) (zrange a b) = true ->
  forall x y, a <= x < b -> c <= y < d -> f x y = true.
Proof. intros H x y Hx Hy. apply (sweep1 _ _ _ (sweep1 _ _ _ H x Hx) y Hy). Qed.

Lemma sweep3 (f : Z -> Z -> Z -> bool) a b c d e g :
  forallb (fun x => forallb (fun y => forallb (f x y) (zrange e g)) (zrange c d)) (zrange a b) = true ->
  forall x y z, a <= x < b -> c <= y < d -> e <= z < g -> f x y z = true.
Proof. intros H x y z Hx Hy Hz. apply (sweep1 _ _ _ (sweep2 _ _ _ _ _ H x y Hx Hy) z Hz). Qed.

Lemma sweep4 (f : Z -> Z -> Z -> Z -> bool) a b c d e g h i :
  forallb (fun x => forallb (fun y => forallb (fun z => forallb (f x y z) (zrange h i)) (zrange e g)) (zrange c d))
          (zrange a b) = true ->
  forall x y z w, a <= x < b -> c <= y < d -> e <= z < g -> h <= w < i -> f x y z w = true.
Proof. intros H x y z w Hx Hy Hz Hw. apply (sweep1 _ _ _ (sweep3 _ _ _ _ _ _ _ H x y z Hx Hy Hz) w Hw). Qed.

Ltac split_andb :=
  repeat match goal with H : (_ && _) = true |- _ => apply andb_true_iff in H; destruct H end.
Ltac eqb2eq := repeat match goal with H : (_ =? _) = true |- _ => apply Z.eqb_eq in H end.

Lemma u8_small x : 0 <= x < 256 -> u8 x = x.
Proof. intros H. unfold u8. apply Z.mod_small. exact H. Qed.
Lemma u16_small x : 0 <= x < 65536 -> u16 x = x.
Proof. intros H. unfold u16. apply Z.mod_small. exact H. Qed.
Lemma u8_range x : 0 <= u8 x < 256.
Proof. unfold u8. apply Z.mod_pos_bound. lia. Qed.
Lemma u16_range x : 0 <= u16 x < 65536.
Proof. unfold u16. apply Z.mod_pos_bound. lia. Qed.

(* ------------------------------------------------------------------------------------------------ *)
(* getb and the readers under a prefix *)

Lemma getb_app_r (pre l : list Z) i :
  0 <= i -> getb (pre ++ l) (Z.of_nat (length pre) + i) = getb l i.
Proof.
  intros Hi. unfold getb.
  destruct (Z.of_nat (length pre) + i <? 0) eqn:E1; [lia|]. destruct (i <? 0) eqn:E2; [lia|].
  rewrite nth_error_app2 by lia. f_equal. lia.
Qed.

Lemma getb_nil i : getb [] i = None.
Proof. unfold getb. destruct (i <? 0); [reflexivity|]. destruct (Z.to_nat i); reflexivity. Qed.

Lemma getb_cons_0 x (l : list Z) : getb (x :: l) 0 = Some x.
Proof. reflexivity. Qed.

Lemma getb_cons_S x (l : list Z) i : 0 <= i -> getb (x :: l) (i + 1) = getb l i.
Proof. intros Hi. change (x :: l) with ([x] ++ l). rewrite Z.add_comm. apply (getb_app_r [x] l i Hi). Qed.

Lemma read_atom_shift pre l i :
  0 <= i -> read_atom (pre ++ l) (Z.of_nat (length pre) + i) = read_atom l i.
Proof.
  intros Hi. unfold read_atom.
  rewrite <- !Z.add_assoc. rewrite !getb_app_r by lia. reflexivity.
Qed.

Lemma read_atoms_shift pre l k : forall i,
  0 <= i -> read_atoms (pre ++ l) k (Z.of_nat (length pre) + i) = read_atoms l k i.
Proof.
  induction k as [|k IH]; intros i Hi; cbn [read_atoms]; [reflexivity|].
  rewrite read_atom_shift by exact Hi. rewrite <- Z.add_assoc. rewrite IH by lia. reflexivity.
Qed.

Lemma read_conns_shift pre l k : forall i,
  0 <= i -> read_conns (pre ++ l) k (Z.of_nat (length pre) + i) = read_conns l k i.
Proof.
  induction k as [|k IH]; intros i Hi; cbn [read_conns]; [reflexivity|].
  rewrite <- !Z.add_assoc. rewrite !getb_app_r by lia. rewrite IH by lia. reflexivity.
Qed.

Lemma read_ct_shift pre l k : forall i,
  0 <= i -> read_ct (pre ++ l) k (Z.of_nat (length pre) + i) = read_ct l k i.
Proof.
  induction k as [|k IH]; intros i Hi; cbn [read_ct]; [reflexivity|].
  rewrite <- !Z.add_assoc. rewrite !getb_app_r by lia. rewrite IH by lia. reflexivity.
Qed.

Lemma slice_shift pre l k : forall i,
  0 <= i -> slice (pre ++ l) (Z.of_nat (length pre) + i) k = slice l i k.
Proof.
  induction k as [|k IH]; intros i Hi; cbn [slice]; [reflexivity|].
  rewrite <- !Z.add_assoc. rewrite !getb_app_r by lia. rewrite IH by lia. reflexivity.
Qed.

(* taking a whole prefix *)
Lemma slice_prefix (l suf : list Z) : slice (l ++ suf) 0 (length l) = Some l.
Proof.
  induction l as [|x l IH]; [reflexivity|].
  cbn [length slice app]. rewrite getb_cons_0.
  change (slice (x :: l ++ suf) (0 + 1) (length l)) with (slice ([x] ++ (l ++ suf)) (Z.of_nat (length [x]) + 0) (length l)).
  rewrite (slice_shift [x] (l ++ suf) (length l) 0) by lia. rewrite IH. reflexivity.
Qed.

(* ------------------------------------------------------------------------------------------------ *)
(* the 9-byte atom record: what read_atom computes from nine given bytes *)

Definition decode_atom (a b c d x0 x1 y0 y1 e : Z) : uatom :=
  let n := u16 (Z.lor (Z.shiftl a 4) (Z.shiftr b 4)) in
  let ngb := Z.land b 15 in
  let an := Z.land d 127 in
  let iso := u8 (Z.lor (Z.shiftl (Z.land c 15) 1) (Z.shiftr d 7)) in
  let h := Z.shiftr e 5 in
  mkUAtom n ngb an
    (if iso =? 0 then None else Some (znth unpack_common_isotopes an 0 + iso))
    (stereo_of_nibble (Z.shiftr c 4))
    (if h =? 7 then None else Some h)
    (Z.land (Z.shiftr e 1) 15 - 4)
    (negb (Z.land e 1 =? 0))
    [x0; x1; y0; y1].

Lemma read_atom_cons a b c d x0 x1 y0 y1 e suf :
  read_atom (a :: b :: c :: d :: x0 :: x1 :: y0 :: y1 :: e :: suf) 0 = Some (decode_atom a b c d x0 x1 y0 y1 e).
Proof. reflexivity. Qed.

(* bytes 0,1: 12-bit number and 4-bit neighbour count *)
Definition chk_b01 (n g : Z) : bool :=
  let a := u8 (Z.shiftr (u16 n) 4) in
  let b := u8 (Z.lor (Z.shiftl (u16 n) 4) g) in
  (u16 (Z.lor (Z.shiftl a 4) (Z.shiftr b 4)) =? n) && (Z.land b 15 =? g).

Lemma chk_b01_sweep : forallb (fun n => forallb (chk_b01 n) (zrange 0 16)) (zrange 0 4096) = true.
Proof. vm_compute. reflexivity. Qed.

Lemma atom_b01 n g : 0 <= n < 4096 -> 0 <= g < 16 ->
  let a := u8 (Z.shiftr (u16 n) 4) in
  let b := u8 (Z.lor (Z.shiftl (u16 n) 4) g) in
  u16 (Z.lor (Z.shiftl a 4) (Z.shiftr b 4)) = n /\ Z.land b 15 = g.
Proof.
  intros Hn Hg. pose proof (sweep2 _ _ _ _ _ chk_b01_sweep n g Hn Hg) as H. unfold chk_b01 in H.
  split_andb. eqb2eq. split; assumption.
Qed.

(* bytes 2,3: stereo nibble, 5-bit isotope offset, 7-bit atomic number *)
Definition chk_b23 (st : option bool) (g iso an : Z) : bool :=
  let c := u8 (Z.lor (stereo_bits st g) (Z.shiftr iso 1)) in
  let d := u8 (Z.lor (Z.shiftl iso 7) (u8 an)) in
  (Z.land d 127 =? an) && (u8 (Z.lor (Z.shiftl (Z.land c 15) 1) (Z.shiftr d 7)) =? iso) &&
  option_eqb Bool.eqb (stereo_of_nibble (Z.shiftr c 4)) st.

Lemma chk_b23_sweep :
  forallb (fun st => forallb (fun g => forallb (fun iso => forallb (chk_b23 st g iso) (zrange 0 128)) (zrange 0 32))
                             (zrange 0 16)) [None; Some true; Some false] = true.
Proof. vm_compute. reflexivity. Qed.

Lemma option_bool_eqb_eq (x y : option bool) : option_eqb Bool.eqb x y = true -> x = y.
Proof. destruct x as [[|]|], y as [[|]|]; cbn; intros H; try reflexivity; discriminate. Qed.

Lemma atom_b23 st g iso an : 0 <= g < 16 -> 0 <= iso < 32 -> 0 <= an < 128 ->
  let c := u8 (Z.lor (stereo_bits st g) (Z.shiftr iso 1)) in
  let d := u8 (Z.lor (Z.shiftl iso 7) (u8 an)) in
  Z.land d 127 = an /\ u8 (Z.lor (Z.shiftl (Z.land c 15) 1) (Z.shiftr d 7)) = iso /\
  stereo_of_nibble (Z.shiftr c 4) = st.
Proof.
  intros Hg Hi Ha.
  pose proof chk_b23_sweep as S. rewrite forallb_forall in S.
  assert (Hin : In st [None; Some true; Some false]) by (destruct st as [[|]|]; cbn; auto).
  pose proof (sweep3 _ _ _ _ _ _ _ (S st Hin) g iso an Hg Hi Ha) as H. unfold chk_b23 in H.
  split_andb. eqb2eq.
  match goal with K : option_eqb _ _ _ = true |- _ => apply option_bool_eqb_eq in K end. repeat split; assumption.
Qed.

(* byte 8: hydrogens (7 = None), charge + 4, radical *)
Definition chk_b8 (h : option Z) (chg : Z) (rad : bool) : bool :=
  let e := hcr_field h chg rad in
  option_eqb Z.eqb (if Z.shiftr e 5 =? 7 then None else Some (Z.shiftr e 5)) h &&
  (Z.land (Z.shiftr e 1) 15 - 4 =? chg) && Bool.eqb (negb (Z.land e 1 =? 0)) rad && (0 <=? e) && (e <? 256).

Lemma chk_b8_sweep :
  forallb (fun chg => forallb (fun rad => chk_b8 None chg rad && forallb (fun v => chk_b8 (Some v) chg rad) (zrange 0 7))
                              [true; false]) (zrange (-4) 5) = true.
Proof. vm_compute. reflexivity. Qed.

Lemma option_Z_eqb_eq (x y : option Z) : option_eqb Z.eqb x y = true -> x = y.
Proof. destruct x, y; cbn; intros H; try reflexivity; try discriminate. apply Z.eqb_eq in H. congruence. Qed.

Lemma atom_b8 h chg rad :
  match h with None => True | Some v => 0 <= v <= 6 end -> -4 <= chg <= 4 ->
  let e := hcr_field h chg rad in
  (if Z.shiftr e 5 =? 7 then None else Some (Z.shiftr e 5)) = h /\
  Z.land (Z.shiftr e 1) 15 - 4 = chg /\ negb (Z.land e 1 =? 0) = rad /\ 0 <= e < 256.
Proof.
  intros Hh Hc.
  pose proof (sweep1 _ _ _ chk_b8_sweep chg ltac:(lia)) as S. cbv beta in S. rewrite forallb_forall in S.
  assert (Hin : In rad [true; false]) by (destruct rad; cbn; auto).
  specialize (S rad Hin). apply andb_true_iff in S. destruct S as [SN SS].
  assert (H : chk_b8 h chg rad = true).
  { destruct h as [v|]; [|exact SN]. apply (sweep1 _ _ _ SS v). lia. }
  unfold chk_b8 in H. cbv zeta in H. split_andb. eqb2eq.
  match goal with K : option_eqb _ _ _ = true |- _ => apply option_Z_eqb_eq in K end.
  match goal with K : Bool.eqb _ _ = true |- _ => apply Bool.eqb_prop in K end.
  cbv zeta. repeat split; try assumption; lia.
Qed.

(* ------------------------------------------------------------------------------------------------ *)
(* 12-bit pairs in 3 bytes (connection table; also header and cis/trans record) *)

Definition chk_pair_hi (m1 hi2 : Z) : bool :=    (* hi2 = m2 >> 8 *)
  let a := u8 (Z.shiftr m1 4) in
  let b := u8 (Z.lor (u8 (Z.shiftl m1 4)) hi2) in
  (u16 (Z.lor (Z.shiftl a 4) (Z.shiftr b 4)) =? m1) && (Z.land b 15 =? hi2) &&
  (b =? u8 (Z.lor (Z.shiftl m1 4) hi2)) && (Z.lor (Z.shiftl a 4) (Z.shiftr b 4) =? m1) &&
  (Z.shiftr (a * 256 + b) 4 =? m1).

Lemma chk_pair_hi_sweep : forallb (fun m1 => forallb (chk_pair_hi m1) (zrange 0 16)) (zrange 0 4096) = true.
Proof. vm_compute. reflexivity. Qed.

Definition chk_pair_lo (m2 : Z) : bool :=
  (u16 (Z.lor (Z.shiftl (Z.shiftr m2 8) 8) (u8 m2)) =? m2) && (Z.lor (Z.shiftl (Z.shiftr m2 8) 8) (u8 m2) =? m2) &&
  (0 <=? Z.shiftr m2 8) && (Z.shiftr m2 8 <? 16).

Lemma chk_pair_lo_sweep : forallb chk_pair_lo (zrange 0 4096) = true.
Proof. vm_compute. reflexivity. Qed.

(* the three bytes written for the pair (m1, m2) and what the readers compute from them *)
Lemma pair12 m1 m2 : 0 <= m1 < 4096 -> 0 <= m2 < 4096 ->
  let a := u8 (Z.shiftr m1 4) in
  let b := u8 (Z.lor (u8 (Z.shiftl m1 4)) (Z.shiftr m2 8)) in
  let c := u8 m2 in
  Z.lor (Z.shiftl a 4) (Z.shiftr b 4) = m1 /\ Z.lor (Z.shiftl (Z.land b 15) 8) c = m2 /\
  b = u8 (Z.lor (Z.shiftl m1 4) (Z.shiftr m2 8)) /\ Z.shiftr (a * 256 + b) 4 = m1.
Proof.
  intros H1 H2.
  pose proof (sweep1 _ _ _ chk_pair_lo_sweep m2 H2) as L. unfold chk_pair_lo in L. split_andb.
  pose proof (sweep2 _ _ _ _ _ chk_pair_hi_sweep m1 (Z.shiftr m2 8) H1 ltac:(lia)) as HH. unfold chk_pair_hi in HH.
  split_andb. eqb2eq. cbv zeta.
  match goal with K : u8 (Z.lor (u8 _) _) = _ |- _ => rewrite K in * end.
  repeat split; congruence.
Qed.

(* ------------------------------------------------------------------------------------------------ *)
(* folds of the two writer state machines *)

Fixpoint cfold (st : bool * Z) (ms : list Z) : (bool * Z) * list Z :=
  match ms with
  | [] => (st, [])
  | m :: r => let '(st1, out) := conn_step st m in let '(st2, out2) := cfold st1 r in (st2, out ++ out2)
  end.

Fixpoint ofold (st : Z * Z) (os : list Z) : (Z * Z) * list Z :=
  match os with
  | [] => (st, [])
  | o :: r => let '(st1, out) := order_step st o in let '(st2, out2) := ofold st1 r in (st2, out ++ out2)
  end.

Definition order_flush (st : Z * Z) : list Z := if fst st =? 0 then [] else [snd st].

(* the order block as pack writes it: the bytes emitted by the 8-state machine, then the flush *)
Definition order_bytes (os : list Z) : list Z :=
  let r := ofold (0, 0) os in snd r ++ order_flush (fst r).

(* the connection table as pack writes it *)
Definition conn_bytes (ms : list Z) : list Z := snd (cfold (true, 0) ms).

Lemma cfold_app st l1 l2 :
  cfold st (l1 ++ l2) = let '(st1, o1) := cfold st l1 in let '(st2, o2) := cfold st1 l2 in (st2, o1 ++ o2).
Proof.
  revert st. induction l1 as [|m l1 IH]; intros st; cbn [cfold app].
  - destruct (cfold st l2). reflexivity.
  - destruct (conn_step st m) as [st1 out]. rewrite IH. destruct (cfold st1 l1) as [st2 o2].
    destruct (cfold st2 l2) as [st3 o3]. rewrite app_assoc. reflexivity.
Qed.

Lemma ofold_app st l1 l2 :
  ofold st (l1 ++ l2) = let '(st1, o1) := ofold st l1 in let '(st2, o2) := ofold st1 l2 in (st2, o1 ++ o2).
Proof.
  revert st. induction l1 as [|m l1 IH]; intros st; cbn [ofold app].
  - destruct (ofold st l2). reflexivity.
  - destruct (order_step st m) as [st1 out]. rewrite IH. destruct (ofold st1 l1) as [st2 o2].
    destruct (ofold st2 l2) as [st3 o3]. rewrite app_assoc. reflexivity.
Qed.

(* ------------------------------------------------------------------------------------------------ *)
(* abstract bit streams: most significant bit first *)

Definition z_of_bits3 (x y z : bool) : Z := 4 * b2z x + 2 * b2z y + b2z z.

(* 3-bit fields of a bit stream; an incomplete field at the end is dropped *)
Fixpoint orders_of_bits (l : list bool) : list Z :=
  match l with
  | x :: y :: z :: r => z_of_bits3 x y z :: orders_of_bits r
  | _ => []
  end.

Lemma z_of_bits3_bits3 o : 0 <= o < 8 -> orders_of_bits (bits3 o) = [o].
Proof.
  intros H. assert (K : o = 0 \/ o = 1 \/ o = 2 \/ o = 3 \/ o = 4 \/ o = 5 \/ o = 6 \/ o = 7) by lia.
  repeat (destruct K as [K|K]; [subst o; reflexivity|]). subst o; reflexivity.
Qed.

(* all bit lists of a given length *)
Fixpoint all_bits (n : nat) : list (list bool) :=
  match n with O => [[]] | S k => map (cons true) (all_bits k) ++ map (cons false) (all_bits k) end.

Lemma all_bits_In n : forall l, length l = n -> In l (all_bits n).
Proof.
  induction n as [|n IH]; intros l Hl.
  - destruct l; [left; reflexivity | discriminate].
  - destruct l as [|b l]; [discriminate|]. cbn [all_bits]. apply in_or_app. injection Hl as Hl.
    destruct b; [left | right]; apply in_map; apply IH; exact Hl.
Qed.

(* induction in chunks of 8 *)
Lemma list_ind8 {A} (P : list A -> Prop) :
  (forall l, (length l < 8)%nat -> P l) ->
  (forall a0 a1 a2 a3 a4 a5 a6 a7 r, P r -> P (a0 :: a1 :: a2 :: a3 :: a4 :: a5 :: a6 :: a7 :: r)) ->
  forall l, P l.
Proof.
  intros Hs Hc l. remember (length l) as n eqn:Hn. revert l Hn.
  induction n as [n IH] using lt_wf_ind. intros l Hn.
  destruct (Nat.lt_ge_cases (length l) 8) as [Hlt|Hge]; [apply Hs; exact Hlt|].
  destruct l as [|a0 [|a1 [|a2 [|a3 [|a4 [|a5 [|a6 [|a7 r]]]]]]]]; cbn [length] in Hge; try lia.
  apply Hc. apply (IH (length r)); [subst n; cbn [length]; lia | reflexivity].
Qed.
