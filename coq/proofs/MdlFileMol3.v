(* C11: whole SD / RD files of V3000 molecules: ESDFWrite / ERDFWrite then SDFRead / RDFRead. *)
From Coq Require Import ZArith List String Ascii Bool Lia.
From Model Require Import PyBase Mdl.
From Gen Require Import MdlTables.
From Proofs Require Import MdlProofs MdlV2000 MdlV3000 MdlTail MdlFraming MdlFramingExt MdlMeta MdlFile MdlFileMol.
Import ListNotations.
Open Scope Z_scope.
Local Notation length := List.length.
Local Notation concat := List.concat.

Local Opaque zstr.

Definition fields_nonl (a : watom) : Prop := coords_nonl a /\ nonl (wa_sym a) = true.

Lemma v3_atom_line_nonl mapping n a : fields_nonl a -> nonl (v3_atom_line mapping n a) = true.
Proof.
  intros [[Hx [Hy Hz]] Hs]. unfold v3_atom_line. cbv zeta. rewrite !nonl_app, !nonl_zstr, Hx, Hy, Hz, Hs.
  destruct (wa_chg a =? 0); destruct (wa_rad a); destruct (iso_truthy (wa_iso a)); rewrite ?nonl_app, ?nonl_zstr; reflexivity.
Qed.
Lemma v3_bond_line_nonl i o a b cfg : nonl cfg = true -> nonl (v3_bond_line i o a b cfg) = true.
Proof. intros H. unfold v3_bond_line. rewrite !nonl_app, !nonl_zstr, H. reflexivity. Qed.
Lemma v3_wedge_line_nonl im bonds iw line : v3_wedge_line im bonds iw = Ok line -> nonl line = true.
Proof.
  destruct iw as [i [[n m] s]]. unfold v3_wedge_line.
  destruct (bond_order bonds n m) as [o|e]; cbn [bind]; [|discriminate].
  destruct (idx im n) as [a|e]; cbn [bind]; [|discriminate]. destruct (idx im m) as [b|e]; cbn [bind]; [|discriminate].
  intros H. apply Ok_inj in H. subst line. apply v3_bond_line_nonl. destruct (s =? 1); reflexivity.
Qed.
Lemma v3_plain_line_nonl im ib line : v3_plain_line im ib = Ok line -> nonl line = true.
Proof.
  destruct ib as [i [[n m] o]]. unfold v3_plain_line.
  destruct (idx im n) as [a|e]; cbn [bind]; [|discriminate]. destruct (idx im m) as [b|e]; cbn [bind]; [|discriminate].
  intros H. apply Ok_inj in H. subst line. apply v3_bond_line_nonl. reflexivity.
Qed.

Lemma v3_atom_lines_nonl mapping atoms : Forall fields_nonl atoms -> forall s,
  Forall (fun l => nonl l = true) (map (fun na => v3_atom_line mapping (fst na) (snd na)) (enum_from s atoms)).
Proof.
  unfold enum_from. induction 1 as [|a atoms Ha _ IH]; intros s; [constructor|].
  cbn [length zrange_from combine map fst snd]. constructor; [apply v3_atom_line_nonl; exact Ha | apply IH].
Qed.

Lemma write_ctab_v3000_nonl mapping g lines : Forall fields_nonl (wm_atoms g) ->
  write_ctab_v3000 mapping g = Ok lines -> Forall (fun l => nonl l = true) lines.
Proof.
  intros Hf. unfold write_ctab_v3000. cbv zeta.
  destruct (mapM (v3_wedge_line (index_map (wm_atoms g)) (wm_bonds g)) (enum_from 1 (wm_wedge g))) as [wl|e] eqn:Hwl; cbn [bind]; [|discriminate].
  destruct (mapM (v3_plain_line (index_map (wm_atoms g))) (enum_from (1 + Z.of_nat (length (wm_wedge g))) (plain_bonds g))) as [bl|e] eqn:Hbl; cbn [bind]; [|discriminate].
  intros H. apply Ok_inj in H. subst lines.
  repeat (apply Forall_app; split).
  - constructor; [reflexivity|]. constructor; [rewrite !nonl_app, !nonl_zstr; reflexivity|]. constructor; [reflexivity | constructor].
  - apply v3_atom_lines_nonl. exact Hf.
  - repeat constructor.
  - eapply mapM_Forall; [exact Hwl|]. intros x y. apply v3_wedge_line_nonl.
  - eapply mapM_Forall; [exact Hbl|]. intros x y. apply v3_plain_line_nonl.
  - repeat constructor.
Qed.

Local Transparent zstr.

Lemma starts_v30_heads line : starts_v30 line ->
  is_mend line = false /\ is_delim line = false /\ is_fmt line = false /\ is_dtype line = false /\ startswith (L "$RXN") line = false.
Proof. intros [r ->]. repeat split; reflexivity. Qed.

(* the shape of the block ESDFWrite / ERDFWrite emit for a molecule *)
Record mol3_lines_ok (lines : list str) : Prop := {
  m3_split : exists ml, lines = ml ++ [L "M  END"] /\ Forall (fun l => is_mend l = false) ml /\
             nth_error lines 4 = Some (L "M  V30 BEGIN CTAB");
  m3_delim : Forall (fun l => is_delim l = false) lines;
  m3_fmt : Forall (fun l => is_fmt l = false) lines;
  m3_dtype : Forall (fun l => is_dtype l = false) lines;
  m3_rxn : Forall (fun l => startswith (L "$RXN") l = false) lines }.

Lemma write_mol_v3000_lines_ok mapping g lines : name_ok (wm_name g) -> write_mol_v3000 mapping g = Ok lines -> mol3_lines_ok lines.
Proof.
  intros [_ [Hn1 [Hn2 [Hn3 [Hn4 Hn5]]]]]. unfold write_mol_v3000.
  destruct (write_ctab_v3000 mapping g) as [c|e] eqn:Hc; cbn [bind]; [|discriminate]. intros H. apply Ok_inj in H. subst lines.
  pose proof (write_ctab_v3000_all_v30 mapping g c Hc) as Hv.
  destruct (write_ctab_v3000_shape mapping g c Hc) as [al [bl [Ec _]]].
  assert (Hall : forall P : str -> Prop, P (wm_name g) -> P [] -> P (L "  0  0  0     0  0            999 V3000") -> P (L "M  END") ->
                 (forall l, starts_v30 l -> P l) -> Forall P (v3_header (wm_name g) ++ c ++ [L "M  END"])).
  { intros P P1 P2 P3 P4 P5. unfold v3_header. repeat (apply Forall_app; split).
    - repeat constructor; assumption.
    - eapply Forall_impl; [|exact Hv]. exact P5.
    - repeat constructor. exact P4. }
  constructor.
  - exists (v3_header (wm_name g) ++ c). split; [rewrite <- app_assoc; reflexivity|]. split.
    + apply Forall_app. split; [unfold v3_header; repeat constructor; exact Hn2|].
      eapply Forall_impl; [|exact Hv]. intros l Hl. apply (starts_v30_heads l Hl).
    + rewrite Ec. reflexivity.
  - apply Hall; try reflexivity; [exact Hn1|]. intros l Hl. apply (starts_v30_heads l Hl).
  - apply Hall; try reflexivity; [exact Hn3|]. intros l Hl. apply (starts_v30_heads l Hl).
  - apply Hall; try reflexivity; [exact Hn4|]. intros l Hl. apply (starts_v30_heads l Hl).
  - apply Hall; try reflexivity; [exact Hn5|]. intros l Hl. apply (starts_v30_heads l Hl).
Qed.

Lemma write_mol_v3000_nonl mapping g lines : Forall fields_nonl (wm_atoms g) -> nonl (wm_name g) = true ->
  write_mol_v3000 mapping g = Ok lines -> Forall (fun l => nonl l = true) lines.
Proof.
  intros Hf Hn. unfold write_mol_v3000.
  destruct (write_ctab_v3000 mapping g) as [c|e] eqn:Hc; cbn [bind]; [|discriminate]. intros H. apply Ok_inj in H. subst lines.
  repeat (apply Forall_app; split).
  - unfold v3_header. repeat constructor. exact Hn.
  - eapply write_ctab_v3000_nonl; eassumption.
  - repeat constructor.
Qed.

Definition mol_wf3 (g : wmol) (fs : list (fval * fval * fval)) : Prop :=
  Forall2 wf3_atom (wm_atoms g) fs /\ wm_atoms g <> [] /\ NoDup (map wa_num (wm_atoms g)) /\
  Forall (bond_ok (wm_atoms g)) (wm_bonds g) /\ Forall (wedge_ok (wm_atoms g) (wm_bonds g)) (wm_wedge g) /\
  (length (wm_wedge g) + length (plain_bonds g) = length (wm_bonds g))%nat.

Definition esdf_rec_wf (buffer_size : nat) (mapping : bool) (r : sdf_in) : Prop :=
  mol_wf3 (si_mol r) (si_fs r) /\ name_ok (wm_name (si_mol r)) /\ Forall fields_nonl (wm_atoms (si_mol r)) /\
  Forall (sdf_entry_ok esdf_write_escape) (si_entries r) /\
  Forall (fun e => Forall (fun l => is_delim l = false) (snd e)) (si_entries r) /\
  (forall lines, write_mol_v3000 mapping (si_mol r) = Ok lines ->
     (length lines + length (concat (map (sdf_entry_lines esdf_write_escape) (si_entries r))) <= buffer_size)%nat).

Lemma dispatch_mol_v3000 A (build : parsed3 -> pyres A) lines tail p :
  mol3_lines_ok lines -> parse_mol_v3000 (map add_nl lines ++ tail) = Ok p ->
  dispatch_mol A build (map add_nl lines ++ tail) = build p.
Proof.
  intros Hok Hp. destruct (m3_split _ Hok) as [ml [E [_ H4]]].
  unfold dispatch_mol.
  rewrite nth_error_app1 by (rewrite map_length; apply nth_error_Some; rewrite H4; discriminate).
  rewrite nth_error_map, H4. cbn [option_map of_opt bind].
  change (startswith (L "M  V30 BEGIN CTAB") (add_nl (L "M  V30 BEGIN CTAB"))) with true. cbv iota. rewrite Hp. cbn [bind]. reflexivity.
Qed.

Lemma esdf_record_frec buffer_size mapping r : esdf_rec_wf buffer_size mapping r ->
  exists fr, frec_ok buffer_size esdf_write_escape fr /\
    esdf_record_text mapping (si_mol r) (meta_of (si_entries r)) = Ok (frec_text esdf_write_escape fr) /\
    forall A (build : parsed3 -> pyres A),
      frec_result A build esdf_write_escape fr =
      built build (mol_expected2 mapping (si_mol r) (si_fs r)) (sdf_meta_spec esdf_write_escape (si_entries r)).
Proof.
  intros [[H1 [H2 [H3 [H4 [H5 H6]]]]] [Hname [Hco [Hent [Hval Hsize]]]]].
  destruct (v3000_fields_roundtrip_tail mapping (si_mol r) (si_fs r) H1 H2 H3 H4 H5 H6) as [lines [Hw Hp]].
  pose proof (write_mol_v3000_lines_ok mapping _ lines Hname Hw) as Hok.
  pose proof (write_mol_v3000_nonl mapping _ lines Hco (proj1 Hname) Hw) as Hnl.
  destruct (m3_split _ Hok) as [ml [E [Hmend _]]].
  exists (mk_frec ml (L "M  END") (si_entries r)). split; [|split].
  - constructor; cbn [fr_mol fr_end fr_entries].
    + exact Hmend.
    + reflexivity.
    + pose proof (m3_delim _ Hok) as Hd. rewrite E in Hd. apply Forall_app in Hd. apply Hd.
    + exact Hent.
    + exact Hval.
    + unfold frec_lines. cbn [fr_mol fr_end fr_entries]. specialize (Hsize lines Hw). rewrite E in Hsize.
      rewrite !app_length in *. cbn [length] in *. lia.
    + rewrite <- E. eapply Forall_impl; [|exact Hnl]. intros l. apply nonl_iff.
  - unfold esdf_record_text. rewrite Hw. cbn [bind]. unfold frec_text. cbn [fr_mol fr_end fr_entries]. rewrite <- E. reflexivity.
  - intros A build. unfold frec_result, built. cbn [fr_mol fr_end fr_entries]. rewrite <- E.
    pose proof (dispatch_mol_v3000 A build lines [] _ Hok (Hp [])) as D. rewrite app_nil_r in D. rewrite D. reflexivity.
Qed.

(* esdf_file_roundtrip: ESDFWrite then SDFRead *)
Theorem esdf_v3000_file_roundtrip A (build : parsed3 -> pyres A) buffer_size mapping (recs : list sdf_in) :
  Forall (esdf_rec_wf buffer_size mapping) recs ->
  exists texts, mapM (fun r => esdf_record_text mapping (si_mol r) (meta_of (si_entries r))) recs = Ok texts /\
    sdf_read A build buffer_size (readlines (concat texts)) =
    collect A (map (fun r => built build (mol_expected2 mapping (si_mol r) (si_fs r)) (sdf_meta_spec esdf_write_escape (si_entries r))) recs
               ++ [inr EOFError]).
Proof.
  intros H.
  assert (G : exists frs, Forall (frec_ok buffer_size esdf_write_escape) frs /\
              mapM (fun r => esdf_record_text mapping (si_mol r) (meta_of (si_entries r))) recs = Ok (map (frec_text esdf_write_escape) frs) /\
              map (frec_result A build esdf_write_escape) frs =
              map (fun r => built build (mol_expected2 mapping (si_mol r) (si_fs r)) (sdf_meta_spec esdf_write_escape (si_entries r))) recs).
  { induction H as [|r recs Hr _ [frs [F1 [F2 F3]]]].
    - exists []. repeat split; constructor.
    - destruct (esdf_record_frec _ _ _ Hr) as [fr [Ha [Hb Hc]]]. exists (fr :: frs). split; [constructor; assumption|]. split.
      + cbn [mapM map]. rewrite Hb. cbn [bind]. rewrite F2. cbn [bind]. reflexivity.
      + cbn [map]. rewrite Hc, F3. reflexivity. }
  destruct G as [frs [F1 [F2 F3]]]. exists (map (frec_text esdf_write_escape) frs). split; [exact F2|].
  change (concat (map (frec_text esdf_write_escape) frs)) with (file_text esdf_write_escape frs).
  rewrite sdf_file_roundtrip_generic by exact F1. rewrite F3. reflexivity.
Qed.

(* ERDFWrite (molecule records) then RDFRead *)
Definition erdf_mol_wf (buffer_size hlen : nat) (mapping : bool) (r : sdf_in) : Prop :=
  mol_wf3 (si_mol r) (si_fs r) /\ name_ok (wm_name (si_mol r)) /\ Forall fields_nonl (wm_atoms (si_mol r)) /\
  Forall rdf_entry_ok (si_entries r) /\
  Forall (fun e => Forall (fun l => is_fmt l = false) (tl (snd e))) (si_entries r) /\
  (forall lines, write_mol_v3000 mapping (si_mol r) = Ok lines ->
     (S hlen + (length lines + length (concat (map rdf_entry_lines (si_entries r)))) < buffer_size)%nat).

Lemma erdf_mol_rrec buffer_size hlen mapping r : erdf_mol_wf buffer_size hlen mapping r ->
  exists rr, rrec_ok buffer_size hlen rr /\
    erdf_mol_text mapping (si_mol r) (meta_of (si_entries r)) = Ok (rrec_text rr) /\
    forall A (build : parsed3 -> pyres A) build_rxn,
      rrec_result A build build_rxn rr = built build (mol_expected2 mapping (si_mol r) (si_fs r)) (meta_spec (si_entries r)).
Proof.
  intros [[H1 [H2 [H3 [H4 [H5 H6]]]]] [Hname [Hco [Hent [Hval Hsize]]]]].
  destruct (v3000_fields_roundtrip_tail mapping (si_mol r) (si_fs r) H1 H2 H3 H4 H5 H6) as [lines [Hw Hp]].
  pose proof (write_mol_v3000_lines_ok mapping _ lines Hname Hw) as Hok.
  pose proof (write_mol_v3000_nonl mapping _ lines Hco (proj1 Hname) Hw) as Hnl.
  destruct (m3_split _ Hok) as [ml [E _]].
  exists (mk_rrec (L "$MFMT") lines (si_entries r)). split; [|split].
  - constructor; cbn [rr_fmt rr_struct rr_entries].
    + reflexivity.
    + apply nl_not_in_lit. reflexivity.
    + apply (m3_fmt _ Hok).
    + apply (m3_dtype _ Hok).
    + rewrite E. destruct ml; discriminate.
    + eapply Forall_impl; [|exact Hnl]. intros l. apply nonl_iff.
    + exact Hent.
    + exact Hval.
    + unfold rrec_lines. cbn [rr_struct rr_entries]. rewrite app_length. apply Hsize. exact Hw.
  - unfold erdf_mol_text. rewrite Hw. cbn [bind]. unfold rrec_text. cbn [rr_fmt rr_struct rr_entries]. reflexivity.
  - intros A build build_rxn. unfold rrec_result, built, rrec_lines. cbn [rr_struct rr_entries]. rewrite map_app.
    unfold rdf_dispatch.
    assert (H0 : exists l0, nth_error lines 0 = Some l0 /\ startswith (L "$RXN") l0 = false).
    { pose proof (m3_rxn _ Hok) as Hr. destruct lines as [|l0 ls]; [destruct ml; discriminate|]. exists l0. split; [reflexivity|]. inversion Hr; assumption. }
    destruct H0 as [l0 [H0 Hx]].
    rewrite nth_error_app1 by (rewrite map_length; apply nth_error_Some; rewrite H0; discriminate).
    rewrite nth_error_map, H0. cbn [option_map of_opt bind]. rewrite startswith_add_nl by reflexivity. rewrite Hx.
    rewrite (dispatch_mol_v3000 A build lines _ _ Hok (Hp _)). reflexivity.
Qed.

Theorem erdf_v3000_mol_file_roundtrip A (build : parsed3 -> pyres A) build_rxn buffer_size mapping header (recs : list sdf_in) :
  Forall (fun l => ~ In nl l /\ is_fmt l = false /\ startswith (L "$RXN") l = false) header ->
  Forall (erdf_mol_wf buffer_size (length header) mapping) recs ->
  exists texts, mapM (fun r => erdf_mol_text mapping (si_mol r) (meta_of (si_entries r))) recs = Ok texts /\
    rdf_read A build build_rxn buffer_size (readlines (text_of_lines header ++ concat texts)) =
    collect A (map (fun r => built build (mol_expected2 mapping (si_mol r) (si_fs r)) (meta_spec (si_entries r))) recs).
Proof.
  intros Hh H.
  assert (G : exists rrs, Forall (rrec_ok buffer_size (length header)) rrs /\
              mapM (fun r => erdf_mol_text mapping (si_mol r) (meta_of (si_entries r))) recs = Ok (map rrec_text rrs) /\
              map (rrec_result A build build_rxn) rrs =
              map (fun r => built build (mol_expected2 mapping (si_mol r) (si_fs r)) (meta_spec (si_entries r))) recs).
  { induction H as [|r recs Hr _ [rrs [F1 [F2 F3]]]].
    - exists []. repeat split; constructor.
    - destruct (erdf_mol_rrec _ _ _ _ Hr) as [rr [Ha [Hb Hc]]]. exists (rr :: rrs). split; [constructor; assumption|]. split.
      + cbn [mapM map]. rewrite Hb. cbn [bind]. rewrite F2. cbn [bind]. reflexivity.
      + cbn [map]. rewrite Hc, F3. reflexivity. }
  destruct G as [rrs [F1 [F2 F3]]]. exists (map rrec_text rrs). split; [exact F2|].
  change (text_of_lines header ++ concat (map rrec_text rrs)) with (rdfile_text header rrs).
  rewrite rdf_file_roundtrip_generic by assumption. rewrite F3. reflexivity.
Qed.
