(* C13 -- "as editable as its source": on a well formed molecule every mutator with valid arguments raises nothing, inside and
   outside a transaction (add_atom is in CacheUsable). *)
From Coq Require Import ZArith List Bool Lia.
From Model Require Import PyBase Cache.
From Proofs Require Import CacheProofs CacheWf CacheCopy CacheCoh CacheWorld CacheUnion CacheTheorems CacheUsable CacheFresh CacheFreshOps.
Import ListNotations.
Open Scope Z_scope.

Lemma fix_both_total h o : inv1 h o -> exists h' o', (fix_structure ;; fix_stereo) h o = (h', o', None).
Proof. intros I. destruct (fix_structure_total h o I) as [h1 [o1 [E _]]]. unfold seq. rewrite E. unfold fix_stereo, read, ok. eauto. Qed.
Lemma unless_total (a : act) h o : (inv1 h o -> exists h' o', a h o = (h', o', None)) -> inv1 h o -> exists h' o', unless_transaction a h o = (h', o', None).
Proof. intros T I. unfold unless_transaction. destruct (o_backup o); [unfold ok; eauto | now apply T]. Qed.

Theorem add_bond_total n m ord h o : inv1 h o -> valid_order ord = true -> n <> m ->
  In n (keys (o_atoms o)) -> In m (keys (o_atoms o)) -> aslot (o_adj o) m n = None ->
  exists h' o', add_bond n m ord h o = (h', o', None).
Proof.
  intros I V D Hn Hm Nb. pose proof I as [Wf _]. unfold add_bond. rewrite V. cbn [negb]. destruct (Z.eqb_spec n m) as [|_]; [contradiction|].
  rewrite <- (wf_keys _ _ _ Wf) in Hn, Hm. apply keys_In_zget in Hn, Hm. destruct Hn as [rn Hn], Hm as [rm Hm]. rewrite Hn, Hm.
  assert (~ In n (keys rm)) as Z. { intros Hi. apply keys_In_zget in Hi. destruct Hi as [r Hr]. unfold aslot in Nb. rewrite Hm in Nb. congruence. }
  apply zmem_false_notin in Z. rewrite Z. apply zmem_false_notin in Z.
  pose proof (put_bond_good n m ord rn rm h o (conj I (conj D (conj Hn (conj Hm Z))))) as G.
  unfold put_bond, halloc, ok in G. cbn beta iota in G. destruct G as [[I1 Hk] _].
  unfold seq at 1. unfold put_bond, halloc, ok. cbn beta iota. unfold seq at 1. unfold flush at 1, ok. cbn beta iota.
  set (h1 := mkH _ _) in *. set (o1 := set_adj o _) in *. set (o1f := set_cache o1 _).
  assert (inv1 h1 o1f) as I1f by (eapply inv1_same; eauto).
  destruct (ord =? 8).
  - apply unless_total; [|exact I1f]. intros I'. destruct (calc_labels_fresh h1 o1f I') as [h' [o' [E _]]]. eauto.
  - destruct (mark_changed_ok [m; n] h1 o1f) as [o2 E2]. unfold seq. rewrite E2.
    pose proof (mark_changed_good [m; n] h1 o1f) as G2. rewrite E2 in G2. destruct G2 as [I2 _]; [split; [exact I1f | exact Hk]|].
    apply unless_total; [apply fix_both_total | exact I2].
Qed.

Theorem delete_atom_total n h o : inv1 h o -> In n (keys (o_atoms o)) -> exists h' o', delete_atom n h o = (h', o', None).
Proof.
  intros I Hn. pose proof I as [Wf _]. unfold delete_atom. pose proof Hn as Hn'. apply keys_In_zget in Hn. destruct Hn as [a Ha]. rewrite Ha.
  rewrite <- (wf_keys _ _ _ Wf) in Hn'. apply keys_In_zget in Hn'. destruct Hn' as [r Hr]. rewrite Hr.
  destruct (delete_struct n h o a r I Ha Hr) as [o1 [R [W1 [C1 _]]]].
  rewrite <- seq_assoc. unfold seq at 1. rewrite R. unfold seq at 1. unfold discard_changed at 1, ok at 1. cbn beta iota.
  unfold seq at 1. unfold flush at 1, ok. cbn beta iota. set (o2 := set_cache _ _).
  assert (inv1 h o2) as I2.
  { pose proof (discard_changed_mod n h o1 (conj W1 C1)) as G. unfold discard_changed, ok in G. cbn beta iota in G. destruct G as [G _].
    eapply inv1_same; eauto. }
  apply unless_total; [apply fix_both_total | exact I2].
Qed.

Theorem delete_bond_total n m h o : inv1 h o -> aslot (o_adj o) n m <> None -> exists h' o', delete_bond n m h o = (h', o', None).
Proof.
  intros I Hs. unfold delete_bond. destruct (aslot (o_adj o) n m) as [rf0|] eqn:S; [|contradiction]. apply aslot_row in S. destruct S as [rn [Hn Hnm]].
  rewrite Hn, Hnm. destruct (delete_bond_struct n m h o rn rf0 I Hn Hnm) as [rm [cl [Hm [Hmn [D [Hc K]]]]]].
  simpo. rewrite zget_zset. replace (m =? n) with false by (symmetry; apply Z.eqb_neq; congruence). rewrite Hm, Hmn, Hc.
  cbn zeta in K. destruct K as [I2 [_ N2]].
  set (o2 := set_adj o (zset (zset (o_adj o) n (zdel rn m)) m (zdel rm n))) in *.
  change (set_adj (set_adj o (zset (o_adj o) n (zdel rn m))) (zset (zset (o_adj o) n (zdel rn m)) m (zdel rm n))) with o2.
  destruct (b_ord cl =? 8).
  - unfold seq at 1. unfold ok at 1. unfold seq at 1. unfold flush at 1, ok. cbn beta iota.
    apply unless_total; [apply fix_both_total | eapply inv1_same; eauto].
  - destruct (mark_changed_ok [m; n] h o2) as [o3 E3]. unfold seq at 1. rewrite E3. unfold seq at 1. unfold flush at 1, ok. cbn beta iota.
    pose proof (mark_changed_good [m; n] h o2) as G3. rewrite E3 in G3. destruct G3 as [I3 _]; [split; [exact I2 | exact N2]|].
    apply unless_total; [apply fix_both_total | eapply inv1_same; eauto].
Qed.

(* at world level: the current molecule of any state satisfying W accepts these edits *)
Theorem editable s : W s ->
  (forall c, o_backup (s_cur s) = None -> snd (step s (OAddAtom c None)) = None) /\
  (forall n m ord, valid_order ord = true -> n <> m -> In n (keys (o_atoms (s_cur s))) -> In m (keys (o_atoms (s_cur s))) ->
                   slot_of (s_cur s) m n = None -> snd (step s (OAddBond n m ord)) = None) /\
  (forall n, In n (keys (o_atoms (s_cur s))) -> snd (step s (ODelAtom n)) = None) /\
  (forall n m, slot_of (s_cur s) n m <> None -> snd (step s (ODelBond n m)) = None).
Proof.
  intros Ws. pose proof (W_cur s Ws) as [I _]. split; [|split; [|split]].
  - intros c B. now apply usable.
  - intros n m ord V D Hn Hm Nb. rewrite slot_of_aslot in Nb. cbn [step]. unfold lift.
    destruct (add_bond_total n m ord _ _ I V D Hn Hm Nb) as [h' [o' E]]. now rewrite E.
  - intros n Hn. cbn [step]. unfold lift. destruct (delete_atom_total n _ _ I Hn) as [h' [o' E]]. now rewrite E.
  - intros n m Hs. rewrite slot_of_aslot in Hs. cbn [step]. unfold lift. destruct (delete_bond_total n m _ _ I Hs) as [h' [o' E]]. now rewrite E.
Qed.
