(* C13 -- MoleculeContainer.copy: the _changed, _backup, _name and _meta of the copy, translated from /repo's source
   (tools/gen_cacheops.py -> Gen.CacheOps.gen_copy_fields), are what the hand-written copy_mol gives its result; in particular the
   copy is born OUTSIDE any transaction (_backup None) whatever the state of its source. *)
From Coq Require Import ZArith List Bool.
From Model Require Import PyBase Cache.
From Gen Require Import CacheOps.
Import ListNotations.
Open Scope Z_scope.

Theorem gen_copy_fields_eq : forall ks kc h o h1 b, copy_mol ks kc h o = Ok (h1, b) ->
  (o_changed b, o_backup b, o_name b, o_meta b) = gen_copy_fields o.
Proof.
  intros ks kc h o h1 b H. unfold copy_mol in H. destruct (negb (forallb _ (o_atoms o))); [discriminate|].
  destruct (copy_rows h [] (o_adj o)) as [[h2 cb]|e]; [|discriminate]. inversion H; subst. unfold gen_copy_fields. cbn [o_changed o_backup o_name o_meta].
  destruct (o_changed o); destruct (o_meta o); reflexivity.
Qed.
(* the step of the state machine: a copy made at ANY moment (inside a transaction of the source too) is not inside a transaction *)
Theorem copy_born_outside_transaction : forall s, snd (step s OCopy) = None ->
  exists c, s_others (fst (step s OCopy)) = c :: s_others s /\ o_backup c = None /\
            (o_changed c, o_backup c, o_name c, o_meta c) = gen_copy_fields (s_cur s).
Proof.
  intros s H. cbn [step] in *. destruct (copy_mol false false (s_heap s) (s_cur s)) as [[h1 b]|e] eqn:E; [|discriminate].
  exists b. cbn [fst s_others]. split; [reflexivity|]. pose proof (gen_copy_fields_eq _ _ _ _ _ _ E) as F. split; [|exact F].
  unfold gen_copy_fields in F. inversion F. reflexivity.
Qed.
