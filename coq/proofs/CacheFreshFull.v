(* C13 -- the freshness invariant for ALL operations of the state machine, with its exact contract, and the witness that the one
   excluded situation (an in-place union inside a transaction that re-uses a number the backup still knows) really breaks it. *)
From Coq Require Import ZArith List Bool Lia.
From Model Require Import PyBase Cache.
From Proofs Require Import CacheProofs CacheWf CacheCopy CacheCoh CacheWorld CacheUnion CacheTheorems CacheUsable CacheExamples CacheTxn
  CacheFresh CacheFreshOps CacheFreshWorld CacheFreshUnion CacheFreshSplit CacheInj CacheInjOps CacheInjWorld CacheFreshPatch.
Import ListNotations.
Open Scope Z_scope.

Definition FWI (s : state) : Prop := FW s /\ WI s.

(* the contract: setters only inside a transaction; no copy(), split(), patch step or union partner taken from the intermediate
   state of an open transaction; a union whose current molecule is inside a transaction is in place and brings in no atom under a
   number the backup still knows *)
Definition fop_full (s : state) (p : op) : Prop :=
  match p with
  | OUnion rmp cp => union_ok rmp cp s
  | OSplit | OPatch _ _ _ _ => o_backup (s_cur s) = None
  | OSubH ats => o_backup (s_cur s) = None /\ closed (o_adj (s_cur s)) ats      (* kept hydrogens are only current for whole components *)
  | _ => fop_ok s p
  end.

Theorem step_FWI s p : FWI s -> op_ok s p -> fop_full s p -> FWI (fst (step s p)).
Proof.
  intros [Fs Is] Ok Fk. pose proof Fs as [Ws Ff]. split; [|now apply step_WI].
  destruct p; cbn [fop_full] in Fk; try (now apply step_FW).
  - split; [now apply step_W|]. cbn [step]. now apply Fr_union.
  - now apply FW_split.
  - (* substructure with kept hydrogens of a set closed under adjacency *)
    destruct Fk as [B Cl]. cbn [step]. unfold sub_step_g. destruct s as [h o others]. cbn [s_heap s_cur s_others] in *.
    destruct (substructure_g false ats h o) as [[[h2 o2] e]|err] eqn:E; [|exact Fs].
    destruct (W_sub_g false ats h o others h2 o2 e Ws E) as [X K].
    destruct e as [e|]; cbn [fst]; [now apply (FW_heap_ext h h2)|].
    pose proof (W_cur _ Ws) as Uc. pose proof (FW_cur _ Fs) as Fc. cbn [s_heap s_cur] in Uc, Fc.
    destruct (part_fresh ats h o h2 o2 (proj1 (proj1 Uc)) Fc B Cl E) as [F2 B2]. apply (FW_add h h2); auto.
  - split; [now apply step_W|]. cbn [step]. apply Fr_lift; [exact Fs | apply patch_good|].
    apply patch_frop; [apply (W_cur s Ws) | now apply FW_cur | now apply WI_cur | exact Fk].
Qed.

Fixpoint fops_full (s : state) (ops : list op) : Prop :=
  match ops with [] => True | p :: t => op_ok s p /\ fop_full s p /\ fops_full (fst (step s p)) t end.
Theorem run_FWI ops : forall s, FWI s -> fops_full s ops -> FWI (run ops s).
Proof.
  unfold run. induction ops as [|p t IH]; intros s Fs Ok; [exact Fs|]. cbn [fold_left]. destruct Ok as [O1 [O2 O3]].
  apply IH; [now apply step_FWI | exact O3].
Qed.
Lemma FWI_empty : FWI empty_state.
Proof. split; [apply FW_empty | apply WI_empty]. Qed.

Section Stored.
Variables (H L : Type) (calc : env -> H) (labels : lenv -> L).
Theorem stored_fresh_full : forall ops s, FWI s -> fops_full s ops ->
  forall o, In o (live (run ops s)) -> o_backup o = None ->
    o_changed o = None /\
    (forall r, In r (refs_of_adj (o_adj o)) -> exists c, hget (s_heap (run ops s)) r = Some c /\ b_lab c = true) /\
    forall n a, zget (o_atoms o) n = Some a ->
      exists l, lenv_of_row (s_heap (run ops s)) (o_atoms o) (row o n) = Ok l /\
                stored_h H calc a = Some (calc (a_core a, l)) /\ stored_l L labels a = Some (labels l).
Proof.
  intros ops s Fs Ok o Ho B. destruct (run_FWI ops s Fs Ok) as [[_ Ff] _]. rewrite Forall_forall in Ff.
  destruct (Fr_settled _ o (Ff o (live_units _ _ Ho)) B) as [C [Bo OK]]. split; [exact C|]. split; [exact Bo|].
  intros n a Ha. destruct (OK n a Ha) as [[l [X1 X2]] [l' [Y1 Y2]]]. exists l. split; [exact X1|]. unfold stored_h, stored_l.
  rewrite X2. split; [reflexivity|]. unfold lenvn in *. rewrite X1 in Y1. inversion Y1; subst. now rewrite Y2.
Qed.
End Stored.

(* ---- the excluded situation is a real failure (known finding txn-union-number-reuse-untracked): N+ (atom 3) is merged in place
   into ethanol whose oxygen (atom 3) was deleted in the same block; its charge is set to the old oxygen's; the commit compares
   atom 3 with the backup's atom 3, finds nothing changed, and keeps the hydrogen count computed for N+ *)
Definition reuse_history : list op :=
  [OAddAtom (mkCore 7 None 1 false) (Some 3); OCopy; ODelAtom 3; OAddAtom carbon (Some 1); OAddAtom carbon (Some 2); OAddAtom oxygen (Some 3);
   OAddBond 1 2 1; OAddBond 2 3 1; OEnter; ODelAtom 3; OUnion false false; OSetCharge 3 0; OAddAtom carbon None; OExitOk].
Theorem fresh_union_reuse_refuted :
  ops_ok empty_state reuse_history /\ trace reuse_history empty_state = repeat None 14 /\
  (* every operation but the union is within the freshness contract, and the union violates only its number-reuse clause *)
  fops_full empty_state (firstn 10 reuse_history) /\
  (let s := run (firstn 10 reuse_history) empty_state in
   match s_others s with other :: _ => o_backup other = None | [] => False end /\
   exists b, o_backup (s_cur s) = Some b /\ zget (bk_atoms b) 3 <> None /\ ~ In 3 (keys (o_atoms (s_cur s))) /\
             In 3 (keys (o_atoms (s_cur (fst (union false false s)))))) /\
  (let s := run reuse_history empty_state in
   o_backup (s_cur s) = None /\ hyd_fresh (s_heap s) (s_cur s) 3 = false /\
   option_map a_core (zget (o_atoms (s_cur s)) 3) = Some (mkCore 7 None 0 false) /\
   option_map a_hyd (zget (o_atoms (s_cur s)) 3) = Some (Some (mkCore 7 None 1 false, []))).
Proof.
  split; [vm_compute; repeat split; discriminate|]. split; [vm_compute; reflexivity|]. split; [vm_compute; repeat split; discriminate|]. split.
  - vm_compute. split; [reflexivity|]. eexists. split; [reflexivity|]. split; [discriminate|]. split; [|tauto]. intros [E|[E|[]]]; discriminate.
  - vm_compute. repeat split.
Qed.

(* non-vacuity of the full contract: union in place and copying, split, the patch step, renumbering inside a block *)
Definition full_history : list op :=
  build_cco ++ [OCopy; OUnion true false; OAddBond 3 4 1; OPatch 1 2 2 1; OSplit; OUnion true true; OEnter; OSetCharge 2 1; ORemap [(1, 7)];
                ODelBond 2 3; OExitOk; OUnion true false; OPatch 4 5 8 0; OSplit].
Theorem full_example :
  fops_full empty_state full_history /\ ops_ok empty_state full_history /\ trace full_history empty_state = repeat None 22 /\
  (let s := run full_history empty_state in
   forallb (fun o => forallb (fun n => hyd_fresh (s_heap s) o n && lab_fresh (s_heap s) o n) (keys (o_atoms o))) (live s) = true /\
   (6 <= List.length (live s))%nat).
Proof. split; [vm_compute; repeat split; try discriminate; try (left; reflexivity)|]. split; [vm_compute; repeat split; discriminate|]. split; vm_compute; repeat split; try reflexivity; lia. Qed.
