(* C11: proofs about the MDL model (Model.Mdl).
   Part 1  text and number library (printing / parsing of integers, width-3 fields)
   Part 2  charge maps
   Part 3  V2000 line codecs and the block round trip
   Part 4  record framing (SDF, RDF) by induction over the list of records
   Part 5  metadata blocks
   Part 6  V3000 *)
From Coq Require Import ZArith List String Ascii Bool Lia.
From Model Require Import PyBase Mdl.
From Gen Require Import MdlTables.
Import ListNotations.
Open Scope Z_scope.
Local Notation length := List.length.
Local Notation concat := List.concat.

(* ================================================================================================ *)
(** * Part 1: text and numbers *)

Lemma ascii_eqb_refl c : Ascii.eqb c c = true.
Proof. apply Ascii.eqb_eq. reflexivity. Qed.

Lemma str_eqb_eq a b : str_eqb a b = true <-> a = b.
Proof.
  unfold str_eqb. revert b. induction a as [|x a IH]; intros [|y b]; cbn; split; intros H; try discriminate; try reflexivity.
  - apply andb_prop in H. destruct H as [H1 H2]. apply Ascii.eqb_eq in H1. apply IH in H2. subst. reflexivity.
  - inversion H; subst. rewrite ascii_eqb_refl. cbn. apply IH. reflexivity.
Qed.
Lemma str_eqb_refl a : str_eqb a a = true.
Proof. apply str_eqb_eq. reflexivity. Qed.
Lemma str_eqb_neq a b : a <> b -> str_eqb a b = false.
Proof. intros H. destruct (str_eqb a b) eqn:E; [apply str_eqb_eq in E; contradiction | reflexivity]. Qed.

Lemma startswith_app p r : startswith p (p ++ r) = true.
Proof. induction p as [|c p IH]; cbn; [reflexivity|]. rewrite ascii_eqb_refl. exact IH. Qed.

(* ---- lstrip / rstrip / strip ---- *)
Lemma lstrip_by_app_all f a s : Forall (fun c => f c = true) a -> lstrip_by f (a ++ s) = lstrip_by f s.
Proof. induction 1 as [|c a Hc _ IH]; cbn; [reflexivity|]. rewrite Hc. exact IH. Qed.
Lemma lstrip_by_stop f c s : f c = false -> lstrip_by f (c :: s) = c :: s.
Proof. intros H. cbn. rewrite H. reflexivity. Qed.
Lemma lstrip_by_nil_all f a : Forall (fun c => f c = true) a -> lstrip_by f a = [].
Proof. intros H. rewrite <- (app_nil_r a). rewrite lstrip_by_app_all by exact H. reflexivity. Qed.
Lemma rstrip_by_app_all f a s : Forall (fun c => f c = true) a -> rstrip_by f (s ++ a) = rstrip_by f s.
Proof.
  intros H. unfold rstrip_by. rewrite rev_app_distr. rewrite lstrip_by_app_all; [reflexivity|].
  apply Forall_rev. exact H.
Qed.
Lemma rstrip_by_stop f c s : f c = false -> rstrip_by f (s ++ [c]) = s ++ [c].
Proof. intros H. unfold rstrip_by. rewrite rev_app_distr. cbn. rewrite H. cbn. rewrite rev_involutive. reflexivity. Qed.

(* text whose first and last characters are not blank is its own strip; blanks around it are removed *)
Definition edges_ok (f : ascii -> bool) (s : str) : Prop :=
  match s with [] => True | c :: _ => f c = false /\ f (last s c) = false end.
Lemma strip_by_core f a s b :
  Forall (fun c => f c = true) a -> Forall (fun c => f c = true) b -> edges_ok f s -> strip_by f (a ++ s ++ b) = s.
Proof.
  intros Ha Hb Hs. unfold strip_by. rewrite lstrip_by_app_all by exact Ha.
  destruct s as [|c s].
  - cbn [app]. rewrite lstrip_by_nil_all by exact Hb. reflexivity.
  - destruct Hs as [H1 H2]. rewrite <- app_comm_cons. rewrite lstrip_by_stop by exact H1.
    rewrite app_comm_cons. rewrite rstrip_by_app_all by exact Hb.
    destruct (exists_last (l := c :: s)) as [s' [d E]]; [discriminate|].
    rewrite E in *. rewrite last_last in H2. apply rstrip_by_stop. exact H2.
Qed.
Lemma strip_by_id f s : edges_ok f s -> strip_by f s = s.
Proof. intros H. pose proof (strip_by_core f [] s [] (Forall_nil _) (Forall_nil _) H) as E. cbn [app] in E. rewrite app_nil_r in E. exact E. Qed.
Lemma edges_ok_all f s : Forall (fun c => f c = false) s -> edges_ok f s.
Proof.
  intros H. destruct s as [|c s]; cbn; [exact I|]. split.
  - inversion H; assumption.
  - rewrite Forall_forall in H. apply H. destruct (exists_last (l := c :: s)) as [s' [d E]]; [discriminate|].
    change (In (last (c :: s) c) (c :: s)). rewrite E at 1. rewrite last_last. rewrite E. apply in_or_app. right. left. reflexivity.
Qed.
Lemma Forall_repeat {A} (P : A -> Prop) x n : P x -> Forall P (repeat x n).
Proof. intros H. induction n; cbn; constructor; auto. Qed.

(* ---- digits ---- *)
Lemma code_chr n : 0 <= n < 256 -> code (chr n) = n.
Proof.
  intros H. unfold code, chr. rewrite N_ascii_embedding; [lia|]. lia.
Qed.
Lemma digit_val_chr d : 0 <= d <= 9 -> digit_val (digit_chr d) = Some d.
Proof.
  intros H. unfold digit_val, digit_chr. rewrite code_chr by lia.
  replace ((48 <=? 48 + d) && (48 + d <=? 57)) with true by (symmetry; apply andb_true_intro; split; apply Z.leb_le; lia).
  f_equal. lia.
Qed.

Definition is_digit (c : ascii) : Prop := exists d, 0 <= d <= 9 /\ c = digit_chr d.

Lemma digits_of_digits fuel : forall n acc, 0 <= n -> Forall is_digit acc -> Forall is_digit (digits_of fuel n acc).
Proof.
  induction fuel as [|f IH]; intros n acc Hn Ha; cbn; [exact Ha|].
  assert (Hd : is_digit (digit_chr (n mod 10))) by (exists (n mod 10); split; [pose proof (Z.mod_pos_bound n 10); lia | reflexivity]).
  destruct (n <? 10); [constructor; assumption|]. apply IH; [apply Z.div_pos; lia | constructor; assumption].
Qed.
Lemma digits_of_nonempty fuel n acc : digits_of (S fuel) n acc <> [].
Proof.
  revert n acc. induction fuel as [|f IH]; intros n acc.
  - cbn. destruct (n <? 10); discriminate.
  - change (digits_of (S (S f)) n acc) with (let acc' := digit_chr (n mod 10) :: acc in if n <? 10 then acc' else digits_of (S f) (n / 10) acc').
    cbv zeta. destruct (n <? 10); [discriminate | apply IH].
Qed.

Fixpoint pow10 (k : nat) : Z := match k with O => 1 | S k' => 10 * pow10 k' end.
Lemma pow10_pos k : 0 < pow10 k.
Proof. induction k; cbn [pow10]; lia. Qed.

(* value of a digit string appended to an accumulator *)
Fixpoint dval (s : str) (a : Z) : Z :=
  match s with [] => a | c :: r => match digit_val c with Some d => dval r (a * 10 + d) | None => a end end.
Lemma int_digits_all_digits s : forall a b, Forall is_digit s -> int_digits s a b = if (match s with [] => b | _ => true end) then Some (dval s a) else None.
Proof.
  induction s as [|c s IH]; intros a b H; cbn.
  - destruct b; reflexivity.
  - inversion H as [|? ? [d [Hd Hc]] Hs]; subst. rewrite digit_val_chr by exact Hd. rewrite IH by exact Hs.
    destruct s; reflexivity.
Qed.
Lemma dval_digits_of_eq fuel : forall n acc,
  0 <= n < pow10 fuel -> dval (digits_of fuel n acc) 0 = dval acc n.
Proof.
  induction fuel as [|f IH]; intros n acc Hn.
  - cbn [pow10] in Hn. assert (n = 0) by lia. subst. reflexivity.
  - cbn [digits_of]. cbv zeta. destruct (n <? 10) eqn:E.
    + apply Z.ltb_lt in E. cbn [dval]. rewrite Z.mod_small by lia. rewrite digit_val_chr by lia. f_equal.
    + apply Z.ltb_ge in E. rewrite IH.
      * cbn [dval]. rewrite digit_val_chr by (pose proof (Z.mod_pos_bound n 10); lia). f_equal.
        pose proof (Z.div_mod n 10). lia.
      * cbn [pow10] in Hn. split; [apply Z.div_pos; lia | apply Z.div_lt_upper_bound; lia].
Qed.

Lemma pow10_log2 n : 0 <= n -> n < pow10 (S (Z.to_nat (Z.log2 n))).
Proof.
  intros Hn. destruct (Z.eq_dec n 0) as [->|Hz]; [cbn; lia|].
  assert (Hpos : 0 < n) by lia.
  pose proof (Z.log2_spec n Hpos) as [_ Hub].
  assert (Hle : forall k, 2 ^ Z.of_nat k <= pow10 k).
  { induction k as [|k IHk]; [cbn; lia|]. rewrite Nat2Z.inj_succ, Z.pow_succ_r by lia. cbn [pow10]. pose proof (pow10_pos k). lia. }
  specialize (Hle (S (Z.to_nat (Z.log2 n)))).
  rewrite Nat2Z.inj_succ, Z2Nat.id in Hle by apply Z.log2_nonneg. lia.
Qed.

Lemma nat_digits_digits n : 0 <= n -> Forall is_digit (nat_digits n).
Proof. intros H. apply digits_of_digits; [exact H | constructor]. Qed.
Lemma nat_digits_nonempty n : nat_digits n <> [].
Proof. apply digits_of_nonempty. Qed.
Lemma int_digits_nat_digits n : 0 <= n -> int_digits (nat_digits n) 0 false = Some n.
Proof.
  intros H. rewrite int_digits_all_digits by (apply nat_digits_digits; exact H).
  pose proof (nat_digits_nonempty n) as Hne. destruct (nat_digits n) eqn:E; [contradiction|]. rewrite <- E.
  unfold nat_digits. rewrite dval_digits_of_eq; [reflexivity|]. split; [exact H | apply pow10_log2; exact H].
Qed.

Lemma is_digit_not_cspace c : is_digit c -> is_cspace c = false.
Proof.
  intros [d [Hd ->]]. unfold is_cspace, digit_chr. rewrite code_chr by lia.
  repeat match goal with |- context [?a <=? ?b] => let E := fresh in destruct (a <=? b) eqn:E; [apply Z.leb_le in E | apply Z.leb_gt in E] end;
  repeat match goal with |- context [?a =? ?b] => let E := fresh in destruct (a =? b) eqn:E; [apply Z.eqb_eq in E | apply Z.eqb_neq in E] end; cbn; try reflexivity; lia.
Qed.
Lemma is_digit_not_space c : is_digit c -> is_space c = false.
Proof.
  intros [d [Hd ->]]. unfold is_space, digit_chr. rewrite code_chr by lia.
  repeat match goal with |- context [?a <=? ?b] => let E := fresh in destruct (a <=? b) eqn:E; [apply Z.leb_le in E | apply Z.leb_gt in E] end;
  repeat match goal with |- context [?a =? ?b] => let E := fresh in destruct (a =? b) eqn:E; [apply Z.eqb_eq in E | apply Z.eqb_neq in E] end; cbn; try reflexivity; lia.
Qed.
Lemma is_digit_cases c : is_digit c -> In c (L "0123456789").
Proof.
  intros [d [Hd ->]]. assert (d = 0 \/ d = 1 \/ d = 2 \/ d = 3 \/ d = 4 \/ d = 5 \/ d = 6 \/ d = 7 \/ d = 8 \/ d = 9) as H by lia.
  cbn. repeat (destruct H as [-> | H]; [tauto|]). subst. tauto.
Qed.

(* characters of str(n) *)
Definition num_char (c : ascii) : Prop := is_digit c \/ c = "-"%char.
Lemma zstr_chars n : Forall num_char (zstr n).
Proof.
  unfold zstr. destruct (n <? 0) eqn:E.
  - apply Z.ltb_lt in E. constructor; [right; reflexivity|]. eapply Forall_impl; [|apply nat_digits_digits; lia]. intros c H. left. exact H.
  - apply Z.ltb_ge in E. eapply Forall_impl; [|apply nat_digits_digits; lia]. intros c H. left. exact H.
Qed.
Lemma num_char_not_cspace c : num_char c -> is_cspace c = false.
Proof. intros [H | ->]; [apply is_digit_not_cspace; exact H | reflexivity]. Qed.
Lemma num_char_not_space c : num_char c -> is_space c = false.
Proof. intros [H | ->]; [apply is_digit_not_space; exact H | reflexivity]. Qed.
Lemma zstr_nonempty n : zstr n <> [].
Proof. unfold zstr. destruct (n <? 0); [discriminate | apply nat_digits_nonempty]. Qed.

(* int(str(n)) == n, also with blanks around (the width-w fields) *)
Lemma py_int_core n : int_signed (zstr n) = Some n.
Proof.
  unfold int_signed, zstr. destruct (n <? 0) eqn:E.
  - apply Z.ltb_lt in E. rewrite int_digits_nat_digits by lia. cbn. f_equal. lia.
  - apply Z.ltb_ge in E. pose proof (nat_digits_digits n E) as Hd. pose proof (nat_digits_nonempty n) as Hne.
    destruct (nat_digits n) as [|c r] eqn:En; [contradiction|].
    inversion Hd as [|? ? Hc _]; subst. apply is_digit_cases in Hc.
    assert (HH : int_digits (c :: r) 0 false = Some n) by (rewrite <- En; apply int_digits_nat_digits; exact E).
    cbn in Hc. repeat (destruct Hc as [<- | Hc]; [exact HH|]). contradiction.
Qed.
Lemma py_int_padded n a b :
  Forall (fun c => is_cspace c = true) a -> Forall (fun c => is_cspace c = true) b -> py_int (a ++ zstr n ++ b) = Ok n.
Proof.
  intros Ha Hb. unfold py_int. rewrite strip_by_core; [| exact Ha | exact Hb |].
  - rewrite py_int_core. reflexivity.
  - apply edges_ok_all. eapply Forall_impl; [|apply zstr_chars]. intros c. apply num_char_not_cspace.
Qed.
Lemma py_int_zstr n : py_int (zstr n) = Ok n.
Proof. rewrite <- (py_int_padded n [] []); auto. rewrite app_nil_r. reflexivity. Qed.
Lemma py_int_fmt_d w n : py_int (fmt_d w n) = Ok n.
Proof.
  unfold fmt_d, rjust. rewrite <- (app_nil_r (zstr n)) at 2. apply py_int_padded; [apply Forall_repeat; reflexivity | constructor].
Qed.
Lemma py_int_fmt_d_nl w n : py_int (fmt_d w n ++ [nl]) = Ok n.
Proof.
  unfold fmt_d, rjust. rewrite <- app_assoc. apply py_int_padded; [apply Forall_repeat; reflexivity | repeat constructor].
Qed.

(* width: 3 characters exactly for -99 .. 999 (finite sweep), and the characters of a field *)
Lemma fmt_d3_len_b : forallb (fun n => Nat.eqb (length (fmt_d 3 n)) 3) (zrange (-99) 1000) = true.
Proof. vm_compute. reflexivity. Qed.
Lemma fmt_d3_len n : -99 <= n <= 999 -> length (fmt_d 3 n) = 3%nat.
Proof.
  intros H. pose proof fmt_d3_len_b as B. rewrite forallb_forall in B. apply Nat.eqb_eq. apply B. apply zrange_In. lia.
Qed.
Definition field_char (c : ascii) : Prop := num_char c \/ c = sp.
Lemma fmt_d_chars w n : Forall field_char (fmt_d w n).
Proof.
  unfold fmt_d, rjust. apply Forall_app. split.
  - apply Forall_repeat. right. reflexivity.
  - eapply Forall_impl; [|apply zstr_chars]. intros c H. left. exact H.
Qed.
Lemma field_char_not_nl c : field_char c -> c <> nl.
Proof.
  intros [[[d [Hd ->]] | ->] | ->]; try discriminate.
  intros E. apply (f_equal code) in E. unfold digit_chr in E. rewrite code_chr in E by lia. change (code nl) with 10 in E. lia.
Qed.
Lemma fmt_d3_explode n : -99 <= n <= 999 -> exists a b c, fmt_d 3 n = [a; b; c].
Proof.
  intros H. pose proof (fmt_d3_len n H) as E. destruct (fmt_d 3 n) as [|a [|b [|c [|d r]]]]; try discriminate. exists a, b, c. reflexivity.
Qed.
(* single digit numbers print as one character *)
Lemma zstr_digit_b : forallb (fun n => str_eqb (zstr n) [digit_chr n]) (zrange 0 10) = true.
Proof. vm_compute. reflexivity. Qed.
Lemma zstr_digit n : 0 <= n <= 9 -> zstr n = [digit_chr n].
Proof.
  intros H. pose proof zstr_digit_b as B. rewrite forallb_forall in B. apply str_eqb_eq. apply B. apply zrange_In. lia.
Qed.

(* ---- slices ---- *)
Lemma slice_0_app a r n : length a = n -> slice 0 n (a ++ r) = a.
Proof. intros H. unfold slice. cbn [skipn]. rewrite Nat.sub_0_r. subst n. rewrite firstn_app, Nat.sub_diag, firstn_all. cbn. apply app_nil_r. Qed.
Lemma slice_drop a r n p q : length a = n -> (n <= p)%nat -> slice p q (a ++ r) = slice (p - n) (q - n) r.
Proof.
  intros H Hp. unfold slice. rewrite skipn_app. rewrite skipn_all2 by lia. cbn [app]. subst n.
  f_equal. lia.
Qed.
Lemma lslice_0_app {A} (a r : list A) n : length a = n -> lslice 0 n (a ++ r) = a.
Proof. intros H. unfold lslice. cbn [skipn]. rewrite Nat.sub_0_r. subst n. rewrite firstn_app, Nat.sub_diag, firstn_all. cbn. apply app_nil_r. Qed.
Lemma lslice_drop {A} (a r : list A) n p q : length a = n -> (n <= p)%nat -> lslice p q (a ++ r) = lslice (p - n) (q - n) r.
Proof.
  intros H Hp. unfold lslice. rewrite skipn_app. rewrite skipn_all2 by lia. cbn [app]. subst n. f_equal. lia.
Qed.
Lemma skipn_app_exact {A} (a r : list A) n : length a = n -> skipn n (a ++ r) = r.
Proof. intros H. subst n. rewrite skipn_app, skipn_all, Nat.sub_diag. reflexivity. Qed.

(* ---- lines of a text ---- *)
Lemma readlines_aux_line l cur rest : ~ In nl l -> readlines_aux (l ++ nl :: rest) cur = (rev cur ++ l ++ [nl]) :: readlines_aux rest [].
Proof.
  revert cur. induction l as [|c l IH]; intros cur H.
  - cbn. reflexivity.
  - cbn [app readlines_aux]. destruct (Ascii.eqb c nl) eqn:E; [apply Ascii.eqb_eq in E; subst; exfalso; apply H; left; reflexivity|].
    rewrite IH by (intros Hi; apply H; right; exact Hi). cbn [rev]. rewrite <- !app_assoc. reflexivity.
Qed.
Theorem readlines_text_of_lines ls : Forall (fun l => ~ In nl l) ls -> readlines (text_of_lines ls) = map add_nl ls.
Proof.
  unfold readlines, text_of_lines. induction 1 as [|l ls Hl _ IH]; cbn [map concat]; [reflexivity|].
  unfold add_nl at 1. rewrite <- app_assoc. cbn [app]. rewrite readlines_aux_line by exact Hl. cbn [rev app]. rewrite IH. reflexivity.
Qed.
Lemma readlines_aux_app_lines ls rest : Forall (fun l => ~ In nl l) ls ->
  readlines_aux (text_of_lines ls ++ rest) [] = map add_nl ls ++ readlines_aux rest [].
Proof.
  unfold text_of_lines. induction 1 as [|l ls Hl _ IH]; cbn [map concat app]; [reflexivity|].
  unfold add_nl at 1. rewrite <- !app_assoc. cbn [app]. rewrite readlines_aux_line by exact Hl. cbn [rev app]. rewrite IH. reflexivity.
Qed.

(* ================================================================================================ *)
(** * Part 2: the charge maps of the writer and of the reader (finite, over the generated tables) *)

Definition charge_roundtrip_ok (c : Z) : bool :=
  match zget_last w_charge_map c with
  | Some s => option_eqb Z.eqb (sget_last r_charge_map (L s)) (Some (if (c =? 4) || (c =? -4) then 0 else c)) &&
              Nat.eqb (length (L s)) 3
  | None => false
  end.
Theorem charge_maps_inverse :
  (* every charge -4..4 has a 3-character code that the reader maps back; +-4 are written as 0 (and repaired by M  CHG) *)
  forallb charge_roundtrip_ok (zrange (-4) 5) = true /\
  (* the writer has codes for these charges only *)
  forallb (fun k => (-4 <=? k) && (k <=? 4)) (map fst w_charge_map) = true /\
  (* every code the reader knows denotes a charge that the writer writes with a code denoting the same charge *)
  forallb (fun e => match zget_last w_charge_map (snd e) with
                    | Some s => option_eqb Z.eqb (sget_last r_charge_map (L s)) (Some (snd e))
                    | None => false
                    end) r_charge_map = true.
Proof. vm_compute. repeat split; reflexivity. Qed.

Definition w_charge_ok (c : Z) : bool :=
  match zget_last w_charge_map c with
  | Some s => Nat.eqb (length (L s)) 3 &&
              option_eqb Z.eqb (sget_last r_charge_map (L s)) (Some (if (c =? 4) || (c =? -4) then 0 else c)) &&
              negb (existsb (fun ch => Ascii.eqb ch nl) (L s))
  | None => false
  end.
Lemma w_charge_ok_all : forallb w_charge_ok (zrange (-4) 5) = true.
Proof. vm_compute. reflexivity. Qed.
Lemma option_eqb_Z_eq a b : option_eqb Z.eqb a (Some b) = true -> a = Some b.
Proof. destruct a as [x|]; cbn; [|discriminate]. intros H. apply Z.eqb_eq in H. subst. reflexivity. Qed.
(* the code the writer emits for a charge: 3 characters, read back as the charge (+-4 as 0, repaired by M  CHG) *)
Lemma w_charge_spec c : -4 <= c <= 4 ->
  exists s, w_charge c = Ok s /\ length s = 3%nat /\ r_charge s = Ok (if (c =? 4) || (c =? -4) then 0 else c) /\ ~ In nl s.
Proof.
  intros H. pose proof w_charge_ok_all as B. rewrite forallb_forall in B.
  specialize (B c). rewrite zrange_In in B. specialize (B ltac:(lia)).
  unfold w_charge_ok in B. unfold w_charge, r_charge.
  destruct (zget_last w_charge_map c) as [s|]; [|discriminate].
  apply andb_prop in B. destruct B as [B B3]. apply andb_prop in B. destruct B as [B1 B2].
  exists (L s). cbn [option_map of_opt]. split; [reflexivity|]. split; [apply Nat.eqb_eq; exact B1|]. split.
  - apply option_eqb_Z_eq in B2. rewrite B2. reflexivity.
  - intros Hin. apply negb_true_iff in B3. rewrite <- not_true_iff_false in B3. apply B3.
    apply existsb_exists. exists nl. split; [exact Hin | apply ascii_eqb_refl].
Qed.

(* MRV bond_map: writer half and reader half agree (order 8 is written as order="1" queryType="Any"; the reader prefers
   the queryType attribute) *)
Theorem mrv_bond_maps_inverse :
  forallb (fun k => match zget_last mrv_bond_w k with
                    | Some s => option_eqb Z.eqb (sget_last mrv_bond_r (L s)) (Some k)
                    | None => false end) [1; 2; 3; 4] = true /\
  option_eqb String.eqb (zget_last mrv_bond_w 8) (Some "1"" queryType=""Any"%string) = true /\
  option_eqb Z.eqb (sget_last mrv_bond_r (L "Any")) (Some 8) = true /\
  forallb (fun k => zmem k [1; 2; 3; 4; 8]) (map fst mrv_bond_w) = true.
Proof. vm_compute. repeat split; reflexivity. Qed.
