(* C15 -- tie by translation: the body of Graph.union as called by `|` (remap=True, copy=True), regenerated from the SOURCE by
   tools/gen_union.py (Gen.UnionGen.g_union), is the hand-written union_remap of Model.Compose that ReactionContainer.compose
   folds over its molecules -- for all pairs of molecules with duplicate-free, non-negative atom numbers. *)
From Coq Require Import ZArith List Bool Lia.
From Model Require Import PyBase Graph Compose.
From Gen Require Import UnionGen.
From Proofs Require Import ComposeProofs.
Import ListNotations.
Open Scope Z_scope.

Lemma set_truthy_filter (f : Z -> bool) l : set_truthy (filter f l) = existsb f l.
Proof. induction l as [|x l IH]; cbn [filter existsb]; [reflexivity|]. destruct (f x); cbn [set_truthy orb]; [reflexivity|exact IH]. Qed.
Lemma collision_sym (a b : list Z) : existsb (fun x => zmem x b) a = existsb (fun n => zmem n a) b.
Proof.
  apply eq_true_iff_eq. rewrite !existsb_exists. split; intros [x [Hx Hm]]; apply zmem_In in Hm; exists x; (split; [exact Hm|apply zmem_In; exact Hx]).
Qed.

Lemma dict_of_acc {V} (l : list (Z * V)) : forall acc, NoDup (keys acc ++ keys l) ->
  fold_left (fun d kv => zset d (fst kv) (snd kv)) l acc = acc ++ l.
Proof.
  induction l as [|[k v] l IH]; intros acc Hn; cbn [fold_left fst snd]; [rewrite app_nil_r; reflexivity|].
  cbn [keys map fst] in Hn. assert (Hk : ~ In k (keys acc)).
  { intros Hi. apply NoDup_remove_2 in Hn. apply Hn. apply in_app_iff. left. exact Hi. }
  rewrite (keys_zset_absent acc k v Hk), IH.
  - rewrite <- app_assoc. reflexivity.
  - rewrite keys_app. cbn [keys map fst]. rewrite <- app_assoc. exact Hn.
Qed.
Lemma dict_of_nodup {V} (l : list (Z * V)) : NoDup (keys l) -> dict_of l = l.
Proof. intros H. unfold dict_of. rewrite dict_of_acc; [reflexivity|exact H]. Qed.

Definition swapped (s : Z) (l : list Z) : list (Z * Z) := map (fun x : Z * Z => let i := fst x in let n := snd x in (n, i)) (py_enumerate_start s l).
Lemma keys_swapped l : forall s, keys (swapped s l) = l.
Proof. unfold swapped, keys. induction l as [|x l IH]; intros s; cbn [py_enumerate_start map fst snd]; [reflexivity|]. f_equal. apply IH. Qed.
Lemma zget_swapped n l : forall s i,
  zget (swapped s l) n = match index_from n l i with Some j => Some (s + (j - i)) | None => None end.
Proof.
  unfold swapped. induction l as [|y l IH]; intros s i; cbn [py_enumerate_start map fst snd zget index_from]; [reflexivity|].
  destruct (n =? y); [f_equal; lia|]. rewrite (IH (s + 1) (i + 1)). destruct (index_from n l (i + 1)); [f_equal; lia|reflexivity].
Qed.

Lemma rename_ext f g m : (forall n, f n = g n) -> rename f m = rename g m.
Proof.
  intros H. unfold rename. f_equal.
  - apply map_ext. intros x. rewrite H. reflexivity.
  - apply map_ext. intros x. rewrite H. f_equal. apply map_ext. intros y. rewrite H. reflexivity.
Qed.

Lemma zmax_head x r : 0 <= x -> zmax (x :: r) = fold_left Z.max r x.
Proof. intros H. unfold zmax. cbn [fold_left]. rewrite Z.max_r by exact H. reflexivity. Qed.

Theorem g_union_eq a b : NoDup (ids b) -> (forall n, In n (ids a) -> 0 <= n) -> g_union a b = Ok (union_remap a b).
Proof.
  intros Hb Ha. unfold g_union, union_remap, py_copy. fold (ids a). fold (ids b).
  unfold keys_and. rewrite set_truthy_filter, collision_sym.
  destruct (existsb (fun n => zmem n (ids a)) (ids b)) eqn:C; cbn [u_bind]; [|reflexivity].
  destruct (ids a) as [|x r] eqn:Ea.
  - exfalso. apply existsb_exists in C. destruct C as [y [_ Hy]]. discriminate.
  - cbn [py_max u_bind]. rewrite <- (zmax_head x r) by (apply Ha; left; reflexivity).
    fold (swapped (zmax (x :: r) + 1) (ids b)). rewrite dict_of_nodup by (rewrite keys_swapped; exact Hb).
    unfold py_remap.
    rewrite (rename_ext _ (fun n => match index_of (ids b) n with Some i => zmax (x :: r) + 1 + i | None => n end)); [reflexivity|].
    intros n. rewrite (zget_swapped n (ids b) (zmax (x :: r) + 1) 0). unfold index_of.
    destruct (index_from n (ids b) 0); [f_equal; lia|reflexivity].
Qed.
Example g_union_example :
  g_union (mkMol [(1, mkAtom 6 None 0 false None None); (2, mkAtom 8 None 0 false None None)] [(1, [(2, mkBond 1 None)]); (2, [(1, mkBond 1 None)])])
          (mkMol [(2, mkAtom 7 None 0 false None None)] [(2, [])]) =
  Ok (mkMol [(1, mkAtom 6 None 0 false None None); (2, mkAtom 8 None 0 false None None); (3, mkAtom 7 None 0 false None None)]
            [(1, [(2, mkBond 1 None)]); (2, [(1, mkBond 1 None)]); (3, [])]).
Proof. vm_compute. reflexivity. Qed.
