(* C14 extension: finite theorems over the regenerated rule tables with the whole engine running inside Coq
   (Model.StandardizeMatch: brute-force matcher specification + Model.Valence.calc_implicit): every rule on its own
   instantiation (three variants: the v-th alternative of every element / bond-order list), through the four-pass sequence
   of standardize(). *)
From Coq Require Import ZArith List String Bool Lia.
From Model Require Import PyBase Graph PeriodicTable Standardize StandardizeMatch.
From Gen Require Import Elements StdRules.
From Proofs Require Import StandardizeProofs StandardizeExt.
Import ListNotations.
Open Scope Z_scope.

Definition variants : list nat := [0; 1; 2]%nat.

(* the rules that change the total hydrogen count of a valence-valid instantiation, with the amount *)
Definition h_exceptions : list (string * Z) :=
  [("[N;D1;z2;x1;+]=[N;D2;x1;z2]", -2); ("[C;D2;z2;x2;-]([N;D1,D2;z1;+])=[O;D1]", -2);
   ("[O;D1;z1;x1;-][N;D2;z1;+]", -2); ("[C;D1;x1;z2]=[O;D1] |^1:0|", -1)]%string.
(* the rules whose result is matched by a left-hand side again (the hydroxy-azine / enol tautomer ping-pong pairs) *)
Definition lhs_exceptions : list (string * list string) :=
  [("[O,S,N;D1;z2;x0]=[C;D3;r6]1[N;D2;z1][A;z2]-,=[A;z2][A;z2]-,=[A;z2]1", ["[N;z2]=[C;D2,D3;z2]-[O,S;D1]"]);
   ("[O,S,N;D1;z2;x0]=[C;D3;r6]1[N;D2;z2]=[A;z2][A;z2]-,=[A;z2][C;D2,D3;z1]1", ["[O;D1;x0;z1]-[C;D3;z2;x2](-[O,N])=C"])]%string.
(* the rules after which a valence-valid instantiation (metal = Ti) has a valence error: the metal cation has no valence state *)
Definition invalid_after_exceptions : list string :=
  ["[M:1]~1~2~3~4~[C:2]-5-[C:3]~1=[C:4]~2-[C:5]~3=[C:6]~4-5 |^1:1|"; "[M:1]~1~2~[C;z2:2]=[C:3]~1-[C:4]~2 |^1:3|"]%string.

Definition fires (v : nat) (r : rule) : bool := negb (Nat.eqb (rp_matches (report_of v r)) 0).

Definition h_balanced_b (v : nat) (r : rule) : bool :=
  let rp := report_of v r in
  negb (fires v r) ||
  (rp_ok rp &&
   (negb (rp_valid rp) || (rp_dh rp =? 0) || existsb (fun e => String.eqb (fst e) (r_name r) && (snd e =? rp_dh rp)) h_exceptions) &&
   (negb (rp_valid rp) || rp_valid_after rp || smem (r_name r) invalid_after_exceptions) &&
   ((rp_dq rp =? 0) || smem (r_name r) unbalanced_names)).
Definition rhs_clean_b (v : nat) (r : rule) : bool :=
  let rp := report_of v r in
  negb (fires v r) ||
  match rp_lhs_after rp with
  | [] => true
  | l => existsb (fun e => String.eqb (fst e) (r_name r) && list_eqb String.eqb (snd e) l) lhs_exceptions
  end.

Lemma table_sweep_b : forallb (fun v => forallb (fun r => h_balanced_b v r && rhs_clean_b v r) table_rules) variants = true.
Proof. Time vm_compute. reflexivity. Qed.

(* the exception lists are exact (every entry occurs) and the sweep is not vacuous *)
Lemma table_exact :
  fst (fst (fst (fst (fst (fst (table_summary 0)))))) = h_exceptions /\
  snd (fst (fst (fst (fst (fst (table_summary 1)))))) = lhs_exceptions /\
  snd (fst (fst (fst (table_summary 0)))) = invalid_after_exceptions /\
  map fst (snd (fst (fst (fst (fst (table_summary 0)))))) = unbalanced_names /\
  (90 <=? List.length (filter (fires 0) table_rules))%nat = true /\
  (30 <=? List.length (filter (fun r => fires 0 r && rp_valid (report_of 0 r)) table_rules))%nat = true.
Proof. Time vm_compute. repeat split; reflexivity. Qed.

Lemma sweep_at v r : In v variants -> In r table_rules -> h_balanced_b v r = true /\ rhs_clean_b v r = true.
Proof.
  intros Hv Hr. pose proof table_sweep_b as H. rewrite forallb_forall in H. specialize (H v Hv). cbn beta in H.
  rewrite forallb_forall in H. specialize (H r Hr). cbn beta in H. apply andb_true_iff in H. exact H.
Qed.

(* (2) hydrogen balance of standardize(): for every rule and every variant, if the rule matches its (valence-valid)
   instantiation then the four-pass sequence completes and the total hydrogen count is unchanged, or the rule is one of
   the four listed ones and the change is the listed amount *)
Theorem table_h_balance v r : In v variants -> In r table_rules ->
  let rp := report_of v r in
  fires v r = true -> rp_valid rp = true ->
  rp_ok rp = true /\ (rp_dh rp = 0 \/ In (r_name r, rp_dh rp) h_exceptions) /\
  (rp_valid_after rp = true \/ In (r_name r) invalid_after_exceptions).
Proof.
  intros Hv Hr rp Hf Hval. destruct (sweep_at v r Hv Hr) as [H _]. unfold h_balanced_b in H. fold rp in H.
  rewrite Hf, Hval in H. cbn [negb orb] in H. rewrite !andb_true_iff in H. destruct H as [[[Hok Hdh] Hva] _].
  split; [exact Hok|]. split.
  - apply orb_true_iff in Hdh. destruct Hdh as [Hz | Hex]; [left; apply Z.eqb_eq; exact Hz|right].
    rewrite existsb_exists in Hex. destruct Hex as [[nm d] [Hin He]]. cbn [fst snd] in He.
    apply andb_true_iff in He. destruct He as [He1 He2]. apply String.eqb_eq in He1. apply Z.eqb_eq in He2. subst. exact Hin.
  - apply orb_true_iff in Hva. destruct Hva as [Hv1 | Hv2]; [left; exact Hv1|right].
    unfold smem in Hv2. rewrite existsb_exists in Hv2. destruct Hv2 as [x [Hx He]]. apply String.eqb_eq in He. subst. exact Hx.
Qed.

Lemma lhs_hits_nil g : lhs_hits g = [] -> forall stage ridx r, In r table_rules -> bf_matches stage ridx r g = [].
Proof.
  unfold lhs_hits. intros H stage ridx r Hr. apply map_eq_nil in H.
  destruct (bf_matches 0 0 r g) eqn:E; [exact E|]. exfalso.
  assert (Hin : In r (filter (fun r0 => match bf_matches 0 0 r0 g with [] => false | _ => true end) table_rules)).
  { apply filter_In. split; [exact Hr|]. rewrite E. reflexivity. }
  rewrite H in Hin. destruct Hin.
Qed.

(* (3) idempotence: for every rule that matches its instantiation, the result of standardize()'s pass sequence is matched by
   no left-hand side -- and then a second run of the sequence is the identity with an empty log --, or the rule is one of
   the two listed tautomer rules whose result the listed left-hand side matches again *)
Theorem table_rhs_matches_no_lhs v r : In v variants -> In r table_rules -> fires v r = true ->
  (exists g1 log fixed, bf_passes (vinstantiate v r) = Ok (g1, log, fixed) /\ lhs_hits g1 = [] /\ bf_passes g1 = Ok (g1, [], [])) \/
  In (r_name r, rp_lhs_after (report_of v r)) lhs_exceptions.
Proof.
  intros Hv Hr Hf. destruct (sweep_at v r Hv Hr) as [Hb Hc]. unfold rhs_clean_b in Hc. rewrite Hf in Hc. cbn [negb orb] in Hc.
  unfold h_balanced_b in Hb. rewrite Hf in Hb. cbn [negb orb] in Hb. rewrite !andb_true_iff in Hb. destruct Hb as [[[Hok _] _] _].
  unfold fires in Hf. unfold report_of in *.
  destruct (List.length (bf_matches 0 0 r (vinstantiate v r))) eqn:En; [cbn in Hf; discriminate|].
  destruct (bf_passes (vinstantiate v r)) as [[[g1 log] fixed]|] eqn:Ep; [|cbn in Hok; discriminate].
  cbn [rp_lhs_after] in *. destruct (lhs_hits g1) as [|x l] eqn:El.
  - left. exists g1, log, fixed. split; [reflexivity|]. split; [exact El|].
    unfold bf_passes. apply passes_fixpoint. intros stage ridx r' Hr'. exact (lhs_hits_nil g1 El stage ridx r' Hr').
  - right. rewrite existsb_exists in Hc. destruct Hc as [[nm l'] [Hin He]]. cbn [fst snd] in He.
    apply andb_true_iff in He. destruct He as [He1 He2]. apply String.eqb_eq in He1. subst nm.
    assert (l' = x :: l).
    { clear - He2. revert He2. generalize (x :: l). intros l0. revert l0. induction l' as [|a l' IH]; intros [|b l0]; cbn; try discriminate; [reflexivity|].
      intros H. apply andb_true_iff in H. destruct H as [H1 H2]. apply String.eqb_eq in H1. subst. f_equal. exact (IH _ H2). }
    subst l'. exact Hin.
Qed.
