(* C06 -- the round-by-round states compared by the check are the states of the model's _make_pid: the last one is its result *)
From Coq Require Import ZArith List Bool Lia.
From Model Require Import PyBase Graph Rings RingsFilter RingsGen RingsGenSpec.
Import ListNotations.
Open Scope Z_scope.

Theorem make_pid_rounds_last paths :
  make_pid_rounds paths (length (keys (fst (fst (fold_left pid_init_step (sort_paths paths) ([], [], [])))))) = make_pid paths.
Proof. unfold make_pid_rounds, make_pid. rewrite firstn_all. reflexivity. Qed.

Theorem make_pid_rounds_step paths r k :
  nth_error (keys (fst (fst (fold_left pid_init_step (sort_paths paths) ([], [], []))))) r = Some k ->
  make_pid_rounds paths (S r) =
  pid_k (keys (fst (fst (fold_left pid_init_step (sort_paths paths) ([], [], []))))) (make_pid_rounds paths r) k.
Proof.
  unfold make_pid_rounds. set (st := fold_left pid_init_step (sort_paths paths) ([], [], [])). set (ks := keys (fst (fst st))).
  intros H. assert (E : firstn (S r) ks = firstn r ks ++ [k]).
  { clear - H. revert r H. induction ks as [|x ks IH]; intros [|r] H; cbn in H; try discriminate.
    - inversion H; subst. reflexivity.
    - cbn [firstn app]. f_equal. apply IH. exact H. }
  rewrite E, fold_left_app. reflexivity.
Qed.
