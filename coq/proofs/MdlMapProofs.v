(* C11: atom numbers and bonds from the written file to the container: postprocess_parsed_molecule + the graph part of create_molecule
   applied to what the parsers return for a written molecule give back the atom numbers, in order, and the bonds between them. *)
From Coq Require Import ZArith List String Ascii Bool Lia.
From Model Require Import PyBase Mdl MdlMap.
From Proofs Require Import MdlProofs MdlV2000 MdlV3000.
Import ListNotations.
Open Scope Z_scope.
Local Notation length := List.length.
Local Notation concat := List.concat.

Lemma zmem_false x l : ~ In x l -> zmem x l = false.
Proof. intros H. destruct (zmem x l) eqn:E; [apply zmem_In in E; contradiction | reflexivity]. Qed.
Lemma zmem_true x l : In x l -> zmem x l = true.
Proof. apply zmem_In. Qed.

(* ---- postprocess_parsed_molecule ---- *)
Lemma pp_fold_written ig ms : forall s U O l, NoDup ms -> Forall (fun m => m <> 0) ms -> (forall x, In x ms -> ~ In x U) ->
  foldM (pp_step ig) (map Some ms) (mk_pp s U O l) = Ok (mk_pp s (rev ms ++ U) (O ++ ms) l).
Proof.
  induction ms as [|m ms IH]; intros s U O l Hnd Hnz HU; [cbn; rewrite app_nil_r; reflexivity|].
  inversion Hnd as [|? ? Hm Hnd']; subst. inversion Hnz as [|? ? Hz Hnz']; subst.
  cbn [map foldM]. unfold pp_step at 1. cbn [map_val pp_next pp_used pp_out pp_log].
  replace (m =? 0) with false by (symmetry; apply Z.eqb_neq; exact Hz).
  rewrite zmem_false by (apply HU; left; reflexivity). cbn [bind].
  rewrite IH; [| exact Hnd' | exact Hnz' |].
  - cbn [rev]. rewrite <- !app_assoc. reflexivity.
  - intros x Hx [E | Hin]; [subst x; contradiction | apply (HU x (or_intror Hx) Hin)].
Qed.
Lemma fold_max_ge l : forall v, v <= fold_left Z.max l v.
Proof. induction l as [|x l IH]; intros v; cbn [fold_left]; [lia|]. specialize (IH (Z.max v x)). lia. Qed.

(* mapping written (mapping=True): distinct non-zero numbers come back as the atom numbers, in order, and nothing is logged *)
Theorem pp_mapping_written ig ms : ms <> [] -> NoDup ms -> Forall (fun m => m <> 0) ms ->
  pp_mapping false ig (map Some ms) = Ok (ms, 0%nat).
Proof.
  intros Hne Hnd Hnz. unfold pp_mapping. rewrite map_map. cbn [map_val]. rewrite map_id.
  destruct ms as [|v r]; [contradiction|]. rewrite pp_fold_written by (try assumption; intros x _ H; exact H).
  cbn [bind pp_out pp_log app]. reflexivity.
Qed.

Lemma pp_fold_zero ig n : forall s U O l,
  foldM (pp_step ig) (repeat (Some 0) n) (mk_pp s U O l) = Ok (mk_pp (s + Z.of_nat n) U (O ++ zrange_from s n) l).
Proof.
  induction n as [|n IH]; intros s U O l; [cbn; rewrite Z.add_0_r, app_nil_r; reflexivity|].
  cbn [repeat foldM]. unfold pp_step at 1. cbn [map_val pp_next pp_used pp_out pp_log Z.eqb bind]. rewrite IH.
  cbn [zrange_from]. rewrite <- app_assoc. cbn [app]. f_equal. f_equal. lia.
Qed.
Lemma map_repeat' {A B} (f : A -> B) x n : map f (repeat x n) = repeat (f x) n.
Proof. induction n; [reflexivity|]. cbn [repeat map]. f_equal. exact IHn. Qed.
Lemma fold_max_zero n : fold_left Z.max (repeat 0 n) 0 = 0.
Proof. induction n; [reflexivity|]. cbn [repeat fold_left]. exact IHn. Qed.
(* no mapping in the file (mapping=False: every field 0): the atoms are numbered 1..n in file order *)
Theorem pp_mapping_unmapped ig n : pp_mapping false ig (repeat (Some 0) (S n)) = Ok (zrange_from 1 (S n), 0%nat).
Proof.
  unfold pp_mapping. rewrite map_repeat'. cbn [map_val]. change (repeat 0 (S n)) with (0 :: repeat 0 n). cbv iota. rewrite fold_max_zero.
  change (0 + 1) with 1. rewrite (pp_fold_zero ig (S n) 1 [] [] 0%nat). cbn [bind pp_out pp_log app]. reflexivity.
Qed.
Theorem pp_mapping_remap ig ms : pp_mapping true ig ms = Ok (zrange_from 1 (length ms), 0%nat).
Proof. reflexivity. Qed.

Lemma Forall2_len {A B} (R : A -> B -> Prop) l l' : Forall2 R l l' -> length l = length l'.
Proof. induction 1; cbn [length]; congruence. Qed.

(* ---- create_molecule, graph part ---- *)
Section Create.
  Variable X : Type.
  Variable mk : patom -> pyres X.

  Lemma dset_new d k (v : X) : ~ In k (map fst d) -> dset X d k v = d ++ [(k, v)].
  Proof.
    induction d as [|[k' v'] d IH]; intros H; [reflexivity|]. cbn [dset]. cbn [map fst] in H.
    destruct (k =? k') eqn:E; [apply Z.eqb_eq in E; subst; exfalso; apply H; left; reflexivity|].
    rewrite IH by (intros X0; apply H; right; exact X0). reflexivity.
  Qed.
  Lemma build_atoms_ok ns : forall atoms xs d, NoDup (map fst d ++ ns) -> Forall2 (fun a x => mk a = Ok x) atoms xs -> length ns = length atoms ->
    build_atoms X mk ns atoms d = Ok (d ++ combine ns xs).
  Proof.
    induction ns as [|n ns IH]; intros atoms xs d Hnd Hmk Hlen; destruct atoms as [|a atoms]; try discriminate.
    - inversion Hmk; subst. cbn. rewrite app_nil_r. reflexivity.
    - inversion Hmk as [|? x ? xs' Ha Hmk']; subst. cbn [build_atoms]. rewrite Ha. cbn [bind].
      assert (Hn : ~ In n (map fst d)). { apply NoDup_remove_2 in Hnd. intros H. apply Hnd. apply in_or_app. left. exact H. }
      rewrite dset_new by exact Hn. rewrite (IH atoms xs' (d ++ [(n, x)])); [| | exact Hmk' | cbn [length] in Hlen; lia].
      + rewrite <- app_assoc. reflexivity.
      + rewrite map_app. cbn [map fst]. rewrite <- app_assoc. exact Hnd.
  Qed.

  (* bonds given by atom NUMBERS; `simple acc B`: no loops, no pair bonded twice (also not with the bonds of acc) *)
  Fixpoint simple (acc B : list (Z * Z * Z)) : Prop :=
    match B with
    | [] => True
    | b :: r => fst (fst b) <> snd (fst b) /\ bonded acc (fst (fst b)) (snd (fst b)) = false /\ simple (acc ++ [b]) r
    end.
  Definition posZ (nums : list Z) (n : Z) : Z := match index_from n nums 1 with Some p => p | None => 0 end.
  Definition readdress (nums : list Z) (b : Z * Z * Z) : Z * Z * Z := (posZ nums (fst (fst b)) - 1, posZ nums (snd (fst b)) - 1, snd b).

  Lemma index_from_nth n l : forall s p, index_from n l s = Some p -> nth_error l (Z.to_nat (p - s)) = Some n /\ s <= p < s + Z.of_nat (length l).
  Proof.
    induction l as [|x l IH]; intros s p H; [discriminate|]. cbn [index_from] in H. destruct (n =? x) eqn:E.
    - apply Z.eqb_eq in E. inversion H; subst. rewrite Z.sub_diag. cbn [length]. split; [reflexivity | lia].
    - apply IH in H. destruct H as [H1 H2]. cbn [length]. split; [|lia].
      replace (Z.to_nat (p - s)) with (S (Z.to_nat (p - (s + 1)))) by lia. exact H1.
  Qed.
  Lemma py_index_pos nums n : In n nums -> py_index nums (posZ nums n - 1) = Ok n.
  Proof.
    intros Hin. unfold posZ. destruct (index_from_in n nums 1 Hin) as [p Hp]. rewrite Hp.
    destruct (index_from_nth n nums 1 p Hp) as [H1 H2]. unfold py_index.
    replace (p - 1 <? 0) with false by (symmetry; apply Z.ltb_ge; lia).
    replace ((p - 1 <? 0) || (Z.of_nat (length nums) <=? p - 1)) with false
      by (symmetry; apply orb_false_intro; [apply Z.ltb_ge; lia | apply Z.leb_gt; lia]).
    rewrite H1. reflexivity.
  Qed.

  Lemma bonds_ok nums d B : map fst d = nums -> forall acc,
    Forall (fun b => In (fst (fst b)) nums /\ In (snd (fst b)) nums) B -> simple acc B ->
    foldM (bond_step X nums d) (map (readdress nums) B) acc = Ok (acc ++ B).
  Proof.
    intros Hd. induction B as [|[[n m] o] B IH]; intros acc Hin Hs; [cbn; rewrite app_nil_r; reflexivity|].
    pose proof (Forall_inv Hin) as [Hn Hm]. pose proof (Forall_inv_tail Hin) as Hin'. destruct Hs as [Hne [Hb Hs']]. cbn [fst snd] in *.
    cbn [map foldM]. unfold bond_step at 1, readdress at 1. cbn [fst snd].
    rewrite (py_index_pos _ n Hn), (py_index_pos _ m Hm). cbn [bind].
    replace (n =? m) with false by (symmetry; apply Z.eqb_neq; exact Hne).
    rewrite Hd. rewrite !zmem_true by assumption. cbn [negb orb]. rewrite Hb. cbn [bind].
    rewrite IH by assumption. rewrite <- app_assoc. reflexivity.
  Qed.

  (* the graph part of create_molecule on atoms numbered `nums` and bonds written through their positions *)
  Theorem create_graph_written nums atoms xs B :
    NoDup nums -> length nums = length atoms -> Forall2 (fun a x => mk a = Ok x) atoms xs ->
    Forall (fun b => In (fst (fst b)) nums /\ In (snd (fst b)) nums) B -> simple [] B ->
    create_graph X mk nums atoms (map (readdress nums) B) = Ok (combine nums xs, B).
  Proof.
    intros Hnd Hlen Hmk Hin Hs. unfold create_graph.
    rewrite (build_atoms_ok nums atoms xs []) by (try assumption). cbn [bind app].
    assert (Hd : map fst (combine nums xs) = nums).
    { assert (L : length xs = length nums) by (apply Forall2_len in Hmk; lia). clear - L. revert xs L.
      induction nums as [|n nums IH]; intros [|x xs] L; try discriminate; [reflexivity|]. cbn [combine map fst]. f_equal. apply IH. cbn [length] in L. lia. }
    rewrite (bonds_ok nums _ B Hd [] Hin Hs). reflexivity.
  Qed.
End Create.

(* ------------------------------------------------------------------------------------------------ *)
(** * from the written file to the container's graph *)

(* the bonds as the writers list them (wedge bonds first), with the atom NUMBERS of their ends *)
Definition written_bonds (g : wmol) : list (Z * Z * Z) :=
  map (fun w => (fst (fst w), snd (fst w), ord (wm_bonds g) (fst (fst w)) (snd (fst w)))) (wm_wedge g) ++ plain_bonds g.

Lemma expected_bonds_readdress g :
  map (exp_wedge_bond (wm_atoms g) (wm_bonds g)) (wm_wedge g) ++ map (exp_plain_bond (wm_atoms g)) (plain_bonds g) =
  map (readdress (map wa_num (wm_atoms g))) (written_bonds g).
Proof.
  unfold written_bonds. rewrite map_app, map_map. f_equal; apply map_ext; intros [[n m] o]; reflexivity.
Qed.
Lemma map2_length {A B C} (f : A -> B -> C) l m : length l = length m -> length (map2 f l m) = length l.
Proof. revert m. induction l as [|a l IH]; intros [|b m] H; try discriminate; [reflexivity|]. cbn [map2 length]. f_equal. apply IH. cbn [length] in H. lia. Qed.
Lemma expected_maps atoms fs : length atoms = length fs -> map pa_map (map2 (expected_atom true) atoms fs) = map wa_num atoms.
Proof. revert fs. induction atoms as [|a atoms IH]; intros [|f fs] H; try discriminate; [reflexivity|]. cbn [map2 map]. f_equal. apply IH. cbn [length] in H. lia. Qed.

Lemma written_bonds_in g : Forall (bond_ok (wm_atoms g)) (wm_bonds g) -> Forall (wedge_ok (wm_atoms g) (wm_bonds g)) (wm_wedge g) ->
  Forall (fun b => In (fst (fst b)) (map wa_num (wm_atoms g)) /\ In (snd (fst b)) (map wa_num (wm_atoms g))) (written_bonds g).
Proof.
  intros Hb Hw. unfold written_bonds. apply Forall_app. split.
  - apply Forall_map. eapply Forall_impl; [|exact Hw]. intros w [H1 [H2 _]]. cbn [fst snd]. split; assumption.
  - unfold plain_bonds. rewrite Forall_forall in *. intros b Hin. apply filter_In in Hin. destruct (Hb b (proj1 Hin)) as [H1 [H2 _]]. split; assumption.
Qed.

Section Graph.
  Variable X : Type.
  Variable mk : patom -> pyres X.

  (* shared tail of the two theorems: from the expected parse result to the graph *)
  Lemma read_graph_expected ig g fs xs title stereo log :
    wm_atoms g <> [] -> length (wm_atoms g) = length fs -> NoDup (map wa_num (wm_atoms g)) -> Forall (fun a => wa_num a <> 0) (wm_atoms g) ->
    Forall (bond_ok (wm_atoms g)) (wm_bonds g) -> Forall (wedge_ok (wm_atoms g) (wm_bonds g)) (wm_wedge g) ->
    simple [] (written_bonds g) ->
    Forall2 (fun p x => mk p = Ok x) (map2 (expected_atom true) (wm_atoms g) fs) xs ->
    read_graph mk false ig (mk_parsed title (map2 (expected_atom true) (wm_atoms g) fs)
        (map (exp_wedge_bond (wm_atoms g) (wm_bonds g)) (wm_wedge g) ++ map (exp_plain_bond (wm_atoms g)) (plain_bonds g)) stereo log) =
    Ok (combine (map wa_num (wm_atoms g)) xs, written_bonds g).
  Proof.
    intros Hne Hlen Hnd Hnz Hb Hw Hs Hmk. unfold read_graph. cbn [p_atoms p_bonds].
    rewrite <- (map_map pa_map Some), (expected_maps _ _ Hlen).
    rewrite pp_mapping_written; [| destruct (wm_atoms g); [contradiction | discriminate] | exact Hnd |].
    2:{ apply Forall_map. exact Hnz. }
    cbn [bind fst]. rewrite expected_bonds_readdress.
    apply create_graph_written; try assumption.
    - rewrite map_length, map2_length by exact Hlen. reflexivity.
    - apply written_bonds_in; assumption.
  Qed.

  (* what SDFWrite / RDFWrite (V2000) wrote -> parse -> postprocess -> create: the container has the atoms under their ORIGINAL numbers,
     in the original order, built from the expected field values, and exactly the written bonds between the original numbers *)
  Theorem molecule_graph_roundtrip_v2000 ig g fs xs :
    Forall2 wf_atom (wm_atoms g) fs -> wm_atoms g <> [] -> (length (wm_atoms g) <= 999)%nat -> (length (wm_bonds g) <= 999)%nat ->
    NoDup (map wa_num (wm_atoms g)) -> Forall (bond_ok (wm_atoms g)) (wm_bonds g) -> Forall (wedge_ok (wm_atoms g) (wm_bonds g)) (wm_wedge g) ->
    (length (wm_wedge g) + length (plain_bonds g) = length (wm_bonds g))%nat ->
    Forall (fun a => wa_num a <> 0) (wm_atoms g) -> simple [] (written_bonds g) ->
    Forall2 (fun p x => mk p = Ok x) (map2 (expected_atom true) (wm_atoms g) fs) xs ->
    exists lines, write_mol_v2000 true g = Ok lines /\
      (do p <- parse_mol_v2000 (map add_nl lines); read_graph mk false ig p) = Ok (combine (map wa_num (wm_atoms g)) xs, written_bonds g).
  Proof.
    intros H1 H2 H3 H4 H5 H6 H7 H8 Hnz Hs Hmk.
    destruct (v2000_fields_roundtrip true g fs H1 H2 H3 H4 H5 H6 H7 H8) as [lines [Hw Hp]].
    exists lines. split; [exact Hw|]. rewrite Hp. cbn [bind].
    apply read_graph_expected; try assumption. apply (Forall2_len _ _ _ H1).
  Qed.
  Theorem molecule_graph_roundtrip_v3000 ig g fs xs :
    Forall2 wf3_atom (wm_atoms g) fs -> wm_atoms g <> [] -> NoDup (map wa_num (wm_atoms g)) ->
    Forall (bond_ok (wm_atoms g)) (wm_bonds g) -> Forall (wedge_ok (wm_atoms g) (wm_bonds g)) (wm_wedge g) ->
    (length (wm_wedge g) + length (plain_bonds g) = length (wm_bonds g))%nat ->
    Forall (fun a => wa_num a <> 0) (wm_atoms g) -> simple [] (written_bonds g) ->
    Forall2 (fun p x => mk p = Ok x) (map2 (expected_atom true) (wm_atoms g) fs) xs ->
    exists lines, write_mol_v3000 true g = Ok lines /\
      (do p <- parse_mol_v3000 (map add_nl lines); read_graph mk false ig (p3 p)) = Ok (combine (map wa_num (wm_atoms g)) xs, written_bonds g).
  Proof.
    intros H1 H2 H3 H4 H5 H6 Hnz Hs Hmk.
    destruct (v3000_fields_roundtrip true g fs H1 H2 H3 H4 H5 H6) as [lines [Hw Hp]].
    exists lines. split; [exact Hw|]. rewrite Hp. cbn [bind p3].
    apply read_graph_expected; try assumption. apply (Forall2_len _ _ _ H1).
  Qed.
End Graph.

(* non-vacuity: the example molecule of MdlV2000 (numbers 7, 3, 12; wedge 7-3; bonds 3-7 order 1, 12-3 order 8), atom objects = the parsed atoms *)
Example graph_roundtrip_example :
  Forall (fun a => wa_num a <> 0) (wm_atoms ex_mol) /\ simple [] (written_bonds ex_mol) /\
  exists lines, write_mol_v2000 true ex_mol = Ok lines /\
    option_map (fun r => (map fst (fst r), snd r))
      (match (do p <- parse_mol_v2000 (map add_nl lines); read_graph (fun a => Ok a) false true p) with Ok r => Some r | Err _ => None end) =
    Some ([7; 3; 12], [(7, 3, 1); (12, 3, 8)]).
Proof.
  split; [repeat constructor; discriminate|]. split; [cbn; repeat split; discriminate|].
  eexists. split; [vm_compute; reflexivity|]. vm_compute. reflexivity.
Qed.
