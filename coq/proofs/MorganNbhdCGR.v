(* C17 extension 2 for CGR containers: the neighbourhood characterisation of the Morgan identifier for an ARBITRARY
   identifier dictionary (generic), and its instance for Model.FingerprintCGR. *)
From Coq Require Import ZArith List Bool Lia Permutation.
From Model Require Import PyBase Graph PyHash Fingerprint FingerprintCGR.
From Proofs Require Import FingerprintProofs FingerprintCGRProofs MorganNbhd.
Import ListNotations.
Open Scope Z_scope.

Definition nbhd_iso_with (idd idd' : list (Z * Z)) (g g' : mol) (f : Z -> Z) (a : Z) (r : nat) : Prop :=
  In a (ids g) /\ In (f a) (ids g') /\
  (forall k x, (k <= r)%nat -> within g a k x -> ident idd x = ident idd' (f x)) /\
  (forall k x, (k < r)%nat -> within g a k x ->
     Permutation (map (fun it => (f (fst it), snd it)) (nb_items g x)) (nb_items g' (f x))).

Section NbhdWith.
  Variable h : list Z -> Z.
  Variables g g' : mol.
  Variables idd idd' : list (Z * Z).
  Variable f : Z -> Z.
  Hypothesis Hwf : wf_mol g = true.
  Hypothesis Hwf' : wf_mol g' = true.
  Hypothesis Hk : keys idd = ids g.
  Hypothesis Hk' : keys idd' = ids g'.
  Let lev (r : nat) := Nat.iter r (morgan_step h g) idd.
  Let lev' (r : nat) := Nat.iter r (morgan_step h g') idd'.

  Lemma neighbourhood_invariant_with_aux a r : nbhd_iso_with idd idd' g g' f a r ->
    forall r' j x, (j + r' <= r)%nat -> within g a j x ->
      In (f x) (ids g') /\ ident (lev r') x = ident (lev' r') (f x).
  Proof.
    intros (Ha & Hfa & Hlab & Hnb).
    assert (Hin' : forall j x, (j <= r)%nat -> within g a j x -> In (f x) (ids g')).
    { induction j as [|j IH]; intros x Hj Hw.
      - inversion Hw; subst. exact Hfa.
      - destruct (within_inv _ _ _ _ Hw) as [Hw'|[y [Hw' He]]]; [apply IH; [lia | exact Hw']|].
        assert (Hjr : (j < r)%nat) by lia. pose proof (Hnb j y Hjr Hw') as HP.
        unfold edge, nbr_ids, keys in He. apply in_map_iff in He. destruct He as [nb [E Hn]]. subst x.
        assert (Hi : In (f (fst nb), b_ord (snd nb)) (nb_items g' (f y))).
        { apply (Permutation_in _ HP). unfold nb_items. rewrite map_map. cbn [fst snd].
          apply (in_map (fun nb0 : Z * bond => (f (fst nb0), b_ord (snd nb0)))). exact Hn. }
        apply (nb_items_edge g') in Hi. destruct (wf_mol_sym_closed g' Hwf') as (_ & _ & Hc). exact (Hc _ _ Hi). }
    induction r' as [|r' IH]; intros j x Hj Hw.
    - split; [apply (Hin' j); [lia | exact Hw]|]. apply (Hlab j); [lia | exact Hw].
    - assert (Hfx : In (f x) (ids g')) by (apply (Hin' j); [lia | exact Hw]).
      split; [exact Hfx|]. unfold lev, lev'.
      rewrite (morgan_iter_value h idd g r' x), (morgan_iter_value h idd' g' r' (f x));
        [| rewrite Hk'; exact Hfx | rewrite Hk; exact (within_ids g a j x Hwf Ha Hw)].
      destruct (IH j x ltac:(lia) Hw) as [_ E0]. unfold lev, lev' in E0. rewrite E0. do 3 f_equal.
      apply sort_pairs_order_free. apply (level_pairs_perm g g' f).
      + apply (Hnb j); [lia | exact Hw].
      + intros nb Hn. apply (IH (S j) (fst nb)); [lia|].
        apply (within_step g a j x); [exact Hw|]. unfold edge, nbr_ids, keys. apply in_map. exact Hn.
  Qed.

  Theorem morgan_iter_neighbourhood_invariant a r : nbhd_iso_with idd idd' g g' f a r ->
    ident (lev r) a = ident (lev' r) (f a).
  Proof. intro H. apply (neighbourhood_invariant_with_aux a r H r 0%nat a); [lia | constructor]. Qed.
End NbhdWith.

(* ---- CGR containers: `nbhd_iso_with` over the CGR identifiers and the skeleton (bond number int(DynamicBond)) ---- *)
Definition cgr_nbhd_iso (c c' : cgr) (f : Z -> Z) (a : Z) (r : nat) : Prop :=
  nbhd_iso_with (cgr_atom_identifiers c) (cgr_atom_identifiers c') (cgr_skeleton c) (cgr_skeleton c') f a r.

Theorem cgr_morgan_level_neighbourhood_invariant (h : list Z -> Z) c c' (f : Z -> Z) a r :
  wf_cgr c = true -> wf_cgr c' = true -> cgr_nbhd_iso c c' f a r ->
  ident (cgr_morgan_level h c r) a = ident (cgr_morgan_level h c' r) (f a).
Proof.
  intros Hwf Hwf' H. unfold cgr_morgan_level.
  apply (morgan_iter_neighbourhood_invariant h (cgr_skeleton c) (cgr_skeleton c') _ _ f Hwf Hwf'
           (cgr_identifier_keys c) (cgr_identifier_keys c') a r H).
Qed.

(* non-vacuity: in the CGR acetic acid > acetate the map 1 -> 1, 2 -> 2 of ex_cgr onto its reordered copy ex_cgr2 *)
Lemma example_cgr_nbhd :
  cgr_nbhd_iso ex_cgr ex_cgr2 (fun x => x) 1 1 /\
  (forall h : list Z -> Z, ident (cgr_morgan_level h ex_cgr 1) 1 = ident (cgr_morgan_level h ex_cgr2 1) 1).
Proof.
  assert (Hw : wf_cgr ex_cgr = true) by (vm_compute; reflexivity).
  assert (Hw2 : wf_cgr ex_cgr2 = true) by (vm_compute; reflexivity).
  assert (H : cgr_nbhd_iso ex_cgr ex_cgr2 (fun x => x) 1 1).
  { split; [vm_compute; tauto|]. split; [vm_compute; tauto|]. split.
    - intros k x Hk Hx. assert (Hx1 : within (cgr_skeleton ex_cgr) 1 1 x) by (apply (within_le _ _ k); [exact Hk | exact Hx]).
      destruct (within_inv _ _ _ _ Hx1) as [H0|[y [H0 Hy]]]; inversion H0; subst.
      + vm_compute. reflexivity.
      + vm_compute in Hy. destruct Hy as [<-|[]]. vm_compute. reflexivity.
    - intros k x Hk Hx. assert (k = 0%nat) by lia. subst k. inversion Hx; subst. vm_compute. apply Permutation_refl. }
  split; [exact H|]. intro h. apply (cgr_morgan_level_neighbourhood_invariant h ex_cgr ex_cgr2 (fun x => x) 1 1 Hw Hw2 H).
Qed.
