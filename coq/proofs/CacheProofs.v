(* C13 -- proofs about the cache / transaction / copy state machine of Model.Cache. *)
From Coq Require Import ZArith List Bool Lia.
From Model Require Import PyBase Cache.
Import ListNotations.
Open Scope Z_scope.

Lemma NoDup_snoc {A} (l : list A) x : NoDup l -> ~ In x l -> NoDup (l ++ [x]).
Proof.
  induction l as [|y r IH]; cbn; intros N H.
  - constructor; [tauto | constructor].
  - inversion N; subst. constructor.
    + rewrite in_app_iff. cbn. intros [E|[E|[]]]; [contradiction | subst; tauto].
    + apply IH; tauto.
Qed.

(* ================================================================================================ *)
(* association lists *)
Section Dict.
Context {V : Type}.
Implicit Types (d : list (Z * V)) (k : Z) (v : V).

Lemma zget_In_keys d k v : zget d k = Some v -> In k (keys d).
Proof.
  induction d as [|[k' v'] r IH]; cbn; [discriminate|].
  destruct (Z.eqb_spec k k'); intros H; [left; congruence | right; auto].
Qed.
Lemma zget_None_keys d k : zget d k = None <-> ~ In k (keys d).
Proof.
  induction d as [|[k' v'] r IH]; cbn; [tauto|].
  destruct (Z.eqb_spec k k'); split; intros H; try discriminate.
  - exfalso. apply H. left. congruence.
  - intros [E|E]; [congruence | now apply IH in H].
  - apply IH. tauto.
Qed.
Lemma keys_In_zget d k : In k (keys d) -> exists v, zget d k = Some v.
Proof.
  intros H. destruct (zget d k) eqn:E; [eauto|]. apply zget_None_keys in E. contradiction.
Qed.
Lemma zget_In d k v : zget d k = Some v -> In (k, v) d.
Proof.
  induction d as [|[k' v'] r IH]; cbn; [discriminate|].
  destruct (Z.eqb_spec k k'); intros H; [left; congruence | right; auto].
Qed.
Lemma In_zget_nodup d k v : NoDup (keys d) -> In (k, v) d -> zget d k = Some v.
Proof.
  induction d as [|[k' v'] r IH]; cbn; [tauto|]. intros N [E|E].
  - inversion E; subst. now rewrite Z.eqb_refl.
  - inversion N; subst. destruct (Z.eqb_spec k k'); [|auto].
    subst. exfalso. apply H1. change k' with (fst (k', v)). now apply in_map.
Qed.

Lemma zget_zset d k v k' : zget (zset d k v) k' = if k' =? k then Some v else zget d k'.
Proof.
  induction d as [|[k0 v0] r IH]; cbn.
  - destruct (Z.eqb_spec k' k); reflexivity.
  - destruct (Z.eqb_spec k k0); cbn.
    + subst. destruct (Z.eqb_spec k' k0); reflexivity.
    + rewrite IH. destruct (Z.eqb_spec k' k0); [|reflexivity].
      subst. destruct (Z.eqb_spec k0 k); [congruence | reflexivity].
Qed.
Lemma keys_zset_in d k v : In k (keys d) -> keys (zset d k v) = keys d.
Proof.
  induction d as [|[k0 v0] r IH]; cbn; [tauto|].
  destruct (Z.eqb_spec k k0); cbn; intros H.
  - now subst.
  - f_equal. apply IH. destruct H; [congruence | assumption].
Qed.
Lemma keys_zset_notin d k v : ~ In k (keys d) -> keys (zset d k v) = keys d ++ [k].
Proof.
  induction d as [|[k0 v0] r IH]; cbn; [reflexivity|].
  destruct (Z.eqb_spec k k0); cbn; intros H.
  - exfalso. apply H. left. congruence.
  - f_equal. apply IH. tauto.
Qed.
Lemma In_keys_zset d k v x : In x (keys (zset d k v)) <-> x = k \/ In x (keys d).
Proof.
  split.
  - intros H. apply keys_In_zget in H. destruct H as [w H]. rewrite zget_zset in H.
    destruct (Z.eqb_spec x k); [now left | right; eapply zget_In_keys; eauto].
  - intros H. assert (exists w, zget (zset d k v) x = Some w) as [w Hw].
    { rewrite zget_zset. destruct (Z.eqb_spec x k); [eauto|]. destruct H; [contradiction|]. now apply keys_In_zget. }
    eapply zget_In_keys; eauto.
Qed.
Lemma NoDup_keys_zset d k v : NoDup (keys d) -> NoDup (keys (zset d k v)).
Proof.
  intros N. destruct (in_dec Z.eq_dec k (keys d)).
  - now rewrite keys_zset_in.
  - rewrite keys_zset_notin by assumption. apply NoDup_snoc; assumption.
Qed.

Lemma zget_zdel d k k' : zget (zdel d k) k' = if k' =? k then None else zget d k'.
Proof.
  unfold zdel. induction d as [|[k0 v0] r IH]; cbn.
  - now destruct (k' =? k).
  - destruct (Z.eqb_spec k0 k); cbn.
    + subst. rewrite IH. destruct (Z.eqb_spec k' k); [reflexivity|]. destruct (Z.eqb_spec k' k); [congruence|]. reflexivity.
    + rewrite IH. destruct (Z.eqb_spec k' k0); [|reflexivity]. subst. destruct (Z.eqb_spec k0 k); [congruence | reflexivity].
Qed.
Lemma keys_zdel d k : keys (zdel d k) = filter (fun x => negb (x =? k)) (keys d).
Proof.
  unfold zdel, keys. induction d as [|[k0 v0] r IH]; cbn; [reflexivity|].
  destruct (k0 =? k); cbn; now rewrite IH.
Qed.
Lemma NoDup_keys_zdel d k : NoDup (keys d) -> NoDup (keys (zdel d k)).
Proof. intros N. rewrite keys_zdel. now apply NoDup_filter. Qed.
Lemma In_keys_zdel d k x : In x (keys (zdel d k)) <-> x <> k /\ In x (keys d).
Proof.
  rewrite keys_zdel, filter_In. destruct (Z.eqb_spec x k); cbn; intuition congruence.
Qed.
End Dict.

(* ================================================================================================ *)
(* well-formedness of one molecule in a heap *)
Definition aslot (adj : adjacency) (n m : Z) : option ref :=
  match zget adj n with Some r => zget r m | None => None end.
Lemma slot_of_aslot o n m : slot_of o n m = aslot (o_adj o) n m.
Proof. unfold slot_of, row, aslot. now destruct (zget (o_adj o) n). Qed.

Record wfa (h : hp) (atoms : list (Z * acell)) (adj : adjacency) : Prop := mkWfa {
  wf_keys : keys adj = keys atoms;
  wf_nodup : NoDup (keys atoms);
  wf_sym : forall n m r, aslot adj n m = Some r -> aslot adj m n = Some r;
  wf_loop : forall n, aslot adj n n = None;
  wf_rows : forall n r, zget adj n = Some r -> NoDup (keys r);
  wf_refs : forall n m r, aslot adj n m = Some r -> exists c, hget h r = Some c;
  wf_inj : forall n m n' m' r, aslot adj n m = Some r -> aslot adj n' m' = Some r -> (n' = n /\ m' = m) \/ (n' = m /\ m' = n)
}.
Definition wf (h : hp) (o : mobj) : Prop := wfa h (o_atoms o) (o_adj o).
Definition heap_ok (h : hp) : Prop := forall r c, hget h r = Some c -> r < h_next h.

Lemma aslot_row adj n m r : aslot adj n m = Some r -> exists rw, zget adj n = Some rw /\ zget rw m = Some r.
Proof. unfold aslot. destruct (zget adj n); [eauto | discriminate]. Qed.
Lemma aslot_key_l adj n m r : aslot adj n m = Some r -> In n (keys adj).
Proof. intros H. apply aslot_row in H. destruct H as [rw [H _]]. eapply zget_In_keys; eauto. Qed.
Lemma wfa_nbr_atom h atoms adj n m r : wfa h atoms adj -> aslot adj n m = Some r -> In m (keys atoms).
Proof. intros W H. rewrite <- (wf_keys _ _ _ W). eapply aslot_key_l. eapply wf_sym; eauto. Qed.
Lemma wfa_self_atom h atoms adj n m r : wfa h atoms adj -> aslot adj n m = Some r -> In n (keys atoms).
Proof. intros W H. rewrite <- (wf_keys _ _ _ W). eapply aslot_key_l; eauto. Qed.
Lemma wfa_neq h atoms adj n m r : wfa h atoms adj -> aslot adj n m = Some r -> n <> m.
Proof. intros W H E. subst. rewrite (wf_loop _ _ _ W) in H. discriminate. Qed.
Lemma In_row_aslot adj n rw m r : NoDup (keys rw) -> zget adj n = Some rw -> In (m, r) rw -> aslot adj n m = Some r.
Proof. intros N H I. unfold aslot. rewrite H. now apply In_zget_nodup. Qed.

(* heap primitives *)
Lemma hget_halloc h c r : hget (fst (halloc h c)) r = if r =? h_next h then Some c else hget h r.
Proof. unfold halloc, hget; cbn. reflexivity. Qed.
Lemma hnext_halloc h c : h_next (fst (halloc h c)) = h_next h + 1.
Proof. reflexivity. Qed.
Lemma hget_hset h r c r' : hget (hset h r c) r' = if r' =? r then Some c else hget h r'.
Proof. unfold hset, hget; cbn. apply zget_zset. Qed.
Lemma heap_ok_halloc h c : heap_ok h -> heap_ok (fst (halloc h c)).
Proof.
  intros H r c'. rewrite hget_halloc, hnext_halloc. destruct (Z.eqb_spec r (h_next h)); intros E; [lia|].
  apply H in E. lia.
Qed.
Lemma heap_ok_hset h r c c0 : heap_ok h -> hget h r = Some c0 -> heap_ok (hset h r c).
Proof.
  intros H H0 r' c'. rewrite hget_hset. cbn. destruct (Z.eqb_spec r' r); intros E.
  - subst. now apply H in H0.
  - now apply H in E.
Qed.
Lemma halloc_fresh h c r c0 : heap_ok h -> hget h r = Some c0 -> r <> h_next h.
Proof. intros H E. apply H in E. lia. Qed.
