(* C13 -- proofs about the cache / transaction / copy state machine of Model.Cache. *)
From Coq Require Import ZArith List Bool Lia.
From Model Require Import PyBase Cache.
Import ListNotations.
Open Scope Z_scope.

Lemma NoDup_snoc {A} (l : list A) x : NoDup l -> ~ In x l -> NoDup (l ++ [x]).
Proof.
  induction l as [|y r IH]; cbn; intros N H.
  - constructor; [tauto | constructor].
  - inversion N; subst. constructor.
    + rewrite in_app_iff. cbn. intros [E|[E|[]]]; [contradiction | subst; tauto].
    + apply IH; tauto.
Qed.

(* ================================================================================================ *)
(* association lists *)
Section Dict.
Context {V : Type}.
Implicit Types (d : list (Z * V)) (k : Z) (v : V).

Lemma zget_In_keys d k v : zget d k = Some v -> In k (keys d).
Proof.
  induction d as [|[k' v'] r IH]; cbn; [discriminate|].
  destruct (Z.eqb_spec k k'); intros H; [left; congruence | right; auto].
Qed.
Lemma zget_None_keys d k : zget d k = None <-> ~ In k (keys d).
Proof.
  induction d as [|[k' v'] r IH]; cbn; [tauto|].
  destruct (Z.eqb_spec k k'); split; intros H; try discriminate.
  - exfalso. apply H. left. congruence.
  - intros [E|E]; [congruence | now apply IH in H].
  - apply IH. tauto.
Qed.
Lemma keys_In_zget d k : In k (keys d) -> exists v, zget d k = Some v.
Proof.
  intros H. destruct (zget d k) eqn:E; [eauto|]. apply zget_None_keys in E. contradiction.
Qed.
Lemma zget_In d k v : zget d k = Some v -> In (k, v) d.
Proof.
  induction d as [|[k' v'] r IH]; cbn; [discriminate|].
  destruct (Z.eqb_spec k k'); intros H; [left; congruence | right; auto].
Qed.
Lemma In_zget_nodup d k v : NoDup (keys d) -> In (k, v) d -> zget d k = Some v.
Proof.
  induction d as [|[k' v'] r IH]; cbn; [tauto|]. intros N [E|E].
  - inversion E; subst. now rewrite Z.eqb_refl.
  - inversion N; subst. destruct (Z.eqb_spec k k'); [|auto].
    subst. exfalso. apply H1. change k' with (fst (k', v)). now apply in_map.
Qed.

Lemma zget_zset d k v k' : zget (zset d k v) k' = if k' =? k then Some v else zget d k'.
Proof.
  induction d as [|[k0 v0] r IH]; cbn.
  - destruct (Z.eqb_spec k' k); reflexivity.
  - destruct (Z.eqb_spec k k0); cbn.
    + subst. destruct (Z.eqb_spec k' k0); reflexivity.
    + rewrite IH. destruct (Z.eqb_spec k' k0); [|reflexivity].
      subst. destruct (Z.eqb_spec k0 k); [congruence | reflexivity].
Qed.
Lemma keys_zset_in d k v : In k (keys d) -> keys (zset d k v) = keys d.
Proof.
  induction d as [|[k0 v0] r IH]; cbn; [tauto|].
  destruct (Z.eqb_spec k k0); cbn; intros H.
  - now subst.
  - f_equal. apply IH. destruct H; [congruence | assumption].
Qed.
Lemma keys_zset_notin d k v : ~ In k (keys d) -> keys (zset d k v) = keys d ++ [k].
Proof.
  induction d as [|[k0 v0] r IH]; cbn; [reflexivity|].
  destruct (Z.eqb_spec k k0); cbn; intros H.
  - exfalso. apply H. left. congruence.
  - f_equal. apply IH. tauto.
Qed.
Lemma In_keys_zset d k v x : In x (keys (zset d k v)) <-> x = k \/ In x (keys d).
Proof.
  split.
  - intros H. apply keys_In_zget in H. destruct H as [w H]. rewrite zget_zset in H.
    destruct (Z.eqb_spec x k); [now left | right; eapply zget_In_keys; eauto].
  - intros H. assert (exists w, zget (zset d k v) x = Some w) as [w Hw].
    { rewrite zget_zset. destruct (Z.eqb_spec x k); [eauto|]. destruct H; [contradiction|]. now apply keys_In_zget. }
    eapply zget_In_keys; eauto.
Qed.
Lemma NoDup_keys_zset d k v : NoDup (keys d) -> NoDup (keys (zset d k v)).
Proof.
  intros N. destruct (in_dec Z.eq_dec k (keys d)).
  - now rewrite keys_zset_in.
  - rewrite keys_zset_notin by assumption. apply NoDup_snoc; assumption.
Qed.

Lemma zget_zdel d k k' : zget (zdel d k) k' = if k' =? k then None else zget d k'.
Proof.
  unfold zdel. induction d as [|[k0 v0] r IH]; cbn.
  - now destruct (k' =? k).
  - destruct (Z.eqb_spec k0 k); cbn.
    + subst. rewrite IH. destruct (Z.eqb_spec k' k); [reflexivity|]. destruct (Z.eqb_spec k' k); [congruence|]. reflexivity.
    + rewrite IH. destruct (Z.eqb_spec k' k0); [|reflexivity]. subst. destruct (Z.eqb_spec k0 k); [congruence | reflexivity].
Qed.
Lemma keys_zdel d k : keys (zdel d k) = filter (fun x => negb (x =? k)) (keys d).
Proof.
  unfold zdel, keys. induction d as [|[k0 v0] r IH]; cbn; [reflexivity|].
  destruct (k0 =? k); cbn; now rewrite IH.
Qed.
Lemma NoDup_keys_zdel d k : NoDup (keys d) -> NoDup (keys (zdel d k)).
Proof. intros N. rewrite keys_zdel. now apply NoDup_filter. Qed.
Lemma In_keys_zdel d k x : In x (keys (zdel d k)) <-> x <> k /\ In x (keys d).
Proof.
  rewrite keys_zdel, filter_In. destruct (Z.eqb_spec x k); cbn; intuition congruence.
Qed.
End Dict.

Lemma zget_app {V} (a b : list (Z * V)) k : zget (a ++ b) k = match zget a k with Some v => Some v | None => zget b k end.
Proof. induction a as [|[k' v'] r IH]; cbn; [reflexivity|]. destruct (k =? k'); [reflexivity | apply IH]. Qed.
Lemma zset_notin_app {V} (d : list (Z * V)) k v : ~ In k (keys d) -> zset d k v = d ++ [(k, v)].
Proof.
  induction d as [|[k0 v0] r IH]; cbn; [reflexivity|]. intros H.
  destruct (Z.eqb_spec k k0); [exfalso; apply H; left; congruence|]. f_equal. apply IH. tauto.
Qed.
Lemma keys_app {V} (a b : list (Z * V)) : keys (a ++ b) = keys a ++ keys b.
Proof. unfold keys. apply map_app. Qed.
Lemma zmem_false_notin x l : zmem x l = false <-> ~ In x l.
Proof. rewrite <- zmem_In. destruct (zmem x l); split; intros; congruence. Qed.
Lemma In_zget_some {V} (d : list (Z * V)) k v : In (k, v) d -> exists w, zget d k = Some w.
Proof. intros H. apply keys_In_zget. change k with (fst (k, v)). now apply in_map. Qed.

(* ================================================================================================ *)
(* adjacency as a partial function (atom, atom) -> bond reference *)
Definition aslot (adj : adjacency) (n m : Z) : option ref :=
  match zget adj n with Some r => zget r m | None => None end.
Lemma slot_of_aslot o n m : slot_of o n m = aslot (o_adj o) n m.
Proof. unfold slot_of, row, aslot. now destruct (zget (o_adj o) n). Qed.

Lemma aslot_row adj n m r : aslot adj n m = Some r -> exists rw, zget adj n = Some rw /\ zget rw m = Some r.
Proof. unfold aslot. destruct (zget adj n); [eauto | discriminate]. Qed.
Lemma aslot_key_l adj n m r : aslot adj n m = Some r -> In n (keys adj).
Proof. intros H. apply aslot_row in H. destruct H as [rw [H _]]. eapply zget_In_keys; eauto. Qed.
Lemma aslot_zset adj k rw x y : aslot (zset adj k rw) x y = if x =? k then zget rw y else aslot adj x y.
Proof. unfold aslot. rewrite zget_zset. now destruct (x =? k). Qed.
Lemma aslot_zdel adj k x y : aslot (zdel adj k) x y = if x =? k then None else aslot adj x y.
Proof. unfold aslot. rewrite zget_zdel. now destruct (x =? k). Qed.
Lemma aslot_app adj k x y : ~ In k (keys adj) -> aslot (adj ++ [(k, [])]) x y = aslot adj x y.
Proof.
  intros H. unfold aslot. rewrite zget_app. destruct (zget adj x) eqn:E; [reflexivity|]. cbn.
  destruct (x =? k); reflexivity.
Qed.

(* no duplicate keys, in the outer dict and in every row *)
Definition nd (adj : adjacency) : Prop := NoDup (keys adj) /\ forall n rw, zget adj n = Some rw -> NoDup (keys rw).
Lemma nd_zset adj k rw : nd adj -> NoDup (keys rw) -> nd (zset adj k rw).
Proof.
  intros [N R] H. split; [now apply NoDup_keys_zset|]. intros n rw'. rewrite zget_zset.
  destruct (n =? k); [intros E; inversion E; now subst | apply R].
Qed.
Lemma nd_zdel adj k : nd adj -> nd (zdel adj k).
Proof.
  intros [N R]. split; [now apply NoDup_keys_zdel|]. intros n rw'. rewrite zget_zdel.
  destruct (n =? k); [discriminate | apply R].
Qed.
Lemma nd_app adj k : nd adj -> ~ In k (keys adj) -> nd (adj ++ [(k, [])]).
Proof.
  intros [N R] H. split.
  - rewrite keys_app. cbn. now apply NoDup_snoc.
  - intros n rw'. rewrite zget_app. destruct (zget adj n) eqn:E.
    + intros E'; inversion E'; subst. eapply R; eauto.
    + cbn. destruct (n =? k); [intros E'; inversion E'; constructor | discriminate].
Qed.
Lemma nd_In_aslot adj n rw m r : nd adj -> In (n, rw) adj -> In (m, r) rw -> aslot adj n m = Some r.
Proof.
  intros [N R] H1 H2. assert (zget adj n = Some rw) as E by now apply In_zget_nodup.
  unfold aslot. rewrite E. apply In_zget_nodup; [eapply R; eauto | assumption].
Qed.
Lemma aslot_In adj n m r : aslot adj n m = Some r -> exists rw, In (n, rw) adj /\ In (m, r) rw.
Proof. intros H. apply aslot_row in H. destruct H as [rw [A B]]. exists rw. split; now apply zget_In. Qed.

(* ================================================================================================ *)
(* well-formedness of one molecule in a heap *)
Definition arefs (adj : adjacency) : list ref := refs_of_adj adj.
Record wfa (h : hp) (atoms : list (Z * acell)) (adj : adjacency) : Prop := mkWfa {
  wf_keys : keys adj = keys atoms;
  wf_nd : nd adj;
  wf_sym : forall n m r, aslot adj n m = Some r -> aslot adj m n = Some r;
  wf_loop : forall n, aslot adj n n = None;
  wf_valid : forall r, In r (arefs adj) -> exists c, hget h r = Some c;
  wf_lt : forall r, In r (arefs adj) -> r < h_next h
}.
Definition wf (h : hp) (o : mobj) : Prop := wfa h (o_atoms o) (o_adj o).

Lemma wfa_nbr_atom h atoms adj n m r : wfa h atoms adj -> aslot adj n m = Some r -> In m (keys atoms).
Proof. intros W H. rewrite <- (wf_keys _ _ _ W). eapply aslot_key_l. eapply wf_sym; eauto. Qed.
Lemma wfa_self_atom h atoms adj n m r : wfa h atoms adj -> aslot adj n m = Some r -> In n (keys atoms).
Proof. intros W H. rewrite <- (wf_keys _ _ _ W). eapply aslot_key_l; eauto. Qed.
Lemma wfa_neq h atoms adj n m r : wfa h atoms adj -> aslot adj n m = Some r -> n <> m.
Proof. intros W H E. subst. rewrite (wf_loop _ _ _ W) in H. discriminate. Qed.

(* references held by an adjacency *)
Lemma In_arefs adj r : In r (arefs adj) <-> exists n rw m, In (n, rw) adj /\ In (m, r) rw.
Proof.
  unfold arefs, refs_of_adj. rewrite in_flat_map. split.
  - intros [[n rw] [H1 H2]]. cbn in H2. apply in_map_iff in H2. destruct H2 as [[m r'] [E H2]]. cbn in E. subst.
    exists n, rw, m. tauto.
  - intros [n [rw [m [H1 H2]]]]. exists (n, rw). split; [assumption|]. cbn. apply in_map_iff. exists (m, r). tauto.
Qed.
Lemma aslot_arefs adj n m r : aslot adj n m = Some r -> In r (arefs adj).
Proof. intros H. apply aslot_In in H. destruct H as [rw [A B]]. apply In_arefs. eauto. Qed.
Lemma arefs_aslot adj r : nd adj -> In r (arefs adj) -> exists n m, aslot adj n m = Some r.
Proof. intros N H. apply In_arefs in H. destruct H as [n [rw [m [A B]]]]. exists n, m. eapply nd_In_aslot; eauto. Qed.
Lemma In_snd_zset (rw : list (Z * ref)) k v r : In r (map snd (zset rw k v)) -> r = v \/ In r (map snd rw).
Proof.
  induction rw as [|[k0 v0] t IH]; cbn.
  - intros [E|[]]; auto.
  - destruct (k =? k0); cbn; intros [E|E]; auto. apply IH in E. tauto.
Qed.
Lemma In_snd_zdel (rw : list (Z * ref)) k r : In r (map snd (zdel rw k)) -> In r (map snd rw).
Proof. unfold zdel. intros H. apply in_map_iff in H. destruct H as [x [E H]]. apply filter_In in H. apply in_map_iff. exists x. tauto. Qed.
Lemma In_arefs_zset adj k rw r : In r (arefs (zset adj k rw)) -> In r (map snd rw) \/ In r (arefs adj).
Proof.
  unfold arefs, refs_of_adj. induction adj as [|[k0 v0] t IH]; cbn.
  - rewrite app_nil_r. auto.
  - destruct (k =? k0); cbn; rewrite !in_app_iff; intros [E|E]; auto. apply IH in E. tauto.
Qed.
Lemma In_arefs_zdel adj k r : In r (arefs (zdel adj k)) -> In r (arefs adj).
Proof.
  unfold arefs, refs_of_adj, zdel. rewrite !in_flat_map. intros [x [H1 H2]]. apply filter_In in H1. exists x. tauto.
Qed.
Lemma arefs_app a b : arefs (a ++ b) = arefs a ++ arefs b.
Proof. unfold arefs, refs_of_adj. apply flat_map_app. Qed.
Lemma In_arefs_row adj n rw r : zget adj n = Some rw -> In r (map snd rw) -> In r (arefs adj).
Proof.
  intros H1 H2. apply in_map_iff in H2. destruct H2 as [[m r'] [E H2]]. cbn in E. subst.
  apply In_arefs. exists n, rw, m. split; [now apply zget_In | assumption].
Qed.

(* heap primitives *)
Lemma hget_halloc h c r : hget (fst (halloc h c)) r = if r =? h_next h then Some c else hget h r.
Proof. unfold halloc, hget; cbn. reflexivity. Qed.
Lemma hnext_halloc h c : h_next (fst (halloc h c)) = h_next h + 1.
Proof. reflexivity. Qed.
Lemma snd_halloc h c : snd (halloc h c) = h_next h.
Proof. reflexivity. Qed.
Lemma hget_hset h r c r' : hget (hset h r c) r' = if r' =? r then Some c else hget h r'.
Proof. unfold hset, hget; cbn. apply zget_zset. Qed.
Lemma hnext_hset h r c : h_next (hset h r c) = h_next h.
Proof. reflexivity. Qed.

(* the heap may change as long as allocated cells stay allocated and the allocation pointer does not go back *)
Definition heap_le (h h' : hp) : Prop :=
  h_next h <= h_next h' /\ forall r c, hget h r = Some c -> exists c', hget h' r = Some c'.
Lemma heap_le_refl h : heap_le h h.
Proof. split; [lia | eauto]. Qed.
Lemma heap_le_trans a b c : heap_le a b -> heap_le b c -> heap_le a c.
Proof. intros [L1 V1] [L2 V2]. split; [lia|]. intros r x H. apply V1 in H. destruct H as [y H]. eapply V2; eauto. Qed.
Lemma heap_le_halloc h c : heap_le h (fst (halloc h c)).
Proof.
  split; [rewrite hnext_halloc; lia|]. intros r x H. rewrite hget_halloc. destruct (r =? h_next h); eauto.
Qed.
Lemma heap_le_hset h r c c0 : hget h r = Some c0 -> heap_le h (hset h r c).
Proof.
  intros H0. split; [rewrite hnext_hset; lia|]. intros r' x H. rewrite hget_hset. destruct (r' =? r); eauto.
Qed.
Lemma wfa_heap h h' atoms adj : wfa h atoms adj -> heap_le h h' -> wfa h' atoms adj.
Proof.
  intros W [L V]. destruct W. constructor; auto.
  - intros r H. destruct (wf_valid0 _ H) as [c Hc]. eapply V; eauto.
  - intros r H. apply wf_lt0 in H. lia.
Qed.
Lemma wfa_atoms h atoms atoms' adj : wfa h atoms adj -> keys atoms' = keys atoms -> wfa h atoms' adj.
Proof. intros W E. destruct W. constructor; auto. congruence. Qed.
