(* C02, round 4: the CXSMILES radical block of the writer model (MoleculeSmiles._format_cxsmiles) against its definition:
   the block exists exactly when some atom is a radical, and it lists exactly the zero-based WRITTEN positions of the radical atoms,
   each once, in ascending order - for every molecule and every written order. *)
From Coq Require Import ZArith List String Bool Lia Sorted.
From Model Require Import PyBase Graph Writer.
Import ListNotations.
Open Scope Z_scope.

Definition is_rad (g : mol) (n : Z) : bool := match atom_of g n with Some a => a_rad a | None => false end.

Lemma rp_spec g : forall order i0 p,
  In p (radical_positions g order i0) <->
  exists k n, nth_error order k = Some n /\ p = i0 + Z.of_nat k /\ is_rad g n = true.
Proof.
  induction order as [|m r IH]; intros i0 p; cbn [radical_positions].
  - split; [intros [] | intros (k & n & H & _); destruct k; discriminate].
  - fold (is_rad g m). split.
    + intro H. destruct (is_rad g m) eqn:R.
      * destruct H as [<-|H].
        -- exists 0%nat, m. cbn. repeat split; [lia | exact R].
        -- apply IH in H. destruct H as (k & n & Hn & -> & Hr). exists (S k), n. cbn. repeat split; [exact Hn | lia | exact Hr].
      * apply IH in H. destruct H as (k & n & Hn & -> & Hr). exists (S k), n. cbn. repeat split; [exact Hn | lia | exact Hr].
    + intros (k & n & Hn & -> & Hr). destruct k as [|k].
      * cbn in Hn. inversion Hn; subst n. rewrite Hr. left. lia.
      * cbn in Hn. assert (In (i0 + 1 + Z.of_nat k) (radical_positions g r (i0 + 1))) as H
          by (apply IH; exists k, n; repeat split; assumption).
        replace (i0 + Z.of_nat (S k)) with (i0 + 1 + Z.of_nat k) by lia.
        destruct (is_rad g m); [right|]; exact H.
Qed.

Lemma rp_lower g : forall order i0 p, In p (radical_positions g order i0) -> i0 <= p.
Proof. intros order i0 p H. apply rp_spec in H. destruct H as (k & n & _ & -> & _). lia. Qed.

Lemma rp_sorted g : forall order i0, StronglySorted Z.lt (radical_positions g order i0).
Proof.
  induction order as [|m r IH]; intro i0; cbn [radical_positions]; [constructor|].
  destruct (match atom_of g m with Some a => a_rad a | None => false end).
  - constructor; [apply IH|]. apply Forall_forall. intros p H. apply rp_lower in H. lia.
  - apply IH.
Qed.

Theorem cxsmiles_block_spec : forall g order,
  (* the block exists exactly when the molecule has a radical atom *)
  (format_cxsmiles g order = None <-> existsb (fun na => a_rad (snd na)) (m_atoms g) = false) /\
  (* and then it is '|^1:' + the positions joined by ',' + '|', the positions being exactly the written positions of the radical atoms *)
  (forall cx, format_cxsmiles g order = Some cx ->
     cx = scat ["|^1:"%string; String.concat "," (map str_Z (radical_positions g order 0)); "|"%string]) /\
  (forall p, In p (radical_positions g order 0) <->
     exists k n, nth_error order k = Some n /\ p = Z.of_nat k /\ is_rad g n = true) /\
  StronglySorted Z.lt (radical_positions g order 0).
Proof.
  intros g order. unfold format_cxsmiles. repeat split.
  - destruct (existsb (fun na => a_rad (snd na)) (m_atoms g)); [discriminate | reflexivity].
  - intro H. rewrite H. reflexivity.
  - destruct (existsb (fun na => a_rad (snd na)) (m_atoms g)); intros cx H; [inversion H; reflexivity | discriminate].
  - intro H. apply rp_spec in H. destruct H as (k & n & A & B & C). exists k, n. repeat split; [exact A | lia | exact C].
  - intros (k & n & A & B & C). apply rp_spec. exists k, n. repeat split; [exact A | lia | exact C].
  - apply rp_sorted.
Qed.

(* non-vacuity: C[CH2] written methyl first: position 1 *)
Example cxsmiles_block_example :
  let g := mkMol [(1, mkAtom 6 None 0 false (Some 3) None); (2, mkAtom 6 None 0 true (Some 2) None)]
                 [(1, [(2, mkBond 1 None)]); (2, [(1, mkBond 1 None)])] in
  format_cxsmiles g [1; 2] = Some "|^1:1|"%string /\ format_cxsmiles g [2; 1] = Some "|^1:0|"%string.
Proof. split; vm_compute; reflexivity. Qed.
